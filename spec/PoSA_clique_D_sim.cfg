\* C29 PoSA: family clique, chain configuration D (MCPoSA!SetsD), mode sim
SPECIFICATION SimSpec
CONSTANTS Family = "clique"
          Epoch = 4
          CliqueFixed = FALSE
          Sets <- SetsD
          GenesisSigner = "c"
          G0 = 200
          Keys = {"a", "b", "c", "d", "e", "x"}
          Diffs = {1, 2}
          Defects = {"mix", "time"}
          MaxStored = 14
          MaxLen = 9
          EmitOn = FALSE
          TraceLen = 16
\* PropC29 is not an invariant of this model: the code stores headers sealed by non-signers (finding, see known/C29.json);
\* the monitor clauses are evaluated edge by edge on the real code instead.
INVARIANT PropCanon
INVARIANT ModelSane
CHECK_DEADLOCK FALSE
