\* C29 PoSA: family clique, chain configuration D (MCPoSA!SetsD), mode sim
SPECIFICATION SimSpec
CONSTANTS Family = "clique"
          Epoch = 4
          CliqueFixed = TRUE
          Sets <- SetsD
          GenesisSigner = "c"
          G0 = 200
          Keys = {"a", "b", "c", "d", "e", "x"}
          Diffs = {1, 2}
          Defects = {"mix", "time"}
          MaxStored = 14
          MaxLen = 9
          EmitOn = FALSE
          Sprint = 0
          SpanEnd = 0
          TwoBranch = FALSE
          TraceLen = 16
\* CliqueFixed = FALSE reproduces the two deviations repaired in /repo by the commits 6966a3f and e66d2a4 (then PropC29 is violated in the model)
INVARIANT PropC29
INVARIANT ModelSane
CHECK_DEADLOCK FALSE
