SPECIFICATION Spec
CONSTANTS Table = "e2e"
          Thorough = FALSE
INVARIANT PropC28Model
CHECK_DEADLOCK FALSE
