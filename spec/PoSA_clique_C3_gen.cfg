\* C29 PoSA: family clique, chain configuration C (MCPoSA!SetsC), mode gen
SPECIFICATION Spec
CONSTANTS Family = "clique"
          Epoch = 4
          CliqueFixed = FALSE
          Sets <- SetsC
          GenesisSigner = "c"
          G0 = 200
          Keys = {"a", "b", "c", "x"}
          Diffs = {1, 2}
          Defects <- CliqueDefects
          MaxStored = 3
          MaxLen = 4
          EmitOn = TRUE
          TraceLen = 0
VIEW View
\* PropC29 is not an invariant of this model: the code stores headers sealed by non-signers (finding, see known/C29.json);
\* the monitor clauses are evaluated edge by edge on the real code instead.
INVARIANT PropCanon
INVARIANT ModelSane
INVARIANT ModelEquiv
CHECK_DEADLOCK FALSE
