SPECIFICATION TraceSpec
CONSTANTS Kind = "trace"
          Mode = "vbft"
          Rule = "legacy"
          N = 1
          FullN = 1
          NsLegacy = {}
          NsBft = {}
          NsSolo = {}
          Cfgs = {}
          Lists = {}
          Paths = {}
          D = 0
          AsIs = FALSE
          EmitOn = FALSE
CONSTRAINT HighWater
POSTCONDITION Accepted
CHECK_DEADLOCK FALSE
