\* C29 PoSA: family clique, chain configuration D (MCPoSA!SetsD), mode gen
SPECIFICATION Spec
CONSTANTS Family = "clique"
          Epoch = 4
          CliqueFixed = TRUE
          Sets <- SetsD
          GenesisSigner = "c"
          G0 = 200
          Keys = {"a", "b", "c", "d", "e", "x"}
          Diffs = {1, 2}
          Defects = {"badsig", "time"}
          MaxStored = 3
          MaxLen = 4
          EmitOn = TRUE
          Sprint = 0
          SpanEnd = 0
          TwoBranch = FALSE
          TraceLen = 0
VIEW View
\* CliqueFixed = FALSE reproduces the two deviations repaired in /repo by the commits 6966a3f and e66d2a4 (then PropC29 is violated in the model)
INVARIANT PropC29
INVARIANT ModelSane
INVARIANT ModelEquiv
CHECK_DEADLOCK FALSE
