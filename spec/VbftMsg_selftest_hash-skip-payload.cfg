SPECIFICATION Spec
CONSTANTS EmitOn = FALSE
          ModelMut = "hash-skip-payload"
INVARIANT PropDispatch
INVARIANT PropRoundTrip
INVARIANT PropBind
INVARIANT PropLive
CHECK_DEADLOCK FALSE
