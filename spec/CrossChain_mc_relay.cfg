SPECIFICATION Spec
CONSTANTS Src = {"v","b"}
          Tgt = {"t","w"}
          Ids = {"i1","i2"}
          Vars = {1}
          Gated = {}
          MaxH = 0
          EmitOn = "off"
          GovChains = {"w","v"}
          RelayOn = TRUE
          Silent = {"v","r"}
VIEW View
INVARIANT TypeOK
PROPERTY PropC20 PropC21 PropC22
CHECK_DEADLOCK FALSE
