SPECIFICATION Spec
CONSTANTS Table = "fee"
          Thorough = TRUE
INVARIANT PropC28Model
CHECK_DEADLOCK FALSE
