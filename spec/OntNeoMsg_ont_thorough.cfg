SPECIFICATION Spec
CONSTANTS Chains = {"ont"}
          Ns = {1, 2, 3, 4, 5, 6, 7}
          LightNs = {}
          ExhN = 3
          ExhL = 3
          EmitOn = TRUE
INVARIANT PropC24
CHECK_DEADLOCK FALSE
