----------------------------- MODULE WireTable -----------------------------
(***************************************************************************)
(* C02 / C05 - the decision tables over Wire.tla (pattern P-TABLE).        *)
(*                                                                         *)
(* Init picks an object (a transaction / header / block value with its     *)
(* entry point, or a p2p message value), Pick a row for it, Decide prints  *)
(* the row: input bytes, monitor field `must`, model prediction `exp`.     *)
(*   C02 rows: the valid encoding ("same"); objects the property says must *)
(*     be refused ("reject": oversize transaction, repeated transaction -  *)
(*     also with different signatures -, root mismatch); mutants of valid  *)
(*     encodings ("free": cuts at every part boundary -1/0/+1, every       *)
(*     length prefix and count replaced from a menu, out-of-range version / *)
(*     type / coin type; "reject" for a replaced or flipped root).          *)
(*   C05 rows: the valid frame ("same"); every single-byte corruption      *)
(*     (one flipped bit, 0x00, 0xFF) of it, wrong magic, length field      *)
(*     != payload, length above the limit, unknown command, truncated      *)
(*     stream ("reject"); payload mutants re-framed with a correct         *)
(*     checksum, a known other command, garbage streams ("free").          *)
(* PropC02 / PropC05: on every row the prediction of the decoder model     *)
(* satisfies the monitor: "same" => accepted, value and consumed length    *)
(* equal, every identity equals the unsigned encoding of the value (hence  *)
(* independent of the signature lists); "reject" => error; "free" => no    *)
(* panic.  Checked with Repaired = TRUE (the repaired design); the rows    *)
(* for the driver are generated with Repaired = FALSE (the code as it is,  *)
(* where the named deviations AllocPanic / SlicePanic predict "panic").    *)
(***************************************************************************)
EXTENDS Wire

CONSTANTS Area,      \* "C02" | "C05"
          Tier,      \* "quick" | "thorough"
          EmitOn     \* print rows
VARIABLES sel, done
vars == <<sel, done>>

(* ---- sample values ------------------------------------------------------------- *)
Rnd(n, name) == Tok("rnd:" \o name, n)            \* n seeded random bytes chosen by the driver
F4(b) == <<b, b, b, b>>
F8(b) == <<b, b, b, b, b, b, b, b>>
TxD(sigs) == TxV(F4(255), F8(255), F8(255), Lit(70000, 5), sigs)
TxBig(n)  == TxV(U32(9), U64(2), U64(1), Lit(n, 6), <<>>)           \* total size = 58 + n
Sigs16    == [i \in 1..16 |-> IF i % 2 = 0 THEN S1 ELSE S3]

HdrV(root, height, cp, bks, sigs) ==
    << F4(0), U64(2), Rnd(32, "prev"), root, Rnd(32, "cross"), Rnd(32, "blockroot"), U32(1600000000), height, F8(171), cp,
       Rnd(20, "nextbk"), [i \in 1..Len(bks) |-> <<bks[i]>>], [i \in 1..Len(sigs) |-> <<sigs[i]>>] >>
Sg(b) == Lit(64, b)
RootOf(letters) == IF letters = "" THEN Lit(32, 0) ELSE Tok("root:" \o letters, 32)
BlkV(rootLetters, bks, sigs, txs) == << HdrV(RootOf(rootLetters), U32(7), Lit(5, 123), bks, sigs), txs >>

Obj(sc, entry, v, must, mut) == [sc |-> sc, entry |-> entry, v |-> v, must |-> must, mut |-> mut]
ObjsC02 == [
  tx_a    |-> Obj("tx", "txraw", TxA(<<>>), "same", TRUE),
  tx_a1   |-> Obj("tx", "txraw", TxA(<<S1>>), "same", TRUE),
  tx_a2   |-> Obj("tx", "txraw", TxA(<<S2>>), "same", TRUE),
  tx_a2r  |-> Obj("tx", "txraw", TxA(<<S2r>>), "same", Tier # "quick"),
  tx_a12  |-> Obj("tx", "txraw", TxA(<<S1, S2>>), "same", Tier # "quick"),
  tx_b    |-> Obj("tx", "txraw", TxB(<<S3>>), "same", TRUE),
  tx_c    |-> Obj("tx", "txraw", TxC(<<S2>>), "same", Tier # "quick"),
  tx_d    |-> Obj("tx", "txraw", TxD(<<S1>>), "same", Tier # "quick"),
  tx_16   |-> Obj("tx", "txraw", TxA(Sigs16), "same", Tier # "quick"),
  tx_max  |-> Obj("tx", "txraw", TxBig(MaxTxSize - 58), "same", FALSE),
  tx_over |-> Obj("tx", "txraw", TxBig(MaxTxSize - 57), "reject", FALSE),
  tx_src  |-> Obj("tx", "tx", TxA(<<S1>>), "same", Tier # "quick"),                       \* Deserialization(source) directly
  tx_src_over |-> Obj("tx", "tx", TxBig(MaxTxSize - 57), "reject", FALSE),
  hdr_0   |-> Obj("header", "header", HdrV(Lit(32, 0), U32(0), <<>>, <<>>, <<>>), "same", TRUE),
  hdr_1   |-> Obj("header", "header", HdrV(Rnd(32, "txroot"), U32(7), Lit(300, 123), <<"p1", "p2", "s1", "e1">>, <<Sg(1), Sg(2), Sg(3)>>), "same", TRUE),
  hdr_1r  |-> Obj("header", "header", HdrV(Rnd(32, "txroot"), U32(7), Lit(300, 123), <<"e1", "p1">>, <<Sg(9)>>), "same", Tier # "quick"),
  hdr_2   |-> Obj("header", "header", HdrV(Rnd(32, "txroot"), F4(255), Lit(253, 0), <<"s1">>, <<Lit(65, 4)>>), "same", Tier # "quick"),
  blk_0   |-> Obj("block", "block", BlkV("", <<>>, <<>>, <<>>), "same", TRUE),
  blk_1   |-> Obj("block", "block", BlkV("a", <<"p1">>, <<Sg(1)>>, <<TxA(<<S1>>)>>), "same", TRUE),
  blk_2   |-> Obj("block", "block", BlkV("ab", <<"p1", "p2">>, <<Sg(1), Sg(2)>>, <<TxA(<<S2>>), TxB(<<S3>>)>>), "same", TRUE),
  blk_3   |-> Obj("block", "block", BlkV("abc", <<"p1">>, <<Sg(1)>>, <<TxA(<<>>), TxB(<<S3>>), TxC(<<S2>>)>>), "same", Tier # "quick"),
  blk_dup  |-> Obj("block", "block", BlkV("aa", <<"p1">>, <<Sg(1)>>, <<TxA(<<S1>>), TxA(<<S1>>)>>), "reject", Tier # "quick"),
  blk_dup2 |-> Obj("block", "block", BlkV("aba", <<"p1">>, <<Sg(1)>>, <<TxA(<<S1>>), TxB(<<S3>>), TxA(<<S2r>>)>>), "reject", Tier # "quick"),
  blk_bad1 |-> Obj("block", "block", BlkV("ba", <<"p1">>, <<Sg(1)>>, <<TxA(<<S1>>), TxB(<<S3>>)>>), "reject", Tier # "quick"),
  blk_bad2 |-> Obj("block", "block", BlkV("a", <<"p1">>, <<Sg(1)>>, <<TxA(<<S1>>), TxB(<<S3>>)>>), "reject", FALSE),
  blk_bad3 |-> Obj("block", "block", BlkV("", <<"p1">>, <<Sg(1)>>, <<TxA(<<S1>>)>>), "reject", FALSE),
  blk_bad4 |-> Obj("block", "block", BlkV("ab", <<"p1">>, <<Sg(1)>>, <<TxA(<<S1>>)>>), "reject", FALSE)
]

(* p2p message values *)
AddrE(i) == << U64(1600000000 + i), U64(1), Norm(Lit(12, 0) \o FromBytes(<<10, 0, 0, i % 256>>)), U16(20338), U16(20339), U64(7000 + i) >>
HashE(i) == << Norm(Lit(31, 200) \o Lit(1, i % 256)) >>
VersionV(soft) == << U32(0), U64(1), U64(1600000000), U16(20338), U16(20334), U16(20339), Norm(Lit(1, 1) \o Lit(31, 0)),
                     F8(77), U64(12345), <<1>>, <<1>>, soft >>
ConsV == << U32(0), Rnd(32, "cprev"), U32(100), U16(2), U32(1600000001), Lit(40, 55), "p1", Lit(64, 66) >>
MsgsC05 == [
  ping       |-> Obj("ping", "frame", <<U64(4660)>>, "same", TRUE),
  pong       |-> Obj("pong", "frame", <<F8(255)>>, "same", TRUE),
  version    |-> Obj("version", "frame", VersionV(FromBytes(<<118, 49, 46, 48>>)), "same", TRUE),
  version_e  |-> Obj("version", "frame", VersionV(<<>>), "same", FALSE),
  verack     |-> Obj("verack", "frame", << <<1>> >>, "same", TRUE),
  verack_f   |-> Obj("verack", "frame", << <<0>> >>, "same", FALSE),
  getaddr    |-> Obj("getaddr", "frame", <<>>, "same", TRUE),
  disconnect |-> Obj("disconnect", "frame", <<>>, "same", TRUE),
  addr       |-> Obj("addr", "frame", << <<AddrE(1), AddrE(2)>> >>, "same", TRUE),
  addr_0     |-> Obj("addr", "frame", << <<>> >>, "same", TRUE),
  addr_64    |-> Obj("addr", "frame", << [i \in 1..(IF Tier = "quick" THEN 3 ELSE 64) |-> AddrE(i)] >>, "same", FALSE),
  addr_65    |-> Obj("addr", "frame", << [i \in 1..65 |-> AddrE(i)] >>, "free", FALSE),       \* clamped to MAX_ADDR_NODE_CNT
  getheaders |-> Obj("getheaders", "frame", << <<5>>, Rnd(32, "hs"), Lit(32, 0) >>, "same", TRUE),
  getblocks  |-> Obj("getblocks", "frame", << <<255>>, Rnd(32, "hs"), Rnd(32, "he") >>, "same", TRUE),
  headers    |-> Obj("headers", "frame", << << HdrV(Lit(32, 0), U32(1), <<>>, <<"p1">>, <<Sg(1)>>),
                                              HdrV(Rnd(32, "txroot"), U32(2), Lit(3, 1), <<"p1", "e1">>, <<Sg(1), Sg(2)>>) >> >>, "same", TRUE),
  headers_0  |-> Obj("headers", "frame", << <<>> >>, "same", FALSE),
  inv        |-> Obj("inv", "frame", << <<2>>, <<HashE(1), HashE(2)>> >>, "same", TRUE),
  inv_64     |-> Obj("inv", "frame", << <<1>>, [i \in 1..(IF Tier = "quick" THEN 3 ELSE 64) |-> HashE(i)] >>, "same", FALSE),
  inv_65     |-> Obj("inv", "frame", << <<1>>, [i \in 1..65 |-> HashE(i)] >>, "free", FALSE),   \* clamped to MAX_INV_BLK_CNT
  getdata    |-> Obj("getdata", "frame", << <<2>>, Rnd(32, "hs") >>, "same", TRUE),
  blockmsg   |-> Obj("blockmsg", "frame", << BlkV("ab", <<"p1", "p2">>, <<Sg(1), Sg(2)>>, <<TxA(<<S2>>), TxB(<<S3>>)>>), Rnd(32, "mr") >>, "same", TRUE),
  txmsg      |-> Obj("txmsg", "frame", << TxA(<<S1>>) >>, "same", TRUE),
  consensus  |-> Obj("consensus", "frame", ConsV, "same", TRUE),
  notfound   |-> Obj("notfound", "frame", << Rnd(32, "hs") >>, "same", TRUE)
]
Objs == IF Area = "C02" THEN ObjsC02 ELSE MsgsC05
ObjIds == DOMAIN Objs

(* ---- mutants of an encoding ------------------------------------------------------- *)
VU9(b8) == <<255>> \o b8
P63m1 == <<255, 255, 255, 255, 255, 255, 255, 127>>
P63   == <<0, 0, 0, 0, 0, 0, 0, 128>>
P48   == <<0, 0, 0, 0, 0, 0, 1, 0>>
NonCanon(n) == IF n < 253 THEN <<253, n, 0>> ELSE <<254>> \o U32(n)
Alts(kd, n) ==
    IF kd = "len" THEN << EncVU(U64(0)), EncVU(U64(IF n > 0 THEN n - 1 ELSE 0)), EncVU(U64(n + 1)), NonCanon(n), <<253, 255, 255>>,
                          <<254, 255, 255, 255, 255>>, VU9(P63), VU9(F8(255)) >>
    ELSE IF kd = "cnt:vu" \/ kd = "cnt:vu:alloc"
         THEN << EncVU(U64(0)), EncVU(U64(IF n > 0 THEN n - 1 ELSE 0)), EncVU(U64(n + 1)), NonCanon(n), <<253, 255, 255>>,
                 VU9(P48), VU9(P63m1), VU9(P63), VU9(F8(255)) >>
    ELSE IF kd = "cnt:u16" THEN << U16(0), U16(IF n > 0 THEN n - 1 ELSE 0), U16(n + 1), <<255, 255>> >>
    ELSE IF kd = "cnt:u32" THEN << U32(0), U32(IF n > 0 THEN n - 1 ELSE 0), U32(n + 1), <<255, 255, 0, 0>>, F4(255) >>
    ELSE IF kd = "cnt:u64" THEN << U64(0), U64(IF n > 0 THEN n - 1 ELSE 0), U64(n + 1), U64(65), P63m1, P63, F8(255) >>
    ELSE IF kd = "fixin" THEN << <<1>>, <<255>>, <<208>>, <<1, 0, 0, 0>>, F4(255) >>
    ELSE IF kd = "bool" THEN << <<2>>, <<255>>, <<0>>, <<1>> >>
    ELSE <<>>

AltNames(kd) ==
    IF kd = "len" THEN <<"zero", "minus1", "plus1", "noncanon", "ffff", "ffffffff", "2^63", "2^64-1">>
    ELSE IF kd = "cnt:vu" \/ kd = "cnt:vu:alloc" THEN <<"zero", "minus1", "plus1", "noncanon", "ffff", "2^48", "2^63-1", "2^63", "2^64-1">>
    ELSE IF kd = "cnt:u16" THEN <<"zero", "minus1", "plus1", "ffff">>
    ELSE IF kd = "cnt:u32" THEN <<"zero", "minus1", "plus1", "ffff", "ffffffff">>
    ELSE IF kd = "cnt:u64" THEN <<"zero", "minus1", "plus1", "65", "2^63-1", "2^63", "2^64-1">>
    ELSE IF kd = "fixin" THEN <<"1", "255", "208", "1-u32", "ffffffff">>
    ELSE <<"2", "255", "0", "1">>

RECURSIVE BoundaryAt(_, _)
BoundaryAt(parts, i) == IF i = 0 THEN 0 ELSE BoundaryAt(parts, i - 1) + BLen(parts[i].b)
PartsBuf(parts) == Norm(Cat([i \in 1..Len(parts) |-> parts[i].b]))
ReplacePart(parts, i, b) == Norm(Cat([j \in 1..Len(parts) |-> IF j = i THEN b ELSE parts[j].b]))

(* the mutants of the encoding of a schema value: [op, i, a, s]
     "cut"  boundary i, delta a      "alt"  part i, alternative a      "root" (blocks) root replaced / last byte changed *)
Mutants(sc, v, withRoot) ==
    LET parts == PartsS(sc, v)
        enc   == PartsBuf(parts)
        L     == BLen(enc)
        bnd   == [i \in 0..Len(parts) |-> BoundaryAt(parts, i)]
        alts  == [i \in 1..Len(parts) |-> Alts(parts[i].kd, parts[i].n)]
    IN UNION {{[op |-> "cut", i |-> i, a |-> d, kd |-> "", an |-> "", s |-> Take(enc, bnd[i] + d)] :
                  d \in {dd \in {-1, 0, 1} : bnd[i] + dd >= 0 /\ bnd[i] + dd < L}} : i \in 0..Len(parts)}
       \cup UNION {{[op |-> "alt", i |-> i, a |-> a, kd |-> parts[i].kd, an |-> AltNames(parts[i].kd)[a], s |-> ReplacePart(parts, i, FromBytes(alts[i][a]))] :
                      a \in {x \in 1..Len(alts[i]) : /\ FromBytes(alts[i][x]) # parts[i].b
                                                      /\ (parts[i].kd \in {"fixin", "bool"} => Len(alts[i][x]) = BLen(parts[i].b))}} :
                   i \in 1..Len(parts)}
       \cup (IF withRoot THEN {[op |-> "root", i |-> 4, a |-> 1, kd |-> "root", an |-> "junk", s |-> ReplacePart(parts, 4, Rnd(32, "junkroot"))],
                               [op |-> "root", i |-> 4, a |-> 2, kd |-> "root", an |-> "lastbyte", s |-> ReplacePart(parts, 4, SetByte(parts[4].b, 31, IF ByteAt(parts[4].b, 31) = 1 THEN 2 ELSE 1))]}
             ELSE {})

(* ---- C05: frames ---------------------------------------------------------------------- *)
(* corrupted positions: the whole 24-byte header and the whole payload; in the quick tier long payloads are sampled *)
BytePositions(L) == IF Tier # "quick" \/ L <= 24 + 40 THEN 0..(L - 1)
                    ELSE {p \in 0..(L - 1) : p < 24 + 12 \/ p >= L - 6 \/ p % (1 + (L \div 24)) = 0}
MagicAlts == << <<67, 68, 78, 0>>, <<66, 68, 78, 1>>, <<0, 0, 0, 0>>, <<0, 78, 68, 66>> >>
LenAlts(n) == << U32(0), U32(IF n > 0 THEN n - 1 ELSE 1), U32(n + 1), U32(MaxPayload + 1), F4(255), U32(n + 16777216) >>
CmdAlts == << <<102, 111, 111>>, [i \in 1..12 |-> 97], <<>>, <<112, 105, 110, 103, 0, 120>>, CmdBytes["ping"], CmdBytes["pong"], CmdBytes["getaddr"],
              CmdBytes["notfound"], CmdBytes["txmsg"], CmdBytes["addr"], CmdBytes["inv"], CmdBytes["verack"] >>
CmdAltNames == <<"foo", "aaaaaaaaaaaa", "empty", "ping-nul-x", "ping", "pong", "getaddr", "notfound", "tx", "addr", "inv", "verack">>
FrameCuts(L) == {c \in {0, 1, 3, 4, 5, 15, 16, 19, 20, 23, 24, 25, (24 + L) \div 2, L - 2, L - 1} : c >= 0 /\ c < L}
Junk == << Lit(24, 0), Lit(24, 255), FromBytes(Magic) \o Lit(20, 0), FromBytes(Magic) \o Lit(40, 255),
           FromBytes(Magic \o Pad(CmdBytes["ping"], 12) \o U32(8)) \o Lit(12, 0), Lit(3, 66), <<>>,
           FromBytes(Magic \o Pad(CmdBytes["getaddr"], 12) \o U32(0)) \o Lit(4, 0) >>

FlipBit(b, p) == LET m == 2 ^ (p % 8) IN IF (b \div m) % 2 = 1 THEN b - m ELSE b + m
ByteMut(f, p, k) == LET b == ByteAt(f, p) IN
                    IF b < 0 THEN 0                                   \* token byte: the model only needs "some other byte"
                    ELSE IF k = 1 THEN FlipBit(b, p) ELSE IF k = 2 THEN 0 ELSE 255
NoEx == D(<<>>, 0, "", <<>>)
RowK(o, op, i, a, kd, an, s, refp, must) ==
    [o |-> o, op |-> op, i |-> i, a |-> a, kd |-> kd, an |-> an, s |-> s, refp |-> refp, must |-> must, ex |-> NoEx]
Row(o, op, i, a, s, refp, must) == RowK(o, op, i, a, "", "", s, refp, must)

(* C05 rows of a message object: the stream, the payload the checksum token stands for, the monitor *)
FrameRows(o) ==
    LET ob == Objs[o]  pl == Enc(ob.sc, ob.v)  f == WriteFrame(ob.sc, pl)  n == BLen(pl)  L == BLen(f)
        cmd == Pad(CmdBytes[ob.sc], 12) IN
    {Row(o, "valid", 0, 0, f, pl, ob.must)}
    \cup (IF ob.mut \/ Tier # "quick" THEN {Row(o, "trail", 0, 0, Norm(f \o Lit(30, 255)), pl, ob.must)} ELSE {})
    \cup (IF ob.mut THEN
            {LET g == SetByte(f, p, ByteMut(f, p, k)) IN Row(o, "byte", p, k, g, pl, IF g = f THEN ob.must ELSE "reject") :
                 p \in BytePositions(L), k \in 1..3}
            \cup {Row(o, "magic", 0, a, Norm(FrameHdr(MagicAlts[a], cmd, U32(n)) \o pl), pl, "reject") : a \in 1..Len(MagicAlts)}
            \cup {Row(o, "length", 0, a, Norm(FrameHdr(Magic, cmd, LenAlts(n)[a]) \o pl), pl,
                      IF LenAlts(n)[a] = U32(n) THEN ob.must ELSE "reject") : a \in 1..6}
            \cup {RowK(o, "cmd", 0, a, "cmd", CmdAltNames[a], Norm(FrameHdr(Magic, Pad(CmdAlts[a], 12), U32(n)) \o pl), pl,
                      IF CmdAlts[a] = CmdBytes[ob.sc] THEN ob.must
                      ELSE IF \E m \in MsgNames : CmdBytes[m] = TrimRight0(Pad(CmdAlts[a], 12)) THEN "free" ELSE "reject") : a \in 1..Len(CmdAlts)}
            \cup {Row(o, "fcut", c, 0, Take(f, c), pl, "reject") : c \in FrameCuts(L)}
            \cup {LET p2 == Norm(m.s) IN RowK(o, IF m.op = "cut" THEN "pmcut" ELSE "pmalt", m.i, m.a, m.kd, m.an, WriteFrame(ob.sc, p2), p2, "free") :
                      m \in Mutants(ob.sc, ob.v, FALSE)}
          ELSE {})
    \cup (IF o = "ping" THEN {LET p2 == Norm(pl \o Lit(MaxPayload + a - n, 0)) IN
                                 Row(o, "big", 0, a, WriteFrame(ob.sc, p2), p2, IF a = 0 THEN "free" ELSE "reject") : a \in {0, 1}}
                             \cup {Row(o, "junk", j, 0, Norm(Junk[j]), <<>>, "free") : j \in 1..Len(Junk)} ELSE {})

(* C02 rows of a ledger object *)
ObjRows(o) ==
    LET ob == Objs[o] IN
    {Row(o, "valid", 0, 0, Enc(ob.sc, ob.v), <<>>, ob.must)}
    \cup (IF ob.mut THEN {RowK(o, m.op, m.i, m.a, m.kd, m.an, Norm(m.s), <<>>, IF m.op = "root" THEN "reject" ELSE "free") :
                              m \in Mutants(ob.sc, ob.v, ob.sc = "block")} ELSE {})

RowsOf(o) == IF Area = "C05" THEN FrameRows(o) ELSE ObjRows(o)
EntryOf(o) == Objs[o].entry
(* the code as it is / the repaired design *)
WR == INSTANCE Wire WITH Repaired <- TRUE
PredictAsIs(r)     == IF EntryOf(r.o) = "frame" THEN ReadFrame(r.s, r.refp) ELSE Dec(EntryOf(r.o), r.s)
PredictRepaired(r) == IF EntryOf(r.o) = "frame" THEN WR!ReadFrame(r.s, r.refp) ELSE WR!Dec(EntryOf(r.o), r.s)

(* the identities a valid value must produce: transaction = its unsigned bytes, header = its unsigned bytes *)
RECURSIVE IdsOf(_, _)
IdsOfField(f, v) == IF f.t = "sub" THEN IdsOf(f.el, v)
                    ELSE IF f.t = "list" /\ f.el \in {"tx", "header"} THEN Cat([i \in 1..Len(v) |-> IdsOf(f.el, v[i])])
                    ELSE <<>>
IdsOf(sc, v) == IF sc = "tx" THEN <<TxUnsigned(v)>>
                ELSE IF sc = "header" THEN <<HdrUnsigned(v)>>
                ELSE Cat([i \in 1..Len(Schema[sc]) |-> IdsOfField(Schema[sc][i], v[i])])

Sat(r, ex) ==
    LET ob == Objs[r.o] IN
    IF r.must = "same" THEN /\ ex.e = OK
                            /\ ex.v = ob.v
                            /\ ex.h = IdsOf(ob.sc, ob.v)
                            /\ (ob.entry # "frame" => ex.p = BLen(r.s))
    ELSE IF r.must = "reject" THEN ex.e = ERR
    ELSE ex.e # PANIC
(* the repaired design satisfies the monitor on every row; the code as it is does so except where a named
   deviation (AllocPanic, SlicePanic) predicts a panic - those rows are what the driver is expected to confirm *)
PropWire == ~done \/ (Sat(sel, PredictRepaired(sel)) /\ (sel.ex.e = PANIC \/ Sat(sel, sel.ex)))
PropC02 == Area = "C02" => PropWire
PropC05 == Area = "C05" => PropWire

(* signature independence, stated directly: equal unsigned fields => equal identity, whatever the signature lists *)
SigObjs == {o \in ObjIds : Objs[o].sc \in {"tx", "header"}}
SigIds  == [o \in SigObjs |-> PredictAsIs(Row(o, "valid", 0, 0, Enc(Objs[o].sc, Objs[o].v), <<>>, "same")).h]
SigIndependent ==
    \A x, y \in SigObjs :
        LET n == IF Objs[x].sc = "tx" THEN TxUnsignedN ELSE HeaderUnsignedN IN
        (Objs[x].sc = Objs[y].sc /\ SubSeq(Objs[x].v, 1, n) = SubSeq(Objs[y].v, 1, n)) => SigIds[x] = SigIds[y]
ASSUME SigIndependent

(* ---- JSON ------------------------------------------------------------------------------------ *)
RECURSIVE JVal(_, _)
JField(f, v) == IF f.t \in {"raw", "optraw", "vb", "optstr"} THEN J(v)
                ELSE IF f.t = "list" THEN [i \in 1..Len(v) |-> JVal(f.el, v[i])]
                ELSE IF f.t = "sub" THEN JVal(f.el, v)
                ELSE v
JVal(sc, v) == [i \in 1..Len(Schema[sc]) |-> JField(Schema[sc][i], v[i])]
JUni == [a \in UniLetters |-> J(TxUnsigned(UniTx[a]))]
RowOut(ex) ==
    LET ob == Objs[sel.o] IN
    [area |-> Area, o |-> sel.o, op |-> sel.op, i |-> sel.i, a |-> sel.a, kd |-> sel.kd, an |-> sel.an, sc |-> ob.sc, entry |-> ob.entry, must |-> sel.must,
     s |-> J(sel.s), refp |-> J(sel.refp),
     val |-> IF sel.must = "same" THEN JVal(ob.sc, ob.v) ELSE <<>>,
     exp |-> [e |-> ex.e, p |-> ex.p, h |-> [i \in 1..Len(ex.h) |-> J(ex.h[i])]],
     uni |-> IF ob.sc \in {"block", "blockmsg"} THEN JUni ELSE <<>>]

(* ---- table machine ------------------------------------------------------------------------------ *)
Init == sel \in {Row(o, "first", 0, 0, <<>>, <<>>, "") : o \in ObjIds} /\ done = FALSE
Pick == /\ sel.op = "first"
        /\ sel' \in RowsOf(sel.o)
        /\ UNCHANGED done
Decide == /\ sel.op # "first" /\ ~done /\ done' = TRUE
          /\ LET ex == PredictAsIs(sel) IN
             /\ sel' = [sel EXCEPT !.ex = ex]                  \* the prediction travels in the state: the invariant reads it
             /\ (~EmitOn \/ PrintT(<<"ROW", ToJson(RowOut(ex))>>))
Next == Pick \/ Decide
Spec == Init /\ [][Next]_vars
=============================================================================
