------------------------------- MODULE Schema -------------------------------
(***************************************************************************)
(* C04 - native-contract call parameters and persisted records round-trip  *)
(* canonically.                                                            *)
(*                                                                         *)
(* A *schema* is a tree of field kinds                                     *)
(*   u8 u16 u32 u64 i64 varuint bool varbytes string addr hash vaddr      *)
(*   bigint list(cnt,of) map(cnt,key,val,ord) mapv(cnt,item,kf,ord)       *)
(*   struct(fields) opttail                                                *)
(* and the table Types lists every parameter / record type of the files    *)
(* the property anchors in (param.go / states.go of the native contracts,  *)
(* native/states/contract.go, core/states/storage_item.go) with its wire   *)
(* layout, including the sort order each map uses.                         *)
(*                                                                         *)
(*   EncK(t, v)          reference encoder (bytes are 0..255, 64-bit       *)
(*                       quantities are little-endian byte tuples: TLC     *)
(*                       integers are 32 bit)                              *)
(*   EncImpl(t, v, pi)   encoder in the code's shape: a Go map is walked   *)
(*                       in iteration order number pi, the entries are     *)
(*                       collected, stable-sorted with the comparator the  *)
(*                       code passes to sort.SliceStable, then written     *)
(*   DecK(t, b, p, len)  total decoder; len = FALSE is the *strict*        *)
(*                       reference (what "well-formed" means), len = TRUE  *)
(*                       is the code's shape: the trailing optional field  *)
(*                       (ExtraInfo) is read with its eof flag ignored.    *)
(*                                                                         *)
(* Monitor (the listed property and nothing more):                         *)
(*   PropRoundTrip   Dec(Enc(v)) = v, consuming exactly the encoding       *)
(*   PropCanonical   EncImpl(v, pi) = EncK(v) for every iteration order    *)
(*   PropTotal       every proper prefix of an encoding is rejected (the   *)
(*                   legacy record without the optional tail excepted);    *)
(*                   a decoder result is never a partial value: whatever   *)
(*                   is accepted re-encodes and decodes to itself          *)
(*                                                                         *)
(* Binding: P-TABLE.  One state per (type, value); Next prints the row:    *)
(* value, reference bytes, which cuts are accepted, and for every count /  *)
(* length prefix the mutants {0, n-1, n+1, non-minimal, 0xFFFF, 2^32, 2^64-1}*)
(* with the strict and the code-shaped verdict.  harness/cmd/vd-schema     *)
(* builds the Go value by reflection and compares the real codecs.         *)
(***************************************************************************)
EXTENDS Integers, Sequences, FiniteSets, TLC, Json, SchemaSeed

CONSTANTS EmitOn,     \* TRUE: print SCHEMA / ROW lines (generation run)
          Thorough,   \* TRUE: larger menus (maps up to 6 entries, 64 KiB strings)
          NPerm,      \* number of map iteration orders tried by PropCanonical
          NCombo,     \* seeded all-fields-vary rows per type
          CutBound,   \* all-prefix check only for encodings up to this length
          ModelMut    \* "none"; "nosort" / "lenkey" are spec self-tests (a seeded model defect must be flagged)

VARIABLES row,   \* <<type index, row number, value>>; row number 0 = per-type start state
          ana    \* the analysis of the row (reference bytes, accepted cuts, mutants with verdicts), computed once

(* ------------------------------------------------------------------------ *)
(* bytes                                                                    *)
(* ------------------------------------------------------------------------ *)
Tup(f) == f \o <<>>            \* forces TLC to materialise a lazily evaluated function as a tuple (evaluated once)
Rep(n, x) == IF n = 0 THEN <<>> ELSE Tup([i \in 1..n |-> x])
RECURSIVE LEw(_, _)
LEw(n, w) == IF w = 0 THEN <<>> ELSE <<n % 256>> \o LEw(n \div 256, w - 1)
N8(n) == LEw(n, 8)
Rev(s) == IF Len(s) = 0 THEN <<>> ELSE Tup([i \in 1..Len(s) |-> s[Len(s) + 1 - i]])
SB(i) == SeedBytes[(i % 64) + 1]
Fill(n, s) == IF n = 0 THEN <<>> ELSE Tup([i \in 1..n |-> SB(s + 3 * i)])
Min(S) == CHOOSE x \in S : \A y \in S : x <= y

RECURSIVE Flat(_, _)
Flat(ss, i) == IF i > Len(ss) THEN <<>> ELSE ss[i] \o Flat(ss, i + 1)
Flatten(ss) == Flat(ss, 1)

RECURSIVE LexLessFrom(_, _, _)
LexLessFrom(a, b, i) == IF i > Len(a) THEN i <= Len(b)
                        ELSE IF i > Len(b) THEN FALSE
                        ELSE IF a[i] # b[i] THEN a[i] < b[i]
                        ELSE LexLessFrom(a, b, i + 1)
LexLess(a, b) == LexLessFrom(a, b, 1)

Hi0(v, from) == \A i \in from..8 : v[i] = 0
Small(v) == Hi0(v, 5) /\ v[4] < 64                     \* fits a TLC integer comfortably
ToInt(v) == v[1] + 256 * v[2] + 65536 * v[3] + 16777216 * v[4]

EncVarUint(v) == IF Hi0(v, 2) /\ v[1] < 253 THEN <<v[1]>>
                 ELSE IF Hi0(v, 3) THEN <<253, v[1], v[2]>>
                 ELSE IF Hi0(v, 5) THEN <<254, v[1], v[2], v[3], v[4]>>
                 ELSE <<255>> \o v
EncVarUintN(n) == EncVarUint(N8(n))
EncCount(c, n) == IF c = "u64" THEN N8(n) ELSE EncVarUintN(n)

(* ------------------------------------------------------------------------ *)
(* kinds                                                                    *)
(* ------------------------------------------------------------------------ *)
U8 == [k |-> "u8"]     U16 == [k |-> "u16"]   U32 == [k |-> "u32"]   U64 == [k |-> "u64"]
I64 == [k |-> "i64"]   VU == [k |-> "varuint"] BOOL == [k |-> "bool"]
VB == [k |-> "varbytes"]  STR == [k |-> "string"]  ADDR == [k |-> "addr"]  HASH == [k |-> "hash"]
VADDR == [k |-> "vaddr"]  BIG == [k |-> "bigint"]  OPT == [k |-> "opttail"]
L(c, of) == [k |-> "list", cnt |-> c, of |-> of]
M(c, key, val, ord) == [k |-> "map", cnt |-> c, key |-> key, val |-> val, ord |-> ord]
MV(c, item, kf, ord) == [k |-> "mapv", cnt |-> c, item |-> item, kf |-> kf, ord |-> ord]
S(fs) == [k |-> "struct", fs |-> fs]
F(n, t) == [n |-> n, t |-> t, c |-> ""]
FC(n, t, c) == [n |-> n, t |-> t, c |-> c]       \* c: "nz" (decoder refuses 0), "zero" (decoder refuses > 0)

FixedW(t) == CASE t.k = "u8" -> 1 [] t.k = "u16" -> 2 [] t.k = "u32" -> 4 [] t.k = "u64" -> 8
               [] t.k = "i64" -> 8 [] t.k = "addr" -> 20 [] t.k = "hash" -> 32 [] OTHER -> 0
IsFixed(t) == FixedW(t) > 0
IsBytes(t) == t.k \in {"varbytes", "string", "vaddr", "bigint", "opttail"}

Allowed(c, v) == CASE c = "nz" -> v # Rep(8, 0)
                   [] c = "zero" -> v = <<0>>
                   [] OTHER -> TRUE

(* order of map keys: "bytes" = Go string comparison, "rev" = numeric uint64 (little-endian tuples)  *)
(* and Address.ToHexString, which prints the address *reversed*                                     *)
KeyLess(ord, a, b) == IF ord = "rev" THEN LexLess(Rev(a), Rev(b)) ELSE LexLess(a, b)
ImplLess(ord, a, b) == IF ModelMut = "lenkey" /\ ord = "bytes" THEN Len(a) < Len(b)   \* self-test: a non-total comparator
                       ELSE KeyLess(ord, a, b)

(* entries of a map value are pairs <<key, value>>; the value is a *set* of pairs with distinct keys *)
RECURSIVE SortDesc(_, _)
SortDesc(E, ord) == IF E = {} THEN <<>>
                    ELSE LET m == CHOOSE x \in E : \A y \in E \ {x} : KeyLess(ord, y[1], x[1])
                         IN <<m>> \o SortDesc(E \ {m}, ord)
RECURSIVE SortAsc(_, _)
SortAsc(E, ord) == IF E = {} THEN <<>>
                   ELSE LET m == CHOOSE x \in E : \A y \in E \ {x} : KeyLess("bytes", x[1], y[1])
                        IN <<m>> \o SortAsc(E \ {m}, ord)

(* ------------------------------------------------------------------------ *)
(* reference encoder                                                        *)
(* ------------------------------------------------------------------------ *)
RECURSIVE EncK(_, _)
EncK(t, v) ==
    CASE IsFixed(t) -> v
      [] t.k = "varuint" -> EncVarUint(v)
      [] t.k = "bool" -> IF v THEN <<1>> ELSE <<0>>
      [] IsBytes(t) -> EncVarUintN(Len(v)) \o v
      [] t.k = "list" -> EncCount(t.cnt, Len(v)) \o Flatten([i \in 1..Len(v) |-> EncK(t.of, v[i])])
      [] t.k = "map" -> LET s == SortDesc(v, t.ord)
                        IN EncCount(t.cnt, Len(s)) \o
                           Flatten([i \in 1..Len(s) |-> EncK(t.key, s[i][1]) \o EncK(t.val, s[i][2])])
      [] t.k = "mapv" -> LET s == SortDesc(v, t.ord)
                         IN EncCount(t.cnt, Len(s)) \o Flatten([i \in 1..Len(s) |-> EncK(t.item, s[i][2])])
      [] t.k = "struct" -> Flatten([i \in 1..Len(t.fs) |-> EncK(t.fs[i].t, v[i])])

(* ------------------------------------------------------------------------ *)
(* encoder in the code's shape: Go map iteration order pi, then            *)
(* sort.SliceStable(list, func(i, j) bool { return key(i) > key(j) })      *)
(* ------------------------------------------------------------------------ *)
RemoveAt(s, i) == SubSeq(s, 1, i - 1) \o SubSeq(s, i + 1, Len(s))
RECURSIVE KthPerm(_, _)
KthPerm(s, k) == IF Len(s) = 0 THEN <<>>
                 ELSE LET n == Len(s)
                          i == (k % n) + 1
                      IN <<s[i]>> \o KthPerm(RemoveAt(s, i), k \div n)

(* the comparator of PeerPoolMap looks at a field of the *item*, all others at the map key *)
SortKeyOf(t, e) == IF t.k = "mapv" THEN e[2][t.kf] ELSE e[1]
Before(t, x, y) == ImplLess(t.ord, SortKeyOf(t, y), SortKeyOf(t, x))       \* less(i, j): key_i > key_j

RECURSIVE StableSort(_, _)
StableSort(t, s) ==
    IF Len(s) <= 1 THEN s
    ELSE LET r == StableSort(t, SubSeq(s, 1, Len(s) - 1))
             x == s[Len(s)]
             B == {i \in 1..Len(r) : Before(t, x, r[i])}
             at == IF B = {} THEN Len(r) + 1 ELSE Min(B)
         IN SubSeq(r, 1, at - 1) \o <<x>> \o SubSeq(r, at, Len(r))

Collected(t, v, pi) == LET it == KthPerm(SortAsc(v, t.ord), pi)
                       IN IF ModelMut = "nosort" THEN it ELSE StableSort(t, it)

RECURSIVE EncImpl(_, _, _)
EncImpl(t, v, pi) ==
    CASE t.k = "map" -> LET s == Collected(t, v, pi)
                        IN EncCount(t.cnt, Len(s)) \o
                           Flatten([i \in 1..Len(s) |-> EncK(t.key, s[i][1]) \o EncK(t.val, s[i][2])])
      [] t.k = "mapv" -> LET s == Collected(t, v, pi)
                         IN EncCount(t.cnt, Len(s)) \o Flatten([i \in 1..Len(s) |-> EncK(t.item, s[i][2])])
      [] t.k = "struct" -> Flatten([i \in 1..Len(t.fs) |-> EncImpl(t.fs[i].t, v[i], pi + i)])
      [] OTHER -> EncK(t, v)

(* ------------------------------------------------------------------------ *)
(* total decoder                                                            *)
(* ------------------------------------------------------------------------ *)
Err == [st |-> "err", v |-> <<>>, p |-> 0]
(* rejected because a list / map count exceeds the remaining input *and* is huge (>= 2^24): the rows carry this as  *)
(* `big`, so that the driver can recognise inputs which kill a decoder that allocates by the count                 *)
ErrBigCount == [st |-> "err", v |-> <<>>, p |-> -1]
CountErr(c) == IF ~Small(c) \/ ToInt(c) >= 16777216 THEN ErrBigCount ELSE Err
Sem == [st |-> "sem", v |-> <<>>, p |-> 0]      \* syntactically fine, refused by a semantic test of the decoder
Ok(v, p) == [st |-> "ok", v |-> v, p |-> p]
Avail(b, p) == Len(b) - p + 1
Take(b, p, n) == IF n <= Avail(b, p) THEN Ok(SubSeq(b, p, p + n - 1), p + n) ELSE Err

DecVarUint(b, p) ==
    IF Avail(b, p) < 1 THEN Err
    ELSE LET f == b[p]
         IN IF f < 253 THEN Ok(<<f, 0, 0, 0, 0, 0, 0, 0>>, p + 1)
            ELSE LET w == IF f = 253 THEN 2 ELSE IF f = 254 THEN 4 ELSE 8
                     r == Take(b, p + 1, w)
                 IN IF r.st # "ok" THEN Err ELSE Ok(r.v \o Rep(8 - w, 0), r.p)
DecCount(c, b, p) == IF c = "u64" THEN Take(b, p, 8) ELSE DecVarUint(b, p)

DecVarBytes(b, p) ==
    LET c == DecVarUint(b, p)
    IN IF c.st # "ok" THEN Err
       ELSE IF ~Small(c.v) \/ ToInt(c.v) > Avail(b, c.p) THEN Err
       ELSE Take(b, c.p, ToInt(c.v))

RECURSIVE StripZeros(_)
StripZeros(s) == IF Len(s) > 0 /\ s[1] = 0 THEN StripZeros(Tail(s)) ELSE s

PutEntry(E, k, v) == {x \in E : x[1] # k} \cup {<<k, v>>}

RECURSIVE DecK(_, _, _, _), DecSeq(_, _, _, _, _, _), DecMap(_, _, _, _, _, _), DecFields(_, _, _, _, _, _)
DecK(t, b, p, len) ==
    CASE IsFixed(t) -> Take(b, p, FixedW(t))
      [] t.k = "varuint" -> DecVarUint(b, p)
      [] t.k = "bool" -> LET r == Take(b, p, 1)
                         IN IF r.st # "ok" THEN Err
                            ELSE IF r.v[1] = 0 THEN Ok(FALSE, r.p)
                            ELSE IF r.v[1] = 1 THEN Ok(TRUE, r.p) ELSE Err
      [] t.k \in {"varbytes", "string"} -> DecVarBytes(b, p)
      [] t.k = "vaddr" -> LET r == DecVarBytes(b, p)
                          IN IF r.st = "ok" /\ Len(r.v) # 20 THEN Err ELSE r
      [] t.k = "bigint" -> LET r == DecVarBytes(b, p)
                           IN IF r.st = "ok" THEN Ok(StripZeros(r.v), r.p) ELSE r
      [] t.k = "opttail" ->
            LET r == DecVarBytes(b, p)
            IN IF r.st = "ok" THEN r
               ELSE IF len
                    THEN (* `ExtraInfo, _ := source.NextVarBytes()`: eof ignored, whatever NextBytes cut off is kept *)
                         LET c == DecVarUint(b, p)
                         IN IF c.st # "ok" THEN Ok(<<>>, Len(b) + 1)
                            ELSE Ok(SubSeq(b, c.p, Len(b)), Len(b) + 1)
                    ELSE IF p = Len(b) + 1 THEN Ok(<<>>, p)          \* record written before the field existed
                    ELSE Err
      [] t.k = "list" ->
            LET c == DecCount(t.cnt, b, p)
            IN IF c.st # "ok" THEN Err
               ELSE IF ~Small(c.v) \/ ToInt(c.v) > Avail(b, c.p) THEN CountErr(c.v)   \* every element takes >= 1 byte (ASSUME ElemsTakeSpace)
               ELSE DecSeq(t.of, b, c.p, ToInt(c.v), <<>>, len)
      [] t.k \in {"map", "mapv"} ->
            LET c == DecCount(t.cnt, b, p)
            IN IF c.st # "ok" THEN Err
               ELSE IF ~Small(c.v) \/ ToInt(c.v) > Avail(b, c.p) THEN CountErr(c.v)
               ELSE DecMap(t, b, c.p, ToInt(c.v), {}, len)
      [] t.k = "struct" -> DecFields(t.fs, 1, b, p, <<>>, len)

DecSeq(of, b, p, n, acc, len) ==
    IF n = 0 THEN Ok(acc, p)
    ELSE LET r == DecK(of, b, p, len)
         IN IF r.st # "ok" THEN r ELSE DecSeq(of, b, r.p, n - 1, Append(acc, r.v), len)

DecMap(t, b, p, n, acc, len) ==
    IF n = 0 THEN Ok(acc, p)
    ELSE IF t.k = "map"
         THEN LET rk == DecK(t.key, b, p, len)
              IN IF rk.st # "ok" THEN rk
                 ELSE LET rv == DecK(t.val, b, rk.p, len)
                      IN IF rv.st # "ok" THEN rv
                         ELSE DecMap(t, b, rv.p, n - 1, PutEntry(acc, rk.v, rv.v), len)
         ELSE LET ri == DecK(t.item, b, p, len)
              IN IF ri.st # "ok" THEN ri
                 ELSE DecMap(t, b, ri.p, n - 1, PutEntry(acc, ri.v[t.kf], ri.v), len)

DecFields(fs, i, b, p, acc, len) ==
    IF i > Len(fs) THEN Ok(acc, p)
    ELSE LET r == DecK(fs[i].t, b, p, len)
         IN IF r.st # "ok" THEN r
            ELSE IF ~Allowed(fs[i].c, r.v) THEN Sem
            ELSE DecFields(fs, i + 1, b, r.p, Append(acc, r.v), len)

(* ------------------------------------------------------------------------ *)
(* count / length prefix sites of an encoding and their mutants             *)
(* ------------------------------------------------------------------------ *)
RECURSIVE Sites(_, _, _, _), SeqSites(_, _, _, _, _), FieldSites(_, _, _, _, _), EntrySites(_, _, _, _, _)
Site(at, c, n, kind, path) == [at |-> at, w |-> Len(EncCount(c, n)), c |-> c, n |-> n, kind |-> kind, path |-> path]
Sites(t, v, off, path) ==
    CASE IsBytes(t) -> <<Site(off, "varuint", Len(v), "len", path)>>
      [] t.k = "list" -> <<Site(off, t.cnt, Len(v), "count", path)>> \o
                         SeqSites(t.of, v, 1, off + Len(EncCount(t.cnt, Len(v))), path)
      [] t.k \in {"map", "mapv"} ->
            LET s == SortDesc(v, t.ord)
            IN <<Site(off, t.cnt, Len(s), "count", path)>> \o
               EntrySites(t, s, 1, off + Len(EncCount(t.cnt, Len(s))), path)
      [] t.k = "struct" -> FieldSites(t.fs, v, 1, off, path)
      [] OTHER -> <<>>
SeqSites(of, v, i, off, path) ==
    IF i > Len(v) THEN <<>>
    ELSE Sites(of, v[i], off, Append(path, i)) \o SeqSites(of, v, i + 1, off + Len(EncK(of, v[i])), path)
FieldSites(fs, v, i, off, path) ==
    IF i > Len(fs) THEN <<>>
    ELSE Sites(fs[i].t, v[i], off, Append(path, fs[i].n)) \o
         FieldSites(fs, v, i + 1, off + Len(EncK(fs[i].t, v[i])), path)
EntrySites(t, s, i, off, path) ==
    IF i > Len(s) THEN <<>>
    ELSE IF t.k = "map"
         THEN LET lk == Len(EncK(t.key, s[i][1]))
              IN Sites(t.key, s[i][1], off, Append(path, "key")) \o
                 Sites(t.val, s[i][2], off + lk, Append(path, "val")) \o
                 EntrySites(t, s, i + 1, off + lk + Len(EncK(t.val, s[i][2])), path)
         ELSE Sites(t.item, s[i][2], off, Append(path, i)) \o
              EntrySites(t, s, i + 1, off + Len(EncK(t.item, s[i][2])), path)

PrefixMutants(site) ==     \* a sequence (not a set: TLC would have to sort records holding long tuples)
    LET n == site.n
        z == IF n # 0 THEN <<[cls |-> "zero", pre |-> EncCount(site.c, 0)]>> ELSE <<>>
        m1 == IF n > 0 /\ n # 1 THEN <<[cls |-> "minus1", pre |-> EncCount(site.c, n - 1)]>> ELSE <<>>
        p1 == <<[cls |-> "plus1", pre |-> EncCount(site.c, n + 1)]>>
        nm == IF site.c = "varuint" /\ n < 253 THEN <<[cls |-> "nonmin", pre |-> <<253, n, 0>>]>> ELSE <<>>
        ff == IF n # 65535 THEN <<[cls |-> "ffff", pre |-> IF site.c = "u64" THEN N8(65535) ELSE <<253, 255, 255>>]>> ELSE <<>>
        mx == <<[cls |-> "max", pre |-> IF site.c = "u64" THEN Rep(8, 255) ELSE Rep(9, 255)]>>
        g4 == IF site.kind = "count"          \* 2^32 entries: too small to overflow a size computation, far too many to exist
              THEN <<[cls |-> "g4", pre |-> IF site.c = "u64" THEN <<0, 0, 0, 0, 1, 0, 0, 0>> ELSE <<255, 0, 0, 0, 0, 1, 0, 0, 0>>]>>
              ELSE <<>>
    IN z \o m1 \o p1 \o nm \o ff \o mx \o g4

Splice(b, site, pre) == SubSeq(b, 1, site.at - 1) \o pre \o SubSeq(b, site.at + site.w, Len(b))

(* ------------------------------------------------------------------------ *)
(* value menus (first entry = default; seeded contents)                     *)
(* ------------------------------------------------------------------------ *)
BytesMenu(s) == <<Fill(3, s), <<>>, <<0>>, Fill(252, s + 1), Fill(253, s + 2)>> \o
                (IF Thorough THEN <<Fill(20, s + 3), Fill(254, s + 4)>> ELSE <<>>)
StrKeys == <<<<97>>, <<97, 98>>, <<98>>, <<>>, <<255>>, <<97, 0>>, <<65>>>>                \* "a" "ab" "b" "" "\xff" "a\x00" "A"
NumKeys == <<N8(1), N8(256), N8(0), N8(255), <<0, 0, 0, 0, 1, 0, 0, 0>>, Rep(8, 255), N8(65536)>>
AddrKey(first, last) == <<first>> \o Rep(18, 7) \o <<last>>
(* neighbours share the first byte, then the last byte: a comparator that looks at one end only leaves a tie *)
AddrKeys == <<AddrKey(1, 2), AddrKey(1, 1), AddrKey(2, 1), Rep(20, 0), Rep(20, 255), AddrKey(0, 9), AddrKey(9, 0)>>
KeyMenu(t) == CASE t.k \in {"string", "varbytes"} -> StrKeys
                [] t.k \in {"varuint", "u64"} -> NumKeys
                [] t.k \in {"addr", "vaddr"} -> AddrKeys
MapSizes == IF Thorough THEN <<2, 0, 1, 3, 4, 6>> ELSE <<2, 0, 1, 3>>

RECURSIVE FilterAllowed(_, _, _)
FilterAllowed(m, c, i) == IF i > Len(m) THEN <<>>
                          ELSE (IF Allowed(c, m[i]) THEN <<m[i]>> ELSE <<>>) \o FilterAllowed(m, c, i + 1)

RECURSIVE Menu(_, _), StructMenu(_, _), FMenu(_, _)
FMenu(f, s) == FilterAllowed(Menu(f.t, s), f.c, 1)
StructMenu(fs, s) ==
    LET ms == Tup([i \in 1..Len(fs) |-> FMenu(fs[i], s + 17 * i)])
        d == Tup([i \in 1..Len(fs) |-> ms[i][1]])
    IN <<d>> \o Flatten([i \in 1..Len(fs) |-> IF Len(ms[i]) <= 1 THEN <<>>
                                                ELSE [j \in 1..(Len(ms[i]) - 1) |-> [d EXCEPT ![i] = ms[i][j + 1]]]])
Menu(t, s) ==
    CASE t.k = "u8" -> <<Fill(1, s), <<0>>, <<255>>, <<1>>>>
      [] t.k = "u16" -> <<Fill(2, s), <<0, 0>>, <<255, 255>>, <<252, 0>>, <<253, 0>>>>
      [] t.k = "u32" -> <<Fill(4, s), Rep(4, 0), Rep(4, 255), <<253, 0, 0, 0>>, <<0, 0, 1, 0>>>>
      [] t.k \in {"u64", "i64"} -> <<Fill(8, s), Rep(8, 0), Rep(8, 255), <<0, 0, 0, 0, 1, 0, 0, 0>>,
                                    <<255, 255, 255, 255, 255, 255, 255, 127>>, <<0, 0, 0, 0, 0, 0, 0, 128>>>>
      [] t.k = "varuint" -> <<N8(SB(s) % 253), Rep(8, 0), N8(252), N8(253), N8(65535), N8(65536),
                              <<255, 255, 255, 255, 0, 0, 0, 0>>, <<0, 0, 0, 0, 1, 0, 0, 0>>, Rep(8, 255), Fill(8, s)>>
      [] t.k = "bool" -> <<TRUE, FALSE>>
      [] t.k \in {"varbytes", "string", "opttail"} -> BytesMenu(s)
      [] t.k \in {"addr", "vaddr"} -> <<Fill(20, s), Rep(20, 0), Rep(20, 255)>>
      [] t.k = "hash" -> <<Fill(32, s), Rep(32, 0), Rep(32, 255)>>
      [] t.k = "bigint" -> <<<<1 + (SB(s) % 255)>> \o Fill(2, s), <<>>, <<1>>, <<1, 0>>, Rep(9, 255), <<128>> \o Rep(32, 0)>>
      [] t.k = "list" ->
            LET m == Menu(t.of, s + 5)
                n == Len(m)
            IN <<<<m[1], m[IF n > 1 THEN 2 ELSE 1]>>, <<>>, <<m[1]>>, <<m[n], m[1], m[1]>>>> \o
               (IF Thorough THEN <<[i \in 1..6 |-> m[((i * 5) % n) + 1]]>> ELSE <<>>)
      [] t.k = "map" ->
            LET ks == KeyMenu(t.key)
                vs == Menu(t.val, s + 7)
                rot == SB(s) % Len(ks)
            IN [z \in 1..Len(MapSizes) |->
                   {<<ks[((i + rot + z) % Len(ks)) + 1], vs[((i + z) % Len(vs)) + 1]>> : i \in 1..MapSizes[z]}] \o
               (* the first keys of a key menu are the ones a sloppy comparator ties on: always one map that holds them together *)
               <<{<<ks[i], vs[(i % Len(vs)) + 1]>> : i \in 1..(IF Thorough THEN Len(ks) ELSE 3)}>>
      [] t.k = "mapv" ->
            LET ks == KeyMenu(t.item.fs[t.kf].t)
                is == StructMenu(t.item.fs, s + 7)
                rot == SB(s) % Len(ks)
            IN [z \in 1..Len(MapSizes) |->
                   {LET key == ks[((i + rot + z) % Len(ks)) + 1]
                    IN <<key, [is[((i + z) % Len(is)) + 1] EXCEPT ![t.kf] = key]>> : i \in 1..MapSizes[z]}] \o
               <<{<<ks[i], [is[(i % Len(is)) + 1] EXCEPT ![t.kf] = ks[i]]>> : i \in 1..(IF Thorough THEN Len(ks) ELSE 3)}>>
      [] t.k = "struct" -> StructMenu(t.fs, s)

Combo(fs, s, c) == Tup([i \in 1..Len(fs) |-> LET m == FMenu(fs[i], s + 17 * i)
                                             IN m[(SB(c * 31 + i * 7 + s) % Len(m)) + 1]])

(* 64 KiB byte strings: one row per listed (type, field) in the thorough tier *)
BigLens == <<65535, 65536>>

(* ------------------------------------------------------------------------ *)
(* the type table                                                           *)
(* ------------------------------------------------------------------------ *)
TMakeTxParam == S(<<F("TxHash", VB), F("CrossChainID", VB), F("FromContractAddress", VB), F("ToChainID", U64),
                    F("ToContractAddress", VB), F("Method", STR), F("Args", VB)>>)
TConfiguration == S(<<F("BlockMsgDelay", U32), F("HashMsgDelay", U32), F("PeerHandshakeTimeout", U32),
                      F("MaxBlockChangeView", U32)>>)
TPeerPoolItem == S(<<F("Index", U32), F("PeerPubkey", STR), F("Address", VADDR), F("Status", U8)>>)
TBtcTxParamDetial == S(<<F("PVersion", VU), F("FeeRate", VU), F("MinChange", VU)>>)
TAssetMap == M("varuint", VU, VB, "rev")
TOutPoint == S(<<F("Hash", VB), F("Index", U32)>>)
TUtxo == S(<<F("Op", TOutPoint), F("AtHeight", U32), F("Value", U64), F("ScriptPubkey", VB)>>)

TypeTable == <<
  (* native/service/cross_chain_manager/common/param.go *)
  [name |-> "InitRedeemScriptParam", t |-> S(<<F("RedeemScript", STR)>>)],
  [name |-> "EntranceParam", t |-> S(<<F("SourceChainID", U64), F("Height", U32), F("Proof", VB), F("RelayerAddress", VB),
                                       F("Extra", VB), F("HeaderOrCrossChainMsg", VB)>>)],
  [name |-> "MakeTxParam", t |-> TMakeTxParam],
  [name |-> "MakeTxParamWithSender", t |-> S(<<F("Sender", ADDR), F("MakeTxParam", TMakeTxParam)>>)],
  [name |-> "MultiSignParam", t |-> S(<<F("ChainID", U64), F("RedeemKey", STR), F("TxHash", VB), F("Address", STR),
                                        F("Signs", L("u64", VB))>>)],
  [name |-> "ToMerkleValue", t |-> S(<<F("TxHash", VB), F("FromChainID", U64), F("MakeTxParam", TMakeTxParam)>>)],
  [name |-> "BlackChainParam", t |-> S(<<F("ChainID", VU)>>)],
  (* native/service/header_sync/common/param.go *)
  [name |-> "SyncGenesisHeaderParam", t |-> S(<<F("ChainID", U64), F("GenesisHeader", VB)>>)],
  [name |-> "SyncBlockHeaderParam", t |-> S(<<F("ChainID", U64), F("Address", ADDR), F("Headers", L("u64", VB))>>)],
  [name |-> "SyncCrossChainMsgParam", t |-> S(<<F("ChainID", U64), F("Address", ADDR), F("CrossChainMsgs", L("u64", VB))>>)],
  (* native/service/governance/node_manager/param.go, states.go *)
  [name |-> "RegisterPeerParam", t |-> S(<<F("PeerPubkey", STR), F("Address", VADDR)>>)],
  [name |-> "PeerParam", t |-> S(<<F("PeerPubkey", STR), F("Address", VADDR)>>)],
  [name |-> "PeerListParam", t |-> S(<<F("PeerPubkeyList", L("varuint", STR)), F("Address", VADDR)>>)],
  [name |-> "UpdateConfigParam", t |-> S(<<F("Configuration", TConfiguration)>>)],
  [name |-> "Status", t |-> S(<<F("Status", U8)>>)],
  [name |-> "BlackListItem", t |-> S(<<F("PeerPubkey", STR), F("Address", VADDR)>>)],
  [name |-> "PeerPoolMap", t |-> S(<<F("PeerPoolMap", MV("varuint", TPeerPoolItem, 2, "bytes"))>>)],
  [name |-> "PeerPoolItem", t |-> TPeerPoolItem],
  [name |-> "GovernanceView", t |-> S(<<F("View", U32), F("Height", U32), F("TxHash", HASH)>>)],
  [name |-> "ConsensusSigns", t |-> S(<<F("SignsMap", M("varuint", VADDR, BOOL, "rev"))>>)],
  [name |-> "Configuration", t |-> TConfiguration],
  (* native/service/governance/side_chain_manager/param.go, states.go *)
  [name |-> "RegisterSideChainParam", t |-> S(<<F("Address", VADDR), F("ChainId", VU), F("Router", VU), F("Name", STR),
                                                FC("BlocksToWait", VU, "nz"), F("CCMCAddress", VB), F("ExtraInfo", OPT)>>)],
  [name |-> "ChainidParam", t |-> S(<<F("Chainid", VU), F("Address", VADDR)>>)],
  [name |-> "RegisterRedeemParam", t |-> S(<<F("RedeemChainID", VU), F("ContractChainID", VU), F("Redeem", VB), F("CVersion", VU),
                                             F("ContractAddress", VB), F("Signs", L("varuint", VB))>>)],
  [name |-> "BtcTxParamDetial", t |-> TBtcTxParamDetial],
  [name |-> "BtcTxParam", t |-> S(<<F("Redeem", VB), F("RedeemChainId", VU), F("Sigs", L("varuint", VB)),
                                    F("Detial", TBtcTxParamDetial)>>)],
  [name |-> "RegisterAssetParam", t |-> S(<<F("OperatorAddress", ADDR), F("ChainId", VU), F("AssetMap", TAssetMap),
                                            F("LockProxyMap", TAssetMap)>>)],
  [name |-> "AssetBind", t |-> S(<<F("AssetMap", TAssetMap), F("LockProxyMap", TAssetMap)>>)],
  [name |-> "UpdateFeeParam", t |-> S(<<F("Address", ADDR), F("ChainId", U64), F("View", U64), F("Fee", BIG)>>)],
  [name |-> "SideChain", t |-> S(<<F("Address", VADDR), F("ChainId", VU), F("Router", VU), F("Name", STR),
                                   F("BlocksToWait", VU), F("CCMCAddress", VB), F("ExtraInfo", OPT)>>)],
  [name |-> "BindSignInfo", t |-> S(<<F("BindSignInfo", M("varuint", STR, VB, "bytes"))>>)],
  [name |-> "ContractBinded", t |-> S(<<F("Contract", VB), F("Ver", U64)>>)],
  [name |-> "Fee", t |-> S(<<F("View", U64), F("Fee", BIG)>>)],
  [name |-> "FeeInfo", t |-> S(<<F("StartTime", U32), F("FeeInfo", M("varuint", ADDR, BIG, "rev"))>>)],
  [name |-> "RippleExtraInfo", t |-> S(<<F("Operator", ADDR), F("Sequence", U64), F("Quorum", U64), F("SignerNum", U64),
                                         F("Pks", L("varuint", VB)), F("ReserveAmount", BIG)>>)],
  (* native/service/governance/relayer_manager/param.go, neo3_state_manager/param.go *)
  [name |-> "RelayerListParam", t |-> S(<<F("AddressList", L("varuint", VADDR)), F("Address", VADDR)>>)],
  [name |-> "ApproveRelayerParam", t |-> S(<<F("ID", VU), F("Address", VADDR)>>)],
  [name |-> "StateValidatorListParam", t |-> S(<<F("StateValidators", L("varuint", STR)), F("Address", VADDR)>>)],
  [name |-> "ApproveStateValidatorParam", t |-> S(<<F("ID", VU), F("Address", VADDR)>>)],
  (* signature_manager/states.go, consensus_vote/states.go *)
  [name |-> "SigInfo", t |-> S(<<F("Status", BOOL), F("SigInfo", M("u64", STR, VB, "bytes"))>>)],
  [name |-> "VoteInfo", t |-> S(<<F("Status", BOOL), F("VoteInfo", M("u64", STR, BOOL, "bytes"))>>)],
  (* native/service/cross_chain_manager/btc/states.go *)
  [name |-> "BtcProof", t |-> S(<<F("Tx", VB), F("Proof", VB), F("Height", U32), F("BlocksToWait", U64)>>)],
  [name |-> "Utxos", t |-> S(<<F("Utxos", L("u64", TUtxo))>>)],
  [name |-> "Utxo", t |-> TUtxo],
  [name |-> "OutPoint", t |-> TOutPoint],
  [name |-> "MultiSignInfo", t |-> S(<<F("MultiSignInfo", M("u64", STR, L("u64", VB), "bytes"))>>)],
  [name |-> "Args", t |-> S(<<F("ToChainID", U64), F("Fee", I64), F("Address", VB)>>)],
  [name |-> "BtcFromInfo", t |-> S(<<F("FromTxHash", VB), F("FromChainID", U64)>>)],
  (* native/states/contract.go, core/states/storage_item.go *)
  [name |-> "ContractInvokeParam", t |-> S(<<FC("Version", U8, "zero"), F("Address", ADDR), F("Method", STR), F("Args", VB)>>)],
  [name |-> "StorageItem", t |-> S(<<F("StateBase", S(<<F("StateVersion", U8)>>)), F("Value", VB)>>)]
>>

NTypes == Len(TypeTable)
(* (type index, field index) pairs that get 64 KiB values in the thorough tier *)
BigFields == <<<<2, 3>>, <<3, 6>>, <<8, 2>>, <<30, 7>>, <<50, 2>>>>

(* minimal encoded size: list / map elements must take space, otherwise "count > remaining input => error" would be wrong *)
RECURSIVE MinLen(_), SumMin(_, _)
SumMin(fs, i) == IF i > Len(fs) THEN 0 ELSE MinLen(fs[i].t) + SumMin(fs, i + 1)
MinLen(t) == CASE IsFixed(t) -> FixedW(t)
               [] t.k = "opttail" -> 0
               [] t.k = "struct" -> SumMin(t.fs, 1)
               [] t.k = "vaddr" -> 21
               [] OTHER -> 1
RECURSIVE ElemsOk(_)
ElemsOk(t) == CASE t.k = "list" -> MinLen(t.of) >= 1 /\ ElemsOk(t.of)
                [] t.k = "map" -> MinLen(t.key) + MinLen(t.val) >= 1 /\ ElemsOk(t.val)
                [] t.k = "mapv" -> MinLen(t.item) >= 1 /\ ElemsOk(t.item)
                [] t.k = "struct" -> \A i \in 1..Len(t.fs) : ElemsOk(t.fs[i].t) /\ (t.fs[i].t.k = "opttail" => i = Len(t.fs))
                [] OTHER -> TRUE
ASSUME ElemsTakeSpace == \A i \in 1..NTypes : ElemsOk(TypeTable[i].t)

(* ------------------------------------------------------------------------ *)
(* rows                                                                     *)
(* ------------------------------------------------------------------------ *)
TypeSalt(i) == 11 * i + SB(i)
RowsOf(i) ==
    LET t == TypeTable[i].t
        sm == StructMenu(t.fs, TypeSalt(i))
        base == {<<i, j, sm[j]>> : j \in 1..Len(sm)}
        combos == {<<i, 1000 + c, Combo(t.fs, TypeSalt(i), c)>> : c \in 1..NCombo}
        big == IF ~Thorough THEN {}
               ELSE {<<i, 2000 + 10 * z + y, [sm[1] EXCEPT ![BigFields[z][2]] = Fill(BigLens[y], TypeSalt(i) + y)]>> :
                     <<z, y>> \in {q \in (1..Len(BigFields)) \X (1..Len(BigLens)) : BigFields[q[1]][1] = i}}
    IN base \cup combos \cup big
AllRows == UNION {RowsOf(i) : i \in 1..NTypes}

HasTail(t) == t.fs[Len(t.fs)].t.k = "opttail"
TailLen(t, v) == IF HasTail(t) THEN Len(EncK(OPT, v[Len(v)])) ELSE 0

MutantsOf(t, v, b) ==
    LET sites == Sites(t, v, 1, <<>>)
    IN Flatten([x \in 1..Len(sites) |->
          LET pm == PrefixMutants(sites[x])
          IN [y \in 1..Len(pm) |->
                LET mb == Splice(b, sites[x], pm[y].pre)
                    rs == DecK(t, mb, 1, FALSE)
                    rl == DecK(t, mb, 1, TRUE)
                IN [path |-> sites[x].path, kind |-> sites[x].kind, cls |-> pm[y].cls, at |-> sites[x].at, w |-> sites[x].w,
                    pre |-> pm[y].pre, strict |-> rs.st, impl |-> rl.st, big |-> rl.st = "err" /\ rl.p = -1,
                    val |-> IF rl.st = "ok" THEN <<rl.v>> ELSE <<>>,
                    sval |-> IF rs.st = "ok" THEN <<rs.v>> ELSE <<>>]]])

(* cuts (proper prefixes) that a decoder accepts, with the value it returns; long encodings are cut at a few places only *)
CutSet(b) == IF Len(b) <= CutBound THEN 0..(Len(b) - 1)
             ELSE {0, 1, 2, 3, 5, 9, Len(b) \div 2, Len(b) - 300, Len(b) - 2, Len(b) - 1}
AcceptedCuts(t, b, len) ==
    LET ks == {k \in CutSet(b) : DecK(t, SubSeq(b, 1, k), 1, len).st # "err"}
    IN {[k |-> k, r |-> DecK(t, SubSeq(b, 1, k), 1, len)] : k \in ks}

(* a row is the tuple <<type index, row number, value>> (a tuple, so that TLC compares the type index first). *)
(* Row number 0 is the per-type start state: the rows of a type are its successors, so that TLC's workers    *)
(* share the table by type.                                                                                   *)
RTy == row[1]
RJ == row[2]
RV == row[3]
vars == <<row, ana>>

Analyse(r) ==
    LET t == TypeTable[r[1]].t
        b == EncK(t, r[3])
    IN [b |-> b, scuts |-> AcceptedCuts(t, b, FALSE), lcuts |-> AcceptedCuts(t, b, TRUE), muts |-> MutantsOf(t, r[3], b)]

Init == row \in {<<i, 0, <<>>>> : i \in 1..NTypes} /\ ana = <<>>
Emit == LET t == TypeTable[RTy].t
            b == ana.b
        IN /\ (RJ = 1 => PrintT(<<"SCHEMA", ToJson([ty |-> RTy, name |-> TypeTable[RTy].name, t |-> t])>>))
           /\ PrintT(<<"ROW", ToJson([ty |-> RTy, name |-> TypeTable[RTy].name, j |-> RJ, v |-> RV, bytes |-> b,
                                      allcuts |-> Len(b) <= CutBound, cutset |-> IF Len(b) <= CutBound THEN {} ELSE CutSet(b),
                                      scuts |-> {[k |-> c.k, st |-> c.r.st, v |-> <<c.r.v>>] : c \in ana.scuts},
                                      lcuts |-> {[k |-> c.k, st |-> c.r.st, v |-> <<c.r.v>>] : c \in ana.lcuts},
                                      muts |-> ana.muts])>>)
Next == IF RJ = 0 THEN /\ row' \in RowsOf(RTy)
                       /\ ana' = Analyse(row')
        ELSE UNCHANGED vars /\ (IF EmitOn THEN Emit ELSE TRUE)
Spec == Init /\ [][Next]_vars

(* ------------------------------------------------------------------------ *)
(* the monitor                                                              *)
(* ------------------------------------------------------------------------ *)
PropRoundTrip == RJ # 0 =>
    LET t == TypeTable[RTy].t
        b == EncK(t, RV)
    IN /\ DecK(t, b, 1, FALSE) = Ok(RV, Len(b) + 1)
       /\ DecK(t, b, 1, TRUE) = Ok(RV, Len(b) + 1)

RECURSIVE HasMap(_)
HasMap(t) == CASE t.k \in {"map", "mapv"} -> TRUE
               [] t.k = "struct" -> \E i \in 1..Len(t.fs) : HasMap(t.fs[i].t)
               [] OTHER -> FALSE
PropCanonical == RJ # 0 =>
    LET t == TypeTable[RTy].t
    IN \A pi \in 0..((IF HasMap(t) THEN NPerm ELSE 1) - 1) : EncImpl(t, RV, pi) = EncK(t, RV)

Reencodes(t, r) == r.st = "ok" => LET d == DecK(t, EncK(t, r.v), 1, FALSE) IN d.st = "ok" /\ d.v = r.v

PropTotal == RJ # 0 =>
    LET t == TypeTable[RTy].t
        b == ana.b
        legacy == Len(b) - TailLen(t, RV)
    IN /\ b = EncK(t, RV)
       /\ \A c \in ana.scuts :
              HasTail(t) /\ c.k = legacy /\ c.r.st = "ok" /\ c.r.v = [RV EXCEPT ![Len(RV)] = <<>>]
       (* the code-shaped decoder differs from the reference only behind the optional tail *)
       /\ \A c \in ana.lcuts : HasTail(t) /\ c.k >= legacy
       /\ \A y \in 1..Len(ana.muts) : LET m == ana.muts[y] IN
              /\ m.strict = "ok" => Reencodes(t, [st |-> "ok", v |-> m.sval[1]])
              /\ (m.strict # m.impl => HasTail(t))
=============================================================================
