----------------------------- MODULE TxExecMon -----------------------------
(***************************************************************************)
(* C15 monitor, shared by TxExec (model) and TraceTxExec (observations of  *)
(* the real code).  Nothing here knows how the implementation keeps its    *)
(* books: the reference walk follows the control flow of the scripts       *)
(* (see TxExec.tla for the step alphabet and the value encoding) and       *)
(* states what the property allows to be observed.                         *)
(*   - a transaction fails iff an error reaches its top frame;             *)
(*   - effects made in a frame whose failure was caught by its caller are  *)
(*     "unsure" (may be kept or dropped: the statement speaks of           *)
(*     transactions only); every other effect of a successful transaction  *)
(*     is mandatory; a failed transaction has no effect at all;            *)
(*   - a read sees the prior state, the writes of successful predecessors  *)
(*     and the transaction's own earlier writes, nothing else.             *)
(* The order of cross-chain records inside one transaction is not judged   *)
(* (the statement does not mention it); the order of notifications is.     *)
(***************************************************************************)
EXTENDS Integers, Sequences, FiniteSets

CONSTANTS TopKeys,      \* keys used by top-level steps (contract 1)
          SubKeys       \* keys used by nested steps (contract 2)

NoEnt == <<>>
Tomb  == <<0>>
Old   == <<0, 0>>
AllKeys  == TopKeys \cup SubKeys
FullKeys == {1, 2} \X AllKeys

\* canonical scripts: a step that certainly aborts the frame is the last one
RECURSIVE Fails(_)
Aborting(st) == st.op = "fail" \/ (st.op = "call" /\ ~st.catch /\ Fails(st.sub))
Fails(s) == \E i \in 1..Len(s) : Aborting(s[i])
RECURSIVE HasCaughtFailure(_)
HasCaughtFailure(s) == \E i \in 1..Len(s) : s[i].op = "call" /\ ((s[i].catch /\ Fails(s[i].sub)) \/ HasCaughtFailure(s[i].sub))

(* reference walk **********************************************************)
Range(s) == {s[i] : i \in 1..Len(s)}
Resolve(e, store, fk) == IF e = NoEnt THEN store[fk] ELSE e
\* M = [loc, nS, nA, xS, xA, rd, err]: possible entries per key as seen by the running transaction (cache over
\* overlay), sure / all notifications in execution order, sure / all records, allowed values per read, error flag
RECURSIVE RefSteps(_, _, _, _, _, _, _)
RefSteps(c, steps, pre, i, M, store, w) ==
    IF i > Len(steps) THEN M
    ELSE LET st == steps[i]
             id == Append(pre, i)
             fk == <<c, st.k>>
             go(M2) == RefSteps(c, steps, pre, i + 1, M2, store, w)
         IN CASE st.op = "put"    -> go([M EXCEPT !.loc[fk] = {id}])
              [] st.op = "del"    -> go([M EXCEPT !.loc[fk] = {Tomb}])
              [] st.op = "get"    -> go([M EXCEPT !.rd = Append(@, [id |-> id, ok |-> {Resolve(e, store, fk) : e \in M.loc[fk]}])])
              [] st.op = "rec"    -> go([M EXCEPT !.xS = @ \cup {id}, !.xA = @ \cup {id}])
              [] st.op = "notify" -> go([M EXCEPT !.nS = Append(@, id), !.nA = Append(@, id)])
              [] st.op = "fail"   -> [M EXCEPT !.err = TRUE]
              [] st.op = "clk"    -> IF w >= st.n THEN go(M) ELSE [M EXCEPT !.err = TRUE]
              [] st.op = "call"   -> LET R == RefSteps(2, st.sub, id, 1, M, store, w)
                                     IN IF ~R.err THEN go(R)
                                        ELSE IF ~st.catch THEN R
                                        ELSE \* the callee failed and the caller goes on: its effects are unsure
                                             go([loc |-> [k \in FullKeys |-> M.loc[k] \cup R.loc[k]],
                                                 nS |-> M.nS, nA |-> R.nA, xS |-> M.xS, xA |-> R.xA, rd |-> R.rd, err |-> FALSE])
RefTx(script, tx, poss, store, w) ==
    RefSteps(1, script, <<tx>>, 1, [loc |-> poss, nS |-> <<>>, nA |-> <<>>, xS |-> {}, xA |-> {}, rd |-> <<>>, err |-> FALSE], store, w)
\* reference results of transactions 1..n and the possible committed entries after them
RECURSIVE RefBlock(_, _, _, _)
RefBlock(b, n, store, w) ==
    IF n = 0 THEN [txs |-> <<>>, poss |-> [fk \in FullKeys |-> {NoEnt}]]
    ELSE LET P == RefBlock(b, n - 1, store, w)
             R == RefTx(b[n], n, P.poss, store, w)
         IN [txs |-> Append(P.txs, R), poss |-> IF R.err THEN P.poss ELSE R.loc]

NoDup(s) == \A i, j \in 1..Len(s) : i # j => s[i] # s[j]
Pos(s, x) == CHOOSE i \in 1..Len(s) : s[i] = x
OrderedIn(a, b) == \A i, j \in 1..Len(a) : i < j => Pos(b, a[i]) < Pos(b, a[j])
TxOf(v) == IF Len(v) >= 2 THEN v[1] ELSE 0
If(c, e) == IF c THEN {e} ELSE {}

\* obs = [txs |-> seq of [ok, nt, rd], xh |-> seq of ids, ws |-> [FullKeys -> entry]] for the executed prefix 1..n
Violations15(b, n, store, w, obs) ==
    LET Rf == RefBlock(b, n, store, w)
        failed(x) == x \in 1..n /\ Rf.txs[x].err
        XhOf(x) == SelectSeq(obs.xh, LAMBDA id : TxOf(id) = x)
        perTx(x) ==
            LET r == Rf.txs[x]
                o == obs.txs[x]
                xs == XhOf(x)
            IN  If(o.ok = r.err, <<"status", x>>)
                \cup (IF r.err
                      THEN If(o.nt # <<>>, <<"failed-tx-notify", x>>) \cup If(xs # <<>>, <<"failed-tx-record", x>>)
                      ELSE If(~(Range(r.nS) \subseteq Range(o.nt)), <<"success-notify-lost", x>>)
                           \cup If(~(Range(o.nt) \subseteq Range(r.nA) /\ NoDup(o.nt)), <<"success-notify-foreign", x>>)
                           \cup If(Range(o.nt) \subseteq Range(r.nA) /\ NoDup(o.nt) /\ ~OrderedIn(o.nt, r.nA), <<"success-notify-order", x>>)
                           \cup If(~(r.xS \subseteq Range(xs)), <<"success-record-lost", x>>)
                           \cup If(~(Range(xs) \subseteq r.xA /\ NoDup(xs)), <<"success-record-foreign", x>>))
                \cup (IF Len(o.rd) # Len(r.rd) \/ \E j \in 1..Len(o.rd) : o.rd[j].id # r.rd[j].id
                      THEN {<<"read-shape", x>>}
                      ELSE UNION {IF o.rd[j].v \in r.rd[j].ok THEN {}
                                  ELSE IF failed(TxOf(o.rd[j].v)) /\ TxOf(o.rd[j].v) # x THEN {<<"read-sees-failed-tx", x>>}
                                  ELSE {<<"read-mismatch", x>>} : j \in 1..Len(o.rd)})
    IN  IF Len(obs.txs) # n THEN {<<"shape", 0>>}
        ELSE UNION {perTx(x) : x \in 1..n}
             \cup If(~(\A id \in Range(obs.xh) : TxOf(id) \in 1..n), <<"foreign-record", 0>>)
             \cup UNION {IF obs.ws[fk] \in Rf.poss[fk] THEN {}
                         ELSE IF failed(TxOf(obs.ws[fk])) THEN {<<"failed-tx-write-kept", TxOf(obs.ws[fk])>>}
                         ELSE {<<"writeset-mismatch", TxOf(obs.ws[fk])>>} : fk \in FullKeys}

=============================================================================
