SPECIFICATION Spec
CONSTANTS K = 3
          Vals = {"x"}
          Ranges = {12, 23, 22}
          WithBatch = FALSE
          Mode = "mc"
          Depth = 0
VIEW View
INVARIANT PropC10
INVARIANT PropC11
PROPERTY PropC10Step
CHECK_DEADLOCK FALSE
