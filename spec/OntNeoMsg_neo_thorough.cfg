SPECIFICATION Spec
CONSTANTS Chains = {"neo"}
          Ns = {1, 2, 3, 4, 5, 6, 7}
          LightNs = {}
          ExhN = 3
          ExhL = 4
          EmitOn = TRUE
INVARIANT PropC24
INVARIANT NeoWalkIsIncreasing
CHECK_DEADLOCK FALSE
