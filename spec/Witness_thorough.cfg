SPECIFICATION Spec
CONSTANTS Routers <- AllRouters
          Actors <- AllActors6
          ExtraActors = {"op1", "op4"}
          CtxDepth = 3
          EmitOn = TRUE
INVARIANT PropC18
INVARIANT TableOK
CHECK_DEADLOCK FALSE
