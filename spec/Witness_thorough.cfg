SPECIFICATION Spec
CONSTANTS Routers <- AllRouters
          Actors <- AllActors6
          CtxDepth = 3
          EmitOn = TRUE
INVARIANT PropC18
INVARIANT TableOK
CHECK_DEADLOCK FALSE
