------------------------------- MODULE MCPoSA -------------------------------
(* Constant definitions for the PoSA configurations (cfg files cannot write tuples). *)
EXTENDS PoSA

\* A: three-validator lists, every list differs from its predecessor, a two-element list to announce
SetsA == << <<"a", "b", "c">>, <<"b", "c", "d">>, <<"d", "a">> >>
\* B: window 2 (lists of 4 and 5), and a single-validator list
SetsB == << <<"a", "b", "c", "d">>, <<"a", "b", "c", "d", "e">>, <<"e">> >>
\* G: the genesis announcement SHRINKS the list (5 -> 2), a later announcement grows it again (2 -> 4): in the transition
\* after a shrinking announcement the larger, older list is still in effect (window 2) while the newer one is smaller, so
\* the recent-signer look-back has to cover the larger of the two lists; re-seals at every distance are edges of the graph
SetsG == << <<"a", "b", "c", "d", "e">>, <<"a", "b">>, <<"a", "b", "c", "d">> >>
\* F: fork-choice configuration, no announcements
SetsF == << <<"a", "b", "c">>, <<"a", "b", "c">> >>
\* C, D: clique (msc); Sets[1] is unused there, Sets[2] is the signer list of the checkpoint genesis (names are assigned
\* in address order by the driver), Sets[3] a list that a checkpoint header must not carry
SetsC == << <<"a", "b", "c">>, <<"a", "b", "c">>, <<"a", "b", "d">> >>
SetsD == << <<"a", "b", "c", "d", "e">>, <<"a", "b", "c", "d", "e">> >>
CliqueDefects == {"novanity", "noseal", "badlist", "mix", "uncle", "diff0", "diff3", "number", "future", "time", "badsig", "nonce"}
\* P: polygon bor inside one sprint: the genesis snapshot's validators (address order), proposer = GenesisSigner
SetsP == << <<"a", "b", "c">>, <<"a", "b", "c">>, <<"a", "b", "d">> >>
BorDefects == {"novanity", "noseal", "badlist", "mix", "uncle", "number", "future", "time", "badsig"}
AllDefects == {"novanity", "noseal", "badlist", "mix", "uncle", "diff0", "diff3", "number", "gasused",
               "gaslimit", "future", "time", "coinbase", "badsig"}
=============================================================================
