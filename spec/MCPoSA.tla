------------------------------- MODULE MCPoSA -------------------------------
(* Constant definitions for the PoSA configurations (cfg files cannot write tuples). *)
EXTENDS PoSA

\* A: three-validator lists, every list differs from its predecessor, a two-element list to announce
SetsA == << <<"a", "b", "c">>, <<"b", "c", "d">>, <<"d", "a">> >>
\* B: window 2 (lists of 4 and 5), and a single-validator list
SetsB == << <<"a", "b", "c", "d">>, <<"a", "b", "c", "d", "e">>, <<"e">> >>
\* F: fork-choice configuration, no announcements
SetsF == << <<"a", "b", "c">>, <<"a", "b", "c">> >>
AllDefects == {"novanity", "noseal", "badlist", "mix", "uncle", "diff0", "diff3", "number", "gasused",
               "gaslimit", "future", "time", "coinbase", "badsig"}
=============================================================================
