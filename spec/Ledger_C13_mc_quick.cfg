SPECIFICATION Spec
CONSTANTS MaxH = 3
          MaxCrash = 1
          MaxMut = 2
          MaxLen = 99
          Kinds = {"h_same", "reoffer", "reoffer_old", "h_plus2", "prev_unknown", "prev_old", "ts_eq", "ts_less", "root_bad", "root_stale", "sr_bad", "child_of_fork"}
          HdrOps = {"hdr_next", "hdr_fork"}
          Paths = {"submit", "add"}
          MixPaths = TRUE
          RecoverAsCoded = FALSE
          KeepTreeOnWipe = FALSE
          ParentByLookup = FALSE
          Mode = "mc"
VIEW View
INVARIANT PropC12
INVARIANT PropC13
PROPERTY PropC13Step
CHECK_DEADLOCK FALSE
