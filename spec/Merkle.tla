------------------------------- MODULE Merkle -------------------------------
(***************************************************************************)
(* C03 C06 C07 C08 - the Merkle machinery of poly.                         *)
(*                                                                         *)
(* Hashes are terms of a FREE ALGEBRA: Leaf(d), Node(l,r), D2(l,r), EmptyH *)
(* ... are injective constructors with disjoint ranges, so "assuming       *)
(* collision resistance" is the semantics of the model.  The Go driver     *)
(* (harness/cmd/vd-merkle, harness/kit/termeval) evaluates a term with the *)
(* real SHA-256 (0x00 / 0x01 prefixes) over concrete random leaves, so     *)
(* every term printed by this module can be compared byte for byte with    *)
(* what the real functions return.                                         *)
(*                                                                         *)
(* Layers                                                                  *)
(*   reference      : RFC 6962 MTH / PATH / PROOF, the textbook Bitcoin-   *)
(*                    style transaction root, post-order node file         *)
(*   implementation : transcriptions of merkle/merkle_tree.go,             *)
(*                    merkle_hasher.go, util.go, file_hash_store.go        *)
(*                    (positions only) and common/merkle_tree.go           *)
(*   monitors       : SubAt / PrefixRoot / LeafOf - what a claim MEANS,    *)
(*                    Siblings / RefSub / Desc - which proof belongs to it *)
(*                    (read off the root term top-down, independent of how *)
(*                    a verifier computes bottom-up)                       *)
(*   tables         : Init picks a point of a finite input domain, the one *)
(*                    action Decide computes the verdicts, prints the rows *)
(*                    (P-TABLE) and records failed model-level checks in   *)
(*                    `bad`.  Work sits in Next so TLC's workers share it. *)
(***************************************************************************)
EXTENDS Integers, Sequences, FiniteSets, TLC, Json

CONSTANTS Table,     \* "c06" | "c06big" | "c07" | "c03" | "c08" | "c08chain" | "c08nest"
          N,         \* largest tree size / list length of the table
          Sizes,     \* c06big: the tree sizes to take; c08chain: the record counts a block may have; otherwise unused
          Doubles,   \* c07: TRUE = all pairs of mutations, FALSE = single mutations
          PoolMode,  \* c07: "full" | "near" (restricted replacement pool for large trees)
          Lab,       \* leaf labelling: "id" (all leaves distinct) | "pairs" | "same"
          EmitOn     \* TRUE: print rows (generation run)

VARIABLES job, st, bad
vars == <<job, st, bad>>

(***************************************************************************)
(* 1. Hash terms                                                           *)
(***************************************************************************)
Dat(i)     == <<"d", i>>          \* i-th concrete datum (driver: random bytes / block hash / record)
Cat(l, r)  == <<"cat", l, r>>     \* data: the 64 bytes l || r
PCat(l, r) == <<"pcat", l, r>>    \* data: 0x01 || l || r
Leaf(d)    == <<"L", d>>          \* SHA256(0x00 || d)
Node(l, r) == <<"N", l, r>>       \* SHA256(0x01 || l || r)
EmptyH     == <<"E">>             \* SHA256("")
Zero       == <<"Z">>             \* 32 zero bytes (common.UINT256_EMPTY, merkle.EMPTY_HASH)
Fresh(k)   == <<"F", k>>          \* 32 bytes unrelated to anything else
TxH(i)     == <<"T", i>>          \* i-th transaction hash
D2(l, r)   == <<"D", l, r>>       \* SHA256(SHA256(l || r))
IsNode(t)  == t[1] = "N"
NONE       == <<"NONE">>          \* "no such hash"; never printed

Rev(s) == [i \in 1..Len(s) |-> s[Len(s) + 1 - i]]
RECURSIVE SeqOf(_)
SeqOf(S) == IF S = {} THEN <<>> ELSE LET x == CHOOSE y \in S : TRUE IN <<x>> \o SeqOf(S \ {x})
Range(s) == {s[i] : i \in 1..Len(s)}

(* leaf labelling: which datum sits at leaf i (0-based) *)
LabOf(i) == IF Lab = "pairs" THEN i \div 2 ELSE IF Lab = "same" THEN 0 ELSE i
LeafHashes(n) == [i \in 1..n |-> Leaf(Dat(LabOf(i - 1)))]

(***************************************************************************)
(* 2. merkle/util.go                                                       *)
(***************************************************************************)
RECURSIVE HighBit(_)
HighBit(x) == IF x = 0 THEN 0 ELSE 1 + HighBit(x \div 2)
RECURSIVE CountBit(_)
CountBit(x) == IF x = 0 THEN 0 ELSE (x % 2) + CountBit(x \div 2)
RECURSIVE Pow2(_)
Pow2(k) == IF k = 0 THEN 1 ELSE 2 * Pow2(k - 1)
SplitImpl(w) == Pow2(HighBit(w - 1) - 1)            \* 1 << (highBit(w-1) - 1), w >= 2

(***************************************************************************)
(* 3. Reference definitions                                                *)
(***************************************************************************)
RECURSIVE Pow2Below(_, _)
Pow2Below(n, k) == IF 2 * k >= n THEN k ELSE Pow2Below(n, 2 * k)
SplitK(n) == Pow2Below(n, 1)                       \* largest power of two < n   (n >= 2)

(* RFC 6962 2.1: MTH(D[a:b]) over the leaf hashes D (D[i] of the RFC is D[i+1] here) *)
RECURSIVE MTH(_, _, _)
MTH(D, a, b) == IF b = a THEN EmptyH
                ELSE IF b = a + 1 THEN D[a + 1]
                ELSE LET k == SplitK(b - a) IN Node(MTH(D, a, a + k), MTH(D, a + k, b))

(* RFC 6962 2.1.1: PATH(m, D[a:b]) (m absolute), listed leaf to root as in the RFC *)
RECURSIVE PATH(_, _, _, _)
PATH(m, D, a, b) == IF b = a + 1 THEN <<>>
                    ELSE LET k == SplitK(b - a) IN
                         IF m < a + k THEN Append(PATH(m, D, a, a + k), MTH(D, a + k, b))
                         ELSE Append(PATH(m, D, a + k, b), MTH(D, a, a + k))
(* the same path with the side of each sibling: 1 = sibling on the right, 0 = on the left *)
RECURSIVE PATHF(_, _, _, _)
PATHF(m, D, a, b) == IF b = a + 1 THEN <<>>
                     ELSE LET k == SplitK(b - a) IN
                          IF m < a + k THEN Append(PATHF(m, D, a, a + k), <<1, MTH(D, a + k, b)>>)
                          ELSE Append(PATHF(m, D, a + k, b), <<0, MTH(D, a, a + k)>>)

(* RFC 6962 2.1.2: SUBPROOF(m, D[a:b], flag), m relative to a *)
RECURSIVE SUBPROOF(_, _, _, _, _)
SUBPROOF(m, D, a, b, flag) ==
    IF m = b - a THEN (IF flag THEN <<>> ELSE <<MTH(D, a, b)>>)
    ELSE LET k == SplitK(b - a) IN
         IF m <= k THEN Append(SUBPROOF(m, D, a, a + k, flag), MTH(D, a + k, b))
         ELSE Append(SUBPROOF(m - k, D, a + k, b, FALSE), MTH(D, a, a + k))
CPROOF(m, D, n) == SUBPROOF(m, D, 0, n, TRUE)

(* the complete subtrees of a tree with n leaves, largest first: <<a, b>> ranges *)
RECURSIVE Decomp(_, _)
Decomp(a, n) == IF n = 0 THEN <<>>
                ELSE LET k == IF n = 1 THEN 1 ELSE (IF 2 * SplitK(n) = n THEN n ELSE SplitK(n))
                     IN <<<<a, a + k>>>> \o Decomp(a + k, n - k)
RefFrontier(D, n) == LET dc == Decomp(0, n) IN [i \in 1..Len(dc) |-> MTH(D, dc[i][1], dc[i][2])]
(* post-order listing of a complete subtree; the node file is the concatenation over Decomp *)
RECURSIVE PO(_, _, _)
PO(D, a, b) == IF b = a + 1 THEN <<D[a + 1]>>
               ELSE LET k == (b - a) \div 2 IN PO(D, a, a + k) \o PO(D, a + k, b) \o <<MTH(D, a, b)>>
RECURSIVE ConcatPO(_, _, _)
ConcatPO(D, dc, i) == IF i > Len(dc) THEN <<>> ELSE PO(D, dc[i][1], dc[i][2]) \o ConcatPO(D, dc, i + 1)
RefFile(D, n) == ConcatPO(D, Decomp(0, n), 1)

(* textbook Bitcoin-style root: pair up, an odd node is paired with itself; empty list -> zero hash *)
RefLevelUp(hs) == [i \in 1..((Len(hs) + 1) \div 2) |->
                      D2(hs[2 * i - 1], IF 2 * i <= Len(hs) THEN hs[2 * i] ELSE hs[2 * i - 1])]
RECURSIVE TxRootRef(_)
TxRootRef(hs) == IF Len(hs) = 0 THEN Zero ELSE IF Len(hs) = 1 THEN hs[1] ELSE TxRootRef(RefLevelUp(hs))

(***************************************************************************)
(* 4. Implementation-shaped transcriptions                                 *)
(***************************************************************************)
(* -- merkle_hasher.go: _hash_fold, _hash_full ------------------------------ *)
RECURSIVE FoldFrom(_, _, _)
FoldFrom(hs, i, acc) == IF i = 0 THEN acc ELSE FoldFrom(hs, i - 1, Node(hs[i], acc))
HashFold(hs) == FoldFrom(hs, Len(hs) - 1, hs[Len(hs)])            \* Len(hs) >= 1

RECURSIVE HashFull(_, _, _)
HashFull(lv, l, r) ==                                             \* -> [root, hashes, panic]
    LET w == r - l IN
    IF w = 0 THEN [root |-> EmptyH, hashes |-> <<>>, panic |-> FALSE]
    ELSE IF w = 1 THEN [root |-> lv[l + 1], hashes |-> <<lv[l + 1]>>, panic |-> FALSE]
    ELSE LET sw == SplitImpl(w)
             L  == HashFull(lv, l, l + sw)
             R  == HashFull(lv, l + sw, r)
             rt == Node(L.root, R.root)
         IN [root |-> rt,
             hashes |-> IF sw * 2 = w THEN <<rt>> ELSE L.hashes \o R.hashes,
             panic |-> L.panic \/ R.panic \/ Len(L.hashes) # 1]
HashFullTreeWithLeafHash(lv) ==
    LET r == HashFull(lv, 0, Len(lv)) IN [r EXCEPT !.panic = r.panic \/ Len(r.hashes) # CountBit(Len(lv))]

(* -- merkle_tree.go: CompactMerkleTree ------------------------------------- *)
(* state: size, hashes (frontier), store (the node file), cache (rootHash; Zero = not cached) *)
EmptyTree == [size |-> 0, hashes |-> <<>>, store |-> <<>>, cache |-> Zero]

RECURSIVE AppLoop(_, _, _, _, _)
AppLoop(s, hs, sz, leaf, sh) ==            \* for s := treeSize; s%2 == 1; s >>= 1
    IF s % 2 = 1 THEN LET nl == Node(hs[sz], leaf) IN AppLoop(s \div 2, hs, sz - 1, nl, Append(sh, nl))
    ELSE [leaf |-> leaf, sz |-> sz, sh |-> sh]
AppendHash(t, leaf) ==
    LET r == AppLoop(t.size, t.hashes, Len(t.hashes), leaf, <<leaf>>)
    IN [size |-> t.size + 1, hashes |-> Append(SubSeq(t.hashes, 1, r.sz), r.leaf),
        store |-> t.store \o r.sh, cache |-> Zero]
AppendData(t, d) == AppendHash(t, Leaf(d))
RootOf(t) == IF t.cache # Zero THEN t.cache
             ELSE IF Len(t.hashes) # 0 THEN HashFold(t.hashes) ELSE EmptyH
AfterRoot(t) == [t EXCEPT !.cache = RootOf(t)]                    \* Root() fills the cache
RootWithNewLeaf(t, d) == HashFold(Append(t.hashes, Leaf(d)))
RECURSIVE AppendAll(_, _, _)
AppendAll(t, ds, i) == IF i > Len(ds) THEN t ELSE AppendAll(AppendData(t, ds[i]), ds, i + 1)
RootWithNewLeaves(t, ds) == RootOf(AppendAll([t EXCEPT !.store = <<>>], ds, 1))   \* cloneMem: cache is copied too
RECURSIVE Build(_, _)
Build(D, n) == IF n = 0 THEN EmptyTree ELSE AppendHash(Build(D, n - 1), D[n])
(* NewTree(size, hashes, store) / UnMarshal: _update *)
Update(size, hashes, store) == [size |-> size, hashes |-> hashes, store |-> store, cache |-> Zero]
UpdateOk(size, hashes) == Len(hashes) = CountBit(size)            \* otherwise panic
(* Marshal is (size, frontier); UnMarshal INTO A USED tree object: _update replaces size and frontier, keeps the    *)
(* store and must drop the cached root of the state that is being replaced                                         *)
Marshal(t) == [size |-> t.size, hashes |-> t.hashes]
UnMarshalInto(t, snap) == [size |-> snap.size, hashes |-> snap.hashes, store |-> t.store, cache |-> Zero]

(* getSubTreeSize / getSubTreePos / getStoredHashNum *)
RECURSIVE STS(_, _)
STS(n, id) == IF n = 0 THEN <<>>
              ELSE IF n % 2 = 1 THEN Append(STS(n \div 2, 2 * id), 2 * id - 1) ELSE STS(n \div 2, 2 * id)
SubTreeSize(n) == STS(n, 1)
RECURSIVE PrefixSums(_, _, _)
PrefixSums(s, i, acc) == IF i > Len(s) THEN <<>> ELSE <<acc + s[i]>> \o PrefixSums(s, i + 1, acc + s[i])
SubTreePos(n) == PrefixSums(SubTreeSize(n), 1, 0)
RECURSIVE SumSeq(_, _)
SumSeq(s, i) == IF i > Len(s) THEN 0 ELSE s[i] + SumSeq(s, i + 1)
StoredHashNum(n) == SumSeq(SubTreeSize(n), 1)
(* fileHashStore.GetHash: a read outside the file returns an error that every caller drops => zero hash *)
GetHash(store, pos) == IF pos >= 0 /\ pos < Len(store) THEN store[pos + 1] ELSE Zero
(* NewFileHashStore(name, size): seek to StoredHashNum(size); what was beyond is overwritten by later appends *)
Reopen(file, size) == SubSeq(file, 1, StoredHashNum(size))
ReopenOk(file, size) == Len(file) >= StoredHashNum(size)          \* checkConsistence

RightRoot(store, n, k, off) ==             \* root of D[k:n] from the file, as in the three proof builders
    LET pos == SubTreePos(n - k)
    IN HashFold([p \in 1..Len(pos) |-> GetHash(store, pos[p] + off + k * 2 - 1 - 1)])

RECURSIVE InclLoop(_, _, _, _, _, _)
InclLoop(store, m, n, off, hs, ps) ==      \* InclusionProof / MerkleInclusionLeafPath main loop
    IF n # 1
    THEN LET k == SplitImpl(n) IN
         IF m < k THEN InclLoop(store, m, k, off, Append(hs, RightRoot(store, n, k, off)), Append(ps, 1))
         ELSE LET off2 == off + k * 2 - 1
              IN InclLoop(store, m - k, n - k, off2, Append(hs, GetHash(store, off2 - 1)), Append(ps, 0))
    ELSE [hs |-> Rev(hs), ps |-> Rev(ps)]
InclusionProof(t, m, n) ==                 \* -> [err, proof]
    IF m >= n \/ t.size < n THEN [err |-> TRUE, proof |-> <<>>]
    ELSE [err |-> FALSE, proof |-> InclLoop(t.store, m, n, 0, <<>>, <<>>).hs]
(* a leaf path is [val, items: seq of <<flag, hash>>, trail: number of surplus bytes (< 33) at the end] *)
MerkleInclusionLeafPath(t, d, m, n) ==
    IF m >= n \/ t.size < n THEN [err |-> TRUE, path |-> [val |-> d, items |-> <<>>, trail |-> 0]]
    ELSE LET r == InclLoop(t.store, m, n, 0, <<>>, <<>>)
         IN [err |-> FALSE, path |-> [val |-> d, items |-> [i \in 1..Len(r.hs) |-> <<r.ps[i], r.hs[i]>>], trail |-> 0]]

RECURSIVE SubproofLoop(_, _, _, _, _, _)
SubproofLoop(store, m, n, b, off, hs) ==
    IF m < n
    THEN LET k == SplitImpl(n) IN
         IF m <= k THEN SubproofLoop(store, m, k, b, off, Append(hs, RightRoot(store, n, k, off)))
         ELSE LET off2 == off + k * 2 - 1
              IN SubproofLoop(store, m - k, n - k, FALSE, off2, Append(hs, GetHash(store, off2 - 1)))
    ELSE IF ~b
         THEN LET pos == SubTreePos(n) IN
              IF Len(pos) # 1 THEN <<<<"PANIC">>>>
              ELSE Rev(Append(hs, GetHash(store, pos[1] + off - 1)))
         ELSE Rev(hs)
ConsistencyProof(t, m, n) == IF m > n \/ t.size < n THEN <<>> ELSE SubproofLoop(t.store, m, n, TRUE, 0, <<>>)

(* -- merkle_tree.go: MerkleVerifier ----------------------------------------- *)
RECURSIVE CalcRoot(_, _, _, _, _)
CalcRoot(h, idx, last, p, pos) ==          \* calculate_root_hash_from_audit_path; pos 0-based
    IF last > 0
    THEN IF pos >= Len(p) THEN [ok |-> FALSE, h |-> Zero]
         ELSE IF idx % 2 = 1 THEN CalcRoot(Node(p[pos + 1], h), idx \div 2, last \div 2, p, pos + 1)
         ELSE IF idx < last THEN CalcRoot(Node(h, p[pos + 1]), idx \div 2, last \div 2, p, pos + 1)
         ELSE CalcRoot(h, idx \div 2, last \div 2, p, pos)
    ELSE IF pos < Len(p) THEN [ok |-> FALSE, h |-> Zero] ELSE [ok |-> TRUE, h |-> h]
VerifyLeafHashInclusion(leaf, idx, proof, root, size) ==
    IF size <= idx THEN FALSE
    ELSE LET r == CalcRoot(leaf, idx, size - 1, proof, 0) IN r.ok /\ r.h = root
VerifyLeafInclusion(d, idx, proof, root, size) == VerifyLeafHashInclusion(Leaf(d), idx, proof, root, size)

RECURSIVE StripRight(_, _)
StripRight(node, last) == IF node % 2 = 1 THEN StripRight(node \div 2, last \div 2) ELSE <<node, last>>
RECURSIVE ConsWalk(_, _, _, _, _, _)
ConsWalk(node, last, nh, oh, p, pos) ==    \* for node != 0 {...}
    IF node = 0 THEN [ok |-> TRUE, nh |-> nh, oh |-> oh, pos |-> pos, last |-> last]
    ELSE IF node % 2 = 1
         THEN IF pos >= Len(p) THEN [ok |-> FALSE, nh |-> nh, oh |-> oh, pos |-> pos, last |-> last]
              ELSE ConsWalk(node \div 2, last \div 2, Node(p[pos + 1], nh), Node(p[pos + 1], oh), p, pos + 1)
         ELSE IF node < last
              THEN IF pos >= Len(p) THEN [ok |-> FALSE, nh |-> nh, oh |-> oh, pos |-> pos, last |-> last]
                   ELSE ConsWalk(node \div 2, last \div 2, Node(nh, p[pos + 1]), oh, p, pos + 1)
              ELSE ConsWalk(node \div 2, last \div 2, nh, oh, p, pos)
RECURSIVE ConsClimb(_, _, _, _)
ConsClimb(last, nh, p, pos) ==             \* for last_node != 0 {...}
    IF last = 0 THEN [ok |-> TRUE, nh |-> nh, pos |-> pos]
    ELSE IF pos >= Len(p) THEN [ok |-> FALSE, nh |-> nh, pos |-> pos]
         ELSE ConsClimb(last \div 2, Node(nh, p[pos + 1]), p, pos + 1)
(* anySize = FALSE: the code (since fix c963b88): the shortcut `old_root == new_root => accept` only when the sizes are
   equal; anySize = TRUE: the shortcut as it was coded at the pinned commit, taken before the sizes are looked at
   (finding F15, kept as the documented counterexample: rows carry both verdicts, `strict` and `acc`) *)
VerifyConsistency(m, n, oroot, nroot, p, anySize) ==
    IF m > n THEN FALSE
    ELSE IF oroot = nroot /\ (anySize \/ m = n) THEN TRUE
    ELSE IF m = 0 THEN TRUE
    ELSE LET s == StripRight(m - 1, n - 1)
             node == s[1]
             last == s[2]
         IN IF Len(p) = 0 THEN FALSE
            ELSE LET h0   == IF node # 0 THEN p[1] ELSE oroot
                     pos0 == IF node # 0 THEN 1 ELSE 0
                     w    == ConsWalk(node, last, h0, h0, p, pos0)
                 IN IF ~w.ok THEN FALSE
                    ELSE LET c == ConsClimb(w.last, w.nh, p, w.pos)
                         IN c.ok /\ c.nh = nroot /\ w.oh = oroot /\ c.pos = Len(p)

(* -- merkle_hasher.go: MerkleProve / MerkleLeafPath / MerkleHashes ------------ *)
RECURSIVE ProveFold(_, _, _)
ProveFold(h, items, i) == IF i > Len(items) THEN h
                          ELSE ProveFold(IF items[i][1] = 0 THEN Node(items[i][2], h) ELSE Node(h, items[i][2]), items, i + 1)
(* trailing bytes shorter than one element are ignored by the code (size = remaining / 33) *)
MerkleProve(path, root) == LET h == ProveFold(Leaf(path.val), path.items, 1)
                           IN [ok |-> h = root, val |-> path.val]

RECURSIVE Depth(_)
Depth(n) == IF n <= 1 THEN 0 ELSE 1 + Depth((n + 1) \div 2)       \* ceil(log2 n)
PairUp(level) == LET ln == Len(level) IN
                 [k \in 1..((ln \div 2) + (ln % 2)) |-> IF 2 * k <= ln THEN Node(level[2 * k - 1], level[2 * k]) ELSE level[ln]]
RECURSIVE LevelAt(_, _, _)
LevelAt(leaves, d, i) == IF i = d THEN leaves ELSE PairUp(LevelAt(leaves, d, i + 1))   \* MerkleHashes(leaves, d)[i]
FirstIndex(x, s) == IF \E i \in 1..Len(s) : s[i] = x THEN (CHOOSE i \in 1..Len(s) : s[i] = x /\ \A j \in 1..(i - 1) : s[j] # x) - 1 ELSE -1
RECURSIVE LeafPathLoop(_, _, _, _, _)
LeafPathLoop(leaves, d, i, index, items) ==
    IF i = 0 THEN items
    ELSE LET sub == LevelAt(leaves, d, i)
             sl  == Len(sub)
         IN IF index = sl - 1 /\ sl % 2 # 0 THEN LeafPathLoop(leaves, d, i - 1, index \div 2, items)
            ELSE IF index % 2 # 0 THEN LeafPathLoop(leaves, d, i - 1, index \div 2, Append(items, <<0, sub[index]>>))
            ELSE LeafPathLoop(leaves, d, i - 1, index \div 2, Append(items, <<1, sub[index + 2]>>))
MerkleLeafPath(d, leaves) ==
    LET index == FirstIndex(Leaf(d), leaves) IN
    IF index < 0 THEN [err |-> TRUE, path |-> [val |-> d, items |-> <<>>, trail |-> 0]]
    ELSE [err |-> FALSE, path |-> [val |-> d, items |-> LeafPathLoop(leaves, Depth(Len(leaves)), Depth(Len(leaves)), index, <<>>), trail |-> 0]]

(* -- common/merkle_tree.go: ComputeMerkleRoot (in place, the slice is the workspace) -- *)
RECURSIVE PairLoop(_, _, _)
PairLoop(arr, i, n) == IF i < n THEN PairLoop([arr EXCEPT ![i + 1] = D2(arr[2 * i + 1], arr[2 * i + 2])], i + 1, n) ELSE arr
RECURSIVE CMRLoop(_)
CMRLoop(hs) == IF Len(hs) = 1 THEN hs[1]
               ELSE LET n == Len(hs) \div 2
                        a == PairLoop(hs, 0, n)
                    IN IF Len(hs) = 2 * n + 1
                       THEN CMRLoop(SubSeq([a EXCEPT ![n + 1] = D2(a[2 * n + 1], a[2 * n + 1])], 1, n + 1))
                       ELSE CMRLoop(SubSeq(a, 1, n))
ComputeMerkleRoot(hs) == IF Len(hs) = 0 THEN Zero ELSE CMRLoop(hs)

(***************************************************************************)
(* 5. Monitors: what a claim means                                         *)
(***************************************************************************)
(* the hash at leaf position idx of a tree of `size` leaves whose root hash is t (only the path is opened) *)
RECURSIVE SubAt(_, _, _)
SubAt(t, idx, size) == IF idx < 0 \/ idx >= size THEN NONE
                       ELSE IF size = 1 THEN t
                       ELSE IF ~IsNode(t) THEN NONE
                       ELSE LET k == SplitK(size) IN IF idx < k THEN SubAt(t[2], idx, k) ELSE SubAt(t[3], idx - k, size - k)
InclusionTrue(leaf, idx, size, root) == SubAt(root, idx, size) = leaf /\ leaf # NONE
(* the root of the first m leaves of the n-leaf tree with root t *)
RECURSIVE PrefixRoot(_, _, _)
PrefixRoot(t, n, m) == IF m = n THEN t
                       ELSE IF ~IsNode(t) THEN NONE
                       ELSE LET k == SplitK(n) IN
                            IF m <= k THEN PrefixRoot(t[2], k, m)
                            ELSE LET r == PrefixRoot(t[3], n - k, m - k) IN IF r = NONE THEN NONE ELSE Node(t[2], r)
ConsistencyTrue(m, n, oroot, nroot) == m >= 1 /\ m <= n /\ PrefixRoot(nroot, n, m) = oroot
(* the leaf hash of datum d is a leaf of the tree with root t *)
RECURSIVE LeafOf(_, _)
LeafOf(lf, t) == t = lf \/ (IsNode(t) /\ (LeafOf(lf, t[2]) \/ LeafOf(lf, t[3])))
MemberTrue(d, root) == LeafOf(Leaf(d), root)

(* ... and which proof belongs to a true claim: the hashes next to the path, read off the root term.             *)
RECURSIVE Siblings(_, _, _)
Siblings(t, idx, size) == IF size = 1 THEN <<>>
                          ELSE LET k == SplitK(size) IN
                               IF idx < k THEN Append(Siblings(t[2], idx, k), t[3])
                               ELSE Append(Siblings(t[3], idx - k, size - k), t[2])
InclusionProofTrue(leaf, idx, size, root, proof) ==
    InclusionTrue(leaf, idx, size, root) /\ proof = Siblings(root, idx, size)
RECURSIVE RefSub(_, _, _, _)
RefSub(t, n, m, b) == IF m = n THEN (IF b THEN <<>> ELSE <<t>>)
                      ELSE LET k == SplitK(n) IN
                           IF m <= k THEN Append(RefSub(t[2], k, m, b), t[3])
                           ELSE Append(RefSub(t[3], n - k, m - k, FALSE), t[2])
(* for equal sizes RFC 6962 defines no proof content: the claim is decided by the roots alone, and a verifier that *)
(* ignores the proof argument there (as the reference implementation does) is not counted as accepting an altered  *)
(* proof                                                                                                           *)
ConsistencyProofTrue(m, n, oroot, nroot, proof) ==
    ConsistencyTrue(m, n, oroot, nroot) /\ (m = n \/ proof = RefSub(nroot, n, m, TRUE))
(* a leaf path is right when, walking down from the root, every element is the hash on the stated side and the     *)
(* walk ends in the leaf hash of the value (a flag other than 0 reads as "right"; surplus bytes shorter than an    *)
(* element are not part of the path)                                                                               *)
RECURSIVE Desc(_, _, _, _)
Desc(t, lf, items, i) == IF i = 0 THEN t = lf
                         ELSE IsNode(t) /\ (IF items[i][1] = 0 THEN t[2] = items[i][2] /\ Desc(t[3], lf, items, i - 1)
                                            ELSE t[3] = items[i][2] /\ Desc(t[2], lf, items, i - 1))
LeafPathTrue(path, root) == Desc(root, Leaf(path.val), path.items, Len(path.items))

RECURSIVE Subterms(_)
Subterms(t) == IF IsNode(t) THEN {t} \cup Subterms(t[2]) \cup Subterms(t[3]) ELSE {t}

(***************************************************************************)
(* 6. Tables                                                               *)
(***************************************************************************)
Emit(tag, row) == ~EmitOn \/ PrintT(<<tag, ToJson(row)>>)
Bool2(b) == IF b THEN 1 ELSE 0
Failed(checks) == {c[1] : c \in {c \in checks : ~c[2]}}            \* checks: set of <<name, holds>>

(* ---- C06 : tree rows (one per size) and proof rows (one per (m, n)) ------------------------------ *)
C06Jobs == [k : {"tree"}, n : 0..N, m : {0}] \cup {j \in [k : {"proofs"}, n : 1..N, m : 0..N] : j.m <= j.n}

C06Tree(n) ==
    LET D  == LeafHashes(n + 3)
        t  == Build(D, n)
        t1 == AfterRoot(t)
        ds == [i \in 1..3 |-> Dat(LabOf(n + i - 1))]
        hf == HashFullTreeWithLeafHash(LeafHashes(n))
        checks == {
          <<"root=MTH", RootOf(t) = MTH(D, 0, n)>>,
          <<"cached-root", RootOf(t1) = MTH(D, 0, n) /\ RootOf(AppendHash(t1, D[n + 1])) = MTH(D, 0, n + 1)>>,
          <<"frontier", t.hashes = RefFrontier(D, n) /\ UpdateOk(t.size, t.hashes)>>,
          <<"file", t.store = RefFile(D, n) /\ Len(t.store) = StoredHashNum(n)>>,
          <<"predict1", RootWithNewLeaf(t, ds[1]) = MTH(D, 0, n + 1)>>,
          <<"predictK", \A k \in 0..3 : RootWithNewLeaves(t1, SubSeq(ds, 1, k)) = MTH(D, 0, n + k)
                                        /\ RootWithNewLeaves(t, SubSeq(ds, 1, k)) = MTH(D, 0, n + k)>>,
          <<"reload", \A s \in 0..n : ReopenOk(t.store, s) /\
                         AppendAll(Update(s, Build(D, s).hashes, Reopen(t.store, s)),
                                   [i \in 1..(n - s) |-> Dat(LabOf(s + i - 1))], 1) = t>>,
          <<"reload-used", \A s \in 0..(n + 3) :     \* roll the used tree (root cached) back / forward to a snapshot of size s
                         LET u == UnMarshalInto(t1, Marshal(Build(D, s))) IN
                         /\ RootOf(u) = MTH(D, 0, s) /\ u.size = s /\ u.hashes = RefFrontier(D, s)
                         /\ (s < n + 3 => RootOf(AppendHash(AfterRoot(u), D[s + 1])) = MTH(D, 0, s + 1))
                         /\ (s < n + 3 => RootWithNewLeaves(AfterRoot(u), <<Dat(LabOf(s))>>) = MTH(D, 0, s + 1))>>,
          <<"hashfull", ~hf.panic /\ hf.root = MTH(D, 0, n) /\ hf.hashes = RefFrontier(D, n)>> }
        row == [n |-> n, root |-> RootOf(t), frontier |-> t.hashes, file |-> t.store,
                next |-> [k \in 1..3 |-> MTH(D, 0, n + k)]]
    IN [bad |-> Failed(checks), rows |-> {row}]

C06Proofs(n, m) ==
    LET D    == LeafHashes(n)
        t    == Build(D, n)
        root == MTH(D, 0, n)
        hasI == m < n
        hasC == m >= 1
        ip   == InclusionProof(t, m, n)
        lp   == MerkleInclusionLeafPath(t, Dat(LabOf(m)), m, n)
        cp   == ConsistencyProof(t, m, n)
        checks ==
          (IF hasI THEN {
             <<"incl=PATH", ~ip.err /\ ip.proof = PATH(m, D, 0, n)>>,
             <<"leafpath=PATH", ~lp.err /\ lp.path.items = PATHF(m, D, 0, n)>>,
             <<"incl-accepted", VerifyLeafHashInclusion(D[m + 1], m, ip.proof, root, n)>>,
             <<"incl-accepted-data", VerifyLeafInclusion(Dat(LabOf(m)), m, ip.proof, root, n)>>,
             <<"leafpath-accepted", MerkleProve(lp.path, root) = [ok |-> TRUE, val |-> Dat(LabOf(m))]>> }
           ELSE {}) \cup
          (IF hasC THEN {
             <<"cons=PROOF", cp = CPROOF(m, D, n)>>,
             <<"cons-accepted", VerifyConsistency(m, n, MTH(D, 0, m), root, cp, TRUE)
                                /\ VerifyConsistency(m, n, MTH(D, 0, m), root, cp, FALSE)>> }
           ELSE {})
        row == [n |-> n, m |-> m, root |-> root, oroot |-> IF hasC THEN MTH(D, 0, m) ELSE Zero,
                incl |-> IF hasI THEN ip.proof ELSE <<>>,
                path |-> IF hasI THEN lp.path.items ELSE <<>>,
                cons |-> IF hasC THEN cp ELSE <<>>,
                hasI |-> Bool2(hasI), hasC |-> Bool2(hasC)]
    IN [bad |-> Failed(checks), rows |-> {row}]

(* ---- c06big : sizes too large for nested printing of everything: only roots and a few proofs ------ *)
C06BigJobs == {j \in [k : {"big"}, n : Sizes, m : {0}] : TRUE}
BigMs(n) == {0, n - 1, n \div 2, n \div 3, SplitK(IF n >= 2 THEN n ELSE 2) % n}
C06Big(n) ==
    LET D == LeafHashes(n)
        t == Build(D, n)
        root == MTH(D, 0, n)
        ms == {m \in BigMs(n) : m >= 0 /\ m < n}
        checks == {<<"root=MTH", RootOf(t) = root>>, <<"frontier", t.hashes = RefFrontier(D, n)>>,
                   <<"filelen", Len(t.store) = StoredHashNum(n)>>} \cup
                  {<<"incl=PATH", InclusionProof(t, m, n).proof = PATH(m, D, 0, n)>> : m \in ms} \cup
                  {<<"cons=PROOF", ConsistencyProof(t, m + 1, n) = CPROOF(m + 1, D, n)>> : m \in ms}
        rows == {[n |-> n, m |-> m, root |-> root, oroot |-> MTH(D, 0, m + 1),
                  incl |-> PATH(m, D, 0, n), path |-> PATHF(m, D, 0, n), cons |-> CPROOF(m + 1, D, n),
                  hasI |-> 1, hasC |-> 1, frontier |-> t.hashes] : m \in ms}
    IN [bad |-> Failed(checks), rows |-> rows]

(* ---- C03 ------------------------------------------------------------------------------------------ *)
C03Jobs == [k : {"tx"}, n : 0..N, m : {0}]
TxHashes(n) == [i \in 1..n |-> TxH(LabOf(i - 1))]
C03Row(n) ==
    LET hs == TxHashes(n)
        checks == {<<"impl=ref", ComputeMerkleRoot(hs) = TxRootRef(hs)>>}
    IN [bad |-> Failed(checks), rows |-> {[n |-> n, root |-> TxRootRef(hs)]}]

(* ---- C07 : verifier soundness under mutations ------------------------------------------------------ *)
(* Claims are built over index-valued components: hp = pool of hash terms, dp = pool of data terms.       *)
HPoolSet(n) ==
    LET D == LeafHashes(n + 1)
        roots == {MTH(D, 0, j) : j \in 1..(n + 1)}
    IN UNION {Subterms(r) : r \in roots} \cup {EmptyH, Zero, Fresh(1)}
DPoolSet(n) ==
    LET D == LeafHashes(n)
        inner == {x \in Subterms(MTH(D, 0, n)) : IsNode(x)}
    IN {Dat(LabOf(i)) : i \in 0..n} \cup {Cat(x[2], x[3]) : x \in inner} \cup {PCat(x[2], x[3]) : x \in inner}
IndexIn(x, pool) == CHOOSE i \in 1..Len(pool) : pool[i] = x

(* replacement candidates for a proof element / leaf / root that currently is pool entry `cur` *)
NearSet(hp, cur, extra) ==
    LET t == hp[cur]
        kids == IF IsNode(t) THEN {t[2], t[3]} ELSE {}
        parents == {i \in 1..Len(hp) : IsNode(hp[i]) /\ (hp[i][2] = t \/ hp[i][3] = t)}
        sibs == UNION {{hp[i][2], hp[i][3]} : i \in parents}
    IN {i \in 1..Len(hp) : hp[i] \in kids \cup sibs \cup {Fresh(1), EmptyH}} \cup parents \cup extra
Cands(hp, cur, extra) == (IF PoolMode = "full" THEN 1..Len(hp) ELSE NearSet(hp, cur, extra)) \ {cur}

ReplaceMuts(p, hp, extra) == UNION {{<<"replace", [p EXCEPT ![i] = c]>> : c \in Cands(hp, p[i], extra)} : i \in 1..Len(p)}
SeqMuts(p, hp, extra) ==                   \* mutations of a sequence of pool indices -> set of <<name, seq>>
    ReplaceMuts(p, hp, extra)
    \cup {<<"drop", SubSeq(p, 1, i - 1) \o SubSeq(p, i + 1, Len(p))>> : i \in 1..Len(p)}
    \cup {<<"dup", SubSeq(p, 1, i) \o SubSeq(p, i, Len(p))>> : i \in 1..Len(p)}
    \cup {<<"append", Append(p, c)>> : c \in (IF PoolMode = "full" THEN 1..Len(hp) ELSE extra \cup Range(p))}
    \cup ({<<"swap", [p EXCEPT ![i] = p[j], ![j] = p[i]]>> : i \in 1..Len(p), j \in 1..Len(p)} \ {<<"swap", p>>})

(* inclusion claims: [v, leaf, isData, idx, size, root, proof] *)
InclMuts(c, hp, dp, extra) ==
    {[c EXCEPT !.proof = x[2], !.mut = x[1]] : x \in SeqMuts(c.proof, hp, extra)}
    \cup {[c EXCEPT !.idx = i, !.mut = "index"] : i \in {c.idx - 1, IF c.idx < 2147483000 THEN c.idx + 1 ELSE 0, 2147483646} \ {-1, c.idx}}
    \cup {[c EXCEPT !.size = s, !.mut = "size"] : s \in {c.size - 1, c.size + 1, 2 * c.size, 0}}
    \cup {[c EXCEPT !.root = r, !.mut = "root"] : r \in Cands(hp, c.root, extra)}
    \cup (IF c.isData = 1 THEN {[c EXCEPT !.leaf = l, !.mut = "leaf"] : l \in (1..Len(dp)) \ {c.leaf}}
          ELSE {[c EXCEPT !.leaf = l, !.mut = "leaf"] : l \in Cands(hp, c.leaf, extra)})
InclJudge(c, hp, dp) ==
    LET leaf  == IF c.isData = 1 THEN Leaf(dp[c.leaf]) ELSE hp[c.leaf]
        proof == [i \in 1..Len(c.proof) |-> hp[c.proof[i]]]
        acc   == VerifyLeafHashInclusion(leaf, c.idx, proof, hp[c.root], c.size)
    IN [acc |-> acc, strict |-> acc, claim |-> InclusionTrue(leaf, c.idx, c.size, hp[c.root]),
        truth |-> InclusionProofTrue(leaf, c.idx, c.size, hp[c.root], proof)]

(* consistency claims: [v, m, n, oroot, nroot, proof] *)
ConsMuts(c, hp, extra) ==
    {[c EXCEPT !.proof = x[2], !.mut = x[1]] : x \in SeqMuts(c.proof, hp, extra)}
    \cup {[c EXCEPT !.m = i, !.mut = "oldsize"] : i \in {c.m - 1, c.m + 1} \ {0}}
    \cup {[c EXCEPT !.n = i, !.mut = "newsize"] : i \in {c.n - 1, c.n + 1, 2 * c.n} \ {0}}
    \cup {[c EXCEPT !.oroot = r, !.mut = "oldroot"] : r \in Cands(hp, c.oroot, extra)}
    \cup {[c EXCEPT !.nroot = r, !.mut = "newroot"] : r \in Cands(hp, c.nroot, extra)}
ConsJudge(c, hp) ==
    LET proof == [i \in 1..Len(c.proof) |-> hp[c.proof[i]]]
    IN [acc |-> VerifyConsistency(c.m, c.n, hp[c.oroot], hp[c.nroot], proof, TRUE),
        strict |-> VerifyConsistency(c.m, c.n, hp[c.oroot], hp[c.nroot], proof, FALSE),
        claim |-> ConsistencyTrue(c.m, c.n, hp[c.oroot], hp[c.nroot]),
        truth |-> ConsistencyProofTrue(c.m, c.n, hp[c.oroot], hp[c.nroot], proof)]

(* leaf-path claims: [v, val, flags, hashes, trail, root]; flags and hashes are parallel sequences *)
ProveMuts(c, hp, dp, extra) ==
    {[c EXCEPT !.hashes = x[2], !.mut = x[1]] : x \in ReplaceMuts(c.hashes, hp, extra)}
    \cup {[c EXCEPT !.flags[i] = 1 - c.flags[i], !.mut = "flag"] : i \in 1..Len(c.flags)}
    \cup {[c EXCEPT !.flags[i] = 2, !.mut = "flag2"] : i \in 1..Len(c.flags)}
    \cup {[c EXCEPT !.flags = SubSeq(c.flags, 1, i - 1) \o SubSeq(c.flags, i + 1, Len(c.flags)),
                    !.hashes = SubSeq(c.hashes, 1, i - 1) \o SubSeq(c.hashes, i + 1, Len(c.hashes)), !.mut = "drop"] : i \in 1..Len(c.flags)}
    \cup {[c EXCEPT !.flags = SubSeq(c.flags, 1, i) \o SubSeq(c.flags, i, Len(c.flags)),
                    !.hashes = SubSeq(c.hashes, 1, i) \o SubSeq(c.hashes, i, Len(c.hashes)), !.mut = "dup"] : i \in 1..Len(c.flags)}
    \cup ({[c EXCEPT !.flags = [c.flags EXCEPT ![i] = c.flags[j], ![j] = c.flags[i]],
                     !.hashes = [c.hashes EXCEPT ![i] = c.hashes[j], ![j] = c.hashes[i]], !.mut = "swap"] :
               i \in 1..Len(c.flags), j \in 1..Len(c.flags)} \ {[c EXCEPT !.mut = "swap"]})
    \cup {[c EXCEPT !.flags = Append(c.flags, f), !.hashes = Append(c.hashes, h), !.mut = "append"] :
              f \in {0, 1}, h \in (IF PoolMode = "full" THEN 1..Len(hp) ELSE extra \cup Range(c.hashes))}
    \cup {[c EXCEPT !.trail = k, !.mut = "trailing"] : k \in {1, 32}}
    \cup (IF Len(c.flags) > 0
          THEN {[c EXCEPT !.flags = SubSeq(c.flags, 1, Len(c.flags) - 1), !.hashes = SubSeq(c.hashes, 1, Len(c.hashes) - 1),
                          !.trail = k, !.mut = "cut"] : k \in {1, 20, 32}}
          ELSE {})
    \cup {[c EXCEPT !.val = d, !.mut = "value"] : d \in (1..Len(dp)) \ {c.val}}
    \cup {[c EXCEPT !.root = r, !.mut = "root"] : r \in Cands(hp, c.root, extra)}
ProveJudge(c, hp, dp) ==
    LET path == [val |-> dp[c.val], items |-> [i \in 1..Len(c.flags) |-> <<c.flags[i], hp[c.hashes[i]]>>], trail |-> c.trail]
        r == MerkleProve(path, hp[c.root])
    IN [acc |-> r.ok, strict |-> r.ok, claim |-> MemberTrue(dp[c.val], hp[c.root]), truth |-> LeafPathTrue(path, hp[c.root])]

C07Jobs == {j \in [k : {"incl", "incld", "cons", "prove"}, n : 1..N, m : 0..N] :
               /\ j.m <= j.n
               /\ (j.k = "cons" => j.m >= 1)
               /\ (j.k # "cons" => j.m < j.n)}

C07Rows(kind, n, m) ==
    LET D  == LeafHashes(n)
        t  == Build(D, n)
        hp == SeqOf(HPoolSet(n))
        dp == SeqOf(DPoolSet(n))
        ix(x) == IndexIn(x, hp)
        ixs(s) == [i \in 1..Len(s) |-> IndexIn(s[i], hp)]
        root == ix(MTH(D, 0, n))
        extra == {ix(Fresh(1)), ix(EmptyH), root, ix(D[n]), ix(D[1])}
        honest ==
          IF kind = "incl" THEN
             [v |-> "incl", isData |-> 0, leaf |-> ix(D[m + 1]), idx |-> m, size |-> n, root |-> root,
              proof |-> ixs(InclusionProof(t, m, n).proof), mut |-> "none"]
          ELSE IF kind = "incld" THEN
             [v |-> "incl", isData |-> 1, leaf |-> IndexIn(Dat(LabOf(m)), dp), idx |-> m, size |-> n, root |-> root,
              proof |-> ixs(InclusionProof(t, m, n).proof), mut |-> "none"]
          ELSE IF kind = "cons" THEN
             [v |-> "cons", m |-> m, n |-> n, oroot |-> ix(MTH(D, 0, m)), nroot |-> root,
              proof |-> ixs(ConsistencyProof(t, m, n)), mut |-> "none"]
          ELSE LET p == MerkleInclusionLeafPath(t, Dat(LabOf(m)), m, n).path IN
             [v |-> "prove", val |-> IndexIn(p.val, dp), flags |-> [i \in 1..Len(p.items) |-> p.items[i][1]],
              hashes |-> [i \in 1..Len(p.items) |-> IndexIn(p.items[i][2], hp)], trail |-> 0, root |-> root, mut |-> "none"]
        Muts(c) == IF c.v = "incl" THEN InclMuts(c, hp, dp, extra)
                   ELSE IF c.v = "cons" THEN ConsMuts(c, hp, extra)
                   ELSE ProveMuts(c, hp, dp, extra)
        Judge(c) == IF c.v = "incl" THEN InclJudge(c, hp, dp)
                    ELSE IF c.v = "cons" THEN ConsJudge(c, hp)
                    ELSE ProveJudge(c, hp, dp)
        m1 == Muts(honest)
        m2 == IF Doubles THEN UNION {{[d EXCEPT !.mut = c.mut \o "+" \o d.mut] : d \in Muts(c)} : c \in m1} ELSE {}
        claims == {honest} \cup m1 \cup m2
    IN [hp |-> hp, dp |-> dp, claims |-> claims,
        judged |-> {[c |-> c, j |-> Judge(c)] : c \in claims}]

(* the only unsoundness of the verifiers as they were coded before fix c963b88 is the named deviation: consistency shortcut with m < n *)
ShortcutDeviation(c, hp) == c.v = "cons" /\ c.m < c.n /\ c.oroot = c.nroot
C07Decide(kind, n, m) ==
    LET r == C07Rows(kind, n, m)
        honest == {x \in r.judged : x.c.mut = "none"}
        checks == {
          <<"honest-accepted", \A x \in honest : x.j.acc /\ x.j.strict /\ x.j.truth>>,
          <<"right-proof=>true-claim", \A x \in r.judged : x.j.truth => x.j.claim>>,
          <<"complete-repaired", \A x \in r.judged : x.j.truth => x.j.strict>>,
          <<"sound-repaired", \A x \in r.judged : x.j.strict => x.j.truth>>,
          <<"sound-as-coded-except-shortcut", \A x \in r.judged : (x.j.acc /\ ~x.j.truth) => ShortcutDeviation(x.c, r.hp)>>,
          <<"as-coded=repaired-except-shortcut", \A x \in r.judged : (x.j.acc # x.j.strict) => ShortcutDeviation(x.c, r.hp)>> }
        rows == {[c |-> x.c, acc |-> Bool2(x.j.acc), strict |-> Bool2(x.j.strict), truth |-> Bool2(x.j.truth),
                  claim |-> Bool2(x.j.claim)] : x \in r.judged}
    IN [bad |-> Failed(checks), rows |-> rows, pool |-> [kind |-> kind, n |-> n, m |-> m, hp |-> r.hp, dp |-> r.dp]]

(* ---- C08 : served proofs ----------------------------------------------------------------------------- *)
(* cross-state tree of one block with k records; block-inclusion proofs for heights h < r                 *)
C08Jobs == [k : {"cross"}, n : 0..N, m : {0}] \cup {j \in [k : {"block"}, n : 1..N, m : 0..N] : j.m < j.n}
C08Cross(k) ==
    LET L    == LeafHashes(k)
        hf   == HashFullTreeWithLeafHash(L)
        root == IF k = 0 THEN Zero ELSE hf.root                    \* executeBlock
        paths == [i \in 1..k |-> MerkleLeafPath(Dat(LabOf(i - 1)), L)]
        d == Depth(k)
        checks == {
          <<"root=MTH", k = 0 \/ (~hf.panic /\ hf.root = MTH(L, 0, k))>>,
          <<"paired-root=MTH", k = 0 \/ LevelAt(L, d, 0) = <<MTH(L, 0, k)>>>>,
          <<"served-verifies", \A i \in 1..k : ~paths[i].err /\ MerkleProve(paths[i].path, root) = [ok |-> TRUE, val |-> Dat(LabOf(i - 1))]>>,
          <<"served=PATH", \A i \in 1..k : paths[i].path.items = PATHF(FirstIndex(L[i], L), L, 0, k)>> }
    IN [bad |-> Failed(checks),
        rows |-> {[k |-> k, root |-> root, paths |-> [i \in 1..k |-> paths[i].path.items]]}]
(* header r commits the accumulator over r+1 leaves (leaf 0 = zero hash, leaf j = hash of block j-1); *)
(* Ledger.GetMerkleProof(h, r) = MerkleInclusionLeafPath(H_h, h+1, r+1)                                *)
C08Block(r, h) ==
    LET D == LeafHashes(r + 1)
        t == Build(D, r + 1)
        root == RootOf(Build(D, r + 1))
        lp == MerkleInclusionLeafPath(t, Dat(LabOf(h + 1)), h + 1, r + 1)
        checks == {<<"block-proof-verifies", ~lp.err /\ MerkleProve(lp.path, root) = [ok |-> TRUE, val |-> Dat(LabOf(h + 1))]>>,
                   <<"block-root=MTH", root = MTH(D, 0, r + 1)>>}
    IN [bad |-> Failed(checks), rows |-> {[r |-> r, h |-> h, root |-> root, path |-> lp.path.items]}]

(* ---- c08nest : which leaves a transaction contributes when its contract makes nested calls --------------------- *)
(* A script is a sequence of steps <<"rec", i>> (PutMerkleVal of datum i) and <<"call", body, mode>> (NativeCall of   *)
(* a contract that runs `body`): mode "ok" = the callee succeeds, "caught" = the callee fails after its body and the  *)
(* caller carries on, "uncaught" = the callee fails and the caller returns the error (the transaction fails).         *)
(* Run / InvokeFrame transcribe NativeService.Invoke: the caller's leaves are set aside, the callee starts with an     *)
(* empty list; on success the result is callee's leaves FOLLOWED BY the caller's earlier ones (the code's order), on  *)
(* failure the caller's list is restored.                                                                             *)
RECURSIVE Run(_, _, _)
InvokeFrame(body, fails, saved) ==
    LET r == Run(body, 1, <<>>) IN
    IF ~r.ok \/ fails THEN [ok |-> FALSE, cur |-> saved] ELSE [ok |-> TRUE, cur |-> r.cur \o saved]
Run(steps, i, cur) ==
    IF i > Len(steps) THEN [ok |-> TRUE, cur |-> cur]
    ELSE IF steps[i][1] = "rec" THEN Run(steps, i + 1, Append(cur, Leaf(Dat(steps[i][2]))))
    ELSE LET r == InvokeFrame(steps[i][2], steps[i][3] # "ok", cur) IN
         IF ~r.ok /\ steps[i][3] # "caught" THEN [ok |-> FALSE, cur |-> cur]     \* only a "caught" call is survived
         ELSE Run(steps, i + 1, r.cur)
TxLeaves(script) == InvokeFrame(script, FALSE, <<>>).cur          \* HandleInvokeTransaction: a failed transaction gives none
(* monitor: the data a SUCCESSFUL transaction registered: its own recs and those of successful callees, recursively *)
RECURSIVE Fails(_, _)
Fails(steps, i) == i <= Len(steps) /\ ((steps[i][1] = "call" /\ (steps[i][3] = "uncaught" \/ (steps[i][3] = "ok" /\ Fails(steps[i][2], 1))))
                                       \/ Fails(steps, i + 1))
RECURSIVE Registered(_, _)
Registered(steps, i) ==
    IF i > Len(steps) THEN {}
    ELSE (IF steps[i][1] = "rec" THEN {steps[i][2]}
          ELSE IF steps[i][3] = "ok" /\ ~Fails(steps[i][2], 1) THEN Registered(steps[i][2], 1) ELSE {})
         \cup Registered(steps, i + 1)
TxRegistered(script) == IF Fails(script, 1) THEN {} ELSE Registered(script, 1)

Recs(from, k) == [i \in 1..k |-> <<"rec", from + i - 1>>]
SubLen(sub, inner) == sub + (IF inner = "none" THEN 0 ELSE 2)
SubBody(from, sub, inner) == Recs(from, sub) \o
    (IF inner = "none" THEN <<>> ELSE <<<<"call", Recs(from + sub, 1), inner>>, <<"rec", from + sub + 1>>>>)
NestScript(sh) ==
    LET sl == SubLen(sh.sub, sh.inner)
        calls == IF sh.mode = "none" THEN <<>>
                 ELSE <<<<"call", SubBody(sh.pre, sh.sub, sh.inner), sh.mode>>>> \o
                      (IF sh.twice = 1 THEN <<<<"call", SubBody(sh.pre + sl, sh.sub, sh.inner), "ok">>>> ELSE <<>>)
        used == sh.pre + (IF sh.mode = "none" THEN 0 ELSE sl * (1 + sh.twice))
    IN [steps |-> Recs(0, sh.pre) \o calls \o Recs(used, sh.post), next |-> used + sh.post]
NestShapes == {sh \in [pre : 0..N, sub : 0..N, post : 0..N, mode : {"none", "ok", "caught", "uncaught"},
                        inner : {"none", "ok", "caught", "uncaught"}, twice : {0, 1}, extra : {0, 1}] :
                  /\ (sh.mode = "none" => sh.sub = 0 /\ sh.inner = "none" /\ sh.twice = 0)
                  /\ (sh.mode # "none" => sh.sub + (IF sh.inner = "none" THEN 0 ELSE 1) >= 1 \/ sh.pre >= 1)}
NestJobs == {[k |-> "nest", n |-> 0, m |-> 0, sh |-> sh] : sh \in NestShapes}
C08Nest(sh) ==
    LET sc     == NestScript(sh)
        (* the block: the scripted transaction, then (extra = 1) a plain transaction with one more record *)
        leaves == TxLeaves(sc.steps) \o (IF sh.extra = 1 THEN <<Leaf(Dat(sc.next))>> ELSE <<>>)
        want   == TxRegistered(sc.steps) \cup (IF sh.extra = 1 THEN {sc.next} ELSE {})
        k      == Len(leaves)
        hf     == HashFullTreeWithLeafHash(leaves)
        root   == IF k = 0 THEN Zero ELSE hf.root
        order  == [i \in 1..k |-> leaves[i][2][2]]
        paths  == [i \in 1..k |-> MerkleLeafPath(Dat(order[i]), leaves)]
        checks == {
          <<"every-registered-record-is-a-leaf-once", \A d \in want : Cardinality({i \in 1..k : order[i] = d}) = 1>>,
          <<"no-other-leaf", \A i \in 1..k : order[i] \in want>>,
          <<"served-verifies", \A i \in 1..k : ~paths[i].err /\ MerkleProve(paths[i].path, root) = [ok |-> TRUE, val |-> Dat(order[i])]>>,
          <<"root=MTH", k = 0 \/ (~hf.panic /\ hf.root = MTH(leaves, 0, k))>> }
    IN [bad |-> Failed(checks),
        rows |-> {[steps |-> sc.steps, extra |-> IF sh.extra = 1 THEN sc.next ELSE -1, order |-> order, root |-> root,
                   paths |-> [i \in 1..k |-> paths[i].path.items]]}]

(* ---- the state machine -------------------------------------------------------------------------------- *)
(* the chains of table "c08chain": block h (1..N) produces job.blocks[h] records; Sizes is the alphabet of counts.  *)
(* Every chain of length N is printed once (the state graph is a tree); -simulate gives seeded long chains.       *)
(* A process kill between the store commits of a block followed by recovery is a stuttering step of this          *)
(* abstraction (the block ends up committed; C12 owns recovery): the driver injects it into some chains and then  *)
(* requires the replayed block to be served like any other.                                                       *)
ChainJobs == {[k |-> "chain", n |-> 0, m |-> 0, blocks |-> <<>>]}

Jobs == IF Table = "c06" THEN C06Jobs
        ELSE IF Table = "c08chain" THEN ChainJobs
        ELSE IF Table = "c06big" THEN C06BigJobs
        ELSE IF Table = "c03" THEN C03Jobs
        ELSE IF Table = "c07" THEN C07Jobs
        ELSE IF Table = "c08nest" THEN NestJobs
        ELSE C08Jobs

Result(j) == IF j.k = "tree" THEN C06Tree(j.n)
             ELSE IF j.k = "proofs" THEN C06Proofs(j.n, j.m)
             ELSE IF j.k = "big" THEN C06Big(j.n)
             ELSE IF j.k = "tx" THEN C03Row(j.n)
             ELSE IF j.k = "nest" THEN C08Nest(j.sh)
             ELSE IF j.k = "cross" THEN C08Cross(j.n)
             ELSE IF j.k = "block" THEN C08Block(j.n, j.m)
             ELSE C07Decide(j.k, j.n, j.m)

Init == job \in Jobs /\ st = "todo" /\ bad = {}

Decide == /\ st = "todo"
          /\ LET r == Result(job) IN
             /\ bad' = r.bad
             /\ ((job.k = "incl" /\ job.m = 0) => Emit("POOL", r.pool))      \* the pools depend on n only
             /\ \A row \in r.rows : Emit("ROW", [job |-> job, row |-> row])
          /\ st' = "done"
          /\ UNCHANGED job

Extend == /\ Len(job.blocks) < N
          /\ \E k \in Sizes : job' = [job EXCEPT !.blocks = Append(job.blocks, k)]
          /\ (Len(job'.blocks) = N => Emit("CHAIN", job'.blocks))
          /\ UNCHANGED <<st, bad>>

Next == IF Table = "c08chain" THEN Extend ELSE Decide
Spec == Init /\ [][Next]_vars

(* the properties, on the model: every model-level check of the table held *)
PropC06 == bad = {}
PropC07 == bad = {}
PropC03 == bad = {}
PropC08 == bad = {}
=============================================================================
