SPECIFICATION Spec
CONSTANTS EmitOn = FALSE
          ModelMut = "dispatch-swap"
INVARIANT PropDispatch
INVARIANT PropRoundTrip
INVARIANT PropBind
INVARIANT PropLive
CHECK_DEADLOCK FALSE
