SPECIFICATION TraceSpec
CONSTANTS Addrs = {}
          EpochSets = {}
          InitCons = {}
          Ids = {"m1","m2","m3"}
          Mode = "vote"
          EmitOn = FALSE
CONSTRAINT HighWater
INVARIANT OnceC25
PROPERTY PropC25
POSTCONDITION Accepted
CHECK_DEADLOCK FALSE
