SPECIFICATION Spec
CONSTANTS Table = "calc"
          Thorough = FALSE
INVARIANT PropC28Model
CHECK_DEADLOCK FALSE
