SPECIFICATION Spec
CONSTANTS K = 2
          Vals = {"x"}
          Ranges = {12, 22, 11}
          WithBatch = TRUE
          Mode = "edge"
          Depth = 0
VIEW View
INVARIANT PropC10
INVARIANT PropC11
CHECK_DEADLOCK FALSE
