SPECIFICATION Spec
CONSTANTS Src = {"g"}
          Tgt = {"t"}
          Ids = {"i1"}
          Vars = {1}
          Gated = {"g"}
          MaxH = 1
          EmitOn = "edge"
          GovChains = {"g","t"}
          RelayOn = FALSE
          Silent = {"v","r"}
VIEW View
INVARIANT TypeOK
PROPERTY PropC20 PropC21 PropC22
CHECK_DEADLOCK FALSE
