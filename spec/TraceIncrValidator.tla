------------------------- MODULE TraceIncrValidator -------------------------
(* P-VALIDATE for C38: histories recorded from the real IncrementValidator (one event per call, logged at return).
   "reset" = a new tracker built with NewIncrementValidator(ctor); the event carries the nominal capacity max. *)
EXTENDS IncrValidator, TLCExt
VARIABLE l
TraceLog == ndJsonDeserialize("trace.ndjson")
THeights == 0..64
TTx == 1..6
tvars == <<blocks, base, max, run, hist, l>>
Ev == TraceLog[l]
IsEvent(e) == l <= Len(TraceLog) /\ Ev.op = e /\ l' = l + 1
TReset == /\ IsEvent("reset") /\ max' = Ev.max /\ blocks' = <<>> /\ base' = 0 /\ run' = <<>>
          /\ hist' = [max |-> Ev.max, ops |-> <<>>]
TAdd == IsEvent("add") /\ AddBlock(Ev.a[1], {Ev.a[i] : i \in 2..Len(Ev.a)})
TClean == IsEvent("clean") /\ Clean
TVerify == IsEvent("verify") /\ Verify(Ev.a[1], Ev.a[2]) /\ Ev.obs = VerifyResult(Ev.a[1], Ev.a[2])
TRange == IsEvent("range") /\ Range /\ Ev.obs = RangeResult
TraceInit == /\ TLCSet(1, 1) /\ l = 1 /\ max = 1 /\ blocks = <<>> /\ base = 0 /\ run = <<>>
             /\ hist = [max |-> 1, ops |-> <<>>]
TraceNext == TReset \/ TAdd \/ TClean \/ TVerify \/ TRange
TraceSpec == TraceInit /\ [][TraceNext]_tvars
HighWater == TLCSet(1, IF TLCGet(1) < l THEN l ELSE TLCGet(1))
Accepted == PrintT(<<"HIGHWATER", TLCGet(1)>>) /\ TLCGet(1) = Len(TraceLog) + 1
=============================================================================
