SPECIFICATION Spec
CONSTANTS MaxH = 10
          MaxCrash = 10
          MaxMut = 0
          MaxLen = 99
          Kinds = {}
          HdrOps = {}
          Paths = {"submit", "add"}
          MixPaths = FALSE
          RecoverAsCoded = FALSE
          KeepTreeOnWipe = FALSE
          ParentByLookup = FALSE
          Mode = "mc"
VIEW View
INVARIANT PropC12
INVARIANT PropC13
PROPERTY PropC13Step
CHECK_DEADLOCK FALSE
