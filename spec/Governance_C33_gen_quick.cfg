SPECIFICATION Spec
CONSTANTS NV = 4
          Mode = "C33"
          Areas = {"node","sc","rel","sv"}
          AltSp = TRUE
          MaxView = 3
          MaxHeight = 3
          MaxId = 2
          MaxSigns = 99
          NWho = 1
          Rich = FALSE
          EmitOn = TRUE
VIEW View
CONSTRAINT Bound
INVARIANT PropAll
INVARIANT TypeOK
CHECK_DEADLOCK FALSE
