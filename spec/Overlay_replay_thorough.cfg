SPECIFICATION Spec
CONSTANTS K = 3
          Vals = {"x", "y"}
          Ranges = {13}
          WithBatch = FALSE
          Mode = "replay"
          Depth = 3
CONSTRAINT EmitTrace
INVARIANT PropC11
CHECK_DEADLOCK FALSE
