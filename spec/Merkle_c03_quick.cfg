SPECIFICATION Spec
CONSTANTS Table = "c03"
          N = 33
          Sizes = {}
          Doubles = FALSE
          PoolMode = "full"
          Lab = "id"
          EmitOn = TRUE
INVARIANT PropC03
CHECK_DEADLOCK FALSE
