\* C29 PoSA: family bor (polygon, inside one sprint), chain configuration P (MCPoSA!SetsP; proposer b), mode gen
SPECIFICATION Spec
CONSTANTS Family = "bor"
          Epoch = 0
          CliqueFixed = FALSE
          Sets <- SetsP
          GenesisSigner = "b"
          G0 = 200
          Keys = {"a", "b", "c", "d", "x"}
          Diffs = {1, 2, 3}
          Defects <- BorDefects
          MaxStored = 4
          MaxLen = 5
          EmitOn = TRUE
          Sprint = 0
          SpanEnd = 0
          TwoBranch = FALSE
          TraceLen = 0
VIEW View
INVARIANT PropC29
INVARIANT ModelSane
INVARIANT ModelEquiv
CHECK_DEADLOCK FALSE
