------------------------------- MODULE GovCore -------------------------------
(***************************************************************************)
(* Pure part of the governance specification (C32-C35): the contract       *)
(* methods as operators on the storage record, the ghost state and the     *)
(* property monitors.  No variables: EXTENDed by Governance.tla (the model *)
(* that TLC explores and prints) and by GovJudge.tla (which judges         *)
(* executions recorded from the real contracts).  See Governance.tla for   *)
(* the description.                                                        *)
(***************************************************************************)
EXTENDS Integers, Sequences, FiniteSets, TLC, Json

CONSTANTS AltSp        \* TRUE: the upper-case hex spelling of a key is accepted at registration (as the code does)

Ceil2of3(n) == (2 * n + 2) \div 3
MinPeers == 4
CycleBlocks == 2      \* seeded config.MaxBlockChangeView: anybody may trigger the epoch change after that many blocks

M_CAND == "approveCandidate"
M_BLACK == "blackNode"
M_WHITE == "whiteNode"
M_SCREG == "approveRegisterSideChain"
M_SCUPD == "approveUpdateSideChain"
M_SCQUIT == "approveQuitSideChain"
M_RELREG == "approveRegisterRelayer"
M_RELREM == "approveRemoveRelayer"
M_SVREG == "approveRegisterStateValidator"
M_SVREM == "approveRemoveStateValidator"
NodeMethods == {M_CAND, M_BLACK, M_WHITE}
ScMethods == {M_SCREG, M_SCUPD, M_SCQUIT}
RelMethods == {M_RELREG, M_RELREM}
SvMethods == {M_SVREG, M_SVREM}
HasRequestObject(m) == m \notin {M_BLACK, M_WHITE}
Cl(p, c) == [p |-> p, c |-> c]

(* ------------------------------------------------------------------ helpers *)
Pick(X) == CHOOSE x \in X : TRUE
ConsEntries(s) == {e \in s.pool : e.st = "cons"}
ConsAddr(s) == {e.k : e \in ConsEntries(s)}      \* the address of a key's account carries the key's name
Active(s) == {e \in s.pool : e.st \in {"cand", "cons"}}
EntriesOf(s, k, sp) == {e \in s.pool : e.k = k /\ e.sp = sp}
ByKey(X, k) == {x \in X : x.k = k}
ById(X, id) == {x \in X : x.id = id}
SignsOf(s, m, q) == LET X == {x \in s.signs : x.m = m /\ x.q = q} IN IF X = {} THEN {} ELSE Pick(X).by
DropSigns(s, m, qs) == {x \in s.signs : ~(x.m = m /\ x.q \in qs)}

RECURSIVE JoinKs(_)
JoinKs(ks) == IF Len(ks) = 0 THEN "" ELSE IF Len(ks) = 1 THEN ks[1].k \o ks[1].sp
              ELSE ks[1].k \o ks[1].sp \o "+" \o JoinKs(Tail(ks))
KsSet(ks) == {ks[i] : i \in DOMAIN ks}

(* CheckConsensusSigns as coded: add the approver, count pool entries in consensus status whose key's address
   signed, compare with (2*sum+2)/3, delete the set when reached. *)
CheckSigns(s, m, q, by) ==
    LET all == SignsOf(s, m, q) \cup {by}
        n == Cardinality({e \in ConsEntries(s) : e.k \in all})
        sum == Cardinality(ConsEntries(s))
        rest == DropSigns(s, m, {q})
    IN IF n >= Ceil2of3(sum) THEN [hit |-> TRUE, signs |-> rest]
       ELSE [hit |-> FALSE, signs |-> rest \cup {[m |-> m, q |-> q, by |-> all]}]

Res(r, s) == [r |-> r, s |-> s]
Err(s) == Res("err", s)

(* executeCommitDpos *)
CommitPool(p) == {[e EXCEPT !.st = "cons"] : e \in {x \in p : x.st \in {"cand", "cons"}}}
ExecCommit(s) == IF s.height = s.cheight THEN Err(s)
                 ELSE Res("ok", [s EXCEPT !.pool = CommitPool(s.pool), !.view = s.view + 1, !.cheight = s.height])

(* --------------------------------------------------------------- node_manager *)
DoReg(s, a) ==
    IF a.sp = "U" /\ ~AltSp THEN Err(s)
    ELSE IF a.k \in s.black THEN Err(s)
    ELSE IF ByKey(s.papply, a.k) # {} THEN Err(s)
    ELSE IF ByKey(s.pool, a.k) # {} THEN Err(s)                                  \* D1 (code: same spelling only)
    ELSE Res("ok", [s EXCEPT !.papply = @ \cup {[k |-> a.k, sp |-> a.sp, own |-> a.own]},
                             !.signs = DropSigns(s, M_CAND, {a.k \o "l", a.k \o "U"})])   \* D4

DoUnreg(s, a) ==
    LET ap == ByKey(s.papply, a.k)
    IN IF ap = {} THEN Err(s)
       ELSE IF Pick(ap).own # a.own THEN Err(s)
       ELSE Res("ok", [s EXCEPT !.papply = @ \ ap])

DoQuit(s, a) ==
    LET es == EntriesOf(s, a.k, a.sp)
    IN IF es = {} THEN Err(s)
       ELSE LET e == Pick(es)
            IN IF e.st \notin {"cons", "cand"} THEN Err(s)
               ELSE IF e.own # a.own THEN Err(s)
               ELSE IF Cardinality(Active(s)) <= MinPeers THEN Err(s)
               ELSE Res("ok", [s EXCEPT !.pool = (@ \ {e}) \cup {[e EXCEPT !.st = "quit"]}])

\* w = "op": the transaction carries the consensus operator's witness
DoCommit(s, a) ==
    IF a.own # "op" /\ s.height - s.cheight < CycleBlocks THEN Err(s) ELSE ExecCommit(s)

DoBlock(s) == Res("ok", [s EXCEPT !.height = @ + 1])

(* --------------------------------------------------- pre-checks of the approve methods *)
ApPre(s, a) ==
    CASE a.m = M_CAND   -> ByKey(s.papply, a.ks[1].k) # {}
      [] a.m = M_BLACK  -> /\ Cardinality(Active(s)) > MinPeers + Len(a.ks) - 1
                           /\ \A i \in DOMAIN a.ks : LET es == EntriesOf(s, a.ks[i].k, a.ks[i].sp)
                                                     IN es # {} /\ Pick(es).st # "black"
      [] a.m = M_WHITE  -> a.ks[1].k \in s.black
      [] a.m = M_SCREG  -> ById(s.scApply, a.id) # {}
      [] a.m = M_SCUPD  -> ById(s.scUpd, a.id) # {}
      [] a.m = M_SCQUIT -> a.id \in s.scQuit
      [] a.m = M_RELREG -> ById(s.relApply, a.id) # {}
      [] a.m = M_RELREM -> ById(s.relRemove, a.id) # {}
      [] a.m = M_SVREG  -> ById(s.svApply, a.id) # {}
      [] a.m = M_SVREM  -> ById(s.svRemove, a.id) # {}
      [] OTHER -> FALSE

(* --------------------------------------------------- effects once the threshold is reached *)
EffCand(s, a) ==
    LET k == a.ks[1].k
        ap == Pick(ByKey(s.papply, k))
        old == ByKey(s.pidx, k)
        idx == IF old # {} THEN Pick(old).idx ELSE s.cidx
        item == [k |-> k, sp |-> ap.sp, idx |-> idx, own |-> ap.own, st |-> "cand"]
    IN Res("hit", [s EXCEPT !.pool = {e \in @ : ~(e.k = k /\ e.sp = ap.sp)} \cup {item},
                            !.pidx = IF old # {} THEN @ ELSE @ \cup {[k |-> k, idx |-> idx]},
                            !.cidx = IF old # {} THEN @ ELSE @ + 1,
                            !.papply = @ \ {ap}])

EffBlack(s, a) ==
    LET listed == {e \in s.pool : \E i \in DOMAIN a.ks : e.k = a.ks[i].k /\ e.sp = a.ks[i].sp}
        commit == \E e \in listed : e.st = "cons"
        s1 == [s EXCEPT !.black = @ \cup {e.k : e \in listed},
                        !.pool = (@ \ listed) \cup {[e EXCEPT !.st = "black"] : e \in listed}]
    IN IF ~commit THEN Res("hit", s1)
       ELSE LET c == ExecCommit(s1) IN IF c.r = "err" THEN Err(s) ELSE Res("hit", c.s)

EffWhite(s, a) == Res("hit", [s EXCEPT !.black = @ \ {a.ks[1].k}])

EffScReg(s, a) == LET rq == Pick(ById(s.scApply, a.id))
                  IN Res("hit", [s EXCEPT !.sc = (@ \ ById(@, a.id)) \cup {rq}, !.scApply = @ \ {rq}])
EffScUpd(s, a) == LET rq == Pick(ById(s.scUpd, a.id))
                  IN Res("hit", [s EXCEPT !.sc = (@ \ ById(@, a.id)) \cup {rq}, !.scUpd = @ \ {rq}])
EffScQuit(s, a) == Res("hit", [s EXCEPT !.sc = @ \ ById(@, a.id),
                                        !.scQuit = @ \ {a.id},                     \* D2 (code: wrong key, stays)
                                        !.scUpd = @ \ ById(@, a.id),               \* D2 (code: stays)
                                        !.signs = DropSigns(s, M_SCUPD, {ToString(a.id)})])
EffRelReg(s, a) == LET rq == Pick(ById(s.relApply, a.id))
                   IN Res("hit", [s EXCEPT !.rel = @ \cup rq.who, !.relApply = @ \ {rq}])
EffRelRem(s, a) == LET rq == Pick(ById(s.relRemove, a.id))
                   IN Res("hit", [s EXCEPT !.rel = @ \ rq.who, !.relRemove = @ \ {rq}])          \* D3
EffSvReg(s, a) == LET rq == Pick(ById(s.svApply, a.id))
                  IN Res("hit", [s EXCEPT !.sv = @ \cup rq.who, !.svApply = @ \ {rq}])
EffSvRem(s, a) == LET rq == Pick(ById(s.svRemove, a.id))
                  IN Res("hit", [s EXCEPT !.sv = @ \ rq.who, !.svRemove = @ \ {rq}])

ApEffect(s, a) ==
    CASE a.m = M_CAND -> EffCand(s, a)   [] a.m = M_BLACK -> EffBlack(s, a)  [] a.m = M_WHITE -> EffWhite(s, a)
      [] a.m = M_SCREG -> EffScReg(s, a) [] a.m = M_SCUPD -> EffScUpd(s, a)  [] a.m = M_SCQUIT -> EffScQuit(s, a)
      [] a.m = M_RELREG -> EffRelReg(s, a) [] a.m = M_RELREM -> EffRelRem(s, a)
      [] a.m = M_SVREG -> EffSvReg(s, a) [] a.m = M_SVREM -> EffSvRem(s, a)

\* one approval transaction by address `by` (a failing transaction leaves no trace: atomic)
Approve1(s, a, by) ==
    IF ~ApPre(s, a) THEN
        IF a.m \notin SvMethods THEN Err(s)
        ELSE LET c == CheckSigns(s, a.m, a.q, by)                                  \* Q1
             IN IF c.hit THEN Res("panic", s) ELSE Res("ok", [s EXCEPT !.signs = c.signs])
    ELSE LET c == CheckSigns(s, a.m, a.q, by)
             s1 == [s EXCEPT !.signs = c.signs]
         IN IF ~c.hit THEN Res("ok", s1)
            ELSE LET e == ApEffect(s1, a) IN IF e.r = "err" THEN Err(s) ELSE e

(* composite approval round: the first Ceil2of3(n) consensus validators by pool index approve one after the other *)
RECURSIVE SortedCons(_)
SortedCons(X) == IF X = {} THEN <<>>
                 ELSE LET e == CHOOSE x \in X : \A y \in X : x.idx < y.idx \/ (x.idx = y.idx /\ (x.sp = "U" \/ y.sp = "l"))
                      IN <<e.k>> \o SortedCons(X \ {e})
RoundApprovers(s) == LET c == SortedCons(ConsEntries(s)) IN SubSeq(c, 1, Ceil2of3(Len(c)))
\* result of a round: "hit" if one of its approvals applied the request, else "ok" if one was accepted, else "err"
RECURSIVE RoundFold(_, _, _, _, _)
RoundFold(s, a, seq, i, best) ==
    IF i > Len(seq) THEN Res(best, s)
    ELSE LET x == Approve1(s, a, seq[i])
         IN IF x.r = "panic" THEN Res("panic", x.s)
            ELSE RoundFold(x.s, a, seq, i + 1, IF x.r = "hit" \/ best = "hit" THEN "hit" ELSE IF x.r = "ok" THEN "ok" ELSE best)
DoRound(s, a) == RoundFold(s, a, RoundApprovers(s), 1, "err")

(* ---------------------------------------------------------- side_chain_manager requests *)
Rec(a) == [id |-> a.id, own |-> a.own, ver |-> a.ver]
DoScReg(s, a) == IF ById(s.scApply, a.id) # {} \/ ById(s.sc, a.id) # {} THEN Err(s)
                 ELSE Res("ok", [s EXCEPT !.scApply = @ \cup {Rec(a)}])
DoScUpd(s, a) == LET c == ById(s.sc, a.id)
                 IN IF c = {} THEN Err(s)
                    ELSE IF Pick(c).own # a.own THEN Err(s)
                    ELSE Res("ok", [s EXCEPT !.scUpd = (@ \ ById(@, a.id)) \cup {Rec(a)},
                                             !.signs = IF Rec(a) \in s.scUpd THEN @
                                                       ELSE DropSigns(s, M_SCUPD, {ToString(a.id)})])   \* D4
DoScQuit(s, a) == LET c == ById(s.sc, a.id)
                  IN IF c = {} THEN Err(s)
                     ELSE IF Pick(c).own # a.own THEN Err(s)
                     ELSE Res("ok", [s EXCEPT !.scQuit = @ \cup {a.id}])

(* ------------------------------------------- relayer_manager / neo3_state_manager requests *)
DoRelReg(s, a) == Res("ok", [s EXCEPT !.relApply = @ \cup {[id |-> s.relAid, who |-> a.who]}, !.relAid = @ + 1])
DoRelRem(s, a) == Res("ok", [s EXCEPT !.relRemove = @ \cup {[id |-> s.relRid, who |-> a.who]}, !.relRid = @ + 1])
DoSvReg(s, a) == Res("ok", [s EXCEPT !.svApply = @ \cup {[id |-> s.svAid, who |-> a.who]}, !.svAid = @ + 1])
DoSvRem(s, a) == Res("ok", [s EXCEPT !.svRemove = @ \cup {[id |-> s.svRid, who |-> a.who]}, !.svRid = @ + 1])

Step(s, a) ==
    CASE a.t = "reg" -> DoReg(s, a)       [] a.t = "unreg" -> DoUnreg(s, a)   [] a.t = "quit" -> DoQuit(s, a)
      [] a.t = "commit" -> DoCommit(s, a) [] a.t = "block" -> DoBlock(s)
      [] a.t = "ap" -> Approve1(s, a, a.own)  [] a.t = "round" -> DoRound(s, a)
      [] a.t = "screg" -> DoScReg(s, a)   [] a.t = "scupd" -> DoScUpd(s, a)   [] a.t = "scquit" -> DoScQuit(s, a)
      [] a.t = "relreg" -> DoRelReg(s, a) [] a.t = "relrem" -> DoRelRem(s, a)
      [] a.t = "svreg" -> DoSvReg(s, a)   [] a.t = "svrem" -> DoSvRem(s, a)

(* ======================================================================== monitors *)
(* Ghost state G = [fresh, appr]:                                                                      *)
(*   fresh: requests made and not yet applied  [m, q, by (the requester)]                               *)
(*   appr : addresses that approved (method, request) since it was requested / last applied             *)
(*   old  : addresses whose approvals were given to an earlier request under the same (method, request   *)
(*          id) that was withdrawn or replaced by one with other content before being applied            *)
G0 == [fresh |-> {}, appr |-> {}, old |-> {}]

Registry(m, s) == CASE m = M_CAND -> {[k |-> e.k, sp |-> e.sp] : e \in s.pool}
                    [] m = M_BLACK -> s.black      [] m = M_WHITE -> s.black
                    [] m \in ScMethods -> s.sc     [] m \in RelMethods -> s.rel   [] m \in SvMethods -> s.sv
Pending(a, s) == IF HasRequestObject(a.m) THEN ApPre(s, a) ELSE FALSE
IsApprove(a) == a.t \in {"ap", "round"}
\* the approved action took effect in this step: the method reported it, or its registry part changed, or its
\* pending request disappeared
Applied(a, r, pre, post) ==
    IsApprove(a) /\ (r = "hit" \/ Registry(a.m, pre) # Registry(a.m, post) \/ (Pending(a, pre) /\ ~Pending(a, post)))

\* which (method, request) a request-making action creates, and for whom
ReqOf(a) == CASE a.t = "reg"    -> [m |-> M_CAND,   q |-> a.k]
              [] a.t = "screg"  -> [m |-> M_SCREG,  q |-> ToString(a.id)]
              [] a.t = "scupd"  -> [m |-> M_SCUPD,  q |-> ToString(a.id)]
              [] a.t = "scquit" -> [m |-> M_SCQUIT, q |-> ToString(a.id)]
              [] OTHER -> [m |-> "", q |-> ""]
\* ghost key of an approve action (candidate approvals of both spellings name the same request)
GKey(a) == IF a.m = M_CAND THEN a.ks[1].k ELSE IF a.m \in NodeMethods THEN a.q ELSE ToString(a.id)
FreshOf(g, m, q) == {f \in g.fresh : f.m = m /\ f.q = q}
ApprOf(g, m, q) == LET X == {x \in g.appr : x.m = m /\ x.q = q} IN IF X = {} THEN {} ELSE Pick(X).by
SetIn(X, m, q, by) == LET rest == {x \in X : ~(x.m = m /\ x.q = q)}
                      IN IF by = {} THEN rest ELSE rest \cup {[m |-> m, q |-> q, by |-> by]}
SetAppr(g, m, q, by) == SetIn(g.appr, m, q, by)
OldOf(g, m, q) == LET X == {x \in g.old : x.m = m /\ x.q = q} IN IF X = {} THEN {} ELSE Pick(X).by
\* the pending request under (m, q) is withdrawn or replaced: its approvals become approvals of an earlier request
Retire(g, m, q) == [g EXCEPT !.appr = SetIn(g.appr, m, q, {}), !.old = SetIn(g.old, m, q, OldOf(g, m, q) \cup ApprOf(g, m, q))]
Approvers(a, pre) == IF a.t = "ap" THEN {a.own} ELSE LET sq == RoundApprovers(pre) IN {sq[i] : i \in DOMAIN sq}

\* id of the request a relayer / state-validator request action created (read from the counters)
NewIdReq(a, pre) == CASE a.t = "relreg" -> [m |-> M_RELREG, q |-> ToString(pre.relAid)]
                      [] a.t = "relrem" -> [m |-> M_RELREM, q |-> ToString(pre.relRid)]
                      [] a.t = "svreg"  -> [m |-> M_SVREG,  q |-> ToString(pre.svAid)]
                      [] a.t = "svrem"  -> [m |-> M_SVREM,  q |-> ToString(pre.svRid)]

GhostNext(g, pre, a, r, post) ==
    IF r \notin {"ok", "hit"} THEN g
    ELSE IF a.t \in {"reg", "screg", "scupd", "scquit"} THEN
        LET rq == ReqOf(a)
            same == a.t = "scquit" \/ (a.t = "scupd" /\ Rec(a) \in pre.scUpd)     \* the same request again
            g1 == IF same THEN g ELSE Retire(g, rq.m, rq.q)
        IN [g1 EXCEPT !.fresh = {f \in g.fresh : ~(f.m = rq.m /\ f.q = rq.q)} \cup {[m |-> rq.m, q |-> rq.q, by |-> a.own]}]
    ELSE IF a.t \in {"relreg", "relrem", "svreg", "svrem"} THEN
        LET rq == NewIdReq(a, pre)
        IN [g EXCEPT !.fresh = @ \cup {[m |-> rq.m, q |-> rq.q, by |-> a.own]}]
    ELSE IF a.t = "unreg" THEN
        [Retire(g, M_CAND, a.k) EXCEPT !.fresh = {f \in g.fresh : ~(f.m = M_CAND /\ f.q = a.k)}]
    ELSE IF IsApprove(a) THEN
        IF Applied(a, r, pre, post)
        THEN [fresh |-> {f \in g.fresh : ~(f.m = a.m /\ f.q = GKey(a))}, appr |-> SetAppr(g, a.m, GKey(a), {}),
              old |-> SetIn(g.old, a.m, GKey(a), {})]
        ELSE [g EXCEPT !.appr = SetAppr(g, a.m, GKey(a), ApprOf(g, a.m, GKey(a)) \cup Approvers(a, pre))]
    ELSE g

(* PropC32: effect exactly at the approval that brings the distinct approvers of this (action, request) that are
   consensus validators now to Ceil2of3(N) *)
MonC32(g, pre, a, r, post) ==
    IF a.t # "ap" THEN {}
    ELSE LET all == ApprOf(g, a.m, GKey(a)) \cup {a.own}
             n == Cardinality(all \cap ConsAddr(pre))
             nOld == Cardinality((all \cup OldOf(g, a.m, GKey(a))) \cap ConsAddr(pre))
             thr == Ceil2of3(Cardinality(ConsAddr(pre)))
             app == Applied(a, r, pre, post)
         IN (IF app /\ n < thr
             THEN IF nOld >= thr THEN {Cl("C32", "approvals-of-replaced-request-counted:" \o a.m)}   \* a different request
                  ELSE {Cl("C32", "effect-below-threshold:" \o a.m)}
             ELSE {})
            \cup (IF r \in {"ok", "hit"} /\ n >= thr /\ ~app /\ (Pending(a, pre) \/ ~HasRequestObject(a.m))
                  THEN {Cl("C32", "no-effect-at-threshold:" \o a.m)} ELSE {})

(* PropC33: an applied request is consumed, and nothing is applied without a fresh request *)
MonC33(g, pre, a, r, post) ==
    IF ~IsApprove(a) \/ ~HasRequestObject(a.m) \/ ~Applied(a, r, pre, post) THEN {}
    ELSE (IF Pending(a, post) THEN {Cl("C33", "still-pending-after-apply:" \o a.m)} ELSE {})
         \cup (IF FreshOf(g, a.m, GKey(a)) = {} THEN {Cl("C33", "applied-without-fresh-request:" \o a.m)} ELSE {})

(* PropC34: pool invariants and epoch changes *)
ListedIn(a, e) == a.m = M_BLACK /\ IsApprove(a) /\ \E i \in DOMAIN a.ks : a.ks[i].k = e.k /\ a.ks[i].sp = e.sp
MonC34(g, pre, a, r, post) ==
    (IF Cardinality(Active(post)) < MinPeers THEN {Cl("C34", "active-below-four")} ELSE {})
    \cup (IF \E e1, e2 \in post.pool : e1 # e2 /\ e1.k = e2.k THEN {Cl("C34", "key-in-two-entries")} ELSE {})
    \cup (IF \E e1, e2 \in post.pool : e1.k # e2.k /\ e1.idx = e2.idx THEN {Cl("C34", "index-shared-by-two-keys")} ELSE {})
    \cup (IF a.t = "reg" /\ r \in {"ok", "hit"} /\ a.k \in pre.black THEN {Cl("C34", "blacklisted-key-registered")} ELSE {})
    \cup (IF post.view = pre.view THEN {}
          ELSE (IF post.view # pre.view + 1 THEN {Cl("C34", "view-not-advanced-by-one")} ELSE {})
               \cup (IF pre.cheight = post.height \/ post.cheight # post.height THEN {Cl("C34", "epoch-change-twice-in-block")} ELSE {})
               \cup (IF \E e \in post.pool : e.st # "cons" THEN {Cl("C34", "epoch-left-non-consensus-member")} ELSE {})
               \cup (IF \E e \in pre.pool : e.st \in {"cand", "cons"} /\ ~ListedIn(a, e) /\ ByKey(post.pool, e.k) = {}
                     THEN {Cl("C34", "epoch-dropped-active-member")} ELSE {})
               \cup (IF \E e \in pre.pool : (e.st \in {"quit", "black"} \/ ListedIn(a, e)) /\ EntriesOf(post, e.k, e.sp) # {}
                     THEN {Cl("C34", "epoch-kept-quitting-or-blacklisted")} ELSE {}))

(* PropC35: side-chain registry *)
MonC35(g, pre, a, r, post) ==
    LET ids == {c.id : c \in pre.sc \cup post.sc}
        chg == {id \in ids : ById(pre.sc, id) # ById(post.sc, id)}
        okr == r \in {"ok", "hit"}
    IN (IF a.t = "screg" /\ okr /\ (ById(pre.sc, a.id) # {} \/ ById(pre.scApply, a.id) # {})
        THEN {Cl("C35", "duplicate-registration-accepted")} ELSE {})
       \cup (IF a.t \in {"scupd", "scquit"} /\ okr /\ (ById(pre.sc, a.id) = {} \/ Pick(ById(pre.sc, a.id)).own # a.own)
             THEN {Cl("C35", "non-owner-request-accepted:" \o a.t)} ELSE {})
       \* single approvals: the registry changes only when the approvals given to THIS (method, chain id) reach the quorum
       \* (approvals of another request kind of the same chain never count; replaced requests are C32's subject)
       \cup (IF a.t = "ap" /\ a.m \in ScMethods /\ ById(pre.sc, a.id) # ById(post.sc, a.id)
                /\ Cardinality((ApprOf(g, a.m, GKey(a)) \cup OldOf(g, a.m, GKey(a)) \cup {a.own}) \cap ConsAddr(pre))
                       < Ceil2of3(Cardinality(ConsAddr(pre)))
             THEN {Cl("C35", "changed-below-quorum-of-own-approvals:" \o a.m)} ELSE {})
       \cup UNION {
            IF ById(pre.sc, id) = {} THEN
                \* a chain id becomes registered: only by an approved registration, with the requested record
                IF ~(IsApprove(a) /\ a.m = M_SCREG /\ a.id = id) THEN {Cl("C35", "registered-without-approved-registration:" \o a.t \o ":" \o a.m)}
                ELSE IF ById(post.sc, id) # ById(pre.scApply, id) THEN {Cl("C35", "record-differs-from-approved-request:" \o a.m)} ELSE {}
            ELSE \* a registered chain is changed or removed: only by an approved request of its registered owner
                IF ~(IsApprove(a) /\ a.m \in {M_SCUPD, M_SCQUIT} /\ a.id = id) THEN {Cl("C35", "registered-chain-changed-by:" \o a.t \o ":" \o a.m)}
                ELSE LET f == FreshOf(g, a.m, ToString(id))
                     IN (IF f = {} \/ (f # {} /\ Pick(f).by # Pick(ById(pre.sc, id)).own)
                         THEN {Cl("C35", "changed-without-request-of-registered-owner:" \o a.m)} ELSE {})
                        \cup (IF a.m = M_SCUPD /\ ById(post.sc, id) # ById(pre.scUpd, id)
                              THEN {Cl("C35", "record-differs-from-approved-request:" \o a.m)} ELSE {})
                        \cup (IF a.m = M_SCQUIT /\ ById(post.sc, id) # {} THEN {Cl("C35", "quit-left-a-record")} ELSE {})
            : id \in chg }

Mon(g, pre, a, r, post) == MonC32(g, pre, a, r, post) \cup MonC33(g, pre, a, r, post)
                           \cup MonC34(g, pre, a, r, post) \cup MonC35(g, pre, a, r, post)

=============================================================================
