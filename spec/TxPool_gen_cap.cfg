SPECIFICATION Spec
CONSTANTS Tx = {"t1", "t2", "t3"}
          MaxH = 1
          MAXTX = 1
          CAP = 1
          LIMIT = 100
          PreExec = FALSE
          Eager = TRUE
          Acts = {"admit", "rsp", "blocksaved"}
          ListLen = 1
          Depth = 5
          EmitOn = TRUE
VIEW View
CONSTRAINT Bound
CHECK_DEADLOCK FALSE
