----------------------------- MODULE SchemaSeed -----------------------------
(* Seed material for Schema.tla / VbftMsg.tla.  This committed copy is the   *)
(* VERIF_SEED=1 default; checks/C04.py and checks/C44.py overwrite the       *)
(* scratch copy of this module with 64 bytes derived from VERIF_SEED, so     *)
(* that the byte contents of the enumerated values change with the seed.     *)
SeedBytes == <<17, 203, 5, 98, 144, 61, 250, 33, 7, 189, 76, 222, 130, 49, 91, 12,
               165, 240, 27, 113, 66, 199, 8, 154, 83, 231, 40, 175, 102, 19, 216, 58,
               137, 3, 94, 247, 171, 25, 110, 206, 52, 149, 71, 228, 14, 183, 125, 36,
               89, 212, 161, 45, 9, 236, 118, 194, 63, 142, 30, 253, 79, 168, 21, 105>>
=============================================================================
