SPECIFICATION Spec
CONSTANTS VrfLen = 2
          KMax = 16
          MAXP = 4
          MAXE = 6
          MAXC = 6
          Tables <- TablesT
          NewTables <- NoNew
          SeedBytes <- AllBytes
INVARIANT PropC40
INVARIANT PropC40Ranges
CHECK_DEADLOCK FALSE
