SPECIFICATION Spec
CONSTANTS Table = "fee"
          Thorough = FALSE
INVARIANT PropC28Model
CHECK_DEADLOCK FALSE
