SPECIFICATION Spec
CONSTANTS Powers <- PowersTableBig
          MaxH = 2
          Mode = "table"
          TableSets = {1, 2, 3, 4, 5, 6, 7, 8, 9, 10, 11}
          Pairs = FALSE
          AbsenceAccepted = FALSE
          RepeatCounts = FALSE
          EmitOn = TRUE
VIEW View
CONSTRAINT InitialOnly
INVARIANT PropC30
INVARIANT QuorumArithmetic
CHECK_DEADLOCK FALSE
