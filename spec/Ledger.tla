------------------------------- MODULE Ledger -------------------------------
(***************************************************************************)
(* C12 / C13 - the ledger store (core/store/ledgerstore/ledger_store.go).  *)
(*                                                                         *)
(* Durable state : the version flag, the block store (sequence of blocks), *)
(*   the event store (heights with event records) and the state store      *)
(*   [cur, log, tree]: state height, the sequence of block executions that *)
(*   were committed to it (contract state = fold of log; the n-th leaf of  *)
(*   the state-root tree is log[n]) and the persisted block accumulator.   *)
(* Volatile state: current height, in-memory accumulator (appended when a  *)
(*   block is staged, i.e. before any commit), header cache, header height.*)
(*                                                                         *)
(* One action per critical section of the code: Open (NewLedgerStore),     *)
(* InitStep (InitLedgerStoreWithGenesisBlock: wipe + genesis, or start of  *)
(* recoverStore), Offer (AddBlock / ExecuteBlock+SubmitBlock: the checks), *)
(* CommitBlock / CommitEvent / CommitState / Publish (the three CommitTo   *)
(* calls of submitBlock and setCurrentBlock), RecIter / RecState / RecNext *)
(* / RecDone (one loop iteration of recoverStore per RecIter..RecNext),    *)
(* Crash (SIGKILL: every volatile variable is lost, completed store writes *)
(* survive), AddHeader.                                                    *)
(*                                                                         *)
(* Named deviations of the code from the intended design (constants):      *)
(*   RecoverAsCoded : recoverStore loops `for i := stateHeight; i <        *)
(*                    blockHeight` (intended: stateHeight+1 .. blockHeight)*)
(*   KeepTreeOnWipe : when the version flag is missing the stores are      *)
(*                    cleared but the accumulator loaded by NewStateStore  *)
(*                    stays in memory (intended: cleared with the store)   *)
(*   ParentByLookup : the parent of an offered block is looked up by hash  *)
(*                    among all known headers incl. the header cache and   *)
(*                    never compared with the current tip (intended: the   *)
(*                    previous-block hash must be the current tip)         *)
(* With all three FALSE PropC12 and PropC13 hold; each one set TRUE gives a*)
(* counterexample at the design level.                                     *)
(*                                                                         *)
(* Hashes are free terms: a block id is <<height, variant>>, an accumulator*)
(* root is the sequence of its leaves.                                     *)
(***************************************************************************)
EXTENDS Integers, Sequences, FiniteSets, TLC, Json

CONSTANTS MaxH,            \* heights 1..MaxH can be committed
          MaxCrash,        \* bound on Crash actions
          MaxMut,          \* bound on non-successor offers and header operations in one behaviour
          MaxLen,          \* Mode "offers": length of the emitted histories
          Kinds,           \* offered mutants (subset of AllKinds)
          HdrOps,          \* header operations (subset of {"hdr_next", "hdr_fork"})
          Paths,           \* subset of {"submit", "add"}
          MixPaths,        \* TRUE: every offer picks its path; FALSE: one path per behaviour
          RecoverAsCoded, KeepTreeOnWipe, ParentByLookup,
          Mode             \* "mc" (no emission) | "crash" (C12 behaviours) | "offers" (C13 behaviours)

VARIABLES inited, blocks, events, sdb,       \* durable
          memCur, memTree, hcache, hdrH,     \* volatile
          pc, staged, skind, spath, ri, it,  \* control (volatile)
          bpath, crashes, muts, hist         \* bookkeeping (hist is hidden by VIEW in mode "mc")

durable  == <<inited, blocks, events, sdb>>
volatile == <<memCur, memTree, hcache, hdrH>>
ctl      == <<staged, skind, spath>>
vars     == <<inited, blocks, events, sdb, memCur, memTree, hcache, hdrH, pc, staged, skind, spath, ri, it, bpath, crashes, muts, hist>>

AllKinds == {"h_same", "reoffer", "reoffer_old", "h_plus2", "prev_unknown", "prev_old", "ts_eq", "ts_less",
             "root_bad", "root_stale", "sr_bad", "child_of_fork"}

(* ------------------------------------------------------------------ blocks *)
Z          == <<-1, 0>>                                   \* previous-block hash of the genesis block
Id(b)      == <<b.h, b.v>>
Leaves(h)  == [j \in 1..(h + 1) |-> <<j - 2, 0>>]         \* prev-hashes of the good blocks 0..h
Good(h)    == [h |-> h, v |-> 0, prev |-> <<h - 1, 0>>, ts |-> 10 * h, root |-> Leaves(h)]
Fork(h)    == [Good(h) EXCEPT !.v = 10, !.ts = @ + 1]     \* a second well-formed header at height h
NoBlock    == [h |-> -9, v |-> -9, prev |-> Z, ts |-> 0, root |-> <<>>]
EmptySDB   == [cur |-> 0, log |-> <<>>, tree |-> <<>>]

BlockCur   == Len(blocks) - 1
Tip        == blocks[Len(blocks)]
Range(s)   == {s[i] : i \in 1..Len(s)}
Count(s, x) == Cardinality({i \in 1..Len(s) : s[i] = x})
Max(a, b)  == IF a > b THEN a ELSE b

\* the offered block of each kind, relative to the current height c
Blk(kind, c) ==
    LET n == c + 1 IN
    CASE kind = "good"          -> Good(n)
      [] kind = "h_same"        -> [Good(c) EXCEPT !.v = 1, !.ts = @ + 1]       \* another block at the committed height
      [] kind = "reoffer"       -> Good(c)
      [] kind = "reoffer_old"   -> Good(c - 1)
      [] kind = "h_plus2"       -> [Good(n) EXCEPT !.h = c + 2, !.v = 2]
      [] kind = "prev_unknown"  -> [Good(n) EXCEPT !.prev = <<c, 9>>, !.v = 3]
      [] kind = "prev_old"      -> [Good(n) EXCEPT !.prev = <<c - 1, 0>>, !.v = 4]
      [] kind = "ts_eq"         -> [Good(n) EXCEPT !.ts = 10 * c, !.v = 5]
      [] kind = "ts_less"       -> [Good(n) EXCEPT !.ts = 10 * c - 1, !.v = 6]
      [] kind = "root_bad"      -> [Good(n) EXCEPT !.root = <<<<-9, -9>>>>, !.v = 7]
      [] kind = "root_stale"    -> [Good(n) EXCEPT !.root = Leaves(c), !.v = 8]
      [] kind = "sr_bad"        -> Good(n)                                        \* good block, wrong state root argument
      [] kind = "child_of_fork" -> [Good(n) EXCEPT !.prev = <<c, 10>>, !.v = 11,
                                                   !.root = [Leaves(n) EXCEPT ![n + 1] = <<c, 10>>]]

KindEnabled(kind, c) ==
    CASE kind \in {"h_same", "reoffer", "prev_old"} -> c >= 1
      [] kind = "reoffer_old"   -> c >= 2
      [] kind = "child_of_fork" -> \E hd \in hcache : Id(hd) = <<c, 10>>
      [] kind = "good"          -> c < MaxH
      [] OTHER                  -> TRUE

(* --------------------------------------------------- the checks, as coded *)
Known == Range(blocks) \cup hcache
ByHash(id) == IF \E b \in Known : Id(b) = id THEN CHOOSE b \in Known : Id(b) = id ELSE NoBlock

HeaderOK(b) ==                             \* verifyHeader without the signature part (C14)
    LET par == ByHash(b.prev) IN
    /\ par # NoBlock
    /\ par.h + 1 = b.h
    /\ par.ts < b.ts

Verdict(b, p, srOK) ==
    IF b.h <= memCur THEN "noop"
    ELSE IF b.h # memCur + 1 THEN "reject"
    ELSE IF ~HeaderOK(b) THEN "reject"
    ELSE IF ~ParentByLookup /\ b.prev # Id(Tip) THEN "reject"
    ELSE IF p = "add" /\ ~srOK THEN "reject"
    ELSE IF b.root # Append(memTree, b.prev) THEN "reject"
    ELSE "commit"

(* ------------------------------------------------------------ observations *)
Applied(log) == [i \in 1..(MaxH + 1) |-> Count(log, i - 1)]          \* executions of block i-1 in the state store
HasEvents(ev) == [i \in 1..(MaxH + 1) |-> (i - 1) \in ev]
Chain(bs) == [i \in 1..Len(bs) |-> Id(bs[i])]
ObsNow(cur) == [block |-> cur, state |-> sdb.cur, tree |-> Len(memTree), applied |-> Applied(sdb.log),
                events |-> HasEvents(events), chain |-> Chain(blocks), hdr |-> hdrH]

(* ------------------------------------------------------------------- init *)
Init == /\ inited = FALSE /\ blocks = <<>> /\ events = {} /\ sdb = EmptySDB
        /\ memCur = -1 /\ memTree = <<>> /\ hcache = {} /\ hdrH = -1
        /\ pc = "down" /\ staged = NoBlock /\ skind = "good" /\ spath = "submit" /\ ri = 0 /\ it = 0
        /\ bpath \in Paths /\ crashes = 0 /\ muts = 0 /\ hist = <<>>

(* ------------------------------------------------------------ open / init *)
\* NewLedgerStore -> NewStateStore.init: load the accumulator, refuse a size that does not fit the state height
Open ==
    /\ pc = "down"
    /\ IF sdb.tree # <<>> /\ Len(sdb.tree) # sdb.cur + 1
       THEN /\ pc' = "bricked"
            /\ hist' = Append(hist, [e |-> "open", ok |-> FALSE, obs |-> ObsNow(BlockCur)])
            /\ UNCHANGED <<memTree>>
       ELSE /\ pc' = "opened" /\ memTree' = sdb.tree /\ UNCHANGED hist
    /\ UNCHANGED <<durable, memCur, hcache, hdrH, ctl, ri, it, crashes, muts>>

\* InitLedgerStoreWithGenesisBlock
InitStep ==
    /\ pc = "opened"
    /\ IF ~inited
       THEN \* ClearAll of the three stores, then the genesis block runs through the submit pipeline
            /\ blocks' = <<>> /\ events' = {} /\ sdb' = EmptySDB
            /\ memTree' = Append(IF KeepTreeOnWipe THEN memTree ELSE <<>>, Z)
            /\ staged' = Good(0) /\ skind' = "good" /\ pc' = "staged" /\ memCur' = -1 /\ hdrH' = 0
            /\ UNCHANGED <<inited, ri, it>>
       ELSE \* init(): loadCurrentBlock, loadHeaderIndexList, recoverStore
            /\ memCur' = BlockCur /\ hdrH' = BlockCur
            /\ ri' = (IF RecoverAsCoded THEN sdb.cur ELSE sdb.cur + 1) /\ it' = 0
            /\ pc' = "rec"
            /\ UNCHANGED <<durable, memTree, staged, skind>>
    /\ UNCHANGED <<hcache, spath, crashes, muts, hist>>

RecMore == IF RecoverAsCoded THEN ri < BlockCur ELSE ri <= BlockCur

\* executeBlock(block ri) + saveBlockToStateStore (appends to the in-memory accumulator) + eventStore.CommitTo
RecIter ==
    /\ pc = "rec" /\ RecMore
    /\ memTree' = Append(memTree, blocks[ri + 1].prev)
    /\ events' = events \cup {ri}
    /\ it' = it + 1 /\ pc' = "recE"
    /\ UNCHANGED <<inited, blocks, sdb, memCur, hcache, hdrH, ctl, ri, crashes, muts, hist>>

\* stateStore.CommitTo
RecState ==
    /\ pc = "recE"
    /\ sdb' = [cur |-> ri, log |-> Append(sdb.log, ri), tree |-> memTree]
    /\ pc' = "recS"
    /\ UNCHANGED <<inited, blocks, events, volatile, ctl, ri, it, crashes, muts, hist>>

RecNext ==
    /\ pc = "recS" /\ ri' = ri + 1 /\ pc' = "rec"
    /\ UNCHANGED <<durable, volatile, ctl, it, crashes, muts, hist>>

RecDone ==
    /\ pc = "rec" /\ ~RecMore
    /\ pc' = "idle"
    /\ hist' = Append(hist, [e |-> "open", ok |-> TRUE, obs |-> ObsNow(memCur)])
    /\ UNCHANGED <<durable, volatile, ctl, ri, it, crashes, muts>>

(* ------------------------------------------------------------ offers *)
OfferRec(kind, p, b, v, c) == [e |-> "offer", kind |-> kind, path |-> p, cur |-> c,
                            b |-> [h |-> b.h, v |-> b.v, prev |-> b.prev, ts |-> b.ts, root |-> b.root], verdict |-> v]

Offer(kind, p) ==
    /\ pc = "idle" /\ KindEnabled(kind, memCur)
    /\ kind # "good" => muts < MaxMut
    /\ kind = "sr_bad" => p = "add"
    /\ MixPaths \/ p = bpath
    /\ Mode = "offers" => Len(hist) < MaxLen + 1           \* +1: the "open" record of the first start
    /\ LET b == Blk(kind, memCur)
           v == Verdict(b, p, kind # "sr_bad")
       IN IF v = "commit"
          THEN \* saveBlockTo{Block,State,Event}Store: batches staged, in-memory accumulator and header index updated
               /\ staged' = b /\ skind' = kind /\ spath' = p /\ pc' = "staged"
               /\ memTree' = Append(memTree, b.prev)
               /\ hdrH' = Max(hdrH, b.h)
               /\ UNCHANGED <<durable, memCur, hcache, hist>>
          ELSE /\ hist' = Append(hist, OfferRec(kind, p, b, v, memCur) @@ [obs |-> ObsNow(memCur)])
               /\ pc' = (IF kind = "good" THEN "stuck" ELSE "idle")   \* a refused successor ends the run
               /\ UNCHANGED <<durable, volatile, ctl>>
    /\ muts' = (IF kind = "good" THEN muts ELSE muts + 1)
    /\ UNCHANGED <<ri, it, crashes>>

CommitBlock ==
    /\ pc = "staged" /\ blocks' = Append(blocks, staged) /\ pc' = "blk"
    /\ UNCHANGED <<inited, events, sdb, volatile, ctl, ri, it, crashes, muts, hist>>
CommitEvent ==
    /\ pc = "blk" /\ events' = events \cup {staged.h} /\ pc' = "evt"
    /\ UNCHANGED <<inited, blocks, sdb, volatile, ctl, ri, it, crashes, muts, hist>>
CommitState ==
    /\ pc = "evt" /\ sdb' = [cur |-> staged.h, log |-> Append(sdb.log, staged.h), tree |-> memTree] /\ pc' = "st"
    /\ UNCHANGED <<inited, blocks, events, volatile, ctl, ri, it, crashes, muts, hist>>
\* setCurrentBlock, delHeaderCache; for the genesis block also SaveVersion
Publish ==
    /\ pc = "st" /\ memCur' = staged.h /\ pc' = "idle"
    /\ hcache' = {hd \in hcache : Id(hd) # Id(staged)}
    /\ inited' = TRUE
    /\ hist' = Append(hist, IF staged.h = 0
                            THEN [e |-> "open", ok |-> TRUE, obs |-> [ObsNow(0) EXCEPT !.block = 0]]
                            ELSE OfferRec(skind, spath, staged, "commit", memCur) @@ [obs |-> ObsNow(staged.h)])
    /\ UNCHANGED <<blocks, events, sdb, memTree, hdrH, ctl, ri, it, crashes, muts>>

(* ------------------------------------------------------------ headers *)
AddHeader(op) ==
    /\ pc = "idle" /\ muts < MaxMut
    /\ Mode = "offers" => Len(hist) < MaxLen + 1
    /\ op = "hdr_fork" => hdrH = memCur
    /\ hdrH < MaxH
    /\ LET hd == IF op = "hdr_fork" THEN Fork(hdrH + 1) ELSE Good(hdrH + 1)
           ok == HeaderOK(hd)                       \* height = header height + 1 holds by construction
       IN /\ hcache' = (IF ok THEN hcache \cup {hd} ELSE hcache)
          /\ hdrH' = (IF ok THEN hd.h ELSE hdrH)
          /\ hist' = Append(hist, [e |-> "header", kind |-> op, cur |-> memCur,
                                   b |-> [h |-> hd.h, v |-> hd.v, prev |-> hd.prev, ts |-> hd.ts, root |-> hd.root],
                                   verdict |-> (IF ok THEN "accept" ELSE "reject"),
                                   obs |-> [ObsNow(memCur) EXCEPT !.hdr = (IF ok THEN hd.h ELSE hdrH)]])
    /\ muts' = muts + 1
    /\ UNCHANGED <<durable, memCur, memTree, pc, ctl, ri, it, crashes>>

(* ------------------------------------------------------------ crash *)
InFlight == IF pc \in {"staged", "blk", "evt", "st"} THEN staged.h ELSE Max(BlockCur, 0)
CrashPoint == CASE pc = "opened" -> "open:before-init"
                [] pc = "staged" -> "submit:before-block-commit"
                [] pc = "blk"    -> "submit:after-block-commit"
                [] pc = "evt"    -> "submit:after-event-commit"
                [] pc = "st"     -> "submit:after-state-commit"
                [] pc = "recE"   -> "recover:after-event-commit"
                [] pc = "recS"   -> "recover:after-state-commit"
                [] pc = "idle"   -> "idle"
Crash ==
    /\ pc \in {"opened", "staged", "blk", "evt", "st", "recE", "recS", "idle"}
    /\ crashes < MaxCrash
    /\ InFlight < MaxH                 \* the last block is always persisted undisturbed ("accepts the next block")
    /\ pc = "opened" => crashes > 0    \* killing the very first start before anything happened is a no-op
    /\ crashes' = crashes + 1
    /\ hist' = Append(hist, [e |-> "crash", point |-> CrashPoint, h |-> InFlight, it |-> it, cur |-> memCur])
    /\ pc' = "down" /\ memCur' = -1 /\ memTree' = <<>> /\ hcache' = {} /\ hdrH' = -1
    /\ staged' = NoBlock /\ ri' = 0 /\ it' = 0
    /\ UNCHANGED <<durable, skind, spath, muts>>

(* ------------------------------------------------------------ end of a run: clean close and reopen *)
Terminal == \/ pc = "stuck"
            \/ pc = "idle" /\ memCur = MaxH
ReopenOK == sdb.tree = <<>> \/ Len(sdb.tree) = sdb.cur + 1
Reopen ==
    /\ Mode = "crash" /\ Terminal
    /\ pc' = "final"
    /\ hist' = Append(hist, [e |-> "reopen", ok |-> ReopenOK, obs |-> [ObsNow(BlockCur) EXCEPT !.tree = Len(sdb.tree)]])
    /\ UNCHANGED <<durable, volatile, ctl, ri, it, crashes, muts>>

Next == \/ Open \/ InitStep \/ RecIter \/ RecState \/ RecNext \/ RecDone
        \/ \E kind \in {"good"} \cup Kinds, p \in Paths : Offer(kind, p)
        \/ CommitBlock \/ CommitEvent \/ CommitState \/ Publish
        \/ \E op \in HdrOps : AddHeader(op)
        \/ Crash \/ Reopen

Spec == Init /\ [][Next /\ UNCHANGED bpath]_vars
View == <<inited, blocks, events, sdb, memCur, memTree, hcache, hdrH, pc, staged, skind, spath, ri, it, bpath, crashes, muts>>

(* ------------------------------------------------------------ emission (P-REPLAY) *)
Emit == IF \/ Mode = "crash" /\ pc \in {"final", "bricked"}
           \/ Mode = "offers" /\ pc = "idle" /\ Len(hist) = MaxLen + 1
        THEN PrintT(<<"TRACE", ToJson(hist)>>) /\ FALSE
        ELSE TRUE

(* ------------------------------------------------------------ the monitors *)
ProperTree(h) == Leaves(h)
ProperLog(h)  == [i \in 1..(h + 1) |-> i - 1]

\* C12: whenever the node is up and idle (in particular after every restart) blocks and state stand at the same height,
\* every block was applied exactly once and in order, the accumulators (persisted and in memory) are those of a run
\* without a crash, every block has its event records, the next block is accepted and the ledger can be reopened.
PropC12 ==
    /\ pc # "bricked"
    /\ pc # "stuck"
    /\ pc \in {"idle", "final"} =>
         /\ memCur = BlockCur
         /\ sdb.cur = BlockCur
         /\ sdb.log = ProperLog(BlockCur)
         /\ sdb.tree = ProperTree(BlockCur)
         /\ memTree = ProperTree(BlockCur)
         /\ events = 0..BlockCur
         /\ (BlockCur < MaxH => Verdict(Good(BlockCur + 1), "submit", TRUE) = "commit")
         /\ ReopenOK

\* C13: the committed chain is gap-free, parent-linked, strictly time-ordered and every block root is the accumulator
\* root over all earlier block hashes.
ChainOK(bs) ==
    \A i \in 1..Len(bs) :
        /\ bs[i].h = i - 1
        /\ bs[i].prev = (IF i = 1 THEN Z ELSE Id(bs[i - 1]))
        /\ i > 1 => bs[i].ts > bs[i - 1].ts
        /\ i > 1 => bs[i].root = [j \in 1..i |-> IF j = 1 THEN Z ELSE Id(bs[j - 1])]
PropC13 == ChainOK(blocks)
\* ... and an offer that is not committed changes nothing, a committed one appends exactly the offered block
GrowsByOne ==
    /\ Len(blocks') >= Len(blocks)
    /\ \A i \in 1..Len(blocks) : blocks'[i] = blocks[i]
    /\ Len(blocks') <= Len(blocks) + 1
    /\ Len(blocks') = Len(blocks) + 1 => (pc = "staged" /\ blocks'[Len(blocks')] = staged)
PropC13Step == [][~inited \/ GrowsByOne]_<<blocks>>     \* (an uninitialised ledger is wiped on open)
=============================================================================
