----------------------------- MODULE TraceMemDB -----------------------------
(* P-VALIDATE for C09: a history recorded from the real MemDB (one event per call, logged at return with
   arguments and the returned observation) must be a behaviour of MemDB; PropC09 is evaluated in every state. *)
EXTENDS MemDB, TLCExt
VARIABLE l
TraceLog == ndJsonDeserialize("trace.ndjson")
tvars == <<m, cur, hist, l>>
Ev == TraceLog[l]
IsEvent(e) == l <= Len(TraceLog) /\ Ev.op = e /\ l' = l + 1
TPut   == IsEvent("put")   /\ Put(Ev.a[1], Ev.v) /\ Ev.obs = ObsPut(Ev.a[1], Ev.v)
TGet   == IsEvent("get")   /\ Get(Ev.a[1])  /\ Ev.obs = ObsGet(Ev.a[1])
TFind  == IsEvent("find")  /\ Find(Ev.a[1]) /\ Ev.obs = ObsFind(Ev.a[1])
TReset == IsEvent("reset") /\ Reset /\ Ev.obs.len = 0
\* whole scans are judged against the reference semantics directly (the monitor), not against the cursor-machine model
TFwd   == IsEvent("fwd")   /\ Fwd(Ev.a[1], Ev.a[2]) /\ Ev.obs = Scan(m, Ev.a[1], Ev.a[2])
TBwd   == IsEvent("bwd")   /\ Bwd(Ev.a[1], Ev.a[2]) /\ Ev.obs = Rev(Scan(m, Ev.a[1], Ev.a[2]))
TSeekW == IsEvent("seekwalk") /\ SeekWalk(Ev.a[1], Ev.a[2], Ev.a[3])
          /\ Ev.obs = Scan(m, IF Ev.a[3] > Ev.a[1] THEN Ev.a[3] ELSE Ev.a[1], Ev.a[2])
TIter  == IsEvent("iter")  /\ NewIter(Ev.a[1], Ev.a[2])
TMove(op, c2) == IsEvent(op) /\ Move(op, Ev.a, c2) /\ Ev.obs = CurObs(m, c2)
TraceInit == TLCSet(1, 1) /\ Init /\ l = 1
TraceNext == \/ TPut \/ TGet \/ TFind \/ TReset \/ TFwd \/ TBwd \/ TSeekW \/ TIter
             \/ TMove("first", FirstOp(m, cur)) \/ TMove("last", LastOp(m, cur))
             \/ TMove("next", NextOp(m, cur)) \/ TMove("prev", PrevOp(m, cur))
             \/ (l <= Len(TraceLog) /\ Ev.op = "seek" /\ TMove("seek", SeekOp(m, cur, Ev.a[1])))
TraceSpec == TraceInit /\ [][TraceNext]_tvars
HighWater == TLCSet(1, IF TLCGet(1) < l THEN l ELSE TLCGet(1))
\* per-state monitor for recorded runs (WalksAreScans is established exhaustively by the MC configs; here every logged
\* scan is compared with the reference Scan above, and single cursor steps with the neighbour rule)
PropC09Trace == TypeOK /\ CursorInRange /\ StepIsNeighbour
Accepted == PrintT(<<"HIGHWATER", TLCGet(1)>>) /\ TLCGet(1) = Len(TraceLog) + 1
=============================================================================
