SPECIFICATION Spec
CONSTANTS NTx = 2
          L1 = 3
          L2 = 1
          L3 = 0
          TopKeys = {"a"}
          SubKeys = {"a"}
          PriorKeys = {"a"}
          TopOps = {"put", "get", "rec", "notify"}
          SubOps = {"put", "get", "rec", "notify"}
          MinCalls = 1
          MaxCalls = 2
          CallTxs = 1
          SubMax = 1
          Depth = 1
          AllowCatch = TRUE
          RestoreOnError = TRUE
          Runs = 1
          Clock = {0}
          EmitOn = TRUE
INVARIANT PropC15
INVARIANT OverlayClean
INVARIANT PropC16
CHECK_DEADLOCK FALSE
