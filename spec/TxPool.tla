-------------------------------- MODULE TxPool --------------------------------
(***************************************************************************)
(* C37 (and the admission step used by C36) - the transaction pool server  *)
(* txnpool/proc: TxActor admission -> pending list -> worker -> validator  *)
(* responses -> pool; consensus requests (get pool, verify block); block   *)
(* saved (clean).  The pool itself is TxPoolOps.                           *)
(*                                                                         *)
(* State st (one record, so that the code's helper functions compose):     *)
(*   pool    hash -> stateful height            (TXPool.txList)            *)
(*   pend    hash -> [mode, st, sl, sf, sfh, src]                          *)
(*           server.allPendingTxs + the worker's pendingTxList entry:      *)
(*           mode "rcv" (full verification) / "stf" (stateful only),       *)
(*           st "q" (in a worker channel) / "v" (requests sent),           *)
(*           sl / sf: stateless / stateful answer recorded, sfh its height *)
(*           src: submitter "http" | "net" | "nil"                         *)
(*   slots   free admission slots (channel of capacity LIMIT)              *)
(*   height  the height the server verifies against                        *)
(*   blk     the block being verified for consensus [h, proc, unproc]      *)
(*   out     messages sent by the last step (replies to the submitter,     *)
(*           requests to validators, answers to consensus)                 *)
(*                                                                         *)
(* One action per message handled by an actor / worker:                    *)
(*   Admit        TxActor.handleTransaction after the sender test          *)
(*   Recv         worker.verifyTx / verifyStateful (Eager: fused with the  *)
(*                step that queued the transaction - what a driver that    *)
(*                waits for quiescence observes)                           *)
(*   Rsp          worker.handleRsp (validator response), incl. putTxPool   *)
(*   GetPool      TXPoolServer.getTxPool                                   *)
(*   VerifyBlock  TXPoolServer.verifyBlock                                 *)
(*   BlockSaved   TXPoolServer.cleanTransactionList                        *)
(* Named deviations of the code from the ideal that the model keeps:       *)
(*   - capacity is tested at admission only (CapAtAdmission), so the pool  *)
(*     can exceed CAP by transactions in flight (PropCap fails, F8);       *)
(*   - a duplicate of a pending transaction consumes a slot for good;      *)
(*   - with PreExec the whole pool is drained for re-verification at every *)
(*     saved block.                                                        *)
(* Not modelled: the 9 s verification timeout, statistics, net broadcast.  *)
(***************************************************************************)
EXTENDS TxPoolOps, Json

CONSTANTS CAP,      \* MAX_CAPACITY
          LIMIT,    \* MAX_LIMITATION
          PreExec,  \* ~disablePreExec
          Eager,    \* TRUE: a worker takes a queued transaction in the same step
          Acts,     \* subset of {"admit","rsp","getpool","verifyblock","blocksaved"} explored
          ListLen,  \* longest block
          Depth,    \* bound on the history (0 = none)
          EmitOn
VARIABLES st, hist
vars == <<st, hist>>

Put(f, k, v) == [x \in DOMAIN f \cup {k} |-> IF x = k THEN v ELSE f[x]]
Drop(f, S) == [x \in DOMAIN f \ S |-> f[x]]
NoFun == [x \in {} |-> 0]
RECURSIVE FoldSet(_, _, _)
FoldSet(F(_, _), S, acc) == IF S = {} THEN acc ELSE LET x == CHOOSE y \in S : TRUE IN FoldSet(F, S \ {x}, F(acc, x))
RECURSIVE FoldSeq(_, _, _)
FoldSeq(F(_, _), q, acc) == IF q = <<>> THEN acc ELSE FoldSeq(F, Tail(q), F(acc, Head(q)))

Msg(k, t, err, res) == [k |-> k, t |-> t, err |-> err, res |-> res]
Reply(t, err) == Msg("reply", t, err, {})        \* TxResult on the submitter's channel
Req(t, v) == Msg("req", t, v, {})                \* CheckTx to the stateless ("sl") / stateful ("sf") validator
Out(s, m) == [s EXCEPT !.out = @ \cup {m}]
Res(t, h, err) == [t |-> t, h |-> h, err |-> err]

NewPend(mode, src) == [mode |-> mode, st |-> "q", sl |-> FALSE, sf |-> FALSE, sfh |-> 0, src |-> src]
InitSt == [pool |-> EmptyPool, pend |-> NoFun, slots |-> LIMIT, height |-> 0,
           blk |-> [h |-> 0, proc |-> NoFun, unproc |-> {}], out |-> {}]

(* sendBlkResult2Consensus *)
SendBlk(s) == [Out(s, Msg("blk", "", "", {Res(x, s.blk.proc[x].h, s.blk.proc[x].err) : x \in DOMAIN s.blk.proc}))
                 EXCEPT !.blk.proc = NoFun]
(* checkPendingBlockOk *)
CheckBlockOk(s, t, err) ==
    IF t \notin s.blk.unproc THEN s
    ELSE LET s1 == [s EXCEPT !.blk.proc = Put(@, t, [h |-> s.blk.h, err |-> err]), !.blk.unproc = @ \ {t}]
         IN IF err # "ok" \/ s1.blk.unproc = {} THEN SendBlk(s1) ELSE s1
(* removePendingTx *)
RemovePending(s, t, err) ==
    IF t \notin DOMAIN s.pend THEN s
    ELSE LET s1 == IF s.pend[t].src = "http" THEN Out(s, Reply(t, err)) ELSE s
             p2 == Drop(s.pend, {t})
             s2 == [s1 EXCEPT !.pend = p2,
                              !.slots = IF Cardinality(DOMAIN p2) < LIMIT /\ @ < LIMIT THEN @ + 1 ELSE @]
         IN CheckBlockOk(s2, t, err)
(* worker.verifyTx / verifyStateful *)
RecvF(s, t) ==
    IF s.pend[t].mode = "rcv"
    THEN IF t \in DOMAIN s.pool THEN RemovePending(s, t, "dup")
         ELSE Out(Out([s EXCEPT !.pend[t].st = "v"], Req(t, "sl")), Req(t, "sf"))
    ELSE Out([s EXCEPT !.pend[t].st = "v", !.pend[t].sl = TRUE], Req(t, "sf"))
Enq(s, t) == IF Eager THEN RecvF(s, t) ELSE s
(* assignTxToWorker (setPendingTx + queue) *)
Assign(s, t, src) ==
    IF t \in DOMAIN s.pend THEN (IF src = "http" THEN Out(s, Reply(t, "dup")) ELSE s)
    ELSE Enq([s EXCEPT !.pend = Put(@, t, NewPend("rcv", src))], t)
(* reVerifyStateful *)
Reverify(s, t) ==
    IF t \in DOMAIN s.pend THEN s ELSE Enq([s EXCEPT !.pend = Put(@, t, NewPend("stf", "nil"))], t)

(* TxActor.handleTransaction after the sender test: duplicate test and capacity test on the pool, then a slot *)
CapAtAdmission(s) == Size(s.pool) >= CAP
NeedsSlot(s, t) == t \notin DOMAIN s.pool /\ ~CapAtAdmission(s)
AdmitF(s0, t, src) ==
    LET s == [s0 EXCEPT !.out = {}] IN
    IF t \in DOMAIN s.pool THEN (IF src = "http" THEN Out(s, Reply(t, "dup")) ELSE s)
    ELSE IF CapAtAdmission(s) THEN (IF src = "http" THEN Out(s, Reply(t, "full")) ELSE s)
    ELSE Assign([s EXCEPT !.slots = @ - 1], t, src)

(* worker.handleRsp *)
RspF(s0, t, typ, h, err) ==
    LET s == [s0 EXCEPT !.out = {}]  pt == s.pend[t] IN
    IF err # "ok" THEN RemovePending(s, t, err)
    ELSE IF typ = "sf" /\ h < s.height THEN Out(s, Req(t, "sf"))        \* verified too early: ask again
    ELSE LET p1 == IF typ = "sl" THEN [pt EXCEPT !.sl = TRUE]
                   ELSE IF ~pt.sf THEN [pt EXCEPT !.sf = TRUE, !.sfh = h] ELSE pt
         IN IF p1.sl /\ p1.sf
            THEN RemovePending([s EXCEPT !.pool = PAdd(@, t, p1.sfh), !.pend[t] = p1], t, "ok")   \* putTxPool
            ELSE [s EXCEPT !.pend[t] = p1]

(* getTxPool: answer (txs, old) of the pool, every old one is deleted and re-verified statefully *)
GetPoolF(s0, by, h, txs, old) ==
    LET s == [s0 EXCEPT !.out = {}, !.height = h]
        ReOne(a, o) == Reverify([a EXCEPT !.pool = PRemove(@, {o})], o)
    IN Out(FoldSet(ReOne, old, s), Msg("pool", "", "", {Res(x, s.pool[x], "") : x \in txs}))

(* cleanTransactionList *)
BlockSavedF(s0, S) ==
    LET s == [s0 EXCEPT !.out = {}, !.pool = PRemove(@, S)] IN
    IF PreExec THEN FoldSet(Reverify, DOMAIN s.pool, [s EXCEPT !.pool = EmptyPool]) ELSE s

(* verifyBlock *)
FirstRepeat(q) == LET i == CHOOSE k \in 1..Len(q) : (\E j \in 1..(k - 1) : q[j] = q[k]) /\
                                                    (\A m \in 1..(k - 1) : \A j \in 1..(m - 1) : q[j] # q[m])
                  IN q[i]
VerifyBlockF(s0, q, h) ==
    LET s == [s0 EXCEPT !.out = {}] IN
    IF q = <<>> THEN s
    ELSE LET s1 == [s EXCEPT !.height = h, !.blk = [h |-> h, proc |-> NoFun, unproc |-> {}]] IN
         IF ~NoRepeat(q)
         THEN SendBlk([s1 EXCEPT !.blk.proc = Put(NoFun, FirstRepeat(q), [h |-> h, err |-> "dspend"])])
         ELSE LET r == PUnv(s1.pool, q, h)
                  s2 == [s1 EXCEPT !.pool = r.pool]
                  AsOne(a, t) == [Assign(a, t, "nil") EXCEPT !.blk.unproc = @ \cup {t}]
                  ReOne(a, t) == [Reverify(a, t) EXCEPT !.blk.unproc = @ \cup {t}]
                  s3 == FoldSeq(ReOne, r.old, FoldSeq(AsOne, r.unv, s2))
                  s4 == [s3 EXCEPT !.blk.proc = [x \in {v.t : v \in Range(r.ver)} |-> [h |-> s2.pool[x], err |-> "ok"]]]
              IN IF s4.blk.unproc = {} THEN SendBlk(s4) ELSE s4

(* actions ******************************************************************)
Ev(op, t, src, typ, h, err, by, ts) == [op |-> op, t |-> t, src |-> src, typ |-> typ, h |-> h, err |-> err, by |-> by, ts |-> ts]
Emit(e, s2) == ~EmitOn \/ PrintT(<<"EDGE", ToJson([steps |-> Append(hist, e), over |-> Size(s2.pool) > CAP])>>)
Do(e, s2) == st' = s2 /\ hist' = Append(hist, e) /\ Emit(e, s2)

Admit(t, src) == /\ "admit" \in Acts
                 /\ NeedsSlot(st, t) => st.slots > 0          \* otherwise the actor blocks on the slot channel
                 /\ Do(Ev("admit", t, src, "", 0, "", FALSE, <<>>), AdmitF(st, t, src))
Recv(t) == /\ ~Eager /\ t \in DOMAIN st.pend /\ st.pend[t].st = "q"
           /\ Do(Ev("recv", t, "", "", 0, "", FALSE, <<>>), RecvF([st EXCEPT !.out = {}], t))
Rsp(t, typ, h, err) == /\ "rsp" \in Acts
                       /\ t \in DOMAIN st.pend /\ st.pend[t].st = "v"
                       /\ Do(Ev("rsp", t, "", typ, h, err, FALSE, <<>>), RspF(st, t, typ, h, err))
GetPool(by, h) == /\ "getpool" \in Acts
                  /\ \E txs \in SUBSET Fresh(st.pool, h), old \in SUBSET Stale(st.pool, h) :
                        /\ GetImpl(st.pool, by, h, txs, old)
                        /\ Do(Ev("getpool", "", "", "", h, "", by, <<>>), GetPoolF(st, by, h, txs, old))
VerifyBlock(q, h) == /\ "verifyblock" \in Acts
                     /\ Do(Ev("verifyblock", "", "", "", h, "", FALSE, q), VerifyBlockF(st, q, h))
BlockSaved(q) == /\ "blocksaved" \in Acts
                 /\ Do(Ev("blocksaved", "", "", "", 0, "", FALSE, q), BlockSavedF(st, Range(q)))

Init == st = InitSt /\ hist = <<>>
Next == \/ \E t \in Tx : Admit(t, "http") \/ Recv(t)
        \/ \E t \in Tx, typ \in {"sl", "sf"}, h \in Heights : Rsp(t, typ, h, "ok")
        \/ \E t \in Tx, typ \in {"sl", "sf"} : Rsp(t, typ, 0, "bad")
        \/ \E by \in BOOLEAN, h \in Heights : GetPool(by, h)
        \/ \E q \in SeqsUpTo(ListLen) \ {<<>>}, h \in Heights : VerifyBlock(q, h)
        \/ \E q \in SeqsUpTo(ListLen) \ {<<>>} : BlockSaved(q)
Spec == Init /\ [][Next]_vars
View == [st EXCEPT !.out = {}]
Bound == Depth = 0 \/ Len(hist) <= Depth
(* simulation runs: print a random walk when it reaches Depth steps, then stop it *)
WalkEmit == IF Len(hist) >= Depth THEN PrintT(<<"WALK", ToJson([steps |-> hist])>>) /\ FALSE ELSE TRUE

(* invariants ***************************************************************)
TypeOK == /\ DOMAIN st.pool \subseteq Tx /\ \A t \in DOMAIN st.pool : st.pool[t] \in Heights
          /\ DOMAIN st.pend \subseteq Tx
          /\ st.slots \in 0..LIMIT /\ st.height \in Heights
          /\ st.blk.unproc \subseteq Tx
(* the capacity clause of C37 as stated *)
PropCap == Size(st.pool) <= CAP
(* what the code does guarantee: admission stops at CAP, at most LIMIT admitted transactions are in flight, and  *)
(* re-verification only moves transactions that were in the pool                                                  *)
CapLoose == Size(st.pool) <= CAP + LIMIT - 1 + Cardinality({t \in DOMAIN st.pend : st.pend[t].mode = "stf"})
=============================================================================
