------------------------------- MODULE Wallet -------------------------------
(***************************************************************************)
(* C43 - wallet accounts round-trip and are password-protected             *)
(* (account/client.go ClientImpl, account/file_store.go WalletData).       *)
(*                                                                         *)
(* Implementation-shaped part.  A wallet is [accts, dflt, params]: the     *)
(* ordered account list of the wallet file, the default account and the    *)
(* scrypt parameter set written in the file header ("default" N=16384 or   *)
(* "low" N=4096, what WalletData.ToLowSecurity produces).  An account is   *)
(* [id, label, pw, enc]: id stands for the key pair *and* the address      *)
(* (fresh per creation), pw is the password its protected key is sealed    *)
(* with and enc the scrypt parameter set that was used when sealing.       *)
(* Decryption is the code's: the key is derived with the WALLET's          *)
(* parameters, so it opens iff try = pw /\ enc = params /\ try # "".       *)
(* Every mutating call of ClientImpl saves the file before it returns, so  *)
(* each action updates w and disk together; Reopen reads disk back.        *)
(* `loaded` only distinguishes a client that has just been read from the   *)
(* file from one that has been mutated in memory, so that edges are        *)
(* generated from both.                                                    *)
(*                                                                         *)
(* Named deviation: NewEnc = "wallet" is the design and the code since     *)
(* fix 7cb6838 (New seals with the wallet's parameters); NewEnc = "default"*)
(* is what client.go did before (keypair.EncryptPrivateKey = library       *)
(* default parameters) - finding F16; kept as the counterexample model.    *)
(*                                                                         *)
(* Fault action SaveFails: each saving call also occurs with the wallet     *)
(* file unwritable; the call fails and must leave client and file as they  *)
(* were (the rollback paths of client.go).                                 *)
(*                                                                         *)
(* Monitor part.  live[id] is the password the user was told protects      *)
(* account id ("-" = not in the wallet); it is maintained from the API     *)
(* contract only.  PropC43: in the open wallet and in the file, every live *)
(* account is present exactly once, opens with live[id] to its own key,    *)
(* and opens with no other password (incl. the empty one).                 *)
(*                                                                         *)
(* Binding: P-EDGE (hist hidden by VIEW, every action prints its edge);    *)
(* the real observations of every replay are judged by TLC against         *)
(* TraceWallet (monitor only), as are long random histories (P-VALIDATE).  *)
(***************************************************************************)
EXTENDS Integers, Sequences, FiniteSets, TLC, Json, WalletProp

CONSTANTS PWs,        \* usable passwords (strings "p1".."p3"; concretized by the driver)
          Labels,     \* non-empty labels
          MaxAcc,     \* accounts in the wallet at any time
          MaxId,      \* key pairs ever created
          InitParams, \* parameter sets a fresh wallet may carry
          ConvTo,     \* parameter sets the export/convert action may target
          NewEnc,     \* "wallet" (design, code since 7cb6838) | "default" (client.go before the fix: F16)
          MaxHist,    \* bound on the number of mutating calls of a history
          EmitOn
VARIABLES w, disk, loaded, nextId, live, hist

vars == <<w, disk, loaded, nextId, live, hist>>
Ids == 1..MaxId
Renamed(l) == l \o "_1"        \* ImportAccount renames on a label clash
Nx(p) == CHOOSE q \in PWs : q # p
Arg(id, l, p, q, ps) == [id |-> id, l |-> l, p |-> p, q |-> q, ps |-> ps]

(* implementation-shaped helpers *******************************************)
Pos(W, id) == LET S == {i \in 1..Len(W.accts) : W.accts[i].id = id} IN IF S = {} THEN 0 ELSE CHOOSE i \in S : TRUE
HasLabel(W, l) == \E i \in 1..Len(W.accts) : W.accts[i].label = l
Opens(a, try, params) == try # NoPw /\ try = a.pw /\ a.enc = params    \* getAccount: DecryptWithCustomScrypt(.., walletData.Scrypt)
RemoveAt(s, p) == [i \in 1..(Len(s) - 1) |-> IF i < p THEN s[i] ELSE s[i + 1]]
SealParams(W) == IF NewEnc = "wallet" THEN W.params ELSE "default"
IdsOf(W) == [i \in 1..Len(W.accts) |-> W.accts[i].id]
Targets == 0..(nextId - 1)      \* 0: an address that was never in the wallet; others: present or deleted

(* the model's answer to a decryption request (GetConforms of WalletProp judges it) *)
ModelGet(W, id, try) ==
    LET p == Pos(W, id) IN
    IF p = 0 THEN [res |-> "none", id |-> 0]
    ELSE IF Opens(W.accts[p], try, W.params) THEN [res |-> "ok", id |-> id] ELSE [res |-> "fail", id |-> 0]

(* emission ****************************************************************)
Emit(op, args, obs, w2, mut, f) ==
    ~EmitOn \/ PrintT(<<"EDGE", ToJson([h |-> hist, op |-> op, a |-> args, obs |-> obs, ld |-> loaded, mut |-> mut, f |-> f,
                                          params |-> w.params, ids2 |-> IdsOf(w2), params2 |-> w2.params])>>)

Step(op, args, obs, w2, ld2, nid2, live2) ==      \* a call that changes the wallet (saved before it returns)
    /\ Len(hist) <= MaxHist
    /\ w' = w2 /\ disk' = w2 /\ loaded' = ld2 /\ nextId' = nid2 /\ live' = live2
    /\ hist' = Append(hist, [op |-> op, a |-> args])
    /\ Emit(op, args, obs, w2, TRUE, FALSE)
Stay(op, args, obs) == UNCHANGED vars /\ Emit(op, args, obs, w, FALSE, FALSE)
\* Fault action: the same call while the wallet file cannot be written (WalletData.Save fails inside the call: temp file
\* blocked, read-only directory, disk full).  Every ClientImpl method rolls its in-memory change back and returns an
\* error, so nothing changes - neither in the client nor, after the next successful save, in the file.
SaveFails(op, args) == Len(hist) <= MaxHist /\ UNCHANGED vars /\ Emit(op, args, [res |-> "fail", id |-> 0], w, FALSE, TRUE)
StepF(op, args, obs, w2, ld2, nid2, live2) == Step(op, args, obs, w2, ld2, nid2, live2) \/ SaveFails(op, args)
Ok(id) == [res |-> "ok", id |-> id]
Fail == [res |-> "fail", id |-> 0]
None == [res |-> "none", id |-> 0]

Init == \E p \in InitParams :
          /\ w = [accts |-> <<>>, dflt |-> 0, params |-> p]
          /\ disk = w /\ loaded = FALSE /\ nextId = 1
          /\ live = [i \in Ids |-> Dead]
          /\ hist = <<[op |-> "open", a |-> Arg(0, p, "", "", <<>>)]>>

Add(op, label, pw, enc) ==
    LET a  == [id |-> nextId, label |-> label, pw |-> pw, enc |-> enc]
        w2 == [w EXCEPT !.accts = Append(@, a), !.dflt = IF Len(w.accts) = 0 THEN nextId ELSE @]
    IN StepF(op, Arg(nextId, label, pw, "", <<>>), Ok(nextId), w2, FALSE, nextId + 1, [live EXCEPT ![nextId] = pw])

\* ClientImpl.NewAccount: refuses the empty password and a label in use
New(label, pw) ==
    /\ Len(w.accts) < MaxAcc /\ nextId <= MaxId
    /\ IF pw # NoPw /\ (label = "" \/ ~HasLabel(w, label))
       THEN Add("new", label, pw, SealParams(w))
       ELSE Stay("new", Arg(0, label, pw, "", <<>>), Fail)

\* ClientImpl.ImportAccount of an account sealed elsewhere under the wallet's parameter set; a label in use is renamed once
Import(label, pw) ==
    /\ Len(w.accts) < MaxAcc /\ nextId <= MaxId
    /\ LET l2 == IF label # "" /\ HasLabel(w, label) THEN Renamed(label) ELSE label
       IN IF l2 = "" \/ ~HasLabel(w, l2)
          THEN Add("import", label, pw, w.params)
          ELSE Stay("import", Arg(0, label, pw, "", <<>>), Fail)

\* ClientImpl.DeleteAccount(address, passwd)
Delete(id, try) ==
    LET p == Pos(w, id) IN
    IF p = 0 THEN Stay("delete", Arg(id, "", try, "", <<>>), None)
    ELSE IF w.dflt = id \/ ~Opens(w.accts[p], try, w.params) THEN Stay("delete", Arg(id, "", try, "", <<>>), Fail)
    ELSE StepF("delete", Arg(id, "", try, "", <<>>), Ok(id), [w EXCEPT !.accts = RemoveAt(@, p)], FALSE, nextId,
              [live EXCEPT ![id] = Dead])

SetDefault(id) ==
    IF w.dflt = id /\ id # 0 THEN Stay("setdefault", Arg(id, "", "", "", <<>>), Ok(id))      \* already the default: returns without saving
    ELSE IF Pos(w, id) = 0 THEN Stay("setdefault", Arg(id, "", "", "", <<>>), Fail)
    ELSE StepF("setdefault", Arg(id, "", "", "", <<>>), Ok(id), [w EXCEPT !.dflt = id], FALSE, nextId, live)

\* ClientImpl.SetLabel: a label in use (also by the account itself) is refused
SetLabel(id, l) ==
    LET p == Pos(w, id) IN
    IF HasLabel(w, l) \/ p = 0 THEN Stay("setlabel", Arg(id, l, "", "", <<>>), Fail)
    ELSE StepF("setlabel", Arg(id, l, "", "", <<>>), Ok(id), [w EXCEPT !.accts[p].label = l], FALSE, nextId, live)

\* ClientImpl.ChangePassword: equal passwords succeed without any check; otherwise the old one must open the key,
\* which is then sealed with the new password under the wallet's parameters
ChPw(id, old, new) ==
    LET p == Pos(w, id) IN
    IF old = new THEN Stay("chpw", Arg(id, "", old, new, <<>>), Ok(id))
    ELSE IF p = 0 THEN Stay("chpw", Arg(id, "", old, new, <<>>), Fail)
    ELSE IF ~Opens(w.accts[p], old, w.params) THEN Stay("chpw", Arg(id, "", old, new, <<>>), Fail)
    ELSE StepF("chpw", Arg(id, "", old, new, <<>>), Ok(id),
              [w EXCEPT !.accts[p].pw = new, !.accts[p].enc = w.params], FALSE, nextId, [live EXCEPT ![id] = new])

\* close and open the wallet file again
Reopen == Step("reopen", Arg(0, "", "", "", <<>>), Ok(0), disk, TRUE, nextId, live)

\* `account export [--low-security]`: Clone, WalletData.ToLowSecurity / ToDefaultSecurity with one password per account,
\* Save to a new file, open that file.  All passwords must be right; a failure leaves the open wallet untouched.
Convert(to, mode) ==
    LET n    == Len(w.accts)
        pws  == [i \in 1..n |-> IF mode = "wrong" /\ i = n THEN Nx(live[w.accts[i].id]) ELSE live[w.accts[i].id]]
        good == /\ \A i \in 1..n : Opens(w.accts[i], pws[i], w.params)
                /\ (to = "low" \/ n = 0)     \* named deviation: ToDefaultSecurity hands a nil parameter set to the re-sealing
                                             \* and panics as soon as there is an account (not a C43 matter; no production caller)
        w2   == [w EXCEPT !.accts = [i \in 1..n |-> [w.accts[i] EXCEPT !.enc = to]], !.params = to]
    IN /\ (mode = "wrong" => n > 0)
       /\ IF good THEN Step("convert", Arg(0, to, mode, "", pws), Ok(0), w2, TRUE, nextId, live)
                  ELSE Stay("convert", Arg(0, to, mode, "", pws), Fail)

\* GetAccountByAddress / ByLabel / ByIndex / GetDefaultAccount for account id with password try (all paths that lead to it)
Get(id, try) == Stay("get", Arg(id, "", try, "", <<>>), ModelGet(w, id, try))

Next == \/ \E l \in Labels \cup {""} : (\E pw \in PWs \cup {NoPw} : New(l, pw)) \/ (\E pw \in PWs : Import(l, pw))
        \/ \E id \in Targets :
              \/ \E try \in PWs \cup {NoPw} : Delete(id, try) \/ Get(id, try)
              \/ SetDefault(id)
              \/ \E l \in Labels : SetLabel(id, l)
              \/ LET cur == IF Pos(w, id) = 0 THEN CHOOSE q \in PWs : TRUE ELSE w.accts[Pos(w, id)].pw IN
                   \/ \E new \in PWs : ChPw(id, cur, new)            \* right old password (or unknown account)
                   \/ ChPw(id, Nx(cur), cur)                         \* wrong old password, new = the real one
                   \/ ChPw(id, NoPw, Nx(cur))                        \* empty old password
        \/ Reopen
        \/ \E to \in ConvTo, mode \in {"right", "wrong"} : Convert(to, mode)

Spec == Init /\ [][Next]_vars
View == <<w, disk, loaded, nextId, live>>

(* PropC43: the monitor *****************************************************)
WalletOK(W) ==
    \A id \in Ids : live[id] # Dead =>
        /\ Cardinality({i \in 1..Len(W.accts) : W.accts[i].id = id}) = 1
        /\ \A try \in PWs \cup {NoPw} :
              LET g == ModelGet(W, id, try) IN GetConforms(live[id], try, g.res, g.id = id)
PropC43 == WalletOK(w) /\ WalletOK(disk)
=============================================================================
