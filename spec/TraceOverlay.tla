---------------------------- MODULE TraceOverlay ----------------------------
(* P-VALIDATE for C10 / C11: a history recorded from the real CacheDB -> OverlayDB -> LevelDB stack (one event per call,
   logged at return with arguments and the returned observation) must be a behaviour of Overlay; PropC10 (and PropC11)
   are evaluated in every state of the recorded run.
   "reset" starts a new history on a fresh stack with the logged store contents.
   "digest" logs the block layer's write set (obs), the interned id d of OverlayDB.ChangeHash() and the id kid of the
   key concretization in use.  It is accepted only if the write set is the model's WriteSeq(blk) and if the digest is
   consistent with every digest logged before for the same write sequence (C11: the digest is a function of the net
   write set - across histories, stores, write orders). *)
EXTENDS Overlay, TLCExt
VARIABLES l, seen, it
TraceLog == ndJsonDeserialize("trace.ndjson")
tvars == <<store, batch, bopen, blk, tx, hist, l, seen, it>>
Ev == TraceLog[l]
IsEvent(e) == l <= Len(TraceLog) /\ Ev.op = e /\ l' = l + 1
NoIt == [open |-> FALSE, lvl |-> "", lo |-> 0, hi |-> 0]
Closed == ~it.open
Keep == UNCHANGED <<seen, it>>
(* while an iterator is open only reads and writes outside its range are recorded (see Overlay: iterator life cycle) *)
WriteOK(k) == it.open => Outside(k, it.lo, it.hi)

TResetAll == /\ IsEvent("reset") /\ UNCHANGED seen /\ it' = NoIt
             /\ store' = [k \in Keys |-> Ev.s0[k]]
             /\ batch' = Empty /\ bopen' = FALSE /\ blk' = Empty /\ tx' = Empty
             /\ hist' = [s0 |-> store', ops |-> <<>>]
TTPut == IsEvent("tput") /\ Keep /\ WriteOK(Ev.a[1]) /\ TPut(Ev.a[1], Ev.v)
TBPut == IsEvent("bput") /\ Keep /\ WriteOK(Ev.a[1]) /\ BPut(Ev.a[1], Ev.v)
TTGet == IsEvent("tget") /\ Keep /\ TGet(Ev.a[1]) /\ Ev.obs = ObsTGet(Ev.a[1])
TBGet == IsEvent("bget") /\ Keep /\ BGet(Ev.a[1]) /\ Ev.obs = ObsBGet(Ev.a[1])
TTScan == IsEvent("tscan") /\ Keep /\ TScan(Ev.a[1], Ev.a[2]) /\ Ev.obs = ObsTScan(Ev.a[1], Ev.a[2])
TBScan == IsEvent("bscan") /\ Keep /\ BScan(Ev.a[1], Ev.a[2]) /\ Ev.obs = ObsBScan(Ev.a[1], Ev.a[2])
TTCommit == IsEvent("tcommit") /\ Keep /\ Closed /\ TCommit
TTReset == IsEvent("treset") /\ Keep /\ Closed /\ TReset
TBReset == IsEvent("breset") /\ Keep /\ Closed /\ BReset
TFlush == IsEvent("flush") /\ Keep /\ Closed /\ Flush
TNewBatch == IsEvent("newbatch") /\ Keep /\ Closed /\ NewBatch
TCommitTo == IsEvent("committo") /\ Keep /\ Closed /\ CommitTo
TBatchCommit == IsEvent("batchcommit") /\ Keep /\ Closed /\ BatchCommit
TOpen(lvl) == /\ IsEvent(IF lvl = "tx" THEN "topen" ELSE "bopen") /\ UNCHANGED <<vars, seen>>
              /\ it' = [open |-> TRUE, lvl |-> lvl, lo |-> Ev.a[1], hi |-> Ev.a[2]]
TWalk == /\ IsEvent("walk") /\ it.open /\ UNCHANGED <<vars, seen>> /\ it' = NoIt
         /\ Ev.obs = IF it.lvl = "tx" THEN ObsTScan(it.lo, it.hi) ELSE ObsBScan(it.lo, it.hi)
TDigest == /\ IsEvent("digest") /\ UNCHANGED it
           /\ UNCHANGED vars
           /\ Ev.obs = WriteSeq(blk)
           /\ \A p \in seen : (p.kid = Ev.kid /\ p.ws = Ev.obs) => p.d = Ev.d
           /\ seen' = seen \cup {[kid |-> Ev.kid, ws |-> Ev.obs, d |-> Ev.d]}

(* PropC10 with the scan clause restricted to the full range (the other ranges are compared event by event) *)
PropC10T == /\ TypeOK /\ ReadsNewest
            /\ BlkScanImpl(1, K) = LiveScan(BlkView, 1, K)
            /\ TxScanImpl(1, K) = LiveScan(TxView, 1, K)

TraceInit == /\ TLCSet(1, 1) /\ l = 1 /\ seen = {} /\ it = NoIt
             /\ store = Empty /\ batch = Empty /\ bopen = FALSE /\ blk = Empty /\ tx = Empty
             /\ hist = [s0 |-> Empty, ops |-> <<>>]
TraceNext == \/ TResetAll \/ TTPut \/ TBPut \/ TTGet \/ TBGet \/ TTScan \/ TBScan \/ TTCommit \/ TTReset \/ TBReset
             \/ TOpen("tx") \/ TOpen("blk") \/ TWalk
             \/ TFlush \/ TNewBatch \/ TCommitTo \/ TBatchCommit \/ TDigest
TraceSpec == TraceInit /\ [][TraceNext]_tvars
HighWater == TLCSet(1, IF TLCGet(1) < l THEN l ELSE TLCGet(1))
Accepted == PrintT(<<"HIGHWATER", TLCGet(1)>>) /\ TLCGet(1) = Len(TraceLog) + 1
=============================================================================
