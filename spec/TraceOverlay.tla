---------------------------- MODULE TraceOverlay ----------------------------
(* P-VALIDATE for C10 / C11: a history recorded from the real CacheDB -> OverlayDB -> LevelDB stack (one event per call,
   logged at return with arguments and the returned observation) must be a behaviour of Overlay; PropC10 (and PropC11)
   are evaluated in every state of the recorded run.
   "reset" starts a new history on a fresh stack with the logged store contents.
   "digest" logs the block layer's write set (obs), the interned id d of OverlayDB.ChangeHash() and the id kid of the
   key concretization in use.  It is accepted only if the write set is the model's WriteSeq(blk) and if the digest is
   consistent with every digest logged before for the same write sequence (C11: the digest is a function of the net
   write set - across histories, stores, write orders). *)
EXTENDS Overlay, TLCExt
VARIABLES l, seen
TraceLog == ndJsonDeserialize("trace.ndjson")
tvars == <<store, batch, bopen, blk, tx, hist, l, seen>>
Ev == TraceLog[l]
IsEvent(e) == l <= Len(TraceLog) /\ Ev.op = e /\ l' = l + 1
Keep == UNCHANGED seen

TResetAll == /\ IsEvent("reset") /\ Keep
             /\ store' = [k \in Keys |-> Ev.s0[k]]
             /\ batch' = Empty /\ bopen' = FALSE /\ blk' = Empty /\ tx' = Empty
             /\ hist' = [s0 |-> store', ops |-> <<>>]
TTPut == IsEvent("tput") /\ Keep /\ TPut(Ev.a[1], Ev.v)
TBPut == IsEvent("bput") /\ Keep /\ BPut(Ev.a[1], Ev.v)
TTGet == IsEvent("tget") /\ Keep /\ TGet(Ev.a[1]) /\ Ev.obs = ObsTGet(Ev.a[1])
TBGet == IsEvent("bget") /\ Keep /\ BGet(Ev.a[1]) /\ Ev.obs = ObsBGet(Ev.a[1])
TTScan == IsEvent("tscan") /\ Keep /\ TScan(Ev.a[1], Ev.a[2]) /\ Ev.obs = ObsTScan(Ev.a[1], Ev.a[2])
TBScan == IsEvent("bscan") /\ Keep /\ BScan(Ev.a[1], Ev.a[2]) /\ Ev.obs = ObsBScan(Ev.a[1], Ev.a[2])
TTCommit == IsEvent("tcommit") /\ Keep /\ TCommit
TTReset == IsEvent("treset") /\ Keep /\ TReset
TBReset == IsEvent("breset") /\ Keep /\ BReset
TFlush == IsEvent("flush") /\ Keep /\ Flush
TNewBatch == IsEvent("newbatch") /\ Keep /\ NewBatch
TCommitTo == IsEvent("committo") /\ Keep /\ CommitTo
TBatchCommit == IsEvent("batchcommit") /\ Keep /\ BatchCommit
TDigest == /\ IsEvent("digest")
           /\ UNCHANGED vars
           /\ Ev.obs = WriteSeq(blk)
           /\ \A p \in seen : (p.kid = Ev.kid /\ p.ws = Ev.obs) => p.d = Ev.d
           /\ seen' = seen \cup {[kid |-> Ev.kid, ws |-> Ev.obs, d |-> Ev.d]}

(* PropC10 with the scan clause restricted to the full range (the other ranges are compared event by event) *)
PropC10T == /\ TypeOK /\ ReadsNewest
            /\ BlkScanImpl(1, K) = LiveScan(BlkView, 1, K)
            /\ TxScanImpl(1, K) = LiveScan(TxView, 1, K)

TraceInit == /\ TLCSet(1, 1) /\ l = 1 /\ seen = {}
             /\ store = Empty /\ batch = Empty /\ bopen = FALSE /\ blk = Empty /\ tx = Empty
             /\ hist = [s0 |-> Empty, ops |-> <<>>]
TraceNext == \/ TResetAll \/ TTPut \/ TBPut \/ TTGet \/ TBGet \/ TTScan \/ TBScan \/ TTCommit \/ TTReset \/ TBReset
             \/ TFlush \/ TNewBatch \/ TCommitTo \/ TBatchCommit \/ TDigest
TraceSpec == TraceInit /\ [][TraceNext]_tvars
HighWater == TLCSet(1, IF TLCGet(1) < l THEN l ELSE TLCGet(1))
Accepted == PrintT(<<"HIGHWATER", TLCGet(1)>>) /\ TLCGet(1) = Len(TraceLog) + 1
=============================================================================
