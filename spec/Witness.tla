------------------------------- MODULE Witness -------------------------------
(***************************************************************************)
(* C18 - privileged native operations require the right witness.          *)
(*                                                                         *)
(* CheckWitness(a) holds for an address that signed the transaction or for *)
(* the immediately calling contract (native/native.go).  Every privileged  *)
(* method names the address whose witness it requires:                     *)
(*   operator  the multi-signature address of the current consensus        *)
(*             validators (m = n - (n-1) \div 3): trust-root installation  *)
(*             on every router, updateConfig, blackChain, whiteChain,      *)
(*             commitDpos before the epoch is due;                         *)
(*   named     the address carried in the parameters: the owner of a       *)
(*             candidate / side-chain / relayer / state-validator request, *)
(*             the quitting party, and - on every approve*, blackNode,     *)
(*             whiteNode, updateFee, addSignature - the approver itself.   *)
(*                                                                         *)
(* P-TABLE: Init picks one call (method, who is named, signer set, chain   *)
(* of calling contracts, epoch due or not); Decide computes the verdict.   *)
(* PropC18 (monitor): required witness absent => the call is rejected and  *)
(* the state is unchanged.                                                 *)
(***************************************************************************)
EXTENDS Integers, Sequences, FiniteSets, TLC, Json

CONSTANTS Routers,      \* header_sync routers (trust-root installation needs the operator)
          Actors,       \* key-holding actors that may sign: "op" (operator), "opweak" (operator keys, smaller threshold),
                        \* "opold" (multi-sig of another validator set), "val" (one validator), "owner", "stranger"
          ExtraActors,  \* further multi-signature actors over the validators' keys with another threshold ("op1": 1-of-n, "op4":
                        \* n-of-n); they sign alone or together with the stranger (keeps the table small)
          CtxDepth,     \* longest chain of calling contracts (0: direct calls only)
          EmitOn

(* the table ***************************************************************)
GenesisMethods == {"hs.syncGenesisHeader:" \o r : r \in Routers}
OperatorMethods == GenesisMethods \cup {"nm.updateConfig", "nm.commitDpos", "ccm.blackChain", "ccm.whiteChain"}
(* owner-only requests: the named address is the requesting / owning party *)
OwnerMethods == {"nm.registerCandidate", "nm.unRegisterCandidate", "nm.quitNode",
                 "scm.registerSideChain", "scm.updateSideChain", "scm.quitSideChain", "scm.registerAsset",
                 "rm.registerRelayer", "rm.removeRelayer",
                 "n3.registerStateValidator", "n3.removeStateValidator"}
(* approvals: the named address is the approver (a consensus validator) *)
SelfMethods == {"nm.approveCandidate", "nm.blackNode", "nm.whiteNode",
                "scm.approveRegisterSideChain", "scm.approveUpdateSideChain", "scm.approveQuitSideChain", "scm.updateFee",
                "rm.approveRegisterRelayer", "rm.approveRemoveRelayer",
                "n3.approveRegisterStateValidator", "n3.approveRemoveStateValidator",
                "sm.addSignature"}
Methods == OperatorMethods \cup OwnerMethods \cup SelfMethods
(* methods whose named address is free, so that a contract can be named (calling-context clause) *)
CtxMethods == {"nm.registerCandidate", "scm.registerSideChain", "rm.registerRelayer", "rm.removeRelayer",
               "n3.registerStateValidator", "n3.removeStateValidator"}

Contracts == {"C1", "C2"}            \* relay contracts; C1 is the one that can be named
RECURSIVE SeqsUpTo(_, _)
SeqsUpTo(S, n) == IF n = 0 THEN {<<>>} ELSE SeqsUpTo(S, n - 1) \cup {Append(s, x) : s \in SeqsUpTo(S, n - 1), x \in S}

(* who must witness *)
Required(m, named) == IF m \in OperatorMethods THEN "op" ELSE named
(* "zero" is the all-zero address: nobody can sign for it and it is no contract - it is the value CallingContext() has when
   there is no caller, so a witness check that forgets the "there is a caller" test accepts it at top level *)
NamedFor(m) == IF m \in OperatorMethods THEN {"-"}
               ELSE IF m \in SelfMethods THEN {"val", "zero"}
               ELSE IF m \in CtxMethods THEN {"owner", "C1", "zero"} ELSE {"owner", "zero"}

(* native.CheckWitness: signer of the transaction, or the immediate caller; ctx lists the calling contracts, outermost first *)
CheckWitness(a, signers, ctx) == a \in signers \/ (ctx # <<>> /\ ctx[Len(ctx)] = a)

VARIABLES call, verdict, changed
vars == <<call, verdict, changed>>

(* commitDpos: "before it is due" is arithmetic on 32-bit quantities, so the epoch configuration is part of the call.  An epoch
   lasts mb blocks (MaxBlockChangeView), the current one began at height vh (governanceView.Height), the call is made at height
   vh + mb + delta: due exactly when delta >= 0 - mathematically, whatever the word size.  TLC integers are 32-bit, so the
   numbers are two 16-bit limbs <<hi, lo>>; a call is offered only if its height fits in 32 bits. *)
B == 65536
EpochLens == [min |-> <<0, 10000>>, typ |-> <<1, 34464>>, p31 |-> <<32768, 0>>, max32 |-> <<65535, 65535>>]   \* 10 000, 100 000, 2^31, 2^32-1
ViewHeights == [zero |-> <<0, 0>>, one |-> <<0, 1>>, large |-> <<32768, 0>>]                                  \* 0, 1, 2^31
Norm(h, l) == IF l < 0 THEN <<h - 1, l + B>> ELSE IF l >= B THEN <<h + 1, l - B>> ELSE <<h, l>>
HeightAt(mb, vh, delta) == LET a == Norm(ViewHeights[vh][1] + EpochLens[mb][1], ViewHeights[vh][2] + EpochLens[mb][2])
                           IN Norm(a[1], a[2] + delta)
Fits32(x) == x[1] >= 0 /\ x[1] < B
Epochs == {[mb |-> mb, vh |-> vh, delta |-> d] : mb \in DOMAIN EpochLens, vh \in DOMAIN ViewHeights, d \in {-1, 0, 1}}
NoEpoch == [mb |-> "-", vh |-> "-", delta |-> 0]
Due(c) == c.m = "nm.commitDpos" /\ c.ep.delta >= 0

(* the well-formed calls, enumerated without building the full product *)
CtxFor(named) == IF named = "C1" THEN SeqsUpTo(Contracts, CtxDepth)
                 ELSE IF CtxDepth = 0 THEN {<<>>} ELSE {<<>>, <<"C2">>}          \* nesting only where it matters
EpochsFor(m) == IF m = "nm.commitDpos" THEN {e \in Epochs : Fits32(HeightAt(e.mb, e.vh, e.delta))} ELSE {NoEpoch}
SignerSets == (SUBSET Actors) \cup {{x} \cup r : x \in ExtraActors, r \in {{}, {"stranger"}}}
(* how the signer addresses reach CheckWitness: "verified" - the transaction went through validation.VerifyTransaction, which
   caches them; "decoded" - a freshly deserialized copy (block-synced transactions are not re-verified), the addresses are derived
   from the signature programs.  Both must yield the same witnesses. *)
PathsFor(cx) == IF cx = <<>> THEN {"verified", "decoded"} ELSE {"verified"}
IsCall(c) == /\ c.m \in Methods /\ c.named \in NamedFor(c.m) /\ c.signers \in SignerSets
             /\ c.ctx \in CtxFor(c.named) /\ c.ep \in EpochsFor(c.m) /\ c.path \in PathsFor(c.ctx)

Witnessed(c) == CheckWitness(Required(c.m, c.named), c.signers, c.ctx)
Allowed(c) == Witnessed(c) \/ Due(c)     \* once the epoch is due anybody may commit it

Init == /\ \E m \in Methods : \E n \in NamedFor(m) : \E sg \in SignerSets : \E cx \in CtxFor(n) : \E e \in EpochsFor(m) :
              \E pa \in PathsFor(cx) : call = [m |-> m, named |-> n, signers |-> sg, ctx |-> cx, ep |-> e, path |-> pa]
        /\ verdict = "pending" /\ changed = FALSE
Decide == /\ verdict = "pending"
          /\ verdict' = IF Allowed(call) THEN "accept" ELSE "reject"
          /\ changed' = Allowed(call)
          /\ UNCHANGED call
          /\ (~EmitOn \/ PrintT(<<"ROW", ToJson([m |-> call.m, named |-> call.named, signers |-> call.signers, ctx |-> call.ctx,
                                                  due |-> Due(call), ep |-> call.ep, path |-> call.path,
                                                  mbv |-> IF call.ep = NoEpoch THEN <<0, 0>> ELSE EpochLens[call.ep.mb],
                                                  vhv |-> IF call.ep = NoEpoch THEN <<0, 0>> ELSE ViewHeights[call.ep.vh],
                                                  hv |-> IF call.ep = NoEpoch THEN <<0, 0>> ELSE HeightAt(call.ep.mb, call.ep.vh, call.ep.delta),
                                                  expect |-> verdict', witnessed |-> Witnessed(call)])>>))
Next == Decide
Spec == Init /\ [][Next]_vars

(* PropC18 ******************************************************************)
(* over the observation alphabet: who was required, was the witness there, what happened *)
C18Row(witnessed, due, result, stateChanged) == (~witnessed /\ ~due) => (result = "reject" /\ ~stateChanged)
PropC18 == verdict # "pending" => C18Row(Witnessed(call), Due(call), verdict, changed)

(* table sanity: the three classes are disjoint, every method has exactly one required-witness rule *)
TableOK == /\ OperatorMethods \cap OwnerMethods = {} /\ OperatorMethods \cap SelfMethods = {} /\ OwnerMethods \cap SelfMethods = {}
           /\ CtxMethods \subseteq OwnerMethods
=============================================================================
