SPECIFICATION Spec
CONSTANTS EmitOn = TRUE
          Thorough = TRUE
          NPerm = 24
          NCombo = 12
          CutBound = 700
          ModelMut = "none"
INVARIANT PropRoundTrip
INVARIANT PropCanonical
INVARIANT PropTotal
CHECK_DEADLOCK FALSE
