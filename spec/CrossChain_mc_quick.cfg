SPECIFICATION Spec
CONSTANTS Src = {"b","g"}
          Tgt = {"b","t"}
          Ids = {"i1","i2"}
          Vars = {1,2}
          Gated = {"g"}
          MaxH = 1
          EmitOn = "off"
          GovChains = {"b","g","t"}
          RelayOn = FALSE
          Silent = {"v","r"}
VIEW View
INVARIANT TypeOK
PROPERTY PropC20 PropC21 PropC22
CHECK_DEADLOCK FALSE
