SPECIFICATION Spec
CONSTANTS Chains = {"ont"}
          Ns = {1, 2, 3, 4, 5}
          LightNs = {7}
          ExhN = 2
          ExhL = 2
          EmitOn = TRUE
INVARIANT PropC24
CHECK_DEADLOCK FALSE
