SPECIFICATION TraceSpec
CONSTANTS Rel = {"r1", "r2"}
          Val = {"v1", "v2", "v3", "v4"}
          Cand = {"c1"}
          Acts = {"relayer", "cand", "proc"}
          Outsiders = {"x"}
          MaxReq = 2
          Depth = 0
          EmitOn = FALSE
          Strict = FALSE
CONSTRAINT HighWater
POSTCONDITION Accepted
CHECK_DEADLOCK FALSE
