SPECIFICATION Spec
CONSTANTS NV = 5
          Mode = "C34"
          Areas = {"nodeA", "nodeB"}
          AltSp = TRUE
          MaxView = 3
          MaxHeight = 4
          MaxId = 2
          MaxSigns = 99
          NWho = 1
          Rich = FALSE
          EmitOn = TRUE
VIEW View
CONSTRAINT Bound
INVARIANT PropAll
INVARIANT TypeOK
CHECK_DEADLOCK FALSE
