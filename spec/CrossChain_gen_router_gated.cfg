SPECIFICATION Spec
CONSTANTS Src = {"z"}
          Tgt = {"t"}
          Ids = {"i1"}
          Vars = {1,2}
          Gated = {"z"}
          MaxH = 1
          EmitOn = "edge"
          GovChains = {"t","z"}
          RelayOn = FALSE
          Silent = {"v","r"}
VIEW View
INVARIANT TypeOK
PROPERTY PropC20 PropC21 PropC22
CHECK_DEADLOCK FALSE
