-------------------------- MODULE TraceStorageKeys --------------------------
(* C17 binding: every raw key that real contract operations wrote (trace.ndjson: ev = "key", op, raw bytes) is judged: namespace
   (Confined), owning contract, and the record kinds of the table that explain it; every same-kind parameter pair (ev = "pair")
   is judged for injectivity. *)
EXTENDS StorageKeys, TLCExt
VARIABLE l
TraceLog == ndJsonDeserialize("trace.ndjson")
Ev == TraceLog[l]
TraceInit == TLCSet(1, 1) /\ l = 1 /\ pair = <<1, 1>> /\ done = TRUE
(* same kind, different parameters: the operation that writes the kind was run twice, in two fresh universes, with parameter
   vectors p1 and p2 (the driver's own little-endian bytes); raw1 / raw2 are the raw keys it wrote, f1 / f2 the bytes those
   keys carry at the integer fields *)
DistinctParamsDistinctKeys(e) == e.p1 # e.p2 => e.raw1 # e.raw2
Faithful(e) == e.f1 = e.p1 /\ e.f2 = e.p2
JudgeKey == LET K == KindsOf(Ev.raw)
            IN PrintT(<<"VERDICT", ToJson([i |-> l, confined |-> Confined(Ev.raw), ns |-> Ev.raw[1], contract |-> ContractOf(Ev.raw),
                                           kinds |-> {Layouts[k].name : k \in K}])>>)
JudgePair == PrintT(<<"PAIR", ToJson([i |-> l, ok |-> DistinctParamsDistinctKeys(Ev), faithful |-> Faithful(Ev),
                                      confined |-> Confined(Ev.raw1) /\ Confined(Ev.raw2)])>>)
(* one execution's keys do not depend on what other executions do at the same time: seq / conc are the raw keys one
   (goroutine, iteration) wrote when it ran alone and when eight ran at once on private stores *)
Deterministic(e) == e.seq = e.conc
JudgeConc == PrintT(<<"CONC", ToJson([i |-> l, ok |-> Deterministic(Ev)])>>)
TraceNext == /\ l <= Len(TraceLog)
             /\ IF Ev.ev = "pair" THEN JudgePair ELSE IF Ev.ev = "conc" THEN JudgeConc ELSE JudgeKey
             /\ l' = l + 1 /\ UNCHANGED <<pair, done>>
TraceSpec == TraceInit /\ [][TraceNext]_<<pair, done, l>>
HighWater == TLCSet(1, IF TLCGet(1) < l THEN l ELSE TLCGet(1))
Accepted == PrintT(<<"HIGHWATER", TLCGet(1)>>) /\ TLCGet(1) = Len(TraceLog) + 1
=============================================================================
