-------------------------- MODULE TraceStorageKeys --------------------------
(* C17 binding: every raw key that real contract operations wrote (trace.ndjson: op, raw bytes) is judged: namespace
   (Confined), owning contract, and the record kinds of the table that explain it. *)
EXTENDS StorageKeys, TLCExt
VARIABLE l
TraceLog == ndJsonDeserialize("trace.ndjson")
Ev == TraceLog[l]
TraceInit == TLCSet(1, 1) /\ l = 1 /\ pair = <<1, 1>> /\ done = TRUE
TraceNext == /\ l <= Len(TraceLog)
             /\ LET K == KindsOf(Ev.raw)
                IN PrintT(<<"VERDICT", ToJson([i |-> l, confined |-> Confined(Ev.raw), ns |-> Ev.raw[1], contract |-> ContractOf(Ev.raw),
                                               kinds |-> {Layouts[k].name : k \in K}])>>)
             /\ l' = l + 1 /\ UNCHANGED <<pair, done>>
TraceSpec == TraceInit /\ [][TraceNext]_<<pair, done, l>>
HighWater == TLCSet(1, IF TLCGet(1) < l THEN l ELSE TLCGet(1))
Accepted == PrintT(<<"HIGHWATER", TLCGet(1)>>) /\ TLCGet(1) = Len(TraceLog) + 1
=============================================================================
