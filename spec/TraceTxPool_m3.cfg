SPECIFICATION TraceSpec
CONSTANTS Tx = {"t1", "t2", "t3", "t4", "t5", "t6", "t7", "t8", "t9", "t10", "t11", "t12"}
          MaxH = 3
          MAXTX = 3
          Strict = TRUE
CONSTRAINT HighWater
INVARIANT PropC37
POSTCONDITION Accepted
CHECK_DEADLOCK FALSE
