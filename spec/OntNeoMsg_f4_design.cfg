SPECIFICATION Spec
CONSTANTS Chains = {"ont"}
          Ns = {4}
          LightNs = {}
          ExhN = 0
          ExhL = 0
          EmitOn = FALSE
INVARIANT NoDupGuardIsSafe
CHECK_DEADLOCK FALSE
