SPECIFICATION Spec
CONSTANTS Table = "gas"
          Thorough = FALSE
INVARIANT PropC28Model
CHECK_DEADLOCK FALSE
