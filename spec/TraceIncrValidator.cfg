SPECIFICATION TraceSpec
CONSTANTS Heights <- THeights
          Tx <- TTx
          TxSets = {}
          Maxes = {}
          Mode = "mc"
CONSTRAINT HighWater
INVARIANT PropC38
POSTCONDITION Accepted
CHECK_DEADLOCK FALSE
