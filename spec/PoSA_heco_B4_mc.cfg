\* C29 PoSA: family heco, chain configuration B (MCPoSA!SetsB), mode mc
SPECIFICATION Spec
CONSTANTS Family = "heco"
          Epoch = 0
          CliqueFixed = FALSE
          Sets <- SetsB
          GenesisSigner = "c"
          G0 = 200
          Keys = {"a", "b", "c", "d", "e", "x"}
          Diffs = {1, 2}
          Defects = {"mix"}
          MaxStored = 4
          MaxLen = 5
          EmitOn = FALSE
          Sprint = 0
          SpanEnd = 0
          TwoBranch = FALSE
          TraceLen = 0
VIEW View
INVARIANT PropC29
INVARIANT ModelSane
INVARIANT ModelEquiv
CHECK_DEADLOCK FALSE
