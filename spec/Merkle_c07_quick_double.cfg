SPECIFICATION Spec
CONSTANTS Table = "c07"
          N = 4
          Sizes = {}
          Doubles = TRUE
          PoolMode = "near"
          Lab = "id"
          EmitOn = TRUE
INVARIANT PropC07
CHECK_DEADLOCK FALSE
