\* C29 PoSA: family bor (polygon, inside one sprint), chain configuration P (MCPoSA!SetsP; proposer b), mode gen; Sprint 4 (header 203 is a sprint-end header), stored span [200, 204], no span proof supplied
SPECIFICATION Spec
CONSTANTS Family = "bor"
          Epoch = 0
          CliqueFixed = FALSE
          Sets <- SetsP
          GenesisSigner = "b"
          G0 = 200
          Keys = {"a", "b", "c", "d", "x"}
          Diffs = {1, 2, 3}
          Defects = {}
          MaxStored = 3
          MaxLen = 3
          EmitOn = TRUE
          Sprint = 4
          SpanEnd = 204
          TwoBranch = FALSE
          TraceLen = 0
VIEW View
INVARIANT PropC29
INVARIANT ModelSane
INVARIANT ModelEquiv
CHECK_DEADLOCK FALSE
