SPECIFICATION Spec
CONSTANTS Table = "e2e"
          Thorough = TRUE
INVARIANT PropC28Model
CHECK_DEADLOCK FALSE
