-------------------------------- MODULE Wire --------------------------------
(***************************************************************************)
(* C02 (ledger objects) and C05 (p2p frames) - schema-driven records over  *)
(* the byte-level primitives of Codec.tla.                                 *)
(*                                                                         *)
(* A schema is a sequence of field descriptors (fixed LE integer, opaque   *)
(* bytes, var-bytes, public key, bool, counted list of a named schema,     *)
(* nested schema, optional tail); EncS / DecS interpret it.  The decoders  *)
(* of core/types (transaction, header, block) and of p2pserver/message/    *)
(* types are transcribed in the code's shape where they do more than read  *)
(* fields:                                                                 *)
(*   DecTx     hashes the byte range [pstart, pos) it has just parsed,     *)
(*             allocates the signature slice from the wire count (named    *)
(*             deviation AllocPanic, switched off by Repaired), checks the *)
(*             size limit afterwards;                                      *)
(*   DecHeader loops `for i := 0; i < int(n); i++` (a count >= 2^63 is a   *)
(*             negative int: zero iterations), identity = DSha of the      *)
(*             re-encoded unsigned fields;                                 *)
(*   DecBlock  duplicate mask over transaction hashes, root comparison;    *)
(*   DecAddr / DecInv clamp to 64 entries after the loop (named deviation  *)
(*             SlicePanic for a negative count);                           *)
(*   ReadFrame magic, size limit, ReadFull, checksum, command table.       *)
(* Hashes are free terms: a transaction identity IS the (normalised)       *)
(* unsigned byte range, a checksum / Merkle root is an opaque token that   *)
(* names what it was computed over; the driver evaluates them with real    *)
(* SHA-256.  Public keys are opaque tokens concretized with real ECDSA     *)
(* P-256 / SM2 / Ed25519 keys.                                             *)
(*                                                                         *)
(* The decision tables over this module (objects, mutants, monitor,        *)
(* PropC02 / PropC05) are in WireTable.tla.  Repaired = TRUE bounds the    *)
(* counts before allocating / slicing (the repaired design); FALSE is the  *)
(* code as it is, where the named deviations predict "panic".              *)
(***************************************************************************)
EXTENDS Codec, Json

CONSTANT Repaired    \* TRUE: counts are bounded before allocation / slicing (the repaired design); FALSE: the code as it is

PANIC == "panic"
MaxTxSize   == 1048576
MaxPayload  == 31457256          \* 30 MiB - 24
MaxSigs     == 16
Magic       == <<66, 68, 78, 0>> \* config.DefConfig.P2PNode.NetworkMagic is set by the driver to 0x004E4442

(* ---- public keys ----------------------------------------------------------- *)
KeyLen == [p1 |-> 33, p2 |-> 33, p3 |-> 33, s1 |-> 35, e1 |-> 34]
Key(k) == Tok(k, KeyLen[k])
KeyLabels == {2, 3, 4, 18, 19, 20}       \* first byte of every serialization keypair.DeserializePublicKey understands

(* ---- field descriptors -------------------------------------------------------- *)
FD(t, w, ok, el, c, q) == [t |-> t, w |-> w, ok |-> ok, el |-> el, c |-> c, q |-> q]
Fix(w)        == FD("fix", w, {}, "", "", "")
FixIn(w, ok)  == FD("fix", w, ok, "", "", "")
Raw(w)        == FD("raw", w, {}, "", "", "")
VB            == FD("vb", -1, {}, "", "", "")
VBMax(m)      == FD("vb", m, {}, "", "", "")
KeyF          == FD("key", 0, {}, "", "", "")
BoolF         == FD("bool", 0, {}, "", "", "")
List(c, el)   == FD("list", 0, {}, el, c, "")
ListQ(c, el, q) == FD("list", 0, {}, el, c, q)
Sub(el)       == FD("sub", 0, {}, el, "", "")
OptRaw(w)     == FD("optraw", w, {}, "", "", "")
OptStr        == FD("optstr", 0, {}, "", "", "")

TxUnsignedN == 10
Schema == [
  vbE   |-> <<VB>>,
  keyE  |-> <<KeyF>>,
  hashE |-> <<Raw(32)>>,
  sig   |-> <<List("u16", "vbE"), List("u16", "keyE"), Fix(2)>>,
  tx    |-> <<FixIn(1, {<<0>>}), FixIn(1, {<<209>>}), Fix(4), Fix(8), Fix(8), Fix(8), VB, VBMax(0), Raw(20), FixIn(1, {<<0>>}),
              ListQ("vu", "sig", "alloc")>>,
  header |-> <<FixIn(4, {<<0, 0, 0, 0>>}), Fix(8), Raw(32), Raw(32), Raw(32), Raw(32), Fix(4), Fix(4), Fix(8), VB, Raw(20),
              ListQ("vu", "keyE", "neg0"), ListQ("vu", "vbE", "neg0")>>,
  block |-> <<Sub("header"), List("u32", "tx")>>,
  \* p2p payloads
  ping       |-> <<Fix(8)>>,
  pong       |-> <<Fix(8)>>,
  version    |-> <<Fix(4), Fix(8), Fix(8), Fix(2), Fix(2), Fix(2), Raw(32), Fix(8), Fix(8), Fix(1), BoolF, OptStr>>,
  verack     |-> <<BoolF>>,
  getaddr    |-> <<>>,
  disconnect |-> <<>>,
  addrE      |-> <<Fix(8), Fix(8), Raw(16), Fix(2), Fix(2), Fix(8)>>,
  addr       |-> <<ListQ("u64", "addrE", "clamp")>>,
  getheaders |-> <<Fix(1), Raw(32), Raw(32)>>,
  getblocks  |-> <<Fix(1), Raw(32), Raw(32)>>,
  headers    |-> <<List("u32", "header")>>,
  inv        |-> <<Fix(1), ListQ("u32", "hashE", "clamp")>>,
  getdata    |-> <<Fix(1), Raw(32)>>,
  blockmsg   |-> <<Sub("block"), OptRaw(32)>>,
  txmsg      |-> <<Sub("tx")>>,
  consensus  |-> <<Fix(4), Raw(32), Fix(4), Fix(2), Fix(4), VB, KeyF, VB>>,
  notfound   |-> <<Raw(32)>>
]
HeaderUnsignedN == 11

(* ---- encoder ---------------------------------------------------------------------- *)
EncCount(c, n) == IF c = "vu" THEN EncVUB(U64(n)) ELSE IF c = "u16" THEN FromBytes(U16(n))
                  ELSE IF c = "u32" THEN FromBytes(U32(n)) ELSE FromBytes(U64(n))
RECURSIVE EncS(_, _)
EncField(f, v) ==
    IF f.t = "fix" \/ f.t = "bool" THEN FromBytes(v)
    ELSE IF f.t = "raw" \/ f.t = "optraw" THEN v
    ELSE IF f.t = "vb" \/ f.t = "optstr" THEN EncVB(v)
    ELSE IF f.t = "key" THEN EncVB(Key(v))
    ELSE IF f.t = "list" THEN EncCount(f.c, Len(v)) \o Cat([i \in 1..Len(v) |-> EncS(f.el, v[i])])
    ELSE EncS(f.el, v)
EncS(name, v) == LET sc == Schema[name] IN Cat([i \in 1..Len(sc) |-> EncField(sc[i], v[i])])
EncPrefix(name, v, n) == LET sc == Schema[name] IN Norm(Cat([i \in 1..n |-> EncField(sc[i], v[i])]))
Enc(name, v) == Norm(EncS(name, v))
TxUnsigned(v)  == EncPrefix("tx", v, TxUnsignedN)
HdrUnsigned(v) == EncPrefix("header", v, HeaderUnsignedN)

(* parts of an encoding, for the mutant generator: [kd |-> kind, b |-> bytes, n |-> count or length] *)
Part(kd, b, n) == [kd |-> kd, b |-> b, n |-> n]
RECURSIVE PartsS(_, _)
PartsF(f, v) ==
    IF f.t = "fix" THEN <<Part(IF f.ok = {} THEN "fix" ELSE "fixin", FromBytes(v), 0)>>
    ELSE IF f.t = "bool" THEN <<Part("bool", FromBytes(v), 0)>>
    ELSE IF f.t = "raw" \/ f.t = "optraw" THEN <<Part("raw", v, 0)>>
    ELSE IF f.t = "vb" \/ f.t = "optstr" THEN <<Part("len", EncVUB(U64(BLen(v))), BLen(v))>> \o (IF v = <<>> THEN <<>> ELSE <<Part("body", v, 0)>>)
    ELSE IF f.t = "key" THEN <<Part("len", EncVUB(U64(KeyLen[v])), KeyLen[v]), Part("body", Key(v), 0)>>
    ELSE IF f.t = "list" THEN <<Part("cnt:" \o f.c \o (IF f.q = "alloc" THEN ":alloc" ELSE ""), EncCount(f.c, Len(v)), Len(v))>>
                              \o Cat([i \in 1..Len(v) |-> PartsS(f.el, v[i])])
    ELSE PartsS(f.el, v)
PartsS(name, v) == LET sc == Schema[name] IN Cat([i \in 1..Len(sc) |-> PartsF(sc[i], v[i])])

(* ---- decoder ------------------------------------------------------------------------ *)
(* results: [v, p, e, h]; h = the identities computed on the way (tx: unsigned byte range; header: re-encoded unsigned fields) *)
D(v, p, e, h) == [v |-> v, p |-> p, e |-> e, h |-> h]
Fail(e) == D(<<>>, 0, e, <<>>)
Lift(r) == D(r.v, r.p, r.e, <<>>)
MinI(a, b) == IF a < b THEN a ELSE b

DecKey(s, L, pos) ==
    LET r == DecVB(s, L, pos) IN
    IF r.e # OK THEN r
    ELSE IF IsWholeTok(r.v) /\ r.v[1].k \in DOMAIN KeyLen /\ r.v[1].n = KeyLen[r.v[1].k] THEN R(r.v[1].k, r.p, OK)
    ELSE IF BLen(r.v) <= 3 THEN R(<<>>, pos, ERR)
    ELSE IF r.v[1].k = "" /\ r.v[1].b \notin KeyLabels THEN R(<<>>, pos, ERR)
    ELSE R(<<>>, pos, UNK)            \* the key library decides (it accepts trailing bytes after EC points)

DecCount(c, s, L, pos) == IF c = "vu" THEN DecVU(s, L, pos)
                          ELSE DecFix(s, L, pos, IF c = "u16" THEN 2 ELSE IF c = "u32" THEN 4 ELSE 8)
(* loop bound: every element consumes at least one byte, so L + 1 iterations always run into the end *)
Iter(cv, L) == IF Huge(cv) THEN L + 1 ELSE MinI(ToInt(cv), L + 1)
AllocPanics(cv) == Len(cv) = 8 /\ ~HiZero(cv, 7)       \* make([]Sig, l): l * 56 beyond the allocator's limit (>= 2^48 is certain)
AllocRisky(cv)  == Len(cv) = 8 /\ Huge(cv) /\ HiZero(cv, 7)   \* would really try to allocate gigabytes: never generated

RECURSIVE DecS(_, _, _, _), DecFieldsFrom(_, _, _, _, _, _), DecList(_, _, _, _, _), DecTxs(_, _, _, _, _, _)

DecField(f, s, L, pos) ==
    IF f.t = "fix" THEN LET r == DecFix(s, L, pos, f.w) IN
                        IF r.e = OK /\ f.ok # {} /\ r.v \notin f.ok THEN Fail(ERR) ELSE Lift(r)
    ELSE IF f.t = "bool" THEN Lift(DecBool(s, L, pos, "zc"))
    ELSE IF f.t = "raw" THEN Lift(DecRaw(s, L, pos, f.w))
    ELSE IF f.t = "optraw" THEN LET r == DecRaw(s, L, pos, f.w) IN IF r.e = ERR THEN D(Lit(f.w, 0), pos, OK, <<>>) ELSE Lift(r)
    ELSE IF f.t = "vb" THEN LET r == DecVB(s, L, pos) IN
                        IF r.e = OK /\ f.w >= 0 /\ BLen(r.v) > f.w THEN Fail(ERR) ELSE Lift(r)
    ELSE IF f.t = "optstr" THEN LET r == DecVB(s, L, pos) IN IF r.e = ERR THEN D(<<>>, pos, OK, <<>>) ELSE Lift(r)
    ELSE IF f.t = "key" THEN Lift(DecKey(s, L, pos))
    ELSE IF f.t = "sub" THEN DecS(f.el, s, L, pos)
    ELSE \* list
      LET c == DecCount(f.c, s, L, pos) IN
      IF c.e # OK THEN Fail(c.e)
      ELSE IF f.q = "alloc" /\ Repaired /\ GT(c.v, MaxSigs) THEN Fail(ERR)
      ELSE IF f.q = "alloc" /\ ~Repaired /\ AllocPanics(c.v) THEN Fail(PANIC)
      ELSE IF f.q = "alloc" /\ ~Repaired /\ AllocRisky(c.v) THEN Fail(UNK)
      ELSE IF f.q = "neg0" /\ Neg64(c.v) THEN D(<<>>, c.p, OK, <<>>)
      ELSE IF f.q = "clamp" /\ ~Repaired /\ Neg64(c.v) THEN Fail(PANIC)          \* NodeAddrs[:64] of an empty slice
      ELSE LET n == IF f.q = "clamp" /\ Repaired /\ GT(c.v, 64) THEN 64 ELSE Iter(c.v, L)
               r == DecList(f.el, n, s, L, c.p) IN
           IF r.e # OK \/ f.q # "clamp" \/ Len(r.v) <= 64 THEN r
           ELSE D(SubSeq(r.v, 1, 64), r.p, OK, r.h)

DecList(el, n, s, L, pos) ==
    IF n = 0 THEN D(<<>>, pos, OK, <<>>)
    ELSE LET r == DecS(el, s, L, pos) IN
         IF r.e # OK THEN Fail(r.e)
         ELSE LET rest == DecList(el, n - 1, s, L, r.p) IN
              IF rest.e # OK THEN rest ELSE D(<<r.v>> \o rest.v, rest.p, OK, r.h \o rest.h)

DecFieldsFrom(sc, i, to, s, L, pos) ==
    IF i > to THEN D(<<>>, pos, OK, <<>>)
    ELSE LET r == DecField(sc[i], s, L, pos) IN
         IF r.e # OK THEN Fail(r.e)
         ELSE LET rest == DecFieldsFrom(sc, i + 1, to, s, L, r.p) IN
              IF rest.e # OK THEN rest ELSE D(<<r.v>> \o rest.v, rest.p, OK, r.h \o rest.h)

(* Transaction.Deserialization *)
DecTx(s, L, pos) ==
    LET sc == Schema["tx"]
        u  == DecFieldsFrom(sc, 1, TxUnsignedN, s, L, pos) IN
    IF u.e # OK THEN u
    ELSE LET hr == Norm(Slice(s, pos, u.p))                      \* rawUnsigned = source[pstart, pos)
             g  == DecField(sc[TxUnsignedN + 1], s, L, u.p) IN
         IF g.e # OK THEN Fail(g.e)
         ELSE IF g.p - pos > MaxTxSize THEN Fail(ERR)
         ELSE D(u.v \o <<g.v>>, g.p, OK, <<hr>>)

(* Header.Deserialization; Hash() re-encodes the unsigned fields *)
DecHeader(s, L, pos) ==
    LET sc == Schema["header"]
        r  == DecFieldsFrom(sc, 1, Len(sc), s, L, pos) IN
    IF r.e # OK THEN r ELSE D(r.v, r.p, OK, <<HdrUnsigned(r.v)>>)

(* the root the header must carry: a token naming the transactions (by their identity) it was computed over *)
(* ---- sample values: transactions, signatures (shared with WireTable.tla) ----------------------- *)
SigV(keys, nsd, fill, m) == << [i \in 1..nsd |-> <<Lit(64, fill)>>], [i \in 1..Len(keys) |-> <<keys[i]>>], U16(m) >>
TxV(nonce, chain, gas, code, sigs) ==
    << <<0>>, <<209>>, nonce, chain, gas, gas, code, <<>>, Norm(Lit(10, 17) \o Lit(10, 34)), <<0>>, sigs >>
TxA(sigs) == TxV(U32(1), U64(2), U64(20000), FromBytes(<<1, 2, 3>>), sigs)
TxB(sigs) == TxV(U32(2), U64(2), U64(0), <<>>, sigs)
TxC(sigs) == TxV(U32(3), U64(2), U64(70000), Lit(253, 9), sigs)
S1  == SigV(<<"p1">>, 1, 161, 1)
S2  == SigV(<<"p1", "s1", "e1">>, 2, 162, 2)
S2r == SigV(<<"s1", "p1", "e1">>, 2, 163, 2)
S3  == SigV(<<"p2">>, 1, 164, 1)
UniTx == [a |-> TxA(<<>>), b |-> TxB(<<S3>>), c |-> TxC(<<S2>>)]       \* the universe of block members: letter -> transaction
UniLetters == DOMAIN UniTx
LetterOf(hr) == IF \E a \in UniLetters : TxUnsigned(UniTx[a]) = hr
                THEN CHOOSE a \in UniLetters : TxUnsigned(UniTx[a]) = hr ELSE "?"
RECURSIVE Letters(_)
Letters(hs) == IF hs = <<>> THEN "" ELSE LetterOf(hs[1]) \o Letters(Tail(hs))
RootBuf(hs) == IF hs = <<>> THEN Lit(32, 0) ELSE Tok("root:" \o Letters(hs), 32)
InSeq(x, q) == \E i \in 1..Len(q) : q[i] = x

DecTxs(n, s, L, pos, seen, acc) ==
    IF n = 0 THEN D(acc, pos, OK, seen)
    ELSE LET t == DecTx(s, L, pos) IN
         IF t.e # OK THEN Fail(t.e)
         ELSE IF InSeq(t.h[1], seen) THEN Fail(ERR)               \* duplicated transaction in block
         ELSE DecTxs(n - 1, s, L, t.p, Append(seen, t.h[1]), Append(acc, t.v))
DecBlock(s, L, pos) ==
    LET h == DecHeader(s, L, pos) IN
    IF h.e # OK THEN h
    ELSE LET c == DecFix(s, L, h.p, 4) IN
         IF c.e # OK THEN Fail(c.e)
         ELSE LET t == DecTxs(Iter(c.v, L), s, L, c.p, <<>>, <<>>) IN
              IF t.e # OK THEN t
              ELSE IF h.v[4] # RootBuf(t.h) THEN Fail(ERR)           \* mismatched transaction root
              ELSE D(<<h.v, t.v>>, t.p, OK, h.h \o t.h)

DecS(name, s, L, pos) ==
    IF name = "tx" THEN DecTx(s, L, pos)
    ELSE IF name = "header" THEN DecHeader(s, L, pos)
    ELSE IF name = "block" THEN DecBlock(s, L, pos)
    ELSE LET sc == Schema[name] IN DecFieldsFrom(sc, 1, Len(sc), s, L, pos)

(* entry points *)
Dec(entry, s) ==
    LET L == BLen(s) IN
    IF entry = "txraw" THEN (IF L > MaxTxSize THEN Fail(ERR) ELSE DecTx(s, L, 0))     \* TransactionFromRawBytes
    ELSE DecS(entry, s, L, 0)

(* ---- p2p frames ------------------------------------------------------------------------ *)
CmdBytes == [
  ping |-> <<112, 105, 110, 103>>, pong |-> <<112, 111, 110, 103>>, version |-> <<118, 101, 114, 115, 105, 111, 110>>,
  verack |-> <<118, 101, 114, 97, 99, 107>>, getaddr |-> <<103, 101, 116, 97, 100, 100, 114>>, addr |-> <<97, 100, 100, 114>>,
  getheaders |-> <<103, 101, 116, 104, 101, 97, 100, 101, 114, 115>>, headers |-> <<104, 101, 97, 100, 101, 114, 115>>,
  inv |-> <<105, 110, 118>>, getdata |-> <<103, 101, 116, 100, 97, 116, 97>>, blockmsg |-> <<98, 108, 111, 99, 107>>,
  txmsg |-> <<116, 120>>, consensus |-> <<99, 111, 110, 115, 101, 110, 115, 117, 115>>,
  getblocks |-> <<103, 101, 116, 98, 108, 111, 99, 107, 115>>, notfound |-> <<110, 111, 116, 102, 111, 117, 110, 100>>,
  disconnect |-> <<100, 105, 115, 99, 111, 110, 110, 101, 99, 116>>]
MsgNames == DOMAIN CmdBytes
RECURSIVE TrimRight0(_)
TrimRight0(bs) == IF bs # <<>> /\ bs[Len(bs)] = 0 THEN TrimRight0(SubSeq(bs, 1, Len(bs) - 1)) ELSE bs
FrameHdr(magic, cmd12, len4) == FromBytes(magic \o cmd12 \o len4) \o Tok("ck", 4)
WriteFrame(name, payload) == Norm(FrameHdr(Magic, Pad(CmdBytes[name], 12), U32(BLen(payload))) \o payload)

(* ReadMessage on a stream that ends after s; refp = the payload the checksum token "ck" was computed over *)
ReadFrame(s, refp) ==
    LET L == BLen(s) IN
    IF L < 24 THEN Fail(ERR)                                                   \* io.ReadFull(header)
    ELSE LET mg == DecFix(s, L, 0, 4)  cm == DecFix(s, L, 4, 12)  ln == DecFix(s, L, 16, 4)  ck == DecRaw(s, L, 20, 4) IN
    IF mg.e # OK \/ ln.e # OK THEN Fail(UNK)
    ELSE IF mg.v # Magic THEN Fail(ERR)
    ELSE IF GT(ln.v, MaxPayload) THEN Fail(ERR)
    ELSE IF 24 + ToInt(ln.v) > L THEN Fail(ERR)                               \* io.ReadFull(payload)
    ELSE LET pl == Norm(Slice(s, 24, 24 + ToInt(ln.v))) IN
    IF ~(IsWholeTok(ck.v) /\ ck.v[1].k = "ck" /\ pl = refp) THEN Fail(ERR)    \* checksum mismatch (free hash term)
    ELSE IF cm.e # OK THEN Fail(UNK)
    ELSE LET nm == TrimRight0(cm.v) IN
    IF ~(\E m \in MsgNames : CmdBytes[m] = nm) THEN Fail(ERR)                 \* unsupported cmd type
    ELSE LET m == CHOOSE m \in MsgNames : CmdBytes[m] = nm IN
         DecS(m, pl, BLen(pl), 0)
=============================================================================
