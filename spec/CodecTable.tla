---------------------------- MODULE CodecTable ----------------------------
(***************************************************************************)
(* C01 - the decision table over Codec.tla (pattern P-TABLE).              *)
(*                                                                         *)
(* A row is either                                                         *)
(*   "prog": a program of 1-3 typed items from the boundary-value menu,    *)
(*           encoded, and read back at a set of cuts (every cut for short  *)
(*           encodings, every item boundary -2..+9 for long ones);         *)
(*   "raw" : a program in which the leading encoding bytes of one item     *)
(*           were replaced (string length prefix made too large / 2^64-1 / *)
(*           wrapping, non-canonical var-uint forms, bool bytes >= 2).     *)
(* Implementation-shaped layer: DecItem / DecSeq (Codec.tla decoders in    *)
(* the order the code applies them, the two bool decoders as they are).    *)
(* Monitor layer: MustProg / MustRaw - what the property demands for the   *)
(* row, derived from how the row was built and not from the decoders:      *)
(*   "val"  the read must succeed with exactly this value and position;    *)
(*   "err"  the read must report an error (truncated / prefix > rest);     *)
(*   "free" anything but a panic (the property does not speak).            *)
(* PropC01: the decoders satisfy the monitor on every row and every cut.   *)
(* The driver replays every printed row on ZeroCopySink/Source and on      *)
(* serialization.Write / Read and is judged by the same monitor fields.    *)
(***************************************************************************)
EXTENDS Codec, Json

CONSTANTS Tier,     \* "quick" | "thorough"
          EmitOn    \* TRUE: print every row
VARIABLES sel, done
vars == <<sel, done>>

(* ---- items: [k |-> kind, v |-> value, w |-> length of a "bytes" read] ---- *)
It(k, v)  == [k |-> k, v |-> v, w |-> 0]
Blob(k, b) == [k |-> k, v |-> Norm(b), w |-> BLen(b)]
FixW == [u8 |-> 1, byte |-> 1, u16 |-> 2, i16 |-> 2, u32 |-> 4, i32 |-> 4, u64 |-> 8, i64 |-> 8]
IsFix(k) == k \in DOMAIN FixW
IsStr(k) == k \in {"varbytes", "string"}

Seq123(n) == [i \in 1..n |-> i]
F8(b) == [i \in 1..8 |-> b]

Menu == <<
  It("u8", <<0>>), It("u8", <<255>>), It("byte", <<127>>),
  It("u16", <<0, 0>>), It("u16", <<255, 255>>), It("u16", <<52, 18>>), It("i16", <<254, 255>>),
  It("u32", <<0, 0, 0, 0>>), It("u32", <<255, 255, 255, 255>>), It("u32", <<120, 86, 52, 18>>), It("i32", <<0, 0, 0, 128>>),
  It("u64", F8(0)), It("u64", F8(255)), It("u64", <<8, 7, 6, 5, 4, 3, 2, 1>>),
  It("i64", <<255, 255, 255, 255, 255, 255, 255, 127>>), It("i64", <<0, 0, 0, 0, 0, 0, 0, 128>>),
  It("varuint", F8(0)), It("varuint", Pad(<<1>>, 8)), It("varuint", Pad(<<252>>, 8)), It("varuint", Pad(<<253>>, 8)),
  It("varuint", Pad(<<254>>, 8)), It("varuint", Pad(<<255>>, 8)), It("varuint", Pad(<<255, 255>>, 8)),
  It("varuint", Pad(<<0, 0, 1>>, 8)), It("varuint", Pad(<<255, 255, 255, 255>>, 8)), It("varuint", Pad(<<0, 0, 0, 0, 1>>, 8)),
  It("varuint", <<0, 0, 0, 0, 0, 0, 0, 128>>), It("varuint", F8(255)),
  Blob("varbytes", <<>>), Blob("varbytes", Lit(1, 171)), Blob("varbytes", Lit(252, 171)), Blob("varbytes", Lit(253, 171)),
  Blob("varbytes", Lit(65535, 171)), Blob("varbytes", Lit(65536, 171)),
  Blob("varbytes", FromBytes(<<1, 2, 3>>)), Blob("varbytes", FromBytes(<<253>>)), Blob("varbytes", FromBytes(<<255, 255>>)),
  Blob("string", <<>>), Blob("string", FromBytes(<<97, 98, 99>>)), Blob("string", Lit(253, 122)),
  It("bool", <<0>>), It("bool", <<1>>),
  Blob("addr", FromBytes(Seq123(20))), Blob("hash", FromBytes([i \in 1..32 |-> 255 - i])),
  Blob("bytes", FromBytes(<<9, 8, 7, 6, 5>>))
>>
M == Len(Menu)

(* ---- implementation-shaped layer ---------------------------------------- *)
EncItem(it) == IF IsFix(it.k) \/ it.k = "bool" THEN EncFix(it.v)
               ELSE IF it.k = "varuint" THEN EncVUB(it.v)
               ELSE IF IsStr(it.k) THEN EncVB(it.v)
               ELSE it.v                                         \* addr, hash, bytes
DecItem(it, s, L, pos, codec) ==
               IF IsFix(it.k) THEN DecFix(s, L, pos, FixW[it.k])
               ELSE IF it.k = "bool" THEN DecBool(s, L, pos, codec)
               ELSE IF it.k = "varuint" THEN DecVU(s, L, pos)
               ELSE IF IsStr(it.k) THEN DecVB(s, L, pos)
               ELSE DecRaw(s, L, pos, IF it.k = "addr" THEN 20 ELSE IF it.k = "hash" THEN 32 ELSE it.w)
RECURSIVE DecSeqL(_, _, _, _, _, _)
DecSeqL(items, i, s, L, pos, codec) ==
    IF i > Len(items) THEN <<>>
    ELSE LET r == DecItem(items[i], s, L, pos, codec) IN
         IF r.e # OK THEN <<r>> ELSE <<r>> \o DecSeqL(items, i + 1, s, L, r.p, codec)
DecSeq(items, i, s, pos, codec) == DecSeqL(items, i, s, BLen(s), pos, codec)

EncProg(items) == Norm(Cat([i \in 1..Len(items) |-> EncItem(items[i])]))
RECURSIVE EndsFrom(_, _, _)
EndsFrom(items, i, acc) == IF i > Len(items) THEN <<>>
                           ELSE LET e == acc + BLen(EncItem(items[i])) IN <<e>> \o EndsFrom(items, i + 1, e)
Ends(items) == EndsFrom(items, 1, 0)

(* ---- monitor layer -------------------------------------------------------- *)
Must(m, v, p) == [m |-> m, v |-> v, p |-> p]
RECURSIVE MustProgFrom(_, _, _, _)
MustProgFrom(items, ends, i, c) ==
    IF i > Len(items) THEN <<>>
    ELSE IF ends[i] <= c THEN <<Must("val", items[i].v, ends[i])>> \o MustProgFrom(items, ends, i + 1, c)
    ELSE <<Must("err", <<>>, 0)>>
MustProg(items, c) == MustProgFrom(items, Ends(items), 1, c)

RECURSIVE SatFrom(_, _, _)
SatFrom(res, must, i) ==
    IF i > Len(must) THEN Len(res) = Len(must)
    ELSE IF must[i].m = "free" THEN TRUE
    ELSE /\ i <= Len(res)
         /\ IF must[i].m = "val" THEN res[i].e = OK /\ res[i].v = must[i].v /\ res[i].p = must[i].p
                                 ELSE res[i].e = ERR /\ Len(res) = i
         /\ (must[i].m = "val" => SatFrom(res, must, i + 1))
Sat(res, must) == SatFrom(res, must, 1)

(* ---- selections ------------------------------------------------------------ *)
ItemsOf(ix) == [n \in 1..Len(ix) |-> Menu[ix[n]]]
Outer == IF Tier = "quick" THEN {2, 6, 14, 20, 23, 28, 30, 32, 35, 39, 41, 43} ELSE 1..M
Mid   == IF Tier = "quick" THEN {1, 19, 20, 29, 33, 37, 42} ELSE 1..M
ProgSel == {<<i>> : i \in 1..M} \cup {<<i, j>> : i, j \in 1..M}
           \cup {<<i, j, k>> : i \in Outer, j \in Mid, k \in Outer}

Cuts(items) ==
    LET enc == EncProg(items)  L == BLen(enc)  es == Ends(items) IN
    IF L <= 24 \/ (Len(items) = 1 /\ L <= 300) THEN 0..L
    ELSE {c \in ({0, L, L \div 2} \cup UNION {{e + d : d \in (-2)..9} : e \in {0} \cup {es[i] : i \in 1..Len(es)}}) : c >= 0 /\ c <= L}

(* replacement bytes for the leading encoding bytes of item s of the program *)
Neg16(k) == LET m == 65536 - k IN <<m % 256, m \div 256, 255, 255, 255, 255, 255, 255>>   \* 2^64 - k, 1 <= k < 65536
StrX(n, off, rem) == <<                     \* n = real length, off = position of the prefix, rem = bytes after the prefix
    EncVU(U64(n + 1)), EncVU(U64(rem + 1)), <<253, 255, 255>>, <<254, 255, 255, 255, 255>>,
    <<255, 0, 0, 0, 0, 1, 0, 0, 0>>, <<255>> \o F8(255), <<255, 0, 0, 0, 0, 0, 0, 0, 128>>,
    <<255>> \o Neg16(off + 9), <<255>> \o Neg16(off + 10), <<255, 255, 255, 255, 127, 0, 0, 0, 0>>, <<254, 0, 0, 0, 128>>,
    IF n > 0 THEN EncVU(U64(n - 1)) ELSE <<0>>,
    IF n < 253 THEN <<253, n, 0>> ELSE EncVU(U64(n)),
    IF n < 65536 THEN <<254>> \o U32(n) ELSE EncVU(U64(n)) >>
NStrX == 14
VuX == << <<253, 5, 0>>, <<254, 5, 0, 0, 0>>, <<255, 5, 0, 0, 0, 0, 0, 0, 0>>, <<254, 255, 255, 0, 0>>, <<255, 255, 255, 255, 255, 0, 0, 0, 0>> >>
BoolX == << <<2>>, <<255>>, <<128>> >>
NX(k) == IF IsStr(k) THEN NStrX ELSE IF k = "varuint" THEN Len(VuX) ELSE Len(BoolX)

Targets == {i \in 1..M : IsStr(Menu[i].k)} \cup {17, 41}         \* every string item, one var-uint, one bool
Pres == {0, 6, 30}                                                \* nothing / a u16 / a one-byte string before
Sufs == {0, 2, 31, 43}                                            \* nothing / u8 / 252-byte string / address after
RawSel == {[kind |-> "raw", ix |-> (IF p = 0 THEN <<>> ELSE <<p>>) \o <<t>> \o (IF f = 0 THEN <<>> ELSE <<f>>),
            s |-> IF p = 0 THEN 1 ELSE 2, x |-> x] : p \in Pres, t \in Targets, f \in Sufs, x \in 1..NStrX}
ASSUME /\ Menu[17].k = "varuint" /\ Menu[41].k = "bool" /\ Menu[6].k = "u16" /\ Menu[30].k = "varbytes"
       /\ Menu[2].k = "u8" /\ Menu[31].k = "varbytes" /\ Menu[43].k = "addr" /\ M = 45

(* a raw row: the buffer, the monitor and the model's reads *)
RawParts(r) ==
    LET items == ItemsOf(r.ix)
        pre == Cat([i \in 1..(r.s - 1) |-> EncItem(items[i])])
        suf == Cat([i \in 1..(Len(items) - r.s) |-> EncItem(items[r.s + i])])
        t   == items[r.s]
        body == IF IsStr(t.k) THEN t.v ELSE <<>>
        off == BLen(pre)
        rem == BLen(body) + BLen(suf)
        xb  == IF IsStr(t.k) THEN StrX(BLen(t.v), off, rem)[r.x] ELSE IF t.k = "varuint" THEN VuX[r.x] ELSE BoolX[r.x]
        cnt == DecVU(FromBytes(xb), Len(xb), 0)
    IN [items |-> items, buf |-> Norm(pre \o FromBytes(xb) \o body \o suf), x |-> xb,
        must |-> [i \in 1..(r.s - 1) |-> Must("val", items[i].v, Ends(items)[i])]
                 \o <<IF IsStr(t.k) /\ cnt.e = OK /\ GT(cnt.v, rem) THEN Must("err", <<>>, 0) ELSE Must("free", <<>>, 0)>>]

Selections == [kind : {"prog"}, ix : ProgSel, s : {0}, x : {0}]
              \cup {r \in RawSel : r.x <= NX(Menu[r.ix[r.s]].k)}

(* ---- PropC01 ------------------------------------------------------------------ *)
(* the stream reader differs from the zero-copy reader only in the bool decoder *)
CodecsFor(items) == IF \E i \in 1..Len(items) : items[i].k = "bool" THEN {"zc", "st"} ELSE {"zc"}
PropProg(items) ==
    LET enc == EncProg(items)  es == Ends(items) IN
    /\ BLen(enc) = es[Len(items)]
    /\ \A c \in Cuts(items) : \A codec \in CodecsFor(items) :
          Sat(DecSeqL(items, 1, Take(enc, c), c, 0, codec), MustProgFrom(items, es, 1, c))
PropRaw(r) ==
    LET rp == RawParts(r) IN
    \A codec \in CodecsFor(rp.items) : Sat(DecSeq(rp.items, 1, rp.buf, 0, codec), rp.must)
PropC01 == IF sel.kind = "prog" THEN PropProg(ItemsOf(sel.ix)) ELSE IF sel.kind = "raw" THEN PropRaw(sel) ELSE TRUE

(* ---- table machine --------------------------------------------------------------- *)
IsBlobKind(k) == ~(IsFix(k) \/ k \in {"bool", "varuint"})
JV(k, v) == IF IsBlobKind(k) THEN J(v) ELSE v
JItems(items) == [i \in 1..Len(items) |-> [k |-> items[i].k, v |-> JV(items[i].k, items[i].v), w |-> items[i].w]]
JRes(items, res) == [i \in 1..Len(res) |-> [e |-> res[i].e, p |-> res[i].p,
                                           v |-> IF res[i].e = OK THEN JV(items[i].k, res[i].v) ELSE <<>>]]
JMust(items, must) == [i \in 1..Len(must) |-> [m |-> must[i].m, p |-> must[i].p,
                                              v |-> IF must[i].m = "val" THEN JV(items[i].k, must[i].v) ELSE <<>>]]
RowOut ==
    IF sel.kind = "prog"
    THEN LET items == ItemsOf(sel.ix) IN
         [kind |-> "prog", items |-> JItems(items), enc |-> J(EncProg(items)), ends |-> Ends(items),
          cuts |-> Cuts(items)]
    ELSE LET rp == RawParts(sel) IN
         [kind |-> "raw", items |-> JItems(rp.items), buf |-> J(rp.buf), s |-> sel.s, x |-> rp.x,
          must |-> JMust(rp.items, rp.must),
          zc |-> JRes(rp.items, DecSeq(rp.items, 1, rp.buf, 0, "zc")),
          st |-> JRes(rp.items, DecSeq(rp.items, 1, rp.buf, 0, "st"))]

(* two levels so that TLC's workers share the rows: Init fixes the first menu index, Pick the rest *)
Init == sel \in [kind : {"first"}, ix : {<<i>> : i \in 1..M}, s : {0}, x : {0}] /\ done = FALSE
Pick == /\ sel.kind = "first"
        /\ sel' \in {r \in Selections : r.ix[1] = sel.ix[1]}
        /\ UNCHANGED done
Decide == /\ sel.kind # "first" /\ ~done /\ done' = TRUE /\ UNCHANGED sel
          /\ (~EmitOn \/ PrintT(<<"ROW", ToJson(RowOut)>>))
Next == Pick \/ Decide
Spec == Init /\ [][Next]_vars
=============================================================================
