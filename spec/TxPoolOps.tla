------------------------------ MODULE TxPoolOps ------------------------------
(***************************************************************************)
(* C37 - sequential semantics of txnpool/common.TXPool, one operator per   *)
(* exported method (every method holds the pool mutex for its whole body,  *)
(* so each is one atomic step).  No variables: the operators are shared by *)
(*   TxPoolSeq      (P-MC of client interleavings, P-EDGE generation),     *)
(*   TraceTxPool    (linearizability search over recorded histories),      *)
(*   TxPool         (the server pipeline around the pool).                 *)
(*                                                                         *)
(* A pool is a function  hash -> height at which the stateful validator    *)
(* verified the transaction.  Hashes are the strings "t1", "t2", ...       *)
(* Being a function, the pool cannot hold one hash twice; what the code    *)
(* must do for that is visible in the answers: Add of a present hash       *)
(* returns FALSE and leaves the entry as it was, listings never repeat a   *)
(* hash, Count equals the number of distinct hashes.                       *)
(*                                                                         *)
(* Two answer relations for the two listing calls:                         *)
(*   GetImpl / UnvImpl : what the code's loop can return (any map          *)
(*                       iteration order) - the implementation-shaped model*)
(*   GetMon  / UnvMon  : what the property promises and nothing more       *)
(*                       (the monitor); TxPoolSeq checks Impl => Mon.      *)
(***************************************************************************)
EXTENDS Integers, Sequences, FiniteSets, TLC

CONSTANTS Tx,      \* transaction hashes (strings)
          MaxH,    \* heights are 0..MaxH
          MAXTX    \* config.DefConfig.Consensus.MaxTxInBlock (0 = unlimited)

Heights == 0..MaxH
EmptyPool == [t \in {} |-> 0]
Range(s) == {s[i] : i \in 1..Len(s)}
NoRepeat(s) == Cardinality(Range(s)) = Len(s)
Size(p) == Cardinality(DOMAIN p)

(* AddTxList: FALSE and no change when the hash is present *)
PAdd(p, t, h) == IF t \in DOMAIN p THEN p ELSE [x \in DOMAIN p \cup {t} |-> IF x = t THEN h ELSE p[x]]
PAddRet(p, t) == t \notin DOMAIN p
(* CleanTransactionList / DelTxList / Remain *)
PRemove(p, S) == [x \in DOMAIN p \ S |-> p[x]]
PDelRet(p, t) == t \in DOMAIN p

Fresh(p, h) == {t \in DOMAIN p : p[t] >= h}
Stale(p, h) == {t \in DOMAIN p : p[t] < h}

(* GetTxPool(byCount, height): answer = (txs, old), both as sets of hashes *)
GetCount(p, by) == IF by /\ MAXTX > 0 /\ Size(p) >= MAXTX THEN MAXTX ELSE Size(p)
GetImpl(p, by, h, txs, old) ==
    LET c == GetCount(p, by) IN
    IF Cardinality(Fresh(p, h)) < c
    THEN txs = Fresh(p, h) /\ old = Stale(p, h)                       \* the loop saw every entry
    ELSE Cardinality(txs) = c /\ txs \subseteq Fresh(p, h) /\ old \subseteq Stale(p, h)   \* stopped at the c-th fresh one
GetMon(p, by, h, txs, old) ==
    /\ txs \subseteq Fresh(p, h)                       \* all verified at or after the requested height
    /\ (by /\ MAXTX > 0) => Cardinality(txs) <= MAXTX  \* at most the configured number
    /\ old \subseteq Stale(p, h)                       \* only genuinely older ones are reported ...
    /\ (Cardinality(txs) < GetCount(p, by)) => old = Stale(p, h)   \* ... and all of them unless the answer is full

(* GetUnverifiedTxs(list, height): walks the list in order; an entry older than the height is removed from *)
(* the pool and reported in old; r = [pool, ver (seq of [t,h]), unv (seq), old (seq)]                      *)
RECURSIVE UnvWalk(_, _, _, _)
UnvWalk(p, list, h, acc) ==
    IF list = <<>> THEN [pool |-> p, ver |-> acc.ver, unv |-> acc.unv, old |-> acc.old]
    ELSE LET t == Head(list) IN
         IF t \notin DOMAIN p THEN UnvWalk(p, Tail(list), h, [acc EXCEPT !.unv = Append(@, t)])
         ELSE IF p[t] < h THEN UnvWalk(PRemove(p, {t}), Tail(list), h, [acc EXCEPT !.old = Append(@, t)])
         ELSE UnvWalk(p, Tail(list), h, [acc EXCEPT !.ver = Append(@, [t |-> t, h |-> p[t]])])
PUnv(p, list, h) == UnvWalk(p, list, h, [ver |-> <<>>, unv |-> <<>>, old |-> <<>>])
(* monitor for a duplicate-free list: the three answers partition the list by pool membership and age, and *)
(* exactly the old ones leave the pool                                                                      *)
UnvMon(p, list, h, r) ==
    NoRepeat(list) =>
      /\ {v.t : v \in Range(r.ver)} = Range(list) \cap Fresh(p, h)
      /\ \A v \in Range(r.ver) : v.h = p[v.t]
      /\ Range(r.old) = Range(list) \cap Stale(p, h)
      /\ Range(r.unv) = Range(list) \ DOMAIN p
      /\ r.pool = PRemove(p, Range(list) \cap Stale(p, h))

(* sequences over Tx up to length n (block transaction lists) *)
SeqsUpTo(n) == UNION {[1..k -> Tx] : k \in 0..n}
=============================================================================
