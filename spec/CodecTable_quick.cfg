SPECIFICATION Spec
CONSTANTS Tier = "quick"
          EmitOn = TRUE
INVARIANT PropC01
CHECK_DEADLOCK FALSE
