SPECIFICATION TraceSpec
CONSTANTS N = 4
          C = 1
          Props = {1, 2}
          Endrs = {2, 3, 4}
          VerifyCarried = TRUE
          MaxMsgs = 100
          Alpha = {}
          EmitOn = FALSE
CONSTRAINT HighWater
POSTCONDITION Accepted
CHECK_DEADLOCK FALSE
