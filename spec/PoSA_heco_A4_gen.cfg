\* C29 PoSA: family heco, chain configuration A (MCPoSA!SetsA), mode gen
SPECIFICATION Spec
CONSTANTS Family = "heco"
          Epoch = 0
          CliqueFixed = FALSE
          Sets <- SetsA
          GenesisSigner = "c"
          G0 = 200
          Keys = {"a", "b", "c", "d", "x"}
          Diffs = {1, 2}
          Defects <- AllDefects
          MaxStored = 4
          MaxLen = 5
          EmitOn = TRUE
          Sprint = 0
          SpanEnd = 0
          TwoBranch = FALSE
          TraceLen = 0
VIEW View
INVARIANT PropC29
INVARIANT ModelSane
INVARIANT ModelEquiv
CHECK_DEADLOCK FALSE
