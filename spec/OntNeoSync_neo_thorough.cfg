SPECIFICATION Spec
CONSTANTS Chain = "neo"
          MaxH = 4
          Pairs = TRUE
          EmitOn = TRUE
VIEW View
INVARIANT PropC31
PROPERTY NeoHeightMonotone
CHECK_DEADLOCK FALSE
