SPECIFICATION Spec
CONSTANTS EmitOn = TRUE
          Thorough = FALSE
          NPerm = 6
          NCombo = 3
          CutBound = 200
          ModelMut = "none"
INVARIANT PropRoundTrip
INVARIANT PropCanonical
INVARIANT PropTotal
CHECK_DEADLOCK FALSE
