SPECIFICATION Spec
CONSTANTS NTx = 2
          L1 = 4
          L2 = 1
          L3 = 0
          TopKeys = {"a", "b"}
          SubKeys = {"a"}
          PriorKeys = {"a"}
          TopOps = {"put", "del", "get", "notify"}
          SubOps = {"put", "get", "rec", "notify"}
          MinCalls = 0
          MaxCalls = 0
          CallTxs = 0
          SubMax = 1
          Depth = 0
          AllowCatch = FALSE
          RestoreOnError = TRUE
          Runs = 1
          Clock = {0}
          EmitOn = TRUE
INVARIANT PropC15
INVARIANT OverlayClean
INVARIANT PropC16
CHECK_DEADLOCK FALSE
