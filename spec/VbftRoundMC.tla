---------------------------- MODULE VbftRoundMC ----------------------------
(* Message alphabets for the runs of VbftRound (cfg: Alpha <- ...).  Peers 1..N; Props and Endrs come from the cfg. *)
EXTENDS VbftRound

Prop1(P)   == {Act("P", p, p, FALSE, {}, {}) : p \in P}
Prop2(P)   == {Act("P2", p, p, FALSE, {}, {}) : p \in P}
End(X, P)  == {Act("E", x, p, e, {}, {}) : x \in X, p \in P, e \in BOOLEAN}
Com(X, P, Emb) == {Act("C", c, p, e, em[1] \ {c}, em[2] \ {c}) : c \in X, p \in P, e \in BOOLEAN, em \in Emb}
Bad(X, P)  == {Act("BE", x, p, FALSE, {}, {}) : x \in X, p \in P} \cup {Act("BC", x, p, FALSE, {}, {}) : x \in X, p \in P}

\* N = 4: endorsement-centred (duplicates, equivocation, empty votes; plain commits replace a committer's endorsements)
A4End == Prop1({1, 2}) \cup Prop2({1}) \cup End({1, 3, 4}, {1, 2}) \cup Com({3, 4}, {1, 2}, {<<{}, {}>>}) \cup Bad({3}, {1})
\* N = 4: commit-centred (carried endorser entries: genuine, not signatures of the named endorser, mixed)
A4Com == Prop1({1, 2}) \cup End({3, 4}, {1}) \cup
         Com({2, 3}, {1, 2}, {<<{}, {}>>, <<{4}, {}>>, <<{}, {4}>>, <<{1}, {4}>>})
\* the same without entries that are not signatures (model checking of the monitor)
A4ComGenuine == Prop1({1, 2}) \cup End({3, 4}, {1}) \cup
         Com({2, 3}, {1, 2}, {<<{}, {}>>, <<{4}, {}>>, <<{1, 4}, {}>>})
\* N = 7, C = 2 (thresholds: 3 endorsers; 4 signers in commit messages; 5 endorsers on the fallback path)
A7Mix == Prop1({1, 2}) \cup End({3, 4}, {1}) \cup End({3}, {2}) \cup
         Com({5, 6}, {1}, {<<{}, {}>>, <<{3, 4}, {}>>, <<{3}, {4}>>}) \cup Com({7}, {1}, {<<{}, {}>>})
A7Genuine == Prop1({1, 2}) \cup End({3, 4}, {1}) \cup End({3}, {2}) \cup
         Com({5, 6}, {1}, {<<{}, {}>>, <<{3, 4}, {}>>, <<{3}, {}>>}) \cup Com({7}, {1}, {<<{}, {}>>})
=============================================================================
