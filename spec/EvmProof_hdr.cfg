\* C23 EvmProof, quorum: the header travels with the claim; validator set tracked from height 200; deposits from 203
SPECIFICATION Spec
CONSTANTS Mode = "header"
          G0 = 200
          Best = 206
          Wait = 1
          ForkAt = 203
          DepositAt = 203
          LeadZ = 1
          Heights = {199, 200, 202, 203, 210}
          EmitOn = TRUE
INVARIANT PropC23
CHECK_DEADLOCK FALSE
