SPECIFICATION Spec
CONSTANTS Tx = {"t1", "t2"}
          MaxH = 1
          MAXTX = 1
          CAP = 100
          LIMIT = 100
          PreExec = FALSE
          Eager = TRUE
          Acts = {"admit", "rsp", "getpool", "verifyblock", "blocksaved"}
          ListLen = 1
          Depth = 3
          EmitOn = TRUE
VIEW View
CONSTRAINT Bound
CHECK_DEADLOCK FALSE
