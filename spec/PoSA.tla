-------------------------------- MODULE PoSA --------------------------------
(***************************************************************************)
(* C29 - proof-of-staked-authority light clients                           *)
(*   native/service/header_sync/{bsc,bytom,heco,hsc,pixiechain}/header_sync.go *)
(*                                                                         *)
(* A header is identified by its content, and its content by the path from *)
(* the trusted genesis header: a sequence of elements [s, d, a]            *)
(*   s  name of the key that sealed it (= coinbase),                       *)
(*   d  difficulty field,                                                  *)
(*   a  0, or the index (in Sets) of the validator list carried in the     *)
(*      extra data (an "epoch announcement": the code recognises one by    *)
(*      the presence of validator bytes, not by number % epoch).           *)
(* Genesis is the empty path <<>>; Num(p) = G0 + Len(p).                   *)
(*                                                                         *)
(* Implementation-shaped part (what SyncBlockHeader does, in its order):   *)
(*   known header -> skipped; unknown parent -> skipped; basic/cascading   *)
(*   field checks and seal (abstracted into the defect tag f, one defect   *)
(*   at a time); getPrevHeightAndValidators: recent-signer look-back over  *)
(*   max(|phv|,|pphv|) div 2 ancestors, and the backward walk over the     *)
(*   stored EpochParentHash pointers (variable eph) that finds the last    *)
(*   two announcements phv / pphv; the set in turn (family "bsc": pphv     *)
(*   while Num - phv.h <= |pphv| div 2, else phv; families "heco","pixie": *)
(*   phv); "can not change epoch continuously" (bsc, heco; absent in       *)
(*   pixie); recent-signer limit |V| div 2; signer in V; difficulty 2 in   *)
(*   turn / 1 out of turn; addHeader: total difficulty, strictly greater   *)
(*   => delete assignments above, rewrite stale ones below, new head.      *)
(*                                                                         *)
(* Monitor part (PropC29, the listed property and nothing else): written   *)
(* independently of the pointer walk, as a forward snapshot recursion over *)
(* the ancestor path (SnapAfter / VRef / RecentRef / InTurnRef).           *)
(*                                                                         *)
(* Binding: P-EDGE (hist hidden by VIEW; every (state, submission) edge is *)
(* printed once with the history that reaches the state) and seeded        *)
(* simulation of long behaviours (P-REPLAY, Emit).                         *)
(***************************************************************************)
EXTENDS Integers, Sequences, FiniteSets, TLC, Json

CONSTANTS Family,        \* "bsc" | "heco" | "pixie"
          Sets,          \* sequence of validator lists; Sets[1] = the genesis PrevValidators entry (in effect
                         \* before the genesis announcement), Sets[2] = list in the genesis extra data,
                         \* Sets[3..] = lists later headers may announce
          GenesisSigner, \* coinbase of the genesis header
          G0,            \* number of the genesis header
          Keys,          \* names that may seal a header (validators and outsiders)
          Diffs,         \* difficulties tried for well-formed headers (subset of {1,2})
          Defects,       \* defect tags tried (each alone, on an otherwise acceptable header)
          MaxStored,     \* bound: stored non-genesis headers
          MaxLen,        \* bound: path length
          EmitOn,        \* print edges (generation run)
          TraceLen       \* length of the behaviours printed by a simulation run (SimSpec)

VARIABLES stored,   \* set of stored paths (always contains <<>>)
          eph,      \* stored non-genesis path -> path of its EpochParentHash target
          canon,    \* height -> set of paths (empty or singleton): the MAIN_CHAIN assignments
          cheight,  \* CURRENT_HEADER_HEIGHT
          hist      \* history of submissions (hidden by VIEW)

vars == <<stored, eph, canon, cheight, hist>>
View == <<stored, eph, canon, cheight>>

Heights == G0..(G0 + MaxLen + 1)
GenesisDiff == 2

Num(p)    == G0 + Len(p)
Parent(p) == SubSeq(p, 1, Len(p) - 1)
Last(p)   == p[Len(p)]
Prefix(p, n) == SubSeq(p, 1, n)
SignerOf(p) == IF p = <<>> THEN GenesisSigner ELSE Last(p).s
AnnOf(p)    == IF p = <<>> THEN 2 ELSE Last(p).a
RECURSIVE TD(_)
TD(p) == IF p = <<>> THEN GenesisDiff ELSE TD(Parent(p)) + Last(p).d
Size(i) == Len(Sets[i])
Member(k, i) == \E j \in 1..Size(i) : Sets[i][j] = k
\* position (0-based) of key k in list i, -1 if absent; lists are duplicate free (ASSUME below)
IndexOf(k, i) == IF Member(k, i) THEN (CHOOSE j \in 1..Size(i) : Sets[i][j] = k) - 1 ELSE -1
Max(a, b) == IF a >= b THEN a ELSE b

ASSUME /\ Len(Sets) >= 2
       /\ \A i \in 1..Len(Sets) : Size(i) >= 1 /\ \A j, k \in 1..Size(i) : Sets[i][j] = Sets[i][k] => j = k
       /\ Family \in {"bsc", "heco", "pixie"}

(***************************************************************************)
(* Implementation-shaped: getPrevHeightAndValidators                       *)
(***************************************************************************)
GenPV0 == [h |-> G0, set |-> 2, at |-> <<>>]
GenPV1 == [h |-> G0 - 1, set |-> 1, at |-> <<>>]     \* height only has to be below G0

\* cur: stored non-genesis header under examination; found: <<>> or <<phv>>
RECURSIVE Walk(_, _)
Walk(cur, found) ==
    LET has == Last(cur).a # 0
        rec == [h |-> Num(cur), set |-> Last(cur).a, at |-> cur]
    IN IF has /\ found # <<>> THEN [phv |-> found[1], pphv |-> rec]
       ELSE LET f1  == IF has THEN <<rec>> ELSE found
                nxt == eph[cur]
            IN IF nxt = <<>>
               THEN IF f1 = <<>> THEN [phv |-> GenPV0, pphv |-> GenPV1]
                                 ELSE [phv |-> f1[1], pphv |-> GenPV0]
               ELSE Walk(nxt, f1)

PV(parent) == IF parent = <<>> THEN [phv |-> GenPV0, pphv |-> GenPV1] ELSE Walk(parent, <<>>)

RECURSIVE Look(_, _, _)
Look(cur, s, n) == IF n <= 0 THEN -1
                   ELSE IF SignerOf(cur) = s THEN Num(cur)
                   ELSE IF cur = <<>> THEN -1
                   ELSE Look(Parent(cur), s, n - 1)

LastSeen(parent, s, pv) ==
    IF parent = <<>> THEN (IF GenesisSigner = s THEN G0 ELSE -1)
    ELSE IF SignerOf(parent) = s THEN Num(parent)
    ELSE Look(Parent(parent), s, (Max(Size(pv.phv.set), Size(pv.pphv.set)) \div 2) - 1)

\* the list the code takes as "in turn" for a header with this parent and number
InTurnSet(pv, n) ==
    IF Family = "bsc" /\ n - pv.phv.h <= Size(pv.pphv.set) \div 2 THEN pv.pphv.set ELSE pv.phv.set

Continuous(pv, n, a) ==      \* "can not change epoch continuously"
    /\ a # 0
    /\ \/ Family = "bsc"  /\ n - pv.phv.h <= Size(pv.pphv.set) \div 2
       \/ Family = "heco" /\ n - pv.phv.h <= Size(pv.phv.set) \div 2

\* verdict for a well-formed header (parent stored, not yet known)
ImplOK(parent, s, d, a) ==
    LET n   == Num(parent) + 1
        pv  == PV(parent)
        v   == InTurnSet(pv, n)
        ls  == LastSeen(parent, s, pv)
    IN /\ ~Continuous(pv, n, a)
       /\ ~(ls > 0 /\ n <= ls + (Size(v) \div 2))
       /\ Member(s, v)
       /\ d = (IF IndexOf(s, v) = n % Size(v) THEN 2 ELSE 1)

(***************************************************************************)
(* Reference semantics (monitor): forward snapshots along the ancestor path *)
(***************************************************************************)
Norm(sn, n) == IF sn.pend # 0 /\ n - sn.at > Size(sn.active) \div 2
               THEN [active |-> sn.pend, pend |-> 0, at |-> sn.at] ELSE sn
RECURSIVE SnapAfter(_)
SnapAfter(p) ==
    IF p = <<>> THEN (IF Family = "bsc" THEN [active |-> 1, pend |-> 2, at |-> G0]
                                        ELSE [active |-> 2, pend |-> 0, at |-> G0])
    ELSE LET sn == Norm(SnapAfter(Parent(p)), Num(p))
         IN IF Last(p).a = 0 THEN sn
            ELSE IF Family = "bsc" THEN [active |-> sn.active, pend |-> Last(p).a, at |-> Num(p)]
                                   ELSE [active |-> Last(p).a, pend |-> 0, at |-> Num(p)]
\* validator list in effect for a header with this parent
VRef(parent) == Norm(SnapAfter(parent), Num(parent) + 1).active

RECURSIVE SealedWithin(_, _, _)      \* did s seal one of the last w headers ending at p (genesis included)?
SealedWithin(p, s, w) == IF w <= 0 THEN FALSE
                         ELSE IF SignerOf(p) = s THEN TRUE
                         ELSE IF p = <<>> THEN FALSE
                         ELSE SealedWithin(Parent(p), s, w - 1)
RecentRef(parent, s) == SealedWithin(parent, s, Size(VRef(parent)) \div 2)
InTurnRef(parent, s) == IndexOf(s, VRef(parent)) = (Num(parent) + 1) % Size(VRef(parent))

\* what C29 demands of a header that gets stored, clause by clause
MonOf(parent, s, d, f) ==
    [par |-> parent \in stored,
     fmt |-> f = "ok",
     mem |-> Member(s, VRef(parent)),
     rec |-> RecentRef(parent, s),
     dif |-> d = (IF InTurnRef(parent, s) THEN 2 ELSE 1)]
Allowed(parent, s, d, f) == LET m == MonOf(parent, s, d, f) IN m.par /\ m.fmt /\ m.mem /\ ~m.rec /\ m.dif

PropHeaders == \A q \in stored : q # <<>> =>
    /\ Parent(q) \in stored
    /\ Member(Last(q).s, VRef(Parent(q)))
    /\ ~RecentRef(Parent(q), Last(q).s)
    /\ Last(q).d = (IF InTurnRef(Parent(q), Last(q).s) THEN 2 ELSE 1)

HeadSet == canon[cheight]
PropCanon ==
    /\ Cardinality(HeadSet) = 1
    /\ \A hd \in HeadSet :
          /\ hd \in stored
          /\ Num(hd) = cheight
          /\ \A q \in stored : TD(q) <= TD(hd)                                   \* highest total difficulty
          /\ \A k \in Heights : k <= cheight => canon[k] = {Prefix(hd, k - G0)}  \* gap free, ancestors of the head
PropC29 == PropHeaders /\ PropCanon

\* model sanity (not part of the property): pointers and no stale assignment above the head
ModelSane == /\ \A q \in stored : q # <<>> => eph[q] \in stored /\ Len(eph[q]) < Len(q)
             /\ \A k \in Heights : k > cheight => canon[k] = {}

(***************************************************************************)
(* Actions                                                                 *)
(***************************************************************************)
Init == /\ stored = {<<>>}
        /\ eph = [q \in {} |-> <<>>]
        /\ canon = [k \in Heights |-> IF k = G0 THEN {<<>>} ELSE {}]
        /\ cheight = G0
        /\ hist = <<>>

CurHead == CHOOSE hd \in canon[cheight] : TRUE

\* addHeader for the verified header q
AddHeader(q) ==
    LET n == Num(q)
        hd == CurHead
    IN /\ stored' = stored \cup {q}
       /\ eph' = (q :> PV(Parent(q)).phv.at) @@ eph
       /\ IF TD(q) > TD(hd)
          THEN LET \* last height (going down from n-1) whose assignment already is q's ancestor
                   K == CHOOSE k \in G0..(n - 1) :
                           /\ canon[k] = {Prefix(q, k - G0)}
                           /\ \A j \in (k + 1)..(n - 1) : canon[j] # {Prefix(q, j - G0)}
               IN /\ canon' = [k \in Heights |->
                                 IF k = n THEN {q}
                                 ELSE IF k > n THEN (IF \A j \in (n + 1)..k : canon[j] # {} THEN {} ELSE canon[k])
                                 ELSE IF k > K THEN {Prefix(q, k - G0)}
                                 ELSE canon[k]]
                  /\ cheight' = n
          ELSE UNCHANGED <<canon, cheight>>

Outcome(x) ==
    IF x.f = "ok" /\ Append(x.p, [s |-> x.s, d |-> x.d, a |-> x.a]) \in stored THEN "known"
    ELSE IF x.p \notin stored THEN "orphan"
    ELSE IF x.f # "ok" THEN "reject"
    ELSE IF ImplOK(x.p, x.s, x.d, x.a) THEN "store" ELSE "reject"

CanonSeq(c, ch) == [i \in 1..(ch - G0 + 1) |-> c[G0 + i - 1]]

Submit(x) ==
    LET out == Outcome(x)
        q   == Append(x.p, [s |-> x.s, d |-> x.d, a |-> x.a])
    IN /\ IF out = "store" THEN AddHeader(q) ELSE UNCHANGED <<stored, eph, canon, cheight>>
       /\ LET step == [x |-> x, out |-> out, mon |-> MonOf(x.p, x.s, x.d, x.f),
                       ch |-> cheight', canon |-> CanonSeq(canon', cheight'),
                       above |-> {k \in Heights : k > cheight' /\ canon'[k] # {}}]
          IN /\ hist' = Append(hist, step)
             /\ (~EmitOn \/ PrintT(<<"EDGE", ToJson([h |-> hist, e |-> step])>>))

\* model sanity, both directions: the implementation-shaped verdict (pointer walk, bounded look-back) coincides with
\* the reference clauses, up to the announcement-spacing rule, which is not part of C29
ModelEquiv == \A p \in stored : \A s \in Keys : \A d \in Diffs : \A a \in {0} \cup (3..Len(Sets)) :
                 Len(p) < MaxLen =>
                    (ImplOK(p, s, d, a) <=> (Allowed(p, s, d, "ok") /\ ~Continuous(PV(p), Num(p) + 1, a)))

\* candidate parents: every stored header that may still be extended, plus one unknown parent
OrphanParent == <<[s |-> GenesisSigner, d |-> 1, a |-> 0]>>       \* never stored (genesis signer is recent)
Parents == {p \in stored : Len(p) < MaxLen} \cup {OrphanParent}

Candidates ==
    {[p |-> p, s |-> s, d |-> d, a |-> a, f |-> "ok"] : p \in Parents, s \in Keys, d \in Diffs, a \in {0} \cup (3..Len(Sets))}
    \cup {x \in [p : stored, s : Keys, d : Diffs, a : {0}, f : Defects] :
             Len(x.p) < MaxLen /\ ImplOK(x.p, x.s, x.d, 0)}

NStored == Cardinality(stored) - 1
\* with MaxStored non-genesis headers stored, the non-storing edges are still explored (and printed)
Next == \E x \in Candidates :
           /\ (NStored >= MaxStored => Outcome(x) # "store")
           /\ Submit(x)

Spec == Init /\ [][Next]_vars

(***************************************************************************)
(* Simulation run (tlc -simulate, seeded): long behaviours, one submission *)
(* per step chosen at random, 7 times in 10 among the submissions that are *)
(* stored so that chains grow; after TraceLen submissions the behaviour is *)
(* printed and the state is reset, so one simulated run yields many        *)
(* behaviours.                                                             *)
(***************************************************************************)
SimStep == /\ Len(hist) < TraceLen
           /\ LET good == {x \in Candidates : Outcome(x) = "store" /\ NStored < MaxStored}
                  ok   == {x \in Candidates : NStored >= MaxStored => Outcome(x) # "store"}
                  pick == IF good # {} /\ RandomElement(1..10) <= 7 THEN RandomElement(good) ELSE RandomElement(ok)
              IN Submit(pick)
SimDone == /\ Len(hist) = TraceLen
           /\ PrintT(<<"TRACE", ToJson(hist)>>)
           /\ stored' = {<<>>}
           /\ eph' = [q \in {} |-> <<>>]
           /\ canon' = [k \in Heights |-> IF k = G0 THEN {<<>>} ELSE {}]
           /\ cheight' = G0
           /\ hist' = <<>>
SimSpec == Init /\ [][SimStep \/ SimDone]_vars
=============================================================================
