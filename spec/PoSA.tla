-------------------------------- MODULE PoSA --------------------------------
(***************************************************************************)
(* C29 - proof-of-staked-authority light clients                           *)
(*   native/service/header_sync/{bsc,bytom,heco,hsc,pixiechain,msc}/header_sync.go *)
(*   native/service/header_sync/polygon/bor_header_sync.go                 *)
(* One constant Family per rule set: "bsc" (bsc, bytom), "heco" (heco,     *)
(* hsc), "pixie", "clique" (msc; see CliqueOK) and "bor" (see BorOK).  The *)
(* description below is the bsc-family shape; the other two families       *)
(* replace the verdict operator and share headers, storage and fork choice.*)
(*                                                                         *)
(* A header is identified by its content, and its content by the path from *)
(* the trusted genesis header: a sequence of elements [s, d, a]            *)
(*   s  name of the key that sealed it (= coinbase),                       *)
(*   d  difficulty field,                                                  *)
(*   a  0, or the index (in Sets) of the validator list carried in the     *)
(*      extra data (an "epoch announcement": the code recognises one by    *)
(*      the presence of validator bytes, not by number % epoch).           *)
(* Genesis is the empty path <<>>; Num(p) = G0 + Len(p).                   *)
(*                                                                         *)
(* Implementation-shaped part (what SyncBlockHeader does, in its order):   *)
(*   known header -> skipped; unknown parent -> skipped; basic/cascading   *)
(*   field checks and seal (abstracted into the defect tag f, one defect   *)
(*   at a time); getPrevHeightAndValidators: recent-signer look-back over  *)
(*   max(|phv|,|pphv|) div 2 ancestors, and the backward walk over the     *)
(*   stored EpochParentHash pointers (variable eph) that finds the last    *)
(*   two announcements phv / pphv; the set in turn (family "bsc": pphv     *)
(*   while Num - phv.h <= |pphv| div 2, else phv; families "heco","pixie": *)
(*   phv); "can not change epoch continuously" (bsc, heco; absent in       *)
(*   pixie); recent-signer limit |V| div 2; signer in V; difficulty 2 in   *)
(*   turn / 1 out of turn; addHeader: total difficulty, strictly greater   *)
(*   => delete assignments above, rewrite stale ones below, new head.      *)
(*                                                                         *)
(* Monitor part (PropC29, the listed property and nothing else): written   *)
(* independently of the pointer walk, as a forward snapshot recursion over *)
(* the ancestor path (SnapAfter / VRef / RecentRef / InTurnRef).           *)
(*                                                                         *)
(* Binding: P-EDGE (hist hidden by VIEW; every (state, submission) edge is *)
(* printed once with the history that reaches the state) and seeded        *)
(* simulation of long behaviours (P-REPLAY, Emit).                         *)
(***************************************************************************)
EXTENDS Integers, Sequences, FiniteSets, TLC, Json

CONSTANTS Family,        \* "bsc" | "heco" | "pixie" | "clique" | "bor"
          Epoch,         \* clique only: headers with Num % Epoch = 0 are checkpoints (0 for the other families)
          CliqueFixed,   \* clique only: FALSE = the code as it is (no signer-membership test in verifySeal, stale
                         \* lastSeenHeight short-cut in snapshot()); TRUE = with patches/fix-C29-msc-*.patch applied
          Sets,          \* sequence of validator lists; Sets[1] = the genesis PrevValidators entry (in effect
                         \* before the genesis announcement), Sets[2] = list in the genesis extra data,
                         \* Sets[3..] = lists later headers may announce
          GenesisSigner, \* coinbase of the genesis header
          G0,            \* number of the genesis header
          Keys,          \* names that may seal a header (validators and outsiders)
          Diffs,         \* difficulties tried for well-formed headers (subset of {1,2})
          Defects,       \* defect tags tried (each alone, on an otherwise acceptable header)
          MaxStored,     \* bound: stored non-genesis headers
          MaxLen,        \* bound: path length
          EmitOn,        \* print edges (generation run)
          Sprint,        \* bor only: > 0 = sprint length; a header with (Num + 1) % Sprint = 0 is a sprint-end header
          SpanEnd,       \* bor only: the stored Heimdall span is [G0, SpanEnd] with producers Sets[2]
          TwoBranch,     \* TRUE: fork-choice scenarios only (see Candidates)
          TraceLen       \* length of the behaviours printed by a simulation run (SimSpec)

VARIABLES stored,   \* set of stored paths (always contains <<>>)
          eph,      \* stored non-genesis path -> path of its EpochParentHash target
          canon,    \* height -> set of paths (empty or singleton): the MAIN_CHAIN assignments
          cheight,  \* CURRENT_HEADER_HEIGHT
          ever,     \* history variable: the headers that have been canonical head at some time
          hist      \* history of submissions (hidden by VIEW)

vars == <<stored, eph, canon, cheight, ever, hist>>
\* P-EDGE explores one history per VIEW value.  What the implementation may keep from a path beyond the model's state is
\* old canonical assignments, so the fork-choice scenarios (TwoBranch) distinguish states by the heads they went through:
\* "B took over from the longer A" and "A never was head" are different source states there.
View == <<stored, eph, canon, cheight, IF TwoBranch THEN ever ELSE {}>>

Heights == G0..(G0 + MaxLen + 1)
GenesisDiff == 2

Num(p)    == G0 + Len(p)
Parent(p) == SubSeq(p, 1, Len(p) - 1)
Last(p)   == p[Len(p)]
Prefix(p, n) == SubSeq(p, 1, n)
SignerOf(p) == IF p = <<>> THEN GenesisSigner ELSE Last(p).s
AnnOf(p)    == IF p = <<>> THEN 2 ELSE Last(p).a
RECURSIVE TD(_)
TD(p) == IF p = <<>> THEN GenesisDiff ELSE TD(Parent(p)) + Last(p).d
Size(i) == Len(Sets[i])
Member(k, i) == \E j \in 1..Size(i) : Sets[i][j] = k
\* position (0-based) of key k in list i, -1 if absent; lists are duplicate free (ASSUME below)
IndexOf(k, i) == IF Member(k, i) THEN (CHOOSE j \in 1..Size(i) : Sets[i][j] = k) - 1 ELSE -1
Max(a, b) == IF a >= b THEN a ELSE b

ASSUME /\ Len(Sets) >= 2
       /\ \A i \in 1..Len(Sets) : Size(i) >= 1 /\ \A j, k \in 1..Size(i) : Sets[i][j] = Sets[i][k] => j = k
       /\ Family \in {"bsc", "heco", "pixie", "clique", "bor"}
       /\ (Family = "clique") => (Epoch > 0 /\ G0 % Epoch = 0)
       /\ (Sprint > 0) => (Family = "bor" /\ G0 % Sprint = 0 /\ MaxLen < Sprint)

(***************************************************************************)
(* Implementation-shaped: getPrevHeightAndValidators                       *)
(***************************************************************************)
GenPV0 == [h |-> G0, set |-> 2, at |-> <<>>]
GenPV1 == [h |-> G0 - 1, set |-> 1, at |-> <<>>]     \* height only has to be below G0

\* cur: stored non-genesis header under examination; found: <<>> or <<phv>>
RECURSIVE Walk(_, _)
Walk(cur, found) ==
    LET has == Last(cur).a # 0
        rec == [h |-> Num(cur), set |-> Last(cur).a, at |-> cur]
    IN IF has /\ found # <<>> THEN [phv |-> found[1], pphv |-> rec]
       ELSE LET f1  == IF has THEN <<rec>> ELSE found
                nxt == eph[cur]
            IN IF nxt = <<>>
               THEN IF f1 = <<>> THEN [phv |-> GenPV0, pphv |-> GenPV1]
                                 ELSE [phv |-> f1[1], pphv |-> GenPV0]
               ELSE Walk(nxt, f1)

PV(parent) == IF parent = <<>> THEN [phv |-> GenPV0, pphv |-> GenPV1] ELSE Walk(parent, <<>>)

RECURSIVE Look(_, _, _)
Look(cur, s, n) == IF n <= 0 THEN -1
                   ELSE IF SignerOf(cur) = s THEN Num(cur)
                   ELSE IF cur = <<>> THEN -1
                   ELSE Look(Parent(cur), s, n - 1)

LastSeen(parent, s, pv) ==
    IF parent = <<>> THEN (IF GenesisSigner = s THEN G0 ELSE -1)
    ELSE IF SignerOf(parent) = s THEN Num(parent)
    ELSE Look(Parent(parent), s, (Max(Size(pv.phv.set), Size(pv.pphv.set)) \div 2) - 1)

\* the list the code takes as "in turn" for a header with this parent and number
InTurnSet(pv, n) ==
    IF Family = "bsc" /\ n - pv.phv.h <= Size(pv.pphv.set) \div 2 THEN pv.pphv.set ELSE pv.phv.set

Continuous(pv, n, a) ==      \* "can not change epoch continuously"
    /\ a # 0
    /\ \/ Family = "bsc"  /\ n - pv.phv.h <= Size(pv.pphv.set) \div 2
       \/ Family = "heco" /\ n - pv.phv.h <= Size(pv.phv.set) \div 2

(***************************************************************************)
(* Family "clique" (msc): the signer list is the one of the checkpoint      *)
(* genesis (votes are outside the modelled domain: no header casts one);   *)
(* checkpoint headers must repeat exactly that list, other headers carry   *)
(* none; recent limit |V| div 2 + 1 over the parent and |V| div 2 - 1 more *)
(* ancestors; in turn <=> position in the address-sorted list = Num % |V|. *)
(* Two deviations of the code are modelled and named, so that the monitor, *)
(* not the model, is what rejects them: (1) verifySeal never tests that    *)
(* the sealing key IS a signer (CliqueFixed = FALSE): a key outside the    *)
(* list is "out of turn" and passes with difficulty 1; (2) snapshot()      *)
(* returns the height of the nearest checkpoint header as lastSeenHeight   *)
(* when the same key sealed it, without searching the recent ancestors     *)
(* (CliqueStaleLastSeen): that key may seal consecutive headers.           *)
(***************************************************************************)
CliqueOK(parent, s, d, a) ==
    LET n  == Num(parent) + 1
        \* snapshot(): the backward walk ends at the nearest checkpoint header (ancestor or the parent itself); if THAT
        \* header was sealed by s, lastSeenHeight is its number and the function returns before looking at the recent
        \* ancestors at all - otherwise the parent and |V| div 2 - 1 further ancestors are searched
        cp == CHOOSE k \in 0..Len(parent) : /\ (G0 + k) % Epoch = 0
                                            /\ \A j \in (k + 1)..Len(parent) : (G0 + j) % Epoch # 0
        ls == IF ~CliqueFixed /\ SignerOf(Prefix(parent, cp)) = s THEN G0 + cp ELSE Look(parent, s, Size(2) \div 2)
    IN /\ a = (IF n % Epoch = 0 THEN 2 ELSE 0)
       /\ ~(ls > 0 /\ n < ls + (Size(2) \div 2) + 1)
       /\ (CliqueFixed => Member(s, 2))
       /\ d = (IF IndexOf(s, 2) = n % Size(2) THEN 2 ELSE 1)

(***************************************************************************)
(* Family "bor" (polygon), inside one sprint (no sprint boundary in the     *)
(* modelled heights, so the validator set and its proposer are those of    *)
(* the genesis snapshot; GenesisSigner names the proposer): the sealing    *)
(* key must be in the set, there is no recent-signer rule (bor has none),  *)
(* difficulty = |V| - succession, succession = distance from the proposer  *)
(* in the address-ordered list; no validator bytes outside sprint ends.    *)
(***************************************************************************)
Succession(s) == (IndexOf(s, 2) - IndexOf(GenesisSigner, 2) + Size(2)) % Size(2)
\* Sprint-end headers (no span proof supplied: validateHeaderExtraField with the STORED span): the producer list they
\* announce for the next sprint must be the stored span's producers and that span must cover block Num + 1
\* (span.StartBlock <= Num + 1 <= span.EndBlock).  Heights stay below the next sprint start (MaxLen), so the
\* proposer rotation at a sprint start is outside the domain.
SprintEnd(n) == Sprint > 0 /\ (n + 1) % Sprint = 0
BorAnnOK(n, a) == IF SprintEnd(n) THEN a = 2 /\ G0 <= n + 1 /\ n + 1 <= SpanEnd ELSE a = 0
BorOK(parent, s, d, a) == BorAnnOK(Num(parent) + 1, a) /\ Member(s, 2) /\ d = Size(2) - Succession(s)

\* the named deviation of snapshot(): s sealed the nearest checkpoint header, which lies outside the recent window
CliqueStaleLastSeen(parent, s) ==
    LET cp == CHOOSE k \in 0..Len(parent) : /\ (G0 + k) % Epoch = 0
                                            /\ \A j \in (k + 1)..Len(parent) : (G0 + j) % Epoch # 0
    IN SignerOf(Prefix(parent, cp)) = s /\ Num(parent) + 1 >= G0 + cp + (Size(2) \div 2) + 1

\* verdict for a well-formed header (parent stored, not yet known)
ImplOK(parent, s, d, a) ==
  IF Family = "clique" THEN CliqueOK(parent, s, d, a) ELSE IF Family = "bor" THEN BorOK(parent, s, d, a) ELSE
    LET n   == Num(parent) + 1
        pv  == PV(parent)
        v   == InTurnSet(pv, n)
        ls  == LastSeen(parent, s, pv)
    IN /\ ~Continuous(pv, n, a)
       /\ ~(ls > 0 /\ n <= ls + (Size(v) \div 2))
       /\ Member(s, v)
       /\ d = (IF IndexOf(s, v) = n % Size(v) THEN 2 ELSE 1)

(***************************************************************************)
(* Reference semantics (monitor): forward snapshots along the ancestor path *)
(***************************************************************************)
Norm(sn, n) == IF sn.pend # 0 /\ n - sn.at > Size(sn.active) \div 2
               THEN [active |-> sn.pend, pend |-> 0, at |-> sn.at] ELSE sn
RECURSIVE SnapAfter(_)
SnapAfter(p) ==
    IF Family \in {"clique", "bor"} THEN [active |-> 2, pend |-> 0, at |-> G0]
    ELSE IF p = <<>> THEN (IF Family = "bsc" THEN [active |-> 1, pend |-> 2, at |-> G0]
                                        ELSE [active |-> 2, pend |-> 0, at |-> G0])
    ELSE LET sn == Norm(SnapAfter(Parent(p)), Num(p))
         IN IF Last(p).a = 0 THEN sn
            ELSE IF Family = "bsc" THEN [active |-> sn.active, pend |-> Last(p).a, at |-> Num(p)]
                                   ELSE [active |-> Last(p).a, pend |-> 0, at |-> Num(p)]
\* validator list in effect for a header with this parent
VRef(parent) == Norm(SnapAfter(parent), Num(parent) + 1).active

RECURSIVE SealedWithin(_, _, _)      \* did s seal one of the last w headers ending at p (genesis included)?
SealedWithin(p, s, w) == IF w <= 0 THEN FALSE
                         ELSE IF SignerOf(p) = s THEN TRUE
                         ELSE IF p = <<>> THEN FALSE
                         ELSE SealedWithin(Parent(p), s, w - 1)
RecentRef(parent, s) == Family # "bor" /\ SealedWithin(parent, s, Size(VRef(parent)) \div 2)
InTurnRef(parent, s) == IndexOf(s, VRef(parent)) = (Num(parent) + 1) % Size(VRef(parent))
\* the difficulty the turn demands
WantDiff(parent, s) == IF Family = "bor" THEN Size(2) - Succession(s) ELSE IF InTurnRef(parent, s) THEN 2 ELSE 1

\* what C29 demands of a header that gets stored, clause by clause
MonOf(parent, s, d, a, f) ==
    [par |-> parent \in stored,
     fmt |-> f = "ok" /\ (Family = "clique" => a = (IF (Num(parent) + 1) % Epoch = 0 THEN 2 ELSE 0)) /\ (Family = "bor" => BorAnnOK(Num(parent) + 1, a)),
     mem |-> Member(s, VRef(parent)),
     rec |-> RecentRef(parent, s),
     dif |-> d = WantDiff(parent, s)]
Allowed(parent, s, d, a, f) == LET m == MonOf(parent, s, d, a, f) IN m.par /\ m.fmt /\ m.mem /\ ~m.rec /\ m.dif

PropHeaders == \A q \in stored : q # <<>> =>
    /\ Parent(q) \in stored
    /\ Member(Last(q).s, VRef(Parent(q)))
    /\ ~RecentRef(Parent(q), Last(q).s)
    /\ Last(q).d = WantDiff(Parent(q), Last(q).s)

HeadSet == canon[cheight]
PropCanon ==
    /\ Cardinality(HeadSet) = 1
    /\ \A hd \in HeadSet :
          /\ hd \in stored
          /\ Num(hd) = cheight
          /\ \A q \in stored : TD(q) <= TD(hd)                                   \* highest total difficulty
          /\ \A k \in Heights : k <= cheight => canon[k] = {Prefix(hd, k - G0)}  \* gap free, ancestors of the head
PropC29 == PropHeaders /\ PropCanon

\* model sanity (not part of the property): pointers and no stale assignment above the head
ModelSane == /\ \A q \in stored : q # <<>> => eph[q] \in stored /\ Len(eph[q]) < Len(q)
             /\ \A k \in Heights : k > cheight => canon[k] = {}

(***************************************************************************)
(* Actions                                                                 *)
(***************************************************************************)
Init == /\ stored = {<<>>}
        /\ eph = [q \in {} |-> <<>>]
        /\ canon = [k \in Heights |-> IF k = G0 THEN {<<>>} ELSE {}]
        /\ cheight = G0
        /\ ever = {<<>>}
        /\ hist = <<>>

CurHead == CHOOSE hd \in canon[cheight] : TRUE

\* addHeader for the verified header q
AddHeader(q) ==
    LET n == Num(q)
        hd == CurHead
    IN /\ stored' = stored \cup {q}
       /\ eph' = (q :> (IF Family \in {"clique", "bor"} THEN <<>> ELSE PV(Parent(q)).phv.at)) @@ eph
       /\ IF TD(q) > TD(hd)
          THEN LET \* last height (going down from n-1) whose assignment already is q's ancestor
                   K == CHOOSE k \in G0..(n - 1) :
                           /\ canon[k] = {Prefix(q, k - G0)}
                           /\ \A j \in (k + 1)..(n - 1) : canon[j] # {Prefix(q, j - G0)}
               IN /\ canon' = [k \in Heights |->
                                 IF k = n THEN {q}
                                 ELSE IF k > n THEN (IF \A j \in (n + 1)..k : canon[j] # {} THEN {} ELSE canon[k])
                                 ELSE IF k > K THEN {Prefix(q, k - G0)}
                                 ELSE canon[k]]
                  /\ cheight' = n
          ELSE UNCHANGED <<canon, cheight>>

Outcome(x) ==
    IF x.f = "ok" /\ Append(x.p, [s |-> x.s, d |-> x.d, a |-> x.a]) \in stored THEN "known"
    ELSE IF x.p \notin stored THEN "orphan"
    ELSE IF x.f # "ok" THEN "reject"
    ELSE IF ImplOK(x.p, x.s, x.d, x.a) THEN "store" ELSE "reject"

CanonSeq(c, ch) == [i \in 1..(ch - G0 + 1) |-> c[G0 + i - 1]]

Submit(x) ==
    LET out == Outcome(x)
        q   == Append(x.p, [s |-> x.s, d |-> x.d, a |-> x.a])
    IN /\ IF out = "store" THEN AddHeader(q) ELSE UNCHANGED <<stored, eph, canon, cheight>>
       /\ ever' = ever \cup canon'[cheight']
       /\ LET step == [x |-> x, out |-> out, mon |-> MonOf(x.p, x.s, x.d, x.a, x.f),
                       ch |-> cheight', canon |-> CanonSeq(canon', cheight'),
                       above |-> {k \in Heights : k > cheight' /\ canon'[k] # {}}]
          IN /\ hist' = Append(hist, step)
             \* an edge carries the submissions that lead to its source state (each of them was stored, and is an
             \* edge of its own elsewhere) and the full prediction for the submission under test
             /\ (~EmitOn \/ PrintT(<<"EDGE", ToJson([h |-> [i \in 1..Len(hist) |-> hist[i].x], e |-> step])>>))

\* model sanity, both directions: the implementation-shaped verdict (pointer walk, bounded look-back) coincides with
\* the reference clauses, up to the announcement-spacing rule, which is not part of C29
AnnChoices == {0} \cup (IF Family \in {"clique", "bor"} THEN {2} ELSE {}) \cup (3..Len(Sets))
ModelEquiv == \A p \in stored : \A s \in Keys : \A d \in Diffs : \A a \in AnnChoices :
                 Len(p) < MaxLen =>
                    (ImplOK(p, s, d, a) <=>
                        IF Family = "clique"
                        THEN /\ a = (IF (Num(p) + 1) % Epoch = 0 THEN 2 ELSE 0)
                             /\ (~RecentRef(p, s) \/ (~CliqueFixed /\ CliqueStaleLastSeen(p, s)))
                             /\ d = (IF InTurnRef(p, s) THEN 2 ELSE 1)
                             /\ (CliqueFixed => Member(s, 2))
                        ELSE IF Family = "bor" THEN Allowed(p, s, d, a, "ok")
                        ELSE (Allowed(p, s, d, a, "ok") /\ ~Continuous(PV(p), Num(p) + 1, a)))

\* candidate parents: every stored header that may still be extended, plus one unknown parent
OrphanParent == <<[s |-> GenesisSigner, d |-> 1, a |-> 0]>>       \* never stored (genesis signer is recent)
Parents == {p \in stored : Len(p) < MaxLen} \cup {OrphanParent}

AllCandidates ==
    {[p |-> p, s |-> s, d |-> d, a |-> a, f |-> "ok"] : p \in Parents, s \in Keys, d \in Diffs, a \in AnnChoices}
    \cup {x \in [p : stored, s : Keys, d : Diffs, a : {0}, f : Defects] :
             Len(x.p) < MaxLen /\ ImplOK(x.p, x.s, x.d, 0)}

(***************************************************************************)
(* TwoBranch: deep fork-choice scenarios at small cost.  Only submissions   *)
(* that get stored; the stored headers form at most two branches that fork *)
(* at the genesis header, and a branch keeps the difficulty it started     *)
(* with (a branch of in-turn / high-difficulty headers against a branch of *)
(* out-of-turn ones).  This reaches: a longer light fork, a shorter heavier*)
(* fork taking over (assignments above the new head must go), the longer   *)
(* fork overtaking again (the walk-back must rewrite down to the common    *)
(* ancestor) - with every interleaving of the two branches.                *)
(***************************************************************************)
IsLeaf(p) == p \in stored /\ \A q \in stored : q = <<>> \/ Parent(q) # p
Discipline(x) ==
    IF x.p = <<>> THEN Cardinality({q \in stored : Len(q) = 1}) < 2
    ELSE IsLeaf(x.p) /\ x.d = Last(x.p).d
Candidates ==
    IF TwoBranch
    THEN {x \in {[p |-> p, s |-> s, d |-> d, a |-> a, f |-> "ok"] : p \in stored, s \in Keys, d \in Diffs, a \in AnnChoices} :
             Len(x.p) < MaxLen /\ Discipline(x) /\ Append(x.p, [s |-> x.s, d |-> x.d, a |-> x.a]) \notin stored
             /\ ImplOK(x.p, x.s, x.d, x.a)}
    ELSE AllCandidates

NStored == Cardinality(stored) - 1
\* with MaxStored non-genesis headers stored, the non-storing edges are still explored (and printed)
Next == \E x \in Candidates :
           /\ (NStored >= MaxStored => Outcome(x) # "store")
           /\ Submit(x)

Spec == Init /\ [][Next]_vars

(***************************************************************************)
(* Simulation run (tlc -simulate, seeded): long behaviours, one submission *)
(* per step chosen at random, 7 times in 10 among the submissions that are *)
(* stored so that chains grow; after TraceLen submissions the behaviour is *)
(* printed and the state is reset, so one simulated run yields many        *)
(* behaviours.                                                             *)
(***************************************************************************)
SimStep == /\ Len(hist) < TraceLen
           /\ LET good == {x \in Candidates : Outcome(x) = "store" /\ NStored < MaxStored}
                  ok   == {x \in Candidates : NStored >= MaxStored => Outcome(x) # "store"}
                  pick == IF good # {} /\ RandomElement(1..10) <= 7 THEN RandomElement(good) ELSE RandomElement(ok)
              IN Submit(pick)
SimDone == /\ Len(hist) = TraceLen
           /\ PrintT(<<"TRACE", ToJson(hist)>>)
           /\ stored' = {<<>>}
           /\ eph' = [q \in {} |-> <<>>]
           /\ canon' = [k \in Heights |-> IF k = G0 THEN {<<>>} ELSE {}]
           /\ cheight' = G0
           /\ ever' = {<<>>}
           /\ hist' = <<>>
SimSpec == Init /\ [][SimStep \/ SimDone]_vars
=============================================================================
