SPECIFICATION Spec
CONSTANTS N = 0
          NMin = 0
          Adj = {}
          D0 = 1000000
          Rule = "eth"
          Family = "shortheavy-sample"
          LA = 10
          LB = 8
          AdjA <- AdjSlowest
          AdjB = 1
          InOrder = TRUE
          EmitOn = TRUE
CONSTRAINT Emit
INVARIANT PropC27
CHECK_DEADLOCK FALSE
