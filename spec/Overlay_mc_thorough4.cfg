SPECIFICATION Spec
CONSTANTS K = 4
          Vals = {"x"}
          Ranges = {12, 34, 23}
          WithBatch = FALSE
          Mode = "mc"
          Depth = 0
VIEW View
INVARIANT PropC10
INVARIANT PropC11
PROPERTY PropC10Step
CHECK_DEADLOCK FALSE
