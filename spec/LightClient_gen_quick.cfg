SPECIFICATION Spec
CONSTANTS Routers <- QuickRouters
          SyncRouters = {}
          Gen = {"g1", "g2"}
          Bad = {"bad"}
          Shape <- ShapeGuard
          D = 3
          MaxSync = 1
CONSTRAINT Emit
CHECK_DEADLOCK FALSE
