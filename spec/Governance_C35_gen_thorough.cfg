SPECIFICATION Spec
CONSTANTS NV = 5
          Mode = "C35"
          Areas = {"sc"}
          AltSp = TRUE
          MaxView = 1
          MaxHeight = 1
          MaxId = 2
          MaxSigns = 3
          NWho = 2
          Rich = TRUE
          EmitOn = TRUE
VIEW View
CONSTRAINT Bound
INVARIANT PropAll
INVARIANT TypeOK
CHECK_DEADLOCK FALSE
