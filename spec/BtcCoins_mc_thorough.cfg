SPECIFICATION Spec
CONSTANTS MaxOp = 4
          Vals = {1, 2, 3}
          Targets = {1, 2, 3, 4, 5}
          MinChanges = {0, 2}
INVARIANT PropC26
CHECK_DEADLOCK FALSE
