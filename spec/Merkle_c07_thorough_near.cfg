SPECIFICATION Spec
CONSTANTS Table = "c07"
          N = 33
          Sizes = {}
          Doubles = FALSE
          PoolMode = "near"
          Lab = "id"
          EmitOn = TRUE
INVARIANT PropC07
CHECK_DEADLOCK FALSE
