SPECIFICATION Spec
CONSTANTS MaxH = 3
          MaxCrash = 2
          MaxMut = 0
          MaxLen = 99
          Kinds = {}
          HdrOps = {}
          Paths = {"submit"}
          MixPaths = FALSE
          RecoverAsCoded = FALSE
          KeepTreeOnWipe = FALSE
          ParentByLookup = FALSE
          Mode = "crash"
CONSTRAINT Emit
CHECK_DEADLOCK FALSE
