SPECIFICATION TraceSpec
CONSTANTS Tx = {}
          MaxBlocks = 100000
CONSTRAINT HighWater
INVARIANT PropC38S
POSTCONDITION Accepted
CHECK_DEADLOCK FALSE
