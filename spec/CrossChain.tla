----------------------------- MODULE CrossChain -----------------------------
(***************************************************************************)
(* C20 C21 C22 - the cross-chain entrance                                  *)
(* (native/service/cross_chain_manager/entrance.go: ImportExTransfer,      *)
(*  BlackChain, WhiteChain, MakeTransaction; common/utils.go CheckDoneTx / *)
(*  PutDoneTx; side_chain_manager register / quit).                        *)
(*                                                                         *)
(* Abstract state                                                          *)
(*   registry  set of registered chains                                    *)
(*   black     set of blacklisted chains                                   *)
(*   done      set of <<source chain, cross-chain id>> already executed    *)
(*   requests  set of outbound request records; a record is the term       *)
(*             MV(tx, src, id, to, var) = ToMerkleValue(relay tx hash,     *)
(*             source chain, verified message); its storage key is         *)
(*             (to, tx)                                                    *)
(*   leaves    cross-state leaves committed by the current block (a        *)
(*             sequence of the same terms; the code hashes them)           *)
(*   height    relay-chain height class: routers in Gated are active only  *)
(*             from height 1 on (driver: 18 823 000 on main net)           *)
(*   ntx       number of relay transactions submitted so far (every import *)
(*             is its own transaction; tx = ntx + 1 names its hash)        *)
(*                                                                         *)
(* A message is (src, id, to, var): var distinguishes two different        *)
(* authenticated submissions carrying the same cross-chain id (another     *)
(* height / proof / payload).  ok says whether the submission is           *)
(* authentic (valid proof resp. a vote by a validator).                    *)
(*                                                                         *)
(* Implementation-shaped part: Import follows the entrance's order of      *)
(* checks (Why).  Monitor part: PropC20, PropC21, PropC22 are action       *)
(* properties over the observation obs' = what the entrance answered.      *)
(*                                                                         *)
(* Binding: P-EDGE (VIEW hides history, tx counter, requests, leaves:      *)
(* they never influence a guard) and P-VALIDATE of long random histories   *)
(* recorded from the real entrance (TraceCrossChain.tla).                  *)
(***************************************************************************)
EXTENDS Integers, Sequences, FiniteSets, TLC, Json

CONSTANTS Src,      \* source chains
          Tgt,      \* destination chains (may overlap Src)
          Ids,      \* cross-chain ids
          Vars,     \* variants of a message with the same id
          Gated,    \* source chains whose router has a start block
          MaxH,     \* height classes 0..MaxH
          EmitOn    \* "off" (model checking, trace validation), "edge" (print every edge)

VARIABLES registry, black, done, requests, leaves, height, ntx, obs, hist

Chains == Src \cup Tgt
state  == <<registry, black, done, requests, leaves, height>>
vars   == <<registry, black, done, requests, leaves, height, ntx, obs, hist>>
View   == <<registry, black, done, height>>

Active(s) == s \notin Gated \/ height >= 1

MV(tx, s, i, t, v) == [tx |-> tx, src |-> s, id |-> i, to |-> t, var |-> v]

GatesOk(s, t) == /\ s \notin black /\ s \in registry /\ Active(s)
                 /\ t \notin black /\ t \in registry

\* the entrance's order of checks (diagnostic only; the verdict is Why = "ok")
Why(s, i, t, ok) ==
    IF s \in black THEN "src-black"
    ELSE IF s \notin registry THEN "src-unregistered"
    ELSE IF ~Active(s) THEN "router-inactive"
    ELSE IF ~ok THEN "not-authentic"
    ELSE IF <<s, i>> \in done THEN "already-done"
    ELSE IF t \in black THEN "dst-black"
    ELSE IF t \notin registry THEN "dst-unregistered"
    ELSE "ok"

\* requests and leaves of the post-state are determined by the acc flags of the history (every accepted import adds
\* MV(tx, s, i, t, v) to both, newblock empties the leaves); they are left out of the printed edge to keep it short.
Post == [reg |-> registry', blk |-> black', done |-> done', h |-> height']

Record(step) ==
    /\ obs' = step
    /\ hist' = IF EmitOn = "off" THEN hist ELSE Append(hist, step)
    /\ (EmitOn # "edge" \/ PrintT(<<"EDGE", ToJson([h |-> hist, step |-> step, post |-> Post])>>))

Init == /\ registry = Chains /\ black = {} /\ done = {} /\ requests = {} /\ leaves = <<>>
        /\ height = 0 /\ ntx = 0 /\ obs = [act |-> "init"] /\ hist = <<>>

Import(s, i, t, v, ok) ==
    LET why == Why(s, i, t, ok)
        acc == why = "ok"
        tx  == ntx + 1
        mv  == MV(tx, s, i, t, v)
    IN /\ ntx' = tx
       /\ IF acc
          THEN /\ done' = done \cup {<<s, i>>}
               /\ requests' = requests \cup {mv}
               /\ leaves' = Append(leaves, mv)
          ELSE UNCHANGED <<done, requests, leaves>>
       /\ UNCHANGED <<registry, black, height>>
       /\ Record([act |-> "import", s |-> s, i |-> i, t |-> t, v |-> v, ok |-> ok, tx |-> tx, acc |-> acc, why |-> why])

Black(c) == /\ black' = black \cup {c}
            /\ UNCHANGED <<registry, done, requests, leaves, height, ntx>>
            /\ Record([act |-> "black", c |-> c])
White(c) == /\ black' = black \ {c}
            /\ UNCHANGED <<registry, done, requests, leaves, height, ntx>>
            /\ Record([act |-> "white", c |-> c])
Register(c) == /\ c \notin registry /\ registry' = registry \cup {c}
               /\ UNCHANGED <<black, done, requests, leaves, height, ntx>>
               /\ Record([act |-> "register", c |-> c])
Quit(c) == /\ c \in registry /\ registry' = registry \ {c}
           /\ UNCHANGED <<black, done, requests, leaves, height, ntx>>
           /\ Record([act |-> "quit", c |-> c])
NewBlock == /\ height' = IF height < MaxH THEN height + 1 ELSE height
            /\ leaves' = <<>>
            /\ UNCHANGED <<registry, black, done, requests, ntx>>
            /\ Record([act |-> "newblock"])

Next == \/ \E s \in Src, i \in Ids, t \in Tgt, v \in Vars, ok \in BOOLEAN : Import(s, i, t, v, ok)
        \/ \E c \in Chains : Black(c) \/ White(c) \/ Register(c) \/ Quit(c)
        \/ NewBlock

Spec == Init /\ [][Next]_vars

(* monitors (obs'.act = "init" only occurs when TraceCrossChain starts a new recorded run) ******************)
IsImport(o) == o.act = "import"

\* C20: accepted at most once; a repeat fails without side effects; done is marked exactly on acceptance
PropC20 == [][obs'.act = "init" \/ LET o == obs' IN
    /\ (IsImport(o) /\ o.acc) => (<<o.s, o.i>> \notin done /\ done' = done \cup {<<o.s, o.i>>})
    /\ (IsImport(o) /\ <<o.s, o.i>> \in done) => (~o.acc /\ state' = state)
    /\ (IsImport(o) /\ ~o.acc) => done' = done
    /\ ~IsImport(o) => done' = done]_vars

\* C21: gates; blacklisting effective for later imports, whitelisting restores
PropC21 == [][obs'.act = "init" \/ LET o == obs' IN
    /\ (IsImport(o) /\ ~GatesOk(o.s, o.t)) => (~o.acc /\ state' = state)
    /\ (IsImport(o) /\ GatesOk(o.s, o.t) /\ o.ok /\ <<o.s, o.i>> \notin done) => o.acc
    /\ o.act = "black" => black' = black \cup {o.c}
    /\ o.act = "white" => black' = black \ {o.c}
    /\ o.act \notin {"black", "white"} => black' = black]_vars

\* C22: exactly one request (keyed by destination and relay tx) = the committed leaf; nothing on failure
PropC22 == [][obs'.act = "init" \/ LET o == obs' IN
    /\ (IsImport(o) /\ o.acc) =>
          LET mv == MV(o.tx, o.s, o.i, o.t, o.v) IN
          /\ o.ok
          /\ \A r \in requests : ~(r.to = mv.to /\ r.tx = mv.tx)
          /\ requests' = requests \cup {mv}
          /\ leaves' = Append(leaves, mv)
    /\ (IsImport(o) /\ ~o.acc) => (requests' = requests /\ leaves' = leaves)
    /\ o.act = "newblock" => (requests' = requests /\ leaves' = <<>>)
    /\ o.act \notin {"import", "newblock"} => (requests' = requests /\ leaves' = leaves)]_vars

TypeOK == /\ registry \subseteq Chains /\ black \subseteq Chains
          /\ done \subseteq (Src \X Ids) /\ height \in 0..MaxH
          /\ \A r1, r2 \in requests : (r1.to = r2.to /\ r1.tx = r2.tx) => r1 = r2
          /\ \A r \in requests : <<r.src, r.id>> \in done

=============================================================================
