----------------------------- MODULE CrossChain -----------------------------
(***************************************************************************)
(* C20 C21 C22 - the cross-chain entrance                                  *)
(* (native/service/cross_chain_manager/entrance.go: ImportExTransfer,      *)
(*  BlackChain, WhiteChain, MakeTransaction; common/utils.go CheckDoneTx / *)
(*  PutDoneTx; side_chain_manager register / quit).                        *)
(*                                                                         *)
(* Abstract state                                                          *)
(*   registry  set of registered chains                                    *)
(*   black     set of blacklisted chains                                   *)
(*   done      set of <<source chain, cross-chain id>> already executed    *)
(*   requests  set of outbound request records; a record is the term       *)
(*             MV(tx, src, id, to, var) = ToMerkleValue(relay tx hash,     *)
(*             source chain, verified message); its storage key is         *)
(*             (to, tx)                                                    *)
(*   leaves    cross-state leaves committed by the current block (a        *)
(*             sequence of the same terms; the code hashes them)           *)
(*   height    relay-chain height class: routers in Gated are active only  *)
(*             from height 1 on (driver: 18 823 000 on main net)           *)
(*   ntx       number of relay transactions submitted so far (every import *)
(*             is its own transaction; tx = ntx + 1 names its hash)        *)
(*                                                                         *)
(* A message is (src, id, to, var): var distinguishes two different        *)
(* authenticated submissions carrying the same cross-chain id (another     *)
(* height / proof / payload).  ok says whether the submission is           *)
(* authentic (valid proof resp. a vote by a validator).                    *)
(*                                                                         *)
(* Implementation-shaped part: Import follows the entrance's order of      *)
(* checks (Why).  Monitor part: PropC20, PropC21, PropC22 are action       *)
(* properties over the observation obs' = what the entrance answered.      *)
(*                                                                         *)
(* Binding: P-EDGE (VIEW hides history, tx counter, requests, leaves:      *)
(* they never influence a guard) and P-VALIDATE of long random histories   *)
(* recorded from the real entrance (TraceCrossChain.tla).                  *)
(***************************************************************************)
EXTENDS Integers, Sequences, FiniteSets, TLC, Json

CONSTANTS Src,      \* source chains
          Tgt,      \* destination chains (may overlap Src)
          Ids,      \* cross-chain ids
          Vars,     \* variants of a message with the same id
          Gated,    \* source chains whose router has a start block
          MaxH,     \* height classes 0..MaxH
          EmitOn,   \* "off" (model checking, trace validation), "edge" (print every edge)
          GovChains, \* chains for which Black / White / Register / Quit are explored
          RelayOn,  \* TRUE: also explore relay transactions (two imports through NativeCall in one transaction)
          Silent    \* sources whose router answers a resubmission of an already released message with success and no
                    \* effect instead of an error (vote-based routers: late votes are ignored)

VARIABLES registry, black, done, requests, leaves, height, ntx, obs, hist

Chains == Src \cup Tgt
state  == <<registry, black, done, requests, leaves, height>>
vars   == <<registry, black, done, requests, leaves, height, ntx, obs, hist>>
View   == <<registry, black, done, height>>

Active(s) == s \notin Gated \/ height >= 1

MV(tx, s, i, t, v) == [tx |-> tx, src |-> s, id |-> i, to |-> t, var |-> v]

GatesOk(s, t) == /\ s \notin black /\ s \in registry /\ Active(s)
                 /\ t \notin black /\ t \in registry

\* the entrance's order of checks (diagnostic only; the verdict is Why = "ok")
WhyIn(dn, s, i, t, ok) ==
    IF s \in black THEN "src-black"
    ELSE IF s \notin registry THEN "src-unregistered"
    ELSE IF ~Active(s) THEN "router-inactive"
    ELSE IF ~ok THEN "not-authentic"
    ELSE IF <<s, i>> \in dn THEN "already-done"
    ELSE IF t \in black THEN "dst-black"
    ELSE IF t \notin registry THEN "dst-unregistered"
    ELSE "ok"
Why(s, i, t, ok) == WhyIn(done, s, i, t, ok)

\* requests and leaves of the post-state are determined by the acc flags of the history (every accepted import adds
\* MV(tx, s, i, t, v) to both, newblock empties the leaves); they are left out of the printed edge to keep it short.
Post == [reg |-> registry', blk |-> black', done |-> done', h |-> height']

Record(step) ==
    /\ obs' = step
    /\ hist' = IF EmitOn = "off" THEN hist ELSE Append(hist, step)
    /\ (EmitOn # "edge" \/ PrintT(<<"EDGE", ToJson([h |-> hist, step |-> step, post |-> Post])>>))

Init == /\ registry = Chains /\ black = {} /\ done = {} /\ requests = {} /\ leaves = <<>>
        /\ height = 0 /\ ntx = 0 /\ obs = [act |-> "init"] /\ hist = <<>>

Import(s, i, t, v, ok) ==
    LET why == Why(s, i, t, ok)
        acc == why = "ok"
        tx  == ntx + 1
        mv  == MV(tx, s, i, t, v)
    IN /\ ntx' = tx
       /\ IF acc
          THEN /\ done' = done \cup {<<s, i>>}
               /\ requests' = requests \cup {mv}
               /\ leaves' = Append(leaves, mv)
          ELSE UNCHANGED <<done, requests, leaves>>
       /\ UNCHANGED <<registry, black, height>>
       /\ Record([act |-> "import", s |-> s, i |-> i, t |-> t, v |-> v, ok |-> ok, tx |-> tx, acc |-> acc, why |-> why])

Black(c) == /\ black' = black \cup {c}
            /\ UNCHANGED <<registry, done, requests, leaves, height, ntx>>
            /\ Record([act |-> "black", c |-> c])
White(c) == /\ black' = black \ {c}
            /\ UNCHANGED <<registry, done, requests, leaves, height, ntx>>
            /\ Record([act |-> "white", c |-> c])
Register(c) == /\ c \notin registry /\ registry' = registry \cup {c}
               /\ UNCHANGED <<black, done, requests, leaves, height, ntx>>
               /\ Record([act |-> "register", c |-> c])
Quit(c) == /\ c \in registry /\ registry' = registry \ {c}
           /\ UNCHANGED <<black, done, requests, leaves, height, ntx>>
           /\ Record([act |-> "quit", c |-> c])
NewBlock == /\ height' = IF height < MaxH THEN height + 1 ELSE height
            /\ leaves' = <<>>
            /\ UNCHANGED <<registry, black, done, requests, ntx>>
            /\ Record([act |-> "newblock"])


(* A relay transaction: a contract (registered by the harness) performs two imports through NativeCall in ONE relay
   transaction, optionally after committing a cross-state leaf of its own (pre) and optionally ignoring the error of
   the second import (catch).  Both imports carry the same relay tx hash, hence different destinations (the request key
   is (to, tx)).  A refused first import, or a refused second one that is not caught, fails the whole transaction.
   Relayed second imports that a vote-based router would answer with "success, nothing done" (Silent) are left out: whether
   the relay sees an error there is not part of C20-C22.
   Second imports that would be refused only at the destination gates are left out: the handler has marked the message
   done by then and only the failure of the whole transaction undoes that (entrance order, not a property of C20-C22). *)
OwnLeaf(tx) == [tx |-> tx, src |-> "relay", id |-> "", to |-> "", var |-> 0]
Relay(a, b, pre, catch) ==
    LET tx   == ntx + 1
        wa   == Why(a.s, a.i, a.t, a.ok)
        dn1  == IF wa = "ok" THEN done \cup {<<a.s, a.i>>} ELSE done
        wb   == WhyIn(dn1, b.s, b.i, b.t, b.ok)
        txok == wa = "ok" /\ (wb = "ok" \/ catch)
        accB == txok /\ wb = "ok"
        mva  == MV(tx, a.s, a.i, a.t, a.v)
        mvb  == MV(tx, b.s, b.i, b.t, b.v)
    IN /\ RelayOn /\ a.ok /\ a.t # b.t /\ wb \notin {"dst-black", "dst-unregistered"}
       /\ wa = "ok"    \* a refused first import just fails the transaction
       /\ ~(b.s \in Silent /\ \E r \in requests : r.src = b.s /\ r.id = b.i /\ r.to = b.t /\ r.var = b.v)
       /\ ntx' = tx
       /\ IF txok
          THEN /\ done' = dn1 \cup (IF accB THEN {<<b.s, b.i>>} ELSE {})
               /\ requests' = requests \cup {mva} \cup (IF accB THEN {mvb} ELSE {})
               /\ leaves' = leaves \o (IF pre THEN <<OwnLeaf(tx)>> ELSE <<>>) \o <<mva>> \o (IF accB THEN <<mvb>> ELSE <<>>)
          ELSE UNCHANGED <<done, requests, leaves>>
       /\ UNCHANGED <<registry, black, height>>
       /\ Record([act |-> "relay", tx |-> tx, pre |-> pre, catch |-> catch, ok |-> txok,
                  a |-> [s |-> a.s, i |-> a.i, t |-> a.t, v |-> a.v, ok |-> a.ok, acc |-> txok, why |-> wa],
                  b |-> [s |-> b.s, i |-> b.i, t |-> b.t, v |-> b.v, ok |-> b.ok, acc |-> accB, why |-> wb]])
Imps == [s : Src, i : Ids, t : Tgt, v : Vars, ok : BOOLEAN]

\* unauthentic submissions are explored for the first variant only (they are refused before the variant matters)
MinVar == CHOOSE x \in Vars : \A y \in Vars : x <= y
Next == \/ \E s \in Src, i \in Ids, t \in Tgt, v \in Vars, ok \in BOOLEAN : (IF v = MinVar THEN TRUE ELSE ok) /\ Import(s, i, t, v, ok)
        \/ \E c \in GovChains : Black(c) \/ White(c) \/ Register(c) \/ Quit(c)
        \/ NewBlock
        \/ (RelayOn /\ \E a \in Imps, b \in Imps, pre \in BOOLEAN, catch \in BOOLEAN : Relay(a, b, pre, catch))

Spec == Init /\ [][Next]_vars

(* monitors (obs'.act = "init" only occurs when TraceCrossChain starts a new recorded run) ******************)
IsImport(o) == o.act = "import"
IsRelay(o)  == o.act = "relay"
AccParts(o) == {p \in {o.a, o.b} : p.acc}
SeqOf(S) == IF S = {} THEN <<>> ELSE LET x == CHOOSE y \in S : TRUE IN IF S = {x} THEN <<x>> ELSE <<x, CHOOSE y \in S : y # x>>
SameBag(q1, q2) == /\ Len(q1) = Len(q2)
                   /\ \A k \in 1..Len(q1) : Cardinality({j \in 1..Len(q1) : q1[j] = q1[k]}) = Cardinality({j \in 1..Len(q2) : q2[j] = q1[k]})

\* C20: accepted at most once; a repeat fails without side effects; done is marked exactly on acceptance
PropC20 == [][obs'.act = "init" \/ LET o == obs' IN
    /\ (IsImport(o) /\ o.acc) => (<<o.s, o.i>> \notin done /\ done' = done \cup {<<o.s, o.i>>})
    /\ (IsImport(o) /\ <<o.s, o.i>> \in done) => (~o.acc /\ state' = state)
    /\ (IsImport(o) /\ ~o.acc) => done' = done
    /\ IsRelay(o) => /\ done' = done \cup {<<p.s, p.i>> : p \in AccParts(o)}
                     /\ \A p \in AccParts(o) : <<p.s, p.i>> \notin done
                     /\ (o.a.acc /\ o.b.acc) => <<o.a.s, o.a.i>> # <<o.b.s, o.b.i>>
    /\ (~IsImport(o) /\ ~IsRelay(o)) => done' = done]_vars

\* C21: gates; blacklisting effective for later imports, whitelisting restores
PropC21 == [][obs'.act = "init" \/ LET o == obs' IN
    /\ (IsImport(o) /\ ~GatesOk(o.s, o.t)) => (~o.acc /\ state' = state)
    /\ (IsImport(o) /\ GatesOk(o.s, o.t) /\ o.ok /\ <<o.s, o.i>> \notin done) => o.acc
    /\ IsRelay(o) => \A p \in {o.a, o.b} : ~GatesOk(p.s, p.t) => ~p.acc
    /\ o.act = "black" => black' = black \cup {o.c}
    /\ o.act = "white" => black' = black \ {o.c}
    /\ o.act \notin {"black", "white"} => black' = black]_vars

\* C22: exactly one request (keyed by destination and relay tx) = the committed leaf; nothing on failure
PropC22 == [][obs'.act = "init" \/ LET o == obs' IN
    /\ (IsImport(o) /\ o.acc) =>
          LET mv == MV(o.tx, o.s, o.i, o.t, o.v) IN
          /\ o.ok
          /\ \A r \in requests : ~(r.to = mv.to /\ r.tx = mv.tx)
          /\ requests' = requests \cup {mv}
          /\ leaves' = Append(leaves, mv)
    /\ (IsImport(o) /\ ~o.acc) => (requests' = requests /\ leaves' = leaves)
    /\ o.act = "newblock" => (requests' = requests /\ leaves' = <<>>)
    /\ IsRelay(o) =>   \* one request and one leaf per accepted import, the relay's own leaf untouched, order free
          LET mvs == {MV(o.tx, p.s, p.i, p.t, p.v) : p \in AccParts(o)} IN
          /\ \A p \in AccParts(o) : p.ok
          /\ \A r \in requests : r.tx # o.tx
          /\ requests' = requests \cup mvs
          /\ Cardinality(mvs) = Cardinality(AccParts(o))
          /\ SameBag(leaves', leaves \o (IF o.ok /\ o.pre THEN <<OwnLeaf(o.tx)>> ELSE <<>>) \o SeqOf(mvs))
    /\ o.act \notin {"import", "newblock", "relay"} => (requests' = requests /\ leaves' = leaves)]_vars

TypeOK == /\ registry \subseteq Chains /\ black \subseteq Chains
          /\ done \subseteq (Src \X Ids) /\ height \in 0..MaxH
          /\ \A r1, r2 \in requests : (r1.to = r2.to /\ r1.tx = r2.tx) => r1 = r2
          /\ \A r \in requests : <<r.src, r.id>> \in done

=============================================================================
