SPECIFICATION Spec
CONSTANTS N = 9
          S = {0, 1, 3}
          D = {1, 2}
          EmitOn = TRUE
CONSTRAINT Emit
INVARIANT PropC11R
PROPERTY PropC11RStep
CHECK_DEADLOCK FALSE
