\* C29 PoSA: family bor (polygon, inside one sprint), chain configuration P (MCPoSA!SetsP; proposer b), mode sim
SPECIFICATION SimSpec
CONSTANTS Family = "bor"
          Epoch = 0
          CliqueFixed = FALSE
          Sets <- SetsP
          GenesisSigner = "b"
          G0 = 200
          Keys = {"a", "b", "c", "d", "x"}
          Diffs = {1, 2, 3}
          Defects <- BorDefects
          MaxStored = 14
          MaxLen = 9
          EmitOn = FALSE
          Sprint = 0
          SpanEnd = 0
          TwoBranch = FALSE
          TraceLen = 16
INVARIANT PropC29
INVARIANT ModelSane
CHECK_DEADLOCK FALSE
