SPECIFICATION Spec
CONSTANTS Routers <- AllRouters
          Actors <- AllActors
          CtxDepth = 2
          EmitOn = TRUE
INVARIANT PropC18
INVARIANT TableOK
CHECK_DEADLOCK FALSE
