SPECIFICATION Spec
CONSTANTS Routers <- AllRouters
          Actors <- AllActors
          ExtraActors = {"op1", "op4"}
          CtxDepth = 2
          EmitOn = TRUE
INVARIANT PropC18
INVARIANT TableOK
CHECK_DEADLOCK FALSE
