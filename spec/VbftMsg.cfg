SPECIFICATION Spec
CONSTANTS EmitOn = TRUE
          ModelMut = "none"
INVARIANT PropDispatch
INVARIANT PropRoundTrip
INVARIANT PropBind
INVARIANT PropLive
CHECK_DEADLOCK FALSE
