SPECIFICATION Spec
CONSTANTS Routers <- QuickRouters
          Actors <- AllActors
          CtxDepth = 2
          EmitOn = FALSE
INVARIANT PropC18
INVARIANT TableOK
CHECK_DEADLOCK FALSE
