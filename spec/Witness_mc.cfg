SPECIFICATION Spec
CONSTANTS Routers <- QuickRouters
          Actors <- AllActors
          ExtraActors = {"op1", "op4"}
          CtxDepth = 2
          EmitOn = FALSE
INVARIANT PropC18
INVARIANT TableOK
CHECK_DEADLOCK FALSE
