SPECIFICATION TraceSpec
CONSTANTS TMax = 12
CONSTRAINT HighWater
POSTCONDITION Accepted
CHECK_DEADLOCK FALSE
