------------------------------- MODULE Codec -------------------------------
(***************************************************************************)
(* C01 (and the base of C02 / C05) - byte-level wire primitives of         *)
(* common/zero_copy_sink.go, common/zero_copy_source.go and                *)
(* common/serialization/serialize.go.  Pure operators, no variables; the   *)
(* table machines are CodecTable.tla (C01) and Wire.tla (C02, C05).        *)
(*                                                                         *)
(* Bytes are 0..255.  Fixed-width integers are little-endian byte tuples   *)
(* (TLC integers are 32-bit: a uint64 is never a TLC integer).  A buffer   *)
(* is a run-length sequence of segments                                    *)
(*     [n |-> length, b |-> byte, k |-> "", o |-> 0]        literal run    *)
(*     [n |-> length, b |-> -1,  k |-> token, o |-> offset] opaque bytes   *)
(* so that a 65 536-byte string or a 30 MiB payload costs one segment and  *)
(* a public key / checksum / Merkle root is an opaque token of known       *)
(* length whose content only the driver knows (it is concretized with real *)
(* keys and real SHA-256).  Decoders are total and return                  *)
(*     [v |-> value, p |-> next position, e |-> "ok" | "err" | "unk"]      *)
(* "unk" = the decoder would have to interpret opaque token bytes as a     *)
(* number: the model makes no prediction there.                            *)
(***************************************************************************)
EXTENDS Integers, Sequences, FiniteSets, TLC, SequencesExt

OK  == "ok"
ERR == "err"
UNK == "unk"
R(v, p, e) == [v |-> v, p |-> p, e |-> e]

(* ---- byte tuples and 64-bit quantities --------------------------------- *)
Pad(bs, w) == [i \in 1..w |-> IF i <= Len(bs) THEN bs[i] ELSE 0]
U16(n) == <<n % 256, (n \div 256) % 256>>
U32(n) == <<n % 256, (n \div 256) % 256, (n \div 65536) % 256, (n \div 16777216) % 256>>
U64(n) == Pad(U32(n), 8)                                   \* 0 <= n < 2^31
HiZero(bs, from) == \A i \in from..Len(bs) : bs[i] = 0
(* "does not fit below 2^30": every buffer of the model is shorter than that *)
Huge(bs) == (Len(bs) >= 4 /\ bs[4] >= 64) \/ (Len(bs) > 4 /\ ~HiZero(bs, 5))
ToInt(bs) == (IF Len(bs) >= 1 THEN bs[1] ELSE 0) + (IF Len(bs) >= 2 THEN 256 * bs[2] ELSE 0)
             + (IF Len(bs) >= 3 THEN 65536 * bs[3] ELSE 0) + (IF Len(bs) >= 4 THEN 16777216 * bs[4] ELSE 0)
Neg64(b8) == Len(b8) = 8 /\ b8[8] >= 128                   \* int(uint64) < 0 on a 64-bit machine
GT(bs, n) == Huge(bs) \/ ToInt(bs) > n                     \* bs > n for 0 <= n < 2^30

(* var-uint: the form is chosen from the significant bytes (data < 0xFD, <= 0xFFFF, <= 0xFFFFFFFF) *)
EncVU(b8) == IF HiZero(b8, 2) /\ b8[1] < 253 THEN <<b8[1]>>
             ELSE IF HiZero(b8, 3) THEN <<253, b8[1], b8[2]>>
             ELSE IF HiZero(b8, 5) THEN <<254, b8[1], b8[2], b8[3], b8[4]>>
             ELSE <<255>> \o b8

(* ---- buffers ------------------------------------------------------------ *)
(* (the sequence operators are written as left folds: FoldLeft is evaluated by TLC natively, a recursive
   definition over Tail(s) costs a copy and a deep interpreter stack per segment) *)
Seg(n, b, k, o) == [n |-> n, b |-> b, k |-> k, o |-> o]
Joins(a, c) == a.k = c.k /\ a.b = c.b /\ (a.k = "" \/ c.o = a.o + a.n)
Norm(s) == FoldLeft(LAMBDA acc, x : IF x.n = 0 THEN acc
                                    ELSE IF acc # <<>> /\ Joins(acc[Len(acc)], x)
                                    THEN [acc EXCEPT ![Len(acc)] = [@ EXCEPT !.n = @ + x.n]]
                                    ELSE Append(acc, x), <<>>, s)
Lit(n, b) == IF n = 0 THEN <<>> ELSE <<Seg(n, b, "", 0)>>
Tok(k, n) == <<Seg(n, -1, k, 0)>>
FromBytes(bs) == Norm([i \in 1..Len(bs) |-> Seg(1, bs[i], "", 0)])

BLen(s) == FoldLeft(LAMBDA acc, x : acc + x.n, 0, s)

Drop(s, k) == FoldLeft(LAMBDA acc, x : IF acc.r <= 0 THEN [r |-> 0, out |-> Append(acc.out, x)]
                                       ELSE IF x.n <= acc.r THEN [r |-> acc.r - x.n, out |-> acc.out]
                                       ELSE [r |-> 0, out |-> Append(acc.out, Seg(x.n - acc.r, x.b, x.k, IF x.k = "" THEN 0 ELSE x.o + acc.r))],
                       [r |-> k, out |-> <<>>], s).out
Take(s, k) == FoldLeft(LAMBDA acc, x : IF acc.r <= 0 THEN acc
                                       ELSE IF x.n <= acc.r THEN [r |-> acc.r - x.n, out |-> Append(acc.out, x)]
                                       ELSE [r |-> 0, out |-> Append(acc.out, Seg(acc.r, x.b, x.k, x.o))],
                       [r |-> k, out |-> <<>>], s).out
(* bytes [from, to) in one pass that only keeps the overlapping segments *)
Slice(s, from, to) ==
    FoldLeft(LAMBDA acc, x : LET lo == IF acc.p > from THEN acc.p ELSE from
                                 hi == IF acc.p + x.n < to THEN acc.p + x.n ELSE to IN
                             [p |-> acc.p + x.n,
                              out |-> IF lo < hi THEN Append(acc.out, Seg(hi - lo, x.b, x.k, IF x.k = "" THEN 0 ELSE x.o + (lo - acc.p)))
                                      ELSE acc.out],
             [p |-> 0, out |-> <<>>], s).out

Expand(s) == FoldLeft(LAMBDA acc, x : acc \o [i \in 1..x.n |-> x.b], <<>>, s)     \* small slices only (<= 32 bytes)
Cat(ss) == FoldLeft(LAMBDA acc, x : acc \o x, <<>>, ss)                             \* concatenation of a sequence of buffers

IsWholeTok(s) == Len(s) = 1 /\ s[1].k # "" /\ s[1].o = 0
IsLiteral(s)  == \A i \in 1..Len(s) : s[i].k = ""

(* replace byte i (0-based) of s by the literal byte b *)
SetByte(s, i, b) == Norm(Take(s, i) \o Lit(1, b) \o Drop(s, i + 1))
ByteAt(s, i) == LET d == Drop(s, i) IN IF d = <<>> THEN -2 ELSE d[1].b      \* -1: token byte

(* compact form for JSON output: literal run <<n, b>>, token piece <<n, name, offset>> *)
J(s) == [i \in 1..Len(s) |-> IF s[i].k = "" THEN <<s[i].n, s[i].b>> ELSE <<s[i].n, s[i].k, s[i].o>>]

(* ---- encoders ----------------------------------------------------------- *)
EncFix(bs)  == FromBytes(bs)
EncVUB(b8)  == FromBytes(EncVU(b8))
EncVB(blob) == FromBytes(EncVU(U64(BLen(blob)))) \o blob

(* ---- total decoders (L = BLen(s), passed along so that it is computed once per buffer) ---- *)
DecFix(s, L, pos, w) ==
    IF pos + w > L THEN R(<<>>, pos, ERR)
    ELSE LET bs == Expand(Slice(s, pos, pos + w)) IN
         IF \E i \in 1..w : bs[i] < 0 THEN R(<<>>, pos, UNK) ELSE R(bs, pos + w, OK)

DecRaw(s, L, pos, w) ==
    IF pos + w > L THEN R(<<>>, pos, ERR) ELSE R(Norm(Slice(s, pos, pos + w)), pos + w, OK)

DecVU(s, L, pos) ==
    LET f == DecFix(s, L, pos, 1) IN
    IF f.e # OK THEN f
    ELSE IF f.v[1] < 253 THEN R(Pad(f.v, 8), pos + 1, OK)
    ELSE LET g == DecFix(s, L, pos + 1, IF f.v[1] = 253 THEN 2 ELSE IF f.v[1] = 254 THEN 4 ELSE 8) IN
         IF g.e # OK THEN g ELSE R(Pad(g.v, 8), g.p, OK)

(* NextVarBytes / ReadVarBytes: a count larger than the rest (SafeAdd overflow included) is an error *)
DecVB(s, L, pos) ==
    LET c == DecVU(s, L, pos) IN
    IF c.e # OK THEN c
    ELSE IF GT(c.v, L - c.p) THEN R(<<>>, pos, ERR)
    ELSE DecRaw(s, L, c.p, ToInt(c.v))

(* the two bool decoders differ on bytes >= 2: zero-copy reports an error, the stream reader says TRUE *)
DecBool(s, L, pos, codec) ==
    LET f == DecFix(s, L, pos, 1) IN
    IF f.e # OK THEN f
    ELSE IF f.v[1] = 0 THEN R(<<0>>, pos + 1, OK)
    ELSE IF f.v[1] = 1 \/ codec = "st" THEN R(<<1>>, pos + 1, OK)
    ELSE R(<<>>, pos, ERR)
=============================================================================
