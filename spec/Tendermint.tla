------------------------------ MODULE Tendermint ------------------------------
(***************************************************************************)
(* C30 - Tendermint-family light clients (header_sync/cosmos, okex,         *)
(* polygon heimdall) and the deposit handlers built on them.                *)
(*                                                                         *)
(* Abstract state: tracked = [h, nv] - the height of the last accepted      *)
(* epoch-switch header and the id of the validator set trusted for the     *)
(* next headers ("NextValidatorsHash").  Hash(valset) is abstracted to the  *)
(* valset's id: collision resistance is the model's semantics.             *)
(*                                                                         *)
(* A header, as submitted (everything is chosen by the submitter):          *)
(*   h     height                                                           *)
(*   vs    id of the validator set supplied next to the header (Valsets)    *)
(*   vh    id claimed in Header.ValidatorsHash                              *)
(*   nv    id claimed in Header.NextValidatorsHash                          *)
(*   cm    "this"   commit is for this header (height and block hash)       *)
(*         "other"  commit's block id is another block's                    *)
(*         "badh"   commit height differs from the header height            *)
(*   votes one entry per validator of vs (canonical order):                 *)
(*         "c" valid precommit signature for this block                     *)
(*         "n" valid precommit signature for nil                            *)
(*         "a" absent                                                       *)
(*         "f" present but the signature does not verify                    *)
(*         "r" this slot REPEATS the vote of the first committing validator *)
(*             (same validator index / address / signature): no new signer  *)
(* A deposit proof kind (what the submitter sends next to the header):      *)
(*   "exist"         key path + ics23 EXISTENCE proofs of key -> message    *)
(*   "exist-badval"  the same proofs, but the message differs               *)
(*   "exist-badroot" valid existence proofs into another app hash           *)
(*   "exist-nokp"    existence proofs, empty key path                       *)
(*   "absent-nokp"   empty key path, NON-existence proof of the message     *)
(*                   bytes read as a key path                               *)
(*   "absent-kp"     key path given, non-existence proof                    *)
(*                                                                         *)
(* Implementation-shaped part: Sync (SyncBlockHeader, a batch of headers),  *)
(* Deposit (MakeDepositProposal).  AbsenceAccepted names the deviation of    *)
(* the cosmos handler at the pinned commit (finding F9).                     *)
(* Monitor: PropC30 (Justified / DepositJustified below).                   *)
(* Binding: P-EDGE - every (state, call) edge printed once with the history *)
(* that reaches its source state, the model's prediction and the set of     *)
(* outcomes the monitor allows.                                             *)
(***************************************************************************)
EXTENDS Integers, Sequences, FiniteSets, TLC, Json

CONSTANTS Powers,       \* sequence: valset id -> sequence of voting powers
          MaxH,         \* heights 1..MaxH
          Mode,         \* "edge": representative votes, all states; "table": every vote vector, initial states only
          TableSets,    \* table mode: valset ids whose vote vectors are enumerated
          Pairs,        \* TRUE: also two-header batches (from a reduced header set)
          AbsenceAccepted, \* TRUE: model the empty-key-path branch of the cosmos handler (F9)
          RepeatCounts, \* TRUE: model heimdall's tally, which takes the validator index from the vote itself
          EmitOn

VARIABLES tracked, hist

(* validator-set menus (cfg files cannot write nested tuples): powers {1,1,1}, {1,2,3}, {10,1,1,1} and small sets *)
PowersEdge  == <<<<1, 1, 1>>, <<1, 2, 3>>, <<10, 1, 1, 1>>>>
PowersTable == <<<<1, 1, 1>>, <<1, 2, 3>>, <<10, 1, 1, 1>>, <<1>>, <<1, 1>>, <<2, 1>>, <<1, 1, 1, 1>>>>
PowersTableBig == <<<<1, 1, 1>>, <<1, 2, 3>>, <<10, 1, 1, 1>>, <<1>>, <<1, 1>>, <<2, 1>>, <<1, 1, 1, 1>>, <<3, 3, 3, 1>>,
                    <<5, 4, 3, 2, 1>>, <<1, 1, 1, 1, 1, 1>>, <<100, 50, 50>>>>
PowersSmall == <<<<1, 1, 1>>, <<1, 2, 3>>>>

vars == <<tracked, hist>>

V == DOMAIN Powers
Votes == {"c", "n", "a", "f"}          \* table alphabet ("r" appears in the representative vectors only)

RECURSIVE SumSeq(_, _)
SumSeq(s, i) == IF i > Len(s) THEN 0 ELSE s[i] + SumSeq(s, i + 1)
Total(v) == SumSeq(Powers[v], 1)
RECURSIVE TallyFrom(_, _, _)
TallyFrom(v, votes, i) == IF i > Len(votes) THEN 0
                          ELSE (IF votes[i] = "c" THEN Powers[v][i] ELSE 0) + TallyFrom(v, votes, i + 1)
Tally(v, votes) == TallyFrom(v, votes, 1)
MoreThanTwoThirds(v, votes) == 3 * Tally(v, votes) > 2 * Total(v)
(* the code's arithmetic: talliedVotingPower <= total*2/3 rejects (integer division) *)
FirstC(votes) == IF \E i \in DOMAIN votes : votes[i] = "c" THEN CHOOSE i \in DOMAIN votes : votes[i] = "c" /\ \A j \in DOMAIN votes : votes[j] = "c" => i <= j ELSE 0
RepeatPower(v, votes) == IF FirstC(votes) = 0 \/ FirstC(votes) > Len(Powers[v]) THEN 0
                         ELSE Powers[v][FirstC(votes)] * Cardinality({i \in DOMAIN votes : votes[i] = "r"})
CodeTally(v, votes) == Tally(v, votes) + (IF RepeatCounts THEN RepeatPower(v, votes) ELSE 0)
CodeQuorum(v, votes) == CodeTally(v, votes) > (Total(v) * 2) \div 3

(* VerifyCosmosHeader(hdr, info) in the code's order of checks *)
Verify(hdr, info) ==
    /\ hdr.vs = info.nv                \* Hash(Valsets) = trusted NextValidatorsHash
    /\ hdr.vh = hdr.vs                 \* Header.ValidatorsHash = Hash(Valsets)
    /\ hdr.cm = "this"                 \* commit height and block hash are this header's
    /\ Len(hdr.votes) = Len(Powers[hdr.vs])
    /\ \A i \in DOMAIN hdr.votes : hdr.votes[i] # "f" /\ (hdr.votes[i] = "r" => RepeatCounts /\ FirstC(hdr.votes) # 0)
    /\ CodeQuorum(hdr.vs, hdr.votes)

(* SyncBlockHeader: fold over the batch *)
RECURSIVE SyncFold(_, _, _, _)
SyncFold(batch, i, info, cnt) ==
    IF i > Len(batch) THEN [ok |-> cnt > 0, info |-> info]
    ELSE LET hdr == batch[i] IN
         IF hdr.nv = hdr.vh THEN SyncFold(batch, i + 1, info, cnt)
         ELSE IF info.h >= hdr.h THEN SyncFold(batch, i + 1, info, cnt)
         ELSE IF ~Verify(hdr, info) THEN [ok |-> FALSE, info |-> info]
         ELSE SyncFold(batch, i + 1, [h |-> hdr.h, nv |-> hdr.nv], cnt + 1)
SyncResult(batch, info) == LET r == SyncFold(batch, 1, info, 0)
                           IN IF r.ok THEN r ELSE [ok |-> FALSE, info |-> info]

ProofOK(kind) == kind = "exist" \/ (AbsenceAccepted /\ kind = "absent-nokp")
DepositResult(hdr, kind, info) ==
    IF info.h > hdr.h \/ ~Verify(hdr, info) \/ ~ProofOK(kind) THEN [ok |-> FALSE, info |-> info]
    ELSE [ok |-> TRUE, info |-> IF hdr.vh # hdr.nv /\ hdr.h > info.h THEN [h |-> hdr.h, nv |-> hdr.nv] ELSE info]

(* the monitor ***************************************************************)
(* a header justifies trusting its claims iff its validator set is the      *)
(* trusted one and validators holding MORE than two thirds of the power     *)
(* validly signed THIS block                                                *)
Signed(hdr, info) == /\ hdr.vs = info.nv /\ hdr.vh = info.nv
                     /\ hdr.cm = "this"
                     /\ Len(hdr.votes) = Len(Powers[hdr.vs])
                     /\ MoreThanTwoThirds(hdr.vs, hdr.votes)
Justified(hdr, info) == hdr.h > info.h /\ Signed(hdr, info)
(* tracked states the monitor allows after a call that submitted `hdrs`     *)
(* (in any order, each at most once): unchanged, or a chain of justified    *)
(* advances                                                                 *)
RECURSIVE Reach(_, _)
Reach(info, hdrs) == {info} \cup UNION {Reach([h |-> x.h, nv |-> x.nv], hdrs \ {x}) : x \in {y \in hdrs : Justified(y, info)}}
DepositAllowed(hdr, kind, info) == Signed(hdr, info) /\ kind = "exist"

(* header universe ***********************************************************)
AllC(v) == [i \in 1..Len(Powers[v]) |-> "c"]
VoteVectors(v) == [1..Len(Powers[v]) -> Votes]
(* representative vectors: signer subsets (commit / absent), plus single    *)
(* deviations of the full commit (nil, forged)                              *)
RepVotes(v) == LET n == Len(Powers[v]) IN
    {[i \in 1..n |-> IF i \in S THEN "c" ELSE "a"] : S \in SUBSET (1..n)}
    \cup {[AllC(v) EXCEPT ![i] = x] : i \in 1..n, x \in {"n", "f"}}
    \cup {[i \in 1..n |-> "n"]}
    \cup {[i \in 1..n |-> IF i = k THEN "c" ELSE "r"] : k \in 1..n}          \* one signer, repeated in every slot
    \cup {[i \in 1..n |-> IF i = k THEN "c" ELSE IF i = n + 1 - k THEN "a" ELSE "r"] : k \in 1..n}
Hdr(h, vs, vh, nv, cm, votes) == [h |-> h, vs |-> vs, vh |-> vh, nv |-> nv, cm |-> cm, votes |-> votes]
Heights(info) == {x \in {info.h - 1, info.h, info.h + 1, info.h + 2} : x >= 1 /\ x <= MaxH}

EdgeHeaders(info) ==
    \* nominal shape, every representative vote vector, every next set, every height
    {Hdr(h, info.nv, info.nv, nv, "this", vt) : h \in Heights(info), nv \in V, vt \in RepVotes(info.nv)}
    \* another validator set supplied (fully signed by its own members), claimed hash consistent or not
    \cup UNION {{Hdr(h, vs, vh, nv, "this", AllC(vs)) : h \in Heights(info), vh \in {vs, info.nv}, nv \in V} : vs \in V \ {info.nv}}
    \* right set supplied, header claims another ValidatorsHash
    \cup {Hdr(h, info.nv, vh, nv, "this", AllC(info.nv)) : h \in Heights(info), vh \in V \ {info.nv}, nv \in V}
    \* commit for another block / another height
    \cup {Hdr(h, info.nv, info.nv, nv, cm, AllC(info.nv)) : h \in Heights(info), nv \in V, cm \in {"other", "badh"}}
    \* wrong number of signatures
    \cup {Hdr(info.h + 1, info.nv, info.nv, nv, "this", Append(AllC(info.nv), "c")) : nv \in V \ {info.nv}}
    \cup {Hdr(info.h + 1, info.nv, info.nv, nv, "this", SubSeq(AllC(info.nv), 1, Len(Powers[info.nv]) - 1)) : nv \in V \ {info.nv}}
TableHeaders(info) ==
    {Hdr(info.h + 1, info.nv, info.nv, nv, "this", vt) : nv \in {CHOOSE x \in V : x # info.nv}, vt \in VoteVectors(info.nv)}
Headers(info) == {x \in (IF Mode = "edge" THEN EdgeHeaders(info) ELSE TableHeaders(info)) : x.h <= MaxH}
(* reduced set for two-header batches *)
PairHeaders(info) ==
    {Hdr(h, vs, vs, nv, "this", AllC(vs)) : h \in 1..MaxH, vs \in V, nv \in V}
ProofKinds == {"exist", "exist-badval", "exist-badroot", "exist-nokp", "absent-nokp", "absent-kp"}
DepositHeaders(info) ==
    IF Mode = "edge"
    THEN {x \in EdgeHeaders(info) : x.votes \in {AllC(x.vs)} \cup {[i \in 1..Len(Powers[x.vs]) |-> IF i = 1 THEN "c" ELSE "a"]}}
    ELSE TableHeaders(info)
DepositKinds(hdr, info) == IF Mode # "edge" THEN {"exist"}
                           ELSE IF Verify(hdr, info) THEN ProofKinds ELSE {"exist", "absent-nokp"}

(* actions *******************************************************************)
Emit(call, res, allowed, depAllowed) ==
    ~EmitOn \/ PrintT(<<"EDGE", ToJson([hist |-> hist, src |-> tracked, call |-> call, ok |-> res.ok, post |-> res.info,
                                          allowed |-> allowed, dep_allowed |-> depAllowed,
                                          signed |-> [i \in DOMAIN call.hdrs |-> Signed(call.hdrs[i], tracked)],
                                          powers |-> Powers])>>)

Sync(batch) ==
    LET res == SyncResult(batch, tracked)
        call == [op |-> "sync", hdrs |-> batch, kind |-> ""]
    IN /\ tracked' = res.info
       /\ hist' = IF res.ok THEN Append(hist, call) ELSE hist
       /\ Emit(call, res, Reach(tracked, {batch[i] : i \in DOMAIN batch}), FALSE)

Deposit(hdr, kind) ==
    LET res == DepositResult(hdr, kind, tracked)
        call == [op |-> "deposit", hdrs |-> <<hdr>>, kind |-> kind]
    IN /\ tracked' = res.info
       /\ hist' = IF res.ok THEN Append(hist, call) ELSE hist
       /\ Emit(call, res, Reach(tracked, {hdr}), DepositAllowed(hdr, kind, tracked))

Init == /\ tracked \in (IF Mode = "edge" THEN {[h |-> 1, nv |-> 1]} ELSE {[h |-> 1, nv |-> v] : v \in TableSets})
        /\ hist = <<>>
Next == \/ \E hdr \in Headers(tracked) : Sync(<<hdr>>)
        \/ (Pairs /\ hist = <<>> /\ \E a \in PairHeaders(tracked), b \in PairHeaders(tracked) : Sync(<<a, b>>))
        \/ \E hdr \in DepositHeaders(tracked) : \E kind \in DepositKinds(hdr, tracked) : Deposit(hdr, kind)
Spec == Init /\ [][Next]_vars
View == tracked
(* table mode explores the initial states only *)
InitialOnly == Mode = "edge" \/ hist = <<>>

(* PropC30 on the design *****************************************************)
TypeOK == tracked.h \in 1..MaxH /\ tracked.nv \in V
(* Every call of the menu, evaluated in every reachable state: the tracked   *)
(* state after the call is reachable by justified advances from the headers  *)
(* the call submitted (so the height never decreases and the set changes     *)
(* only with a two-thirds-signed header of the trusted set at a greater      *)
(* height), and a deposit is accepted only with such a header and an         *)
(* EXISTENCE proof.                                                          *)
PropC30 ==
    /\ \A hdr \in Headers(tracked) : SyncResult(<<hdr>>, tracked).info \in Reach(tracked, {hdr})
    /\ (Pairs => \A a \in PairHeaders(tracked), b \in PairHeaders(tracked) : SyncResult(<<a, b>>, tracked).info \in Reach(tracked, {a, b}))
    /\ \A hdr \in DepositHeaders(tracked) : \A kind \in DepositKinds(hdr, tracked) :
          LET r == DepositResult(hdr, kind, tracked)
          IN /\ r.info \in Reach(tracked, {hdr})
             /\ (r.ok => DepositAllowed(hdr, kind, tracked))
HeightMonotone == [][tracked'.h >= tracked.h]_vars
(* the code's integer arithmetic is exactly "more than two thirds" *)
QuorumArithmetic == \A v \in V : \A vt \in VoteVectors(v) : (Tally(v, vt) > (Total(v) * 2) \div 3) = MoreThanTwoThirds(v, vt)
=============================================================================
