SPECIFICATION TraceSpec
CONSTANTS Routers <- AllRouters
          Actors <- AllActors6
          ExtraActors = {"op1", "op4"}
          CtxDepth = 3
          EmitOn = FALSE
CONSTRAINT HighWater
POSTCONDITION Accepted
CHECK_DEADLOCK FALSE
