SPECIFICATION Spec
CONSTANTS Table = "rlp"
          Thorough = TRUE
INVARIANT PropC28Model
CHECK_DEADLOCK FALSE
