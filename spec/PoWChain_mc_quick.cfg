SPECIFICATION Spec
CONSTANTS N = 4
          NMin = 1
          Adj <- Adj3
          D0 = 1000000
          Rule = "eth"
          Family = "all"
          LA = 0
          LB = 0
          AdjA = 0
          AdjB = 0
          InOrder = FALSE
          EmitOn = FALSE
VIEW View
INVARIANT PropC27
PROPERTY PropC27Idem
CHECK_DEADLOCK FALSE
