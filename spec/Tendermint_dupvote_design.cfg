SPECIFICATION Spec
CONSTANTS Powers <- PowersSmall
          MaxH = 2
          Mode = "edge"
          TableSets = {}
          Pairs = FALSE
          AbsenceAccepted = FALSE
          RepeatCounts = TRUE
          EmitOn = FALSE
VIEW View
INVARIANT PropC30
CHECK_DEADLOCK FALSE
