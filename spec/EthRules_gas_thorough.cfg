SPECIFICATION Spec
CONSTANTS Table = "gas"
          Thorough = TRUE
INVARIANT PropC28Model
CHECK_DEADLOCK FALSE
