------------------------------ MODULE BtcCoins ------------------------------
(***************************************************************************)
(* C26 - BTC coin selection conserves UTXO value                           *)
(* (native/service/cross_chain_manager/btc: CoinSelector.Select /          *)
(*  SimpleBnbSearch / SortedSearch, chooseUtxos, makeBtcTx).               *)
(*                                                                         *)
(* The specification is RELATIONAL: it does not transcribe the two search  *)
(* strategies, it states what any outcome of a withdrawal must satisfy.    *)
(*   Selected(S, sum, target, mc): S is a non-empty set of currently       *)
(*   unspent outpoints, sum is exactly the total of their values, and      *)
(*   sum = target or sum >= target + mc (no change, or at least the        *)
(*   minimum change).                                                      *)
(* A withdrawal either fails (nothing changes) or picks such an S; then    *)
(* utxo' = utxo \ S, stxo' = stxo \cup S, and the transaction built from   *)
(* it carries change = sum - target (makeBtcTx: the network fee is taken   *)
(* out of the payment outputs, so inputs = payment + change + fee share).  *)
(*                                                                         *)
(* Outpoints are FULL outpoints (transaction id and output index): two     *)
(* outputs of one transaction are different outpoints with their own       *)
(* values, and the set transition is stated on them.                       *)
(*                                                                         *)
(* PropC26 (invariants): unspent and spent sets are disjoint, no outpoint  *)
(* is selected twice (cnt), every spent outpoint was selected exactly once,*)
(* value is conserved (unspent + spent = deposited), and the last built    *)
(* transaction balances.                                                   *)
(*                                                                         *)
(* Binding: P-VALIDATE.  TraceBtcCoins judges every withdrawal recorded    *)
(* from the real chooseUtxos / makeBtcTx / CoinSelector with this relation.*)
(***************************************************************************)
EXTENDS Integers, Sequences, FiniteSets, TLC

CONSTANTS NTx, Idxs,   \* an outpoint is <<txid, output index>> with txid in 1..NTx, index in Idxs: several
                       \* outpoints share a transaction id (a relayed withdrawal pays the multisig and returns
                       \* change to it; a deposit transaction may have several outputs to the redeem script)
          Vals,        \* values a new outpoint may carry
          Targets,     \* payment amounts
          MinChanges   \* minimum-change settings
VARIABLES val,         \* outpoint -> value (0: not created yet)
          utxo, stxo,  \* unspent / spent outpoints of the redeem script
          cnt,         \* outpoint -> how often it has been selected
          last         \* outcome of the last withdrawal

vars == <<val, utxo, stxo, cnt, last>>
Ops == (1..NTx) \X Idxs
TxOf(o) == o[1]
Before(x, y) == x[1] < y[1] \/ (x[1] = y[1] /\ x[2] < y[2])      \* creation order used by the model: lexicographic
NoTx == [res |-> "none", target |-> 0, mc |-> 0, sum |-> 0, change |-> 0, insum |-> 0]

RECURSIVE SumOver(_, _)
SumOver(f, S) == IF S = {} THEN 0 ELSE LET o == CHOOSE x \in S : TRUE IN f[o] + SumOver(f, S \ {o})

(* the relation ************************************************************)
Selected(f, U, S, sum, target, mc) ==
    /\ S # {} /\ S \subseteq U
    /\ sum = SumOver(f, S)
    /\ (sum = target \/ sum >= target + mc)

Created == {o \in Ops : val[o] # 0}

Init == /\ val = [o \in Ops |-> 0] /\ utxo = {} /\ stxo = {} /\ cnt = [o \in Ops |-> 0] /\ last = NoTx

\* a deposit to the redeem script confirms (addUtxos)
Deposit(v) == /\ Created # Ops
              /\ LET o == CHOOSE x \in Ops : val[x] = 0 /\ \A y \in Ops : (val[y] = 0 /\ y # x) => Before(x, y) IN
                   /\ val' = [val EXCEPT ![o] = v] /\ utxo' = utxo \cup {o}
              /\ UNCHANGED <<stxo, cnt>> /\ last' = NoTx

WithdrawFail(target, mc) ==
    /\ UNCHANGED <<val, utxo, stxo, cnt>>
    /\ last' = [res |-> "fail", target |-> target, mc |-> mc, sum |-> 0, change |-> 0, insum |-> 0]

WithdrawOk(target, mc, S) ==
    LET sum == SumOver(val, S) IN
    /\ Selected(val, utxo, S, sum, target, mc)
    /\ utxo' = utxo \ S /\ stxo' = stxo \cup S
    /\ cnt' = [o \in Ops |-> IF o \in S THEN cnt[o] + 1 ELSE cnt[o]]
    /\ last' = [res |-> "ok", target |-> target, mc |-> mc, sum |-> sum, change |-> sum - target, insum |-> SumOver(val, S)]
    /\ UNCHANGED val

Next == \/ \E v \in Vals : Deposit(v)
        \/ \E t \in Targets, mc \in MinChanges :
              \/ WithdrawFail(t, mc)
              \/ \E S \in SUBSET utxo : WithdrawOk(t, mc, S)
Spec == Init /\ [][Next]_vars

(* PropC26 ******************************************************************)
Disjoint   == utxo \cap stxo = {}
OnceOnly   == \A o \in Ops : cnt[o] <= 1 /\ (cnt[o] = 1 <=> o \in stxo)
Conserved  == /\ utxo \cup stxo = Created
              /\ SumOver(val, utxo) + SumOver(val, stxo) = SumOver(val, Created)
Balanced   == last.res = "ok" =>
                 /\ last.change = last.sum - last.target
                 /\ last.insum = last.target + last.change                \* inputs = payment (incl. fee share) + change
                 /\ (last.change = 0 \/ last.change >= last.mc)
\* siblings (same transaction id, other index) are independent: spending one never moves another (follows from the
\* clauses above on full outpoints; stated because the implementation once matched outpoints by transaction id only)
Siblings   == \A o \in Ops : (cnt[o] = 0 /\ val[o] # 0) => o \in utxo
PropC26 == Disjoint /\ OnceOnly /\ Conserved /\ Balanced /\ Siblings
=============================================================================
