SPECIFICATION Spec
CONSTANTS Table = "c08nest"
          N = 2
          Sizes = {}
          Doubles = FALSE
          PoolMode = "full"
          Lab = "id"
          EmitOn = TRUE
INVARIANT PropC08
CHECK_DEADLOCK FALSE
