SPECIFICATION Spec
CONSTANTS MaxN = 10000
          MaxV = 8
          EmitOn = TRUE
INVARIANT PropC42
CHECK_DEADLOCK FALSE
