---------------------------- MODULE TraceWallet ----------------------------
(* C43, code -> spec.  Every call the driver makes on a real ClientImpl (replays of the Wallet edges and long random
   histories) is logged at its return with arguments and the real outcome:
     [op, id, p, q, res, rid, same, ids, f]
   id   account the call addresses (small integer interned from the address by first appearance; 0 = an address that
        was never in the wallet; for new/import the id of the account just created),
   p,q  passwords ("" is the empty password), res "ok" | "fail" | "none", rid the id of the returned account's address,
   same whether the returned private/public key equals the one generated at creation, ids the wallet's account list
        (from the metadata accessors) after the call, f whether the wallet file was made unwritable for this call.
   This module is the MONITOR (WalletProp) alone: live[id] is maintained from the outcomes the code reported, and the
   property operator GetConforms decide every decryption outcome.  Incidental behaviour (labels, default
   account, ordering, why a call failed) is not constrained, so a refactoring that keeps C43 is accepted.  A failed call changes nothing in tl, so the decryption requests
   that follow a call whose save was made to fail are judged against the passwords from before it (rollback).  A
   non-conforming event does not stop the run: it is printed as <<"BAD", line, reason>> and the monitor goes on, so one
   TLC run judges all concatenated traces (a "reset" event starts a new wallet). *)
EXTENDS Integers, Sequences, FiniteSets, TLC, TLCExt, Json, WalletProp
CONSTANT TMax                 \* ids per trace
VARIABLES tl, lst, l          \* tl: monitor bookkeeping id -> password | Dead; lst: account list after the previous call
TraceLog == ndJsonDeserialize("trace.ndjson")
tvars == <<tl, lst, l>>
Ev == TraceLog[l]
TIds == 0..TMax
IsLive(id) == id \in 1..TMax /\ tl[id] # Dead
Bad(why) == PrintT(<<"BAD", l, why>>)
Check(cond, why) == IF cond THEN TRUE ELSE Bad(why)     \* (a disjunction would be split into two successors by TLC)
Once(t2, ids) == \A id \in 1..TMax : t2[id] # Dead => Cardinality({i \in 1..Len(ids) : ids[i] = id}) = 1
Listed(t2) == /\ Check(Once(t2, Ev.ids), "live-account-not-listed-once")
              \* a call that fails because the file cannot be written leaves the account list as it was
              /\ Check((Ev.f /\ Ev.res = "fail") => Ev.ids = lst, "failed-save-changed-the-account-list")
Upd(t2) == tl' = t2 /\ Listed(t2)

TReset  == Ev.op = "reset" /\ tl' = [i \in TIds |-> Dead]
TCreate == /\ Ev.op \in {"new", "import"}
           /\ IF Ev.res = "ok"
              THEN /\ Check(Ev.id \in 1..TMax /\ ~IsLive(Ev.id), "created-id-not-fresh")
                   /\ Upd([tl EXCEPT ![Ev.id] = Ev.p])
              ELSE Upd(tl)
TDelete == /\ Ev.op = "delete"
           /\ IF Ev.res = "ok"
              THEN /\ Check(IsLive(Ev.id) /\ Ev.p = tl[Ev.id] /\ Ev.p # NoPw, "delete-with-wrong-password-accepted")
                   /\ Check(Ev.rid = Ev.id /\ Ev.same, "delete-returned-other-key")
                   /\ Upd([tl EXCEPT ![Ev.id] = Dead])
              ELSE /\ Check(IsLive(Ev.id) => Ev.res # "none", "live-account-not-found")
                   /\ Upd(tl)
TChPw   == /\ Ev.op = "chpw"
           /\ IF Ev.res = "ok" /\ Ev.p # Ev.q
              THEN /\ Check(IsLive(Ev.id) /\ Ev.p = tl[Ev.id] /\ Ev.p # NoPw, "chpw-with-wrong-old-password-accepted")
                   /\ Upd([tl EXCEPT ![Ev.id] = Ev.q])
              ELSE Upd(tl)
TGet    == /\ Ev.op = "get"
           /\ IF IsLive(Ev.id)
              THEN Check(GetConforms(tl[Ev.id], Ev.p, Ev.res, Ev.rid = Ev.id /\ Ev.same),
                         IF Ev.res = "none" THEN "live-account-not-found"
                         ELSE IF Ev.res = "ok" /\ Ev.p = tl[Ev.id] THEN "returned-other-key"
                         ELSE IF Ev.res = "ok" THEN "wrong-password-accepted"
                         ELSE "right-password-rejected")
              ELSE TRUE
           /\ Upd(tl)
TOther  == Ev.op \in {"reopen", "convert", "setdefault", "setlabel", "save"} /\ Upd(tl)

TraceInit == TLCSet(1, 1) /\ l = 1 /\ tl = [i \in TIds |-> Dead] /\ lst = <<>>
TraceNext == /\ l <= Len(TraceLog) /\ l' = l + 1 /\ lst' = Ev.ids
             /\ (TReset \/ TCreate \/ TDelete \/ TChPw \/ TGet \/ TOther)
TraceSpec == TraceInit /\ [][TraceNext]_tvars
HighWater == TLCSet(1, IF TLCGet(1) < l THEN l ELSE TLCGet(1))
Accepted == PrintT(<<"HIGHWATER", TLCGet(1)>>) /\ TLCGet(1) = Len(TraceLog) + 1
=============================================================================
