SPECIFICATION Spec
CONSTANTS Addrs = {"a","b","c","d","e","x"}
          EpochSets = {{"a","b","c","d","e"},{"a","b","c"},{"b","c","d","e"},{"a"},{"d","e"}}
          InitCons = {"a","b","c","d","e"}
          Ids = {"m1"}
          Mode = "sig"
          EmitOn = TRUE
VIEW View
INVARIANT OnceC25
PROPERTY PropC25
CHECK_DEADLOCK FALSE
