SPECIFICATION Spec
CONSTANTS N = 4
          C = 1
          Props = {1, 2}
          Endrs = {2, 3, 4}
          VerifyCarried = TRUE
          MaxMsgs = 4
          Alpha <- A4ComGenuine
          EmitOn = FALSE
VIEW View
INVARIANT PropC41
CONSTRAINT Bound
CHECK_DEADLOCK FALSE
