------------------------------- MODULE TxSender -------------------------------
(***************************************************************************)
(* C36 - sender admission of the transaction pool                          *)
(* (txnpool/proc/txnpool_actor.go: updatePermittedAddrMap, isValidSender;  *)
(* http/base/actor.UpdatePermittedAddrMap; relayer_manager registry).      *)
(*                                                                         *)
(* Ledger side (one action = one block with one real contract transaction):*)
(*   relayers  registered relayer addresses (RELAYER keys)                 *)
(*   app       open register requests  id -> [list, signs]                 *)
(*   rem       remove requests         id -> [list, signs]   (consumed by  *)
(*             the approval that applies them since fix d1f0dec; before it *)
(*             the request stayed and a later approval round applied it    *)
(*             again)                                                      *)
(*   peers     keys of the consensus peer pool map (any status)            *)
(*   capp      candidate applications  c -> signs                          *)
(* Pool process side:                                                      *)
(*   permitted the process-wide map: only grows; refreshed from the peer   *)
(*             pool (address of every key + the multi-signature address    *)
(*             over all keys) when due = never refreshed, empty, or last   *)
(*             refresh more than a minute ago                              *)
(* After every action the pool is probed with all signer sets over Base:   *)
(* a transaction is admitted iff one of its signature addresses is a       *)
(* registered relayer (read live) or in permitted.                         *)
(*                                                                         *)
(* PropC36 (monitor, evaluated on observations): a signer set is admitted  *)
(* only if one of its addresses is a relayer registered now or an address  *)
(* of a peer-pool key / their multi-signature address seen since the       *)
(* process started; in particular a set whose only credential is a relayer *)
(* whose removal was approved is refused afterwards.                       *)
(***************************************************************************)
EXTENDS Integers, Sequences, FiniteSets, TLC, Json

CONSTANTS Rel,      \* relayer addresses, e.g. {"r1","r2"}
          Val,      \* consensus validators {"v1",..,"v4"}
          Cand,     \* candidate nodes {"c1"}
          MaxReq,   \* at most this many register and this many remove requests
          Acts,     \* action kinds explored
          Outsiders,\* non-validators that also send approvals ({"x"} or {})
          Depth, EmitOn
VARIABLES s, hist
vars == <<s, hist>>

Range(q) == {q[i] : i \in 1..Len(q)}
Lists == {<<r>> : r \in Rel} \cup {<<"r1", "r2">>}    \* relayer lists used in requests
Quorum == (2 * Cardinality(Val) + 2) \div 3
(* the multi-signature address over a key set is an address of its own *)
Op(K) == IF K = Val THEN "op0" ELSE IF K = Val \cup Cand THEN "op1" ELSE "op?"
Base == <<"r1", "r2", "v1", "c1", "op0", "op1", "opm", "x">>   \* probe alphabet; "opm": 1-of-n over Val, "x": outsider
NoFun == [x \in {} |-> 0]
Put(f, k, v) == [x \in DOMAIN f \cup {k} |-> IF x = k THEN v ELSE f[x]]
Drop(f, k) == [x \in DOMAIN f \ {k} |-> f[x]]

InitS == [relayers |-> {}, app |-> NoFun, rem |-> NoFun, napp |-> 0, nrem |-> 0,
          peers |-> Val, capp |-> NoFun, permitted |-> {}, due |-> TRUE]

(* updatePermittedAddrMap + isValidSender: what a probe after the action sees *)
Refresh(x) == IF x.due \/ x.permitted = {}
              THEN [x EXCEPT !.permitted = @ \cup x.peers \cup {Op(x.peers)}, !.due = FALSE] ELSE x
OkAddrs(x) == x.relayers \cup x.permitted
Admitted(x, S) == S \cap OkAddrs(x) # {}

(* ledger actions ************************************************************)
RegisterF(x, L) == [x EXCEPT !.app = Put(@, x.napp, [list |-> L, signs |-> {}]), !.napp = @ + 1]
RemoveF(x, L)   == [x EXCEPT !.rem = Put(@, x.nrem, [list |-> L, signs |-> {}]), !.nrem = @ + 1]
ApproveRegF(x, id, v) ==
    IF id \notin DOMAIN x.app THEN x                                  \* transaction fails: no request
    ELSE LET sg == x.app[id].signs \cup {v} IN
         IF Cardinality(sg \cap Val) >= Quorum
         THEN [x EXCEPT !.relayers = @ \cup Range(x.app[id].list), !.app = Drop(@, id)]
         ELSE [x EXCEPT !.app[id].signs = sg]
ApproveRemF(x, id, v) ==
    IF id \notin DOMAIN x.rem THEN x
    ELSE LET sg == x.rem[id].signs \cup {v} IN
         IF Cardinality(sg \cap Val) >= Quorum
         THEN [x EXCEPT !.relayers = @ \ Range(x.rem[id].list), !.rem = Drop(@, id)]     \* consumed (fix d1f0dec; before it the request stayed)
         ELSE [x EXCEPT !.rem[id].signs = sg]
CandRegF(x, c) == IF c \in DOMAIN x.capp \/ c \in x.peers THEN x ELSE [x EXCEPT !.capp = Put(@, c, {})]
CandApproveF(x, c, v) ==
    IF c \notin DOMAIN x.capp THEN x
    ELSE LET sg == x.capp[c] \cup {v} IN
         IF Cardinality(sg \cap Val) >= Quorum
         THEN [x EXCEPT !.peers = @ \cup {c}, !.capp = Drop(@, c)]
         ELSE [x EXCEPT !.capp[c] = sg]

Ev(op, l, id, a) == [op |-> op, l |-> l, id |-> id, a |-> a]
Emit(e, x2) == ~EmitOn \/ PrintT(<<"EDGE", ToJson([steps |-> Append(hist, e), ok |-> OkAddrs(x2)])>>)
Do(e, x2) == LET y == Refresh(x2) IN s' = y /\ hist' = Append(hist, e) /\ Emit(e, y)

Next == \/ \E L \in Lists : "relayer" \in Acts /\ s.napp < MaxReq /\ Do(Ev("register", L, 0, ""), RegisterF(s, L))
        \/ \E L \in Lists : "relayer" \in Acts /\ s.nrem < MaxReq /\ Do(Ev("remove", L, 0, ""), RemoveF(s, L))
        \/ \E id \in 0..(MaxReq - 1), v \in Val \cup Outsiders : "relayer" \in Acts /\
              \/ id < s.napp /\ Do(Ev("approvereg", <<>>, id, v), ApproveRegF(s, id, v))
              \/ id < s.nrem /\ Do(Ev("approverem", <<>>, id, v), ApproveRemF(s, id, v))
        \/ \E c \in Cand : "cand" \in Acts /\ Do(Ev("candreg", <<>>, 0, c), CandRegF(s, c))
        \/ \E c \in Cand, v \in Val : "cand" \in Acts /\ c \in DOMAIN s.capp
                                       /\ Do(Ev("candapprove", <<>>, 0, c \o "/" \o v), CandApproveF(s, c, v))
        \/ "proc" \in Acts /\ Do(Ev("age", <<>>, 0, ""), [s EXCEPT !.due = TRUE])                       \* more than a minute passes
        \/ "proc" \in Acts /\ Do(Ev("restart", <<>>, 0, ""), [s EXCEPT !.permitted = {}, !.due = TRUE]) \* the node process restarts
        \/ "proc" \in Acts /\ Do(Ev("probe", <<>>, 0, ""), s)
Init == s = Refresh(InitS) /\ hist = <<>>
Spec == Init /\ [][Next]_vars
View == s
Bound == Depth = 0 \/ Len(hist) <= Depth
WalkEmit == IF Len(hist) >= Depth THEN PrintT(<<"WALK", ToJson([steps |-> hist])>>) /\ FALSE ELSE TRUE

(* design-level invariants ***************************************************)
TypeOK == s.relayers \subseteq Rel /\ s.peers \subseteq Val \cup Cand /\ Val \subseteq s.peers
(* an outsider or the 1-of-n address is never admitted; admission needs a relayer or a peer-pool address *)
PropC36 == /\ ~Admitted(s, {"x"}) /\ ~Admitted(s, {"opm"}) /\ ~Admitted(s, {})
           /\ \A S \in SUBSET Range(Base) : Admitted(s, S) => S \cap (s.relayers \cup s.peers \cup {"op0", "op1"}) # {}
           /\ s.permitted \subseteq Val \cup Cand \cup {"op0", "op1"}
=============================================================================
