SPECIFICATION Spec
CONSTANTS N = 6
          NMin = 6
          Adj <- Adj2
          D0 = 1000000
          Rule = "eth"
          Family = "all"
          LA = 0
          LB = 0
          AdjA = 0
          AdjB = 0
          InOrder = TRUE
          EmitOn = TRUE
CONSTRAINT Emit
INVARIANT PropC27
CHECK_DEADLOCK FALSE
