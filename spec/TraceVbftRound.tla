--------------------------- MODULE TraceVbftRound ---------------------------
(* C41, code -> spec: behaviours recorded from the real BlockPool (one event per delivered message, logged after
   the call with the message, the returned class and the observed endorseDone / commitDone / sealed signature
   list).  TLC rebuilds the ground truth from the messages, evaluates the monitor clauses of PropC41 on the
   OBSERVED answers and tells whether the observation is one the implementation-shaped model admits.
   Every event with a failed clause or an inadmissible observation prints one VERDICT line; the run is accepted
   when every event was consumed. *)
EXTENDS VbftRound, TLCExt
VARIABLE l
TraceLog == ndJsonDeserialize("trace.ndjson")
tvars == <<props, es, cm, sigE, sigC, sigD, hist, l>>
Ev == TraceLog[l]

SeqToSet(s) == {s[i] : i \in 1..Len(s)}
ActOf(j)    == Act(j.k, j.x, j.p, j.e, SeqToSet(j.sg), SeqToSet(j.sf))
Ans(t)      == [p |-> t[1], e |-> t[2], d |-> t[3]]
SealOf(s)   == {[x |-> s[i][1], g |-> s[i][2]] : i \in 1..Len(s)}
NoDupSeal(s) == \A i, j \in 1..Len(s) : i # j => s[i][1] # s[j][1]

TReset == /\ l <= Len(TraceLog) /\ Ev.op = "reset" /\ l' = l + 1
          /\ props' = {} /\ es' = [x \in Peer |-> <<>>] /\ cm' = <<>> /\ sigE' = {} /\ sigC' = {} /\ sigD' = {}
          /\ hist' = <<>>

TMsg ==
    /\ l <= Len(TraceLog) /\ Ev.op = "msg" /\ l' = l + 1
    /\ LET a   == ActOf(Ev.a)
           r   == Eff(a, props, es, cm)
           SE2 == sigE \cup NewE(a)
           SC2 == sigC \cup NewC(a)
           SD2 == sigD \cup NewD(a)
           ed  == Ans(Ev.ed)
           cd  == Ans(Ev.cd)
           sl  == SealOf(Ev.seal)
           conf == /\ Ev.ret = r.ret
                   /\ ed \in EndorseDone(r.E)
                   /\ cd \in CommitDone(r.E, r.M)
                   /\ Ev.hs = (cd.d /\ cd.p \in r.P)
                   /\ (Ev.hs => (sl = Seal(r.E, cd.p, cd.e) /\ NoDupSeal(Ev.seal)))
           okS(cl) == ~Ev.hs \/ (NoDupSeal(Ev.seal) /\ cd.p \in Props /\ OkSealSet(sl, cd.p, cd.e, SE2, SD2, cl))
           okE(cl) == ~ed.d \/ (ed.p \in Props /\ OkEnd(ed, SE2, cl))
           okC(cl) == ~cd.d \/ (cd.p \in Props /\ OkCom(cd, SE2, SC2, cl))
           v == [l |-> l, conf |-> conf, e |-> okE(FALSE), ec |-> okE(TRUE), c |-> okC(FALSE), cc |-> okC(TRUE),
                 s |-> okS(FALSE), sc |-> okS(TRUE)]
       IN /\ props' = r.P /\ es' = r.E /\ cm' = r.M /\ sigE' = SE2 /\ sigC' = SC2 /\ sigD' = SD2
          /\ hist' = <<>>
          /\ ((v.conf /\ v.e /\ v.c /\ v.s) \/ PrintT(<<"VERDICT", ToJson(v)>>))

TraceInit == TLCSet(1, 1) /\ Init /\ l = 1
TraceNext == TReset \/ TMsg
TraceSpec == TraceInit /\ [][TraceNext]_tvars
HighWater == TLCSet(1, IF TLCGet(1) < l THEN l ELSE TLCGet(1))
Accepted == PrintT(<<"HIGHWATER", TLCGet(1)>>) /\ TLCGet(1) = Len(TraceLog) + 1
=============================================================================
