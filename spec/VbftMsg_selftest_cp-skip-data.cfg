SPECIFICATION Spec
CONSTANTS EmitOn = FALSE
          ModelMut = "cp-skip-data"
INVARIANT PropDispatch
INVARIANT PropRoundTrip
INVARIANT PropBind
INVARIANT PropLive
CHECK_DEADLOCK FALSE
