SPECIFICATION Spec
CONSTANTS Area = "C05"
          Tier = "quick"
          EmitOn = TRUE
          Repaired = FALSE
INVARIANT PropC05
CHECK_DEADLOCK FALSE
