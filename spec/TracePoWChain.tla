--------------------------- MODULE TracePoWChain ---------------------------
(***************************************************************************)
(* C27, code -> spec: states read back from the real header-sync contract  *)
(* (GetCurrentHeaderHeight, main-chain index by height, GetHeaderByHash    *)
(* incl. total difficulty) after every SyncBlockHeader call are judged by  *)
(* the monitor of PoWProp.  The monitor never blocks: each event loads the *)
(* observed state; the clauses are INVARIANTs, so TLC names the one that   *)
(* fails and the trace position (variable l).                              *)
(*                                                                         *)
(* event = [op : "reset" | "submit", ids, known (0/1 per id, before the    *)
(*          call), expok (0/1: every header of the call is valid at its    *)
(*          turn), err (0/1), obs]                                         *)
(* obs   = [st (0/1 per id), par, num, diff, td (per id, id x at x+1),     *)
(*          main (entries from the root's height up, -1 = none), head,     *)
(*          dg (interned digest of the whole contract storage)]            *)
(***************************************************************************)
EXTENDS Integers, Sequences, FiniteSets, TLC, TLCExt, Json, PoWProp
VARIABLES l, obs, flag
TraceLog == ndJsonDeserialize("trace.ndjson")
tvars == <<l, obs, flag>>
Ev == TraceLog[l]

ToObs(o) == LET m == Len(o.par) - 1
                r == o.num[1]
            IN [stored |-> {x \in 0..m : o.st[x + 1] = 1}, root |-> 0,
                par  |-> [x \in 0..m |-> o.par[x + 1]],
                num  |-> [x \in 0..m |-> o.num[x + 1]],
                diff |-> [x \in 0..m |-> o.diff[x + 1]],
                td   |-> [x \in 0..m |-> o.td[x + 1]],
                main |-> [y \in r..(r + Len(o.main) - 1) |-> o.main[y - r + 1]],
                head |-> o.head, dg |-> o.dg]

AllKnown(e) == \A i \in 1..Len(e.ids) : e.known[i] = 1
Judge(e, o1, o2) ==
    IF AllKnown(e) /\ o2.dg # o1.dg THEN "resubmission-changes-state"
    ELSE IF e.expok = 1 /\ (e.err = 1 \/ \E i \in 1..Len(e.ids) : e.ids[i] \notin o2.stored) THEN "valid-header-not-stored"
    ELSE "ok"

TraceInit == TLCSet(1, 1) /\ l = 1 /\ obs = [stored |-> {}] /\ flag = "ok"
TReset  == l <= Len(TraceLog) /\ Ev.op = "reset" /\ l' = l + 1 /\ obs' = ToObs(Ev.obs) /\ flag' = "ok"
TSubmit == l <= Len(TraceLog) /\ Ev.op = "submit" /\ l' = l + 1 /\ obs' = ToObs(Ev.obs) /\ flag' = Judge(Ev, obs, obs')
TraceNext == TReset \/ TSubmit
TraceSpec == TraceInit /\ [][TraceNext]_tvars

Loaded == obs.stored # {}
PropParentClosure == Loaded => ParentClosure(obs)
PropHeights       == Loaded => HeightsOK(obs)
PropTdSums        == Loaded => TdSums(obs)
PropCanonical     == Loaded => Canonical(obs)
PropHeadHeaviest  == Loaded => (Canonical(obs) => HeadHeaviest(obs))
PropIdempotent    == flag # "resubmission-changes-state"
PropValidStored   == flag # "valid-header-not-stored"

HighWater == TLCSet(1, IF TLCGet(1) < l THEN l ELSE TLCGet(1))
Accepted == PrintT(<<"HIGHWATER", TLCGet(1)>>) /\ TLCGet(1) = Len(TraceLog) + 1
=============================================================================
