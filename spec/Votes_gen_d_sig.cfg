SPECIFICATION Spec
CONSTANTS Addrs = {"a","b","c","d","x"}
          EpochSets = {{"a","b","c","d"},{"a","b"},{"b","c","d"},{"d"}}
          InitCons = {"a","b","c","d"}
          Ids = {"m1","m2"}
          Mode = "sig"
          EmitOn = TRUE
VIEW View
INVARIANT OnceC25
PROPERTY PropC25
CHECK_DEADLOCK FALSE
