SPECIFICATION Spec
CONSTANTS Src = {"s"}
          Tgt = {"s","t"}
          Ids = {"i1","i2"}
          Vars = {1,2}
          Gated = {}
          MaxH = 0
          EmitOn = "edge"
          GovChains = {"s","t"}
          RelayOn = FALSE
          Silent = {"v","r"}
VIEW View
INVARIANT TypeOK
PROPERTY PropC20 PropC21 PropC22
CHECK_DEADLOCK FALSE
