SPECIFICATION Spec
CONSTANTS NV = 4
          Mode = "C32"
          Areas = {"node", "sc", "rel", "sv"}
          AltSp = TRUE
          MaxView = 2
          MaxHeight = 1
          MaxId = 2
          MaxSigns = 3
          NWho = 1
          Rich = FALSE
          EmitOn = TRUE
VIEW View
CONSTRAINT Bound
INVARIANT PropAll
INVARIANT TypeOK
CHECK_DEADLOCK FALSE
