SPECIFICATION Spec
CONSTANTS Routers <- AllRouters
          SyncRouters = {"eth", "bsc", "ont", "cosmos"}
          Gen = {"g1", "g2", "ghi"}
          Deg = {"gdeg"}
          Bad = {"bad"}
          Shape <- ShapeGuard
          D = 4
          MaxSync = 2
CONSTRAINT Emit
CHECK_DEADLOCK FALSE
