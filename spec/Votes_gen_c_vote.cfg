SPECIFICATION Spec
CONSTANTS Addrs = {"a","b","c","d","e","f","g","x"}
          EpochSets = {{"a","b","c","d","e","f","g"},{"a","b","c","d"},{"c","d","e","f","g"},{"a","b"},{"a","b","c","d","e","f"},{"g"}}
          InitCons = {"a","b","c","d","e","f","g"}
          Ids = {"m1"}
          Mode = "vote"
          EmitOn = TRUE
VIEW View
INVARIANT OnceC25
PROPERTY PropC25
CHECK_DEADLOCK FALSE
