SPECIFICATION Spec
CONSTANTS Table = "c07"
          N = 8
          Sizes = {}
          Doubles = TRUE
          PoolMode = "near"
          Lab = "id"
          EmitOn = TRUE
INVARIANT PropC07
CHECK_DEADLOCK FALSE
