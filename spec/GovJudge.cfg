SPECIFICATION Spec
CONSTANTS AltSp = TRUE
CHECK_DEADLOCK FALSE
