SPECIFICATION Spec
CONSTANTS MaxVar = 26
          EmitOn = TRUE
CHECK_DEADLOCK FALSE
