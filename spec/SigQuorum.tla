----------------------------- MODULE SigQuorum -----------------------------
(***************************************************************************)
(* C14 - blocks need a signature quorum of the validators in force         *)
(* (core/store/ledgerstore/ledger_store.go: verifyHeader, AddHeader,       *)
(*  SubmitBlock, AddBlock; core/signature VerifyMultiSignature).           *)
(*                                                                         *)
(* Abstract header  hd = [bk, sg, cfg, body]                               *)
(*   bk   sequence of key ids        (header.Bookkeepers)                  *)
(*   sg   sequence of signature tokens (header.SigData): k > 0 = a valid   *)
(*        signature of key k over THIS header's hash, 0 = anything else    *)
(*        (other message, other key's bytes damaged, truncated, empty)     *)
(*   cfg  sequence of key ids announced as the next validator set          *)
(*        (vbft: NewChainConfig peers, <<>> = none announced;              *)
(*         solo: the key list committed to by NextBookkeeper, mandatory)   *)
(*   body "ok" | "bad"  (block path only: wrong block root / wrong state   *)
(*        root; the header itself is well signed or not independently)     *)
(*                                                                         *)
(* Implementation-shaped part (one operator per code block):               *)
(*   Need           m computation, both rules                              *)
(*   Greedy         VerifyMultiSignature: the first m signatures, each     *)
(*                  matched to the first not-yet-used key POSITION         *)
(*   VbftVerify     len(bk) >= m, every bookkeeper in the set, no repeats  *)
(*   SoloVerify     1..16 keys listed, address(bk) = NextBookkeeper of the  *)
(*                  parent (same key multiset), m = n - (n-1)/3 over the   *)
(*                  header's own list                                      *)
(*   Hdr / Blk      AddHeader ; SubmitBlock / AddBlock.  AsIs = TRUE is    *)
(*                  the code before fix 306f139 (block set assigned before *)
(*                  the body can fail; named deviation, kept for the       *)
(*                  sensitivity run), AsIs = FALSE the intended design =   *)
(*                  the code since that fix.                               *)
(* Monitor part (PropC14, PropC14Step): the property and nothing more:     *)
(*   Safety   accepted => at least Need(|S|) DISTINCT members of the set   *)
(*            in force S have a valid signature in the header              *)
(*   Rule     the stated number is the required number: a canonical header *)
(*            (exactly the members listed, each with its valid signature,  *)
(*            at least Need of them, body fine) is accepted                *)
(*   SetOnly  the set in force changes only by an ACCEPTED announcing      *)
(*            block/header, to the announced set                           *)
(* The set in force is the specification's own variable ("force"): it is   *)
(* what accepted announcements made it, not what the node happens to hold. *)
(***************************************************************************)
EXTENDS QuorumDefs, Sequences, FiniteSets, TLC, Json

CONSTANTS Kind,     \* "theorem" | "table" | "replay"
          Mode,     \* "vbft" | "solo"
          Rule,     \* "legacy" | "bft"   (vbft only)
          N,        \* genesis validators are 1..N ; N+1, N+2 are outsiders
          FullN,    \* table: all signer subsets up to this size, prefixes above
          NsLegacy, NsBft, NsSolo,   \* table: validator-set sizes of the vbft/legacy, vbft/bft and solo worlds
          Cfgs,     \* replay: the announceable key sets, e.g. {{5}, {2,5}}
          Lists,    \* replay: signer sets of the header alphabet (listed in increasing order, all signatures valid)
          Paths,    \* replay: subset of {"hdr","sub","add"}
          D,        \* replay: behaviour length
          AsIs,     \* replay: TRUE = block-path set assigned before the body is checked (code before fix 306f139)
          EmitOn

VARIABLES st,   \* table/theorem: the row ; replay: [fh, fb, gh, gb] sets held by the node and ghost sets in force
          h     \* replay: history of [op, hd, acc, set]; table: phase

vars == <<st, h>>

(* ---------------------------------------------------------------- helpers *)
SetOf(s)  == {s[i] : i \in 1..Len(s)}
NoDup(s)  == \A i, j \in 1..Len(s) : i # j => s[i] # s[j]
Min(S)    == CHOOSE x \in S : \A y \in S : x <= y
RECURSIVE SortedSeq(_)
SortedSeq(S) == IF S = {} THEN <<>> ELSE <<Min(S)>> \o SortedSeq(S \ {Min(S)})
RECURSIVE SortKeys(_)      \* sort a sequence, keeping repeats
SortKeys(s) == IF Len(s) = 0 THEN <<>>
              ELSE LET mn == Min(SetOf(s))
                       i  == CHOOSE k \in 1..Len(s) : s[k] = mn
                   IN <<mn>> \o SortKeys(SubSeq(s, 1, i - 1) \o SubSeq(s, i + 1, Len(s)))
Rev(s)    == [i \in 1..Len(s) |-> s[Len(s) + 1 - i]]
Seq1(k)   == [i \in 1..k |-> i]

(* ------------------------------------------------- implementation-shaped *)
Need(mode, rule, n) == IF mode = "vbft" /\ rule = "legacy" THEN LegacyThr(n) ELSE BftThr(n)

RECURSIVE Greedy(_, _, _, _, _)
Greedy(bk, sg, m, i, mask) ==
  IF i > m THEN TRUE
  ELSE LET js == {j \in 1..Len(bk) : j \notin mask /\ sg[i] # 0 /\ sg[i] = bk[j]}
       IN IF js = {} THEN FALSE ELSE Greedy(bk, sg, m, i + 1, mask \cup {Min(js)})
MultiSigOK(bk, sg, m) == Len(sg) >= m /\ Greedy(bk, sg, m, 1, {})

VbftVerify(rule, S, hd) ==
  LET m == Need("vbft", rule, Cardinality(S))
  IN /\ Len(hd.bk) >= m
     /\ SetOf(hd.bk) \subseteq S
     /\ NoDup(hd.bk)
     /\ MultiSigOK(hd.bk, hd.sg, m)

(* solo: S is the key list the parent's NextBookkeeper commits to (as a set here; repeats never announced).        *)
(* A bookkeeper address exists for 1..MaxKeys keys only (MULTI_SIG_MAX_PUBKEY_SIZE): since fixes fbe1a29 / ef67c94 a *)
(* header listing no key or more than MaxKeys keys is refused outright (before them every such list hashed to the    *)
(* empty address and matched an empty NextBookkeeper).                                                               *)
MaxKeys == 16
SoloVerify(S, hd) ==
  /\ Len(hd.bk) >= 1 /\ Len(hd.bk) <= MaxKeys
  /\ SortKeys(hd.bk) = SortedSeq(S)
  /\ MultiSigOK(hd.bk, hd.sg, BftThr(Len(hd.bk)))

Verify(mode, rule, S, hd) == IF mode = "vbft" THEN VbftVerify(rule, S, hd) ELSE SoloVerify(S, hd)

Announces(mode, hd) == mode = "solo" \/ Len(hd.cfg) > 0
NextSet(mode, S, hd) == IF Announces(mode, hd) THEN SetOf(hd.cfg) ELSE S

(* ---------------------------------------------------------------- monitor *)
Signers(S, hd) == {v \in S : \E i \in 1..Len(hd.sg) : hd.sg[i] = v}
Quorum(mode, rule, S, hd) == Cardinality(Signers(S, hd)) >= Need(mode, rule, Cardinality(S))
Canonical(mode, rule, S, hd) ==
  /\ hd.sg = hd.bk /\ NoDup(hd.bk) /\ hd.body = "ok"
  /\ IF mode = "vbft" THEN SetOf(hd.bk) \subseteq S /\ Len(hd.bk) >= Need(mode, rule, Cardinality(S))
                      ELSE SetOf(hd.bk) = S /\ Cardinality(S) <= MaxKeys   \* no address, hence no canonical header, beyond MaxKeys
MonSafety(mode, rule, S, hd, acc) == acc => Quorum(mode, rule, S, hd)
MonRule(mode, rule, S, hd, acc)   == Canonical(mode, rule, S, hd) => acc
MonNext(mode, S, hd, acc)         == IF acc THEN NextSet(mode, S, hd) ELSE S

(* ------------------------------------------------- theorem (design level) *)
(* every header over a small id universe, every set in force: the code-shaped test implies the monitor   *)
Universe == 0..(N + 1)
SmallSeqs(U, L) == UNION {[1..k -> U] : k \in 0..L}
ThmRoots == [S : (SUBSET (1..N)) \ {{}}, bk : SmallSeqs(1..(N + 1), 3), rule : {"legacy", "bft"}]
ThmSigs == SmallSeqs(Universe, 3)
ThmOK(r) == LET hd == [bk |-> r.bk, sg |-> r.sg, cfg |-> <<>>, body |-> "ok"]
            IN /\ MonSafety("vbft", r.rule, r.S, hd, VbftVerify(r.rule, r.S, hd))
               /\ MonRule("vbft", r.rule, r.S, hd, VbftVerify(r.rule, r.S, hd))
               /\ MonSafety("solo", "bft", r.S, hd, SoloVerify(r.S, hd))
               /\ MonRule("solo", "bft", r.S, hd, SoloVerify(r.S, hd))

(* ------------------------------------------------------------ P-TABLE rows *)
(* validators of a table world are 1..n, n+1 and n+2 are outsiders; T = who signs *)
G  == 1..N
SignerSets(n) == IF n <= FullN THEN SUBSET (1..n) ELSE {1..k : k \in 0..n} \cup {(1..n) \ {1}}
Upd(s, i, x) == [s EXCEPT ![i] = x]
Row(v, bk, sg) == [v |-> v, bk |-> bk, sg |-> sg]

VbftVariants(n, T) ==
  LET b  == SortedSeq(T)
      k  == Len(b)
      O1 == n + 1
      O2 == n + 2
  IN {Row("plain", b, b), Row("nosigs", b, <<>>), Row("surplus-bad", b, b \o <<0>>),
      Row("foreign-last", b \o <<O1>>, b \o <<O1>>), Row("foreign-first", <<O1>> \o b, <<O1>> \o b),
      Row("foreign-key-only", b \o <<O1>>, b), Row("foreign-sig-extra", b, b \o <<O1>>)}
     \cup (IF k >= 1 THEN
            {Row("sigs-reversed", b, Rev(b)), Row("dup-last", b \o <<b[1]>>, b \o <<b[1]>>),
             Row("dup-front", <<b[1]>> \o b, <<b[1]>> \o b), Row("dup-sig", b, <<b[1]>> \o b),
             Row("dup-key-one-sig", <<b[1]>> \o b, b),
             Row("bad-first", b, Upd(b, 1, 0)), Row("bad-last", b, Upd(b, k, 0)),
             Row("few-sigs", b, SubSeq(b, 1, k - 1)), Row("all-bad", b, [i \in 1..k |-> 0]),
             Row("foreign-replaces-first", Upd(b, 1, O1), Upd(b, 1, O1)),
             Row("bad-then-good", b, <<0>> \o b),
             \* genuine validators listed first but not signing, outsiders listed behind them and signing: a membership
             \* test that looks only at a prefix of the key list, followed by a multi-signature test over the whole list
             Row("idle-members-outsiders-sign", b \o <<O1, O2>>, <<O1, O2>>),
             Row("idle-members-one-outsider-signs", b \o <<O1>>, <<O1>>),
             Row("outsiders-then-idle-members", <<O1, O2>> \o b, <<O1, O2>>)}
            \cup {Row("unlisted-member-sig", b, Upd(b, 1, x)) : x \in (IF (1..n) \ T = {} THEN {} ELSE {Min((1..n) \ T)})}
           ELSE {Row("foreign-only-two", <<O1, O2>>, <<O1, O2>>)})

(* solo: the header must list the whole committed key list; T = who really signs *)
SoloVariants(n, T) ==
  LET full == Seq1(n)
      s    == SortedSeq(T)
      k    == Len(s)
      O1   == n + 1
  IN {Row("plain", full, s), Row("keys-reversed", Rev(full), s), Row("sigs-reversed", full, Rev(s)),
      Row("keys-subset", s, s), Row("surplus-bad", full, s \o <<0>>), Row("bad-then-good", full, <<0>> \o s),
      Row("foreign-extra-key", full \o <<O1>>, s \o <<O1>>),
      Row("foreign-replaces-first", Upd(full, 1, O1), (IF 1 \in T THEN Upd(s, 1, O1) ELSE <<O1>> \o s)),
      Row("dup-key", full \o <<1>>, s \o <<1>>), Row("outsiders-only", [i \in 1..n |-> n + i], [i \in 1..k |-> n + i])}
     \cup (IF k >= 1 THEN {Row("dup-sig", full, <<s[1]>> \o s), Row("bad-first", full, Upd(s, 1, 0)),
                           Row("bad-last", full, Upd(s, k, 0)), Row("all-bad", full, [i \in 1..k |-> 0])}
           ELSE {})

(* the whole table of one run: three worlds families, each over its own set of sizes *)
Worlds == {[mode |-> "vbft", rule |-> "legacy", n |-> n] : n \in NsLegacy}
          \cup {[mode |-> "vbft", rule |-> "bft", n |-> n] : n \in NsBft}
          \cup {[mode |-> "solo", rule |-> "bft", n |-> n] : n \in NsSolo}
WorldRows(w) == UNION {IF w.mode = "vbft" THEN VbftVariants(w.n, T) ELSE SoloVariants(w.n, T) : T \in SignerSets(w.n)}

TableOut(w, r) ==
  LET hd == [bk |-> r.bk, sg |-> r.sg, cfg |-> (IF w.mode = "solo" THEN Seq1(w.n) ELSE <<>>), body |-> "ok"]
      S  == 1..w.n
  IN [mode |-> w.mode, rule |-> w.rule, n |-> w.n, v |-> r.v, bk |-> r.bk, sg |-> r.sg, cfg |-> hd.cfg,
      exp |-> Verify(w.mode, w.rule, S, hd), quorum |-> Quorum(w.mode, w.rule, S, hd),
      canon |-> Canonical(w.mode, w.rule, S, hd), need |-> Need(w.mode, w.rule, w.n)]

(* ----------------------------------------------------------- P-REPLAY model *)
Bodies == {"ok", "bad"}
Alphabet == [bk : {SortedSeq(x) : x \in Lists},
             cfg : (IF Mode = "solo" THEN {} ELSE {<<>>}) \cup {SortedSeq(c) : c \in Cfgs},    \* solo headers always commit to a list
             body : Bodies]
Hd(a) == [bk |-> a.bk, sg |-> a.bk, cfg |-> a.cfg, body |-> a.body]

HdrStep(a) ==                       \* AddHeader: nothing can fail after verifyHeader
  LET hd  == Hd([a EXCEPT !.body = "ok"])
      acc == Verify(Mode, Rule, st.fh, hd)
      f2  == IF acc THEN NextSet(Mode, st.fh, hd) ELSE st.fh
  IN /\ a.body = "ok"
     /\ st' = [st EXCEPT !.fh = f2, !.gh = MonNext(Mode, st.gh, hd, acc)]
     /\ h' = Append(h, [op |-> "hdr", hd |-> hd, acc |-> acc, set |-> SortedSeq(f2)])

BlkStep(op, a) ==                   \* SubmitBlock ("sub") / AddBlock ("add")
  LET hd  == Hd(a)
      ver == Verify(Mode, Rule, st.fb, hd)
      acc == ver /\ a.body = "ok"
      f2  == IF (IF AsIs THEN ver ELSE acc) THEN NextSet(Mode, st.fb, hd) ELSE st.fb
  IN /\ st' = [st EXCEPT !.fb = f2, !.gb = MonNext(Mode, st.gb, hd, acc)]
     /\ h' = Append(h, [op |-> op, hd |-> hd, acc |-> acc, set |-> SortedSeq(f2)])

(* ------------------------------------------------------------------ spec *)
Init == \/ /\ Kind = "theorem" /\ st \in ThmRoots /\ h = <<>>
        \/ /\ Kind = "table" /\ st \in Worlds /\ h = <<>>
        \/ /\ Kind = "replay" /\ st = [fh |-> G, fb |-> G, gh |-> G, gb |-> G] /\ h = <<>>

Decide == /\ Kind = "table" /\ h = <<>> /\ h' = <<"row">>
          /\ \E r \in WorldRows(st) :
               /\ st' = TableOut(st, r)
               /\ (~EmitOn \/ PrintT(<<"ROW", ToJson(st')>>))

Step == /\ Kind = "replay" /\ Len(h) < D
        /\ \E a \in Alphabet :
             \/ ("hdr" \in Paths /\ HdrStep(a))
             \/ \E op \in Paths \ {"hdr"} : BlkStep(op, a)

ThmStep == /\ Kind = "theorem" /\ h = <<>> /\ h' = <<"row">>
           /\ \E sg \in ThmSigs : st' = [S |-> st.S, bk |-> st.bk, rule |-> st.rule, sg |-> sg]

Next == Decide \/ Step \/ ThmStep
Spec == Init /\ [][Next]_vars

Emit == IF Kind = "replay" /\ EmitOn /\ Len(h) = D THEN PrintT(<<"TRACE", ToJson(h)>>) /\ FALSE ELSE TRUE

(* the property on the design *)
PropC14 ==
  /\ Kind = "theorem" /\ h # <<>> => ThmOK(st)
  /\ Kind = "table" /\ h # <<>> => (st.exp => st.quorum) /\ (st.canon => st.exp)
  /\ Kind = "replay" => st.fh = st.gh /\ st.fb = st.gb      \* SetOnly: the node's sets are the sets in force

(* action-level monitor for the replay model: every accepted step had a quorum of the set in force before *)
PropC14Step ==
  [][Kind = "replay" /\ Len(h') = Len(h) + 1 =>
       LET e == h'[Len(h')]
           S == IF e.op = "hdr" THEN st.gh ELSE st.gb
       IN MonSafety(Mode, Rule, S, e.hd, e.acc) /\ MonRule(Mode, Rule, S, e.hd, e.acc)]_vars
=============================================================================
