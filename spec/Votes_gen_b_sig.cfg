SPECIFICATION Spec
CONSTANTS Addrs = {"a","b","c","x"}
          EpochSets = {{"a","b","c"},{"a","b"}}
          InitCons = {"a","b","c"}
          Ids = {"m1","m2"}
          Mode = "sig"
          EmitOn = TRUE
VIEW View
INVARIANT OnceC25
PROPERTY PropC25
CHECK_DEADLOCK FALSE
