SPECIFICATION Spec
CONSTANTS N = 7
          C = 2
          Props = {1, 2, 3}
          Endrs = {3, 4, 5, 6, 7}
          VerifyCarried = TRUE
          MaxMsgs = 4
          Alpha <- A7Genuine
          EmitOn = FALSE
VIEW View
INVARIANT PropC41
CONSTRAINT Bound
CHECK_DEADLOCK FALSE
