SPECIFICATION Spec
CONSTANTS EmitOn = FALSE
          Thorough = FALSE
          NPerm = 6
          NCombo = 3
          CutBound = 200
          ModelMut = "nosort"
INVARIANT PropRoundTrip
INVARIANT PropCanonical
INVARIANT PropTotal
CHECK_DEADLOCK FALSE
