SPECIFICATION Spec
CONSTANTS PWs = {"p1", "p2", "p3"}
          Labels = {"A"}
          MaxAcc = 2
          MaxId = 2
          InitParams = {"default", "low"}
          ConvTo = {"default", "low"}
          NewEnc = "wallet"
          MaxHist = 3
          EmitOn = TRUE
VIEW View
INVARIANT PropC43
CHECK_DEADLOCK FALSE
