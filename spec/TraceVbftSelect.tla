--------------------------- MODULE TraceVbftSelect ---------------------------
(* C40, code -> spec: calls of the real calcParticipant / calcParticipantPeers / buildParticipantConfig recorded by
   harness/cmd/vd-vbft (inputs and outputs).  TLC recomputes every output with the transcription in VbftSelect
   (conf) and evaluates the monitor predicates on the LOGGED output (mon).  An event with conf or mon false prints
   one VERDICT line; the log is accepted when every event was consumed. *)
EXTENDS VbftSelect, TLCExt, Json
VARIABLES l, nn, cc, pool
TraceLog == ndJsonDeserialize("trace.ndjson")
tvars == <<vrf0, tbl0, new0, l, nn, cc, pool>>
Ev == TraceLog[l]

TCfg == /\ l <= Len(TraceLog) /\ Ev.op = "cfg" /\ l' = l + 1
        /\ tbl0' = Ev.tbl /\ nn' = Ev.n /\ cc' = Ev.c /\ pool' = Range(Ev.pool) /\ UNCHANGED <<vrf0, new0>>
        /\ LET mon == /\ Ev.same                                   \* the table is a function of (pool, height)
                      /\ Range(Ev.tbl) = Range(Ev.pool)            \* built from the governance pool, every member has a slot
                      /\ Ev.n = Cardinality(Range(Ev.pool))
           IN mon \/ PrintT(<<"VERDICT", ToJson([l |-> l, conf |-> TRUE, mon |-> FALSE])>>)

Verdict(conf, mon) == (conf /\ mon) \/ PrintT(<<"VERDICT", ToJson([l |-> l, conf |-> conf, mon |-> mon])>>)

TBuild == /\ l <= Len(TraceLog) /\ Ev.op = "build" /\ l' = l + 1 /\ UNCHANGED <<vrf0, tbl0, new0, nn, cc, pool>>
          /\ LET got == [err |-> Ev.err, p |-> Ev.p, e |-> Ev.e, c |-> Ev.c]
             IN Verdict(~Ev.re \/ got = Build(Ev.vrf, tbl0, nn, cc), WellFormed(got, tbl0, cc) /\ Ev.same)   \* re: recompute this draw

TPeers == /\ l <= Len(TraceLog) /\ Ev.op = "peers" /\ l' = l + 1 /\ UNCHANGED <<vrf0, tbl0, new0, nn, cc, pool>>
          /\ Verdict(Ev.out = CalcPeers(Ev.vrf, tbl0, nn, cc, Ev.kind, Ev.props),
                     WellFormedPeers(Ev.out, tbl0, nn, cc, Ev.kind, Ev.props) /\ Ev.same)

TPart == /\ l <= Len(TraceLog) /\ Ev.op = "part" /\ l' = l + 1 /\ UNCHANGED <<vrf0, tbl0, new0, nn, cc, pool>>
         /\ Verdict(Ev.out = CalcParticipant(Ev.vrf, tbl0, Ev.k), Ev.out = NoPeer \/ Ev.out \in Range(tbl0))

\* Server.updateParticipantConfig for the round after block b-1: Ev.cur = the node's Server.config, Ev.new = the
\* NewChainConfig carried by block b-1 (tbl = <<>>: none); Ev.same: a node whose Server.config is already the config in
\* force derives the same selection from the same block
TRound == /\ l <= Len(TraceLog) /\ Ev.op = "round" /\ l' = l + 1 /\ UNCHANGED <<vrf0, tbl0, new0, nn, cc, pool>>
          /\ LET got == [err |-> Ev.err, p |-> Ev.p, e |-> Ev.e, c |-> Ev.c]
                 f   == InForce(Ev.cur, Ev.new)
             IN Verdict(got = RoundBuild(Ev.vrf, Ev.cur, Ev.new), WellFormed(got, f.tbl, f.c) /\ Ev.same)

TraceInit == TLCSet(1, 1) /\ vrf0 = <<>> /\ tbl0 = <<>> /\ new0 = <<>> /\ l = 1 /\ nn = 0 /\ cc = 0 /\ pool = {}
TraceNext == TCfg \/ TBuild \/ TPeers \/ TPart \/ TRound
TraceSpec == TraceInit /\ [][TraceNext]_tvars
HighWater == TLCSet(1, IF TLCGet(1) < l THEN l ELSE TLCGet(1))
Accepted == PrintT(<<"HIGHWATER", TLCGet(1)>>) /\ TLCGet(1) = Len(TraceLog) + 1
=============================================================================
