SPECIFICATION Spec
CONSTANTS Table = "c07"
          N = 17
          Sizes = {}
          Doubles = FALSE
          PoolMode = "full"
          Lab = "id"
          EmitOn = TRUE
INVARIANT PropC07
CHECK_DEADLOCK FALSE
