SPECIFICATION Spec
CONSTANTS K = 2
          Vals = {"x", "y", "z"}
          Ranges = {12, 11, 22, 10}
          WithBatch = FALSE
          Mode = "edge"
          Depth = 0
VIEW View
INVARIANT PropC10
INVARIANT PropC11
CHECK_DEADLOCK FALSE
