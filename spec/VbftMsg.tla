------------------------------ MODULE VbftMsg ------------------------------
(***************************************************************************)
(* C44 - VBFT consensus messages round-trip and signatures bind their      *)
(* content (consensus/vbft/msg_types.go, msg_builder.go, types.go,         *)
(* p2pserver/message/types/consensus_payload.go).                          *)
(*                                                                         *)
(* Part A, wire.  The ten message kinds with their type code, their fields *)
(* (Go name, JSON key, kind) and their payload format: a JSON object, the  *)
(* vbft block encoding (proposal) or the binary fetch response.  The       *)
(* envelope is {"type", "len", "payload"}; DeserializeVbftMsg dispatches   *)
(* on the code.  Field values are symbolic (nil / empty / one / several /  *)
(* boundary numbers); the driver concretizes them, renders the JSON with   *)
(* its own encoder from this table, and runs the real codec.               *)
(*   PropDispatch   the decoder's switch sends every code to the kind      *)
(*                  whose Type() is that code                              *)
(*   PropRoundTrip  Deser(Ser(m)) = m for every kind and filling           *)
(*                                                                         *)
(* Part B, signatures.  Sign / Verify are an ideal pair: a signature is    *)
(* the term [by, over, made] and Verify(k, b, s) <=> s.by = k /\ s.over=b. *)
(* `made` remembers the full content the signer had in hand; `over` is the *)
(* part of it that the code actually serialises into the signed bytes      *)
(* (SerializeUnsigned / Header hash).  The acceptance predicates are in    *)
(* the code's shape: ConsensusPayload.Verify, Block.Deserialize followed   *)
(* by blockProposalMsg.Verify (an undecodable empty block is silently      *)
(* dropped - named EmptyDropped), blockEndorseMsg / blockCommitMsg.Verify. *)
(*   PropBind   accepted => every signature that was checked was made by   *)
(*              the verifying key over exactly the content it is attached  *)
(*              to (Genuine)                                               *)
(* Every single-field mutation after signing, key swaps and signature      *)
(* transplants are rows of the table; the driver replays each with real    *)
(* keys (ECDSA P-256, SM2, Ed25519) and real encodings.                    *)
(***************************************************************************)
EXTENDS Integers, Sequences, FiniteSets, TLC, Json

CONSTANTS EmitOn,
          ModelMut    \* "none"; self-tests: "cp-skip-data", "hash-skip-payload", "dispatch-swap"

VARIABLES row

(* ------------------------------------------------------------------------ *)
(* Part A: message kinds                                                    *)
(* ------------------------------------------------------------------------ *)
Fd(n, j, t) == [n |-> n, j |-> j, t |-> t]
Kinds == <<
  [name |-> "blockProposalMsg", code |-> 0, wire |-> "vblock",
   fs |-> <<Fd("Block", "block", "vblock")>>],
  [name |-> "blockEndorseMsg", code |-> 1, wire |-> "json",
   fs |-> <<Fd("Endorser", "endorser", "u32"), Fd("EndorsedProposer", "endorsed_proposer", "u32"), Fd("BlockNum", "block_num", "u32"),
            Fd("EndorsedBlockHash", "endorsed_block_hash", "hash"), Fd("EndorseForEmpty", "endorse_for_empty", "bool"),
            Fd("FaultyProposals", "faulty_proposals", "faulty"), Fd("ProposerSig", "proposer_sig", "bytes"),
            Fd("EndorserSig", "endorser_sig", "bytes")>>],
  [name |-> "blockCommitMsg", code |-> 2, wire |-> "json",
   fs |-> <<Fd("Committer", "committer", "u32"), Fd("BlockProposer", "block_proposer", "u32"), Fd("BlockNum", "block_num", "u32"),
            Fd("CommitBlockHash", "commit_block_hash", "hash"), Fd("CommitForEmpty", "commit_for_empty", "bool"),
            Fd("FaultyVerifies", "faulty_verifies", "faulty"), Fd("ProposerSig", "proposer_sig", "bytes"),
            Fd("EndorsersSig", "endorsers_sig", "u32map"), Fd("CommitterSig", "committer_sig", "bytes")>>],
  [name |-> "peerHandshakeMsg", code |-> 3, wire |-> "json",
   fs |-> <<Fd("CommittedBlockNumber", "committed_block_number", "u32"), Fd("CommittedBlockHash", "committed_block_hash", "hash"),
            Fd("CommittedBlockLeader", "committed_block_leader", "u32"), Fd("ChainConfig", "chain_config", "chaincfg")>>],
  [name |-> "peerHeartbeatMsg", code |-> 4, wire |-> "json",
   fs |-> <<Fd("CommittedBlockNumber", "committed_block_number", "u32"), Fd("CommittedBlockHash", "committed_block_hash", "hash"),
            Fd("CommittedBlockLeader", "committed_block_leader", "u32"), Fd("Endorsers", "endorsers", "byteslist"),
            Fd("EndorsersSig", "endorsers_sig", "byteslist"), Fd("ChainConfigView", "chain_config_view", "u32")>>],
  [name |-> "BlockInfoFetchMsg", code |-> 5, wire |-> "json",
   fs |-> <<Fd("StartBlockNum", "start_block_num", "u32")>>],
  [name |-> "BlockInfoFetchRespMsg", code |-> 6, wire |-> "json",
   fs |-> <<Fd("Blocks", "blocks", "blockinfos")>>],
  [name |-> "proposalFetchMsg", code |-> 7, wire |-> "json",
   fs |-> <<Fd("ProposerID", "proposer_id", "u32"), Fd("BlockNum", "block_num", "u32")>>],
  [name |-> "blockFetchMsg", code |-> 8, wire |-> "json",
   fs |-> <<Fd("BlockNum", "block_num", "u32")>>],
  [name |-> "BlockFetchRespMsg", code |-> 9, wire |-> "fetchresp",
   fs |-> <<Fd("BlockNumber", "block_number", "u32"), Fd("BlockHash", "block_hash", "hash"), Fd("BlockData", "block_data", "vblock")>>]
>>
NKinds == Len(Kinds)

(* the switch of DeserializeVbftMsg, transcribed case by case: code -> index of the kind it instantiates *)
Dispatch(c) == CASE c = 0 -> 1 [] c = 1 -> 2 [] c = 2 -> 3 [] c = 3 -> 4 [] c = 4 -> 5 [] c = 5 -> 6 [] c = 6 -> 7
                 [] c = 8 -> (IF ModelMut = "dispatch-swap" THEN 8 ELSE 9)
                 [] c = 9 -> 10
                 [] c = 7 -> (IF ModelMut = "dispatch-swap" THEN 9 ELSE 8)
                 [] OTHER -> 0

(* symbolic values per field kind; the first is the default filling *)
Menu(t) == CASE t = "u32" -> <<"rnd", "zero", "max", "one">>
             [] t = "bool" -> <<"true", "false">>
             [] t = "hash" -> <<"rnd", "zero", "ff">>
             [] t = "bytes" -> <<"rnd", "nil", "empty", "one">>
             [] t = "byteslist" -> <<"two", "nil", "empty", "one", "withempty">>
             [] t = "u32map" -> <<"three", "nil", "empty", "one">>          \* three: keys 2, 10, 1 (JSON sorts them as strings)
             [] t = "faulty" -> <<"two", "nil", "empty", "one">>
             [] t = "chaincfg" -> <<"full", "nil", "nopeers">>
             [] t = "blockinfos" -> <<"two", "nil", "empty", "one">>
             [] t = "vblock" -> <<"withempty", "noempty", "withtx", "newconfig">>

(* the wire form of a symbolic value: which JSON shape the encoder emits, and what the decoder makes of that shape *)
Shape(t, v) == IF t \in {"u32", "bool", "hash", "vblock"} THEN <<"scalar", v>>
               ELSE IF v = "nil" THEN <<"null">>
               ELSE <<"composite", v>>
Unshape(t, s) == IF s[1] = "null" THEN "nil" ELSE s[2]
SerMsg(k, vals) == [code |-> Kinds[k].code, payload |-> [i \in 1..Len(vals) |-> Shape(Kinds[k].fs[i].t, vals[i])]]
DeserMsg(w) == LET k == Dispatch(w.code)
               IN IF k = 0 THEN [ok |-> FALSE, k |-> 0, vals |-> <<>>]
                  ELSE [ok |-> TRUE, k |-> k,
                        vals |-> [i \in 1..Len(w.payload) |-> Unshape(Kinds[k].fs[i].t, w.payload[i])]]

Fillings(k) == LET fs == Kinds[k].fs
                   d == [i \in 1..Len(fs) |-> Menu(fs[i].t)[1]]
               IN {d} \cup {[d EXCEPT ![i] = Menu(fs[i].t)[j]] : <<i, j>> \in
                              {q \in (1..Len(fs)) \X (1..5) : q[2] >= 2 /\ q[2] <= Len(Menu(fs[q[1]].t))}}

(* ------------------------------------------------------------------------ *)
(* Part B: ideal signatures and the acceptance predicates                   *)
(* ------------------------------------------------------------------------ *)
KeyIds == {"k1", "k2"}
Junk == [by |-> "nobody", over |-> <<"junk">>, made |-> <<"junk">>]
NoSig == [by |-> "nobody", over |-> <<"none">>, made |-> <<"none">>]     \* empty SigData / empty signature bytes
IdealVerify(k, over, s) == s.by = k /\ s.over = over

Proj(f, names) == [i \in 1..Len(names) |-> <<names[i], f[names[i]]>>]

(* --- ConsensusPayload ---------------------------------------------------- *)
CPFields == <<"Version", "PrevHash", "Height", "BookkeeperIndex", "Timestamp", "Data">>
CPCovered == IF ModelMut = "cp-skip-data" THEN <<"Version", "PrevHash", "Height", "BookkeeperIndex", "Timestamp">> ELSE CPFields
CPSign(k, f) == [by |-> k, over |-> Proj(f, CPCovered), made |-> Proj(f, CPFields)]
CPBase == LET f == [x \in {CPFields[i] : i \in 1..6} |-> "a"]
          IN [f |-> f, owner |-> "k1", sig |-> CPSign("k1", f), peerid |-> "a"]
CPMuts == {[op |-> "none", x |-> ""], [op |-> "peerid", x |-> ""], [op |-> "owner", x |-> ""], [op |-> "resign-other-key", x |-> ""],
           [op |-> "junk-sig", x |-> ""], [op |-> "empty-sig", x |-> ""]}
          \cup {[op |-> "set", x |-> CPFields[i]] : i \in 1..6}
          \cup {[op |-> "sig-of-other-content", x |-> CPFields[i]] : i \in 1..6}
CPApply(p, m) ==
    CASE m.op = "none" -> p
      [] m.op = "peerid" -> [p EXCEPT !.peerid = "b"]
      [] m.op = "owner" -> [p EXCEPT !.owner = "k2"]
      [] m.op = "resign-other-key" -> [p EXCEPT !.sig = CPSign("k2", p.f)]
      [] m.op = "junk-sig" -> [p EXCEPT !.sig = Junk]
      [] m.op = "empty-sig" -> [p EXCEPT !.sig = NoSig]
      [] m.op = "set" -> [p EXCEPT !.f[m.x] = "b"]
      [] m.op = "sig-of-other-content" -> [p EXCEPT !.sig = CPSign("k1", [p.f EXCEPT ![m.x] = "b"])]
CPAccept(p) == IdealVerify(p.owner, Proj(p.f, CPCovered), p.sig)        \* ConsensusPayload.Verify
CPGenuine(p) == p.sig.by = p.owner /\ p.sig.made = Proj(p.f, CPFields)

(* --- block proposal ------------------------------------------------------ *)
HFields == <<"Version", "ChainID", "PrevBlockHash", "TransactionsRoot", "CrossStateRoot", "BlockRoot", "Timestamp", "Height",
             "ConsensusData", "ConsensusPayload", "NextBookkeeper">>
HCovered == IF ModelMut = "hash-skip-payload"
            THEN <<"Version", "ChainID", "PrevBlockHash", "TransactionsRoot", "CrossStateRoot", "BlockRoot", "Timestamp", "Height",
                   "ConsensusData", "NextBookkeeper">>
            ELSE HFields
HSet == {HFields[i] : i \in 1..Len(HFields)}
(* a block: header fields, the transaction list (its Merkle root is the id of the list), SigData[0], Bookkeepers *)
Content(b) == <<Proj(b.h, HFields), b.txs>>
BSign(k, b) == [by |-> k, over |-> Proj(b.h, HCovered), made |-> Content(b)]
MkBlock(k, txs) == LET b0 == [h |-> [x \in HSet |-> IF x = "TransactionsRoot" THEN txs ELSE "a"], txs |-> txs, bk |-> "a", sig |-> NoSig]
                   IN [b0 EXCEPT !.sig = BSign(k, b0)]
Absent == [h |-> [x \in HSet |-> "-"], txs |-> "-", bk |-> "-", sig |-> NoSig]
PBase(withEmpty) == [blk |-> MkBlock("k1", "a"), emp |-> IF withEmpty THEN MkBlock("k1", "e") ELSE Absent]

PMuts == {[op |-> "none", which |-> "", x |-> ""], [op |-> "verify-with-other-key", which |-> "", x |-> ""],
          [op |-> "drop-empty", which |-> "emp", x |-> ""]}
         \cup {[op |-> o, which |-> w, x |-> ""] : o \in {"txs", "txs+root", "bookkeepers", "resign-other-key", "junk-sig", "no-sigdata",
                                                          "sig-of-other-block"}, w \in {"blk", "emp"}}
         \cup {[op |-> "set", which |-> w, x |-> HFields[i]] : w \in {"blk", "emp"}, i \in 1..Len(HFields)}
BApply(b, m) ==
    CASE m.op = "txs" -> [b EXCEPT !.txs = "b"]
      [] m.op = "txs+root" -> [b EXCEPT !.txs = "b", !.h["TransactionsRoot"] = "b"]
      [] m.op = "bookkeepers" -> [b EXCEPT !.bk = "b"]
      [] m.op = "resign-other-key" -> [b EXCEPT !.sig = BSign("k2", b)]
      [] m.op = "junk-sig" -> [b EXCEPT !.sig = Junk]
      [] m.op = "no-sigdata" -> [b EXCEPT !.sig = NoSig]
      [] m.op = "sig-of-other-block" -> [b EXCEPT !.sig = BSign("k1", [b EXCEPT !.h["Height"] = "b"])]
      [] m.op = "set" -> [b EXCEPT !.h[m.x] = "b"]
PApply(p, m) ==
    CASE m.op \in {"none", "verify-with-other-key"} -> p
      [] m.op = "drop-empty" -> [p EXCEPT !.emp = Absent]
      [] m.which = "blk" -> [p EXCEPT !.blk = BApply(p.blk, m)]
      [] m.which = "emp" -> [p EXCEPT !.emp = BApply(p.emp, m)]
PubOf(m) == IF m.op = "verify-with-other-key" THEN "k2" ELSE "k1"

(* types.Block.Deserialization: the header decoder refuses a version above the current one (0, so any other value),   *)
(* the block decoder refuses a transaction list whose Merkle root is not the header's                               *)
RootOk(b) == b.h["TransactionsRoot"] = b.txs /\ b.h["Version"] = "a"
(* Block.Deserialize: the first block must decode; a second block that does not decode is dropped without an error *)
PDecode(p) == IF ~RootOk(p.blk) THEN [ok |-> FALSE, p |-> p]
              ELSE IF p.emp # Absent /\ ~RootOk(p.emp) THEN [ok |-> TRUE, p |-> [p EXCEPT !.emp = Absent]]     \* EmptyDropped
              ELSE [ok |-> TRUE, p |-> p]
BVerify(pub, b) == b.sig # NoSig /\ IdealVerify(pub, Proj(b.h, HCovered), b.sig)
PVerify(pub, p) == BVerify(pub, p.blk) /\ (p.emp # Absent => BVerify(pub, p.emp))     \* blockProposalMsg.Verify
PAccept(pub, p) == LET d == PDecode(p) IN d.ok /\ PVerify(pub, d.p)
BGenuine(pub, b) == b.sig.by = pub /\ b.sig.made = Content(b)
PGenuine(pub, p) == LET d == PDecode(p).p IN BGenuine(pub, d.blk) /\ (d.emp # Absent => BGenuine(pub, d.emp))

(* --- endorsement / commit: the signature is over the block hash only (the other fields ride on the    *)
(* --- ConsensusPayload signature); listed so that the driver observes it, not part of PropBind's claim *)
VFields == <<"Who", "Proposer", "BlockNum", "BlockHash", "ForEmpty", "Faulty", "ProposerSig">>
VCovered == <<"BlockHash">>
VSign(k, f) == [by |-> k, over |-> Proj(f, VCovered), made |-> Proj(f, VFields)]
VBase == LET f == [x \in {VFields[i] : i \in 1..Len(VFields)} |-> "a"] IN [f |-> f, sig |-> VSign("k1", f)]
VMuts == {[op |-> "none", x |-> ""], [op |-> "verify-with-other-key", x |-> ""], [op |-> "resign-other-key", x |-> ""],
          [op |-> "junk-sig", x |-> ""], [op |-> "empty-sig", x |-> ""]}
         \cup {[op |-> "set", x |-> VFields[i]] : i \in 1..Len(VFields)}
VApply(p, m) == CASE m.op \in {"none", "verify-with-other-key"} -> p
                  [] m.op = "resign-other-key" -> [p EXCEPT !.sig = VSign("k2", p.f)]
                  [] m.op = "junk-sig" -> [p EXCEPT !.sig = Junk]
                  [] m.op = "empty-sig" -> [p EXCEPT !.sig = NoSig]
                  [] m.op = "set" -> [p EXCEPT !.f[m.x] = "b"]
VAccept(pub, p) == p.sig # NoSig /\ IdealVerify(pub, Proj(p.f, VCovered), p.sig)
VGenuineHash(pub, p) == p.sig.by = pub /\ p.sig.over = Proj(p.f, VCovered)       \* what these two Verify methods do claim

(* ------------------------------------------------------------------------ *)
(* rows                                                                     *)
(* ------------------------------------------------------------------------ *)
WireRows == UNION {{<<"wire", k, v>> : v \in Fillings(k)} : k \in 1..NKinds}
CPRows == {<<"cp", 0, m>> : m \in CPMuts}
PRows == {<<"proposal", e, m>> : e \in {0, 1}, m \in {x \in PMuts : TRUE}}
VRows == {<<"endorse", 0, m>> : m \in VMuts} \cup {<<"commit", 0, m>> : m \in VMuts}
PRowOk(r) == r[1] # "proposal" \/ r[2] = 1 \/ r[3].which # "emp"         \* no mutation of an empty block that is not there

Init == row \in WireRows \cup CPRows \cup {r \in PRows : PRowOk(r)} \cup VRows

Fam == row[1]
Verdict ==
    CASE Fam = "wire" -> [fam |-> "wire", kind |-> Kinds[row[2]].name, code |-> Kinds[row[2]].code, wire |-> Kinds[row[2]].wire,
                          fs |-> Kinds[row[2]].fs, vals |-> row[3]]
      [] Fam = "cp" -> LET p == CPApply(CPBase, row[3])
                       IN [fam |-> "cp", mut |-> row[3], accept |-> CPAccept(p), genuine |-> CPGenuine(p)]
      [] Fam = "proposal" -> LET p == PApply(PBase(row[2] = 1), row[3])
                                 pub == PubOf(row[3])
                             IN [fam |-> "proposal", withempty |-> row[2] = 1, mut |-> row[3], decodes |-> PDecode(p).ok,
                                 emptydropped |-> PDecode(p).ok /\ PDecode(p).p # p,
                                 accept |-> PAccept(pub, p), genuine |-> PGenuine(pub, p)]
      [] Fam \in {"endorse", "commit"} ->
                       LET p == VApply(VBase, row[3])
                           pub == PubOf(row[3])
                       IN [fam |-> Fam, mut |-> row[3], accept |-> VAccept(pub, p), genuine |-> VGenuineHash(pub, p),
                           whole |-> p.sig.by = pub /\ p.sig.made = Proj(p.f, VFields)]

Next == UNCHANGED row /\ (IF EmitOn THEN PrintT(<<"CASE", ToJson(Verdict)>>) ELSE TRUE)
Spec == Init /\ [][Next]_row

(* ------------------------------------------------------------------------ *)
(* the monitor                                                              *)
(* ------------------------------------------------------------------------ *)
PropDispatch == \A k \in 1..NKinds : Dispatch(Kinds[k].code) = k
PropRoundTrip == Fam = "wire" => LET d == DeserMsg(SerMsg(row[2], row[3])) IN d.ok /\ d.k = row[2] /\ d.vals = row[3]
PropBind == /\ Fam = "cp" => LET p == CPApply(CPBase, row[3]) IN CPAccept(p) => CPGenuine(p)
            /\ Fam = "proposal" => LET p == PApply(PBase(row[2] = 1), row[3]) IN PAccept(PubOf(row[3]), p) => PGenuine(PubOf(row[3]), p)
            /\ Fam \in {"endorse", "commit"} => LET p == VApply(VBase, row[3]) IN VAccept(PubOf(row[3]), p) => VGenuineHash(PubOf(row[3]), p)
(* not vacuous: the unmutated messages are accepted *)
PropLive == /\ CPAccept(CPBase) /\ PAccept("k1", PBase(TRUE)) /\ PAccept("k1", PBase(FALSE)) /\ VAccept("k1", VBase)
=============================================================================
