\* C23 EvmProof: canonical chain 200..206, BlocksToWait 2, fork header at 204, deposits in the canonical state from 205
SPECIFICATION Spec
CONSTANTS Mode = "chain"
          G0 = 200
          Best = 206
          Wait = 2
          ForkAt = 204
          DepositAt = 205
          LeadZ = 0
          Heights = {199, 203, 204, 205, 206, 207}
          EmitOn = TRUE
INVARIANT PropC23
CHECK_DEADLOCK FALSE
