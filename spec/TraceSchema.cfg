SPECIFICATION TSpec
CONSTANTS EmitOn = FALSE
          Thorough = FALSE
          NPerm = 1
          NCombo = 0
          CutBound = 700
          ModelMut = "none"
CHECK_DEADLOCK FALSE
