SPECIFICATION TraceSpec
CONSTANTS TopKeys = {"a", "b"}
          SubKeys = {"a", "b"}
CONSTRAINT HighWater
POSTCONDITION Accepted
CHECK_DEADLOCK FALSE
