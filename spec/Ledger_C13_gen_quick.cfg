SPECIFICATION Spec
CONSTANTS MaxH = 4
          MaxCrash = 0
          MaxMut = 2
          MaxLen = 4
          Kinds = {"h_same", "reoffer", "reoffer_old", "h_plus2", "prev_unknown", "prev_old", "ts_eq", "ts_less", "root_bad", "root_stale", "sr_bad", "child_of_fork"}
          HdrOps = {"hdr_next", "hdr_fork"}
          Paths = {"submit", "add"}
          MixPaths = FALSE
          RecoverAsCoded = FALSE
          KeepTreeOnWipe = FALSE
          ParentByLookup = FALSE
          Mode = "offers"
CONSTRAINT Emit
INVARIANT PropC13
CHECK_DEADLOCK FALSE
