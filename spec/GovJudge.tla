------------------------------- MODULE GovJudge -------------------------------
(***************************************************************************)
(* Judge of executions recorded from the REAL governance contracts.        *)
(* judge.ndjson: one recorded execution per line                            *)
(*   [id, g (ghost state of the model state the execution starts in),       *)
(*    init (observation), steps: <<[a (action), r (result), t (obs)]>>]     *)
(* The execution starts in a state that the real contracts reached exactly  *)
(* as the model predicted (projection equal), so the model's ghost state is *)
(* the ghost state of the real execution up to there.                       *)
(* as written by harness/cmd/vd-gov for every edge where the contracts      *)
(* deviate from the model's prediction and for the exploration from the     *)
(* deviating states.  The ghost state is folded over the execution with     *)
(* GovCore!GhostNext and the monitors GovCore!Mon (PropC32..PropC35) are    *)
(* evaluated at every step; the violated clauses are printed per execution. *)
(***************************************************************************)
EXTENDS GovCore

VARIABLE i
Log == ndJsonDeserialize("judge.ndjson")

ToSet(q) == {q[x] : x \in DOMAIN q}
WhoSet(X) == {[id |-> x.id, who |-> ToSet(x.who)] : x \in ToSet(X)}
ObsOf(j) == [area |-> j.area, height |-> j.height, view |-> j.view, cheight |-> j.cheight,
             pool |-> ToSet(j.pool), papply |-> ToSet(j.papply), black |-> ToSet(j.black),
             pidx |-> ToSet(j.pidx), cidx |-> j.cidx,
             signs |-> {[m |-> x.m, q |-> x.q, by |-> ToSet(x.by)] : x \in ToSet(j.signs)},
             sc |-> ToSet(j.sc), scApply |-> ToSet(j.scApply), scUpd |-> ToSet(j.scUpd), scQuit |-> ToSet(j.scQuit),
             rel |-> ToSet(j.rel), relApply |-> WhoSet(j.relApply), relRemove |-> WhoSet(j.relRemove),
             relAid |-> j.relAid, relRid |-> j.relRid,
             sv |-> ToSet(j.sv), svApply |-> WhoSet(j.svApply), svRemove |-> WhoSet(j.svRemove),
             svAid |-> j.svAid, svRid |-> j.svRid]
ActOf(j) == [t |-> j.t, m |-> j.m, q |-> j.q, ks |-> j.ks, id |-> j.id, own |-> j.own, ver |-> j.ver,
             who |-> ToSet(j.who), k |-> j.k, sp |-> j.sp]

RECURSIVE Fold(_, _, _, _, _)
Fold(g, pre, steps, n, acc) ==
    IF n > Len(steps) THEN acc
    ELSE LET a == ActOf(steps[n].a)
             r == steps[n].r
             post == ObsOf(steps[n].t)
             v == Mon(g, pre, a, r, post)
         IN Fold(GhostNext(g, pre, a, r, post), post, steps, n + 1, acc \cup {[n |-> n, p |-> c.p, c |-> c.c] : c \in v})

BySet(X) == {[m |-> x.m, q |-> x.q, by |-> ToSet(x.by)] : x \in ToSet(X)}
GOf(j) == [fresh |-> ToSet(j.fresh), appr |-> BySet(j.appr), old |-> BySet(j.old)]
Judge(tr) == Fold(GOf(tr.g), ObsOf(tr.init), tr.steps, 1, {})

Init == i = 0
Next == /\ i < Len(Log)
        /\ i' = i + 1
        /\ PrintT(<<"VERDICT", ToJson([id |-> Log[i'].id, len |-> Len(Log[i'].steps), bad |-> Judge(Log[i'])])>>)
Spec == Init /\ [][Next]_i
=============================================================================
