SPECIFICATION Spec
CONSTANTS Table = "size"
          Thorough = TRUE
INVARIANT PropC28Model
CHECK_DEADLOCK FALSE
