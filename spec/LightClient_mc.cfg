SPECIFICATION Spec
CONSTANTS Routers <- AllRouters
          SyncRouters <- AllRouters
          Gen = {"g1", "g2", "ghi"}
          Deg = {"gdeg"}
          Bad = {"bad"}
          Shape <- ShapeGuard
          D = 4
          MaxSync = 2
CONSTRAINT Bound
INVARIANT TypeOK
PROPERTY PropC19
CHECK_DEADLOCK FALSE
