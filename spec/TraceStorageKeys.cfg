SPECIFICATION TraceSpec
CONSTANTS MaxVar = 26
          EmitOn = FALSE
CONSTRAINT HighWater
POSTCONDITION Accepted
CHECK_DEADLOCK FALSE
