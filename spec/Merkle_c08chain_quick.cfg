SPECIFICATION Spec
CONSTANTS Table = "c08chain"
          N = 3
          Sizes = {0, 1, 3}
          Doubles = FALSE
          PoolMode = "full"
          Lab = "id"
          EmitOn = TRUE
INVARIANT PropC08
CHECK_DEADLOCK FALSE
