----------------------------- MODULE WalletProp -----------------------------
(* C43, the property itself, shared by Wallet (model + invariant) and TraceWallet (monitor of real observations). *)
NoPw == ""          \* the empty password: never opens anything
Dead == "-"         \* bookkeeping value of an account that is not in the wallet
\* One decryption request for a live account protected by pw, tried with `try`; res in {"ok","fail","none"},
\* sameKey: the returned key pair and address are the account's own.
GetConforms(pw, try, res, sameKey) ==
    /\ res # "none"                                    \* a live account is found ...
    /\ (res = "ok") <=> (try = pw /\ try # NoPw)        \* ... opens with its password and with no other
    /\ (res = "ok") => sameKey                          \* ... to the same key pair and address
=============================================================================
