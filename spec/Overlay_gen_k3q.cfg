SPECIFICATION Spec
CONSTANTS K = 3
          Vals = {"x"}
          Ranges = {13, 12, 23, 10}
          WithBatch = FALSE
          Mode = "edge"
          Depth = 0
VIEW View
INVARIANT PropC10
INVARIANT PropC11
CHECK_DEADLOCK FALSE
