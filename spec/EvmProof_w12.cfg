\* C23 EvmProof: canonical chain 200..214, BlocksToWait 12, fork header at 203, deposits in the canonical state from 201
SPECIFICATION Spec
CONSTANTS Mode = "chain"
          G0 = 200
          Best = 214
          Wait = 12
          ForkAt = 203
          DepositAt = 201
          LeadZ = 0
          Heights = {199, 201, 202, 203, 204, 205, 214, 215}
          EmitOn = TRUE
INVARIANT PropC23
CHECK_DEADLOCK FALSE
