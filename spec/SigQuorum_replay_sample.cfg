\* Sample of a hand-over replay configuration written by checks/C14.py: vbft ledger with validators 1..4 (legacy rule,
\* m = 1), announceable sets {5} (an outsider) and {2,5}, headers signed by {1}, {5}, {2} or nobody, SubmitBlock path.
\* AsIs = TRUE turns the model into the code as it stands (TLC then reports the F11 counterexample).
SPECIFICATION Spec
CONSTANTS Kind = "replay"
          Mode = "vbft"
          Rule = "legacy"
          N = 4
          FullN = 5
          NsLegacy = {}
          NsBft = {}
          NsSolo = {}
          Cfgs = {{5}, {2, 5}}
          Lists = {{1}, {5}, {2}, {}}
          Paths = {"sub"}
          D = 3
          AsIs = FALSE
          EmitOn = TRUE
CONSTRAINT Emit
INVARIANT PropC14
PROPERTY PropC14Step
CHECK_DEADLOCK FALSE
