SPECIFICATION Spec
CONSTANTS Table = "size"
          Thorough = FALSE
INVARIANT PropC28Model
CHECK_DEADLOCK FALSE
