------------------------------ MODULE StateRoot ------------------------------
(***************************************************************************)
(* C11, second anchor: StateStore.AddStateMerkleTreeRoot.                  *)
(* Every block contributes its change digest (Overlay!ChangeDigest) as one *)
(* leaf of the "delta state" Merkle tree, starting at the configured check *)
(* height s; the value stored for height h is the pair (digest, root of    *)
(* the tree over the digests of heights s..h).  Hashes are a free term     *)
(* algebra: <<"L", d>> = leaf hash of digest d, <<"N", l, r>> = inner node,*)
(* <<"Z">> = the zero hash answered below the check height; the driver     *)
(* evaluates terms with the real SHA-256 (RFC 6962 prefixes 0x00 / 0x01).  *)
(* The state root recorded for a block therefore depends only on the       *)
(* sequence of digests, i.e. (by Overlay) on the net write sets.           *)
(* Binding: P-REPLAY - every reachable state (s, ds) is printed once with  *)
(* the predicted root term of every height and of every possible next      *)
(* block (ExecuteResult.MerkleRoot = GetStateMerkleRootWithNewHash).       *)
(***************************************************************************)
EXTENDS Integers, Sequences, TLC, Json
CONSTANTS N,      \* number of blocks
          S,      \* set of state-hash check heights
          D,      \* digest ids
          EmitOn
VARIABLES s, ds   \* ds[i] = digest id of height i-1

RECURSIVE Pow2Below(_, _)
Pow2Below(n, k) == IF 2 * k < n THEN Pow2Below(n, 2 * k) ELSE k     \* largest power of two < n (n >= 2)
RECURSIVE MTH(_)
MTH(q) == IF Len(q) = 1 THEN <<"L", q[1]>>
          ELSE LET k == Pow2Below(Len(q), 1)
               IN <<"N", MTH(SubSeq(q, 1, k)), MTH(SubSeq(q, k + 1, Len(q)))>>
RootOf(q, h) == IF h < s THEN <<"Z">> ELSE MTH(SubSeq(q, s + 1, h + 1))
Root(h) == RootOf(ds, h)
NextRoot(d) == MTH(SubSeq(ds, s + 1, Len(ds)) \o <<d>>)           \* meaningful when the next height is >= s

Init == s \in S /\ ds = <<>>
Add(d) == Len(ds) < N /\ ds' = Append(ds, d) /\ UNCHANGED s
Next == \E d \in D : Add(d)
Spec == Init /\ [][Next]_<<s, ds>>

Emit == ~EmitOn \/
        PrintT(<<"TRACE", ToJson([s |-> s, ds |-> ds,
                                   roots |-> [i \in 1..Len(ds) |-> Root(i - 1)],
                                   next |-> IF Len(ds) >= s THEN [d \in D |-> NextRoot(d)] ELSE <<>>])>>)

(* PropC11R: the recorded root of a height is determined by the digests of heights s..h alone (it does not move when
   later blocks arrive, and the root promised to consensus for the next block is the root recorded once it is added) *)
PropC11R == /\ \A h \in 0..(Len(ds) - 1) : h >= s => Root(h) = MTH(SubSeq(ds, s + 1, h + 1))
            /\ \A h \in 0..(Len(ds) - 1) : h < s => Root(h) = <<"Z">>
PropC11RStep == [][\A d \in D : (ds' = Append(ds, d) /\ Len(ds) >= s) => RootOf(ds', Len(ds)) = NextRoot(d)]_<<s, ds>>
=============================================================================
