SPECIFICATION Spec
CONSTANTS Rel = {"r1", "r2"}
          Val = {"v1", "v2", "v3", "v4"}
          Cand = {"c1"}
          Acts = {"cand", "proc"}
          Outsiders = {"x"}
          MaxReq = 2
          Depth = 30
          EmitOn = FALSE
CONSTRAINT WalkEmit
CHECK_DEADLOCK FALSE
