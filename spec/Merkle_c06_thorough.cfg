SPECIFICATION Spec
CONSTANTS Table = "c06"
          N = 100
          Sizes = {}
          Doubles = FALSE
          PoolMode = "full"
          Lab = "id"
          EmitOn = TRUE
INVARIANT PropC06
CHECK_DEADLOCK FALSE
