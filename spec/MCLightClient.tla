--------------------------- MODULE MCLightClient ---------------------------
(* Constants for the C19 configurations: the router list and the three shape assignments. *)
EXTENDS LightClient

AllRouters == {"eth", "bsc", "heco", "hsc", "msc", "pixie", "bytom", "bor", "heimdall", "cosmos", "okex",
               "ont", "neo", "neo3", "neo3legacy", "quorum", "btc", "zilliqa", "zilliqalegacy", "starcoin"}
QuickRouters == {"eth", "bsc", "msc", "bor", "cosmos", "ont", "neo", "neo3", "quorum", "btc", "zilliqa", "starcoin"}

(* the shape the property demands *)
ShapeGuard == [r \in Routers |-> "guard"]
(* the shapes as read from the code at the pinned commit (DESIGN section 7, F5); used only to show that the
   monitor rejects them at model level - the verdict about the code comes from the replay *)
ShapeAsRead == [r \in Routers |->
                  IF r \in {"ont", "quorum", "zilliqa", "zilliqalegacy"} THEN "overwrite"
                  ELSE IF r \in {"neo", "neo3", "neo3legacy"} THEN "noop" ELSE "guard"]
ShapeAny == [r \in Routers |-> "any"]
=============================================================================
