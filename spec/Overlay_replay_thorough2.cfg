SPECIFICATION Spec
CONSTANTS K = 2
          Vals = {"x", "y"}
          Ranges = {12}
          WithBatch = FALSE
          Mode = "replay"
          Depth = 4
CONSTRAINT EmitTrace
INVARIANT PropC11
CHECK_DEADLOCK FALSE
