--------------------------- MODULE Quorum_proofs ---------------------------
(***************************************************************************)
(* C42 - TLAPS proofs (for ALL N, all finite validator sets) about the     *)
(* threshold formulas of QuorumDefs.tla.                                   *)
(*   tlapm --threads 16 --cleanfp --nofp Quorum_proofs.tla                 *)
(* Arithmetic part: 2*Thr(N) - N > F(N) for both thresholds, GovThr is     *)
(* ceil(2N/3), thresholds are attainable (1 <= Thr(N) <= N).               *)
(* Set part: any two subsets of a finite validator set V that both reach   *)
(* the threshold share more than F(|V|) members, i.e. two conflicting      *)
(* decisions need more than f validators approving both.                   *)
(***************************************************************************)
EXTENDS QuorumDefs, FiniteSets, FiniteSetTheorems, TLAPS

THEOREM BlockIntersect == \A N \in Nat \ {0} : 2 * BftThr(N) - N > F(N)
  BY DEF BftThr, F

THEOREM GovIntersect == \A N \in Nat \ {0} : 2 * GovThr(N) - N > F(N)
  BY DEF GovThr, F

THEOREM GovIsCeil == \A N \in Nat : 3 * GovThr(N) >= 2 * N /\ 3 * (GovThr(N) - 1) < 2 * N
  BY DEF GovThr

THEOREM ThresholdsAttainable ==
  \A N \in Nat \ {0} : /\ BftThr(N) \in Nat /\ 1 <= BftThr(N) /\ BftThr(N) <= N
                       /\ GovThr(N) \in Nat /\ 1 <= GovThr(N) /\ GovThr(N) <= N
                       /\ F(N) \in Nat
  BY DEF BftThr, GovThr, F

LEMMA Overlap ==
  ASSUME NEW V, IsFiniteSet(V), NEW A \in SUBSET V, NEW B \in SUBSET V
  PROVE  Cardinality(A \cap B) >= Cardinality(A) + Cardinality(B) - Cardinality(V)
<1>1. IsFiniteSet(A) /\ IsFiniteSet(B) BY FS_Subset
<1>2. IsFiniteSet(A \cup B) /\ Cardinality(A \cup B) = Cardinality(A) + Cardinality(B) - Cardinality(A \cap B)
      BY <1>1, FS_Union
<1>3. Cardinality(A \cup B) <= Cardinality(V) BY FS_Subset, A \cup B \subseteq V
<1>4. Cardinality(A) \in Nat /\ Cardinality(B) \in Nat /\ Cardinality(V) \in Nat /\ Cardinality(A \cap B) \in Nat /\ Cardinality(A \cup B) \in Nat
      BY <1>1, <1>2, FS_CardinalityType, FS_Intersection
<1> QED BY <1>2, <1>3, <1>4

THEOREM BlockQuorumsIntersect ==
  ASSUME NEW V, IsFiniteSet(V), Cardinality(V) >= 1,
         NEW A \in SUBSET V, NEW B \in SUBSET V,
         Cardinality(A) >= BftThr(Cardinality(V)), Cardinality(B) >= BftThr(Cardinality(V))
  PROVE  Cardinality(A \cap B) > F(Cardinality(V))
<1> DEFINE N == Cardinality(V)
<1>1. N \in Nat BY FS_CardinalityType
<1>2. Cardinality(A) \in Nat /\ Cardinality(B) \in Nat /\ Cardinality(A \cap B) \in Nat
      BY FS_Subset, FS_CardinalityType, FS_Intersection
<1>3. Cardinality(A \cap B) >= Cardinality(A) + Cardinality(B) - N BY Overlap
<1> QED BY <1>1, <1>2, <1>3 DEF BftThr, F

THEOREM GovQuorumsIntersect ==
  ASSUME NEW V, IsFiniteSet(V), Cardinality(V) >= 1,
         NEW A \in SUBSET V, NEW B \in SUBSET V,
         Cardinality(A) >= GovThr(Cardinality(V)), Cardinality(B) >= GovThr(Cardinality(V))
  PROVE  Cardinality(A \cap B) > F(Cardinality(V))
<1> DEFINE N == Cardinality(V)
<1>1. N \in Nat BY FS_CardinalityType
<1>2. Cardinality(A) \in Nat /\ Cardinality(B) \in Nat /\ Cardinality(A \cap B) \in Nat
      BY FS_Subset, FS_CardinalityType, FS_Intersection
<1>3. Cardinality(A \cap B) >= Cardinality(A) + Cardinality(B) - N BY Overlap
<1> QED BY <1>1, <1>2, <1>3 DEF GovThr, F

(* two DISJOINT sets of validators can never both reach the block threshold (N = 7: not two disjoint commit quorums) *)
THEOREM DisjointCannotBothReach ==
  ASSUME NEW V, IsFiniteSet(V), Cardinality(V) >= 1,
         NEW A \in SUBSET V, NEW B \in SUBSET V, A \cap B = {},
         Cardinality(A) >= BftThr(Cardinality(V))
  PROVE  ~(Cardinality(B) >= BftThr(Cardinality(V)))
<1> DEFINE N == Cardinality(V)
<1>1. N \in Nat BY FS_CardinalityType
<1>2. Cardinality(A \cap B) = 0 BY FS_EmptySet
<1>3. F(N) \in Nat BY <1>1 DEF F
<1>4. SUFFICES ASSUME Cardinality(B) >= BftThr(N) PROVE FALSE OBVIOUS
<1>5. Cardinality(A \cap B) > F(N) BY <1>4, BlockQuorumsIntersect
<1> QED BY <1>2, <1>3, <1>5

(* a block quorum and a governance quorum of the same validator set also meet in more than f members *)
THEOREM MixedQuorumsIntersect ==
  ASSUME NEW V, IsFiniteSet(V), Cardinality(V) >= 1,
         NEW A \in SUBSET V, NEW B \in SUBSET V,
         Cardinality(A) >= BftThr(Cardinality(V)), Cardinality(B) >= GovThr(Cardinality(V))
  PROVE  Cardinality(A \cap B) > F(Cardinality(V))
<1> DEFINE N == Cardinality(V)
<1>1. N \in Nat BY FS_CardinalityType
<1>2. Cardinality(A) \in Nat /\ Cardinality(B) \in Nat /\ Cardinality(A \cap B) \in Nat
      BY FS_Subset, FS_CardinalityType, FS_Intersection
<1>3. Cardinality(A \cap B) >= Cardinality(A) + Cardinality(B) - N BY Overlap
<1> QED BY <1>1, <1>2, <1>3 DEF BftThr, GovThr, F
=============================================================================
