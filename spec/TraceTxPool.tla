----------------------------- MODULE TraceTxPool -----------------------------
(***************************************************************************)
(* C37, P-VALIDATE: linearizability of histories recorded from a real      *)
(* txnpool/common.TXPool.                                                  *)
(*                                                                         *)
(* trace.ndjson: one line per history, {"calls": [c1, c2, ...]}.  A call   *)
(* is a completed method call: goroutine g, op, arguments (t, h, ts, by),  *)
(* answers (ret, n, txs, old, ver, unv, rem) and the invocation / response *)
(* stamps s < e taken from one atomic counter.  Every history starts on a  *)
(* fresh pool.                                                             *)
(*                                                                         *)
(* TLC searches for a total order of the calls of the current history that *)
(* respects real time (a call may take effect only when every call that    *)
(* responded before it was invoked has taken effect) and in which every    *)
(* answer is one the sequential pool (TxPoolOps) can give in the state     *)
(* reached.  The pool methods hold one mutex for their whole body, so such *)
(* an order must exist.  When all calls of a history are placed the next   *)
(* history starts.  Accepted iff the last history is completed.            *)
(*                                                                         *)
(* Strict = TRUE : answers must be ones the implementation-shaped          *)
(*                 relations allow (GetImpl, PUnv)                         *)
(* Strict = FALSE: answers must satisfy the monitor only (GetMon, UnvMon): *)
(*                 this run decides between DRIFT and VIOLATION.           *)
(***************************************************************************)
EXTENDS TxPoolOps, Json, TLCExt

CONSTANT Strict
VARIABLES l,      \* index of the current history
          pool,   \* pool state after the calls placed so far
          done    \* indices of the calls placed so far
tvars == <<l, pool, done>>

TraceLog == ndJsonDeserialize("trace.ndjson")
NH == Len(TraceLog)
Calls == TraceLog[l].calls
N == Len(Calls)

Ready(i) == i \notin done /\ \A j \in 1..N : (Calls[j].e < Calls[i].s) => j \in done

Hashes(ents) == [i \in 1..Len(ents) |-> ents[i].t]
EntsOf(p, ents) == \A i \in 1..Len(ents) : ents[i].t \in DOMAIN p /\ ents[i].h = p[ents[i].t]

(* c placed on pool p gives pool p2 *)
Effect(c, p, p2) ==
    CASE c.op = "add"    -> c.ret = PAddRet(p, c.t) /\ p2 = PAdd(p, c.t, c.h)
      [] c.op = "del"    -> c.ret = PDelRet(p, c.t) /\ p2 = PRemove(p, {c.t})
      [] c.op = "clean"  -> p2 = PRemove(p, Range(c.ts))
      [] c.op = "remain" -> NoRepeat(c.rem) /\ Range(c.rem) = DOMAIN p /\ p2 = EmptyPool
      [] c.op = "has"    -> c.ret = (c.t \in DOMAIN p) /\ p2 = p
      [] c.op = "status" -> c.ret = (c.t \in DOMAIN p) /\ (c.ret => c.n = p[c.t]) /\ p2 = p
      [] c.op = "count"  -> c.n = Size(p) /\ p2 = p
      [] c.op = "get"    -> /\ p2 = p
                            /\ NoRepeat(Hashes(c.txs)) /\ NoRepeat(c.old)          \* no hash listed twice
                            /\ EntsOf(p, c.txs)                                   \* entries as they were added
                            /\ IF Strict THEN GetImpl(p, c.by, c.h, Range(Hashes(c.txs)), Range(c.old))
                                         ELSE GetMon(p, c.by, c.h, Range(Hashes(c.txs)), Range(c.old))
      [] c.op = "unv"    -> LET r == PUnv(p, c.ts, c.h) IN
                            IF Strict \/ ~NoRepeat(c.ts)
                            THEN c.ver = r.ver /\ c.unv = r.unv /\ c.old = r.old /\ p2 = r.pool
                            ELSE /\ p2 = PRemove(p, Range(c.ts) \cap Stale(p, c.h))
                                 /\ UnvMon(p, c.ts, c.h, [pool |-> p2, ver |-> c.ver, unv |-> c.unv, old |-> c.old])
      [] OTHER           -> FALSE

Cands(c, p) == IF c.op = "unv" /\ ~Strict /\ NoRepeat(c.ts) THEN {PRemove(p, Range(c.ts) \cap Stale(p, c.h))}
               ELSE IF c.op = "unv" THEN {PUnv(p, c.ts, c.h).pool}
               ELSE IF c.op = "add" THEN {PAdd(p, c.t, c.h)}
               ELSE IF c.op = "del" THEN {PRemove(p, {c.t})}
               ELSE IF c.op = "clean" THEN {PRemove(p, Range(c.ts))}
               ELSE IF c.op = "remain" THEN {EmptyPool}
               ELSE {p}

Lin(i) == /\ Ready(i)
          /\ \E p2 \in Cands(Calls[i], pool) : Effect(Calls[i], pool, p2) /\ pool' = p2
          /\ done' = done \cup {i}
          /\ l' = l
NextHist == /\ done = 1..N
            /\ l' = l + 1 /\ pool' = EmptyPool /\ done' = {}

TraceInit == TLCSet(1, 1) /\ l = 1 /\ pool = EmptyPool /\ done = {}
TraceNext == l <= NH /\ (NextHist \/ \E i \in 1..N : Lin(i))
TraceSpec == TraceInit /\ [][TraceNext]_tvars

(* one entry per hash, heights as added: holds by construction of the search; the promise of C37 about the   *)
(* answers is in Effect (Strict = FALSE: exactly the monitor of TxPoolSeq!PropC37)                           *)
PropC37 == \A t \in DOMAIN pool : pool[t] \in Nat

HighWater == TLCSet(1, IF TLCGet(1) < l THEN l ELSE TLCGet(1))
Accepted == PrintT(<<"HIGHWATER", TLCGet(1)>>) /\ TLCGet(1) = NH + 1
=============================================================================
