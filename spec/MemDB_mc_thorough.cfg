SPECIFICATION Spec
CONSTANTS K = 5
          Vals = {"x", "yz"}
          WithCursor = TRUE
          EmitOn = FALSE
VIEW View
INVARIANT PropC09
CHECK_DEADLOCK FALSE
