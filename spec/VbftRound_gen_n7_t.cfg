SPECIFICATION Spec
CONSTANTS N = 7
          C = 2
          Props = {1, 2, 3}
          Endrs = {3, 4, 5, 6, 7}
          VerifyCarried = TRUE
          MaxMsgs = 5
          Alpha <- A7Mix
          EmitOn = TRUE
VIEW ViewPool
CONSTRAINT Bound
CHECK_DEADLOCK FALSE
