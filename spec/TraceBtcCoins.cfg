SPECIFICATION TraceSpec
CONSTANTS MaxOp = 80
          Vals = {1}
          Targets = {1}
          MinChanges = {0}
CONSTRAINT HighWater
POSTCONDITION Accepted
CHECK_DEADLOCK FALSE
