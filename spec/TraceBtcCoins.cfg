SPECIFICATION TraceSpec
CONSTANTS NTx = 80
          Idxs = {0, 1, 2, 3}
          Vals = {1}
          Targets = {1}
          MinChanges = {0}
CONSTRAINT HighWater
POSTCONDITION Accepted
CHECK_DEADLOCK FALSE
