SPECIFICATION TraceSpec
CONSTANTS Src = {"v","b","g"}
          Tgt = {"v","t","g"}
          Ids = {"i1","i2","i3","i4","i5","i6"}
          Vars = {1,2}
          Gated = {"g"}
          MaxH = 1
          EmitOn = "off"
CONSTRAINT HighWater
PROPERTY PropC21
POSTCONDITION Accepted
CHECK_DEADLOCK FALSE
