SPECIFICATION TraceSpec
CONSTANTS Src = {"v","b","g","r","h","y","e","s","z","c"}
          Tgt = {"v","t","g","s","w"}
          Ids = {"i1","i2","i3","i4","i5","i6"}
          Vars = {1,2,3}
          Gated = {"g","y","z"}
          MaxH = 1
          EmitOn = "off"
          GovChains = {"b","e","g","h","r","s","t","v","w","y","z"}
          RelayOn = TRUE
          Silent = {"v","r"}
CONSTRAINT HighWater
PROPERTY PropC21
POSTCONDITION Accepted
CHECK_DEADLOCK FALSE
