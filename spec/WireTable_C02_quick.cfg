SPECIFICATION Spec
CONSTANTS Area = "C02"
          Tier = "quick"
          EmitOn = TRUE
          Repaired = FALSE
INVARIANT PropC02
CHECK_DEADLOCK FALSE
