SPECIFICATION Spec
CONSTANTS Tx = {"t1", "t2", "t3"}
          MaxH = 2
          MAXTX = 2
          NC = 1
          NOPS = 0
          ListLen = 1
          EmitOn = TRUE
VIEW View
INVARIANT PropC37
CHECK_DEADLOCK FALSE
