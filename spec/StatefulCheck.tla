---------------------------- MODULE StatefulCheck ----------------------------
(* C38, last clause: "a transaction already in the ledger fails stateful validation" (validator/stateful: the actor
   answers a CheckTx with ErrDuplicatedTx iff ledger.IsContainTransaction(hash), else ErrNoError, and reports the
   current block height).  ledger = set of committed transaction ids, height = number of committed blocks.
   Binding: P-VALIDATE - a real on-disk ledger grows by real blocks while the real actor is queried; the recorded run
   (trace.ndjson: commit / check events) must be a behaviour, PropC38S is checked on every check event. *)
EXTENDS Integers, Sequences, FiniteSets, TLC, TLCExt, Json
CONSTANTS Tx, MaxBlocks
VARIABLES ledger, height, last, l

CheckResult(tx) == IF tx \in ledger THEN "dup" ELSE "ok"
Init == ledger = {} /\ height = 0 /\ last = [tx |-> 0, res |-> "none", h |-> 0]
Commit(txs) == /\ height < MaxBlocks /\ txs \cap ledger = {}
               /\ ledger' = ledger \cup txs /\ height' = height + 1
               /\ last' = [tx |-> 0, res |-> "none", h |-> 0]
Check(tx) == /\ last' = [tx |-> tx, res |-> CheckResult(tx), h |-> height] /\ UNCHANGED <<ledger, height>>
Next == (\E txs \in SUBSET Tx : Commit(txs)) \/ (\E tx \in Tx : Check(tx))
Spec == Init /\ l = 0 /\ [][Next /\ UNCHANGED l]_<<ledger, height, last, l>>
(* the monitor: the last answer is "duplicate" exactly when the transaction is in a committed block *)
PropC38S == last.res # "none" => (last.res = "dup" <=> last.tx \in ledger) /\ last.h = height

(* ---- trace part ---- *)
TraceLog == ndJsonDeserialize("trace.ndjson")
Ev == TraceLog[l]
IsEvent(e) == l <= Len(TraceLog) /\ Ev.op = e /\ l' = l + 1
TCommit == IsEvent("commit") /\ Commit({Ev.a[i] : i \in 1..Len(Ev.a)})
TCheck == IsEvent("check") /\ Check(Ev.a[1]) /\ Ev.obs = CheckResult(Ev.a[1]) /\ Ev.h = height
TraceInit == TLCSet(1, 1) /\ Init /\ l = 1
TraceSpec == TraceInit /\ [][TCommit \/ TCheck]_<<ledger, height, last, l>>
HighWater == TLCSet(1, IF TLCGet(1) < l THEN l ELSE TLCGet(1))
Accepted == PrintT(<<"HIGHWATER", TLCGet(1)>>) /\ TLCGet(1) = Len(TraceLog) + 1
=============================================================================
