SPECIFICATION Spec
CONSTANTS Powers <- PowersEdge
          MaxH = 4
          Mode = "edge"
          TableSets = {}
          Pairs = TRUE
          AbsenceAccepted = FALSE
          RepeatCounts = FALSE
          EmitOn = TRUE
VIEW View
INVARIANT TypeOK
INVARIANT PropC30
INVARIANT QuorumArithmetic
PROPERTY HeightMonotone
CHECK_DEADLOCK FALSE
