\* C29 PoSA: family pixie, chain configuration G (MCPoSA!SetsG), mode sim
SPECIFICATION SimSpec
CONSTANTS Family = "pixie"
          Epoch = 0
          CliqueFixed = FALSE
          Sets <- SetsG
          GenesisSigner = "a"
          G0 = 200
          Keys = {"a", "b", "c", "d", "e", "x"}
          Diffs = {1, 2}
          Defects = {"mix", "coinbase", "gasused"}
          MaxStored = 14
          MaxLen = 9
          EmitOn = FALSE
          Sprint = 0
          SpanEnd = 0
          TwoBranch = FALSE
          TraceLen = 16
INVARIANT PropC29
INVARIANT ModelSane
CHECK_DEADLOCK FALSE
