SPECIFICATION Spec
CONSTANTS Tx = {"t1", "t2"}
          MaxH = 1
          MAXTX = 2
          NC = 3
          NOPS = 2
          ListLen = 1
          EmitOn = FALSE
VIEW ViewMC
INVARIANT PropC37
CHECK_DEADLOCK FALSE
