--------------------------- MODULE TraceBtcCoins ---------------------------
(* C26, code -> spec.  The driver records, per call on the real code, one event with inputs and result:
     reset  [ops, vals]                      a fresh UTXO set; an outpoint is [txid number, output index] (txids numbered by the driver
                                             in order of first appearance; several outpoints share a txid)
     dep    [o, v]                           one more unspent outpoint
     w      [via, target, mc, res, sel, sum, fee, change, insum, outsum, utxo2, stxo2]
            via "choose" (chooseUtxos), "maketx" (makeBtcTx: sel/change/insum/outsum are read from the stored unsigned
            transaction; the reported total is observed as sum = payment + change output, because makeBtcTx writes
            change = total - payment and takes the fee out of the payment output) or "select" (CoinSelector alone);
            sel = selected outpoints in the order returned ([0,0] = not an outpoint the driver created), sum/fee as reported,
            utxo2/stxo2 = the stored unspent/spent sets after the call.
   TLC judges every event with the relation of BtcCoins (Selected + the set transition) and evaluates PropC26's
   clauses on the recorded run.  A non-conforming event is printed as <<"BAD", line, reason>> and the monitor
   re-synchronises on the recorded sets, so one run judges all concatenated traces. *)
EXTENDS BtcCoins, TLCExt, Json
VARIABLE l
TraceLog == ndJsonDeserialize("trace.ndjson")
tvars == <<val, utxo, stxo, cnt, last, l>>
Ev == TraceLog[l]
Bad(why) == PrintT(<<"BAD", l, why>>)
Check(cond, why) == IF cond THEN TRUE ELSE Bad(why)      \* (a disjunction would be split into two successors by TLC)
SetOf(s) == {s[i] : i \in 1..Len(s)}

TReset == /\ Ev.op = "reset"
          /\ val' = [o \in Ops |-> IF \E i \in 1..Len(Ev.ops) : Ev.ops[i] = o
                                   THEN Ev.vals[CHOOSE i \in 1..Len(Ev.ops) : Ev.ops[i] = o] ELSE 0]
          /\ utxo' = SetOf(Ev.ops) /\ stxo' = {} /\ cnt' = [o \in Ops |-> 0] /\ last' = NoTx
TDep   == /\ Ev.op = "dep"
          /\ Check(Ev.o \in Ops /\ val[Ev.o] = 0, "deposit-id-not-fresh")
          /\ val' = [val EXCEPT ![Ev.o] = Ev.v] /\ utxo' = utxo \cup {Ev.o}
          /\ UNCHANGED <<stxo, cnt>> /\ last' = NoTx
Judge(S) ==      \* the relation, on what the code reported
    /\ Check(Len(Ev.sel) > 0, "empty-selection")
    /\ Check(Cardinality(S) = Len(Ev.sel), "selected-not-distinct")
    /\ Check(S \subseteq utxo, "selected-not-unspent")
    /\ Check(\A o \in S \cap Ops : cnt[o] = 0, "outpoint-selected-twice")
    /\ Check(Ev.sum = SumOver(val, S \cap Ops), "reported-total-differs-from-selected-values")
    /\ Check(Ev.sum = Ev.target \/ Ev.sum >= Ev.target + Ev.mc, "total-neither-payment-nor-payment-plus-min-change")
\* CoinSelector alone (no storage): only the relation is judged, the sets stay
TSelect ==
    /\ Ev.op = "w" /\ Ev.via = "select"
    /\ IF Ev.res = "ok" THEN Judge(SetOf(Ev.sel)) ELSE TRUE
    /\ UNCHANGED <<val, utxo, stxo, cnt, last>>
\* chooseUtxos / makeBtcTx: relation + set transition (+ the transaction's balance)
TWithdraw ==
    /\ Ev.op = "w" /\ Ev.via # "select"
    /\ LET S  == SetOf(Ev.sel)
           U2 == SetOf(Ev.utxo2)
           X2 == SetOf(Ev.stxo2)
       IN IF Ev.res = "ok"
          THEN /\ Judge(S)
               /\ Check(U2 = utxo \ S, "unspent-set-not-reduced-by-selection")
               /\ Check(X2 = stxo \cup S, "spent-set-not-extended-by-selection")
               /\ Check(U2 \cap X2 = {}, "unspent-and-spent-overlap")
               /\ IF Ev.via = "maketx"
                  THEN /\ Check(Ev.insum = SumOver(val, S \cap Ops), "transaction-inputs-differ-from-selection")
                       /\ Check(Ev.outsum <= Ev.insum, "transaction-outputs-exceed-inputs")
                  ELSE TRUE
               /\ utxo' = U2 /\ stxo' = X2
               /\ cnt' = [o \in Ops |-> IF o \in S THEN cnt[o] + 1 ELSE cnt[o]]
               /\ last' = [res |-> "ok", target |-> Ev.target, mc |-> Ev.mc, sum |-> Ev.sum, change |-> Ev.sum - Ev.target,
                           insum |-> Ev.sum]
          ELSE /\ Check(U2 = utxo /\ X2 = stxo, "failed-withdrawal-changed-the-sets")
               /\ utxo' = U2 /\ stxo' = X2 /\ UNCHANGED cnt
               /\ last' = [res |-> "fail", target |-> Ev.target, mc |-> Ev.mc, sum |-> 0, change |-> 0, insum |-> 0]
    /\ UNCHANGED val

TraceInit == TLCSet(1, 1) /\ l = 1 /\ Init
TraceNext == l <= Len(TraceLog) /\ l' = l + 1 /\ (TReset \/ TDep \/ TSelect \/ TWithdraw)
TraceSpec == TraceInit /\ [][TraceNext]_tvars
HighWater == TLCSet(1, IF TLCGet(1) < l THEN l ELSE TLCGet(1))
Accepted == PrintT(<<"HIGHWATER", TLCGet(1)>>) /\ TLCGet(1) = Len(TraceLog) + 1
=============================================================================
