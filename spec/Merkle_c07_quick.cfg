SPECIFICATION Spec
CONSTANTS Table = "c07"
          N = 9
          Sizes = {}
          Doubles = FALSE
          PoolMode = "full"
          Lab = "id"
          EmitOn = TRUE
INVARIANT PropC07
CHECK_DEADLOCK FALSE
