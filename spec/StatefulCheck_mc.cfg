SPECIFICATION Spec
CONSTANTS Tx = {1, 2, 3, 4}
          MaxBlocks = 4
INVARIANT PropC38S
CHECK_DEADLOCK FALSE
