----------------------------- MODULE MCWitness -----------------------------
EXTENDS Witness
AllRouters == {"eth", "bsc", "heco", "hsc", "msc", "pixie", "bytom", "bor", "heimdall", "cosmos", "okex",
               "ont", "neo", "neo3", "neo3legacy", "quorum", "btc", "zilliqa", "zilliqalegacy", "starcoin"}
QuickRouters == {"eth", "bsc", "cosmos", "ont", "neo", "btc", "quorum"}
AllActors == {"op", "opweak", "val", "owner", "stranger"}
AllActors6 == AllActors \cup {"opold"}   \* the multi-signature address of another (stale) validator set
=============================================================================
