\* C29 PoSA: family heco, chain configuration F (MCPoSA!SetsF), mode gen
SPECIFICATION Spec
CONSTANTS Family = "heco"
          Epoch = 0
          CliqueFixed = FALSE
          Sets <- SetsF
          GenesisSigner = "c"
          G0 = 200
          Keys = {"a", "b", "c", "x"}
          Diffs = {1, 2}
          Defects = {}
          MaxStored = 4
          MaxLen = 5
          EmitOn = TRUE
          Sprint = 0
          SpanEnd = 0
          TwoBranch = FALSE
          TraceLen = 0
VIEW View
INVARIANT PropC29
INVARIANT ModelSane
INVARIANT ModelEquiv
CHECK_DEADLOCK FALSE
