------------------------------ MODULE PoWChain ------------------------------
(***************************************************************************)
(* C27 - the proof-of-work light client keeps the heaviest valid chain     *)
(* (native/service/header_sync/eth: SyncBlockHeader, appendHeader2Main,    *)
(* RestructChain; HEADER_INDEX / MAIN_CHAIN / CURRENT_HEADER_HEIGHT).      *)
(*                                                                         *)
(* Universe: a tree of n <= N headers below the trust root 0, chosen in    *)
(* Init.  par[i] < i, so the label order 1..n is a parent-first order, and *)
(* the n! labelled trees are exactly "every tree shape x every parent-     *)
(* first submission order".  adj[i] is the step of the difficulty rule     *)
(* (EthRules!Adjust: 1 = fast block, 0, -1 = slow block, ... -99), so a    *)
(* child is a little heavier or lighter than its parent and nothing else:  *)
(*    diff[i] = max(diff[p] + (diff[p] \div 2048) * adj[i], 131072).       *)
(*                                                                         *)
(* Implementation-shaped part: Submit(h) as SyncBlockHeader does it for    *)
(* one header - known => ignored; parent not stored or number # parent+1   *)
(* => rejected; otherwise stored with td = td[parent] + diff, then either  *)
(* appended (parent is the head) or, when td is strictly greater than the  *)
(* head's, RestructChain (transcribed: phases A-D below).  main keeps the  *)
(* stale entries above a lower new head, headH is authoritative.           *)
(*                                                                         *)
(* Monitor part: PropC27 == the five clauses of the property over an       *)
(* observation record (shared with TracePoWChain, which evaluates them on  *)
(* states observed from the real contract).                                *)
(***************************************************************************)
EXTENDS Integers, Sequences, FiniteSets, TLC, Json, PoWProp

CONSTANTS N,        \* largest tree (headers below the root)
          NMin,     \* smallest tree chosen in Init
          Adj,      \* allowed difficulty steps of a child ("all" family)
          D0,       \* difficulty of the trust root
          Rule,     \* "eth": difficulty by the Ethereum adjustment rule, root td = D0, stale index entries kept;
                    \* "btc": work 2^(level+1), level = parent's level + adj within 0..4 (regtest headers choose their
                    \*        bits), root total work 0, index entries above a lower new tip deleted (header_sync/btc)
          Family,   \* "all": every labelled tree NMin..N; "shortheavy[-sample]": two chains LA (slow) / LB (fast); "quickmix"
          LA, LB, AdjA, AdjB,
          InOrder,  \* TRUE: headers become stored in label order (generation); FALSE: any order (model checking)
          EmitOn

VARIABLES tree,     \* [n, par, adj, diff, ht]  - never changes
          stored,   \* set of stored header ids, 0 = trust root
          td,       \* total difficulty of stored headers (0 when not stored)
          main,     \* canonical index: height -> header id, -1 = no entry
          headH,    \* current header height
          hist      \* emitted history (generation only)

vars == <<tree, stored, td, main, headH, hist>>
MinDiff == 131072
Adj3 == {-1, 0, 1}     \* cfg files cannot spell negative numbers
Adj2 == {-1, 1}
AdjSlowest == -99
None == -1
Max(a, b) == IF a > b THEN a ELSE b

(* the universe ************************************************************)
ParSets(nn) == {p \in [1..nn -> 0..(nn - 1)] : \A i \in 1..nn : p[i] < i}
RECURSIVE DiffOf(_, _, _)
RECURSIVE LevelOf(_, _, _)
TD0 == IF Rule = "btc" THEN 0 ELSE D0
KeepStale == Rule # "btc"
LevelOf(p, a, x) == IF x = 0 THEN 2 ELSE LET l == LevelOf(p, a, p[x]) + a[x] IN IF l < 0 THEN 0 ELSE IF l > 4 THEN 4 ELSE l
DiffOf(p, a, x) == IF Rule = "btc" THEN 2 ^ (LevelOf(p, a, x) + 1)
                   ELSE IF x = 0 THEN D0
                   ELSE LET pd == DiffOf(p, a, p[x]) IN Max(pd + (pd \div 2048) * a[x], MinDiff)
RECURSIVE HtOf(_, _)
HtOf(p, x) == IF x = 0 THEN 0 ELSE HtOf(p, p[x]) + 1
MkTree(nn, p, a) == [n |-> nn, par |-> p, adj |-> a,
                     diff |-> [x \in 0..nn |-> DiffOf(p, a, x)],
                     ht |-> [x \in 0..nn |-> HtOf(p, x)]]
(* two chains from the root: the labels in B form the fast chain, the others the slow one *)
PrevIn(S, i) == LET L == {j \in S : j < i} IN IF L = {} THEN 0 ELSE CHOOSE j \in L : \A k \in L : k <= j
(* two chains: "shortheavy": every interleaving; "shortheavy-sample": the fast chain submitted as one block at every
   position of the slow one, and the two alternating *)
BSets(la, lb, sample) ==
    LET nn == la + lb IN
    IF ~sample THEN {S \in SUBSET (1..nn) : Cardinality(S) = lb}
    ELSE {lo..(lo + lb - 1) : lo \in 1..(la + 1)} \cup {{2 * i : i \in 1..lb}} \cup {{2 * i - 1 : i \in 1..lb}}
ChainTreesOf(la, lb, sample) == LET nn == la + lb IN
    { MkTree(nn, [i \in 1..nn |-> IF i \in B THEN PrevIn(B, i) ELSE PrevIn((1..nn) \ B, i)],
                 [i \in 1..nn |-> IF i \in B THEN AdjB ELSE AdjA]) : B \in BSets(la, lb, sample) }
AllTreesOf(lo, hi, A) == UNION { {MkTree(nn, p, a) : p \in ParSets(nn), a \in [1..nn -> A]} : nn \in lo..hi }
Trees == CASE Family = "all" -> AllTreesOf(NMin, N, Adj)
           [] Family = "shortheavy" -> ChainTreesOf(LA, LB, FALSE)
           [] Family = "shortheavy-sample" -> ChainTreesOf(LA, LB, TRUE)
           [] Family = "quickmix" -> AllTreesOf(5, 5, Adj2) \cup AllTreesOf(4, 4, Adj3)      \* the quick tier in one TLC run
                                     \cup ChainTreesOf(7, 6, TRUE) \cup ChainTreesOf(10, 8, TRUE)
MaxN == tree.n

Par(x) == IF x = 0 THEN None ELSE tree.par[x]
Ht(x) == tree.ht[x]
Hdrs == 1..tree.n

(* RestructChain(current, new), transcribed *******************************)
(* A: head above the new header => current := main[ht(new)]                                   *)
(* B: new header above current  => push new, new := parent(new) until level                   *)
(* C: while the parents differ  => push new, step both down (current along main)              *)
(* D: push new; write the stack top-down into main from its height up; the last write sets    *)
(*    the current height (appendHeader2Main writes both)                                      *)
RECURSIVE PhaseB(_, _, _, _)
PhaseB(stack, new, ti, si) ==
    IF ti > si THEN PhaseB(Append(stack, new), Par(new), ti - 1, si)
    ELSE [stack |-> stack, new |-> new]
RECURSIVE PhaseC(_, _, _, _, _)
PhaseC(mn, stack, cur, new, lvl) ==
    IF Par(cur) # Par(new) THEN PhaseC(mn, Append(stack, new), mn[lvl - 1], Par(new), lvl - 1)
    ELSE [stack |-> Append(stack, new), lvl |-> lvl]
Restruct(mn, hh, new) ==
    LET cur0 == mn[hh]
        ti   == Ht(new)
        si   == IF hh > ti THEN ti ELSE hh
        cur  == IF hh > ti THEN mn[ti] ELSE cur0
        b    == PhaseB(<<>>, new, ti, si)
        c    == PhaseC(mn, b.stack, cur, b.new, si)
        L    == Len(c.stack)
    IN [main |-> [x \in DOMAIN mn |-> IF x >= c.lvl /\ x < c.lvl + L THEN c.stack[L - (x - c.lvl)]
                                       ELSE IF ~KeepStale /\ x >= c.lvl + L THEN None ELSE mn[x]],
        headH |-> c.lvl + L - 1]

(* one header through SyncBlockHeader *************************************)
Verdict(h) == IF h \in stored THEN "I"                         \* known: ignored
              ELSE IF Par(h) \notin stored THEN "R"            \* orphan: rejected
              ELSE "A"                                         \* stored
Verdicts == [j \in Hdrs |-> Verdict(j)]
MainSeq(mn) == [i \in 1..(MaxN + 1) |-> mn[i - 1]]

Accept(h) ==
    LET t == td[Par(h)] + tree.diff[h]
        cur == main[headH]
        r == IF cur = Par(h) THEN [main |-> [main EXCEPT ![Ht(h)] = h], headH |-> Ht(h)]
             ELSE IF t > td[cur] THEN Restruct(main, headH, h)
             ELSE [main |-> main, headH |-> headH]
    IN /\ stored' = stored \cup {h}
       /\ td' = [td EXCEPT ![h] = t]
       /\ main' = r.main
       /\ headH' = r.headH
       /\ UNCHANGED tree

Submit(h) ==
    /\ IF Verdict(h) = "A" THEN Accept(h) ELSE UNCHANGED <<tree, stored, td, main, headH>>
    /\ hist' = IF EmitOn /\ Verdict(h) = "A"
               THEN Append(hist, [h |-> h, td |-> td'[h], hh |-> headH', main |-> MainSeq(main'),
                                  v |-> [j \in Hdrs |-> IF j = h THEN "I" ELSE IF j \in stored THEN "I"
                                                        ELSE IF Par(j) \in stored' THEN "A" ELSE "R"]])
               ELSE hist

(* a header that names parent p but declares number ht(p)+1+off, off # 0: rejected whatever p is *)
SubmitBadHeight(p, off) == off # 0 /\ UNCHANGED vars

Init == /\ tree \in Trees
        /\ stored = {0}
        /\ td = [x \in 0..tree.n |-> IF x = 0 THEN TD0 ELSE 0]
        /\ main = [x \in 0..MaxN |-> IF x = 0 THEN 0 ELSE None]
        /\ headH = 0
        /\ hist = <<>>

NextStored == Cardinality(stored)      \* in label order the next header to become stored
Next == \E h \in Hdrs : (InOrder => (h = NextStored)) /\ Submit(h)   \* (in label order the known/orphan submissions are
                                                                      \*  stuttering steps; their verdicts are in hist[..].v)

Spec == Init /\ [][Next]_vars
View == <<tree, stored, td, main, headH>>

(* generation: one line per labelled tree = the whole parent-first behaviour with every predicted state *)
Emit == IF EmitOn /\ Cardinality(stored) = tree.n + 1
        THEN PrintT(<<"TRACE", ToJson([n |-> tree.n, par |-> tree.par, adj |-> tree.adj, diff |-> [i \in 1..tree.n |-> tree.diff[i]],
                                       d0 |-> D0, td0 |-> TD0, v0 |-> [j \in Hdrs |-> IF tree.par[j] = 0 THEN "A" ELSE "R"], steps |-> hist])>>) /\ FALSE
        ELSE TRUE

(* PropC27: the monitor (clauses in PoWProp.tla) applied to the model state ***)
Obs == [stored |-> stored, root |-> 0, par |-> [x \in 0..tree.n |-> Par(x)], num |-> tree.ht, diff |-> tree.diff,
        td |-> td, main |-> main, head |-> headH]
TypeOK == /\ stored \subseteq 0..tree.n
          /\ headH \in 0..MaxN
          /\ \A x \in 0..tree.n : x \notin stored => td[x] = 0
PropC27 == TypeOK /\ PropOn(Obs)
(* re-submitting a known header (and a rejected submission) changes nothing *)
PropC27Idem == [][\A x \in Hdrs : (x \in stored /\ Submit(x)) => UNCHANGED View]_vars
=============================================================================
