SPECIFICATION TraceSpec
CONSTANTS TopKeys = {"a", "b"}
          SubKeys = {"a", "b"}
CONSTRAINT HighWater
INVARIANT PropC15
INVARIANT PropC16
POSTCONDITION Accepted
CHECK_DEADLOCK FALSE
