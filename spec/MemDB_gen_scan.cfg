SPECIFICATION Spec
CONSTANTS K = 4
          Vals = {"x", "yz"}
          WithCursor = FALSE
          EmitOn = TRUE
VIEW View
INVARIANT PropC09
CHECK_DEADLOCK FALSE
