SPECIFICATION Spec
CONSTANTS VrfLen = 2
          KMax = 16
          MAXP = 4
          MAXE = 6
          MAXC = 6
          Tables <- RoundCur
          NewTables <- RoundNew
          SeedBytes <- RoundBytes
INVARIANT PropC40
CHECK_DEADLOCK FALSE
