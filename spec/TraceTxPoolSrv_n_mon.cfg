SPECIFICATION TraceSpec
CONSTANTS Tx = {"t1", "t2", "t3", "t4"}
          MaxH = 3
          MAXTX = 1
          CAP = 100
          LIMIT = 100
          PreExec = FALSE
          Eager = TRUE
          Acts = {}
          ListLen = 2
          Depth = 0
          EmitOn = FALSE
          Strict = FALSE
CONSTRAINT HighWater
POSTCONDITION Accepted
CHECK_DEADLOCK FALSE
