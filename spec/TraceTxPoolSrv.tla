---------------------------- MODULE TraceTxPoolSrv ----------------------------
(***************************************************************************)
(* C37, P-VALIDATE of the real pool server (txnpool/proc) against TxPool.  *)
(*                                                                         *)
(* trace.ndjson: one event per stimulus the driver gave to the real server *)
(* (through its real actors) after the server became quiet, with the       *)
(* observation obs = [pool (listing of [t,h]), n (pool count), pend, used  *)
(* (slots taken), height, out (messages the server sent during the step)]. *)
(* "reset" starts a fresh server.                                          *)
(*                                                                         *)
(* Strict = TRUE : the step must be the model's step and the observation   *)
(*                 the model's state (implementation-shaped model).        *)
(* Strict = FALSE: the state is taken from the observation and only the    *)
(*                 monitor MonStep / PropC37 is evaluated - decides whether*)
(*                 a rejected trace is DRIFT or a VIOLATION of C37.        *)
(***************************************************************************)
EXTENDS TxPool, TLCExt

CONSTANT Strict
VARIABLE l
tvars == <<st, hist, l>>

TraceLog == ndJsonDeserialize("trace.ndjson")
E == TraceLog[l]
IsEvent(op) == l <= Len(TraceLog) /\ E.op = op /\ l' = l + 1 /\ hist' = hist

PoolOf(o) == [x \in {e.t : e \in Range(o.pool)} |-> (CHOOSE e \in Range(o.pool) : e.t = x).h]
OutOf(o) == {Msg(m.k, m.t, m.err, {Res(r.t, r.h, r.err) : r \in Range(m.res)}) : m \in Range(o.out)}
Listed(o) == [i \in 1..Len(o.pool) |-> o.pool[i].t]
ObsOK(s, o) ==
    /\ NoRepeat(Listed(o)) /\ o.n = Len(o.pool)
    /\ PoolOf(o) = s.pool
    /\ Range(o.pend) = DOMAIN s.pend
    /\ o.used = LIMIT - s.slots
    /\ o.height = s.height
    /\ OutOf(o) = s.out
FromObs(o) == [pool |-> PoolOf(o), pend |-> [t \in Range(o.pend) |-> NewPend("rcv", "nil")], slots |-> LIMIT - o.used,
               height |-> o.height, blk |-> InitSt.blk, out |-> OutOf(o), n |-> o.n]
CountOf(s) == IF "n" \in DOMAIN s THEN s.n ELSE Size(s.pool)    \* observed count (the listing leaves out filler entries)
PoolMsgTxs(o) == UNION {{r.t : r \in m.res} : m \in {x \in OutOf(o) : x.k = "pool"}}

(* the monitor: C37 on one observed step (pre, event, post) ****************)
(* The monitor is total: it never blocks and never leaves the domain of a function, whatever was recorded.  Every clause  *)
(* that an event breaks is printed as <<"MONFAIL", line, op, clause>> and the run goes on with the observed state.       *)
Clause(name, cond) == cond \/ PrintT(<<"MONFAIL", l, E.op, name>>)
Same(pre, post, S) == \A t \in S : t \in DOMAIN post.pool /\ post.pool[t] = pre.pool[t]
FullyVerified(o) == \A i \in 1..Len(o.pool) : o.pool[i].sl /\ o.pool[i].h >= 0
MonStep(pre, e, o, post) ==
    LET gone == DOMAIN pre.pool \ DOMAIN post.pool
        kept == DOMAIN pre.pool \cap DOMAIN post.pool
        new  == DOMAIN post.pool \ DOMAIN pre.pool
        txs  == PoolMsgTxs(o)
        poolmsgs == {m \in OutOf(o) : m.k = "pool"}
        blkmsgs  == {m \in OutOf(o) : m.k = "blk"} IN
    /\ Clause("one-entry-per-hash", NoRepeat(Listed(o)) /\ o.n = Len(o.pool))
    /\ Clause("entry-replaced-by-second-copy", Same(pre, post, kept))
    \* the pool holds verified transactions: both validators' results are recorded on every entry
    /\ Clause("entry-without-both-verifications", FullyVerified(o))
    /\ Clause("capacity", o.n <= CAP) 
    /\ e.op = "admit" =>
          /\ Clause("admit-changed-the-pool", post.pool = pre.pool)
          /\ Clause("admitted-at-full-pool", (CountOf(pre) >= CAP /\ e.t \notin DOMAIN pre.pend) => e.t \notin DOMAIN post.pend)
    /\ e.op = "rsp" =>
          /\ Clause("verify-result-removed-or-added-other-entries", gone = {} /\ new \subseteq {e.t})
          /\ Clause("entry-added-on-failed-verification", new # {} => e.err = "ok")
          /\ Clause("pool-keeps-tx-whose-verification-failed", e.err # "ok" => e.t \notin DOMAIN post.pool)
          \* a stateful answer older than the height the server verifies against is not a verification for that height
          /\ Clause("entry-added-on-outdated-stateful-result", (new # {} /\ e.typ = "sf") => e.h >= pre.height)
    /\ e.op = "getpool" =>
          /\ Clause("getpool-added-entries", new = {})
          /\ Clause("handed-out-not-verified-for-the-height", txs \subseteq Fresh(pre.pool, e.h))
          /\ Clause("handed-out-entry-differs-from-pool", \A m \in poolmsgs : \A r \in m.res : r.t \in DOMAIN pre.pool /\ r.h = pre.pool[r.t])
          /\ Clause("handed-out-more-than-configured", (e.by /\ MAXTX > 0) => Cardinality(txs) <= MAXTX)
          /\ Clause("removed-entry-not-old-or-not-reverified", gone \subseteq Stale(pre.pool, e.h) /\ gone \subseteq DOMAIN post.pend)
          /\ Clause("old-entries-not-reported", (Cardinality(txs) < GetCount(pre.pool, e.by)) => gone = Stale(pre.pool, e.h))
    /\ e.op = "blocksaved" =>
          /\ Clause("clean-added-or-kept-listed", new = {} /\ DOMAIN post.pool \cap Range(e.ts) = {})     \* the listed ones leave ...
          /\ Clause("clean-lost-unlisted", gone \ Range(e.ts) \subseteq DOMAIN post.pend)                \* ... the others stay or are re-verified
    /\ e.op = "verifyblock" =>
          /\ Clause("verifyblock-added-entries", new = {})
          /\ Clause("verifyblock-removal-not-exactly-the-old-listed",
                    NoRepeat(e.ts) => gone = Range(e.ts) \cap Stale(pre.pool, e.h) /\ gone \subseteq DOMAIN post.pend)
    \* whenever the server tells consensus that a block's transactions are verified, the heights are at or above the block's
    /\ Clause("block-result-below-requested-height",
              \A m \in blkmsgs : \A r \in m.res : (r.err = "ok" /\ e.op = "verifyblock") => r.h >= e.h)

Step(s2) == IF Strict THEN st' = s2 /\ ObsOK(s2, E.obs)
            ELSE st' = FromObs(E.obs) /\ MonStep(st, E, E.obs, st')

TReset == IsEvent("reset") /\ st' = InitSt
TAdmit == IsEvent("admit") /\ Step(AdmitF(st, E.t, E.src))
TRsp   == IsEvent("rsp") /\ (Strict => E.t \in DOMAIN st.pend /\ st.pend[E.t].st = "v")
                         /\ Step(IF Strict THEN RspF(st, E.t, E.typ, E.h, E.err) ELSE st)
TGet   == IsEvent("getpool") /\ IF Strict
                                THEN \E old \in SUBSET Stale(st.pool, E.h) :
                                       /\ PoolMsgTxs(E.obs) \subseteq DOMAIN st.pool
                                       /\ GetImpl(st.pool, E.by, E.h, PoolMsgTxs(E.obs), old)
                                       /\ Step(GetPoolF(st, E.by, E.h, PoolMsgTxs(E.obs), old))
                                ELSE Step(st)
TVerify == IsEvent("verifyblock") /\ Step(IF Strict THEN VerifyBlockF(st, E.ts, E.h) ELSE st)
TSaved  == IsEvent("blocksaved") /\ Step(IF Strict THEN BlockSavedF(st, Range(E.ts)) ELSE st)

TraceInit == TLCSet(1, 1) /\ st = InitSt /\ hist = <<>> /\ l = 1
TraceNext == TReset \/ TAdmit \/ TRsp \/ TGet \/ TVerify \/ TSaved
TraceSpec == TraceInit /\ [][TraceNext]_tvars

PropC37 == TypeOK
HighWater == TLCSet(1, IF TLCGet(1) < l THEN l ELSE TLCGet(1))
Accepted == PrintT(<<"HIGHWATER", TLCGet(1)>>) /\ TLCGet(1) = Len(TraceLog) + 1
=============================================================================
