---------------------------- MODULE TraceTxPoolSrv ----------------------------
(***************************************************************************)
(* C37, P-VALIDATE of the real pool server (txnpool/proc) against TxPool.  *)
(*                                                                         *)
(* trace.ndjson: one event per stimulus the driver gave to the real server *)
(* (through its real actors) after the server became quiet, with the       *)
(* observation obs = [pool (listing of [t,h]), n (pool count), pend, used  *)
(* (slots taken), height, out (messages the server sent during the step)]. *)
(* "reset" starts a fresh server.                                          *)
(*                                                                         *)
(* Strict = TRUE : the step must be the model's step and the observation   *)
(*                 the model's state (implementation-shaped model).        *)
(* Strict = FALSE: the state is taken from the observation and only the    *)
(*                 monitor MonStep / PropC37 is evaluated - decides whether*)
(*                 a rejected trace is DRIFT or a VIOLATION of C37.        *)
(***************************************************************************)
EXTENDS TxPool, TLCExt

CONSTANT Strict
VARIABLE l
tvars == <<st, hist, l>>

TraceLog == ndJsonDeserialize("trace.ndjson")
E == TraceLog[l]
IsEvent(op) == l <= Len(TraceLog) /\ E.op = op /\ l' = l + 1 /\ hist' = hist

PoolOf(o) == [x \in {e.t : e \in Range(o.pool)} |-> (CHOOSE e \in Range(o.pool) : e.t = x).h]
OutOf(o) == {Msg(m.k, m.t, m.err, {Res(r.t, r.h, r.err) : r \in Range(m.res)}) : m \in Range(o.out)}
Listed(o) == [i \in 1..Len(o.pool) |-> o.pool[i].t]
ObsOK(s, o) ==
    /\ NoRepeat(Listed(o)) /\ o.n = Len(o.pool)
    /\ PoolOf(o) = s.pool
    /\ Range(o.pend) = DOMAIN s.pend
    /\ o.used = LIMIT - s.slots
    /\ o.height = s.height
    /\ OutOf(o) = s.out
FromObs(o) == [pool |-> PoolOf(o), pend |-> [t \in Range(o.pend) |-> NewPend("rcv", "nil")], slots |-> LIMIT - o.used,
               height |-> o.height, blk |-> InitSt.blk, out |-> OutOf(o), n |-> o.n]
CountOf(s) == IF "n" \in DOMAIN s THEN s.n ELSE Size(s.pool)    \* observed count (the listing leaves out filler entries)
PoolMsgTxs(o) == UNION {{r.t : r \in m.res} : m \in {x \in OutOf(o) : x.k = "pool"}}

(* the monitor: C37 on one observed step (pre, event, post) ****************)
Same(pre, post, S) == \A t \in S : t \in DOMAIN post.pool /\ post.pool[t] = pre.pool[t]
MonStep(pre, e, o, post) ==
    LET gone == DOMAIN pre.pool \ DOMAIN post.pool
        kept == DOMAIN pre.pool \cap DOMAIN post.pool
        new  == DOMAIN post.pool \ DOMAIN pre.pool IN
    /\ NoRepeat(Listed(o)) /\ o.n = Len(o.pool)                   \* one entry per hash
    /\ Same(pre, post, kept)                                      \* an entry is never replaced by a second copy
    /\ e.op = "admit" => /\ post.pool = pre.pool
                         /\ (CountOf(pre) >= CAP /\ e.t \notin DOMAIN pre.pend) => e.t \notin DOMAIN post.pend
    /\ e.op = "rsp" => gone = {} /\ new \subseteq {e.t} /\ (new # {} => e.err = "ok")
    /\ e.op = "getpool" =>
          LET txs == PoolMsgTxs(o) IN
          /\ new = {}
          /\ txs \subseteq Fresh(pre.pool, e.h)
          /\ \A m \in OutOf(o) : m.k = "pool" => \A r \in m.res : r.h = pre.pool[r.t]
          /\ (e.by /\ MAXTX > 0) => Cardinality(txs) <= MAXTX
          /\ gone \subseteq Stale(pre.pool, e.h) /\ gone \subseteq DOMAIN post.pend
          /\ (Cardinality(txs) < GetCount(pre.pool, e.by)) => gone = Stale(pre.pool, e.h)
    /\ e.op = "blocksaved" =>
          /\ new = {} /\ DOMAIN post.pool \cap Range(e.ts) = {}                   \* the listed ones leave ...
          /\ gone \ Range(e.ts) \subseteq DOMAIN post.pend                        \* ... the others stay or are re-verified
    /\ e.op = "verifyblock" =>
          /\ new = {}
          /\ NoRepeat(e.ts) => gone = Range(e.ts) \cap Stale(pre.pool, e.h) /\ gone \subseteq DOMAIN post.pend
          /\ \A m \in OutOf(o) : m.k = "blk" => \A r \in m.res : (r.err = "ok" => r.h >= e.h)

(* the capacity clause of C37 on the observed pool count *)
PropC37Cap(o) == o.n <= CAP
(* monitor mode never blocks: every event that breaks a clause is printed and the run goes on with the observed state *)
Step(s2) == IF Strict THEN st' = s2 /\ ObsOK(s2, E.obs)
            ELSE /\ st' = FromObs(E.obs)
                 /\ (MonStep(st, E, E.obs, st') \/ PrintT(<<"MONFAIL", l, E.op>>))
                 /\ (PropC37Cap(E.obs) \/ PrintT(<<"CAPOVER", l, E.op>>))

TReset == IsEvent("reset") /\ st' = InitSt
TAdmit == IsEvent("admit") /\ Step(AdmitF(st, E.t, E.src))
TRsp   == IsEvent("rsp") /\ (Strict => E.t \in DOMAIN st.pend /\ st.pend[E.t].st = "v")
                         /\ Step(IF Strict THEN RspF(st, E.t, E.typ, E.h, E.err) ELSE st)
TGet   == IsEvent("getpool") /\ IF Strict
                                THEN \E old \in SUBSET Stale(st.pool, E.h) :
                                       /\ PoolMsgTxs(E.obs) \subseteq DOMAIN st.pool
                                       /\ GetImpl(st.pool, E.by, E.h, PoolMsgTxs(E.obs), old)
                                       /\ Step(GetPoolF(st, E.by, E.h, PoolMsgTxs(E.obs), old))
                                ELSE Step(st)
TVerify == IsEvent("verifyblock") /\ Step(IF Strict THEN VerifyBlockF(st, E.ts, E.h) ELSE st)
TSaved  == IsEvent("blocksaved") /\ Step(IF Strict THEN BlockSavedF(st, Range(E.ts)) ELSE st)

TraceInit == TLCSet(1, 1) /\ st = InitSt /\ hist = <<>> /\ l = 1
TraceNext == TReset \/ TAdmit \/ TRsp \/ TGet \/ TVerify \/ TSaved
TraceSpec == TraceInit /\ [][TraceNext]_tvars

PropC37 == TypeOK
HighWater == TLCSet(1, IF TLCGet(1) < l THEN l ELSE TLCGet(1))
Accepted == PrintT(<<"HIGHWATER", TLCGet(1)>>) /\ TLCGet(1) = Len(TraceLog) + 1
=============================================================================
