---------------------------- MODULE TraceSchema ----------------------------
(***************************************************************************)
(* C04, code -> spec direction.  harness/cmd/vd-schema `record` feeds       *)
(* seeded random corruptions of valid encodings to the real decoders and   *)
(* logs one event per call: [ty, bytes, st] with st = "ok" / "err".        *)
(* This module replays the log; for every event the reference decoder of   *)
(* Schema.tla decides whether the bytes are malformed, and the verdict is  *)
(* printed:                                                                *)
(*   fine                 outcome allowed by the property                   *)
(*   malformed-accepted   the reference rejects the bytes, the code        *)
(*                        accepted them (model = what the code-shaped      *)
(*                        decoder with the ignored eof flag predicts)      *)
(*   stricter             the code rejects bytes the reference accepts     *)
(*                        (allowed; reported as drift)                     *)
(* The runner turns a malformed-accepted verdict into a violation.         *)
(***************************************************************************)
EXTENDS Schema

Log == ndJsonDeserialize("trace.ndjson")

Verdict(e) ==
    LET t == TypeTable[e.ty].t
        rs == DecK(t, e.bytes, 1, FALSE)
        rl == DecK(t, e.bytes, 1, TRUE)
    IN [i |-> row[2], ty |-> e.ty, strict |-> rs.st, model |-> rl.st, got |-> e.st,
        verdict |-> IF rs.st = "err" /\ e.st = "ok" THEN "malformed-accepted"
                    ELSE IF rs.st = "ok" /\ e.st = "err" THEN "stricter"
                    ELSE "fine"]

(* the state is <<0, line number, <<>>>> - Schema's variable `row` is reused as the cursor *)
TInit == row = <<0, 1, <<>>>> /\ ana = <<>>
TNext == /\ row[2] <= Len(Log)
         /\ PrintT(<<"VERDICT", ToJson(Verdict(Log[row[2]]))>>)
         /\ row' = <<0, row[2] + 1, <<>>>>
         /\ UNCHANGED ana
TSpec == TInit /\ [][TNext]_<<row, ana>>
=============================================================================
