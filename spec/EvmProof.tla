------------------------------ MODULE EvmProof ------------------------------
(***************************************************************************)
(* C23 - EVM-family deposit proofs                                         *)
(*   native/service/cross_chain_manager/eth/utils.go (VerifyMerkleProof,   *)
(*   CheckProofResult) and verifyFromTx / verifyFromEthTx of the eth, bsc, *)
(*   heco, hsc, msc, pixiechain, polygon (bor), bytom handlers.            *)
(*                                                                         *)
(* World: the tracked canonical chain G0..Best, every header committing to *)
(* a world state (account trie; the registered contract's account commits  *)
(* to its storage trie), one stored non-canonical fork header at ForkAt    *)
(* and one state that no header commits to.  Hashes are a free term        *)
(* algebra: a trie node IS its content (a function from the remaining key  *)
(* suffixes to leaves), so two nodes are "the same hash" iff they have the *)
(* same content - collision resistance is the model's semantics.  Keys are *)
(* two binary nibbles (real keys are keccak images; depth is immaterial).  *)
(*                                                                         *)
(* A claim is (height, address field, claimed account fields, account      *)
(* proof node set, storage key, storage proof node set, message).  Claims  *)
(* are built from the world by named constructors (valid, truncated,       *)
(* re-ordered, with a garbage node, for another account, ...), which is    *)
(* what the driver concretizes with go-ethereum's trie package.            *)
(*                                                                         *)
(* Accept(c) transcribes verifyFromTx: confirmation inequality, canonical  *)
(* header lookup, address = registered contract, VerifyProof of the        *)
(* account key under the header's state root, RLP(claimed fields) = proven *)
(* leaf, VerifyProof of the storage key under the claimed storage root,    *)
(* proven value, left-padded to 32 bytes, = Keccak(message) (byte level).  *)
(* PropC23 (monitor): Accept => the deposit is TRUE in the state of the    *)
(* canonical block at that height and that block has >= Wait confirmations;*)
(* an honest claim of a true, confirmed deposit is accepted.               *)
(* Binding: P-TABLE, one row per claim descriptor.                         *)
(***************************************************************************)
EXTENDS Integers, Sequences, FiniteSets, TLC, Json

CONSTANTS Mode,      \* "chain": the handler looks the header up in the tracked canonical chain (eth, bsc, heco, hsc,
                     \*          msc, pixiechain, bor, bytom); "header": the claim carries the header and the handler
                     \*          checks its seals against the tracked validator set (quorum) - then G0 is the height of
                     \*          the tracked validator set, "canon" means "sealed by the validators", "fork" "sealed by
                     \*          an outsider", "unknown" "proposer seal only, no committed seals", and there is no
                     \*          confirmation rule
          G0,        \* height of the trusted genesis header
          Best,      \* height of the canonical head
          Wait,      \* BlocksToWait of the side chain (>= 1)
          ForkAt,    \* height of the stored non-canonical header
          DepositAt, \* first canonical height whose state contains the deposits
          LeadZ,     \* number of leading zero bytes of Keccak("M") (0 or 1): the EVM stores a word with its leading zero
                     \* bytes stripped, CheckProofResult pads the proven value back to 32 bytes
          Heights,   \* claimed heights to enumerate
          EmitOn

VARIABLES row, done
vars == <<row, done>>

Nib == {0, 1, 2}
Keys2 == {<<a, b>> : a \in Nib, b \in Nib}
Suffixes(n) == IF n = 0 THEN {<<>>} ELSE IF n = 1 THEN {<<a>> : a \in Nib} ELSE Keys2

(* leaves ******************************************************************)
NilLeaf == [t |-> "nil"]
\* a storage word is the byte string that the RLP leaf decodes to; bytes are small integers
Word(v) == [t |-> "word", v |-> v]
\* Keccak(m): 32 bytes, injective on the message names used; the hash of M starts with LeadZ zero bytes
Keccak(m) == IF m = "M" THEN [i \in 1..32 |-> IF i <= LeadZ THEN 0 ELSE 100 + i] ELSE [i \in 1..32 |-> 200 + i]
RECURSIVE Strip(_)
Strip(b) == IF b # <<>> /\ b[1] = 0 THEN Strip(Tail(b)) ELSE b          \* as the EVM stores the word
Pad32(b) == [i \in 1..32 |-> IF i <= 32 - Len(b) THEN 0 ELSE b[i - (32 - Len(b))]]
Last(b, k) == SubSeq(b, Len(b) - k + 1, Len(b))
\* CheckProofResult: the proven value, left-padded to 32 bytes, is the hash of the message (longer values never match)
WordIs(leaf, m) == leaf.t = "word" /\ Len(leaf.v) <= 32 /\ Pad32(leaf.v) = Keccak(m)
Stored(m) == Word(Strip(Keccak(m)))
Msgs == {"M", "N"}           \* M: the deposit under test; N: another deposit that also happened

(* tries *******************************************************************)
\* storage tries: slot keys
S1 == <<0, 0>>   \* holds Keccak(M) once the deposit happened
S2 == <<0, 1>>   \* holds Keccak(N)
S3 == <<1, 0>>   \* another slot that holds Keccak(M) as well (the code does not look at the slot)
S4 == <<1, 1>>   \* never written
\* other slots of the registered contract whose (short or long) values merely END like Keccak(M) / end IN Keccak(M):
S5 == <<0, 2>>   \* the last byte of Keccak(M)              (e.g. a flag slot)
S6 == <<1, 2>>   \* the last 2 bytes
S7 == <<2, 0>>   \* the last 31 bytes (this IS the stored form of Keccak(M) when LeadZ = 1)
S8 == <<2, 1>>   \* 33 bytes: one more byte in front of Keccak(M)
S9 == <<2, 2>>   \* the empty byte string
Others(k) == IF k = S5 THEN Word(Last(Keccak("M"), 1)) ELSE IF k = S6 THEN Word(Last(Keccak("M"), 2))
             ELSE IF k = S7 THEN Word(Last(Keccak("M"), 31)) ELSE IF k = S8 THEN Word(<<7>> \o Keccak("M"))
             ELSE IF k = S9 THEN Word(<<>>) ELSE NilLeaf
StDep  == [k \in Keys2 |-> IF k = S1 THEN Stored("M") ELSE IF k = S2 THEN Stored("N")
                           ELSE IF k = S3 THEN Stored("M") ELSE Others(k)]
StPre  == [k \in Keys2 |-> IF k = S2 THEN Stored("N") ELSE Others(k)]
StEvil == [k \in Keys2 |-> IF k = S1 THEN Stored("M") ELSE IF k = S4 THEN Word(<<9, 9>>) ELSE NilLeaf]

Acct(nonce, st, code) == [t |-> "acct", nonce |-> nonce, bal |-> 0, sroot |-> st, code |-> code]
\* account keys
KCcm   == <<0, 0>>   \* the registered cross-chain manager contract
KOther == <<0, 1>>   \* an unrelated contract whose storage happens to contain Keccak(M) in S1
KThird == <<1, 0>>
KNone  == <<1, 1>>

\* world state committed by the canonical header at height h (nonce = h makes every state root distinct)
CanonState(h) == [k \in Keys2 |-> IF k = KCcm THEN Acct(h, IF h >= DepositAt THEN StDep ELSE StPre, "ccmcode")
                                  ELSE IF k = KOther THEN Acct(1, StEvil, "evilcode")
                                  ELSE IF k = KThird THEN Acct(h, StPre, "none") ELSE NilLeaf]
\* the fork header's state: the deposit M "happened" there although the canonical state at that height lacks it
ForkState    == [k \in Keys2 |-> IF k = KCcm THEN Acct(7, StDep, "ccmcode") ELSE IF k = KOther THEN Acct(1, StEvil, "evilcode") ELSE NilLeaf]
UnknownState == [k \in Keys2 |-> IF k = KCcm THEN Acct(8, StDep, "ccmcode") ELSE IF k = KOther THEN Acct(1, StEvil, "evilcode") ELSE NilLeaf]

(* Merkle structure: a node is the content below a prefix ********************)
NodeOf(T, pre) == [sfx \in Suffixes(2 - Len(pre)) |-> T[pre \o sfx]]
Root(T) == NodeOf(T, <<>>)
EmptyNode(nd) == \A s \in DOMAIN nd : nd[s] = NilLeaf
DepthLeft(nd) == LET s == CHOOSE s \in DOMAIN nd : TRUE IN Len(s)
Child(nd, a) == [sfx \in Suffixes(DepthLeft(nd) - 1) |-> nd[<<a>> \o sfx]]
\* nodes on the path of key k, down to the leaf or to the first empty child
Path(T, k) == {NodeOf(T, SubSeq(k, 1, i)) : i \in 0..2} \ {nd \in {NodeOf(T, SubSeq(k, 1, i)) : i \in 0..2} : EmptyNode(nd)}
Deepest(T, k) == CHOOSE nd \in Path(T, k) : \A o \in Path(T, k) : DepthLeft(nd) <= DepthLeft(o)
Garbage == [sfx \in Suffixes(0) |-> Word(<<66>>)]

\* trie.VerifyProof(rootHash, key, nodeSet): missing node -> error; path ends -> (nil, nil); else the leaf
RECURSIVE Ver(_, _, _)
Ver(nd, sfx, nodes) ==
    IF nd \notin nodes THEN [ok |-> FALSE, val |-> NilLeaf]
    ELSE IF sfx = <<>> THEN [ok |-> TRUE, val |-> nd[<<>>]]
    ELSE LET ch == Child(nd, Head(sfx))
         IN IF EmptyNode(ch) THEN [ok |-> TRUE, val |-> NilLeaf] ELSE Ver(ch, Tail(sfx), nodes)

(* claim descriptors and constructors **************************************)
Worlds    == {"canon", "fork", "unknown"}
AcctKinds == {"valid", "reordered", "garbage", "truncated", "otheracct", "otheraddr", "fields"}
StorKinds == {"valid", "reordered", "garbage", "truncated", "slot2", "slot3", "absent",
              "sfx1", "sfx2", "sfx31", "long33", "empty"}
Rows == [h : Heights, w : Worlds, ak : AcctKinds, sk : StorKinds, m : Msgs]

\* the state the prover generates proofs from
ProverState(r) == IF r.w = "fork" THEN ForkState
                  ELSE IF r.w = "unknown" THEN UnknownState
                  ELSE IF r.h \in G0..Best \/ Mode = "header" THEN CanonState(r.h) ELSE CanonState(Best)

Claim(r) ==
    LET S    == ProverState(r)
        acc  == IF r.ak = "otheraddr" THEN S[KOther] ELSE S[KCcm]                \* account the proof is about
        flds == IF r.ak = "fields" THEN [acc EXCEPT !.sroot = StEvil] ELSE acc    \* claimed nonce/balance/storageHash/codeHash
        ak   == IF r.ak \in {"otheracct", "otheraddr"} THEN KOther ELSE KCcm
        an   == CASE r.ak = "garbage"   -> Path(S, ak) \cup {Garbage}
                  [] r.ak = "truncated" -> Path(S, ak) \ {Deepest(S, ak)}
                  [] OTHER              -> Path(S, ak)
        st   == flds.sroot                                                        \* storage trie the prover walks
        slot == CASE r.sk = "slot2" -> S2 [] r.sk = "slot3" -> S3 [] r.sk = "absent" -> S4 [] r.sk = "sfx1" -> S5
                  [] r.sk = "sfx2" -> S6 [] r.sk = "sfx31" -> S7 [] r.sk = "long33" -> S8 [] r.sk = "empty" -> S9 [] OTHER -> S1
        sn   == CASE r.sk = "garbage"   -> Path(st, slot) \cup {Garbage}
                  [] r.sk = "truncated" -> Path(st, slot) \ {Deepest(st, slot)}
                  [] OTHER              -> Path(st, slot)
    IN [h |-> r.h, sealed |-> r.w = "canon", hroot |-> Root(S), addr |-> IF r.ak = "otheraddr" THEN "other" ELSE "ccm", flds |-> flds, anodes |-> an,
        slot |-> slot, snodes |-> sn, m |-> r.m]

(* the decision as coded *****************************************************)
Confirmed(h) == IF Mode = "header" THEN h >= G0 ELSE h <= Best /\ Best - h >= Wait - 1
Accept(c) ==
    /\ Confirmed(c.h)
    /\ c.h >= G0                                   \* a canonical header is stored at that height
    /\ (Mode = "header" => c.sealed)               \* quorum: proposer seal and enough committed seals of tracked validators
    /\ c.addr = "ccm"                              \* address field = registered contract
    /\ LET av == Ver(IF Mode = "header" THEN c.hroot ELSE Root(CanonState(c.h)), KCcm, c.anodes)
       IN /\ av.ok
          /\ av.val = c.flds                        \* rlp(claimed fields) = proven account leaf
    /\ LET sv == Ver(Root(c.flds.sroot), c.slot, c.snodes)
       IN /\ sv.ok
          /\ sv.val # NilLeaf                       \* "verifyMerkleProof failed" on a proven-absent key
          /\ WordIs(sv.val, c.m)                   \* CheckProofResult

(* monitor ********************************************************************)
\* the deposit of message m is in the registered contract's storage in the canonical state at height h
TrueAt(h, m) == (h \in G0..Best \/ (Mode = "header" /\ h >= G0)) /\ \E s \in Keys2 : WordIs(CanonState(h)[KCcm].sroot[s], m)
Honest(r) == /\ r.w = "canon" /\ (r.h \in G0..Best \/ (Mode = "header" /\ r.h >= G0))
             /\ r.ak \in {"valid", "reordered", "garbage"}
             /\ r.sk \notin {"truncated", "absent"}
             /\ WordIs(CanonState(r.h)[KCcm].sroot[Claim(r).slot], r.m)
Sound(r)    == Accept(Claim(r)) => (Confirmed(r.h) /\ TrueAt(r.h, r.m) /\ (Mode = "header" => r.w = "canon"))
Complete(r) == (Honest(r) /\ Confirmed(r.h)) => Accept(Claim(r))
PropC23 == done => (Sound(row) /\ Complete(row))

\* vacuity guards for the table: both verdicts occur, and the interesting rejections are in the domain
ASSUME /\ Wait >= 1 /\ G0 < DepositAt /\ DepositAt <= Best /\ G0 <= ForkAt /\ ForkAt <= Best
       /\ \E r \in Rows : Accept(Claim(r))
       /\ \E r \in Rows : r.w = "canon" /\ r.ak = "valid" /\ r.sk = "valid" /\ ~Accept(Claim(r))

Init == row \in Rows /\ done = FALSE
Decide == /\ ~done
          /\ done' = TRUE
          /\ UNCHANGED row
          /\ (~EmitOn \/ PrintT(<<"ROW", ToJson([r |-> row, acc |-> Accept(Claim(row)),
                                                 conf |-> Confirmed(row.h), true |-> TrueAt(row.h, row.m),
                                                 honest |-> Honest(row)])>>))
Next == Decide
Spec == Init /\ [][Next]_vars
=============================================================================
