------------------------------ MODULE Governance ------------------------------
(***************************************************************************)
(* C32 C33 C34 C35 - relay-chain governance contracts                      *)
(*   native/service/governance/{node_manager, side_chain_manager,          *)
(*   relayer_manager, neo3_state_manager}.                                 *)
(*                                                                         *)
(* Shape.  The whole contract storage that matters is ONE record S (pool   *)
(* of the current view, candidate applications, black list, index records, *)
(* stored sign sets, side-chain registry with its three kinds of pending   *)
(* requests, relayers and state validators with their id-numbered          *)
(* requests).  Every contract method is a pure operator  S, args -> [r, s] *)
(* with the pre-checks in the code's order and the shared                  *)
(* CheckConsensusSigns(method, request, approver) step.  Step(S, a) is the *)
(* dispatcher.  The same operators serve the model (Next) and the judge of *)
(* executions recorded from the real contracts (GovJudge.tla).             *)
(*                                                                         *)
(* The model is the INTENDED contract: where the code as read breaks a     *)
(* listed property the model takes the repaired behaviour and names it:    *)
(*   D1 registration guard by key identity, not by hex spelling   (C34)    *)
(*   D2 an approved quit consumes the quit request and any pending update  *)
(*      request of that chain id                                (C33 C35)  *)
(*   D3 an approved relayer removal consumes the removal request   (C33)   *)
(*   D4 a replaced request (candidate re-registered, update request with   *)
(*      other content) starts with an empty sign set               (C32)   *)
(* and one quirk is modelled AS CODED because no listed property speaks    *)
(* about it:                                                               *)
(*   Q1 approvals of a state-validator request id that does not exist (or  *)
(*      was consumed) are collected like any others and the approval that  *)
(*      reaches the threshold dereferences nil: result "panic", that       *)
(*      transaction leaves no trace                                        *)
(* The monitors Mon (PropC32..PropC35: the listed properties and nothing   *)
(* else) are evaluated on (ghost, pre, action, result, post) of every      *)
(* transition; `bad` holds the violated clauses of the last step and the   *)
(* invariant is bad = {}.                                                  *)
(*                                                                         *)
(* Binding: P-EDGE.  hist is hidden by VIEW; every (state, action) edge is *)
(* printed once with the predicted result and post-state.  The driver      *)
(* (harness/cmd/vd-gov) replays the edge through the real exported contract*)
(* functions; where the real contracts deviate it explores on from the     *)
(* real state and GovJudge (this module's Mon, run by TLC) judges what the *)
(* real code did.                                                          *)
(***************************************************************************)
EXTENDS GovCore

CONSTANTS NV,          \* number of seeded consensus validators v1..vNV
          Mode,        \* "C32" single approvals | "C33" | "C34" | "C35" (composite approval rounds)
          Areas,       \* subset of {"node","nodeA","nodeB","sc","rel","sv"}: Init picks one, so the product is never explored
          MaxView, MaxHeight, MaxId, MaxSigns,
          NWho,        \* 1 or 2 relayer / state-validator lists
          Rich,        \* TRUE: the larger action alphabets of the thorough tier
          EmitOn
VARIABLES R, G, bad, hist

vars == <<R, G, bad, hist>>

VN(i) == "v" \o ToString(i)
Validators == {VN(i) : i \in 1..NV}
Cands == {"c1", "c2"}
Owners == {"o1", "o2"}
(* ============================================================================ model *)
Act(t, m, q, ks, id, own, ver, who, k, sp) ==
    [t |-> t, m |-> m, q |-> q, ks |-> ks, id |-> id, own |-> own, ver |-> ver, who |-> who, k |-> k, sp |-> sp]
KS(k, sp) == [k |-> k, sp |-> sp]
AReg(k, sp, own)   == Act("reg", "", "", <<KS(k, sp)>>, 0, own, "", {}, k, sp)
AUnreg(k, own)     == Act("unreg", "", "", <<KS(k, "l")>>, 0, own, "", {}, k, "l")
AQuit(k, sp, own)  == Act("quit", "", "", <<KS(k, sp)>>, 0, own, "", {}, k, sp)
ACommit(w)         == Act("commit", "", "", <<>>, 0, w, "", {}, "", "")
ABlock             == Act("block", "", "", <<>>, 0, "", "", {}, "", "")
ANode(t, m, ks, by) == Act(t, m, JoinKs(ks), ks, 0, by, "", {}, "", "")
AId(t, m, id, by)  == Act(t, m, ToString(id), <<>>, id, by, "", {}, "", "")
ASc(t, id, own, ver) == Act(t, "", "", <<>>, id, own, ver, {}, "", "")
AWho(t, who, own)  == Act(t, "", "", <<>>, 0, own, "", who, "", "")

InitPool == {[k |-> VN(i), sp |-> "l", idx |-> i, own |-> VN(i), st |-> "cons"] : i \in 1..NV}
            \cup (IF Mode = "C32" THEN {[k |-> "c1", sp |-> "l", idx |-> NV + 1, own |-> "o1", st |-> "cand"]} ELSE {})
S0(area) == [area |-> area, height |-> 1, view |-> 1, cheight |-> 0,
             pool |-> InitPool, papply |-> {}, black |-> {},
             pidx |-> {[k |-> e.k, idx |-> e.idx] : e \in InitPool}, cidx |-> Cardinality(InitPool) + 1,
             signs |-> {},
             sc |-> {}, scApply |-> {}, scUpd |-> {}, scQuit |-> {},
             rel |-> {}, relApply |-> {}, relRemove |-> {}, relAid |-> 0, relRid |-> 0,
             sv |-> {}, svApply |-> {}, svRemove |-> {}, svAid |-> 0, svRid |-> 0]

Init == /\ \E ar \in Areas : R = Res("ok", S0(ar))
        /\ G = G0 /\ bad = {} /\ hist = <<>>

(* action alphabets *)
ApT == IF Mode = "C32" THEN "ap" ELSE "round"
\* C32 approvers: enough validators to reach the threshold before and after the epoch change, the one that quits (v_NV),
\* the candidate's key account c1, the outsider x
Bys == IF Mode = "C32" THEN (IF Rich THEN Validators ELSE {VN(i) : i \in 1..(Ceil2of3(NV) - 1)} \cup {VN(NV)}) \cup {"c1", "x"} ELSE {""}
LastV == VN(NV)
EpochActs == {AQuit(LastV, "l", LastV), ACommit("op")} \cup (IF Rich THEN {ABlock} ELSE {})

\* C34, area nodeA: candidacy, hex spellings, owners, indices, one epoch change
NodeA ==
    {AReg("c1", "l", "o1"), AReg("c1", "U", "o1"), AReg("c1", "l", "o2"), AReg("c2", "l", "o2"), AReg("v1", "U", "o1"), AReg("v1", "l", "o1")}
    \cup {AUnreg("c1", "o1"), AUnreg("c1", "o2")}
    \cup {AQuit("c1", "l", "o1"), AQuit("c1", "U", "o1"), AQuit("c1", "l", "o2"), AQuit(LastV, "l", LastV)}
    \cup {ANode("round", M_CAND, <<KS("c1", "l")>>, ""), ANode("round", M_CAND, <<KS("c1", "U")>>, ""),
          ANode("round", M_CAND, <<KS("c2", "l")>>, ""), ANode("round", M_CAND, <<KS("v1", "U")>>, "")}
    \cup {ACommit("op")}
    \cup (IF Rich THEN {AReg("c2", "U", "o2"), AReg("c2", "l", "o1"), AUnreg("c2", "o2"), AQuit("c2", "l", "o2"), AReg("c1", "U", "o2"),
                         ABlock, ANode("round", M_BLACK, <<KS("c1", "U")>>, ""), ANode("round", M_WHITE, <<KS("c1", "U")>>, "")}
           ELSE {})
\* C34, area nodeB: membership and epochs (quit, black lists incl. duplicates, white, commit by operator / by anybody, blocks)
NodeB ==
    {AReg("c1", "l", "o1"), ANode("round", M_CAND, <<KS("c1", "l")>>, "")}
    \cup {AQuit("c1", "l", "o1"), AQuit(LastV, "l", LastV), AQuit("v1", "l", "v1")}
    \cup {ANode("round", M_BLACK, ks, "") : ks \in {<<KS("c1", "l")>>, <<KS(LastV, "l")>>, <<KS("c1", "l"), KS("c1", "l")>>,
                                                    <<KS("c1", "l"), KS(LastV, "l")>>}}
    \cup {ANode("round", M_WHITE, <<KS(k, "l")>>, "") : k \in {"c1", LastV}}
    \cup {ACommit("op"), ACommit("x"), ABlock}
    \cup (IF Rich THEN {AReg("c2", "l", "o2"), ANode("round", M_CAND, <<KS("c2", "l")>>, ""), AQuit("c2", "l", "o2")}
                        \cup {ANode("round", M_BLACK, ks, "") : ks \in {<<KS("v1", "l")>>, <<KS("c1", "l"), KS("c2", "l")>>,
                                                                        <<KS(LastV, "l"), KS(LastV, "l")>>}}
           ELSE {})

NodeActs ==
    IF Mode = "C34" THEN NodeA \cup NodeB    \* (not used: C34 picks area nodeA or nodeB)
    ELSE
        {AReg("c2", "l", o) : o \in Owners} \cup {AUnreg("c2", o) : o \in Owners}
        \cup {ANode(ApT, M_CAND, <<KS("c2", "l")>>, by) : by \in Bys}
        \* C33: the candidate goes through a full life cycle (approved, quits, dropped at the epoch change) and registers again
        \cup (IF Mode = "C33" THEN {AQuit("c2", "l", o) : o \in Owners} \cup {ACommit("op"), ABlock} ELSE {})
        \cup (IF Mode = "C32" THEN {ANode(ApT, M_BLACK, <<KS("c1", "l")>>, by) : by \in Bys}
                                   \cup {ANode(ApT, M_WHITE, <<KS("c1", "l")>>, by) : by \in Bys}
              ELSE {})

Full2 == Rich /\ NWho = 2     \* C35 thorough: both chain ids with the full alphabet
ScIds == IF Mode = "C33" THEN {1} ELSE {1, 2}
ScActs == {a \in
          {ASc("screg", id, o, v) : id \in ScIds, o \in Owners, v \in (IF Mode = "C32" THEN {"a"} ELSE {"a", "b"})}
          \cup {ASc("scupd", id, o, v) : id \in ScIds, o \in Owners, v \in {"a", "b"}}
          \cup {ASc("scquit", id, o, "") : id \in ScIds, o \in Owners}
          \cup {AId(ApT, m, id, by) : m \in ScMethods, id \in ScIds, by \in Bys}
          \* the second chain id only registers and quits (independence of chain ids), owner o2
          : Full2 \/ a.id = 1 \/ (a.t \in (IF Rich THEN {"screg", "scquit"} ELSE {"screg"}) /\ a.own = "o2" /\ a.ver \in {"a", ""})
                     \/ a.m \in (IF Rich THEN {M_SCREG, M_SCQUIT} ELSE {M_SCREG})}
\* C35: partial and interleaved approval rounds of the two request kinds of chain 1 (single approvals: update by v1 v2, quit by v2 v3; the large two-chain cfg leaves them out)
C35Aps == {AId("ap", M_SCUPD, 1, by) : by \in {"v1", "v2"}} \cup {AId("ap", M_SCQUIT, 1, by) : by \in {"v2", "v3"}}
C32ScActs == {a \in ScActs : (a.id = 1 /\ a.own # "o2") \/ (Rich /\ a.id = 2 /\ ((a.t = "screg" /\ a.own = "o1") \/ a.m = M_SCREG))}

Ids == 0..(MaxId - 1)
Whos == IF NWho = 1 THEN {{"r1"}} ELSE {{"r1"}, {"r1", "r2"}}
RelActs == {AWho("relreg", w, "o1") : w \in Whos} \cup {AWho("relrem", w, "o1") : w \in Whos}
           \cup {AId(ApT, m, id, by) : m \in RelMethods, id \in Ids, by \in Bys}
SvActs == {AWho("svreg", w, "o1") : w \in Whos} \cup {AWho("svrem", w, "o1") : w \in Whos}
          \cup {AId(ApT, m, id, by) : m \in SvMethods, id \in Ids, by \in Bys}

Alphabet(s) ==
    (CASE s.area = "node" -> NodeActs
       [] s.area = "nodeA" -> NodeA
       [] s.area = "nodeB" -> NodeB
       [] s.area = "sc" -> IF Mode = "C32" THEN C32ScActs ELSE IF Mode = "C35" /\ ~Full2 THEN ScActs \cup C35Aps ELSE ScActs
       [] s.area = "rel" -> RelActs
       [] s.area = "sv" -> SvActs)
    \cup (IF Mode = "C32" /\ (Rich \/ s.area = "sv") THEN EpochActs ELSE {})   \* quick: the epoch change is explored in area sv

\* C32 quick: two request ids in area rel (same method, different request), one id and the epoch change in area sv
SvMaxId == IF Mode = "C32" /\ ~Rich THEN 1 ELSE MaxId
Enabled(s, a) ==
    /\ a.t = "block" => s.height < MaxHeight
    /\ (Mode = "C32" /\ ~Rich /\ a.t = "quit") => s.signs # {}       \* quick: the epoch change happens between approvals
    /\ (Mode = "C32" /\ ~Rich /\ a.t = "commit") => \E e \in s.pool : e.st = "quit"
    /\ a.t = "relreg" => s.relAid < MaxId
    /\ a.t = "relrem" => s.relRid < MaxId
    /\ a.t = "svreg" => s.svAid < SvMaxId
    /\ a.t = "svrem" => s.svRid < SvMaxId
    /\ (IsApprove(a) /\ a.m = M_RELREG) => a.id < s.relAid      \* ids that were handed out
    /\ (IsApprove(a) /\ a.m = M_RELREM) => a.id < s.relRid
    /\ (IsApprove(a) /\ a.m = M_SVREG) => a.id < s.svAid
    /\ (IsApprove(a) /\ a.m = M_SVREM) => a.id < s.svRid

Emit(a) ==
    ~EmitOn \/ PrintT(<<"EDGE", ToJson([h |-> hist, a |-> a, r |-> R'.r, s |-> R.s, t |-> R'.s, g |-> G])>>)

\* R = [r, s]: result of the last step and the storage record (Step is evaluated once per edge)
Next == \E a \in Alphabet(R.s) :
            /\ Enabled(R.s, a)
            /\ R' = Step(R.s, a)
            /\ G' = GhostNext(G, R.s, a, R'.r, R'.s)
            /\ bad' = Mon(G, R.s, a, R'.r, R'.s)
            /\ hist' = IF R'.s # R.s THEN Append(hist, a) ELSE hist
            /\ Emit(a)

Spec == Init /\ [][Next]_vars
\* G.old (approvals of replaced requests) only classifies a C32 violation and is a function of the history that is
\* printed with the edge; it is left out of the view so that it does not multiply the states
View == <<R.s, G.fresh, G.appr, bad>>

\* C32: at most two (method, request) sign sets at a time, the second one with the single approver v1
TwoLabels == LET ne == R.s.signs
             IN Cardinality(ne) <= 2 /\ (Cardinality(ne) = 2 => \E x \in ne : Cardinality(x.by) = 1 /\ x.by = {"v1"})
Bound == /\ R.s.view <= MaxView
         /\ Cardinality(UNION {{<<x.m, x.q, b>> : b \in x.by} : x \in R.s.signs}) <= MaxSigns
         /\ (Mode = "C32") => TwoLabels

(* the properties, on the model *)
Clauses(p) == {c \in bad : c.p = p}
PropC32 == Clauses("C32") = {}
PropC33 == Clauses("C33") = {}
PropC34 == Clauses("C34") = {}
PropC35 == Clauses("C35") = {}
PropAll == bad = {}
TypeOK == /\ R.s.view \in 1..(MaxView + 1) /\ R.s.height \in 1..MaxHeight
          /\ \A e \in R.s.pool : e.st \in {"cand", "cons", "quit", "black"}
=============================================================================
