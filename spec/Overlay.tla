------------------------------- MODULE Overlay -------------------------------
(***************************************************************************)
(* C10 / C11 - layered state views over the persistent store.              *)
(*                                                                         *)
(*   store  : LevelDB (core/store/leveldbstore), holds live values only    *)
(*   batch  : the store's pending write batch (NewBatch .. BatchCommit)    *)
(*   blk    : OverlayDB.memdb   - block layer  (core/store/overlaydb)      *)
(*   tx     : CacheDB.memdb     - transaction layer (native/storage)       *)
(*                                                                         *)
(* Keys are 1..K and stand for byte strings in byte order; a prefix scan   *)
(* is given by the contiguous index range <<lo,hi>> the prefix selects     *)
(* (the driver concretizes keys and prefixes, incl. a prefix pair, 0xff    *)
(* carries, foreign keys around the ST_STORAGE prefix).  A layer cell is   *)
(* "U" (never written in this layer), "T" (tombstone: Delete(k) and        *)
(* Put(k, empty) are the same thing in the code) or a value id.  The store *)
(* has only "U" (absent) or a value.                                       *)
(*                                                                         *)
(* Implementation-shaped part: reads cascade tx -> blk -> store exactly as *)
(* CacheDB.get / OverlayDB.Get do; CacheDB.Commit / OverlayDB.CommitTo     *)
(* copy every cell of the upper memdb (tombstones as deletes); the prefix  *)
(* scan is the two-cursor machine of JoinIter (first/next with origin      *)
(* tracking, lazily discovered end flags, skipping of empty values),       *)
(* nested twice for the CacheDB iterator.                                  *)
(* Monitor part PropC10: reads = newest layer's value / deleted = absent;  *)
(* JoinIter walk = declarative merged scan (live keys of the merged view   *)
(* in byte order with newest values); commit applies exactly the upper     *)
(* layer's cells; reset discards them.                                     *)
(* C11: WriteSeq(blk) is the canonical (sorted, tombstones included)       *)
(* sequence of the block layer; ChangeDigest = Sha(WriteSeq(blk)) with Sha *)
(* a free function symbol the driver evaluates with the real SHA-256 over  *)
(* the concatenation k1 v1 k2 v2 ... (a tombstone contributes its key      *)
(* only).  The digest is a state function of blk by construction, so any   *)
(* two write histories with the same final block layer have equal digest   *)
(* and write set; the bindings check that the real code agrees.            *)
(*                                                                         *)
(* Bindings: P-EDGE (Mode "edge": VIEW hides hist, every action prints its *)
(* edge once), P-REPLAY for C11 (Mode "replay": write histories up to      *)
(* Depth, every history printed once with the predicted final layers),     *)
(* P-VALIDATE (TraceOverlay).                                              *)
(***************************************************************************)
EXTENDS Integers, Sequences, FiniteSets, TLC, Json

CONSTANTS K,         \* number of keys
          Vals,      \* live value ids (strings)
          Ranges,    \* index ranges selected by the scanned prefixes, coded 10*lo+hi (lo > hi: nothing)
          WithBatch, \* TRUE: NewBatch / CommitTo / BatchCommit are separate steps; FALSE: one "flush" step
          Mode,      \* "mc" | "edge" | "replay"
          Depth      \* replay mode: maximal history length
VARIABLES store, batch, bopen, blk, tx, hist

Keys == 1..K
U == "U"
T == "T"
Cell == Vals \cup {U, T}
Empty == [k \in Keys |-> U]
vars == <<store, batch, bopen, blk, tx, hist>>
EmitOn == Mode = "edge"

Known(mm, k) == mm[k] # U
Live(c) == c # U /\ c # T
Val(c) == IF Live(c) THEN c ELSE ""          \* what a read returns: the value or "absent"

(* ---------- reads, as the code cascades -------------------------------- *)
StoreGet(k) == Val(store[k])
BlkGet(k) == IF Known(blk, k) THEN Val(blk[k]) ELSE StoreGet(k)
TxGet(k)  == IF Known(tx, k) THEN Val(tx[k]) ELSE BlkGet(k)

(* ---------- reference: merged views ------------------------------------ *)
Over(upper, lower) == [k \in Keys |-> IF upper[k] # U THEN upper[k] ELSE lower[k]]
BlkView == Over(blk, store)
TxView  == Over(tx, BlkView)

RECURSIVE SeqFrom(_, _, _, _)     \* entries of map mm with index in [lo,hi] satisfying keep, in key order
SeqFrom(mm, k, hi, keepT) ==
    IF k > hi \/ k > K THEN <<>>
    ELSE IF mm[k] # U /\ (keepT \/ mm[k] # T)
         THEN <<[k |-> k, v |-> mm[k]]>> \o SeqFrom(mm, k + 1, hi, keepT)
         ELSE SeqFrom(mm, k + 1, hi, keepT)
Entries(mm, lo, hi) == SeqFrom(mm, IF lo < 1 THEN 1 ELSE lo, hi, TRUE)     \* memdb iterator: tombstones included
LiveScan(mm, lo, hi) == SeqFrom(mm, IF lo < 1 THEN 1 ELSE lo, hi, FALSE)   \* declarative scan of a view

(* ---------- JoinIter as the code has it -------------------------------- *)
(* cursor: mi/bi index into the mem / backend sequences (Len+1 = exhausted; an exhausted iterator's Key() is nil,
   modelled as key 0 which sorts below every key, its Value() is empty = T); org = keyOrigin; me/be = nextMemEnd /
   nextBackEnd (set only when a Next() call on that side returned false, as in the code). *)
KeyAt(s, i) == IF i <= Len(s) THEN s[i].k ELSE 0
ValAt(s, i) == IF i <= Len(s) THEN s[i].v ELSE T
Cmp(a, b) == IF a < b THEN -1 ELSE IF a = b THEN 0 ELSE 1
Dead == [mi |-> 0, bi |-> 0, org |-> "mem", me |-> TRUE, be |-> TRUE, k |-> 0, v |-> T, ok |-> FALSE]

RawFirst(mem, back) ==
    LET hasB == Len(back) >= 1
        hasM == Len(mem) >= 1
        c0 == [mi |-> 1, bi |-> 1, org |-> "mem", me |-> FALSE, be |-> FALSE, k |-> 0, v |-> T, ok |-> TRUE]
    IN IF hasB
       THEN IF ~hasM THEN [c0 EXCEPT !.k = back[1].k, !.v = back[1].v, !.org = "back"]
            ELSE LET c == Cmp(mem[1].k, back[1].k)
                 IN IF c < 1 THEN [c0 EXCEPT !.k = mem[1].k, !.v = mem[1].v, !.org = IF c = 0 THEN "both" ELSE "mem"]
                    ELSE [c0 EXCEPT !.k = back[1].k, !.v = back[1].v, !.org = "back"]
       ELSE IF hasM THEN [c0 EXCEPT !.k = mem[1].k, !.v = mem[1].v, !.org = "mem"]
            ELSE [c0 EXCEPT !.ok = FALSE]

Adv(s, i) == IF i <= Len(s) THEN i + 1 ELSE i
RawNext(mem, back, c) ==
    LET advM == (c.org = "mem" \/ c.org = "both") /\ ~c.me
        advB == (c.org = "back" \/ c.org = "both") /\ ~c.be
        mi2 == IF advM THEN Adv(mem, c.mi) ELSE c.mi
        bi2 == IF advB THEN Adv(back, c.bi) ELSE c.bi
        me2 == IF advM THEN mi2 > Len(mem) ELSE c.me
        be2 == IF advB THEN bi2 > Len(back) ELSE c.be
        c1 == [c EXCEPT !.mi = mi2, !.bi = bi2, !.me = me2, !.be = be2]
    IN IF be2
       THEN IF me2 THEN [c1 EXCEPT !.k = 0, !.v = T, !.ok = FALSE]
            ELSE [c1 EXCEPT !.k = KeyAt(mem, mi2), !.v = ValAt(mem, mi2), !.org = "mem"]
       ELSE IF me2 THEN [c1 EXCEPT !.k = KeyAt(back, bi2), !.v = ValAt(back, bi2), !.org = "back"]
            ELSE LET cm == Cmp(KeyAt(mem, mi2), KeyAt(back, bi2))
                 IN IF cm = -1 THEN [c1 EXCEPT !.k = KeyAt(mem, mi2), !.v = ValAt(mem, mi2), !.org = "mem"]
                    ELSE IF cm = 0 THEN [c1 EXCEPT !.k = KeyAt(mem, mi2), !.v = ValAt(mem, mi2), !.org = "both"]
                    ELSE [c1 EXCEPT !.k = KeyAt(back, bi2), !.v = ValAt(back, bi2), !.org = "back"]

RECURSIVE SkipEmpty(_, _, _, _)     \* the `for len(iter.value) == 0 { next() }` loops of First / Next
SkipEmpty(mem, back, c, fuel) ==
    IF ~c.ok \/ fuel = 0 THEN c
    ELSE IF c.v = T THEN SkipEmpty(mem, back, RawNext(mem, back, c), fuel - 1) ELSE c
Fuel == 4 * K + 8
PubFirst(mem, back) == SkipEmpty(mem, back, RawFirst(mem, back), Fuel)
PubNext(mem, back, c) == SkipEmpty(mem, back, RawNext(mem, back, c), Fuel)
RECURSIVE WalkJ(_, _, _, _)
WalkJ(mem, back, c, fuel) ==
    IF ~c.ok \/ fuel = 0 THEN <<>>
    ELSE <<[k |-> c.k, v |-> c.v]>> \o WalkJ(mem, back, PubNext(mem, back, c), fuel - 1)
JoinWalk(mem, back) == WalkJ(mem, back, PubFirst(mem, back), Fuel)

(* OverlayDB.NewIterator(prefix): memdb range iterator joined with the store iterator;
   CacheDB.NewIterator(prefix): tx memdb range iterator joined with the OverlayDB iterator *)
BlkScanImpl(lo, hi) == JoinWalk(Entries(blk, lo, hi), LiveScan(store, lo, hi))
TxScanOf(t, lo, hi) == JoinWalk(Entries(t, lo, hi), BlkScanImpl(lo, hi))
TxScanImpl(lo, hi)  == TxScanOf(tx, lo, hi)

(* Iterator life cycle.  NewIterator(prefix) fixes the scanned range; First()/Next() produce the walk.  What the model
   states about other calls made while an iterator is open (between NewIterator and First(), or between two Next()):
     - reads (Get at either layer, any key) change nothing, so the walk is the one predicted for the state;
     - a Put/Delete of a key OUTSIDE the scanned range is never visible in the walk (true for a live iterator and for a
       snapshot iterator alike), while the write itself takes effect: action TScanW = NewIterator; write; walk.
   Writes inside the range, commits and resets under an open iterator are left unspecified (the memdb iterators are live,
   the LevelDB iterator is a snapshot; no caller in the code base does it) and are never generated. *)
Outside(k, lo, hi) == k < lo \/ k > hi
WVals == {T} \cup {CHOOSE v \in Vals : TRUE}

(* ---------- C11: canonical write sequence of the block layer ----------- *)
WriteSeq(b) == Entries(b, 1, K)
(* ChangeDigest(b) == Sha(WriteSeq(b)): the driver evaluates Sha with the real SHA-256 *)

(* ---------- emission ---------------------------------------------------- *)
Post(s2, b2, t2) == [st |-> s2, blk |-> b2, tx |-> t2, ws |-> WriteSeq(b2)]
Emit(op, args, v, obs, s2, b2, t2) ==
    ~EmitOn \/ PrintT(<<"EDGE", ToJson([h |-> hist, op |-> op, a |-> args, v |-> v, obs |-> obs, post |-> Post(s2, b2, t2)])>>)
Log(op, args, v) == hist' = [hist EXCEPT !.ops = Append(hist.ops, [op |-> op, a |-> args, v |-> v])]

ReadsOn == Mode # "replay"

Init == /\ store \in [Keys -> Vals \cup {U}]
        /\ (Mode = "replay" => store = Empty)
        /\ batch = Empty /\ bopen = FALSE /\ blk = Empty /\ tx = Empty
        /\ hist = [s0 |-> store, ops |-> <<>>]

(* writes *)
TPut(k, v) == /\ tx' = [tx EXCEPT ![k] = v] /\ UNCHANGED <<store, batch, bopen, blk>>
              /\ Log("tput", <<k>>, v) /\ Emit("tput", <<k>>, v, "", store, blk, tx')
BPut(k, v) == /\ blk' = [blk EXCEPT ![k] = v] /\ UNCHANGED <<store, batch, bopen, tx>>
              /\ Log("bput", <<k>>, v) /\ Emit("bput", <<k>>, v, "", store, blk', tx)
(* CacheDB.Commit: every cell of the tx memdb goes down (tombstone -> Delete); the tx memdb is left as it is *)
TCommit == /\ blk' = Over(tx, blk) /\ UNCHANGED <<store, batch, bopen, tx>>
           /\ Log("tcommit", <<>>, "") /\ Emit("tcommit", <<>>, "", "", store, blk', tx)
TReset == /\ tx' = Empty /\ UNCHANGED <<store, batch, bopen, blk>>
          /\ Log("treset", <<>>, "") /\ Emit("treset", <<>>, "", "", store, blk, tx')
BReset == /\ blk' = Empty /\ UNCHANGED <<store, batch, bopen, tx>>
          /\ Log("breset", <<>>, "") /\ Emit("breset", <<>>, "", "", store, blk', tx)
(* store batch protocol *)
Apply(b, s) == [k \in Keys |-> IF b[k] = U THEN s[k] ELSE IF b[k] = T THEN U ELSE b[k]]
Flush == /\ ~WithBatch /\ store' = Apply(blk, store) /\ UNCHANGED <<batch, bopen, blk, tx>>
         /\ Log("flush", <<>>, "") /\ Emit("flush", <<>>, "", "", store', blk, tx)
NewBatch == /\ WithBatch /\ batch' = Empty /\ bopen' = TRUE /\ UNCHANGED <<store, blk, tx>>
            /\ Log("newbatch", <<>>, "") /\ Emit("newbatch", <<>>, "", "", store, blk, tx)
CommitTo == /\ WithBatch /\ bopen /\ batch' = Over(blk, batch) /\ UNCHANGED <<store, bopen, blk, tx>>
            /\ Log("committo", <<>>, "") /\ Emit("committo", <<>>, "", "", store, blk, tx)
BatchCommit == /\ WithBatch /\ bopen /\ store' = Apply(batch, store) /\ batch' = Empty /\ bopen' = FALSE
               /\ UNCHANGED <<blk, tx>>
               /\ Log("batchcommit", <<>>, "") /\ Emit("batchcommit", <<>>, "", "", store', blk, tx)
(* reads *)
ObsTGet(k) == TxGet(k)
ObsBGet(k) == BlkGet(k)
ObsTScan(lo, hi) == TxScanImpl(lo, hi)
ObsBScan(lo, hi) == BlkScanImpl(lo, hi)
TGet(k) == /\ ReadsOn /\ UNCHANGED vars /\ Emit("tget", <<k>>, "", ObsTGet(k), store, blk, tx)
BGet(k) == /\ ReadsOn /\ UNCHANGED vars /\ Emit("bget", <<k>>, "", ObsBGet(k), store, blk, tx)
TScan(lo, hi) == /\ ReadsOn /\ UNCHANGED vars /\ Emit("tscan", <<lo, hi>>, "", ObsTScan(lo, hi), store, blk, tx)
BScan(lo, hi) == /\ ReadsOn /\ UNCHANGED vars /\ Emit("bscan", <<lo, hi>>, "", ObsBScan(lo, hi), store, blk, tx)

(* NewIterator(range) at the tx level; Put/Delete of an out-of-range key; First()/Next()... *)
TScanW(lo, hi, k, v) ==
    /\ ReadsOn /\ Outside(k, lo, hi)
    /\ tx' = [tx EXCEPT ![k] = v] /\ UNCHANGED <<store, batch, bopen, blk>>
    /\ Log("tput", <<k>>, v)
    /\ Emit("tscanw", <<lo, hi, k>>, v, TxScanOf(tx', lo, hi), store, blk, tx')

Next == \/ \E k \in Keys : \/ \E v \in Vals \cup {T} : TPut(k, v) \/ BPut(k, v)
                           \/ TGet(k) \/ BGet(k)
        \/ TCommit \/ TReset \/ BReset
        \/ Flush \/ NewBatch \/ CommitTo \/ BatchCommit
        \/ \E r \in Ranges : TScan(r \div 10, r % 10) \/ BScan(r \div 10, r % 10)
        \/ (EmitOn /\ \E r \in Ranges, k \in Keys, v \in WVals : TScanW(r \div 10, r % 10, k, v))

Spec == Init /\ [][Next]_vars
View == <<store, batch, bopen, blk, tx>>

(* replay mode: every history up to Depth is a distinct state; print each once with the predicted layers *)
EmitTrace == IF Mode = "replay"
             THEN /\ PrintT(<<"TRACE", ToJson([h |-> hist, post |-> Post(store, blk, tx)])>>)
                  /\ Len(hist.ops) < Depth
             ELSE TRUE

(* ---------- PropC10: the monitor ---------------------------------------- *)
TypeOK == /\ store \in [Keys -> Vals \cup {U}]
          /\ blk \in [Keys -> Cell] /\ tx \in [Keys -> Cell] /\ batch \in [Keys -> Cell]
ReadsNewest ==      \* a read returns the newest layer's value; deleted keys read as absent
    \A k \in Keys : /\ TxGet(k) = Val(TxView[k])
                    /\ BlkGet(k) = Val(BlkView[k])
AllRanges == {<<lo, hi>> : lo \in 1..K, hi \in 0..K}
ScansExact ==       \* the join iterator yields exactly the visible live keys of the range, in order, newest values
    \A r \in AllRanges : /\ BlkScanImpl(r[1], r[2]) = LiveScan(BlkView, r[1], r[2])
                         /\ TxScanImpl(r[1], r[2]) = LiveScan(TxView, r[1], r[2])
ScanIgnoresOutside ==      \* a write outside the scanned range, made while the iterator is open, does not show in the walk
    \A r \in Ranges, k \in Keys, v \in WVals :
        Outside(k, r \div 10, r % 10) =>
            TxScanOf([tx EXCEPT ![k] = v], r \div 10, r % 10) = LiveScan(TxView, r \div 10, r % 10)
PropC10 == TypeOK /\ ReadsNewest /\ ScansExact /\ ScanIgnoresOutside

(* commit applies exactly the upper layer's cells to the layer below and keeps every view; reset discards the layer
   (action property; the step's name is the last entry of the history) *)
StepOp == IF Len(hist'.ops) > Len(hist.ops) THEN hist'.ops[Len(hist'.ops)].op ELSE "none"
Applied(upper, lower, lower2) ==
    \A k \in Keys : lower2[k] = IF upper[k] = U THEN lower[k] ELSE IF upper[k] = T THEN U ELSE upper[k]
CommitExact ==
    /\ StepOp = "tcommit" => /\ \A k \in Keys : blk'[k] = IF tx[k] # U THEN tx[k] ELSE blk[k]
                             /\ tx' = tx /\ store' = store
                             /\ \A k \in Keys : TxGet(k)' = TxGet(k)
    /\ StepOp = "flush" => /\ Applied(blk, store, store') /\ blk' = blk /\ tx' = tx
                           /\ \A k \in Keys : BlkGet(k)' = BlkGet(k) /\ TxGet(k)' = TxGet(k)
    /\ StepOp = "committo" => /\ store' = store /\ blk' = blk
                              /\ \A k \in Keys : batch'[k] = IF blk[k] # U THEN blk[k] ELSE batch[k]
    /\ StepOp = "batchcommit" => Applied(batch, store, store') /\ blk' = blk /\ tx' = tx
    /\ StepOp = "treset" => /\ blk' = blk /\ store' = store /\ \A k \in Keys : TxGet(k)' = BlkGet(k)
    /\ StepOp = "breset" => /\ tx' = tx /\ store' = store /\ \A k \in Keys : BlkGet(k)' = StoreGet(k)
PropC10Step == [][CommitExact]_vars

(* ---------- PropC11 (design level) -------------------------------------- *)
(* The write set / digest input is a function of the final block layer only: equal layers give equal sequences,
   and the sequence is sorted, duplicate free and contains every written key exactly once with its final cell.   *)
PropC11 == LET ws == WriteSeq(blk) IN
           /\ \A i \in 1..Len(ws) : blk[ws[i].k] = ws[i].v /\ ws[i].v # U
           /\ \A i \in 1..(Len(ws) - 1) : ws[i].k < ws[i + 1].k
           /\ \A k \in Keys : Known(blk, k) => \E i \in 1..Len(ws) : ws[i].k = k
=============================================================================
