---------------------------- MODULE IncrValidator ----------------------------
(***************************************************************************)
(* C38 - recent-block duplicate detection (validator/increment) and the    *)
(* stateful validator's ledger check (validator/stateful).                 *)
(*                                                                         *)
(* Tracker state as the code has it: blocks (sequence of tx-hash sets),    *)
(* base (height of blocks[1]), max (capacity fixed at construction;        *)
(* NewIncrementValidator(n <= 0) means 20).  Actions = the exported calls: *)
(*   AddBlock(h, txs)  first block of an empty tracker sets base; a block  *)
(*                     whose height is not base+Len is ignored; at         *)
(*                     capacity the oldest block is dropped first          *)
(*   Verify(tx, start) refuses when start < base ("cannot check"),         *)
(*                     otherwise duplicate iff tx is in a tracked block    *)
(*                     of height >= start                                  *)
(*   BlockRange, Clean                                                     *)
(* Ledger part: chain = the committed blocks; CheckTx(tx) answers          *)
(* "duplicate" iff tx is in some committed block.                          *)
(*                                                                         *)
(* Monitor PropC38 over the ghost variable run (the blocks accepted since  *)
(* the last Clean, decided by the reference rule "first block, or height   *)
(* = last accepted height + 1"):                                           *)
(*   - the tracker holds exactly the last min(max, |run|) blocks of run    *)
(*     and reports their height range;                                     *)
(*   - Verify with start inside the range is a duplicate report iff the tx *)
(*     occurs in a tracked block at or above start; below the range a      *)
(*     transaction that does occur in a tracked block is never accepted    *)
(*     (refusing the query altogether, as the code does, is allowed).      *)
(* Binding: P-EDGE (Mode "edge") + P-VALIDATE (TraceIncrValidator).        *)
(***************************************************************************)
EXTENDS Integers, Sequences, FiniteSets, TLC, Json

CONSTANTS Heights,   \* set of block heights offered / queried (0..H)
          Tx,        \* transaction ids (integers)
          TxSets,    \* the transaction sets a block may carry (SUBSET Tx, possibly restricted)
          Maxes,     \* capacities to construct the tracker with
          Mode       \* "mc" | "edge"
VARIABLES blocks, base, max, run, hist

vars == <<blocks, base, max, run, hist>>
EmitOn == Mode = "edge"
RECURSIVE SeqOf(_, _)
SeqOf(R, k) == IF k > 64 THEN <<>> ELSE IF k \in R THEN <<k>> \o SeqOf(R, k + 1) ELSE SeqOf(R, k + 1)
SetToSeq(S) == SeqOf(S, 0)
HMax == CHOOSE h \in Heights : \A g \in Heights : g <= h
VerifyOn(b, bs, tx, start) ==
    IF start < bs THEN "err"
    ELSE IF \E i \in 1..Len(b) : i >= start - bs + 1 /\ tx \in b[i] THEN "err" ELSE "ok"
(* post-state of an edge: range and the full Verify matrix vm[tx][start+1] (the tracker's content is not exported) *)
Emit(op, args, obs, b2, base2) ==
    ~EmitOn \/ PrintT(<<"EDGE", ToJson([h |-> hist, op |-> op, a |-> args, obs |-> obs,
                                         post |-> [range |-> <<base2, base2 + Len(b2)>>,
                                                   vm |-> [t \in 1..Cardinality(Tx) |-> [i \in 1..(HMax + 2) |-> VerifyOn(b2, base2, t, i - 1)]]]])>>)
Log(op, args) == hist' = [hist EXCEPT !.ops = Append(hist.ops, [op |-> op, a |-> args])]

Init == /\ max \in Maxes /\ blocks = <<>> /\ base = 0 /\ run = <<>>
        /\ hist = [max |-> max, ops |-> <<>>]

(* ---- the code ---------------------------------------------------------- *)
AddResult(h, txs) ==
    LET base1 == IF Len(blocks) = 0 THEN h ELSE base
    IN IF base1 + Len(blocks) # h
       THEN [blocks |-> blocks, base |-> base1]
       ELSE IF Len(blocks) >= max
            THEN [blocks |-> Append(Tail(blocks), txs), base |-> base1 + 1]
            ELSE [blocks |-> Append(blocks, txs), base |-> base1]
VerifyResult(tx, start) == VerifyOn(blocks, base, tx, start)
RangeResult == <<base, base + Len(blocks)>>

(* reference rule for the ghost run *)
Accepts(h) == Len(run) = 0 \/ h = run[Len(run)].h + 1

AddBlock(h, txs) ==
    LET r == AddResult(h, txs) IN
    /\ blocks' = r.blocks /\ base' = r.base /\ UNCHANGED max
    /\ run' = IF Accepts(h) THEN Append(run, [h |-> h, txs |-> txs]) ELSE run
    /\ Log("add", <<h>> \o SetToSeq(txs))
    /\ Emit("add", <<h>> \o SetToSeq(txs), "", r.blocks, r.base)
Clean == /\ blocks' = <<>> /\ base' = 0 /\ run' = <<>> /\ UNCHANGED max
         /\ Log("clean", <<>>) /\ Emit("clean", <<>>, "", <<>>, 0)
Verify(tx, start) == /\ UNCHANGED vars /\ Emit("verify", <<tx, start>>, VerifyResult(tx, start), blocks, base)
Range == /\ UNCHANGED vars /\ Emit("range", <<>>, RangeResult, blocks, base)

Next == \/ \E h \in Heights, txs \in TxSets : AddBlock(h, txs)
        \/ Clean \/ Range
        \/ \E tx \in Tx, st \in Heights : Verify(tx, st)
Spec == Init /\ [][Next]_vars
ViewEdge == <<blocks, base, max>>
ViewMC == <<blocks, base, max, run>>

(* ---- PropC38 ----------------------------------------------------------- *)
Min(a, b) == IF a < b THEN a ELSE b
Tracked == LET n == Min(max, Len(run)) IN SubSeq(run, Len(run) - n + 1, Len(run))   \* what should be tracked
TrackerExactOn(tr) ==
    /\ Len(blocks) = Len(tr)
    /\ \A i \in 1..Len(blocks) : blocks[i] = tr[i].txs /\ tr[i].h = base + i - 1
    /\ Len(run) = 0 => RangeResult[1] = RangeResult[2]
    /\ Len(run) > 0 => RangeResult = <<tr[1].h, run[Len(run)].h + 1>>
DupIn(tr, tx, start) == \E i \in 1..Len(tr) : tr[i].h >= start /\ tx \in tr[i].txs
VerifyExactOn(tr) ==
    \A tx \in Tx, st \in {g \in Heights : g + 2 >= base /\ g <= base + Len(blocks) + 1} :   \* the window where answers change
        LET dup == DupIn(tr, tx, st)
            res == VerifyResult(tx, st)
        IN /\ dup => res = "err"
           /\ (st >= RangeResult[1] /\ ~dup) => res = "ok"
TrackerExact == TrackerExactOn(Tracked)
VerifyExact == VerifyExactOn(Tracked)
PropC38 == LET tr == Tracked IN TrackerExactOn(tr) /\ VerifyExactOn(tr)
=============================================================================
