------------------------------ MODULE OntNeoMsg ------------------------------
(***************************************************************************)
(* C24 - validator-signed cross-chain messages need distinct tracked        *)
(* signers.  P-TABLE: Init picks one row of a finite input domain, Decide    *)
(* computes the verdicts and prints the row.  The state space IS the table. *)
(*                                                                         *)
(* Row (ont)      [chain, fam, n, bks, sigs]                                 *)
(*   bks  : the bookkeeper list sent with the message (identities)          *)
(*   sigs : the SigData list (identity that signed this message, 0 = a      *)
(*          signature valid under no key)                                   *)
(* Row (neo/neo3) [chain, fam, n, m, script, sigs]                           *)
(*   m      : threshold of the tracked multi-signature script (neo: 1, n -  *)
(*            (n-1) div 3 and n; neo3: n - (n-1) div 3 of the state         *)
(*            validators)                                                   *)
(*   script : "tracked" or a different script offered by the sender         *)
(*            ("lowm": same keys, threshold m-1; "subset": one key dropped; *)
(*             "foreign": one key replaced by the sender's own)             *)
(*                                                                         *)
(* Verdicts printed with each row:                                          *)
(*   intended : the implementation-shaped decision (all guards)             *)
(*   nodup    : ont only, the decision without the duplicate guard          *)
(*   allowed  : the monitor - may the message be accepted at all?           *)
(*   why      : failing guards (ont)                                        *)
(* PropC24: accepted => allowed.  TLC checks it for `intended` on the whole *)
(* table; the driver checks it for the REAL verdict of every row.           *)
(***************************************************************************)
EXTENDS OntNeo, TLC, Json

CONSTANTS Chains,     \* subset of {"ont", "neo", "neo3"}
          Ns,         \* validator-set sizes for the structured families
          LightNs,    \* sizes for which only the subset / repeat families are generated
          ExhN,       \* exhaustive family: sizes 1..ExhN (0 = off)
          ExhL,       \* exhaustive family: list length bound
          EmitOn

VARIABLES row, done

vars == <<row, done>>

Sub(n) == SUBSET (1..n)
NeSub(n) == Sub(n) \ {{}}
F1(n) == n + 1      \* validator of another epoch / other chain
F2(n) == n + 2      \* never a validator

RECURSIVE SeqsUpTo(_, _)
SeqsUpTo(S, l) == IF l = 0 THEN {<<>>}
                  ELSE LET P == SeqsUpTo(S, l - 1)
                       IN P \cup {Append(p, x) : p \in {q \in P : Len(q) = l - 1}, x \in S}

OntRow(fam, n, bks, sigs) == [chain |-> "ont", fam |-> fam, n |-> n, m |-> 0, script |-> "tracked", bks |-> bks, sigs |-> sigs]

\* one validator listed (and signing) k times, padded with tracked validators that are listed but do not sign: the distinct
\* LISTED count reaches the threshold while the distinct SIGNER count is one (a multi-signature routine that masks by list
\* position accepts k copies of one signature against k copies of one key)
DupIdle(n, maxT) ==
    UNION {UNION {{OntRow("dup-plus-idle", n, Rep(d, k) \o SetToSeq(T), Rep(d, k)) : k \in 2..n}
                  : T \in {X \in NeSub(n) : d \notin X /\ Cardinality(X) <= maxT}} : d \in 1..n}
    \cup UNION {UNION {{OntRow("idle-plus-dup", n, SetToSeq(T) \o Rep(d, k), Rep(d, k)) : k \in 2..n}
                  : T \in {X \in NeSub(n) : d \notin X /\ Cardinality(X) <= maxT}} : d \in 1..n}

OntFamilies(n) ==
    DupIdle(n, n) \cup
    {OntRow("subset", n, SetToSeq(S), SetToSeq(S)) : S \in Sub(n)}
    \cup {OntRow("repeat", n, Rep(v, k), Rep(v, k)) : v \in 1..n, k \in 2..(n + 1)}
    \cup UNION {{OntRow("onedup", n, Append(SetToSeq(S), d), Append(SetToSeq(S), d)) : d \in S} : S \in NeSub(n)}
    \cup UNION {{OntRow("dupfront", n, <<d>> \o SetToSeq(S), <<d>> \o SetToSeq(S)) : d \in S} : S \in NeSub(n)}
    \cup UNION {{OntRow("dupkey-onesig", n, Append(SetToSeq(S), d), SetToSeq(S)) : d \in S} : S \in NeSub(n)}
    \cup {OntRow("foreign-listed", n, Append(SetToSeq(S), f), Append(SetToSeq(S), f)) : S \in Sub(n), f \in {F1(n), F2(n)}}
    \cup UNION {{OntRow("foreign-signs", n, SetToSeq(S), ReplaceAt(SetToSeq(S), j, F1(n))) : j \in 1..Cardinality(S)} : S \in NeSub(n)}
    \cup UNION {{OntRow("badsig", n, SetToSeq(S), ReplaceAt(SetToSeq(S), j, 0)) : j \in 1..Cardinality(S)} : S \in NeSub(n)}
    \cup {OntRow("fewsigs", n, SetToSeq(S), SubSeq(SetToSeq(S), 1, Cardinality(S) - 1)) : S \in NeSub(n)}
    \cup {OntRow("extrasig", n, SetToSeq(S), Append(SetToSeq(S), x)) : S \in Sub(n), x \in {0, 1, F1(n)}}
    \cup {OntRow("reversed", n, SetToSeq(S), Rev(SetToSeq(S))) : S \in NeSub(n)}
    \cup UNION {{OntRow("sigtwice", n, SetToSeq(S), ReplaceAt(SetToSeq(S), j, MinOf(S))) : j \in 2..Cardinality(S)} : S \in NeSub(n)}
    \cup {OntRow("repeat-foreign", n, Rep(F1(n), k), Rep(F1(n), k)) : k \in 1..n}

OntLight(n) ==
    DupIdle(n, 2) \cup
    {OntRow("subset", n, SetToSeq(S), SetToSeq(S)) : S \in Sub(n)}
    \cup {OntRow("repeat", n, Rep(v, k), Rep(v, k)) : v \in 1..n, k \in 2..(n + 1)}
    \cup {OntRow("repeat-foreign", n, Rep(F1(n), k), Rep(F1(n), k)) : k \in 1..n}

OntExhaustive ==
    UNION {{OntRow("exh", n, b, s) : b \in SeqsUpTo(1..(n + 1), ExhL), s \in SeqsUpTo(0..(n + 1), ExhL)} : n \in 1..ExhN}

NeoRow(chain, fam, n, m, script, sigs) == [chain |-> chain, fam |-> fam, n |-> n, m |-> m, script |-> script, bks |-> <<>>, sigs |-> sigs]
Scripts == {"tracked", "lowm", "subset", "foreign"}
ScriptsFor(n, m) == {sc \in Scripts : (sc = "lowm" => m >= 2) /\ (sc = "subset" => n >= 2)}
Ms(chain, n) == IF chain = "neo3" THEN {Neo3Need(n)} ELSE {1, Neo3Need(n), n}     \* neo: thresholds 1, the usual BFT one, n

WithAdjacentDup(S, d) == LET k == Cardinality({x \in S : x <= d})
                         IN SubSeq(SetToSeq(S), 1, k) \o <<d>> \o SubSeq(SetToSeq(S), k + 1, Cardinality(S))
NeoFamilies(chain, n) ==
    UNION {
      {NeoRow(chain, "subset", n, m, sc, SetToSeq(S)) : S \in NeSub(n), sc \in ScriptsFor(n, m)}
      \cup {NeoRow(chain, "nosig", n, m, "tracked", <<>>)}
      \cup {NeoRow(chain, "reversed", n, m, "tracked", Rev(SetToSeq(S))) : S \in {T \in Sub(n) : Cardinality(T) >= 2}}
      \cup {NeoRow(chain, "repeat", n, m, "tracked", Rep(v, k)) : v \in 1..n, k \in 2..(n + 1)}
      \cup UNION {{NeoRow(chain, "onedup", n, m, "tracked", SetToSeq(S) \o <<d>>) : d \in S} : S \in NeSub(n)}
      \cup UNION {{NeoRow(chain, "onedup-adjacent", n, m, "tracked", WithAdjacentDup(S, d)) : d \in S} : S \in NeSub(n)}
      \cup UNION {{NeoRow(chain, "foreign-signs", n, m, "tracked", ReplaceAt(SetToSeq(S), j, F1(n))) : j \in 1..Cardinality(S)} : S \in NeSub(n)}
      \cup UNION {{NeoRow(chain, "badsig", n, m, "tracked", ReplaceAt(SetToSeq(S), j, 0)) : j \in 1..Cardinality(S)} : S \in NeSub(n)}
      \cup {NeoRow(chain, "foreign-extra", n, m, "tracked", Append(SetToSeq(S), F1(n))) : S \in Sub(n)}
    : m \in Ms(chain, n)}

NeoLight(chain, n) ==
    UNION {
      {NeoRow(chain, "subset", n, m, sc, SetToSeq(S)) : S \in NeSub(n), sc \in ScriptsFor(n, m) \ {"subset", "foreign"}}
      \cup {NeoRow(chain, "nosig", n, m, "tracked", <<>>)}
      \cup {NeoRow(chain, "repeat", n, m, "tracked", Rep(v, k)) : v \in 1..n, k \in 2..(n + 1)}
    : m \in Ms(chain, n)}

NeoExhaustive(chain) ==
    UNION {UNION {{NeoRow(chain, "exh", n, m, sc, s) : sc \in ScriptsFor(n, m) \ {"foreign"}, s \in SeqsUpTo(0..(n + 1), ExhL)}
                  : m \in Ms(chain, n)} : n \in 1..ExhN}

Rows ==
    (IF "ont" \in Chains THEN (UNION {OntFamilies(n) : n \in Ns}) \cup (UNION {OntLight(n) : n \in LightNs}) \cup (IF ExhN > 0 THEN OntExhaustive ELSE {}) ELSE {})
    \cup UNION {(UNION {NeoFamilies(c, n) : n \in Ns}) \cup (UNION {NeoLight(c, n) : n \in LightNs}) \cup (IF ExhN > 0 THEN NeoExhaustive(c) ELSE {}) : c \in Chains \ {"ont"}}

(* verdicts ****************************************************************)
Intended(r) == IF r.chain = "ont" THEN OntAcceptIntended(r.n, r.bks, r.sigs) ELSE NeoAccept(r.n, r.m, r.script, r.sigs)
NoDup(r)    == IF r.chain = "ont" THEN OntAcceptNoDupGuard(r.n, r.bks, r.sigs) ELSE Intended(r)
Allowed(r)  == IF r.chain = "ont" THEN OntAllowed(r.n, r.sigs) ELSE NeoAllowed(r.n, r.m, r.sigs)
Why(r)      == IF r.chain = "ont" THEN OntWhy(r.n, r.bks, r.sigs) ELSE {}

Out(r) == [chain |-> r.chain, fam |-> r.fam, n |-> r.n, m |-> r.m, script |-> r.script, bks |-> r.bks, sigs |-> r.sigs,
           intended |-> Intended(r), nodup |-> NoDup(r), allowed |-> Allowed(r), why |-> Why(r),
           distinct |-> Cardinality(ValidTrackedSigners(r.n, r.sigs))]

Init == row \in Rows /\ done = FALSE
Decide == /\ ~done /\ done' = TRUE /\ UNCHANGED row
          /\ (~EmitOn \/ PrintT(<<"ROW", ToJson(Out(row))>>))
Next == Decide
Spec == Init /\ [][Next]_vars

(* PropC24 on the design ***************************************************)
PropC24 == Intended(row) => Allowed(row)
(* the walk of neo-gogogo accepts exactly strictly increasing signer lists   *)
NeoWalkIsIncreasing ==
    row.chain # "ont" => (NeoWalk(row.sigs, row.n, 1, 1) /\ Len(row.sigs) <= row.n) = (StrictlyIncreasingIn(row.sigs, row.n))
(* design-level statement of finding F4: without the duplicate guard the    *)
(* ont decision is NOT within the property (expected to be violated)         *)
NoDupGuardIsSafe == NoDup(row) => Allowed(row)
=============================================================================
