SPECIFICATION Spec
CONSTANTS Peers = {"p1", "p2", "p3"}
          Faulty = {"p3"}
          Target = 4
          MaxFwd = 2
          MaxFlightBlk = 2
          MaxCache = 2
          NextHeights = 1
          MaxErr = 2
          MaxFaults = 3
          HdrBatch = 2
INVARIANT FlightBound
INVARIANT CacheBound
INVARIANT TypeOK
INVARIANT BlocksBehindHeaders
INVARIANT ForwardWindow
INVARIANT CacheFunctional
INVARIANT CacheWindow
INVARIANT OneHeaderFlight
PROPERTY Monotone
PROPERTY NoRequestToRemoved
CHECK_DEADLOCK FALSE
