SPECIFICATION Spec
CONSTANTS Part = "all"
          KeyIds = {1, 2, 3}
          Outsider = 99
          MaxLen = 3
          EmitOn = TRUE
INVARIANT PropC39
CHECK_DEADLOCK FALSE
