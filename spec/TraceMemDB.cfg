SPECIFICATION TraceSpec
CONSTANTS K = 5
          Vals = {"x", "yz"}
          WithCursor = TRUE
          EmitOn = FALSE
CONSTRAINT HighWater
INVARIANT PropC09
POSTCONDITION Accepted
CHECK_DEADLOCK FALSE
