SPECIFICATION TraceSpec
CONSTANTS K = 7
          Vals = {"x", "yz"}
          WithCursor = TRUE
          EmitOn = FALSE
CONSTRAINT HighWater
INVARIANT PropC09Trace
POSTCONDITION Accepted
CHECK_DEADLOCK FALSE
