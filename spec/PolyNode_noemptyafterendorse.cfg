SPECIFICATION Spec
CONSTANTS Honest = {"n1", "n2", "n3"}
          Byz = {"n4"}
          P = "n1"
          C = 1
          M = 3
          EmptyAfterEndorse = FALSE
          VerifyEmbedded = FALSE
INVARIANT LedgerQuorum
INVARIANT Agreement
CHECK_DEADLOCK FALSE
