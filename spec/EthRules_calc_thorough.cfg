SPECIFICATION Spec
CONSTANTS Table = "calc"
          Thorough = TRUE
INVARIANT PropC28Model
CHECK_DEADLOCK FALSE
