------------------------------ MODULE TxPoolSeq ------------------------------
(***************************************************************************)
(* C37 - the pool object used by NC clients, each performing NOPS calls.   *)
(* Every call is atomic (one mutex for the whole body), so the behaviours  *)
(* are all interleavings of the clients' calls.                            *)
(*   P-MC   : PropC37 (monitor) holds after every call of every            *)
(*            interleaving, for every answer the implementation-shaped     *)
(*            relations allow (map iteration order is free).               *)
(*   P-EDGE : with EmitOn, every (pool state, call) edge is printed once   *)
(*            together with a shortest call sequence that reaches the      *)
(*            state (hist, hidden by VIEW); the driver runs it on a real   *)
(*            TXPool and TraceTxPool validates what the real pool answered.*)
(***************************************************************************)
EXTENDS TxPoolOps, Json

CONSTANTS NC,      \* number of clients
          NOPS,    \* calls per client (0 = unbounded, used by the edge generation)
          ListLen, \* longest transaction list passed to Clean / GetUnverified
          EmitOn
VARIABLES pool,    \* the pool
          last,    \* the last call with its pre-state and answer (what the monitor looks at)
          left,    \* calls left per client
          hist     \* mutating calls so far (hidden by VIEW)
vars == <<pool, last, left, hist>>

Call(op, t, h, ts, by) == [op |-> op, t |-> t, h |-> h, ts |-> ts, by |-> by]
NoAns == [ret |-> FALSE, n |-> 0, txs |-> {}, old |-> {}, ver |-> <<>>, unv |-> <<>>, oldq |-> <<>>]
NoCall == [c |-> Call("init", "", 0, <<>>, FALSE), pre |-> EmptyPool, ans |-> NoAns]

Init == pool = EmptyPool /\ last = NoCall /\ left = [c \in 1..NC |-> NOPS] /\ hist = <<>>

Emit(c) == ~EmitOn \/ PrintT(<<"EDGE", ToJson([calls |-> Append(hist, c)])>>)
Step(c, p2, ans, mutating) ==
    /\ pool' = p2
    /\ last' = [c |-> c, pre |-> pool, ans |-> ans]
    /\ hist' = IF mutating THEN Append(hist, c) ELSE hist
    /\ Emit(c)

Add(t, h)  == Step(Call("add", t, h, <<>>, FALSE), PAdd(pool, t, h), [NoAns EXCEPT !.ret = PAddRet(pool, t)], TRUE)
Del(t)     == Step(Call("del", t, 0, <<>>, FALSE), PRemove(pool, {t}), [NoAns EXCEPT !.ret = PDelRet(pool, t)], TRUE)
Clean(ts)  == Step(Call("clean", "", 0, ts, FALSE), PRemove(pool, Range(ts)), NoAns, TRUE)
Remain     == Step(Call("remain", "", 0, <<>>, FALSE), EmptyPool, [NoAns EXCEPT !.txs = DOMAIN pool], TRUE)
Has(t)     == Step(Call("has", t, 0, <<>>, FALSE), pool, [NoAns EXCEPT !.ret = (t \in DOMAIN pool)], FALSE)
Status(t)  == Step(Call("status", t, 0, <<>>, FALSE), pool,
                   [NoAns EXCEPT !.ret = (t \in DOMAIN pool), !.n = IF t \in DOMAIN pool THEN pool[t] ELSE 0], FALSE)
Count      == Step(Call("count", "", 0, <<>>, FALSE), pool, [NoAns EXCEPT !.n = Size(pool)], FALSE)
Get(by, h) == \E txs \in SUBSET Fresh(pool, h), old \in SUBSET Stale(pool, h) :
                 /\ GetImpl(pool, by, h, txs, old)
                 /\ Step(Call("get", "", h, <<>>, by), pool, [NoAns EXCEPT !.txs = txs, !.old = old], FALSE)
Unv(ts, h) == LET r == PUnv(pool, ts, h) IN
              Step(Call("unv", "", h, ts, FALSE), r.pool, [NoAns EXCEPT !.ver = r.ver, !.unv = r.unv, !.oldq = r.old], TRUE)

Op == \/ \E t \in Tx, h \in Heights : Add(t, h)
      \/ \E t \in Tx : Del(t) \/ Has(t) \/ Status(t)
      \/ \E ts \in SeqsUpTo(ListLen) : Clean(ts)
      \/ \E ts \in SeqsUpTo(ListLen) \ {<<>>}, h \in Heights : Unv(ts, h)
      \/ \E by \in BOOLEAN, h \in Heights : Get(by, h)
      \/ Remain \/ Count

Next == \E c \in 1..NC : /\ (NOPS = 0 \/ left[c] > 0)
                         /\ left' = IF NOPS = 0 THEN left ELSE [left EXCEPT ![c] = @ - 1]
                         /\ Op
Spec == Init /\ [][Next]_vars
View == pool                      \* edge generation: one visit per pool state
ViewMC == <<pool, last, left>>    \* model checking: the call history is irrelevant

TypeOK == DOMAIN pool \subseteq Tx /\ \A t \in DOMAIN pool : pool[t] \in Heights

(* The monitor: what C37 promises about one call, given the pool before it (last.pre), the pool after it and *)
(* the answer.                                                                                               *)
PropC37 ==
    LET c == last.c  pre == last.pre  a == last.ans IN
    /\ TypeOK                                                      \* one entry per hash
    /\ c.op = "add" => /\ a.ret = (c.t \notin DOMAIN pre)
                       /\ (c.t \in DOMAIN pre => pool = pre)       \* a second copy is refused, the entry kept
                       /\ (c.t \notin DOMAIN pre => pool = PAdd(pre, c.t, c.h))
    /\ c.op = "del" => a.ret = (c.t \in DOMAIN pre) /\ pool = PRemove(pre, {c.t})
    /\ c.op = "clean" => pool = PRemove(pre, Range(c.ts))          \* exactly the listed ones leave
    /\ c.op = "get" => pool = pre /\ GetMon(pre, c.by, c.h, a.txs, a.old)
    /\ c.op = "unv" => UnvMon(pre, c.ts, c.h, [pool |-> pool, ver |-> a.ver, unv |-> a.unv, old |-> a.oldq])
    /\ c.op = "remain" => a.txs = DOMAIN pre /\ pool = EmptyPool
    /\ c.op \in {"has", "status", "count"} => pool = pre
    /\ c.op = "count" => a.n = Size(pre)
=============================================================================
