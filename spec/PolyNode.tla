------------------------------ MODULE PolyNode ------------------------------
(***************************************************************************)
(* System-level composition (growth target of DESIGN section 9): one VBFT  *)
(* round at one height on N = 4 nodes (C = 1), composed with the ledger's  *)
(* signature-quorum rule (C14) and block sync.  It is written in the shape *)
(* of consensus/vbft: block_pool.go (addBlockEndorsementLocked,            *)
(* newBlockCommitment, endorseDone, commitDone, getCommitConsensus,        *)
(* addSignaturesToBlockLocked) and service.go (endorseBlock, commitBlock,  *)
(* the endorse timeout that endorses the *empty* candidate, sealBlock,     *)
(* chain store submit), with one action per handler.                       *)
(*                                                                         *)
(* One honest proposer P proposes once; its proposal carries its signature *)
(* on the block X and on the empty candidate Y.  Endorsements and commits  *)
(* sign the hash of X or of Y.  A signature is abstracted as (signer,      *)
(* block); a junk signature is an entry that verifies for nothing.         *)
(*                                                                         *)
(* Byzantine participants (Byz) may send any endorsement signed by         *)
(* themselves, and any commit message signed by themselves whose embedded  *)
(* endorser list is arbitrary (the code verifies only the committer's own  *)
(* signature: finding F12).                                                *)
(*                                                                         *)
(* Properties:                                                             *)
(*   LedgerQuorum  every block in an honest ledger carries >= M valid      *)
(*                 signatures of distinct validators (C14 at system level) *)
(*   Agreement     no two honest ledgers hold different blocks at this     *)
(*                 height                                                  *)
(*   SealAgreement no two honest nodes seal different blocks (weaker       *)
(*                 nodes: the pool decision before the ledger check)       *)
(***************************************************************************)
EXTENDS Integers, Sequences, FiniteSets, TLC

CONSTANTS Honest,      \* honest node ids
          Byz,         \* Byzantine node ids
          P,           \* the (honest) proposer of this round
          C,           \* VBFT fault bound (1)
          M,           \* ledger signature threshold for this validator set
          EmptyAfterEndorse,  \* TRUE: as coded, a node that endorsed X may endorse the empty block Y after a timeout
          VerifyEmbedded      \* FALSE: as coded, endorser signatures embedded in a commit message are not verified

Nodes == Honest \cup Byz
N == Cardinality(Nodes)
Blk(e) == IF e THEN "Y" ELSE "X"

VARIABLES net,        \* set of messages ever broadcast
          hasProp,    \* [Honest -> BOOLEAN]
          esigs,      \* [Honest -> [Nodes -> Seq([e: BOOLEAN, ok: BOOLEAN])]]   EndorseSigs of the candidate
          dend,       \* [Honest -> SUBSET [from: Nodes, e: BOOLEAN]]            endorse messages in the msg pool
          coms,       \* [Honest -> Seq([from, e, ends])]                        CommitMsgs of the candidate
          endF, endT, \* [Honest -> BOOLEAN]  endorsed X / endorsed empty
          committed,  \* [Honest -> BOOLEAN]
          sealed,     \* [Honest -> {"none","X","Y"}]
          sealSigs,   \* [Honest -> SUBSET Nodes]  signers whose signature on the sealed block is valid
          ledger      \* [Honest -> {"none","X","Y"}]

vars == <<net, hasProp, esigs, dend, coms, endF, endT, committed, sealed, sealSigs, ledger>>

PropMsg == [t |-> "prop"]
EndMsg(f, e) == [t |-> "end", from |-> f, e |-> e]
\* ends: the listed endorsers; okends: those of them whose embedded signature is genuine
ComMsg(f, e, ends, okends) == [t |-> "com", from |-> f, e |-> e, ends |-> ends, okends |-> okends]

Init == /\ net = {}
        /\ hasProp = [n \in Honest |-> FALSE]
        /\ esigs = [n \in Honest |-> [x \in Nodes |-> <<>>]]
        /\ dend = [n \in Honest |-> {}]
        /\ coms = [n \in Honest |-> <<>>]
        /\ endF = [n \in Honest |-> FALSE] /\ endT = [n \in Honest |-> FALSE]
        /\ committed = [n \in Honest |-> FALSE]
        /\ sealed = [n \in Honest |-> "none"] /\ sealSigs = [n \in Honest |-> {}]
        /\ ledger = [n \in Honest |-> "none"]

(* addBlockEndorsementLocked(endorser, eSig, commitment) on one node's map *)
HasEmpty(s) == \E i \in 1..Len(s) : s[i].e
AddEnd(es, x, e, ok, commitment) ==
    IF es[x] # <<>> /\ ~commitment
    THEN IF HasEmpty(es[x]) THEN es
         ELSE IF e THEN [es EXCEPT ![x] = Append(@, [e |-> e, ok |-> ok])]
         ELSE es                       \* same proposer already endorsed (there is one proposer)
    ELSE [es EXCEPT ![x] = <<[e |-> e, ok |-> ok]>>]

RECURSIVE AddEnds(_, _, _, _)
AddEnds(es, xs, e, okset) ==
    IF xs = {} THEN es
    ELSE LET x == CHOOSE y \in xs : TRUE
         IN AddEnds(AddEnd(es, x, e, x \in okset, FALSE), xs \ {x}, e, okset)

(* endorseDone: the set of admissible answers (map order decides which one is found first) *)
CountEnd(es, e) == Cardinality({x \in Nodes : \E i \in 1..Len(es[x]) : es[x][i].e = e})
EndorseDone(n) == IF Cardinality({x \in Nodes : esigs[n][x] # <<>>}) < C + 1 THEN {}
                  ELSE {e \in BOOLEAN : CountEnd(esigs[n], e) > C}

(* getCommitConsensus + the endorse-signature fallback of commitDone *)
Thr == N - ((N - 1) \div 3)
RECURSIVE CC(_, _, _, _)
CC(cs, i, supp, emptyCnt) ==
    IF i > Len(cs) THEN "no"
    ELSE LET c == cs[i]
             ec == IF c.e THEN emptyCnt + 1 ELSE emptyCnt
             s2 == supp \cup {c.from} \cup c.ends
         IN IF Cardinality(s2) + 1 >= Thr THEN (IF ec > C THEN "Y" ELSE "X")
            ELSE CC(cs, i + 1, s2, ec)
CommitDone(n) ==
    LET r == CC(coms[n], 1, {}, 0)
    IN IF r # "no" THEN {r}
       ELSE IF CountEnd(esigs[n], FALSE) > N - 1 - C THEN {"X"} ELSE {}

(* honest actions ********************************************************)
Propose == /\ ~hasProp[P] /\ PropMsg \notin net
           /\ net' = net \cup {PropMsg}
           /\ hasProp' = [hasProp EXCEPT ![P] = TRUE]
           /\ UNCHANGED <<esigs, dend, coms, endF, endT, committed, sealed, sealSigs, ledger>>

\* processMsgEvent(BlockProposalMessage): store, and endorse if not the proposer itself
RecvProp(n) == /\ PropMsg \in net /\ ~hasProp[n] /\ n # P
               /\ hasProp' = [hasProp EXCEPT ![n] = TRUE]
               /\ endF' = [endF EXCEPT ![n] = TRUE]
               /\ esigs' = [esigs EXCEPT ![n] = AddEnd(@, n, FALSE, TRUE, FALSE)]
               /\ dend' = [dend EXCEPT ![n] = @ \cup {[from |-> n, e |-> FALSE]}]
               /\ net' = net \cup {EndMsg(n, FALSE)}
               /\ UNCHANGED <<coms, endT, committed, sealed, sealSigs, ledger>>

\* EventEndorseBlockTimeout: not committed, no endorse quorum yet, not yet endorsed empty => endorse the empty candidate
TimeoutEndorse(n) == /\ hasProp[n] /\ n # P /\ ~committed[n] /\ sealed[n] = "none"
                     /\ EndorseDone(n) = {} /\ ~endT[n]
                     /\ (EmptyAfterEndorse \/ ~endF[n])
                     /\ endT' = [endT EXCEPT ![n] = TRUE]
                     /\ esigs' = [esigs EXCEPT ![n] = AddEnd(@, n, TRUE, TRUE, FALSE)]
                     /\ dend' = [dend EXCEPT ![n] = @ \cup {[from |-> n, e |-> TRUE]}]
                     /\ net' = net \cup {EndMsg(n, TRUE)}
                     /\ UNCHANGED <<hasProp, coms, endF, committed, sealed, sealSigs, ledger>>

\* processMsgEvent(BlockEndorseMessage): the endorser's own signature was verified on receipt
RecvEnd(n) == \E m \in net :
                 /\ m.t = "end" /\ m.from # n /\ sealed[n] = "none"
                 /\ esigs' = [esigs EXCEPT ![n] = AddEnd(@, m.from, m.e, TRUE, FALSE)]
                 /\ dend' = [dend EXCEPT ![n] = @ \cup {[from |-> m.from, e |-> m.e]}]
                 /\ UNCHANGED <<net, hasProp, coms, endF, endT, committed, sealed, sealSigs, ledger>>

\* newBlockCommitment on one node's candidate
AddCom(n, m) ==
    IF \E i \in 1..Len(coms[n]) : coms[n][i].from = m.from
    THEN /\ UNCHANGED <<coms, esigs>>          \* one committer, one commit (same hash: nil; other hash: errDupCommit)
    ELSE /\ coms' = [coms EXCEPT ![n] = Append(@, [from |-> m.from, e |-> m.e, ends |-> m.ends])]
         /\ esigs' = [esigs EXCEPT ![n] =
                AddEnd(AddEnds(@, m.ends, m.e, IF VerifyEmbedded THEN m.ends ELSE m.okends), m.from, m.e, TRUE, TRUE)]

\* makeCommitment/commitBlock after endorseDone: one commit per round, never by the proposer of the block
Commit(n) == /\ hasProp[n] /\ n # P /\ ~committed[n] /\ sealed[n] = "none"
             /\ \E e \in EndorseDone(n) :
                  LET ends == {x \in Nodes : [from |-> x, e |-> e] \in dend[n]}
                      m == ComMsg(n, e, ends, ends)
                  IN /\ committed' = [committed EXCEPT ![n] = TRUE]
                     /\ AddCom(n, m)
                     /\ net' = net \cup {m}
             /\ UNCHANGED <<hasProp, dend, endF, endT, sealed, sealSigs, ledger>>

RecvCom(n) == \E m \in net :
                 /\ m.t = "com" /\ m.from # n /\ sealed[n] = "none"
                 /\ (VerifyEmbedded => m.ends = m.okends)      \* a repaired node drops commits with a bad embedded signature
                 /\ AddCom(n, m)
                 /\ UNCHANGED <<net, hasProp, dend, endF, endT, committed, sealed, sealSigs, ledger>>

\* makeSealed/sealBlock: commitDone, proposal present => seal with proposer sig + one matching entry per endorser
Seal(n) == /\ hasProp[n] /\ sealed[n] = "none"
           /\ \E b \in CommitDone(n) :
                LET e == (b = "Y")
                    firstMatch(x) == CHOOSE i \in 1..Len(esigs[n][x]) :
                                        esigs[n][x][i].e = e /\ \A j \in 1..(i - 1) : esigs[n][x][j].e # e
                    listed == {x \in Nodes \ {P} : \E i \in 1..Len(esigs[n][x]) : esigs[n][x][i].e = e}
                IN /\ sealed' = [sealed EXCEPT ![n] = b]
                   /\ sealSigs' = [sealSigs EXCEPT ![n] = {P} \cup {x \in listed : esigs[n][x][firstMatch(x)].ok}]
           /\ UNCHANGED <<net, hasProp, esigs, dend, coms, endF, endT, committed, ledger>>

\* chain store submit -> ledger verifyHeader: >= M valid signatures of distinct validators (may also fail: random order)
Submit(n) == /\ sealed[n] # "none" /\ ledger[n] = "none"
             /\ Cardinality(sealSigs[n]) >= M
             /\ ledger' = [ledger EXCEPT ![n] = sealed[n]]
             /\ UNCHANGED <<net, hasProp, esigs, dend, coms, endF, endT, committed, sealed, sealSigs>>

\* every genuine signature on block b that was ever broadcast (anyone, including a Byzantine peer, can assemble them)
GenuineSigners(b) ==
    (IF PropMsg \in net THEN {P} ELSE {})
    \cup {x \in Nodes : \E m \in net : m.t = "end" /\ m.from = x /\ Blk(m.e) = b}
    \cup {x \in Nodes : \E m \in net : m.t = "com" /\ m.from = x /\ Blk(m.e) = b}
    \cup {x \in Nodes : \E m \in net : m.t = "com" /\ Blk(m.e) = b /\ x \in m.okends}
\* block sync: a node without a block at this height adopts any block that passes the ledger's check
Sync(n) == /\ ledger[n] = "none"
           /\ \E b \in {"X", "Y"} : /\ Cardinality(GenuineSigners(b)) >= M
                                   /\ ledger' = [ledger EXCEPT ![n] = b]
           /\ UNCHANGED <<net, hasProp, esigs, dend, coms, endF, endT, committed, sealed, sealSigs>>

(* Byzantine actions ******************************************************)
ByzEndorse == \E z \in Byz, e \in BOOLEAN :
                 /\ PropMsg \in net /\ EndMsg(z, e) \notin net
                 /\ net' = net \cup {EndMsg(z, e)}
                 /\ UNCHANGED <<hasProp, esigs, dend, coms, endF, endT, committed, sealed, sealSigs, ledger>>
\* a commit naming an arbitrary endorser list; genuine embedded signatures exist only for endorsements really broadcast
ByzCommit == \E z \in Byz, e \in BOOLEAN : \E ends \in SUBSET (Nodes \ {z}) :
                LET ok == {x \in ends : EndMsg(x, e) \in net}
                    m == ComMsg(z, e, ends, ok)
                IN /\ PropMsg \in net /\ m \notin net
                   /\ (ends = ok \/ ends = Nodes \ {z})     \* either honest-looking or the maximal forged list
                   /\ net' = net \cup {m}
                /\ UNCHANGED <<hasProp, esigs, dend, coms, endF, endT, committed, sealed, sealSigs, ledger>>

Next == \/ Propose
        \/ \E n \in Honest : RecvProp(n) \/ TimeoutEndorse(n) \/ RecvEnd(n) \/ Commit(n) \/ RecvCom(n)
                             \/ Seal(n) \/ Submit(n) \/ Sync(n)
        \/ ByzEndorse \/ ByzCommit

Spec == Init /\ [][Next]_vars

(* properties *************************************************************)
LedgerQuorum == \A n \in Honest : ledger[n] # "none" => Cardinality(GenuineSigners(ledger[n])) >= M
Agreement == \A a, b \in Honest : ledger[a] # "none" /\ ledger[b] # "none" => ledger[a] = ledger[b]
SealAgreement == \A a, b \in Honest : sealed[a] # "none" /\ sealed[b] # "none" => sealed[a] = sealed[b]
\* the pool's decision is backed by genuine signatures (fails as coded: F12 - a forged endorser list reaches "commit done")
SealBacked == \A n \in Honest : sealed[n] # "none" => Cardinality(sealSigs[n]) >= Thr
\* honest nodes sign at most one block per height
HonestSignOnce == \A n \in Honest : ~(endF[n] /\ endT[n])
=============================================================================
