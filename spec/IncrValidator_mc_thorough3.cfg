SPECIFICATION Spec
CONSTANTS Heights = {0,1,2,3,4}
          Tx = {1, 2, 3}
          TxSets = {{}, {1}, {2}, {3}, {1, 2}, {1, 3}, {2, 3}, {1, 2, 3}}
          Maxes = {1, 2}
          Mode = "mc"
VIEW ViewMC
INVARIANT PropC38
CHECK_DEADLOCK FALSE
