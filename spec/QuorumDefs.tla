----------------------------- MODULE QuorumDefs -----------------------------
(***************************************************************************)
(* C42 - the threshold formulas shared by Quorum.tla (TLC, table           *)
(* generation), Quorum_proofs.tla (TLAPS) and SigQuorum.tla (C14).         *)
(* Integers only, so that both TLC and tlapm read the same definitions.    *)
(***************************************************************************)
EXTENDS Integers

F(N)         == (N - 1) \div 3        \* tolerated faults
BftThr(N)    == N - F(N)              \* block acceptance: ledger verifyHeader, vbft commit consensus
GovThr(N)    == (2 * N + 2) \div 3    \* governance: CheckConsensusSigns / CheckVotes / CheckSigns
LegacyThr(N) == N - (N * 6) \div 7    \* named deviation: ledger rule on non-main networks / heights <= 20,000,000
                                      \* (allowed by C14's statement; gives NO intersection guarantee, see Quorum.tla)
=============================================================================
