---------------------------- MODULE TraceWitness ----------------------------
(* C18: the observations of the real contracts (one record per table row: the call and what happened) are judged by the
   monitor of Witness.tla.  TLC recomputes from the call itself whether the required witness was present (it does not
   trust the driver for that) and prints the verdict of C18Row for every record. *)
EXTENDS MCWitness, TLCExt
VARIABLE l
TraceLog == ndJsonDeserialize("trace.ndjson")
Ev == TraceLog[l]
AsSet(s) == {s[i] : i \in 1..Len(s)}
CallOf(e) == [m |-> e.m, named |-> e.named, signers |-> AsSet(e.signers), ctx |-> e.ctx, ep |-> e.ep, path |-> e.path]
Judge == LET c == CallOf(Ev)
             due == Due(c)
         IN PrintT(<<"VERDICT", ToJson([i |-> l, m |-> c.m, witnessed |-> Witnessed(c), allowed |-> Allowed(c),
                                        ok |-> C18Row(Witnessed(c), due, Ev.got, Ev.changed)])>>)
TraceInit == TLCSet(1, 1) /\ l = 1 /\ call = [m |-> "", named |-> "", signers |-> {}, ctx |-> <<>>, ep |-> NoEpoch, path |-> "verified"]
             /\ verdict = "pending" /\ changed = FALSE
TraceNext == /\ l <= Len(TraceLog)
             /\ Ev.m \in Methods /\ Ev.got \in {"accept", "reject"}
             /\ Judge
             /\ l' = l + 1
             /\ UNCHANGED <<call, verdict, changed>>
TraceSpec == TraceInit /\ [][TraceNext]_<<call, verdict, changed, l>>
HighWater == TLCSet(1, IF TLCGet(1) < l THEN l ELSE TLCGet(1))
Accepted == PrintT(<<"HIGHWATER", TLCGet(1)>>) /\ TLCGet(1) = Len(TraceLog) + 1
=============================================================================
