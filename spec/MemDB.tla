------------------------------- MODULE MemDB -------------------------------
(***************************************************************************)
(* C09 - the in-memory write buffer (core/store/overlaydb/memdb.go).       *)
(*                                                                         *)
(* Abstract state: a byte-ordered map with tombstones.  Keys are 1..K and  *)
(* stand for byte strings in byte order (the driver concretizes them, e.g. *)
(* "", "a", "ab", "b", "b\x00").  m[k] is "U" (never written), "T"         *)
(* (tombstone: Put(k, "") and Delete(k) are the same thing in the code) or *)
(* a value id.                                                             *)
(*                                                                         *)
(* Implementation-shaped part: the iterator is the cursor machine of       *)
(* dbIter (node / forward flag / slice bounds; First and Next test only    *)
(* the limit, Last and Prev only the start; Next on an exhausted backward  *)
(* cursor restarts with First, Prev on an exhausted forward one with Last).*)
(* Monitor part (PropC09): answers equal those of the reference map, a     *)
(* forward walk yields exactly Scan(lo,hi), a backward walk its reverse.   *)
(*                                                                         *)
(* Binding: P-EDGE.  hist is hidden by VIEW, every action prints its       *)
(* (history, op, args, predicted observation, predicted post-state) once.  *)
(***************************************************************************)
EXTENDS Integers, Sequences, FiniteSets, TLC, Json

CONSTANTS K,          \* number of keys
          Vals,       \* live value ids (strings)
          WithCursor, \* TRUE: explore the iterator cursor machine step by step
          EmitOn      \* TRUE: print every edge (generation run); FALSE: plain model checking
VARIABLES m, cur, hist

Keys == 1..K
U == "U"
T == "T"
NoCur == [lo |-> 0, hi |-> 0, pos |-> 0, fwd |-> FALSE, open |-> FALSE]

vars == <<m, cur, hist>>

Known(mm, k) == mm[k] # U
Live(mm, k)  == mm[k] # U /\ mm[k] # T
InRange(k, lo, hi) == k >= lo /\ k < hi

(* reference semantics *****************************************************)
RECURSIVE ScanFrom(_, _, _, _)
ScanFrom(mm, k, lo, hi) ==
    IF k > K THEN <<>>
    ELSE IF Known(mm, k) /\ InRange(k, lo, hi)
         THEN <<[k |-> k, v |-> mm[k]]>> \o ScanFrom(mm, k + 1, lo, hi)
         ELSE ScanFrom(mm, k + 1, lo, hi)
Scan(mm, lo, hi) == ScanFrom(mm, 1, lo, hi)
Rev(s) == [i \in 1..Len(s) |-> s[Len(s) + 1 - i]]
LenOf(mm) == Cardinality({k \in Keys : Known(mm, k)})

(* skip-list searches as the code has them ********************************)
GE(mm, k) == LET S == {x \in Keys : Known(mm, x) /\ x >= k} IN IF S = {} THEN 0 ELSE CHOOSE x \in S : \A y \in S : x <= y
LT(mm, k) == LET S == {x \in Keys : Known(mm, x) /\ x < k}  IN IF S = {} THEN 0 ELSE CHOOSE x \in S : \A y \in S : x >= y
FirstNode(mm) == GE(mm, 1)
LastNode(mm)  == LT(mm, K + 1)

(* fill(checkStart, checkLimit): node 0 or out of the tested bound => invalid *)
Fill(c, node, chkStart, chkLimit) ==
    IF node = 0 THEN [c EXCEPT !.pos = 0]
    ELSE IF (chkLimit /\ c.hi <= K /\ node >= c.hi) \/ (chkStart /\ c.lo >= 1 /\ node < c.lo)
         THEN [c EXCEPT !.pos = 0]
         ELSE [c EXCEPT !.pos = node]

FirstOp(mm, c) == Fill([c EXCEPT !.fwd = TRUE], IF c.lo >= 1 THEN GE(mm, c.lo) ELSE FirstNode(mm), FALSE, TRUE)
LastOp(mm, c)  == Fill([c EXCEPT !.fwd = FALSE], IF c.hi <= K THEN LT(mm, c.hi) ELSE LastNode(mm), TRUE, FALSE)
SeekOp(mm, c, s) == LET s2 == IF c.lo >= 1 /\ s < c.lo THEN c.lo ELSE s
                    IN Fill([c EXCEPT !.fwd = TRUE], GE(mm, s2), FALSE, TRUE)
NextOp(mm, c) == IF c.pos = 0
                 THEN IF ~c.fwd THEN FirstOp(mm, c) ELSE c
                 ELSE Fill([c EXCEPT !.fwd = TRUE], GE(mm, c.pos + 1), FALSE, TRUE)
PrevOp(mm, c) == IF c.pos = 0
                 THEN IF c.fwd THEN LastOp(mm, c) ELSE c
                 ELSE Fill([c EXCEPT !.fwd = FALSE], LT(mm, c.pos), TRUE, FALSE)

CurObs(mm, c) == [valid |-> c.pos # 0, k |-> c.pos, v |-> IF c.pos # 0 THEN mm[c.pos] ELSE ""]

(* whole walks through the cursor machine (used by the monitor and by the scan edges) *)
RECURSIVE WalkF(_, _, _)
WalkF(mm, c, fuel) == IF c.pos = 0 \/ fuel = 0 THEN <<>>
                      ELSE <<[k |-> c.pos, v |-> mm[c.pos]]>> \o WalkF(mm, NextOp(mm, c), fuel - 1)
RECURSIVE WalkB(_, _, _)
WalkB(mm, c, fuel) == IF c.pos = 0 \/ fuel = 0 THEN <<>>
                      ELSE <<[k |-> c.pos, v |-> mm[c.pos]]>> \o WalkB(mm, PrevOp(mm, c), fuel - 1)
Cursor(lo, hi) == [lo |-> lo, hi |-> hi, pos |-> 0, fwd |-> FALSE, open |-> TRUE]

(* emission ***************************************************************)
Emit(op, args, obs, m2, c2) ==
    ~EmitOn \/ PrintT(<<"EDGE", ToJson([h |-> hist, op |-> op, a |-> args, obs |-> obs, m2 |-> m2, c2 |-> c2])>>)

Init == m = [k \in Keys |-> U] /\ cur = NoCur /\ hist = <<>>

(* predicted observations (shared by the edge emission and by TraceMemDB) *)
ObsPut(k, v)  == [v |-> v, len |-> LenOf([m EXCEPT ![k] = v])]
ObsGet(k)     == [unknown |-> ~Known(m, k), v |-> IF Live(m, k) THEN m[k] ELSE ""]
ObsFind(k)    == LET g == GE(m, k) IN [found |-> g # 0, k |-> g, v |-> IF g # 0 THEN m[g] ELSE ""]
ObsFwd(lo, hi)  == WalkF(m, FirstOp(m, Cursor(lo, hi)), K + 1)
ObsBwd(lo, hi)  == WalkB(m, LastOp(m, Cursor(lo, hi)), K + 1)
ObsSeekWalk(lo, hi, s) == WalkF(m, SeekOp(m, Cursor(lo, hi), s), K + 1)

Put(k, v) == /\ m' = [m EXCEPT ![k] = v]
             /\ UNCHANGED cur
             /\ hist' = Append(hist, [op |-> "put", a |-> <<k>>, v |-> v])
             /\ Emit("put", <<k>>, ObsPut(k, v), m', cur)
Get(k) == /\ UNCHANGED <<m, cur, hist>>
          /\ Emit("get", <<k>>, ObsGet(k), m, cur)
Find(k) == /\ UNCHANGED <<m, cur, hist>>
           /\ Emit("find", <<k>>, ObsFind(k), m, cur)
Reset == /\ m' = [k \in Keys |-> U] /\ cur' = NoCur
         /\ hist' = <<[op |-> "reset", a |-> <<>>, v |-> ""]>>
         /\ Emit("reset", <<>>, [len |-> 0], m', cur')
Fwd(lo, hi) == /\ UNCHANGED <<m, cur, hist>>
               /\ Emit("fwd", <<lo, hi>>, ObsFwd(lo, hi), m, cur)
Bwd(lo, hi) == /\ UNCHANGED <<m, cur, hist>>
               /\ Emit("bwd", <<lo, hi>>, ObsBwd(lo, hi), m, cur)
SeekWalk(lo, hi, s) == /\ UNCHANGED <<m, cur, hist>>
                       /\ Emit("seekwalk", <<lo, hi, s>>, ObsSeekWalk(lo, hi, s), m, cur)

(* cursor machine, one real call per action *)
Move(op, args, c2) == /\ cur.open /\ cur' = c2 /\ UNCHANGED m
                      /\ hist' = Append(hist, [op |-> op, a |-> args, v |-> ""])
                      /\ Emit(op, args, CurObs(m, c2), m, c2)
NewIter(lo, hi) == /\ cur' = Cursor(lo, hi) /\ UNCHANGED m
                   /\ hist' = Append(hist, [op |-> "iter", a |-> <<lo, hi>>, v |-> ""])
                   /\ Emit("iter", <<lo, hi>>, [valid |-> FALSE, k |-> 0, v |-> ""], m, cur')

Los == 0..K          \* 0 = nil Start
His == 1..(K + 1)    \* K+1 = nil Limit

Next == \/ \E k \in Keys : (\E v \in Vals \cup {T} : Put(k, v)) \/ Get(k) \/ Find(k)
        \/ Reset
        \/ (~(WithCursor /\ EmitOn) /\ \/ \E lo \in Los, hi \in His : Fwd(lo, hi) \/ Bwd(lo, hi)
                                       \/ \E lo \in Los, hi \in His, s \in Keys : SeekWalk(lo, hi, s))
        \/ (WithCursor /\ \/ \E lo \in Los, hi \in His : NewIter(lo, hi)
                          \/ Move("first", <<>>, FirstOp(m, cur))
                          \/ Move("last", <<>>, LastOp(m, cur))
                          \/ Move("next", <<>>, NextOp(m, cur))
                          \/ Move("prev", <<>>, PrevOp(m, cur))
                          \/ \E s \in Keys : Move("seek", <<s>>, SeekOp(m, cur, s)))

Spec == Init /\ [][Next]_vars
View == <<m, cur>>

(* PropC09: the monitor ****************************************************)
TypeOK == /\ m \in [Keys -> Vals \cup {U, T}]
          /\ cur.pos \in 0..K
WalksAreScans ==
    \A lo \in Los, hi \in His :
        /\ WalkF(m, FirstOp(m, Cursor(lo, hi)), K + 1) = Scan(m, lo, hi)
        /\ WalkB(m, LastOp(m, Cursor(lo, hi)), K + 1) = Rev(Scan(m, lo, hi))
        /\ \A s \in Keys : WalkF(m, SeekOp(m, Cursor(lo, hi), s), K + 1) = Scan(m, IF s > lo THEN s ELSE lo, hi)
CursorInRange == cur.pos # 0 => Known(m, cur.pos) /\ InRange(cur.pos, cur.lo, cur.hi)
StepIsNeighbour ==
    cur.pos # 0 =>
       /\ LET n == NextOp(m, cur) IN
            n.pos = (LET S == {x \in Keys : Known(m, x) /\ x > cur.pos /\ x < cur.hi} IN
                     IF S = {} THEN 0 ELSE CHOOSE x \in S : \A y \in S : x <= y)
       /\ LET p == PrevOp(m, cur) IN
            p.pos = (LET S == {x \in Keys : Known(m, x) /\ x < cur.pos /\ x >= cur.lo} IN
                     IF S = {} THEN 0 ELSE CHOOSE x \in S : \A y \in S : x >= y)
PropC09 == TypeOK /\ WalksAreScans /\ CursorInRange /\ StepIsNeighbour
=============================================================================
