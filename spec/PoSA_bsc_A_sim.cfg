\* C29 PoSA: family bsc, chain configuration A (MCPoSA!SetsA), mode sim
SPECIFICATION SimSpec
CONSTANTS Family = "bsc"
          Epoch = 0
          CliqueFixed = FALSE
          Sets <- SetsA
          GenesisSigner = "c"
          G0 = 200
          Keys = {"a", "b", "c", "d", "x"}
          Diffs = {1, 2}
          Defects = {"mix", "coinbase", "gasused"}
          MaxStored = 14
          MaxLen = 9
          EmitOn = FALSE
          Sprint = 0
          SpanEnd = 0
          TwoBranch = FALSE
          TraceLen = 16
INVARIANT PropC29
INVARIANT ModelSane
CHECK_DEADLOCK FALSE
