-------------------------- MODULE TraceLightClient --------------------------
(* P-VALIDATE for C19: what the real header_sync entrance did when the driver replayed the generated
   behaviours (one event per call: router, genesis id, returned result, id of the byte-exact snapshot of the
   header-sync contract storage after the call; "reset" starts a fresh sandbox).  Every event must be explained
   by one of LightClient's actions (Shape = "any": the observation chooses among the guarded shape and the named
   deviations); for every installation event the monitor's step predicate C19Step - the body of PropC19 - is
   evaluated on the explained step and printed as a VERDICT line together with the action that explained it. *)
EXTENDS MCLightClient, TLCExt
VARIABLE l
TraceLog == ndJsonDeserialize("trace.ndjson")
tvars == <<installed, lc, res, step, h, l>>
Ev == TraceLog[l]
IsEvent(e) == l <= Len(TraceLog) /\ Ev.ev = e /\ l' = l + 1

Verdict(kind) ==
    PrintT(<<"VERDICT", ToJson([i |-> l, r |-> Ev.r, g |-> Ev.g, kind |-> kind, res |-> res',
                                was |-> installed[Ev.r],
                                ok |-> C19Step(installed[Ev.r], lc[Ev.r], lc'[Ev.r], res')])>>)
Observed == res' = Ev.res /\ lc'[Ev.r] = Ev.snap

TInstall(kind, A) == IsEvent("install") /\ A /\ Observed /\ Verdict(kind)
TReset == /\ IsEvent("reset")
          /\ installed' = [r \in Routers |-> FALSE] /\ lc' = [r \in Routers |-> None]
          /\ res' = "ok" /\ step' = NoStep /\ h' = <<>>
TSync  == IsEvent("sync") /\ (SyncOk(Ev.r, Ev.snap) \/ SyncReject(Ev.r) \/ SyncRefused(Ev.r) \/ (Ev.snap = lc[Ev.r] /\ SyncIgnored(Ev.r))) /\ Observed

TraceInit == TLCSet(1, 1) /\ Init /\ l = 1
TraceNext == \/ TReset
             \/ TSync
             \/ (l <= Len(TraceLog) /\ Ev.ev = "install" /\
                   \/ TInstall("first", InstallFirst(Ev.r, Ev.g, Ev.snap))
                   \/ TInstall("reject", InstallReject(Ev.r, Ev.g))
                   \/ TInstall("overwrite", Ev.snap # lc[Ev.r] /\ InstallOverwrite(Ev.r, Ev.g, Ev.snap))
                   \/ TInstall("noop", InstallNoop(Ev.r, Ev.g))
                   \/ TInstall("dirtyfail", InstallDirtyFail(Ev.r, Ev.g, Ev.snap)))
TraceSpec == TraceInit /\ [][TraceNext]_tvars
HighWater == TLCSet(1, IF TLCGet(1) < l THEN l ELSE TLCGet(1))
Accepted == PrintT(<<"HIGHWATER", TLCGet(1)>>) /\ TLCGet(1) = Len(TraceLog) + 1
=============================================================================
