\* C29 PoSA: family heco, chain configuration G (MCPoSA!SetsG), mode gen
SPECIFICATION Spec
CONSTANTS Family = "heco"
          Epoch = 0
          CliqueFixed = FALSE
          Sets <- SetsG
          GenesisSigner = "a"
          G0 = 200
          Keys = {"a", "b", "c", "d", "e", "x"}
          Diffs = {1, 2}
          Defects = {"coinbase", "badsig"}
          MaxStored = 3
          MaxLen = 4
          EmitOn = TRUE
          Sprint = 0
          SpanEnd = 0
          TwoBranch = FALSE
          TraceLen = 0
VIEW View
INVARIANT PropC29
INVARIANT ModelSane
INVARIANT ModelEquiv
CHECK_DEADLOCK FALSE
