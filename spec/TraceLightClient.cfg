SPECIFICATION TraceSpec
CONSTANTS Routers <- AllRouters
          SyncRouters <- AllRouters
          Gen = {"g1", "g2", "ghi"}
          Deg = {"gdeg"}
          Bad = {"bad"}
          Shape <- ShapeAny
          D = 100
          MaxSync = 100
CONSTRAINT HighWater
POSTCONDITION Accepted
CHECK_DEADLOCK FALSE
