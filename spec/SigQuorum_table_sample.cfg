\* Sample of the table-generation configuration written by checks/C14.py (quick tier); the check generates its cfgs
\* from one template because they are parameterised by the validator-set sizes.
SPECIFICATION Spec
CONSTANTS Kind = "table"
          Mode = "vbft"
          Rule = "legacy"
          N = 1
          FullN = 5
          NsLegacy = {1, 2, 3, 4, 5, 8}
          NsBft = {3, 4, 7}
          NsSolo = {1, 2, 3, 4, 5, 17}
          Cfgs = {}
          Lists = {}
          Paths = {}
          D = 0
          AsIs = FALSE
          EmitOn = TRUE
INVARIANT PropC14
CHECK_DEADLOCK FALSE
