SPECIFICATION Spec
CONSTANTS Src = {"v","b"}
          Tgt = {"t","w"}
          Ids = {"i1","i2"}
          Vars = {1}
          Gated = {}
          MaxH = 0
          EmitOn = "edge"
          GovChains = {"w"}
          RelayOn = TRUE
          Silent = {"v","r"}
VIEW View
INVARIANT TypeOK
PROPERTY PropC20 PropC21 PropC22
CHECK_DEADLOCK FALSE
