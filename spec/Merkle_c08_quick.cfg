SPECIFICATION Spec
CONSTANTS Table = "c08"
          N = 8
          Sizes = {}
          Doubles = FALSE
          PoolMode = "full"
          Lab = "id"
          EmitOn = TRUE
INVARIANT PropC08
CHECK_DEADLOCK FALSE
