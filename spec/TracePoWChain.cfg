SPECIFICATION TraceSpec
CONSTRAINT HighWater
INVARIANT PropParentClosure
INVARIANT PropHeights
INVARIANT PropTdSums
INVARIANT PropCanonical
INVARIANT PropHeadHeaviest
INVARIANT PropIdempotent
INVARIANT PropValidStored
POSTCONDITION Accepted
CHECK_DEADLOCK FALSE
