---------------------------- MODULE TraceTxSender ----------------------------
(***************************************************************************)
(* C36, P-VALIDATE: behaviours executed on a real ledger (installed as     *)
(* ledger.DefLedger, real relayer_manager / node_manager transactions in   *)
(* real blocks) with the real pool's sender test probed after every action.*)
(* Event = [op, l, id, a, obs]; obs = [acc (masks over Base admitted by    *)
(* isValidSender after updatePermittedAddrMap), acc2 / rej2 (sample masks  *)
(* admitted / refused on the TxReq path of the real TxActor), reg (relayer *)
(* registry read from storage), peers (keys of the peer pool map read from *)
(* storage), perm (the process-wide map), txok].  "init" starts a          *)
(* behaviour (fresh ledger, fresh process state).                          *)
(* Strict = TRUE : the model's step, admission iff relayer or permitted.   *)
(* Strict = FALSE: PropC36 only: whatever is admitted carries a relayer    *)
(*   registered and not removed by approved requests (ledger part of the   *)
(*   model) or an address of a peer-pool key / the multi-signature address *)
(*   over the pool, as read from the ledger since the process started.     *)
(***************************************************************************)
EXTENDS TxSender, TLCExt

CONSTANT Strict
VARIABLES l, seen
tvars == <<s, hist, l, seen>>

TraceLog == ndJsonDeserialize("trace.ndjson")
E == TraceLog[l]
Pow2(n) == IF n = 0 THEN 1 ELSE IF n = 1 THEN 2 ELSE IF n = 2 THEN 4 ELSE IF n = 3 THEN 8 ELSE IF n = 4 THEN 16
           ELSE IF n = 5 THEN 32 ELSE IF n = 6 THEN 64 ELSE 128
BitsOf(m) == {Base[i] : i \in {j \in 1..Len(Base) : (m \div Pow2(j - 1)) % 2 = 1}}
Masks == 0..255
BitsTab == [m \in Masks |-> BitsOf(m)]      \* constant table, evaluated once
Bits(m) == BitsTab[m]

ObsOK(x, o) ==
    /\ LET ok == OkAddrs(x) IN Range(o.acc) = {m \in Masks : Bits(m) \cap ok # {}}
    /\ \A m \in Range(o.acc2) : Admitted(x, Bits(m))
    /\ \A m \in Range(o.rej2) : ~Admitted(x, Bits(m))
    /\ Range(o.reg) = x.relayers
    /\ Range(o.peers) = x.peers
    /\ Range(o.perm) = x.permitted

(* PropC36 on one observation *)
(* relayers: as registered / removed by approved requests (the ledger part of the model), not as the code reports them *)
MonOK(o, rel, sn) == LET cr == rel \cup sn IN \A m \in Range(o.acc) \cup Range(o.acc2) : Bits(m) \cap cr # {}
SeenAfter(op, o, sn) == (IF op \in {"init", "restart"} THEN {} ELSE sn) \cup Range(o.peers) \cup {Op(Range(o.peers))}

Model(x) == CASE E.op = "init" -> InitS
              [] E.op = "register" -> RegisterF(x, E.l)
              [] E.op = "remove" -> RemoveF(x, E.l)
              [] E.op = "approvereg" -> ApproveRegF(x, E.id, E.a)
              [] E.op = "approverem" -> ApproveRemF(x, E.id, E.a)
              [] E.op = "candreg" -> CandRegF(x, E.a)
              [] E.op = "candapprove" -> CandApproveF(x, CHOOSE c \in Cand : \E v \in Val : E.a = c \o "/" \o v,
                                                        CHOOSE v \in Val : \E c \in Cand : E.a = c \o "/" \o v)
              [] E.op = "age" -> [x EXCEPT !.due = TRUE]
              [] E.op = "restart" -> [x EXCEPT !.permitted = {}, !.due = TRUE]
              [] E.op = "probe" -> x

TraceInit == TLCSet(1, 1) /\ s = InitS /\ hist = <<>> /\ l = 1 /\ seen = {}
TraceNext == /\ l <= Len(TraceLog) /\ l' = l + 1 /\ hist' = hist
             /\ seen' = SeenAfter(E.op, E.obs, seen)
             /\ IF Strict THEN s' = Refresh(Model(s)) /\ ObsOK(s', E.obs)
                ELSE s' = Model(s) /\ (MonOK(E.obs, s'.relayers, seen') \/ PrintT(<<"MONFAIL", l, E.op>>))
TraceSpec == TraceInit /\ [][TraceNext]_tvars

HighWater == TLCSet(1, IF TLCGet(1) < l THEN l ELSE TLCGet(1))
Accepted == PrintT(<<"HIGHWATER", TLCGet(1)>>) /\ TLCGet(1) = Len(TraceLog) + 1
=============================================================================
