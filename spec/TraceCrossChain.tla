-------------------------- MODULE TraceCrossChain --------------------------
(* P-VALIDATE for C20 C21 C22: a history recorded from the real entrance.  Every event carries the step that was
   submitted, what the entrance answered (acc = success with an effect) and the projection of the real contract storage
   after it (registered chains, blacklist, done keys, request records and leaves decoded back into MV terms).
   The recorded states are taken as they are; the monitors PropC20 / PropC21 / PropC22 of CrossChain decide (one cfg per
   property), so a recorded run is rejected exactly when the real code broke that property. *)
EXTENDS CrossChain, TLCExt
VARIABLE l
TraceLog == ndJsonDeserialize("trace.ndjson")
tvars == <<registry, black, done, requests, leaves, height, ntx, obs, hist, l>>
Ev == TraceLog[l]
Rng(q) == {q[k] : k \in 1..Len(q)}
StepOf == IF Ev.ev = "import"
          THEN [act |-> "import", s |-> Ev.s, i |-> Ev.i, t |-> Ev.t, v |-> Ev.v, ok |-> Ev.ok, tx |-> Ev.tx, acc |-> Ev.acc, why |-> "logged"]
          ELSE IF Ev.ev = "relay"
          THEN [act |-> "relay", tx |-> Ev.tx, pre |-> Ev.pre, catch |-> Ev.catch, ok |-> Ev.acc, a |-> Ev.a, b |-> Ev.b]
          ELSE IF Ev.ev \in {"black", "white", "register", "quit"} THEN [act |-> Ev.ev, c |-> Ev.c]
          ELSE [act |-> Ev.ev]
TStep == /\ l <= Len(TraceLog) /\ Ev.ev # "reset" /\ l' = l + 1
         /\ registry' = Rng(Ev.reg) /\ black' = Rng(Ev.blk) /\ done' = Rng(Ev.done)
         /\ requests' = Rng(Ev.req) /\ leaves' = Ev.lv /\ height' = Ev.h
         /\ ntx' = IF Ev.ev \in {"import", "relay"} THEN Ev.tx ELSE ntx
         /\ obs' = StepOf /\ hist' = hist
TReset == /\ l <= Len(TraceLog) /\ Ev.ev = "reset" /\ l' = l + 1
          /\ registry' = Rng(Ev.reg) /\ black' = Rng(Ev.blk) /\ done' = Rng(Ev.done) /\ requests' = {} /\ leaves' = <<>>
          /\ height' = Ev.h /\ ntx' = 0 /\ obs' = [act |-> "init"] /\ hist' = hist
TraceInit == TLCSet(1, 1) /\ Init /\ l = 1
TraceNext == TStep \/ TReset
TraceSpec == TraceInit /\ [][TraceNext]_tvars
HighWater == TLCSet(1, IF TLCGet(1) < l THEN l ELSE TLCGet(1))
Accepted == PrintT(<<"HIGHWATER", TLCGet(1)>>) /\ TLCGet(1) = Len(TraceLog) + 1
=============================================================================
