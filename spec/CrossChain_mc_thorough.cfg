SPECIFICATION Spec
CONSTANTS Src = {"v","b","g"}
          Tgt = {"v","t"}
          Ids = {"i1","i2"}
          Vars = {1,2}
          Gated = {"g"}
          MaxH = 1
          EmitOn = "off"
          GovChains = {"b","g","t","v"}
          RelayOn = FALSE
          Silent = {"v","r"}
VIEW View
INVARIANT TypeOK
PROPERTY PropC20 PropC21 PropC22
CHECK_DEADLOCK FALSE
