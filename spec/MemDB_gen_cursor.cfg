SPECIFICATION Spec
CONSTANTS K = 3
          Vals = {"x", "yz"}
          WithCursor = TRUE
          EmitOn = TRUE
VIEW View
INVARIANT PropC09
CHECK_DEADLOCK FALSE
