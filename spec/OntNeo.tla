------------------------------- MODULE OntNeo -------------------------------
(***************************************************************************)
(* Shared definitions for the Ontology / NEO / NEO N3 light clients         *)
(* (native/service/header_sync/{ont,neo,neo3}).  No variables here: the      *)
(* decision table of C24 is OntNeoMsg.tla, the header-sync state machines of *)
(* C31 are OntNeoSync.tla; both EXTEND this module.                         *)
(*                                                                         *)
(* Identities.  A tracked validator set of size n is 1..n.  Any other       *)
(* positive integer is a key that is NOT in the tracked set (a validator of *)
(* another epoch, or a key that never was a validator).  A signature is     *)
(* abstracted to the identity that produced it over THIS message; 0 stands  *)
(* for a signature that verifies under no key at all (other message,        *)
(* corrupted bytes, wrong network magic, malformed).                        *)
(***************************************************************************)
EXTENDS Integers, Sequences, FiniteSets

Range(s) == {s[i] : i \in DOMAIN s}
MinOf(S) == CHOOSE x \in S : \A y \in S : x <= y
RECURSIVE SetToSeq(_)
SetToSeq(S) == IF S = {} THEN <<>> ELSE <<MinOf(S)>> \o SetToSeq(S \ {MinOf(S)})
Rev(s) == [i \in 1..Len(s) |-> s[Len(s) + 1 - i]]
Rep(v, k) == [i \in 1..k |-> v]
HasDup(s) == \E i, j \in DOMAIN s : i < j /\ s[i] = s[j]
ReplaceAt(s, i, v) == [s EXCEPT ![i] = v]

(* The monitor's notion, shared by all three chains: the DISTINCT members of *)
(* the tracked set 1..n that produced a valid signature carried by the      *)
(* message.  Listing a key twice, or signing twice, cannot enlarge it;      *)
(* foreign keys and invalid signatures never enter it.                      *)
ValidTrackedSigners(n, sigs) == {v \in 1..n : \E i \in DOMAIN sigs : sigs[i] = v}

(***************************************************************************)
(* Ontology.  Quorum as coded: 3 * count >= n  (at least one third).        *)
(***************************************************************************)
OntEnough(n, d) == 3 * d >= n

(* ontology core/signature.VerifyMultiSignature(data, keys, m, sigs) with   *)
(* m = Len(keys): the first m signatures must each verify under a key       *)
(* POSITION not used before (mask by position, first free match).           *)
RECURSIVE OntGreedy(_, _, _, _)
OntGreedy(keys, sigs, i, mask) ==
    IF i > Len(keys) THEN TRUE
    ELSE LET C == {j \in DOMAIN keys : j \notin mask /\ sigs[i] # 0 /\ keys[j] = sigs[i]}
         IN IF C = {} THEN FALSE ELSE OntGreedy(keys, sigs, i + 1, mask \cup {MinOf(C)})
OntMultiSig(keys, sigs) == Len(sigs) >= Len(keys) /\ OntGreedy(keys, sigs, 1, {})

(* the guards of ont.verifyHeader, by name; the set of guards that FAIL     *)
OntWhy(n, bks, sigs) ==
    (IF ~OntEnough(n, Len(bks)) THEN {"short"} ELSE {})
    \cup (IF \E i \in DOMAIN bks : bks[i] \notin 1..n THEN {"foreign"} ELSE {})
    \cup (IF HasDup(bks) THEN {"dup"} ELSE {})
    \cup (IF ~OntMultiSig(bks, sigs) THEN {"sig"} ELSE {})
(* verifyHeader has all four guards; VerifyCrossChainMsg as coded at the     *)
(* pinned commit lacks "dup" (named deviation NoDupGuard, finding F4).       *)
OntAcceptIntended(n, bks, sigs) == OntWhy(n, bks, sigs) = {}
OntAcceptNoDupGuard(n, bks, sigs) == OntWhy(n, bks, sigs) \subseteq {"dup"}
(* what the property allows: acceptance needs one third of the DISTINCT      *)
(* tracked validators                                                       *)
OntAllowed(n, sigs) == OntEnough(n, Cardinality(ValidTrackedSigners(n, sigs)))

(***************************************************************************)
(* NEO / NEO N3.  The witness' verification script must hash to the tracked *)
(* script (m of the n keys, keys in sorted order = 1..n here); the          *)
(* invocation script is a sequence of signatures.  neo-gogogo               *)
(* keys.VerifyMultiSig walks signatures and keys with two cursors.          *)
(***************************************************************************)
RECURSIVE NeoWalk(_, _, _, _)
NeoWalk(sigs, n, i, j) ==        \* i: next signature, j: next key (1-based)
    IF i > Len(sigs) THEN TRUE
    ELSE IF j > n THEN FALSE
    ELSE LET i2 == IF sigs[i] = j THEN i + 1 ELSE i
             j2 == j + 1
         IN IF (Len(sigs) - (i2 - 1)) > (n - (j2 - 1)) THEN FALSE ELSE NeoWalk(sigs, n, i2, j2)
NeoMultiSig(n, m, sigs) ==
    /\ Len(sigs) >= m /\ Len(sigs) <= n /\ Len(sigs) > 0
    /\ NeoWalk(sigs, n, 1, 1)
StrictlyIncreasingIn(sigs, n) == /\ \A i \in DOMAIN sigs : sigs[i] \in 1..n
                                 /\ \A i \in 1..(Len(sigs) - 1) : sigs[i] < sigs[i + 1]
NeoAccept(n, m, script, sigs) == script = "tracked" /\ NeoMultiSig(n, m, sigs)
NeoAllowed(n, m, sigs) == Cardinality(ValidTrackedSigners(n, sigs)) >= m
Neo3Need(n) == n - ((n - 1) \div 3)

=============================================================================
