SPECIFICATION Spec
CONSTANTS K = 5
          Vals = {"x", "yz"}
          WithCursor = FALSE
          EmitOn = TRUE
VIEW View
INVARIANT PropC09
CHECK_DEADLOCK FALSE
