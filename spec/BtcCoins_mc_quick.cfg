SPECIFICATION Spec
CONSTANTS NTx = 2
          Idxs = {0, 1}
          Vals = {1, 2}
          Targets = {1, 2, 3}
          MinChanges = {0, 2}
INVARIANT PropC26
CHECK_DEADLOCK FALSE
