SPECIFICATION Spec
CONSTANTS MaxOp = 3
          Vals = {1, 2, 3}
          Targets = {1, 2, 3, 5}
          MinChanges = {0, 2}
INVARIANT PropC26
CHECK_DEADLOCK FALSE
