SPECIFICATION Spec
CONSTANTS Tx = {"t1", "t2", "t3"}
          MaxH = 1
          MAXTX = 1
          CAP = 1
          LIMIT = 2
          PreExec = FALSE
          Eager = TRUE
          Acts = {"admit", "rsp", "blocksaved"}
          ListLen = 1
          Depth = 0
          EmitOn = FALSE
VIEW View
INVARIANT PropCap
CHECK_DEADLOCK FALSE
