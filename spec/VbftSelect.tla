----------------------------- MODULE VbftSelect -----------------------------
(***************************************************************************)
(* C40  VBFT participant selection is well formed.                         *)
(*                                                                         *)
(* Bit-exact transcription of consensus/vbft/node_utils.go                 *)
(*   calcParticipant(vrf, dposTable, k)                                    *)
(*   calcParticipantPeers(cfg, chain, start, end)  (three exits: N peers   *)
(*        found; proposer range passed and more than C found; more than    *)
(*        2C found in an endorser/committer range; slot range exhausted    *)
(*        => EMPTY list)                                                   *)
(*   buildParticipantConfig (composition, truncation to C+1 proposers,     *)
(*        size checks => error)                                            *)
(* The layout constants are parameters so that the same operators run on   *)
(* the real layout (64-byte seed, 512 slots = 32 + 240 + 240) for trace    *)
(* validation and on a scaled layout (2-byte seed, 16 slots) for           *)
(* exhaustive checking.  All quantities fit TLC's 32-bit integers (a slot  *)
(* value is below 2^16).                                                   *)
(*                                                                         *)
(* Monitor PropC40 (WellFormed): a selection that is returned is drawn     *)
(* from the table, duplicate free, has exactly C+1 proposers and at least  *)
(* 2C endorsers and committers, and endorsers / committers avoid the       *)
(* leading C proposers.  "Same inputs, same selection" is the fact that    *)
(* Build is an operator of (seed, table, N, C) and nothing else; the       *)
(* binding compares every recorded output with it.                         *)
(***************************************************************************)
EXTENDS Integers, Sequences, FiniteSets, TLC

CONSTANTS VrfLen,     \* bytes of the seed                        (code: 64)
          KMax,       \* slots                                     (code: 512)
          MAXP, MAXE, MAXC   \* slot ranges of proposers / endorsers / committers (code: 32, 240, 240)

NoPeer == -1          \* math.MaxUint32 in the code
Range(s) == {s[i] : i \in 1..Len(s)}
NoDup(s) == \A i, j \in 1..Len(s) : i # j => s[i] # s[j]
Pow2(n) == 2 ^ n

\* vrf: sequence of VrfLen bytes (1-based), tbl: position table (1-based), k: slot number
CalcParticipant(vrf, tbl, k) ==
    IF k >= KMax THEN NoPeer
    ELSE LET bIdx  == k \div 8
             bits1 == k % 8
             bits2 == 8 + bits1
             v1    == vrf[bIdx + 1] \div Pow2(bits1)                              \* vrf[bIdx] >> bits1
             v2a   == IF bIdx + 1 < VrfLen THEN vrf[bIdx + 2] ELSE vrf[1]
             v2    == v2a % Pow2(bits2)                                           \* & ((1 << bits2) - 1)
             v     == v2 * Pow2(8 - bits1) + v1
         IN tbl[(v % Len(tbl)) + 1]

\* the proposers the endorser / committer ranges skip: the first distinct ones until C are collected
RECURSIVE Leading(_, _, _, _)
Leading(props, i, acc, Cc) ==
    IF i > Len(props) THEN acc
    ELSE LET acc2 == acc \cup {props[i]}
         IN IF Cardinality(acc2) >= Cc THEN acc2 ELSE Leading(props, i + 1, acc2, Cc)

\* kind: "P" (end = MAXP), "E", "C" (checkCalcEndorserOrCommitter(end))
RECURSIVE PeersLoop(_, _, _, _, _, _, _, _, _)
PeersLoop(vrf, tbl, Nn, Cc, kind, excl, end, i, peers) ==
    LET id == CalcParticipant(vrf, tbl, i) IN
    IF id = NoPeer THEN <<>>
    ELSE IF kind # "P" /\ id \in excl THEN PeersLoop(vrf, tbl, Nn, Cc, kind, excl, end, i + 1, peers)
    ELSE LET new    == id \notin Range(peers)
             peers2 == IF new THEN Append(peers, id) ELSE peers
         IN IF new /\ Len(peers2) >= Nn THEN peers2
            ELSE IF kind = "P" /\ i >= end /\ Len(peers2) > Cc THEN peers2
            ELSE IF kind # "P" /\ Len(peers2) > 2 * Cc THEN peers2
            ELSE PeersLoop(vrf, tbl, Nn, Cc, kind, excl, end, i + 1, peers2)

StartOf(kind) == CASE kind = "P" -> 0 [] kind = "E" -> MAXP [] kind = "C" -> MAXP + MAXE
EndOf(kind)   == CASE kind = "P" -> MAXP [] kind = "E" -> MAXP + MAXE [] kind = "C" -> MAXP + MAXE + MAXC

\* calcParticipantPeers with cfg.Proposers = props
CalcPeers(vrf, tbl, Nn, Cc, kind, props) ==
    PeersLoop(vrf, tbl, Nn, Cc, kind,
              IF kind # "P" /\ Len(props) # 0 THEN Leading(props, 1, {}, Cc) ELSE {},
              EndOf(kind), StartOf(kind), <<>>)

IsNil(vrf) == \A i \in 1..Len(vrf) : vrf[i] = 0
ErrRes == [err |-> TRUE, p |-> <<>>, e |-> <<>>, c |-> <<>>]

\* buildParticipantConfig for the seed vrf
Build(vrf, tbl, Nn, Cc) ==
    IF IsNil(vrf) THEN ErrRes
    ELSE LET P == CalcPeers(vrf, tbl, Nn, Cc, "P", <<>>) IN
         IF Len(P) < Cc + 1 THEN ErrRes
         ELSE LET props == SubSeq(P, 1, Cc + 1)
                  E     == CalcPeers(vrf, tbl, Nn, Cc, "E", props)
              IN IF Len(E) < 2 * Cc THEN ErrRes
                 ELSE LET Cm == CalcPeers(vrf, tbl, Nn, Cc, "C", props)
                      IN IF Len(Cm) < 2 * Cc THEN ErrRes
                         ELSE [err |-> FALSE, p |-> props, e |-> E, c |-> Cm]

(* ---------------- the monitor ---------------- *)
WellFormed(r, tbl, Cc) ==
    r.err \/ LET lead == {r.p[i] : i \in 1..Cc} IN
             /\ Range(r.p) \subseteq Range(tbl) /\ Range(r.e) \subseteq Range(tbl) /\ Range(r.c) \subseteq Range(tbl)
             /\ NoDup(r.p) /\ NoDup(r.e) /\ NoDup(r.c)
             /\ Len(r.p) = Cc + 1 /\ Len(r.e) >= 2 * Cc /\ Len(r.c) >= 2 * Cc
             /\ Range(r.e) \cap lead = {} /\ Range(r.c) \cap lead = {}

\* one range on its own (calcParticipantPeers called directly): empty, or drawn from the table, duplicate free, of the
\* minimum size, avoiding the leading proposers
WellFormedPeers(out, tbl, Nn, Cc, kind, props) ==
    out = <<>> \/ /\ Range(out) \subseteq Range(tbl) /\ NoDup(out)
                  /\ (kind = "P" => Len(out) > Cc \/ Len(out) >= Nn)
                  /\ (kind # "P" => Len(out) >= 2 * Cc
                                    /\ Range(out) \cap {props[i] : i \in 1..(IF Cc < Len(props) THEN Cc ELSE Len(props))} = {})

(* ---------------- the round after a chain-config block ---------------- *)
(* Server.updateParticipantConfig selects the participants of round b from the last sealed block b-1: the table in force is
   the NewChainConfig carried by block b-1 if it carries one, else the node's current chain config (Server.config is only
   switched later, by the asynchronous block-persisted event).  A config is a record [n, c, tbl]; new = NoCfg: block b-1
   carries none.  The selection must be the same for a node that has and one that has not switched Server.config yet. *)
NoCfg == [n |-> 0, c |-> 0, tbl |-> <<>>]
InForce(cur, new) == IF new.tbl = <<>> THEN cur ELSE new
RoundBuild(vrf, cur, new) == LET f == InForce(cur, new) IN Build(vrf, f.tbl, f.n, f.c)

(* ---------------- P-MC: all seeds x tables of a scaled layout ---------------- *)
CONSTANTS Tables,     \* set of position tables (the node's current config)
          NewTables,  \* set of tables a preceding chain-config block may carry; <<>> = the block carries none
          SeedBytes   \* byte values of the seed
VARIABLES vrf0, tbl0, new0
svars == <<vrf0, tbl0, new0>>
Peers(tbl) == Cardinality(Range(tbl))
CfgOf(tbl) == IF tbl = <<>> THEN NoCfg ELSE [n |-> Peers(tbl), c |-> Peers(tbl) \div 3, tbl |-> tbl]
Init == vrf0 \in [1..VrfLen -> SeedBytes] /\ tbl0 \in Tables /\ new0 \in NewTables
Spec == Init /\ [][UNCHANGED svars]_svars
Force0 == InForce(CfgOf(tbl0), CfgOf(new0))
PropC40 == WellFormed(RoundBuild(vrf0, CfgOf(tbl0), CfgOf(new0)), Force0.tbl, Force0.c)
\* each range on its own, with the proposers of the selection and with an arbitrary proposer list drawn from the seed
PropC40Ranges ==
    LET Nn == Force0.n
        Cc == Force0.c
        tb == Force0.tbl
        r  == Build(vrf0, tb, Nn, Cc)
        pr == IF r.err THEN <<tb[(vrf0[1] % Len(tb)) + 1], tb[(vrf0[2] % Len(tb)) + 1]>> ELSE r.p
    IN \A kind \in {"P", "E", "C"} :
         WellFormedPeers(CalcPeers(vrf0, tb, Nn, Cc, kind, IF kind = "P" THEN <<>> ELSE pr), tb, Nn, Cc, kind, pr)
=============================================================================
