--------------------------- MODULE VbftSelectMC ---------------------------
(* Scaled layouts for the exhaustive check of VbftSelect: 2-byte seed, 16 slots = 4 + 6 + 6. *)
EXTENDS VbftSelect
TablesQ == {<<1, 2, 3, 4>>, <<1, 2, 3, 4, 5, 6, 7>>}
TablesT == TablesQ \cup {<<1, 2, 3, 4, 4, 3, 2, 1>>, <<1, 2, 3, 4, 5>>, <<1, 1, 2, 2, 3, 3, 4, 4>>, <<1, 2, 3, 4, 5, 6>>, <<1, 2, 3, 1, 2, 3>>, <<3, 1, 4, 1, 5, 2, 6>>,
                        <<1, 2, 3, 4, 5, 1, 2>>, <<2, 1, 4, 3, 1, 2, 3, 4>>, <<1, 2, 3, 4, 5, 6, 7, 8>>}
AllBytes == 0..255
NoNew == {<<>>}
\* round after a chain-config block: current table x {no new config, new table with other N, C and membership}
RoundCur == {<<1, 2, 3, 4>>, <<1, 2, 3, 4, 5, 6, 7>>}
RoundNew == {<<>>, <<2, 3, 4, 5, 6, 7, 8>>, <<5, 6, 7, 5, 6, 8>>}
RoundBytes == {0, 1, 2, 3, 5, 8, 13, 21, 34, 55, 89, 144, 233, 255, 128, 64, 32, 16, 170, 85, 204, 51, 240, 15, 199, 100, 77, 200, 250, 7, 99, 180}
\* vacuity guard: on the first table some seeds yield a selection and some do not
ASSUME \E a \in 0..255 : ~Build(<<a, 255 - a>>, <<1, 2, 3, 4>>, 4, 1).err
ASSUME Build(<<1, 0>>, <<1, 2, 3, 4>>, 4, 1).err
=============================================================================
