--------------------------- MODULE VbftSelectMC ---------------------------
(* Scaled layouts for the exhaustive check of VbftSelect: 2-byte seed, 16 slots = 4 + 6 + 6. *)
EXTENDS VbftSelect
TablesQ == {<<1, 2, 3, 4>>, <<1, 2, 3, 4, 5, 6, 7>>}
TablesT == TablesQ \cup {<<1, 2, 3, 4, 4, 3, 2, 1>>, <<1, 2, 3, 4, 5>>, <<1, 1, 2, 2, 3, 3, 4, 4>>, <<1, 2, 3, 4, 5, 6>>, <<1, 2, 3, 1, 2, 3>>, <<3, 1, 4, 1, 5, 2, 6>>,
                        <<1, 2, 3, 4, 5, 1, 2>>, <<2, 1, 4, 3, 1, 2, 3, 4>>, <<1, 2, 3, 4, 5, 6, 7, 8>>}
\* vacuity guard: on the first table some seeds yield a selection and some do not
ASSUME \E a \in 0..255 : ~Build(<<a, 255 - a>>, <<1, 2, 3, 4>>, 4, 1).err
ASSUME Build(<<1, 0>>, <<1, 2, 3, 4>>, 4, 1).err
=============================================================================
