SPECIFICATION Spec
CONSTANTS Peers = {"p1", "p2"}
          Faulty = {"p2"}
          Target = 3
          MaxFwd = 2
          MaxFlightBlk = 2
          MaxCache = 2
          NextHeights = 1
          MaxErr = 2
          MaxFaults = 2
          HdrBatch = 2
INVARIANT TypeOK
PROPERTY Progress
CHECK_DEADLOCK FALSE
