------------------------------ MODULE EthRules ------------------------------
(***************************************************************************)
(* C28 - the Ethereum (proof-of-work era) header rules, transcribed from   *)
(* the Ethereum specification: difficulty (EIP-2 / EIP-100 with uncles,    *)
(* Byzantium form) incl. the ice-age delays per era (EIP-649, 1234, 2384,   *)
(* 3554, 4345), gas-limit bound, EIP-1559 gas-limit/base-fee rules, the    *)
(* header RLP (field list with the optional base fee) and the Ethash       *)
(* dataset / cache sizes.                                                  *)
(*                                                                         *)
(* TLC's integers are 32 bit:                                              *)
(*   * a difficulty is a record [b, s, e, plus] = b * 2^s + 2^e + plus     *)
(*     (e = -1: no bomb term); rows use s > 0 only with b a multiple of    *)
(*     2048, where the adjustment is linear (lemma ScaleLemma below), so   *)
(*     main-net magnitudes (2^52 + bomb 2^37) are reached exactly;         *)
(*   * floor(a*b/c) is computed as (a \div c)*b + ((a % c)*b) \div c       *)
(*     (identity, lemma MulDivLemma);                                      *)
(*   * dataset/cache sizes are counted in rows of 128 / 64 bytes.          *)
(*                                                                         *)
(* Binding P-TABLE: Init picks a row of the table named by the constant    *)
(* Table, Decide prints the row with the specified output/verdict.         *)
(* Domain: main-net numbers from Muir Glacier (9 200 000) up to, not       *)
(* including, Gray Glacier (15 050 000) for the rules as poly applies      *)
(* them; the earlier eras exist here only to cross-check the transcription *)
(* against go-ethereum v1.9.15.                                            *)
(***************************************************************************)
EXTENDS Integers, Sequences, FiniteSets, TLC, Json

CONSTANTS Table,    \* "calc" | "gas" | "fee" | "e2e" | "rlp" | "size" | "geth"
          Thorough  \* FALSE: boundary grid; TRUE: the larger grid
VARIABLES row, done

Max(a, b) == IF a > b THEN a ELSE b
Min(a, b) == IF a < b THEN a ELSE b
Abs(a) == IF a < 0 THEN 0 - a ELSE a

(* ---------------------------------------------------------------- difficulty *)
MinimumDifficulty == 131072
DifficultyBoundDivisor == 2048
ExpDiffPeriod == 100000

(* EIP-100: max((2 if len(parent.uncles) else 1) - (timestamp - parent.timestamp) // 9, -99) *)
Adjust(dt, uncles) == Max((IF uncles THEN 2 ELSE 1) - (dt \div 9), 0 - 99)
(* parent_diff + parent_diff // 2048 * adjust, not below the minimum (before the bomb term) *)
BaseDiff(pd, dt, uncles) == Max(pd + (pd \div DifficultyBoundDivisor) * Adjust(dt, uncles), MinimumDifficulty)
(* EIP-649 ff.: fake_block_number = max(0, block.number - delay); the bomb is 2^(fake // 100000 - 2), absent below period 2 *)
BombExp(num, delay) == LET period == Max(num - delay, 0) \div ExpDiffPeriod
                       IN IF period >= 2 THEN period - 2 ELSE 0 - 1
(* difficulty of the child (number num = parent number + 1) of a parent with difficulty pd * 2^s *)
CalcDiff(pd, s, dt, uncles, num, delay) ==
    [b |-> IF s = 0 THEN BaseDiff(pd, dt, uncles) ELSE pd + (pd \div DifficultyBoundDivisor) * Adjust(dt, uncles),
     s |-> s, e |-> BombExp(num, delay), plus |-> 0]
DiffEq(d1, d2) == /\ d1.s = d2.s /\ d1.e = d2.e
                  /\ IF d1.s = 0 THEN d1.b + d1.plus = d2.b + d2.plus ELSE d1.b = d2.b /\ d1.plus = d2.plus

(* main-net eras: the delay in force is chosen by the number of the block being validated *)
Byzantium == 4370000
Constantinople == 7280000
MuirGlacier == 9200000
London == 12965000
ArrowGlacier == 13773000
GrayGlacier == 15050000       \* not implemented by poly: the domain stops below it
BombDelay(num) == IF num >= ArrowGlacier THEN 10700000
                  ELSE IF num >= London THEN 9700000
                  ELSE IF num >= MuirGlacier THEN 9000000
                  ELSE IF num >= Constantinople THEN 5000000
                  ELSE 3000000                      \* Byzantium (num >= 4 370 000)
IsLondon(num) == num >= London

(* ---------------------------------------------------------------- gas limit *)
GasLimitBoundDivisor == 1024
MinGasLimit == 5000
GasLimitOK(pgl, gl) == Abs(pgl - gl) < pgl \div GasLimitBoundDivisor /\ gl >= MinGasLimit

(* ---------------------------------------------------------------- EIP-1559 *)
ElasticityMultiplier == 2
BaseFeeChangeDenominator == 8
InitialBaseFee == 1000000000
MulDiv(a, b, c) == (a \div c) * b + ((a % c) * b) \div c      \* floor(a*b/c) without leaving 32 bits (b <= c here)
(* expected base fee of a block whose parent has gas limit pgl, gas used pgu, base fee pbf; parentLondon = the parent is
   itself a London block (otherwise the block is the fork block) *)
ExpectedBaseFee(parentLondon, pgl, pgu, pbf) ==
    IF ~parentLondon THEN InitialBaseFee
    ELSE LET target == pgl \div ElasticityMultiplier IN
         IF pgu = target THEN pbf
         ELSE IF pgu > target THEN pbf + Max(MulDiv(pbf, pgu - target, target) \div BaseFeeChangeDenominator, 1)
         ELSE Max(pbf - MulDiv(pbf, target - pgu, target) \div BaseFeeChangeDenominator, 0)
(* gas-limit and base-fee part of the validity of a London block; bf = -1: the header carries no base fee *)
Eip1559OK(parentLondon, pgl, pgu, pbf, gl, bf) ==
    /\ GasLimitOK(IF parentLondon THEN pgl ELSE pgl * ElasticityMultiplier, gl)
    /\ bf # 0 - 1
    /\ bf = ExpectedBaseFee(parentLondon, pgl, pgu, pbf)

(* ---------------------------------------------------------------- header validity (what SyncBlockHeader must enforce) *)
MaximumExtraDataSize == 32
(* p = [num, time, gl, gu, bf, pd, s, uncles], c = [num, time, gl, gu, bf, diff, extra] *)
ValidChild(p, c) ==
    /\ c.num = p.num + 1
    /\ c.time > p.time
    /\ c.extra <= MaximumExtraDataSize
    /\ c.gu <= c.gl
    /\ IF IsLondon(c.num) THEN Eip1559OK(IsLondon(p.num), p.gl, p.gu, p.bf, c.gl, c.bf)
       ELSE c.bf = 0 - 1 /\ GasLimitOK(p.gl, c.gl)          \* a base fee before the fork is invalid
    /\ DiffEq(c.diff, CalcDiff(p.pd, p.s, c.time - p.time, p.uncles, c.num, BombDelay(c.num)))

(* ---------------------------------------------------------------- RLP of the header *)
RECURSIVE BE(_)
BE(n) == IF n = 0 THEN <<>> ELSE BE(n \div 256) \o <<n % 256>>      \* big-endian, no leading zeros; 0 is the empty string
RlpBytes(b) == IF Len(b) = 1 /\ b[1] < 128 THEN b
               ELSE IF Len(b) < 56 THEN <<128 + Len(b)>> \o b
               ELSE <<183 + Len(BE(Len(b)))>> \o BE(Len(b)) \o b
RlpList(payload) == IF Len(payload) < 56 THEN <<192 + Len(payload)>> \o payload
                    ELSE <<247 + Len(BE(Len(payload)))>> \o BE(Len(payload)) \o payload
Fill(n, v) == [i \in 1..n |-> (v + i) % 256]
RECURSIVE Concat(_)
Concat(ss) == IF ss = <<>> THEN <<>> ELSE Head(ss) \o Concat(Tail(ss))
FieldNames == <<"parentHash", "sha3Uncles", "miner", "stateRoot", "transactionsRoot", "receiptsRoot", "logsBloom",
                "difficulty", "number", "gasLimit", "gasUsed", "timestamp", "extraData", "mixHash", "nonce">>
(* h: fixed-size fields are byte strings (32,32,20,32,32,32,256, ..., 32, 8), integers are minimal big-endian strings,
   bf = <<-1>> stands for "no base fee" *)
HeaderRlp(h) ==
    RlpList(Concat(<<RlpBytes(h.parentHash), RlpBytes(h.sha3Uncles), RlpBytes(h.miner), RlpBytes(h.stateRoot),
                     RlpBytes(h.transactionsRoot), RlpBytes(h.receiptsRoot), RlpBytes(h.logsBloom),
                     RlpBytes(h.difficulty), RlpBytes(h.number), RlpBytes(h.gasLimit), RlpBytes(h.gasUsed),
                     RlpBytes(h.timestamp), RlpBytes(h.extraData), RlpBytes(h.mixHash), RlpBytes(h.nonce)>>
                   \o (IF h.baseFee = <<0 - 1>> THEN <<>> ELSE <<RlpBytes(h.baseFee)>>)))

(* ---------------------------------------------------------------- Ethash sizes *)
EpochLength == 30000
RECURSIVE NoDivisorFrom(_, _)
NoDivisorFrom(n, d) == IF d * d > n THEN TRUE ELSE IF n % d = 0 THEN FALSE ELSE NoDivisorFrom(n, d + 2)
IsPrime(n) == n >= 2 /\ (n = 2 \/ (n % 2 = 1 /\ NoDivisorFrom(n, 3)))
RECURSIVE PrimeBelow(_)
PrimeBelow(n) == IF IsPrime(n) THEN n ELSE PrimeBelow(n - 2)
(* dataset: 2^30 + 2^23 * epoch bytes, minus one 128-byte row, lowered by two rows until the row count is prime *)
DatasetRows(epoch) == PrimeBelow(8388608 + 65536 * epoch - 1)
(* cache: 2^24 + 2^17 * epoch bytes in 64-byte rows, same procedure *)
CacheRows(epoch) == PrimeBelow(262144 + 2048 * epoch - 1)

(* ================================================================ the tables *)
DtGrid == {1, 2, 8, 9, 10, 17, 18, 19, 26, 27, 35, 36, 89, 90, 98, 99, 890, 891, 899, 900, 901, 908, 909, 917, 918, 1000, 5000}
DtFew  == {1, 9, 13, 18, 100, 909, 2000}
DtAll  == 1..940 \cup {1000, 5000, 100000}
PdGrid == {131072, 131073, 133119, 133120, 137000, 1000000, 2047999, 2048000, 1073741823}
PdFew  == {133120, 1000000}
Scaled == {[pd |-> 2048000, s |-> 32], [pd |-> 2048 * 123457, s |-> 22], [pd |-> 2048 * 500000, s |-> 22]}
Delays == {9000000, 9700000, 10700000}
(* child numbers around the start of the bomb and its period edges, relative to a delay *)
NumOffsets == {0 - 1000000, 0 - 1, 0, 1, 99999, 100000, 199999, 200000, 200001, 299999, 300000, 1000000, 3299999, 3300000, 4099999, 4100000, 4350000}
CalcRows ==
    LET full == IF Thorough THEN DtAll ELSE DtGrid
    IN    {[pd |-> pd, s |-> 0, dt |-> dt, uncles |-> u, num |-> d + 3300000, delay |-> d] :
                 pd \in PdGrid, dt \in full, u \in BOOLEAN, d \in (IF Thorough THEN Delays ELSE {9000000})}
     \cup {[pd |-> x.pd, s |-> x.s, dt |-> dt, uncles |-> u, num |-> d + o, delay |-> d] :
                 x \in Scaled, dt \in DtGrid, u \in BOOLEAN, d \in Delays, o \in {200000, 3300000, 4100000}}
     \cup {[pd |-> pd, s |-> 0, dt |-> dt, uncles |-> u, num |-> d + o, delay |-> d] :
                 pd \in PdFew, dt \in DtFew, u \in BOOLEAN, d \in Delays, o \in NumOffsets}
CalcOut(r) == [row |-> r, diff |-> CalcDiff(r.pd, r.s, r.dt, r.uncles, r.num, r.delay)]

(* cross-check of the transcription against go-ethereum v1.9.15 CalcDifficulty (main-net config; eras that version knows) *)
GethNums == {4370000, 4370001, 5000000, 5999999, 6000000, 7279999, 7280000, 7280001, 9199999, 9200000, 9200001, 9299999, 9300000,
             10000000, 11000000, 12000000, 12964999}
GethRows == {[pd |-> pd, s |-> 0, dt |-> dt, uncles |-> u, num |-> n, delay |-> BombDelay(n)] :
                 pd \in {133120, 1000000, 2048000}, dt \in DtGrid, u \in BOOLEAN, n \in GethNums}
          \cup {[pd |-> x.pd, s |-> x.s, dt |-> dt, uncles |-> u, num |-> n, delay |-> BombDelay(n)] :
                 x \in Scaled, dt \in DtFew, u \in BOOLEAN, n \in GethNums}

GasParents == {1023, 1024, 1025, 2047, 2048, 5000, 5001, 5120, 6000, 8000000, 30000000, 1073741824}
GasRows == UNION { LET lim == pgl \div 1024 IN
                   {[pgl |-> pgl, gl |-> pgl + o] : o \in {0 - lim - 1, 0 - lim, 1 - lim, 0 - 1, 0, 1, lim - 1, lim, lim + 1}}
                   \cup {[pgl |-> pgl, gl |-> g] : g \in {0, 4999, 5000, 5001}} : pgl \in GasParents }
GasOut(r) == [row |-> r, ok |-> GasLimitOK(r.pgl, r.gl)]

(* EIP-1559: parent (London or not) x gas used x base fee; child gas limit at the bounds of the effective parent limit;
   child base fee = expected + d, or absent *)
FeeParents ==
    LET small == {[pgl |-> g, pbf |-> f] : g \in {5000, 10000, 20000, 20001}, f \in {0, 1, 2, 7, 8, 9, 15, 16, 1000, 1000000000, 1800000000}}
        big   == {[pgl |-> g, pbf |-> f] : g \in {30000000, 29999999}, f \in {0, 1, 7, 8, 63, 64, 70}}
        more  == {[pgl |-> g, pbf |-> f] : g \in {5001, 12345, 40000}, f \in {3, 100, 12345, 999999999}}
    IN small \cup big \cup (IF Thorough THEN more ELSE {})
UsedOf(pgl) == LET t == pgl \div 2 IN {0, 1, t \div 2, t - 1, t, t + 1, t + t \div 8, t + t \div 8 + 1, pgl - 1, pgl}
FeeRows == UNION { {[plondon |-> TRUE, pgl |-> p.pgl, pgu |-> u, pbf |-> p.pbf, glo |-> "parent", bfd |-> 0] : u \in UsedOf(p.pgl)} : p \in FeeParents }
      \cup {[plondon |-> pl, pgl |-> g, pgu |-> u, pbf |-> IF pl THEN f ELSE 0 - 1, glo |-> o, bfd |-> d] :
               pl \in BOOLEAN, g \in {20000, 30000000}, u \in {0, 10000}, f \in {7, 70},
               o \in {"-lim-1", "-lim", "-lim+1", "0", "+lim-1", "+lim", "+lim+1", "parent", "parent+lim-1", "parent+lim"},
               d \in {0 - 1, 0, 1, 99}}        \* 99 = no base fee in the child
GlOf(r) == LET eff == IF r.plondon THEN r.pgl ELSE 2 * r.pgl
               lim == eff \div 1024
               plim == r.pgl \div 1024
           IN CASE r.glo = "-lim-1" -> eff - lim - 1 [] r.glo = "-lim" -> eff - lim [] r.glo = "-lim+1" -> eff - lim + 1
                [] r.glo = "0" -> eff [] r.glo = "+lim-1" -> eff + lim - 1 [] r.glo = "+lim" -> eff + lim [] r.glo = "+lim+1" -> eff + lim + 1
                [] r.glo = "parent" -> r.pgl [] r.glo = "parent+lim-1" -> r.pgl + plim - 1 [] r.glo = "parent+lim" -> r.pgl + plim
                [] OTHER -> eff
FeeOut(r) == LET exp == ExpectedBaseFee(r.plondon, r.pgl, r.pgu, r.pbf)
                 gl == GlOf(r)
                 bf == IF r.bfd = 99 THEN 0 - 1 ELSE Max(exp + r.bfd, 0)
             IN [row |-> r, expected |-> exp, gl |-> gl, bf |-> bf, ok |-> Eip1559OK(r.plondon, r.pgl, r.pgu, r.pbf, gl, bf)]

(* end to end: a parent (installed as trust root) and a child built to be valid for its era, then one deviation *)
E2ENums == {MuirGlacier, MuirGlacier + 1, 9299999, 9300000, 9300001, 11000000, London - 1, London, London + 1, London + 2, 12999999, 13000000,
            ArrowGlacier - 1, ArrowGlacier, ArrowGlacier + 1, 13799999, 13800000, GrayGlacier - 1}
Deviations == {"none", "num+1", "num-1", "time=parent", "time<parent", "extra32", "extra33", "used=limit", "used>limit",
               "gl+lim-1", "gl+lim", "gl-lim+1", "gl-lim", "gl<5000", "diff+1", "diff-1", "diff:muir", "diff:london", "diff:arrow",
               "fee:absent", "fee+1", "fee-1", "fee:present", "fee:present+london-rules", "uncles"}
E2EBases == {[pd |-> 2048000, s |-> 32, dt |-> 13, pgl |-> 30000000, pgu |-> 15000001, pbf |-> 70],
             [pd |-> 1000000, s |-> 0, dt |-> 1, pgl |-> 20000, pgu |-> 9000, pbf |-> 1000000000],
             [pd |-> 137000, s |-> 0, dt |-> 950, pgl |-> 8000000, pgu |-> 0, pbf |-> 7]}
E2ENumsMore == {9400000, 9999999, 10000000, 12900000, London - 2, 13000001, 13699999, 13700000, ArrowGlacier - 2, 14999999, 15000000}
E2EBasesMore == {[pd |-> 2048 * 500000, s |-> 22, dt |-> 9, pgl |-> 29999999, pgu |-> 14999999, pbf |-> 0],
                 [pd |-> 131072, s |-> 0, dt |-> 100, pgl |-> 5000, pgu |-> 5000, pbf |-> 1],
                 [pd |-> 2047999, s |-> 0, dt |-> 18, pgl |-> 20001, pgu |-> 12500, pbf |-> 1800000000]}
E2ERows == {[num |-> n, base |-> b, dev |-> d] : n \in E2ENums \cup (IF Thorough THEN E2ENumsMore ELSE {}),
                                                 b \in E2EBases \cup (IF Thorough THEN E2EBasesMore ELSE {}), d \in Deviations}
Parent(r) == [num |-> r.num - 1, time |-> 1000000, gl |-> r.base.pgl, gu |-> r.base.pgu,
              bf |-> IF IsLondon(r.num - 1) THEN r.base.pbf ELSE 0 - 1, pd |-> r.base.pd, s |-> r.base.s, uncles |-> r.dev = "uncles"]
Child(r) ==
    LET p == Parent(r)
        london == IsLondon(r.num)
        eff == IF london /\ ~IsLondon(p.num) THEN 2 * p.gl ELSE p.gl
        lim == eff \div 1024
        lrules == r.dev = "fee:present+london-rules"          \* a pre-fork child dressed as a London block
        eff2 == IF lrules /\ ~london THEN 2 * p.gl ELSE eff
        d == r.dev
        time == IF d = "time=parent" THEN p.time ELSE IF d = "time<parent" THEN p.time - 1 ELSE p.time + r.base.dt
        delay == IF d = "diff:muir" THEN 9000000 ELSE IF d = "diff:london" \/ (lrules /\ ~london) THEN 9700000
                 ELSE IF d = "diff:arrow" THEN 10700000 ELSE BombDelay(r.num)
        good == CalcDiff(p.pd, p.s, Max(time - p.time, 0), p.uncles, r.num, delay)
        fee == ExpectedBaseFee(IsLondon(p.num), p.gl, p.gu, p.bf)
        gl == IF d = "gl+lim-1" THEN eff + lim - 1 ELSE IF d = "gl+lim" THEN eff + lim ELSE IF d = "gl-lim+1" THEN eff - lim + 1
              ELSE IF d = "gl-lim" THEN eff - lim ELSE IF d = "gl<5000" THEN 4999 ELSE eff2
    IN [num |-> IF d = "num+1" THEN r.num + 1 ELSE IF d = "num-1" THEN r.num - 1 ELSE r.num,
        time |-> time,
        extra |-> IF d = "extra32" THEN 32 ELSE IF d = "extra33" THEN 33 ELSE 3,
        gl |-> gl,
        gu |-> IF d = "used=limit" THEN gl ELSE IF d = "used>limit" THEN gl + 1 ELSE gl \div 3,
        bf |-> IF london THEN (IF d = "fee:absent" THEN 0 - 1 ELSE IF d = "fee+1" THEN fee + 1 ELSE IF d = "fee-1" THEN Max(fee - 1, 0) ELSE fee)
               ELSE (IF d = "fee:present" \/ lrules THEN InitialBaseFee ELSE 0 - 1),
        diff |-> [good EXCEPT !.plus = IF d = "diff+1" THEN 1 ELSE IF d = "diff-1" THEN 0 - 1 ELSE 0]]
(* the deviation "num-1"/"num+1" changes the declared number only; validity is judged against the real parent *)
E2EOut(r) == [row |-> r, parent |-> Parent(r), child |-> Child(r), ok |-> ValidChild(Parent(r), Child(r))]

(* RLP rows: integers as minimal big-endian strings (so widths beyond 32 bits can be written down) *)
IntStrings == {<<>>, <<1>>, <<127>>, <<128>>, <<255>>, <<1, 0>>, <<255, 255, 255, 255>>, <<1, 0, 0, 0, 0>>,
               <<255, 255, 255, 255, 255, 255, 255, 255>>}
BigStrings == IntStrings \cup {<<1, 0, 0, 0, 0, 0, 0, 0, 0>>, Fill(32, 200)}
ExtraStrings == {<<>>, <<0>>, <<5>>, <<127>>, <<128>>, <<1, 2>>, Fill(32, 7)}
RlpBase == [parentHash |-> Fill(32, 1), sha3Uncles |-> Fill(32, 40), miner |-> Fill(20, 80), stateRoot |-> Fill(32, 110),
            transactionsRoot |-> Fill(32, 150), receiptsRoot |-> Fill(32, 190), logsBloom |-> Fill(256, 0),
            difficulty |-> <<15, 66, 64>>, number |-> <<140, 97, 128>>, gasLimit |-> <<1, 201, 195, 128>>, gasUsed |-> <<82, 8>>,
            timestamp |-> <<97, 40, 180, 0>>, extraData |-> <<1, 2, 3>>, mixHash |-> Fill(32, 230), nonce |-> Fill(8, 250),
            baseFee |-> <<0 - 1>>]
RlpRows == {RlpBase}
      \cup {[RlpBase EXCEPT !.difficulty = x] : x \in BigStrings}
      \cup {[RlpBase EXCEPT !.number = x] : x \in BigStrings}
      \cup {[RlpBase EXCEPT !.gasLimit = x] : x \in IntStrings}
      \cup {[RlpBase EXCEPT !.gasUsed = x] : x \in IntStrings}
      \cup {[RlpBase EXCEPT !.timestamp = x] : x \in IntStrings}
      \cup {[RlpBase EXCEPT !.extraData = x] : x \in ExtraStrings}
      \cup {[RlpBase EXCEPT !.baseFee = x] : x \in BigStrings}
      \cup {[RlpBase EXCEPT !.baseFee = x, !.extraData = y] : x \in {<<>>, <<7>>, <<59, 154, 202, 0>>}, y \in ExtraStrings}
      \cup {[RlpBase EXCEPT !.logsBloom = Fill(256, v), !.nonce = Fill(8, v), !.miner = Fill(20, v)] : v \in {0, 128, 255}}
RlpOut(r) == [row |-> r, rlp |-> HeaderRlp(r), fields |-> FieldNames \o (IF r.baseFee = <<0 - 1>> THEN <<>> ELSE <<"baseFeePerGas">>)]

SizeEpochs == IF Thorough THEN 0..600 \cup {e \in 601..2060 : e % 16 = 0} \cup 2040..2060 ELSE {0, 1, 2, 3, 100, 255, 256, 306, 307, 400, 432, 433, 459, 460, 501, 502, 1000, 2047, 2048, 2049}
(* block numbers inside the epoch: first, last (epoch boundary +-1 is first of e / last of e-1) *)
SizeRows == {[epoch |-> e] : e \in SizeEpochs}
SizeOut(r) == [row |-> r, first |-> r.epoch * EpochLength, last |-> r.epoch * EpochLength + EpochLength - 1,
               datasetRows |-> DatasetRows(r.epoch), cacheRows |-> CacheRows(r.epoch)]

Rows == CASE Table = "calc" -> CalcRows [] Table = "geth" -> GethRows [] Table = "gas" -> GasRows [] Table = "fee" -> FeeRows
          [] Table = "e2e" -> E2ERows [] Table = "rlp" -> RlpRows [] Table = "size" -> SizeRows
Out(r) == CASE Table = "calc" -> CalcOut(r) [] Table = "geth" -> CalcOut(r) [] Table = "gas" -> GasOut(r) [] Table = "fee" -> FeeOut(r)
          [] Table = "e2e" -> E2EOut(r) [] Table = "rlp" -> RlpOut(r) [] Table = "size" -> SizeOut(r)

Init == row \in Rows /\ done = FALSE
Decide == ~done /\ done' = TRUE /\ UNCHANGED row /\ PrintT(<<"ROW", ToJson(Out(row))>>)
Spec == Init /\ [][Decide]_<<row, done>>

(* ================================================================ internal consistency (P-MC over the rows) *)
(* the scaled representation is exact: for multiples of 2048 the adjustment commutes with a power-of-two factor *)
ScaleLemma == Table = "calc" /\ row.s = 0 /\ row.pd % 2048 = 0 /\ row.pd < 100000000 =>
                  \A k \in {2, 16} : (row.pd * k) + ((row.pd * k) \div 2048) * Adjust(row.dt, row.uncles)
                                     = k * (row.pd + (row.pd \div 2048) * Adjust(row.dt, row.uncles))
DiffSane == Table \in {"calc", "geth"} => LET o == CalcOut(row) IN
                /\ o.diff.b >= (IF row.s = 0 THEN MinimumDifficulty ELSE 1)
                /\ o.diff.b <= row.pd + 2 * (row.pd \div 2048)
                /\ (o.diff.b >= row.pd - 99 * (row.pd \div 2048) \/ o.diff.b = MinimumDifficulty)
                /\ o.diff.e >= 0 - 1 /\ o.diff.e <= 42
(* the base fee moves by at most one eighth (at least 1 upwards), never below zero; MulDiv is floor(a*b/c) on small operands *)
FeeSane == Table = "fee" => LET o == FeeOut(row) IN
                /\ o.expected >= 0
                /\ row.plondon => /\ o.expected <= row.pbf + Max(row.pbf \div 8, 1) + (IF row.pgl % 2 = 1 THEN row.pbf \div 8000 + 1 ELSE 0)
                                  /\ o.expected >= row.pbf - row.pbf \div 8
                                  /\ (row.pgu > row.pgl \div 2 => o.expected > row.pbf)
                                  /\ (row.pgu < row.pgl \div 2 => o.expected <= row.pbf)
                /\ (row.pbf >= 0 /\ row.pbf < 40000 /\ row.pgl < 40000 /\ row.pgu <= row.pgl) =>
                       MulDiv(row.pbf, row.pgu, Max(row.pgl, 1)) = (row.pbf * row.pgu) \div Max(row.pgl, 1)
GasSane == Table = "gas" => (GasLimitOK(row.pgl, row.gl) => row.gl >= MinGasLimit /\ row.pgl >= 1025 /\ row.gl > row.pgl - row.pgl \div 1024
                                                             /\ row.gl < row.pgl + row.pgl \div 1024)
E2ESane == Table = "e2e" => (row.dev = "none" => ValidChild(Parent(row), Child(row)))
RlpSane == Table = "rlp" => LET e == HeaderRlp(row) IN e[1] = 249 /\ Len(e) = 3 + e[2] * 256 + e[3] /\ \A i \in 1..Len(e) : e[i] \in 0..255
PropC28Model == ScaleLemma /\ DiffSane /\ FeeSane /\ GasSane /\ E2ESane /\ RlpSane
=============================================================================
