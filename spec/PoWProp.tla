------------------------------ MODULE PoWProp ------------------------------
(***************************************************************************)
(* C27, the property monitor: the clauses of the property over an          *)
(* observation record                                                      *)
(*   O = [stored : set of header ids, root : id of the trust root,         *)
(*        par, num, diff, td : functions over ids (parent id, number,      *)
(*        own difficulty, stored total difficulty),                        *)
(*        main : function over a height range (canonical index, -1 = no    *)
(*        entry), head : current header height].                           *)
(* PoWChain applies it to the model state, TracePoWChain to states read    *)
(* back from the real contract through its own getters.                    *)
(***************************************************************************)
EXTENDS Integers, FiniteSets
(* O = [stored, root, par, num, diff, td, main (function over a height range), head]                  *)
ParentClosure(O) == \A x \in O.stored \ {O.root} : O.par[x] \in O.stored
HeightsOK(O)     == \A x \in O.stored \ {O.root} : O.par[x] \in O.stored => O.num[x] = O.num[O.par[x]] + 1
TdSums(O)        == \A x \in O.stored \ {O.root} : O.par[x] \in O.stored => O.td[x] = O.td[O.par[x]] + O.diff[x]
Canonical(O)     == /\ O.head >= O.num[O.root]
                    /\ \A y \in O.num[O.root]..O.head : y \in DOMAIN O.main /\ O.main[y] \in O.stored /\ O.num[O.main[y]] = y
                    /\ O.main[O.num[O.root]] = O.root
                    /\ \A y \in (O.num[O.root] + 1)..O.head : O.par[O.main[y]] = O.main[y - 1]
HeadHeaviest(O)  == \A x \in O.stored : O.td[x] <= O.td[O.main[O.head]]
PropOn(O) == ParentClosure(O) /\ HeightsOK(O) /\ TdSums(O) /\ Canonical(O) /\ HeadHeaviest(O)

=============================================================================
