SPECIFICATION Spec
CONSTANTS MaxH = 4
          MaxCrash = 3
          MaxMut = 0
          MaxLen = 99
          Kinds = {}
          HdrOps = {}
          Paths = {"submit"}
          MixPaths = FALSE
          RecoverAsCoded = TRUE
          KeepTreeOnWipe = FALSE
          ParentByLookup = FALSE
          Mode = "crash"
CONSTRAINT Emit
CHECK_DEADLOCK FALSE
