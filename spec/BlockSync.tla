--------------------------------- MODULE BlockSync ---------------------------------
(* Design-level model of p2pserver/block_sync.go (BlockSyncMgr): one syncing node pulls the    *)
(* header chain and then the blocks of a fixed canonical chain 1..Target from a set of peers,  *)
(* some of which may be faulty.  One action per critical section of the code:                  *)
(*   SyncHeader      syncHeader()        one header request in flight, forward window          *)
(*   HeaderReply     OnHeaderReceive()   ledger.AddHeaders validates (C14); flight removed      *)
(*   SyncBlock       syncBlock()         one request (or NextTimes for the next heights)        *)
(*   BlockReply      OnBlockReceive()    delFlightBlock(hash); window test; cache overwrite     *)
(*   SaveStep        saveBlock()         purge, ledger.AddBlock (C13/C14 decide), re-request    *)
(*   TimeoutHeader / TimeoutBlock        checkTimeout()                                         *)
(*   DelNode / AddNode                   OnDelNode / OnAddNode                                  *)
(* A block is abstracted to its height and a quality: "good" (the canonical block), "badbody"  *)
(* (canonical header, hence canonical hash, but a body ledger.AddBlock refuses) and "badhdr"   *)
(* (another header at that height: another hash, refused by AddBlock).  What AddBlock and      *)
(* AddHeaders accept is decided on the real ledger by the checks of C13 and C14; here it is an *)
(* assumption.  Flights are keyed by hash in the code: canonical flights are <<h, p, "c">>,    *)
(* flights for a foreign hash (created only by saveBlock's re-request) are <<h, p, "x">>.      *)
EXTENDS Integers, FiniteSets, TLC

CONSTANTS Peers,          \* peer ids
          Faulty,         \* subset of Peers that may send anything, asked or not
          Target,         \* length of the canonical chain held by the peers
          MaxFwd,         \* SYNC_MAX_HEADER_FORWARD_SIZE
          MaxFlightBlk,   \* SYNC_MAX_FLIGHT_BLOCK_SIZE
          MaxCache,       \* SYNC_MAX_BLOCK_CACHE_SIZE
          NextHeights,    \* SYNC_NEXT_BLOCKS_HEIGHT
          MaxErr,         \* SYNC_MAX_ERROR_RESP_TIMES
          MaxFaults,      \* bound on unsolicited/bad replies, time-outs and disconnects (finite model)
          HdrBatch        \* headers per reply

VARIABLES hdrH, blkH,     \* ledger: current header height, current block height
          fh,             \* flightHeaders: set of <<height, peer>> (at most one per height)
          fb,             \* flightBlocks : set of <<height, peer, "c"|"x">>
          cache,          \* blocksCache  : [height -> <<peer, quality>>] as a set of <<h, p, q>>, one per height
          nodes,          \* nodeWeights keys
          errs,           \* error-response counters
          faults          \* number of fault steps taken so far

vars == <<hdrH, blkH, fh, fb, cache, nodes, errs, faults>>

Heights == 1..Target
Quality == {"good", "badbody", "badhdr"}
Honest  == Peers \ Faulty

Init == /\ hdrH = 0 /\ blkH = 0 /\ fh = {} /\ fb = {} /\ cache = {}
        /\ nodes = Peers /\ errs = [p \in Peers |-> 0] /\ faults = 0

Cached(h)   == \E e \in cache : e[1] = h
OnFlightC(h) == \E f \in fb : f[1] = h /\ f[3] = "c"
Bump(p)     == [errs EXCEPT ![p] = @ + 1]
AfterErr(p) == IF errs[p] + 1 >= MaxErr THEN nodes \ {p} ELSE nodes

\* syncBlock skips a height that is cached, or on flight and not one of the next NextHeights heights
Eligible(h) == ~Cached(h) /\ (OnFlightC(h) => h <= blkH + NextHeights)
AllAsked(h) == \A p \in nodes : <<h, p, "c">> \in fb

SyncHeader ==
    /\ hdrH < Target
    /\ Cardinality(fh) < 1                         \* SYNC_MAX_FLIGHT_HEADER_SIZE
    /\ hdrH - blkH < MaxFwd
    /\ \E p \in nodes : fh' = {f \in fh : f[1] # hdrH + 1} \cup {<<hdrH + 1, p>>}
    /\ UNCHANGED <<hdrH, blkH, fb, cache, nodes, errs, faults>>

\* Any peer may answer, asked or not: the code only tests that the first height is on flight.
HeaderReply(p, ok) ==
    /\ \E f \in fh : f[1] = hdrH + 1
    /\ \/ ok /\ (p \in Honest => <<hdrH + 1, p>> \in fh)
       \/ ~ok /\ p \in Faulty /\ faults < MaxFaults
    /\ fh' = {f \in fh : f[1] # hdrH + 1}
    /\ IF ok THEN /\ hdrH' = IF hdrH + HdrBatch > Target THEN Target ELSE hdrH + HdrBatch
                  /\ UNCHANGED <<nodes, errs, faults>>
             ELSE /\ errs' = Bump(p) /\ nodes' = AfterErr(p) /\ faults' = faults + 1
                  /\ UNCHANGED hdrH
    /\ UNCHANGED <<blkH, fb, cache>>

\* syncBlock: one iteration of its loop (the lock makes the loop atomic w.r.t. other syncBlock calls only).
SyncBlock ==
    /\ Cardinality(fb) < MaxFlightBlk
    /\ Cardinality(cache) < MaxCache
    /\ \E h \in (blkH + 1)..hdrH :
         /\ Eligible(h)
         /\ \A g \in (blkH + 1)..(h - 1) : ~Eligible(g) \/ (OnFlightC(g) /\ AllAsked(g))   \* the loop walks upwards
         /\ \E p \in nodes : fb' = fb \cup {<<h, p, "c">>}
    /\ UNCHANGED <<hdrH, blkH, fh, cache, nodes, errs, faults>>

\* OnBlockReceive: an honest peer answers only a request addressed to it, with the canonical block.
BlockReply(p, h, q) ==
    /\ \/ p \in Honest /\ q = "good" /\ <<h, p, "c">> \in fb
       \/ p \in Faulty /\ faults < MaxFaults
    /\ faults' = IF p \in Faulty THEN faults + 1 ELSE faults
    /\ fb' = IF q = "badhdr" THEN {f \in fb : ~(f[1] = h /\ f[3] = "x")}
                             ELSE {f \in fb : ~(f[1] = h /\ f[3] = "c")}
    /\ IF h > hdrH + 1 \/ h <= blkH
         THEN UNCHANGED cache
         ELSE cache' = {e \in cache : e[1] # h} \cup {<<h, p, q>>}      \* overwrite, sender not checked
    /\ UNCHANGED <<hdrH, blkH, fh, nodes, errs>>

\* saveBlock: purge stale entries, then one iteration of its loop.
SaveStep ==
    LET live == {e \in cache : e[1] > blkH} IN
    /\ \E e \in live :
         /\ e[1] = blkH + 1
         /\ IF e[3] = "good"
              THEN /\ blkH' = blkH + 1
                   /\ hdrH' = IF hdrH < blkH + 1 THEN blkH + 1 ELSE hdrH   \* AddBlock stores the header too
                   /\ cache' = live \ {e}
                   /\ UNCHANGED <<fb, nodes, errs>>
              ELSE /\ UNCHANGED <<blkH, hdrH>>
                   /\ cache' = live \ {e}
                   /\ errs' = Bump(e[2]) /\ nodes' = AfterErr(e[2])
                   /\ LET kind == IF e[3] = "badhdr" THEN "x" ELSE "c" IN
                      \/ \E r \in AfterErr(e[2]) : fb' = fb \cup {<<e[1], r, kind>>}   \* re-request the hash just refused
                      \/ AfterErr(e[2]) = {} /\ UNCHANGED fb
    /\ UNCHANGED <<fh, faults>>

\* A time-out of a request addressed to a connected honest peer is a fault (spurious, budgeted);
\* a time-out of a request nobody will answer is ordinary behaviour.  Re-assignment prefers another
\* peer (getNodeWithMinFailedTimes rotates through the peers by failure count).
Cost(p)   == IF p \in Honest /\ p \in nodes THEN 1 ELSE 0
\* a stale request (its height is already in the ledger: the reply was dropped by the height test, or
\* the height arrived another way) is only ever removed by checkTimeout: not a fault either
CostH(f)  == IF f[1] <= hdrH THEN 0 ELSE Cost(f[2])
CostB(f)  == IF f[1] <= blkH THEN 0 ELSE Cost(f[2])
Others(p) == IF nodes \ {p} # {} THEN nodes \ {p} ELSE nodes

TimeoutHeader ==
    /\ \E f \in fh :
         /\ faults + CostH(f) <= MaxFaults /\ faults' = faults + CostH(f)
         /\ IF f[1] <= hdrH THEN fh' = fh \ {f}
            ELSE \/ \E r \in Others(f[2]) : fh' = (fh \ {f}) \cup {<<f[1], r>>}
                 \/ nodes = {} /\ UNCHANGED fh
    /\ UNCHANGED <<hdrH, blkH, fb, cache, nodes, errs>>

TimeoutBlock ==
    /\ \E f \in fb :
         /\ faults + CostB(f) <= MaxFaults /\ faults' = faults + CostB(f)
         /\ IF f[1] <= blkH THEN fb' = {g \in fb : ~(g[1] = f[1] /\ g[3] = f[3])}
            ELSE \/ \E r \in Others(f[2]) : fb' = (fb \ {f}) \cup {<<f[1], r, f[3]>>}
                 \/ nodes = {} /\ UNCHANGED fb
    /\ UNCHANGED <<hdrH, blkH, fh, cache, nodes, errs>>

DelNode(p) == /\ faults < MaxFaults /\ faults' = faults + 1
              /\ p \in nodes /\ nodes' = nodes \ {p}
              /\ UNCHANGED <<hdrH, blkH, fh, fb, cache, errs>>
AddNode(p) == /\ p \notin nodes /\ nodes' = nodes \cup {p} /\ errs' = [errs EXCEPT ![p] = 0]
              /\ UNCHANGED <<hdrH, blkH, fh, fb, cache, faults>>

Next == \/ SyncHeader \/ SyncBlock \/ SaveStep \/ TimeoutHeader \/ TimeoutBlock
        \/ \E p \in Peers : HeaderReply(p, TRUE) \/ HeaderReply(p, FALSE) \/ DelNode(p) \/ AddNode(p)
        \/ \E p \in Peers, h \in Heights, q \in Quality : BlockReply(p, h, q)

Fair == /\ WF_vars(SyncHeader) /\ WF_vars(SyncBlock) /\ WF_vars(SaveStep)
        /\ \A p \in Honest : WF_vars(HeaderReply(p, TRUE)) /\ WF_vars(AddNode(p))
        /\ \A p \in Honest, h \in Heights : WF_vars(BlockReply(p, h, "good"))
        \* checkTimeout runs every second whatever the fault budget says: time-outs that re-assign
        \* a request addressed to a peer that will never answer are part of the fair behaviour
        /\ WF_vars(TimeoutHeader) /\ WF_vars(TimeoutBlock)

Spec == Init /\ [][Next]_vars /\ Fair

--------------------------------------------------------------------------------
TypeOK == /\ hdrH \in 0..Target /\ blkH \in 0..Target
          /\ fh \subseteq (1..(Target + 1)) \X Peers
          /\ fb \subseteq Heights \X Peers \X {"c", "x"}
          /\ cache \subseteq Heights \X Peers \X Quality
          /\ nodes \subseteq Peers

\* the ledger never runs ahead of its headers; both only grow
BlocksBehindHeaders == blkH <= hdrH
Monotone == [][hdrH' >= hdrH /\ blkH' >= blkH /\ blkH' <= blkH + 1]_vars
\* the forward window syncHeader enforces (one batch may overshoot it)
ForwardWindow == hdrH - blkH < MaxFwd + HdrBatch
\* one cache slot per height, and nothing beyond the first unknown header
CacheFunctional == \A e1, e2 \in cache : e1[1] = e2[1] => e1 = e2
CacheWindow == \A e \in cache : e[1] <= hdrH + 1
\* at most one header request in flight
OneHeaderFlight == Cardinality(fh) <= 1
\* a peer struck off for errors is never asked again until it reconnects
NoRequestToRemoved == [][\A f \in fb' \ fb : f[2] \in nodes']_vars

\* Candidate bounds the code does NOT guarantee (kept to let TLC show why):
FlightBound == Cardinality(fb) <= MaxFlightBlk          \* violated: saveBlock re-requests ignore the limit
CacheBound  == Cardinality(cache) <= MaxCache           \* violated: OnBlockReceive never tests the cache size

\* progress: with fair honest peers the ledger reaches the tip once the faults stop
Progress == <>[](blkH = Target)
=====================================================================================
