SPECIFICATION Spec
CONSTANTS NV = 4
          Mode = "C35"
          Areas = {"sc"}
          AltSp = TRUE
          MaxView = 1
          MaxHeight = 1
          MaxId = 2
          MaxSigns = 3
          NWho = 1
          Rich = TRUE
          EmitOn = TRUE
VIEW View
CONSTRAINT Bound
INVARIANT PropAll
INVARIANT TypeOK
CHECK_DEADLOCK FALSE
