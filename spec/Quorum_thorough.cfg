SPECIFICATION Spec
CONSTANTS MaxN = 10000
          MaxV = 10
          EmitOn = TRUE
INVARIANT PropC42
CHECK_DEADLOCK FALSE
