SPECIFICATION Spec
CONSTANTS Powers <- PowersSmall
          MaxH = 2
          Mode = "edge"
          TableSets = {}
          Pairs = FALSE
          AbsenceAccepted = TRUE
          RepeatCounts = FALSE
          EmitOn = FALSE
VIEW View
INVARIANT PropC30
CHECK_DEADLOCK FALSE
