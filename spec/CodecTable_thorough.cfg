SPECIFICATION Spec
CONSTANTS Tier = "thorough"
          EmitOn = TRUE
INVARIANT PropC01
CHECK_DEADLOCK FALSE
