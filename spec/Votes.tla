------------------------------- MODULE Votes -------------------------------
(***************************************************************************)
(* C25 - vote-based approvals fire exactly once at two thirds.             *)
(*   consensus_vote.CheckVotes   (vote router and ripple router deposits,  *)
(*                                through ImportExTransfer)                *)
(*   signature_manager.CheckSigns (AddSignature, quorum event)             *)
(*                                                                         *)
(* Implementation-shaped state (what the contracts store):                 *)
(*   cons        current consensus validators (peer pool of the view)      *)
(*   voted[id]   addresses recorded for the subject id                     *)
(*   status[id]  the Status flag of the record                             *)
(* Vote(id, a) transcribes the two functions (Mode "vote": Status checked  *)
(* first, so late votes - even by outsiders - are ignored without error;   *)
(* Mode "sig": membership first, signers keep being recorded after the     *)
(* quorum, shouldEmit = ~Status).  Epoch(S) replaces the validator set.    *)
(*                                                                         *)
(* Monitor (PropC25) is stated over the observation history only:          *)
(*   mv[id]   addresses that voted while being consensus validators        *)
(*   relc[id] number of releases (quorum events) observed                  *)
(* A vote by a releases id  <=>  a is a current validator, id has not been *)
(* released yet, and |(mv[id] + a) /\ cons| >= ceil(2N/3), N = |cons|.     *)
(* Hence: outsiders never count nor release, a validator counts once       *)
(* (sets), the release happens exactly once and at the first vote after    *)
(* which the count of distinct current validators reaches the threshold.   *)
(*                                                                         *)
(* Binding: P-EDGE (VIEW hides history and the monitor's variables) on the *)
(* real entrance / AddSignature, P-VALIDATE of random histories for        *)
(* validator sets of 1..10 (TraceVotes.tla).                               *)
(***************************************************************************)
EXTENDS Integers, Sequences, FiniteSets, TLC, Json

CONSTANTS Addrs,      \* every address that may submit a vote (validators of some epoch and outsiders)
          EpochSets,  \* the validator sets the chain may switch to
          InitCons,   \* the first validator set
          Ids,        \* subjects (messages / signature subjects)
          Mode,       \* "vote" | "sig"
          EmitOn      \* TRUE: print every edge

VARIABLES cons, voted, status, mv, relc, obs, hist

vars == <<cons, voted, status, mv, relc, obs, hist>>
View == <<cons, voted, status>>

Thr(n) == (2 * n + 2) \div 3
Count(S) == Cardinality(S \cap cons)

Record(step) ==
    /\ obs' = step
    /\ hist' = IF EmitOn THEN Append(hist, step) ELSE hist
    /\ (~EmitOn \/ PrintT(<<"EDGE", ToJson([h |-> hist, step |-> step,
                                           post |-> [cons |-> cons', voted |-> voted', status |-> status']])>>))

Init == /\ cons = InitCons
        /\ voted = [i \in Ids |-> {}] /\ status = [i \in Ids |-> FALSE]
        /\ mv = [i \in Ids |-> {}] /\ relc = [i \in Ids |-> 0]
        /\ obs = [act |-> "init"] /\ hist = <<>>

\* what the monitor remembers of a vote event
Monitor(id, a, rel) ==
    /\ mv' = IF a \in cons THEN [mv EXCEPT ![id] = @ \cup {a}] ELSE mv
    /\ relc' = IF rel THEN [relc EXCEPT ![id] = @ + 1] ELSE relc

VoteV(id, a) ==   \* consensus_vote.CheckVotes
    IF status[id]
    THEN /\ UNCHANGED <<cons, voted, status>> /\ Monitor(id, a, FALSE)
         /\ Record([act |-> "vote", id |-> id, a |-> a, err |-> FALSE, rel |-> FALSE])
    ELSE IF a \notin cons
    THEN /\ UNCHANGED <<cons, voted, status>> /\ Monitor(id, a, FALSE)
         /\ Record([act |-> "vote", id |-> id, a |-> a, err |-> TRUE, rel |-> FALSE])
    ELSE LET v2  == voted[id] \cup {a}
             rel == Count(v2) >= Thr(Cardinality(cons))
         IN /\ voted' = [voted EXCEPT ![id] = v2]
            /\ status' = [status EXCEPT ![id] = rel]
            /\ UNCHANGED cons /\ Monitor(id, a, rel)
            /\ Record([act |-> "vote", id |-> id, a |-> a, err |-> FALSE, rel |-> rel])

VoteS(id, a) ==   \* signature_manager.CheckSigns
    IF a \notin cons
    THEN /\ UNCHANGED <<cons, voted, status>> /\ Monitor(id, a, FALSE)
         /\ Record([act |-> "vote", id |-> id, a |-> a, err |-> TRUE, rel |-> FALSE])
    ELSE LET v2   == voted[id] \cup {a}
             reached == Count(v2) >= Thr(Cardinality(cons))
             rel  == reached /\ ~status[id]
         IN /\ voted' = [voted EXCEPT ![id] = v2]
            /\ status' = [status EXCEPT ![id] = @ \/ reached]
            /\ UNCHANGED cons /\ Monitor(id, a, rel)
            /\ Record([act |-> "vote", id |-> id, a |-> a, err |-> FALSE, rel |-> rel])

Vote(id, a) == IF Mode = "vote" THEN VoteV(id, a) ELSE VoteS(id, a)

Epoch(S) == /\ S # cons /\ cons' = S
            /\ UNCHANGED <<voted, status, mv, relc>>
            /\ Record([act |-> "epoch", cons |-> S])

Next == \/ \E id \in Ids, a \in Addrs : Vote(id, a)
        \/ \E S \in EpochSets : Epoch(S)

Spec == Init /\ [][Next]_vars

(* monitor *****************************************************************)
Due(id, a) == /\ a \in cons /\ relc[id] = 0
              /\ Cardinality((mv[id] \cup {a}) \cap cons) >= Thr(Cardinality(cons))

PropC25 == [][obs'.act = "vote" => obs'.rel = Due(obs'.id, obs'.a)]_vars
OnceC25 == \A i \in Ids : relc[i] <= 1

\* ceil(2N/3) for every size (the code writes (2*sum+2)/3)
ThrOK == \A n \in 1..10000 : 3 * Thr(n) >= 2 * n /\ 3 * (Thr(n) - 1) < 2 * n
ASSUME ThrOK
=============================================================================
