---------------------------- MODULE TraceTxExec ----------------------------
(***************************************************************************)
(* P-VALIDATE for C15 and C16: observations recorded from the real code.   *)
(*                                                                         *)
(* "block" event (C15): one real execution of a block of probe             *)
(*   transactions: the scripts, the prior state projected from the real    *)
(*   ledger, and what the real code produced (per-transaction state and    *)
(*   notifications, read log, cross hashes, write set; for submitted       *)
(*   blocks also the state read back afterwards and whether the event      *)
(*   store returns the announced events).  The monitor of TxExecMon judges *)
(*   it; the verdict (set of violated clauses) is printed per event, so    *)
(*   one run judges every recorded block (a known finding would otherwise  *)
(*   stop the run at its first occurrence).                                *)
(* "exec" event (C16): state id, block id and result digest of one real    *)
(*   execution.  memo is set by the first execution of a (state, block)    *)
(*   pair; every later one must log memo's digest, else the pair is        *)
(*   printed as NONDET.                                                    *)
(* PropC15 / PropC16 over the trace = no VERDICT / NONDET line.            *)
(***************************************************************************)
EXTENDS TxExecMon, TLC, TLCExt, Json
VARIABLES l, memo, bad15, bad16
tvars == <<l, memo, bad15, bad16>>
TraceLog == ndJsonDeserialize("trace.ndjson")
Ev == TraceLog[l]
IsEvent(e) == l <= Len(TraceLog) /\ Ev.ev = e /\ l' = l + 1

LayerOf(ents, dflt) ==
    [fk \in FullKeys |-> IF \E i \in 1..Len(ents) : <<ents[i].c, ents[i].k>> = fk
                         THEN ents[CHOOSE i \in 1..Len(ents) : <<ents[i].c, ents[i].k>> = fk].v
                         ELSE dflt]
Foreign(ents) == \E i \in 1..Len(ents) : <<ents[i].c, ents[i].k>> \notin FullKeys

Verdict(e) ==
    LET store == LayerOf(e.prior, Tomb)
        ws    == LayerOf(e.obs.ws, NoEnt)
        obs   == [txs |-> e.obs.txs, xh |-> e.obs.xh, ws |-> ws]
        n     == Len(e.blk)
    IN  Violations15(e.blk, n, store, 0, obs)
        \cup If(Foreign(e.obs.ws) \/ e.foreign, <<"foreign-write", 0>>)
        \cup (IF e.submitted
              THEN If(LayerOf(e.post, Tomb) # [fk \in FullKeys |-> Resolve(ws[fk], store, fk)], <<"persisted-state", 0>>)
                   \cup If(~e.evok, <<"persisted-events", 0>>)
              ELSE {})

TBlock == /\ IsEvent("block")
          /\ LET V == Verdict(Ev)
             IN /\ bad15' = bad15 + (IF V = {} THEN 0 ELSE 1)
                /\ (IF V = {} THEN TRUE ELSE PrintT(<<"VERDICT", ToJson([i |-> l, v |-> V])>>))
          /\ UNCHANGED <<memo, bad16>>

Known(s, b) == \E m \in memo : m.s = s /\ m.b = b
MemoOf(s, b) == (CHOOSE m \in memo : m.s = s /\ m.b = b).d
TExec == /\ IsEvent("exec")
         /\ IF ~Known(Ev.s, Ev.b)
            THEN memo' = memo \cup {[s |-> Ev.s, b |-> Ev.b, d |-> Ev.d]} /\ UNCHANGED bad16
            ELSE /\ UNCHANGED memo
                 /\ IF MemoOf(Ev.s, Ev.b) = Ev.d THEN UNCHANGED bad16
                    ELSE /\ bad16' = bad16 + 1
                         /\ PrintT(<<"NONDET", ToJson([i |-> l, s |-> Ev.s, b |-> Ev.b])>>)
         /\ UNCHANGED bad15

TraceInit == TLCSet(1, 1) /\ l = 1 /\ memo = {} /\ bad15 = 0 /\ bad16 = 0
TraceNext == TBlock \/ TExec
TraceSpec == TraceInit /\ [][TraceNext]_tvars
HighWater == TLCSet(1, IF TLCGet(1) < l THEN l ELSE TLCGet(1))
Accepted == PrintT(<<"HIGHWATER", TLCGet(1)>>) /\ TLCGet(1) = Len(TraceLog) + 1
PropC15 == bad15 = 0
PropC16 == bad16 = 0
=============================================================================
