SPECIFICATION Spec
CONSTANTS Tx = {"t1", "t2", "t3"}
          MaxH = 1
          MAXTX = 2
          CAP = 2
          LIMIT = 2
          PreExec = TRUE
          Eager = FALSE
          Acts = {"admit", "rsp", "getpool", "verifyblock", "blocksaved"}
          ListLen = 2
          Depth = 0
          EmitOn = FALSE
VIEW View
INVARIANT TypeOK
INVARIANT CapLoose
CHECK_DEADLOCK FALSE
