----------------------------- MODULE OntNeoSync -----------------------------
(***************************************************************************)
(* C31 - Ontology and NEO / NEO N3 light clients follow authenticated       *)
(* validator changes.  EXTENDS OntNeo (signature rules shared with C24).    *)
(*                                                                         *)
(* Chain = "ont"  (header_sync/ont)                                         *)
(*   state  stored : set of heights with a stored header                   *)
(*          peers  : height -> id of the peer set announced there (0: none) *)
(*                   key heights = {h : peers[h] # 0}; the code keeps them  *)
(*                   sorted descending on store and FindKeyHeight returns   *)
(*                   the first one STRICTLY below the header's height       *)
(*   header [h, cfg, bks, sigs]: cfg = id of the announced peer set or 0;   *)
(*          bks / sigs as in OntNeoMsg (identities; 0 = invalid signature)  *)
(*   SyncBlockHeader(batch): headers in order; a stored height is skipped;  *)
(*          any failing header fails the whole call (nothing is kept).      *)
(*                                                                         *)
(* Chain = "neo"  (header_sync/neo, neo3: same shape)                       *)
(*   state  nh, nc : tracked height and id of the next-consensus script     *)
(*   header [h, cfg, ws, sigs]: cfg = id of the script named NextConsensus, *)
(*          ws = id of the script offered in the witness, by = id of the    *)
(*          script whose keys produced the signatures (scripts have         *)
(*          disjoint keys), sigs = signers in invocation order (positions   *)
(*          in the key list of script `by`; n+1 = a stranger, 0 = invalid)  *)
(*   SyncBlockHeader(batch): every header with another NextConsensus and a  *)
(*          greater index is verified against the consensus tracked AT THE  *)
(*          START of the call; the last one wins.                           *)
(*                                                                         *)
(* Monitor (PropC31): the post-state of every call is reachable from the    *)
(* pre-state by JUSTIFIED steps over the submitted headers.                 *)
(* Binding: P-EDGE (VIEW hides hist).                                       *)
(***************************************************************************)
EXTENDS OntNeo, TLC, Json

CONSTANTS Chain,      \* "ont" | "neo"
          MaxH,       \* header heights 1..MaxH (genesis at 0)
          Pairs,      \* two-header batches from the initial state
          EmitOn

VARIABLES st, hist
vars == <<st, hist>>

(* peer sets / scripts: id -> members.  ont: genesis announces set 1.        *)
(* neo: script id -> [n keys, threshold m]; genesis tracks script 1.         *)
OntSets == <<{1, 2, 3, 4}, {4, 5, 6, 7, 8, 9, 10}>>
NeoScripts == <<[n |-> 4, m |-> 3], [n |-> 1, m |-> 1], [n |-> 7, m |-> 5]>>
SetIds == IF Chain = "ont" THEN DOMAIN OntSets ELSE DOMAIN NeoScripts
Hs == 1..MaxH

(***************************** Ontology ************************************)
KeyHeights(s) == {h \in DOMAIN s.peers : s.peers[h] # 0}
KeyHeightBelow(s, h) == LET K == {k \in KeyHeights(s) : k < h} IN IF K = {} THEN -1 ELSE CHOOSE k \in K : \A j \in K : j <= k
PeersAt(s, h) == OntSets[s.peers[KeyHeightBelow(s, h)]]

OntGuardsFail(P, bks, sigs) ==
    (IF 3 * Len(bks) < Cardinality(P) THEN {"short"} ELSE {})
    \cup (IF \E i \in DOMAIN bks : bks[i] \notin P THEN {"foreign"} ELSE {})
    \cup (IF HasDup(bks) THEN {"dup"} ELSE {})
    \cup (IF ~OntMultiSig(bks, sigs) THEN {"sig"} ELSE {})
OntVerify(s, hdr) == KeyHeightBelow(s, hdr.h) >= 0 /\ OntGuardsFail(PeersAt(s, hdr.h), hdr.bks, hdr.sigs) = {}
OntApply(s, hdr) == [stored |-> s.stored \cup {hdr.h},
                     peers |-> IF hdr.cfg # 0 THEN [s.peers EXCEPT ![hdr.h] = hdr.cfg] ELSE s.peers]
RECURSIVE OntFold(_, _, _)
OntFold(batch, i, s) ==
    IF i > Len(batch) THEN [ok |-> TRUE, st |-> s]
    ELSE IF batch[i].h \in s.stored THEN OntFold(batch, i + 1, s)
    ELSE IF ~OntVerify(s, batch[i]) THEN [ok |-> FALSE, st |-> s]
    ELSE OntFold(batch, i + 1, OntApply(s, batch[i]))
(* monitor: one third of the DISTINCT members of the set at the greatest key height below *)
OntJustified(s, hdr) ==
    /\ hdr.h \notin s.stored /\ KeyHeightBelow(s, hdr.h) >= 0
    /\ LET P == PeersAt(s, hdr.h)
           D == {v \in P : \E i \in DOMAIN hdr.sigs : hdr.sigs[i] = v}
       IN 3 * Cardinality(D) >= Cardinality(P)

(******************************* NEO ***************************************)
NeoVerify(s, hdr) == hdr.ws = s.nc /\ hdr.by = s.nc /\ NeoMultiSig(NeoScripts[s.nc].n, NeoScripts[s.nc].m, hdr.sigs)
RECURSIVE NeoFold(_, _, _, _)
NeoFold(batch, i, s0, cur) ==      \* s0: consensus at the start of the call; cur: pending replacement
    IF i > Len(batch) THEN [ok |-> TRUE, st |-> cur]
    ELSE LET hdr == batch[i] IN
         IF hdr.cfg # s0.nc /\ hdr.h > s0.nh
         THEN IF NeoVerify(s0, hdr) THEN NeoFold(batch, i + 1, s0, [nh |-> hdr.h, nc |-> hdr.cfg])
              ELSE [ok |-> FALSE, st |-> s0]
         ELSE NeoFold(batch, i + 1, s0, cur)
NeoJustified(s, hdr) ==
    /\ hdr.h > s.nh /\ hdr.ws = s.nc /\ hdr.by = s.nc
    /\ Cardinality(ValidTrackedSigners(NeoScripts[s.nc].n, hdr.sigs)) >= NeoScripts[s.nc].m
NeoApply(s, hdr) == [nh |-> hdr.h, nc |-> hdr.cfg]

(***************************** common **************************************)
Justified(s, hdr) == IF Chain = "ont" THEN OntJustified(s, hdr) ELSE NeoJustified(s, hdr)
Apply(s, hdr) == IF Chain = "ont" THEN OntApply(s, hdr) ELSE NeoApply(s, hdr)
RECURSIVE Reach(_, _)
Reach(s, hdrs) == {s} \cup UNION {Reach(Apply(s, x), hdrs \ {x}) : x \in {y \in hdrs : Justified(s, y)}}
Result(batch, s) == LET r == IF Chain = "ont" THEN OntFold(batch, 1, s) ELSE NeoFold(batch, 1, s, s)
                    IN IF r.ok THEN r ELSE [ok |-> FALSE, st |-> s]

(* header menu *************************************************************)
OntHdr(h, cfg, bks, sigs) == [h |-> h, cfg |-> cfg, ws |-> 0, by |-> 0, bks |-> bks, sigs |-> sigs]
NeoHdr(h, cfg, ws, by, sigs) == [h |-> h, cfg |-> cfg, ws |-> ws, by |-> by, bks |-> <<>>, sigs |-> sigs]
Need3(P) == (Cardinality(P) + 2) \div 3
FirstK(P, k) == SubSeq(SetToSeq(P), 1, k)
(* representative signer lists relative to the set P that must sign and a   *)
(* rival set Q (the other announced set): <<bks, sigs>> pairs               *)
OntSigners(P, Q) ==
    LET k == Need3(P)
        all == SetToSeq(P)
        out == SetToSeq(Q \ P)
    IN {<<all, all>>, <<FirstK(P, k), FirstK(P, k)>>, <<FirstK(P, k - 1), FirstK(P, k - 1)>>,
        <<Rev(FirstK(P, k)), FirstK(P, k)>>,
        <<Rep(all[1], k), Rep(all[1], k)>>,                                     \* one member k times
        <<Append(FirstK(P, k - 1), all[1]), Append(FirstK(P, k - 1), all[1])>>, \* right count with one duplicate
        <<Append(FirstK(P, k - 1), out[1]), Append(FirstK(P, k - 1), out[1])>>, \* right count with one outsider
        <<FirstK(Q, Need3(Q)), FirstK(Q, Need3(Q))>>,                           \* a quorum of the rival set
        <<FirstK(P, k), ReplaceAt(FirstK(P, k), k, 0)>>,                        \* one bad signature
        <<FirstK(P, k), FirstK(P, k - 1)>>,                                     \* one signature missing
        <<all, ReplaceAt(all, 1, 0)>>}
OntHeaders(s) ==
    UNION {LET kh == KeyHeightBelow(s, h)
               P == IF kh >= 0 THEN OntSets[s.peers[kh]] ELSE OntSets[1]
               Q == IF P = OntSets[1] THEN OntSets[2] ELSE OntSets[1]
           IN {OntHdr(h, cfg, x[1], x[2]) : cfg \in {0} \cup SetIds, x \in OntSigners(P, Q)}
           : h \in Hs}
NeoSigners(n, m) ==
    {SetToSeq(1..n), SetToSeq(1..m), SetToSeq(1..(m - 1)), SetToSeq((n - m + 1)..n), Rev(SetToSeq(1..m)),
     Rep(1, m), ReplaceAt(SetToSeq(1..m), m, 0), ReplaceAt(SetToSeq(1..m), m, n + 1),
     IF m >= 2 THEN ReplaceAt(SetToSeq(1..m), m, m - 1) ELSE <<1>>, <<>>}
NeoHeaders(s) ==
    {NeoHdr(h, cfg, ws, s.nc, sg) : h \in Hs, cfg \in SetIds, ws \in SetIds,
                              sg \in NeoSigners(NeoScripts[s.nc].n, NeoScripts[s.nc].m)}
    \* the witness of a rival script, fully signed by the rival's own keys (positions of the rival script)
    \cup {NeoHdr(h, cfg, ws, ws, SetToSeq(1..NeoScripts[ws].n)) : h \in Hs, cfg \in SetIds, ws \in SetIds \ {s.nc}}
Headers(s) == IF Chain = "ont" THEN OntHeaders(s) ELSE NeoHeaders(s)
(* reduced menu for pairs: well-signed headers by either set *)
PairHeaders(s) ==
    IF Chain = "ont"
    THEN {OntHdr(h, cfg, FirstK(OntSets[p], Need3(OntSets[p])), FirstK(OntSets[p], Need3(OntSets[p]))) : h \in Hs, cfg \in {0} \cup SetIds, p \in SetIds}
    ELSE {NeoHdr(h, cfg, ws, ws, SetToSeq(1..NeoScripts[ws].m)) : h \in Hs, cfg \in SetIds, ws \in SetIds}

Emit(batch, res) ==
    ~EmitOn \/ PrintT(<<"EDGE", ToJson([chain |-> Chain, hist |-> hist, src |-> st, call |-> batch, ok |-> res.ok, post |-> res.st,
                                          allowed |-> Reach(st, {batch[i] : i \in DOMAIN batch}),
                                          just |-> [i \in DOMAIN batch |-> Justified(st, batch[i])]])>>)
Sync(batch) == LET res == Result(batch, st)
               IN /\ st' = res.st
                  /\ hist' = IF res.st # st THEN Append(hist, batch) ELSE hist
                  /\ Emit(batch, res)

InitState == IF Chain = "ont" THEN [stored |-> {0}, peers |-> [h \in 0..MaxH |-> IF h = 0 THEN 1 ELSE 0]]
             ELSE [nh |-> 0, nc |-> 1]
Init == st = InitState /\ hist = <<>>
Next == \/ \E hdr \in Headers(st) : Sync(<<hdr>>)
        \/ (Pairs /\ hist = <<>> /\ \E a \in PairHeaders(st), b \in PairHeaders(st) : Sync(<<a, b>>))
Spec == Init /\ [][Next]_vars
View == st

(* PropC31 on the design: every call of the menu stays inside the monitor *)
PropC31 ==
    /\ \A hdr \in Headers(st) : Result(<<hdr>>, st).st \in Reach(st, {hdr})
    /\ (Pairs /\ hist = <<>>) => \A a \in PairHeaders(st), b \in PairHeaders(st) : Result(<<a, b>>, st).st \in Reach(st, {a, b})
NeoHeightMonotone == [][Chain = "neo" => st'.nh >= st.nh]_vars
=============================================================================
