\* C23 EvmProof: canonical chain 200..206, BlocksToWait 1, fork header at 203, deposits in the canonical state from 203
SPECIFICATION Spec
CONSTANTS Mode = "chain"
          G0 = 200
          Best = 206
          Wait = 1
          ForkAt = 203
          DepositAt = 203
          LeadZ = 1
          Heights = {199, 200, 202, 203, 204, 205, 206, 207}
          EmitOn = TRUE
INVARIANT PropC23
CHECK_DEADLOCK FALSE
