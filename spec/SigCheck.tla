------------------------------ MODULE SigCheck ------------------------------
(***************************************************************************)
(* C39 - transaction signature validation is exact                         *)
(* (core/validation/transaction_validator.go checkTransactionSignatures,   *)
(*  core/signature VerifyMultiSignature, core/types/address.go,            *)
(*  Transaction.GetSignatureAddresses).                                    *)
(*                                                                         *)
(* Abstract transaction: a sequence of signature entries                   *)
(*    e = [keys, m, sigs]                                                  *)
(*    keys  sequence of key ids (repeats allowed)                          *)
(*    m     the entry's M field                                            *)
(*    sigs  sequence of signature tokens: k > 0 = a valid signature of key *)
(*          k over THIS transaction's hash, 0 = anything else              *)
(*                                                                         *)
(* Implementation-shaped part                                              *)
(*    EntryOK   parameter test (kn <= 16, sn >= m, 1 <= m <= kn), then     *)
(*              kn = 1: the FIRST signature against the key; else the      *)
(*              first m signatures matched greedily, in key order, to      *)
(*              not-yet-used key POSITIONS (VerifyMultiSignature's mask)   *)
(*    TxOK      at most 16 entries, all of them EntryOK                    *)
(*    Addrs     the set of entry addresses: single key -> address of the   *)
(*              key; otherwise address of (sorted key list, m)             *)
(* Monitor part                                                            *)
(*    EntryDecl the declarative reading: there is an injective assignment  *)
(*              of the first m signatures to key positions they are valid  *)
(*              for.  PropC39 (TLC): EntryOK = EntryDecl on the whole      *)
(*              domain, i.e. the greedy mask loses nothing.                *)
(*    EntryLoose the most permissive reading of "valid signatures from m   *)
(*              distinct listed keys": ANY m of the entry's signatures.    *)
(*              Rows where Decl and Loose differ (a good signature hidden  *)
(*              behind a bad one) may legitimately go either way; on all   *)
(*              other rows the verdict of the code must equal the spec.    *)
(* Wording decision (notes/code-facts.md): "distinct listed keys" means    *)
(* distinct POSITIONS of the key list; a key listed twice counts twice     *)
(* (the address commits to the list with its repeats).                     *)
(***************************************************************************)
EXTENDS Integers, Sequences, FiniteSets, TLC, Json

CONSTANTS Part,      \* "entry" | "multi" | "boundary" | "all"
          KeyIds,    \* key ids of the exhaustive entry domain, e.g. 1..2
          Outsider,  \* id of a key that is never listed
          MaxLen,    \* longest key / signature list of the exhaustive domain
          EmitOn

VARIABLES tx, phase
vars == <<tx, phase>>

MaxKeys    == 16     \* constants.MULTI_SIG_MAX_PUBKEY_SIZE
MaxEntries == 16     \* constants.TX_MAX_SIG_SIZE

SetOf(s) == {s[i] : i \in 1..Len(s)}
Min(S)   == CHOOSE x \in S : \A y \in S : x <= y
RECURSIVE SortKeys(_)
SortKeys(s) == IF Len(s) = 0 THEN <<>>
               ELSE LET mn == Min(SetOf(s))
                        i  == CHOOSE k \in 1..Len(s) : s[k] = mn
                    IN <<mn>> \o SortKeys(SubSeq(s, 1, i - 1) \o SubSeq(s, i + 1, Len(s)))
Seq1(k) == [i \in 1..k |-> i]
SmallSeqs(U, L) == UNION {[1..k -> U] : k \in 0..L}
Count(s, v) == Cardinality({i \in 1..Len(s) : s[i] = v})
Min2(a, b) == IF a <= b THEN a ELSE b
RECURSIVE SumOver(_, _, _)
SumOver(S, sg, ks) == IF S = {} THEN 0
                      ELSE LET v == Min(S) IN Min2(Count(sg, v), Count(ks, v)) + SumOver(S \ {v}, sg, ks)

(* ------------------------------------------------- implementation-shaped *)
RECURSIVE Greedy(_, _, _, _, _)
Greedy(ks, sg, m, i, mask) ==
  IF i > m THEN TRUE
  ELSE LET js == {j \in 1..Len(ks) : j \notin mask /\ sg[i] # 0 /\ sg[i] = ks[j]}
       IN IF js = {} THEN FALSE ELSE Greedy(ks, sg, m, i + 1, mask \cup {Min(js)})

ParamsOK(e) == LET kn == Len(e.keys) IN kn <= MaxKeys /\ Len(e.sigs) >= e.m /\ e.m <= kn /\ e.m >= 1
EntryOK(e)  == /\ ParamsOK(e)
               /\ IF Len(e.keys) = 1 THEN e.sigs[1] # 0 /\ e.sigs[1] = e.keys[1]
                                     ELSE Greedy(e.keys, e.sigs, e.m, 1, {})
TxOK(t)     == Len(t) <= MaxEntries /\ \A i \in 1..Len(t) : EntryOK(t[i])

Addr(e)  == IF Len(e.keys) = 1 THEN [t |-> "K", ks |-> e.keys, m |-> 1]
                               ELSE [t |-> "M", ks |-> SortKeys(e.keys), m |-> e.m]
Addrs(t) == {Addr(t[i]) : i \in 1..Len(t)}

(* ---------------------------------------------------------------- monitor *)
Injective(f, D) == \A a, b \in D : a # b => f[a] # f[b]
FirstM(e) == SubSeq(e.sigs, 1, e.m)
(* literal form: an injective assignment of the first m signatures to key positions they are valid for *)
MatchF(e) == \E f \in [1..e.m -> 1..Len(e.keys)] :
                Injective(f, 1..e.m) /\ \A i \in 1..e.m : e.sigs[i] # 0 /\ e.sigs[i] = e.keys[f[i]]
(* counting form (a signature fits exactly the positions holding its key, so Hall's condition is per key value) *)
MatchC(e) == /\ \A i \in 1..e.m : e.sigs[i] # 0 /\ e.sigs[i] \in SetOf(e.keys)
             /\ \A v \in SetOf(e.keys) : Count(FirstM(e), v) <= Count(e.keys, v)
EntryDecl(e) ==
  /\ ParamsOK(e)
  /\ IF Len(e.keys) = 1 THEN e.sigs[1] # 0 /\ e.sigs[1] = e.keys[1]
     ELSE IF Len(e.keys) <= 4 THEN MatchF(e) ELSE MatchC(e)
EntryLoose(e) ==
  /\ ParamsOK(e)
  /\ SumOver(SetOf(e.keys), e.sigs, e.keys) >= e.m
TxDecl(t)  == Len(t) <= MaxEntries /\ \A i \in 1..Len(t) : EntryDecl(t[i])
TxLoose(t) == Len(t) <= MaxEntries /\ \A i \in 1..Len(t) : EntryLoose(t[i])

(* ---------------------------------------------------------------- domains *)
MSet(n) == {0, 1, n, n + 1}
EntryRoots == {[keys |-> ks, m |-> mm] : ks \in SmallSeqs(KeyIds, MaxLen), mm \in 0..(MaxLen + 1)}

E(ks, mm, sg) == [keys |-> ks, m |-> mm, sigs |-> sg]
Rep == << E(<<1>>, 1, <<1>>), E(<<2>>, 1, <<2>>), E(<<1>>, 1, <<0>>), E(<<1, 2>>, 2, <<1, 2>>),
          E(<<1, 2>>, 1, <<2>>), E(<<2, 1>>, 2, <<2, 1>>), E(<<1, 2>>, 2, <<1>>), E(<<1, 2>>, 0, <<>>) >>
MultiRows == {<<>>} \cup {<<Rep[a], Rep[b]>> : a, b \in 1..Len(Rep)}
             \cup {<<Rep[a], Rep[b], Rep[c]>> : a, b, c \in 1..Len(Rep)}

Singles(k) == [i \in 1..k |-> E(<<i>>, 1, <<i>>)]
BoundaryRows ==
  {<<E(Seq1(16), mm, Seq1(mm))>> : mm \in {1, 11, 16}}
  \cup {<<E(Seq1(16), 17, Seq1(16) \o <<1>>)>>, <<E(Seq1(16), 16, Seq1(16) \o <<0>>)>>,
        <<E(Seq1(16), 16, [i \in 1..16 |-> 17 - i])>>,                  \* signatures in reverse key order
        <<E(Seq1(16), 16, [Seq1(16) EXCEPT ![16] = 0])>>,
        <<E(Seq1(15) \o <<1>>, 16, Seq1(15) \o <<1>>)>>,                 \* 16 positions, key 1 twice
        <<E(Seq1(17), 1, <<1>>)>>, <<E(Seq1(17), 17, Seq1(17))>>, <<E(Seq1(17), 11, Seq1(11))>>}
  \cup {Singles(16), Singles(17), Singles(15) \o <<E(<<16>>, 1, <<0>>)>>, [i \in 1..17 |-> E(<<1>>, 1, <<1>>)],
        [i \in 1..16 |-> E(<<1>>, 1, <<1>>)], Singles(15) \o <<E(<<1, 2>>, 2, <<1, 2>>)>>,
        Singles(16) \o <<E(<<1>>, 1, <<0>>)>>}

Out(t) == [tx |-> t, exp |-> TxOK(t), decl |-> TxDecl(t), loose |-> TxLoose(t), addrs |-> Addrs(t)]

(* ------------------------------------------------------------------ spec *)
(* "entry": roots are (keys, m); one successor per signature list, so that TLC's workers share the work *)
Init == \/ /\ Part \in {"entry", "all"} /\ tx \in EntryRoots /\ phase = "root"
        \/ /\ Part \in {"multi", "all"} /\ tx \in MultiRows /\ phase = "row"
        \/ /\ Part \in {"boundary", "all"} /\ tx \in BoundaryRows /\ phase = "row"

Expand == /\ phase = "root" /\ phase' = "done"
          /\ tx.m \in MSet(Len(tx.keys))
          /\ \E sg \in SmallSeqs({0} \cup KeyIds \cup {Outsider}, MaxLen) :
               /\ tx' = <<E(tx.keys, tx.m, sg)>>
               /\ (~EmitOn \/ PrintT(<<"ROW", ToJson(Out(tx'))>>))
Decide == /\ phase = "row" /\ phase' = "done" /\ tx' = tx
          /\ (~EmitOn \/ PrintT(<<"ROW", ToJson(Out(tx))>>))
Next == Expand \/ Decide
Spec == Init /\ [][Next]_vars

PropC39 == phase # "root" =>
             /\ TxOK(tx) = TxDecl(tx)            \* the greedy mask decides exactly the declarative condition
             /\ (TxDecl(tx) => TxLoose(tx))
             /\ \A i \in 1..Len(tx) : (ParamsOK(tx[i]) /\ Len(tx[i].keys) \in 2..4) => (MatchF(tx[i]) = MatchC(tx[i]))
             /\ (TxOK(tx) => \A i \in 1..Len(tx) : Addr(tx[i]) \in Addrs(tx))
=============================================================================
