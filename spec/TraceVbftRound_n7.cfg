SPECIFICATION TraceSpec
CONSTANTS N = 7
          C = 2
          Props = {1, 2, 3}
          Endrs = {3, 4, 5, 6, 7}
          VerifyCarried = TRUE
          MaxMsgs = 100
          Alpha = {}
          EmitOn = FALSE
CONSTRAINT HighWater
POSTCONDITION Accepted
CHECK_DEADLOCK FALSE
