\* C29 PoSA: family bsc, chain configuration A (MCPoSA!SetsA), mode mc
SPECIFICATION Spec
CONSTANTS Family = "bsc"
          Epoch = 0
          CliqueFixed = FALSE
          Sets <- SetsA
          GenesisSigner = "c"
          G0 = 200
          Keys = {"a", "b", "c", "d", "x"}
          Diffs = {1, 2}
          Defects = {"mix"}
          MaxStored = 5
          MaxLen = 6
          EmitOn = FALSE
          Sprint = 0
          SpanEnd = 0
          TwoBranch = FALSE
          TraceLen = 0
VIEW View
INVARIANT PropC29
INVARIANT ModelSane
INVARIANT ModelEquiv
CHECK_DEADLOCK FALSE
