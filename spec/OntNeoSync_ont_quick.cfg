SPECIFICATION Spec
CONSTANTS Chain = "ont"
          MaxH = 3
          Pairs = TRUE
          EmitOn = TRUE
VIEW View
INVARIANT PropC31
PROPERTY NeoHeightMonotone
CHECK_DEADLOCK FALSE
