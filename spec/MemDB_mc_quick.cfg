SPECIFICATION Spec
CONSTANTS K = 4
          Vals = {"x", "yz"}
          WithCursor = TRUE
          EmitOn = FALSE
VIEW View
INVARIANT PropC09
CHECK_DEADLOCK FALSE
