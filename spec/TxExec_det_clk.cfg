SPECIFICATION Spec
CONSTANTS NTx = 2
          L1 = 2
          L2 = 1
          L3 = 0
          TopKeys = {"a", "b"}
          SubKeys = {"a"}
          PriorKeys = {"a"}
          TopOps = {"put", "notify", "clk"}
          SubOps = {"put", "get", "rec", "notify"}
          MinCalls = 0
          MaxCalls = 0
          CallTxs = 0
          SubMax = 1
          Depth = 0
          AllowCatch = FALSE
          RestoreOnError = TRUE
          Runs = 2
          Clock = {0, 1, 2}
          EmitOn = FALSE
INVARIANT PropC16
CHECK_DEADLOCK FALSE
