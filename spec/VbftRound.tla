----------------------------- MODULE VbftRound -----------------------------
(***************************************************************************)
(* C41  VBFT round decisions count distinct participants.                  *)
(*                                                                         *)
(* Implementation-shaped model of one consensus round of one node's        *)
(* consensus/vbft BlockPool (block_pool.go) and of getCommitConsensus      *)
(* (node_utils.go):                                                        *)
(*   props  the proposers whose proposal is pooled  (CandidateInfo.Proposals)*)
(*   es     endorser -> sequence of recorded signatures [p, e, g]           *)
(*          (CandidateInfo.EndorseSigs; g = the bytes are a genuine         *)
(*          signature of that endorser over block (p, e))                   *)
(*   cm     the pooled commit messages in arrival order (CommitMsgs)        *)
(* one action per message delivered to the pool (newBlockProposal,          *)
(* newBlockEndorsement, newBlockCommitment, each after the message's own    *)
(* Verify), derived decisions endorseDone / commitDone as SETS of           *)
(* admissible answers (Go map iteration order) and the signature list       *)
(* addSignaturesToBlockLocked would seal.                                   *)
(*                                                                         *)
(* Ground truth (what the participants really did, independent of the       *)
(* pool's bookkeeping):                                                     *)
(*   sigE   <<x, p, e, g>>: a verified message carried a signature slot of  *)
(*          participant x for block (p, e); g = TRUE iff x really signed    *)
(*   sigC   <<x, p, g>>: x appears as signer (committer or carried          *)
(*          endorser) in a verified commit message for proposer p           *)
(*   sigD   <<x, p, e>>: x itself sent a verified message for block (p, e)    *)
(* g = FALSE arises only for endorser entries inside a commit message:      *)
(* blockCommitMsg.Verify checks the committer's signature only.             *)
(*                                                                         *)
(* Monitor PropC41 = OkEnd /\ OkCom /\ OkSeal (the property, nothing more). *)
(* Named deviations of the code kept OUT of the monitor: empty-block        *)
(* endorsements are pooled over proposers (FIXME in endorseDone); the       *)
(* for-empty flag of the endorser-count path of commitDone depends on map   *)
(* order and counts non-endorsers' empty votes twice.                       *)
(***************************************************************************)
EXTENDS Integers, Sequences, FiniteSets, TLC, Json

CONSTANTS N, C,          \* chain config
          Props,         \* proposers of the round (subset of 1..N)
          Endrs,         \* configured endorsers (isEndorser)
          MaxMsgs,       \* history length bound
          Alpha,         \* message alphabet (set of Act records)
          VerifyCarried, \* FALSE: the code as it is (carried endorser entries of a commit message are taken unverified);
                         \* TRUE: entries that are not signatures of the named endorser are dropped on admission
                         \*       (patches/fix-C41-verify-carried-endorsements.patch)
          EmitOn

VARIABLES props, es, cm, sigE, sigC, sigD, hist

Peer == 1..N
F    == (N - 1) \div 3
NoAns == [p |-> 0, e |-> FALSE, d |-> FALSE]

vars == <<props, es, cm, sigE, sigC, sigD, hist>>

(* ---------------- addBlockEndorsementLocked ---------------- *)
HasEmpty(l)   == \E i \in 1..Len(l) : l[i].e
HasProp(l, p) == \E i \in 1..Len(l) : l[i].p = p
AddE(E, x, s, commitment) ==
    IF E[x] # <<>> /\ ~commitment
    THEN IF HasEmpty(E[x]) THEN E
         ELSE IF s.e THEN [E EXCEPT ![x] = Append(@, s)]
         ELSE IF HasProp(E[x], s.p) THEN E
         ELSE [E EXCEPT ![x] = Append(@, s)]
    ELSE [E EXCEPT ![x] = <<s>>]

RECURSIVE AddAll(_, _, _, _, _)
AddAll(E, S, p, e, Sg) ==
    IF S = {} THEN E
    ELSE LET x == CHOOSE y \in S : TRUE
         IN AddAll(AddE(E, x, [p |-> p, e |-> e, g |-> x \in Sg], FALSE), S \ {x}, p, e, Sg)

(* ---------------- endorseDone(blk, C): set of admissible answers ---------------- *)
Present(E) == {x \in Peer : E[x] # <<>>}
ZeroCnt == [p \in Props |-> 0]

RECURSIVE EDgo(_, _, _, _), EDlist(_, _, _, _, _, _)
EDgo(E, rem, cnt, emp) ==
    IF rem = {} THEN {NoAns}
    ELSE UNION {EDlist(E, E[x], 1, rem \ {x}, cnt, emp) : x \in rem}
EDlist(E, l, i, rem, cnt, emp) ==
    IF i > Len(l) THEN EDgo(E, rem, cnt, emp)
    ELSE LET s == l[i] IN
         IF s.e THEN IF emp + 1 > C THEN {[p |-> s.p, e |-> TRUE, d |-> TRUE]}
                     ELSE EDlist(E, l, i + 1, rem, cnt, emp + 1)
         ELSE IF cnt[s.p] + 1 > C THEN {[p |-> s.p, e |-> FALSE, d |-> TRUE]}
              ELSE EDlist(E, l, i + 1, rem, [cnt EXCEPT ![s.p] = @ + 1], emp)

\* totals over all recorded signatures (every iteration order ends with these counts unless it returned earlier)
TotFor(E, p) == Cardinality({x \in Peer : \E i \in 1..Len(E[x]) : ~E[x][i].e /\ E[x][i].p = p})
TotEmpty(E)  == Cardinality({x \in Peer : HasEmpty(E[x])})

EndorseDone(E) ==
    IF Cardinality(Present(E)) < C + 1 THEN {NoAns}
    ELSE IF TotEmpty(E) <= C /\ \A p \in Props : TotFor(E, p) <= C THEN {NoAns}   \* no order can trigger
    ELSE EDgo(E, Present(E), ZeroCnt, 0)

(* ---------------- getCommitConsensus(commitMsgs, C, N) ---------------- *)
RECURSIVE GCC(_, _, _, _, _)
GCC(M, i, ecc, flag, sc) ==
    IF i > Len(M) THEN NoAns
    ELSE LET m     == M[i]
             ecc2  == IF m.e THEN ecc + 1 ELSE ecc
             flag2 == flag \/ (m.e /\ ecc2 > C)
             sc2   == [sc EXCEPT ![m.p] = @ \cup {m.c} \cup m.S]
         IN IF Cardinality(sc2[m.p]) + 1 >= N - F
            THEN [p |-> m.p, e |-> flag2, d |-> TRUE]
            ELSE GCC(M, i + 1, ecc2, flag2, sc2)

(* ---------------- commitDone(blk, C, N) ---------------- *)
NEmpty(l) == Cardinality({i \in 1..Len(l) : l[i].e})
RECURSIVE CBgo(_, _, _, _), CBlist(_, _, _, _, _, _)
CBgo(E, rem, cnt, emp) ==
    IF rem = {} THEN {NoAns}
    ELSE UNION {CBlist(E, E[x], 1, rem \ {x}, cnt,
                       emp + (IF x \in Endrs THEN 0 ELSE NEmpty(E[x]))) : x \in rem}
CBlist(E, l, i, rem, cnt, emp) ==
    IF i > Len(l) THEN CBgo(E, rem, cnt, emp)
    ELSE LET s == l[i] IN
         IF s.e THEN CBlist(E, l, i + 1, rem, cnt, emp + 1)
         ELSE IF cnt[s.p] + 1 > N - 1 - C
              THEN {[p |-> s.p, e |-> emp > N - 1 - C, d |-> TRUE]}
              ELSE CBlist(E, l, i + 1, rem, [cnt EXCEPT ![s.p] = @ + 1], emp)

CommitDone(E, M) ==
    LET a == GCC(M, 1, 0, FALSE, [p \in Props |-> {}])
    IN IF a.d THEN {a}
       ELSE IF \A p \in Props : TotFor(E, p) <= N - 1 - C THEN {NoAns}                 \* no order can trigger
       ELSE CBgo(E, Present(E), ZeroCnt, 0)

(* ---------------- addSignaturesToBlockLocked(block of p, forEmpty) ---------------- *)
FirstMatch(l, p, e) == LET I == {i \in 1..Len(l) : l[i].p = p /\ l[i].e = e}
                       IN IF I = {} THEN 0 ELSE CHOOSE i \in I : \A j \in I : i <= j
Seal(E, p, e) ==
    {[x |-> p, g |-> TRUE]} \cup
    {[x |-> x, g |-> E[x][FirstMatch(E[x], p, e)].g] : x \in {y \in Peer \ {p} : FirstMatch(E[y], p, e) # 0}}

(* ---------------- ground truth and the monitor ---------------- *)
(* cl = FALSE: only genuine signatures count;  cl = TRUE: every carried entry is taken at face value
   (used only to attribute a failure to the unverified endorser entries of commit messages) *)
G(SE, p, e, cl)  == {x \in Peer : <<x, p, e, TRUE>> \in SE \/ (cl /\ <<x, p, e, FALSE>> \in SE)}
GC(SC, p, cl)    == {x \in Peer : <<x, p, TRUE>> \in SC \/ (cl /\ <<x, p, FALSE>> \in SC)}
EmptyVoters(SE, cl) == UNION {G(SE, p, TRUE, cl) : p \in Props}
Stances(SE, x, cl)  == {<<t[2], t[3]>> : t \in {u \in SE : u[1] = x /\ (u[4] \/ cl)}}

\* endorsed for a proposal only when more than C distinct participants endorsed it
OkEnd(a, SE, cl) ==
    ~a.d \/ IF a.e THEN Cardinality(EmptyVoters(SE, cl)) > C
            ELSE Cardinality(G(SE, a.p, FALSE, cl)) > C
\* committed only when N - F - 1 distinct signers in commit messages for the proposal, or more than N-1-C endorsers of it
OkCom(a, SE, SC, cl) ==
    ~a.d \/ Cardinality(GC(SC, a.p, cl)) >= N - F - 1
         \/ Cardinality(G(SE, a.p, FALSE, cl)) > N - 1 - C
\* the sealed block carries exactly one signature per distinct supporting participant
\* sl = set of [x, g] entries (x = bookkeeper, g = the entry is a valid signature of x over the sealed block);
\* a participant that itself sent a message for (p, e) and never took another stance must be among the signers
OkSealSet(sl, p, e, SE, SD, cl) ==
    /\ \A r \in sl : (r.g \/ (cl /\ r.x # p)) /\ (r.x = p \/ r.x \in G(SE, p, e, cl))
    /\ \E r \in sl : r.x = p
    /\ \A x \in Peer : <<x, p, e>> \in SD /\ Stances(SE, x, cl) = {<<p, e>>} => \E r \in sl : r.x = x
    /\ \A r1, r2 \in sl : r1.x = r2.x => r1 = r2

(* ---------------- effect of one delivered message ---------------- *)
Act(k, x, p, e, sg, sf) == [k |-> k, x |-> x, p |-> p, e |-> e, sg |-> sg, sf |-> sf]
Res(ret, P, E, M) == [ret |-> ret, P |-> P, E |-> E, M |-> M]

Eff(a, P, E, M) ==
    CASE a.k = "P" ->    \* newBlockProposal: the proposer's block signature is recorded as its endorsement
           IF a.p \in P THEN Res("ok", P, E, M)          \* same message again: ignored
           ELSE Res("ok", P \cup {a.p}, AddE(E, a.p, [p |-> a.p, e |-> FALSE, g |-> TRUE], FALSE), M)
      [] a.k = "P2" ->   \* a different proposal of a proposer already pooled: errDupProposal
           Res("dup", P, E, M)
      [] a.k = "E" ->    \* newBlockEndorsement
           Res("ok", P, AddE(E, a.x, [p |-> a.p, e |-> a.e, g |-> TRUE], FALSE), M)
      [] a.k = "C" ->    \* newBlockCommitment
           LET I == {i \in 1..Len(M) : M[i].c = a.x} IN
           IF I # {}
           THEN LET m == M[CHOOSE i \in I : TRUE]
                IN Res(IF m.p = a.p /\ m.e = a.e THEN "ok" ELSE "dup", P, E, M)
           ELSE LET S == IF VerifyCarried THEN a.sg ELSE a.sg \cup a.sf IN
                Res("ok", P,
                    AddE(AddAll(E, S, a.p, a.e, a.sg), a.x, [p |-> a.p, e |-> a.e, g |-> TRUE], TRUE),
                    Append(M, [c |-> a.x, p |-> a.p, e |-> a.e, S |-> S]))
      [] OTHER ->        \* BE / BC: the message's own signature does not verify, it never reaches the pool
           Res("rej", P, E, M)

\* what the message proves about the participants, whatever the pool does with it
NewE(a) == CASE a.k = "P" -> {<<a.p, a.p, FALSE, TRUE>>}
             [] a.k = "E" -> {<<a.x, a.p, a.e, TRUE>>}
             [] a.k = "C" -> {<<a.x, a.p, a.e, TRUE>>} \cup {<<x, a.p, a.e, TRUE>> : x \in a.sg}
                             \cup {<<x, a.p, a.e, FALSE>> : x \in a.sf}
             [] OTHER -> {}
NewC(a) == IF a.k = "C" THEN {<<a.x, a.p, TRUE>>} \cup {<<x, a.p, TRUE>> : x \in a.sg} \cup {<<x, a.p, FALSE>> : x \in a.sf}
           ELSE {}
NewD(a) == CASE a.k = "P" -> {<<a.p, a.p, FALSE>>}
             [] a.k \in {"E", "C"} -> {<<a.x, a.p, a.e>>}
             [] OTHER -> {}

EdRows(E, SE) == {[p |-> a.p, e |-> a.e, d |-> a.d, ok |-> OkEnd(a, SE, FALSE), okc |-> OkEnd(a, SE, TRUE)]
                   : a \in EndorseDone(E)}
CdRows(P, E, M, SE, SC, SD) ==
    {LET hs == a.d /\ a.p \in P
         sl == IF hs THEN Seal(E, a.p, a.e) ELSE {}
     IN [p |-> a.p, e |-> a.e, d |-> a.d, ok |-> OkCom(a, SE, SC, FALSE), okc |-> OkCom(a, SE, SC, TRUE),
         hs |-> hs, seal |-> sl,
         sok  |-> (~hs \/ OkSealSet(sl, a.p, a.e, SE, SD, FALSE)),
         sokc |-> (~hs \/ OkSealSet(sl, a.p, a.e, SE, SD, TRUE))]
     : a \in CommitDone(E, M)}

PropC41 == /\ \A r \in EdRows(es, sigE) : r.ok
           /\ \A r \in CdRows(props, es, cm, sigE, sigC, sigD) : r.ok /\ r.sok

(* ---------------- behaviours ---------------- *)
Init == props = {} /\ es = [x \in Peer |-> <<>>] /\ cm = <<>> /\ sigE = {} /\ sigC = {} /\ sigD = {} /\ hist = <<>>

Enabled(a) == a.k = "P2" => a.p \in props

Do(a) ==
    LET r   == Eff(a, props, es, cm)
        SE2 == sigE \cup NewE(a)
        SC2 == sigC \cup NewC(a)
        SD2 == sigD \cup NewD(a)
    IN /\ Enabled(a)
       /\ props' = r.P /\ es' = r.E /\ cm' = r.M /\ sigE' = SE2 /\ sigC' = SC2 /\ sigD' = SD2
       /\ hist' = Append(hist, a)
       /\ (~EmitOn \/ PrintT(<<"EDGE", ToJson([h |-> hist, a |-> a, ret |-> r.ret, ed |-> EdRows(r.E, SE2),
                                                cd |-> CdRows(r.P, r.E, r.M, SE2, SC2, SD2)])>>))

\* Alpha: the message alphabet of a run (set of Act records, chosen per cfg in VbftRoundMC.tla)
Next == \E a \in Alpha : Do(a)

Spec == Init /\ [][Next]_vars

Bound == Len(hist) < MaxMsgs
View  == <<props, es, cm, sigE, sigC, sigD, Len(hist)>>   \* model checking: pool state, ground truth, depth
ViewPool == <<props, es, cm>>                 \* edge generation: one representative history per pool state
=============================================================================
