SPECIFICATION Spec
CONSTANTS Tx = {"t1", "t2", "t3"}
          MaxH = 2
          MAXTX = 2
          NC = 3
          NOPS = 2
          ListLen = 2
          EmitOn = FALSE
VIEW ViewMC
INVARIANT PropC37
CHECK_DEADLOCK FALSE
