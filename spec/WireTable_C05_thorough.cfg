SPECIFICATION Spec
CONSTANTS Area = "C05"
          Tier = "thorough"
          EmitOn = TRUE
          Repaired = FALSE
INVARIANT PropC05
CHECK_DEADLOCK FALSE
