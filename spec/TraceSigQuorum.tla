--------------------------- MODULE TraceSigQuorum ---------------------------
(***************************************************************************)
(* C14 - the monitor run over executions RECORDED from the real ledger.    *)
(* Every header / block the driver offered to the real LedgerStoreImp is   *)
(* one line of trace.ndjson:                                               *)
(*   [op, mode, rule, bk, sg, cfg, body, acc, obs]                         *)
(*     op    "reset" (fresh ledger or resynchronisation: obs = set in      *)
(*           force) | "sync" (random runs only, after a rejected           *)
(*           announcing block: bk / sg = sets the node holds for headers / *)
(*           blocks) | "hdr" (AddHeader) | "sub" (SubmitBlock) | "add"     *)
(*           (AddBlock)                                                    *)
(*     acc   what the real code answered (accepted?)                       *)
(*     obs   the key set the real node holds afterwards for that path      *)
(*           (ledgerstore.VerifPeerInfo; <<0>> when not observable)        *)
(* TLC walks the log, keeps the specification's own "set in force" per     *)
(* path (changed only by accepted announcements) and evaluates the three   *)
(* monitor clauses of SigQuorum on every event.  Failing events are        *)
(* collected (not fatal, so that one run judges the whole log) and printed *)
(* by the postcondition as <<"MONITOR", json>>.                            *)
(***************************************************************************)
EXTENDS SigQuorum, TLCExt
VARIABLES l, fH, fB, bad

TraceLog == ndJsonDeserialize("trace.ndjson")
tvars == <<st, h, l, fH, fB, bad>>
Ev == TraceLog[l]

EvHd(e) == [bk |-> e.bk, sg |-> e.sg, cfg |-> e.cfg, body |-> e.body]

Judge(e, S) ==
  LET hd == EvHd(e)
      s2 == MonNext(e.mode, S, hd, e.acc)
  IN (IF MonSafety(e.mode, e.rule, S, hd, e.acc) THEN {} ELSE {"safety"})
     \cup (IF MonRule(e.mode, e.rule, S, hd, e.acc) THEN {} ELSE {"rule"})
     \cup (IF e.obs = <<0>> \/ SetOf(e.obs) = s2 THEN {} ELSE {"setonly"})

TReset == /\ Ev.op = "reset"
          /\ fH' = SetOf(Ev.obs) /\ fB' = SetOf(Ev.obs) /\ bad' = bad
TSync  == /\ Ev.op = "sync"
          /\ fH' = SetOf(Ev.bk) /\ fB' = SetOf(Ev.sg) /\ bad' = bad
TOffer == /\ Ev.op \in {"hdr", "sub", "add"}
          /\ LET S  == IF Ev.op = "hdr" THEN fH ELSE fB
                 s2 == MonNext(Ev.mode, S, EvHd(Ev), Ev.acc)
                 j  == Judge(Ev, S)
             IN /\ (IF Ev.op = "hdr" THEN fH' = s2 /\ fB' = fB ELSE fB' = s2 /\ fH' = fH)
                /\ bad' = IF j = {} THEN bad ELSE Append(bad, [i |-> l, clauses |-> j, force |-> SortedSeq(S)])

TraceInit == TLCSet(1, 1) /\ TLCSet(2, <<>>) /\ l = 1 /\ fH = {} /\ fB = {} /\ bad = <<>> /\ st = 0 /\ h = <<>>
TraceNext == l <= Len(TraceLog) /\ l' = l + 1 /\ UNCHANGED <<st, h>> /\ (TReset \/ TSync \/ TOffer)
TraceSpec == TraceInit /\ [][TraceNext]_tvars

HighWater == TLCSet(1, IF TLCGet(1) < l THEN l ELSE TLCGet(1)) /\ (l = Len(TraceLog) + 1 => TLCSet(2, bad))
Accepted == /\ PrintT(<<"HIGHWATER", TLCGet(1)>>)
            /\ TLCGet(1) = Len(TraceLog) + 1
            /\ PrintT(<<"MONITOR", ToJson(TLCGet(2))>>)
=============================================================================
