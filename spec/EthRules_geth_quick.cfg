SPECIFICATION Spec
CONSTANTS Table = "geth"
          Thorough = FALSE
INVARIANT PropC28Model
CHECK_DEADLOCK FALSE
