SPECIFICATION Spec
CONSTANTS Src = {"c"}
          Tgt = {"t"}
          Ids = {"i1"}
          Vars = {1,2,3}
          Gated = {}
          MaxH = 0
          EmitOn = "edge"
          GovChains = {"c","t"}
          RelayOn = FALSE
          Silent = {"v","r"}
VIEW View
INVARIANT TypeOK
PROPERTY PropC20 PropC21 PropC22
CHECK_DEADLOCK FALSE
