SPECIFICATION Spec
CONSTANTS MaxVar = 48
          EmitOn = TRUE
CHECK_DEADLOCK FALSE
