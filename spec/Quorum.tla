------------------------------- MODULE Quorum -------------------------------
(***************************************************************************)
(* C42 - quorum thresholds guarantee intersection (TLC part).              *)
(*                                                                         *)
(* The formulas live in QuorumDefs.tla and are proved for ALL N with TLAPS *)
(* in Quorum_proofs.tla.  This module                                      *)
(*  (1) re-checks the arithmetic for every n in 1..MaxN and the set-level  *)
(*      statement for every pair of subsets of a validator set of up to    *)
(*      MaxV members (a sanity net under the proof: same definitions),     *)
(*  (2) is the P-TABLE generator of the binding: one row per n with the    *)
(*      thresholds the node must compute; the Go driver measures the       *)
(*      implemented expressions (least number of distinct approvers at     *)
(*      which the code reports "reached") and compares.                    *)
(*                                                                         *)
(* Code shape, per call site:                                              *)
(*   bft     N - (N-1)/3       ledger verifyHeader (vbft, main net above   *)
(*                             height 20,000,000; and the non-vbft branch  *)
(*                             over the header's own bookkeeper list)      *)
(*   legacy  N - (N*6)/7       ledger verifyHeader, vbft, other networks / *)
(*                             lower heights (named deviation, see below)  *)
(*   commit  len(signers)+1 >= N-(N-1)/3   vbft getCommitConsensus: the    *)
(*                             proposer is the implicit "+1", so the code  *)
(*                             needs CommitSigners(N) distinct signers     *)
(*                             besides the proposer.  The function also    *)
(*                             receives the CONFIGURED consensus parameter *)
(*                             C (GenesisChainConfig: N/3) and bumps a     *)
(*                             local copy when more than C commits are for *)
(*                             the empty block: neither may move the       *)
(*                             quorum (CommitReached ignores both), and two*)
(*                             disjoint groups never both reach it         *)
(*   gov     num >= (2*sum+2)/3  CheckConsensusSigns / CheckVotes /        *)
(*                             CheckSigns                                  *)
(***************************************************************************)
EXTENDS QuorumDefs, FiniteSets, TLC, Json

CONSTANTS MaxN,    \* arithmetic rows 1..MaxN
          MaxV,    \* set-level check for validator sets of 1..MaxV members
          EmitOn   \* TRUE: print the table rows
VARIABLES n, phase

vars == <<n, phase>>

CommitSigners(N) == BftThr(N) - 1       \* signers besides the proposer needed by getCommitConsensus
Max2(a, b) == IF a >= b THEN a ELSE b
(* commit consensus for a proposer with k distinct committers/endorsers besides it, under configured parameter C and *)
(* e commits for the empty block: C and e are deliberately unused                                                   *)
CommitReached(N, C, e, k) == k + 1 >= BftThr(N)

Arith(N) == /\ 2 * BftThr(N) - N > F(N)
            /\ 2 * GovThr(N) - N > F(N)
            /\ 3 * GovThr(N) >= 2 * N /\ 3 * (GovThr(N) - 1) < 2 * N     \* GovThr = ceil(2N/3)
            /\ 1 <= BftThr(N) /\ BftThr(N) <= N
            /\ 1 <= GovThr(N) /\ GovThr(N) <= N
            /\ CommitSigners(N) + 1 = BftThr(N)
            /\ 2 * BftThr(N) > N                         \* two disjoint groups cannot both reach the block threshold
            /\ \A C \in {F(N), N \div 3, 0, F(N) + 1} : \A e \in {0, C + 1, N} :
                  /\ CommitReached(N, C, e, Max2(1, CommitSigners(N)))
                  /\ (CommitSigners(N) > 1 => ~CommitReached(N, C, e, CommitSigners(N) - 1))
                  /\ (N >= 2 => ~CommitReached(N, C, e, (N + 1) \div 2 - 1))   \* the larger half, minus its proposer

SetLevel(N) == LET V == 1..N IN
               \A A \in SUBSET V : \A B \in SUBSET V :
                  /\ (Cardinality(A) >= BftThr(N) /\ Cardinality(B) >= BftThr(N)) => Cardinality(A \cap B) > F(N)
                  /\ (Cardinality(A) >= GovThr(N) /\ Cardinality(B) >= GovThr(N)) => Cardinality(A \cap B) > F(N)

(* Tightness (non-vacuity of the claim): for N = 3f+1 >= 4 one approver less and the guarantee is gone. *)
Tight(N) == LET V == 1..N IN
            (F(N) >= 1 /\ N = 3 * F(N) + 1) => \E A \in SUBSET V : \E B \in SUBSET V :
                 /\ Cardinality(A) = BftThr(N) - 1 /\ Cardinality(B) = BftThr(N) - 1
                 /\ Cardinality(A \cap B) <= F(N)

(* The legacy ledger rule gives no intersection at all from N = 2 on (two disjoint "quorums" exist).     *)
(* C14's statement allows it; C42 does not claim anything for it.  Evaluated as documentation.           *)
LegacyHasNoIntersection == \A N \in 2..14 : 2 * LegacyThr(N) <= N

Row(N) == [n |-> N, f |-> F(N), bft |-> BftThr(N), gov |-> GovThr(N), legacy |-> LegacyThr(N),
           commit |-> Max2(1, CommitSigners(N))]   \* at least one commit message is needed to trigger the test

Init == n \in 1..MaxN /\ phase = "new"
Decide == /\ phase = "new" /\ phase' = "done" /\ n' = n
          /\ (~EmitOn \/ PrintT(<<"ROW", ToJson(Row(n))>>))
Next == Decide
Spec == Init /\ [][Next]_vars

PropC42 == /\ Arith(n)
           /\ (n <= MaxV => SetLevel(n) /\ Tight(n))
           /\ LegacyHasNoIntersection
=============================================================================
