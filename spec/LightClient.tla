---------------------------- MODULE LightClient ----------------------------
(***************************************************************************)
(* C19 - side-chain trust roots are installed at most once.                *)
(*                                                                         *)
(* One light client per router (one registered side chain per router; the  *)
(* routers are independent, so a behaviour stays with one router).         *)
(*   installed[r]  a genesis installation on r has succeeded               *)
(*   lc[r]         the light-client state of r: "none", or an opaque value *)
(*                 standing for the byte-exact content of r's storage      *)
(*                 (model: genesis id followed by one "+" per header sync; *)
(*                 trace validation: the id of the storage snapshot)       *)
(*   res           result of the last call: "ok" | "err"                   *)
(*   step          the last call [op, r, g] (read by the monitor)          *)
(*                                                                         *)
(* Implementation-shaped layer: SyncGenesisHeader of a router has one of   *)
(* three shapes in the code base,                                          *)
(*   "guard"      existence check, a later install returns an error,       *)
(*   "overwrite"  no check, a later install succeeds and rewrites the root,*)
(*   "noop"       check, but a later install returns success doing nothing,*)
(* each a named action.  Shape[r] = "any" (trace validation) leaves the    *)
(* choice to the recorded observation.                                     *)
(*                                                                         *)
(* Monitor (PropC19, the listed property and nothing more): whenever an    *)
(* installation is attempted on a router that already has a trust root,    *)
(* the call returns an error and the light-client state is unchanged.      *)
(* "fails" is read as an error return (the statement says "every later     *)
(* installation attempt fails AND leaves the light-client state unchanged"):*)
(* a silent no-op satisfies the second conjunct only.                      *)
(***************************************************************************)
EXTENDS Integers, Sequences, FiniteSets, TLC, Json

CONSTANTS Routers,      \* router names
          SyncRouters,  \* routers for which the driver can fabricate an acceptable next header
          Gen,          \* well-formed genesis ids (different trust roots): "g1", "g2" (same height, different data) and
                        \* "ghi" (another root at a height above everything the sync steps reach), so that a later attempt
                        \* comes at an equal height, above the synced tip (g1 .. ghi) and below the first root (ghi .. g1)
          Deg,          \* "degenerate but accepted" roots (empty / zero optional fields, height 0, no validators): offered as FIRST
                        \* installation only; whatever the stored root looks like, later attempts must fail
          Bad,          \* malformed genesis ids (rejected by every router in every state)
          Shape,        \* [Routers -> {"guard", "overwrite", "noop", "any"}]
          D,            \* behaviour length for P-REPLAY generation
          MaxSync       \* bound on syncs per behaviour

VARIABLES installed, lc, res, step, h
vars == <<installed, lc, res, step, h>>

None == "none"
NoStep == [op |-> "init", r |-> "", g |-> ""]
Is(r, s) == Shape[r] = s \/ Shape[r] = "any"

Init == /\ installed = [r \in Routers |-> FALSE]
        /\ lc = [r \in Routers |-> None]
        /\ res = "ok" /\ step = NoStep /\ h = <<>>

Log(op, r, g) == /\ step' = [op |-> op, r |-> r, g |-> g]
                 /\ h' = Append(h, [op |-> op, r |-> r, g |-> g, res |-> res', inst |-> installed'[r]])

(* first installation of a well-formed genesis: succeeds, the root becomes `root` *)
InstallFirst(r, g, root) ==
    /\ ~installed[r] /\ g \in Gen \cup Deg
    /\ installed' = [installed EXCEPT ![r] = TRUE]
    /\ lc' = [lc EXCEPT ![r] = root]
    /\ res' = "ok" /\ Log("install", r, g)

(* rejected installation: malformed genesis in any state, or the guard on an installed router *)
InstallReject(r, g) ==
    /\ IF g \in Bad THEN TRUE ELSE installed[r] /\ Is(r, "guard")
    /\ UNCHANGED <<installed, lc>>
    /\ res' = "err" /\ Log("install", r, g)

(* deviating shapes *)
InstallOverwrite(r, g, root) ==
    /\ installed[r] /\ (IF g \in Gen THEN TRUE ELSE Shape[r] = "any") /\ Is(r, "overwrite")
    /\ lc' = [lc EXCEPT ![r] = root] /\ UNCHANGED installed
    /\ res' = "ok" /\ Log("install", r, g)
InstallNoop(r, g) ==
    /\ installed[r] /\ Is(r, "noop")          \* whatever the data: the check comes before parsing
    /\ UNCHANGED <<installed, lc>>
    /\ res' = "ok" /\ Log("install", r, g)
(* an error return that nevertheless changed the state (only reachable in trace validation) *)
InstallDirtyFail(r, g, root) ==
    /\ Shape[r] = "any" /\ root # lc[r]
    /\ lc' = [lc EXCEPT ![r] = root] /\ UNCHANGED installed
    /\ res' = "err" /\ Log("install", r, g)

(* header synchronisation: moves the light client forward once a root exists *)
SyncOk(r, root) ==
    /\ installed[r] /\ r \in SyncRouters
    /\ lc' = [lc EXCEPT ![r] = root] /\ UNCHANGED installed
    /\ res' = "ok" /\ Log("sync", r, "")
SyncReject(r) ==
    /\ ~installed[r] /\ r \in SyncRouters
    /\ UNCHANGED <<installed, lc>>
    /\ res' = "err" /\ Log("sync", r, "")

(* a header batch that contains nothing new or nothing connectable is skipped without an error by several routers
   (bsc family: unknown parent; ont: height already stored); only offered to trace validation *)
SyncIgnored(r) ==
    /\ r \in SyncRouters
    /\ UNCHANGED <<installed, lc>>
    /\ res' = "ok" /\ Log("sync", r, "")

(* a header the light client refuses although a root exists (e.g. no validator set to check it against): state unchanged;
   only offered to trace validation - whether a header is acceptable is not this property's subject *)
SyncRefused(r) ==
    /\ installed[r] /\ r \in SyncRouters
    /\ UNCHANGED <<installed, lc>>
    /\ res' = "err" /\ Log("sync", r, "")

(* model-level roots *)
Syncs == Cardinality({i \in 1..Len(h) : h[i].op = "sync" /\ h[i].res = "ok"})
FreshRoot(g) == g                 \* roots are strings so that model values and snapshot ids compare
Advance(x) == x \o "+"

SameRouter(r) == IF h = <<>> THEN TRUE ELSE h[1].r = r
Next == \E r \in Routers :
          /\ SameRouter(r)
          /\ \/ \E g \in Gen \cup Bad \cup (IF installed[r] THEN {} ELSE Deg) :
                  \/ InstallFirst(r, g, FreshRoot(g))
                  \/ InstallReject(r, g)
                  \/ InstallOverwrite(r, g, FreshRoot(g))
                  \/ InstallNoop(r, g)
             \/ (Syncs < MaxSync /\ SyncOk(r, Advance(lc[r])))
             \/ SyncReject(r)

Spec == Init /\ [][Next]_vars

(* PropC19 ******************************************************************)
(* one step, over the observation alphabet: was a root installed before the call, the state before and
   after, and the returned result *)
C19Step(wasInstalled, before, after, result) ==
    wasInstalled => (result = "err" /\ after = before)

PropC19Action == \A r \in Routers :
    (step'.op = "install" /\ step'.r = r /\ h' # h) => C19Step(installed[r], lc[r], lc'[r], res')
PropC19 == [][PropC19Action]_vars

(* a trust root never disappears and `installed` is monotone (sanity of the model, not the property) *)
TypeOK == /\ installed \in [Routers -> BOOLEAN]
          /\ res \in {"ok", "err"}
          /\ \A r \in Routers : installed[r] <=> lc[r] # None

(* bounds / P-REPLAY emission ***********************************************)
Bound == Len(h) <= D
Emit == IF Len(h) = D THEN PrintT(<<"TRACE", ToJson(h)>>) /\ FALSE ELSE TRUE
=============================================================================
