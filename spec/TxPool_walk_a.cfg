SPECIFICATION Spec
CONSTANTS Tx = {"t1", "t2", "t3"}
          MaxH = 2
          MAXTX = 1
          CAP = 100
          LIMIT = 100
          PreExec = TRUE
          Eager = TRUE
          Acts = {"admit", "rsp", "getpool", "verifyblock", "blocksaved"}
          ListLen = 2
          Depth = 12
          EmitOn = FALSE
CONSTRAINT WalkEmit
CHECK_DEADLOCK FALSE
