SPECIFICATION Spec
CONSTANTS Chains = {"neo3"}
          Ns = {1, 2, 3, 4, 5, 6}
          LightNs = {7}
          ExhN = 3
          ExhL = 3
          EmitOn = TRUE
INVARIANT PropC24
INVARIANT NeoWalkIsIncreasing
CHECK_DEADLOCK FALSE
