SPECIFICATION Spec
CONSTANTS Table = "rlp"
          Thorough = FALSE
INVARIANT PropC28Model
CHECK_DEADLOCK FALSE
