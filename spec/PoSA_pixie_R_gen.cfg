\* C29 PoSA: family pixie, chain configuration F (MCPoSA!SetsF), mode gen, two-branch fork-choice scenarios (shorter heavier fork, longer fork overtaking again)
SPECIFICATION Spec
CONSTANTS Family = "pixie"
          Epoch = 0
          CliqueFixed = FALSE
          Sets <- SetsF
          GenesisSigner = "c"
          G0 = 200
          Keys = {"a", "b", "c", "x"}
          Diffs = {1, 2}
          Defects = {}
          MaxStored = 10
          MaxLen = 7
          EmitOn = TRUE
          Sprint = 0
          SpanEnd = 0
          TwoBranch = TRUE
          TraceLen = 0
VIEW View
INVARIANT PropC29
INVARIANT ModelSane
INVARIANT ModelEquiv
CHECK_DEADLOCK FALSE
