SPECIFICATION Spec
CONSTANTS Table = "c08chain"
          N = 4
          Sizes = {0, 1, 2, 5}
          Doubles = FALSE
          PoolMode = "full"
          Lab = "id"
          EmitOn = TRUE
INVARIANT PropC08
CHECK_DEADLOCK FALSE
