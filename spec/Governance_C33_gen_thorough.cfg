SPECIFICATION Spec
CONSTANTS NV = 5
          Mode = "C33"
          Areas = {"node","sc","rel","sv"}
          AltSp = TRUE
          MaxView = 3
          MaxHeight = 3
          MaxId = 3
          MaxSigns = 99
          NWho = 2
          Rich = TRUE
          EmitOn = TRUE
VIEW View
CONSTRAINT Bound
INVARIANT PropAll
INVARIANT TypeOK
CHECK_DEADLOCK FALSE
