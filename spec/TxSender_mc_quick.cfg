SPECIFICATION Spec
CONSTANTS Rel = {"r1", "r2"}
          Val = {"v1", "v2", "v3"}
          Cand = {"c1"}
          Acts = {"relayer", "cand", "proc"}
          Outsiders = {}
          MaxReq = 1
          Depth = 0
          EmitOn = FALSE
VIEW View
INVARIANT TypeOK
INVARIANT PropC36
CHECK_DEADLOCK FALSE
