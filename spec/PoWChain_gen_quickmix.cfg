SPECIFICATION Spec
CONSTANTS N = 0
          NMin = 0
          Adj = {}
          D0 = 1000000
          Rule = "eth"
          Family = "quickmix"
          LA = 7
          LB = 6
          AdjA <- AdjSlowest
          AdjB = 1
          InOrder = TRUE
          EmitOn = TRUE
CONSTRAINT Emit
INVARIANT PropC27
CHECK_DEADLOCK FALSE
