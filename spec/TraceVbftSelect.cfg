SPECIFICATION TraceSpec
CONSTANTS VrfLen = 64
          KMax = 512
          MAXP = 32
          MAXE = 240
          MAXC = 240
          Tables = {}
          NewTables = {}
          SeedBytes = {}
CONSTRAINT HighWater
POSTCONDITION Accepted
CHECK_DEADLOCK FALSE
