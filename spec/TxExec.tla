------------------------------- MODULE TxExec -------------------------------
(***************************************************************************)
(* C15 (transaction execution is atomic) and C16 (block execution is      *)
(* deterministic).                                                         *)
(*                                                                         *)
(* Code modelled: LedgerStoreImp.executeBlock (one overlay per block, one  *)
(* CacheDB reset per transaction), handleTransaction /                     *)
(* StateStore.HandleInvokeTransaction (notifications, SUCCESS state, cache *)
(* Commit and cross hashes only when Invoke returned no error) and         *)
(* NativeService.Invoke (the save / clear / re-join bookkeeping of         *)
(* notifications and crossHashes around a - possibly nested - call, with   *)
(* the restore on the error path; no nested write rollback exists).        *)
(*                                                                         *)
(* A block is a sequence of transactions, a transaction a script: a        *)
(* sequence of steps put k / del k / get k / rec (PutMerkleVal) / notify / *)
(* fail / call(sub, catch) (NativeCall of a second contract; catch = the   *)
(* caller ignores the callee's error) / clk n (a header-sync like step     *)
(* that fails while the WALL CLOCK is below n: what nine header-sync       *)
(* routers do with time.Now()).  Every effect carries the unique id        *)
(* <<tx, step>> or <<tx, step, substep>> (the driver writes that id as the *)
(* stored value / notification / record), so every observed effect can be  *)
(* attributed to the step that made it.                                    *)
(*                                                                         *)
(* Layers:                                                                 *)
(*   1. implementation-shaped model: RunSteps / Invoke / RunTx, actions    *)
(*      ExecTx (one per handleTransaction) and Finish (result assembly),   *)
(*      Again (the same block executed once more under another wall clock  *)
(*      reading: C16);                                                     *)
(*   2. monitors: Violations15 (PropC15) is written against a reference    *)
(*      walk of the script that knows nothing of the bookkeeping; the      *)
(*      effects of a callee whose failure was caught are "unsure" (the     *)
(*      property statement speaks of transactions only, so both keeping    *)
(*      and dropping them is allowed), everything else is mandatory.       *)
(*      PropC16: memo is set by the first finished execution; every later  *)
(*      execution of the same block on the same state has the same digest. *)
(*                                                                         *)
(* Value encoding (all tuples of integers so that TLC can compare them):   *)
(*   NoEnt <<>>   no entry in this layer                                   *)
(*   Tomb  <<0>>  tombstone in a layer; also "absent" as a read result     *)
(*   <<0,0>>      the value present in the prior state                     *)
(*   <<t,i>> <<t,i,j>> <<t,i,j,l>>  value written / event emitted by step  *)
(***************************************************************************)
EXTENDS TxExecMon, TLC, Json

CONSTANTS
    NTx,          \* transactions per block (1..3)
    L1, L2, L3,   \* max number of steps of tx 1, 2, 3 (one more trailing "fail" may follow)
    PriorKeys,    \* keys present (value <<0,0>>) in the prior state, for both contracts
    TopOps,       \* subset of {"put","del","get","rec","notify","clk"}
    SubOps,       \* same for nested scripts
    MinCalls,     \* tx 1 has at least / every tx at most that many call steps
    MaxCalls,
    CallTxs,      \* the first CallTxs transactions may contain calls
    SubMax,       \* max steps of a nested script (plus a trailing fail)
    Depth,        \* nesting depth of calls below the top level (0 = none)
    AllowCatch,   \* callers may ignore a callee's error
    RestoreOnError, \* TRUE: Invoke gives the caller its notifications / cross hashes back when the callee fails (the code
                  \* since the repair "fix: NativeService.Invoke restores caller state ..."); FALSE: the behaviour before it
    Runs,         \* executions of the block (C16)
    Clock,        \* wall-clock readings
    EmitOn        \* print one ROW per finished first execution

VARIABLES blk, wall, run, t, ov, res, memo, nondet
vars == <<blk, wall, run, t, ov, res, memo, nondet>>

Store == [fk \in FullKeys |-> IF fk[2] \in PriorKeys THEN Old ELSE Tomb]
EmptyLayer == [fk \in FullKeys |-> NoEnt]

(* scripts *****************************************************************)
B(op, k)     == [op |-> op, k |-> k, n |-> 0, sub |-> <<>>, catch |-> FALSE]
ClkStep(n)   == [op |-> "clk", k |-> "", n |-> n, sub |-> <<>>, catch |-> FALSE]
FailStep     == B("fail", "")
CallStep(s, c) == [op |-> "call", k |-> "", n |-> 0, sub |-> s, catch |-> c]

Alpha(ops, keys) ==
    {B(op, k) : op \in ops \cap {"put", "del", "get"}, k \in keys}
    \cup {B(op, "") : op \in ops \cap {"rec", "notify"}}
    \cup (IF "clk" \in ops THEN {ClkStep(n) : n \in Clock \ {0}} ELSE {})

Seqs(A, n) == UNION {[1..m -> A] : m \in 0..n}
Ins(s, p, c) == SubSeq(s, 1, p - 1) \o <<c>> \o SubSeq(s, p, Len(s))

Canonical(s) == \A i \in 1..(Len(s) - 1) : ~Aborting(s[i])
NCalls(s) == Cardinality({i \in 1..Len(s) : s[i].op = "call"})

Calls(subs) == {CallStep(s, FALSE) : s \in subs}
               \cup (IF AllowCatch THEN {CallStep(s, TRUE) : s \in {x \in subs : Fails(x)}} ELSE {})

\* all sequences over A of length <= n with at least lo and at most hi call steps inserted
RECURSIVE WithCalls(_, _, _, _)
WithCalls(A, C, n, j) ==   \* exactly j calls, total length <= n
    IF j = 0 THEN Seqs(A, n)
    ELSE IF n < j THEN {}
    ELSE UNION {{Ins(s, p, c) : p \in 1..(Len(s) + 1), c \in C} : s \in WithCalls(A, C, n - 1, j - 1)}
Bodies(A, C, n, lo, hi) == {s \in UNION {WithCalls(A, C, n, j) : j \in lo..hi} : Canonical(s)}
Closed(bodies) == bodies \cup {Append(s, FailStep) : s \in {x \in bodies : ~Fails(x)}}

RECURSIVE SubScripts(_)
SubScripts(d) ==
    IF d = 0 THEN {}
    ELSE LET C == IF d = 1 THEN {} ELSE Calls(SubScripts(d - 1))
             bodies == Bodies(Alpha(SubOps, SubKeys), C, SubMax, 0, IF C = {} THEN 0 ELSE 1)
         IN Closed(bodies) \ {<<>>}
TopCalls == IF Depth = 0 THEN {} ELSE Calls(SubScripts(Depth))
TxScripts(L, withCalls, lo) ==
    Closed(Bodies(Alpha(TopOps, TopKeys), IF withCalls THEN TopCalls ELSE {}, L, lo, IF withCalls THEN MaxCalls ELSE 0))
T1 == TxScripts(L1, CallTxs >= 1, IF CallTxs >= 1 THEN MinCalls ELSE 0)
T2 == TxScripts(L2, CallTxs >= 2, 0)
T3 == TxScripts(L3, CallTxs >= 3, 0)
Blocks == IF NTx = 3 THEN T1 \X T2 \X T3 ELSE IF NTx = 2 THEN T1 \X T2 ELSE {<<s>> : s \in T1}

(* implementation-shaped execution *****************************************)
Lookup(cache, over, store, fk) ==
    IF cache[fk] # NoEnt THEN cache[fk] ELSE IF over[fk] # NoEnt THEN over[fk] ELSE store[fk]

\* S = [cache, nt, xh, rd, err]: CacheDB of the transaction, NativeService.notifications / crossHashes,
\* the probe's read log, "an error is being returned".  E = [ov, st, wall].
RECURSIVE RunSteps(_, _, _, _, _, _), Invoke(_, _, _, _, _)
RunSteps(c, steps, pre, i, S, E) ==
    IF i > Len(steps) THEN S
    ELSE LET st == steps[i]
             id == Append(pre, i)
             fk == <<c, st.k>>
         IN CASE st.op = "put"    -> RunSteps(c, steps, pre, i + 1, [S EXCEPT !.cache[fk] = id], E)
              [] st.op = "del"    -> RunSteps(c, steps, pre, i + 1, [S EXCEPT !.cache[fk] = Tomb], E)
              [] st.op = "get"    -> RunSteps(c, steps, pre, i + 1,
                                        [S EXCEPT !.rd = Append(@, [id |-> id, v |-> Lookup(S.cache, E.ov, E.st, fk)])], E)
              [] st.op = "rec"    -> RunSteps(c, steps, pre, i + 1, [S EXCEPT !.xh = Append(@, id)], E)
              [] st.op = "notify" -> RunSteps(c, steps, pre, i + 1, [S EXCEPT !.nt = Append(@, id)], E)
              [] st.op = "fail"   -> [S EXCEPT !.err = TRUE]
              [] st.op = "clk"    -> IF E.wall >= st.n THEN RunSteps(c, steps, pre, i + 1, S, E)
                                     ELSE [S EXCEPT !.err = TRUE]            \* "block in the future"
              [] st.op = "call"   -> LET R == Invoke(2, st.sub, id, S, E)
                                     IN IF R.err
                                        THEN IF st.catch THEN RunSteps(c, steps, pre, i + 1, [R EXCEPT !.err = FALSE], E)
                                             ELSE R
                                        ELSE RunSteps(c, steps, pre, i + 1, R, E)
\* NativeService.Invoke: save and clear both lists, run the handler, and on success re-join them (notifications:
\* saved first; cross hashes: the callee's first).  On the error path the saved lists are put back (what the callee
\* announced is dropped; its writes stay in the cache - there is no nested write rollback).  Before the repair nothing
\* was restored: the caller's earlier notifications and records were lost and the callee's partial ones survived
\* (RestoreOnError = FALSE keeps that behaviour as the documented counterexample).
Invoke(c, steps, pre, S, E) ==
    LET inner == RunSteps(c, steps, pre, 1, [S EXCEPT !.nt = <<>>, !.xh = <<>>], E)
    IN IF inner.err THEN (IF RestoreOnError THEN [inner EXCEPT !.nt = S.nt, !.xh = S.xh] ELSE inner)
       ELSE [inner EXCEPT !.nt = S.nt \o inner.nt, !.xh = inner.xh \o S.xh]

S0 == [cache |-> EmptyLayer, nt |-> <<>>, xh |-> <<>>, rd |-> <<>>, err |-> FALSE]
\* handleTransaction + HandleInvokeTransaction: notifications, SUCCESS, Commit and cross hashes only without error
RunTx(script, tx, over, store, w) ==
    LET R == Invoke(1, script, <<tx>>, S0, [ov |-> over, st |-> store, wall |-> w])
    IN IF R.err THEN [ok |-> FALSE, nt |-> <<>>, xh |-> <<>>, rd |-> R.rd, ov |-> over]
       ELSE [ok |-> TRUE, nt |-> R.nt, xh |-> R.xh, rd |-> R.rd,
             ov |-> [fk \in FullKeys |-> IF R.cache[fk] # NoEnt THEN R.cache[fk] ELSE over[fk]]]

RECURSIVE Flat(_)
Flat(ss) == IF ss = <<>> THEN <<>> ELSE Head(ss) \o Flat(Tail(ss))
TxObs(r) == [ok |-> r.ok, nt |-> r.nt, rd |-> r.rd]
Obs(results, over) == [txs |-> [i \in 1..Len(results) |-> TxObs(results[i])],
                       xh  |-> Flat([i \in 1..Len(results) |-> results[i].xh]),
                       ws  |-> over]
\* what ExecuteResult carries (read log excluded)
Digest(results, over) == [txs |-> [i \in 1..Len(results) |-> [ok |-> results[i].ok, nt |-> results[i].nt]],
                          xh  |-> Flat([i \in 1..Len(results) |-> results[i].xh]),
                          ws  |-> over]

(* state machine ***********************************************************)
None == [none |-> TRUE]
WsOut(over) == {[c |-> fk[1], k |-> fk[2], v |-> over[fk]] : fk \in {f \in FullKeys : over[f] # NoEnt}}
PriorOut == {[c |-> fk[1], k |-> fk[2], v |-> Store[fk]] : fk \in {f \in FullKeys : Store[f] # Tomb}}
Row == [blk |-> blk, prior |-> PriorOut, wall |-> wall,
        obs |-> [txs |-> Obs(res, ov).txs, xh |-> Obs(res, ov).xh, ws |-> WsOut(ov)],
        viol |-> Violations15(blk, Len(blk), Store, wall, Obs(res, ov))]

Init == /\ blk \in Blocks
        /\ wall \in Clock
        /\ run = 1 /\ t = 1 /\ ov = EmptyLayer /\ res = <<>> /\ memo = None /\ nondet = FALSE

\* executeBlock loop body: cache.Reset(); handleTransaction(...)
ExecTx == /\ t >= 1 /\ t <= Len(blk)
          /\ LET r == RunTx(blk[t], t, ov, Store, wall)
             IN res' = Append(res, r) /\ ov' = r.ov
          /\ t' = t + 1
          /\ UNCHANGED <<blk, wall, run, memo, nondet>>
\* result assembly: CrossHashes, WriteSet, Hash; the first finished execution defines memo
Finish == /\ t = Len(blk) + 1
          /\ t' = 0
          /\ LET d == Digest(res, ov)
             IN /\ memo' = IF memo = None THEN d ELSE memo
                /\ nondet' = (nondet \/ (memo # None /\ memo # d))
          /\ UNCHANGED <<blk, wall, run, ov, res>>
          /\ (IF EmitOn /\ run = 1 THEN PrintT(<<"ROW", ToJson(Row)>>) ELSE TRUE)
\* the same block on the same prior state once more, under any wall-clock reading
Again == /\ t = 0 /\ run < Runs
         /\ run' = run + 1 /\ wall' \in Clock
         /\ t' = 1 /\ ov' = EmptyLayer /\ res' = <<>>
         /\ UNCHANGED <<blk, memo, nondet>>
Next == ExecTx \/ Finish \/ Again
Spec == Init /\ [][Next]_vars

(* properties **************************************************************)
Executed == IF t = 0 THEN Len(blk) ELSE t - 1
\* after every transaction: what has been observed so far is what the reference allows
PropC15 == Violations15(blk, Executed, Store, wall, Obs(res, ov)) = {}
\* committed writes come from successful transactions only (direct reading of "a failed transaction leaves no trace")
OverlayClean == \A fk \in FullKeys : TxOf(ov[fk]) # 0 => res[TxOf(ov[fk])].ok
\* With RestoreOnError = FALSE (the code before the repair) the model deviates from PropC15 exactly here: a successful
\* transaction that went on after a callee's failure has lost what it announced before the call.
PropC15ExceptCaught ==
    \A v \in Violations15(blk, Executed, Store, wall, Obs(res, ov)) :
        v[1] \in {"success-notify-lost", "success-record-lost"} /\ HasCaughtFailure(blk[v[2]])
PropC16 == ~nondet
=============================================================================
