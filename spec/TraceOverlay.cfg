SPECIFICATION TraceSpec
CONSTANTS K = 5
          Vals = {"x", "y"}
          Ranges = {}
          WithBatch = TRUE
          Mode = "mc"
          Depth = 0
CONSTRAINT HighWater
INVARIANT PropC10T
INVARIANT PropC11
POSTCONDITION Accepted
CHECK_DEADLOCK FALSE
