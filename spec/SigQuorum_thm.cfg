\* Sample of the design-theorem configuration (thorough size); checks/C14.py writes its own from the same template.
SPECIFICATION Spec
CONSTANTS Kind = "theorem"
          Mode = "vbft"
          Rule = "legacy"
          N = 3
          FullN = 3
          NsLegacy = {}
          NsBft = {}
          NsSolo = {}
          Cfgs = {}
          Lists = {}
          Paths = {}
          D = 0
          AsIs = FALSE
          EmitOn = FALSE
INVARIANT PropC14
CHECK_DEADLOCK FALSE
