SPECIFICATION Spec
CONSTANTS Kind = "theorem"
          Mode = "vbft"
          Rule = "legacy"
          N = 3
          FullN = 3
          Cfgs = {}
          Lists = {}
          Paths = {}
          D = 0
          AsIs = FALSE
          EmitOn = FALSE
INVARIANT PropC14
CHECK_DEADLOCK FALSE
