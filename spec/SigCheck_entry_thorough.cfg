SPECIFICATION Spec
CONSTANTS Part = "entry"
          KeyIds = {1, 2, 3}
          Outsider = 9
          MaxLen = 3
          EmitOn = TRUE
INVARIANT PropC39
CHECK_DEADLOCK FALSE
