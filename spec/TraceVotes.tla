----------------------------- MODULE TraceVotes -----------------------------
(* P-VALIDATE for C25: observations recorded from the real vote / signature contracts (vote events with the observed
   error and release flags, epoch events with the new validator set).  Only the monitor's variables are driven by the log;
   PropC25 (release <=> first vote reaching ceil(2N/3) of the current validators, once) and OnceC25 decide. *)
EXTENDS Votes, TLCExt
VARIABLE l
TraceLog == ndJsonDeserialize("trace.ndjson")
tvars == <<cons, voted, status, mv, relc, obs, hist, l>>
Ev == TraceLog[l]
Rng(q) == {q[k] : k \in 1..Len(q)}
TVote == /\ l <= Len(TraceLog) /\ Ev.ev = "vote" /\ l' = l + 1
         /\ Monitor(Ev.id, Ev.a, Ev.rel)
         /\ obs' = [act |-> "vote", id |-> Ev.id, a |-> Ev.a, err |-> Ev.err, rel |-> Ev.rel]
         /\ UNCHANGED <<cons, voted, status, hist>>
TEpoch == /\ l <= Len(TraceLog) /\ Ev.ev = "epoch" /\ l' = l + 1
          /\ cons' = Rng(Ev.cons) /\ obs' = [act |-> "epoch", cons |-> Rng(Ev.cons)]
          /\ UNCHANGED <<voted, status, mv, relc, hist>>
TReset == /\ l <= Len(TraceLog) /\ Ev.ev = "reset" /\ l' = l + 1
          /\ cons' = Rng(Ev.cons) /\ obs' = [act |-> "init"]
          /\ mv' = [i \in Ids |-> {}] /\ relc' = [i \in Ids |-> 0]
          /\ UNCHANGED <<voted, status, hist>>
TraceInit == TLCSet(1, 1) /\ Init /\ l = 1
TraceNext == TVote \/ TEpoch \/ TReset
TraceSpec == TraceInit /\ [][TraceNext]_tvars
HighWater == TLCSet(1, IF TLCGet(1) < l THEN l ELSE TLCGet(1))
Accepted == PrintT(<<"HIGHWATER", TLCGet(1)>>) /\ TLCGet(1) = Len(TraceLog) + 1
=============================================================================
