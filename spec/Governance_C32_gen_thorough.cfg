SPECIFICATION Spec
CONSTANTS NV = 5
          Mode = "C32"
          Areas = {"node", "sc", "rel", "sv"}
          AltSp = TRUE
          MaxView = 2
          MaxHeight = 2
          MaxId = 2
          MaxSigns = 4
          NWho = 1
          Rich = FALSE
          EmitOn = TRUE
VIEW View
CONSTRAINT Bound
INVARIANT PropAll
INVARIANT TypeOK
CHECK_DEADLOCK FALSE
