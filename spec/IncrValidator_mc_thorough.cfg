SPECIFICATION Spec
CONSTANTS Heights = {0,1,2,3,4,5,6}
          Tx = {1, 2}
          TxSets = {{}, {1}, {2}, {1, 2}}
          Maxes = {1, 2, 3}
          Mode = "mc"
VIEW ViewMC
INVARIANT PropC38
CHECK_DEADLOCK FALSE
