// Package termeval evaluates hash terms printed by the TLA+ specification (spec/Merkle.tla, free term
// algebra) with the real hash functions over concrete data, independently of any poly code.
//
//	hash terms:  ["L", data]  SHA256(0x00 || data)        ["N", l, r]  SHA256(0x01 || l || r)
//	             ["D", l, r]  SHA256(SHA256(l || r))      ["E"]        SHA256("")
//	             ["Z"]        32 zero bytes               ["F", k]     k-th fresh 32 bytes (Env.Fresh)
//	             ["T", i]     i-th transaction hash (Env.Tx)
//	data terms:  ["d", i]     i-th datum (Env.Dat)        ["cat", l, r]  l || r (64 bytes)
//	             ["pcat", l, r]  0x01 || l || r
package termeval

import (
	"crypto/sha256"
	"encoding/json"
	"fmt"
)

type Env struct {
	Dat   func(i int) []byte
	Tx    func(i int) [32]byte
	Fresh func(k int) [32]byte
}

// Parse decodes one JSON term.
func Parse(raw []byte) (interface{}, error) {
	var v interface{}
	if err := json.Unmarshal(raw, &v); err != nil {
		return nil, err
	}
	return v, nil
}

func parts(t interface{}) (string, []interface{}, error) {
	a, ok := t.([]interface{})
	if !ok || len(a) == 0 {
		return "", nil, fmt.Errorf("termeval: not a term: %v", t)
	}
	tag, ok := a[0].(string)
	if !ok {
		return "", nil, fmt.Errorf("termeval: term without tag: %v", t)
	}
	return tag, a[1:], nil
}

func num(x interface{}) (int, error) {
	f, ok := x.(float64)
	if !ok {
		return 0, fmt.Errorf("termeval: number expected: %v", x)
	}
	return int(f), nil
}

// Hash evaluates a hash term.
func (e *Env) Hash(t interface{}) (h [32]byte, err error) {
	tag, a, err := parts(t)
	if err != nil {
		return h, err
	}
	switch {
	case tag == "L" && len(a) == 1:
		d, err := e.Data(a[0])
		if err != nil {
			return h, err
		}
		return sha256.Sum256(append([]byte{0}, d...)), nil
	case (tag == "N" || tag == "D") && len(a) == 2:
		l, err := e.Hash(a[0])
		if err != nil {
			return h, err
		}
		r, err := e.Hash(a[1])
		if err != nil {
			return h, err
		}
		if tag == "N" {
			buf := make([]byte, 0, 65)
			buf = append(buf, 1)
			buf = append(buf, l[:]...)
			buf = append(buf, r[:]...)
			return sha256.Sum256(buf), nil
		}
		buf := append(append(make([]byte, 0, 64), l[:]...), r[:]...)
		first := sha256.Sum256(buf)
		return sha256.Sum256(first[:]), nil
	case tag == "E" && len(a) == 0:
		return sha256.Sum256(nil), nil
	case tag == "Z" && len(a) == 0:
		return h, nil
	case tag == "F" && len(a) == 1:
		k, err := num(a[0])
		if err != nil {
			return h, err
		}
		return e.Fresh(k), nil
	case tag == "T" && len(a) == 1:
		i, err := num(a[0])
		if err != nil {
			return h, err
		}
		return e.Tx(i), nil
	}
	return h, fmt.Errorf("termeval: unknown hash term %q/%d", tag, len(a))
}

// Data evaluates a data term.
func (e *Env) Data(t interface{}) ([]byte, error) {
	tag, a, err := parts(t)
	if err != nil {
		return nil, err
	}
	switch {
	case tag == "d" && len(a) == 1:
		i, err := num(a[0])
		if err != nil {
			return nil, err
		}
		return e.Dat(i), nil
	case (tag == "cat" || tag == "pcat") && len(a) == 2:
		l, err := e.Hash(a[0])
		if err != nil {
			return nil, err
		}
		r, err := e.Hash(a[1])
		if err != nil {
			return nil, err
		}
		var buf []byte
		if tag == "pcat" {
			buf = append(buf, 1)
		}
		buf = append(buf, l[:]...)
		return append(buf, r[:]...), nil
	}
	return nil, fmt.Errorf("termeval: unknown data term %q/%d", tag, len(a))
}

// Hashes evaluates a JSON array of hash terms.
func (e *Env) Hashes(ts interface{}) ([][32]byte, error) {
	a, ok := ts.([]interface{})
	if !ok {
		return nil, fmt.Errorf("termeval: list expected: %v", ts)
	}
	res := make([][32]byte, len(a))
	for i, t := range a {
		h, err := e.Hash(t)
		if err != nil {
			return nil, err
		}
		res[i] = h
	}
	return res, nil
}
