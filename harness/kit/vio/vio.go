// Package vio: NDJSON I/O, seeded PRNG and panic-safe calls shared by all drivers.
package vio

import (
	"bufio"
	"encoding/hex"
	"encoding/json"
	"fmt"
	"os"
	"runtime/debug"
	"strconv"
	"sync"
)

var (
	outMu sync.Mutex
	outW  = bufio.NewWriterSize(os.Stdout, 1<<20)
)

// Emit writes one JSON line to stdout (goroutine safe).
func Emit(v interface{}) {
	b, err := json.Marshal(v)
	if err != nil {
		panic(err)
	}
	outMu.Lock()
	outW.Write(b)
	outW.WriteByte('\n')
	outMu.Unlock()
}

// Flush must be called before exit.
func Flush() {
	outMu.Lock()
	outW.Flush()
	outMu.Unlock()
}

// ReadLines reads all NDJSON lines of stdin (lines up to 64 MiB).
func ReadLines() []json.RawMessage {
	return ReadLinesFrom(os.Stdin)
}

func ReadLinesFrom(f *os.File) []json.RawMessage {
	var res []json.RawMessage
	sc := bufio.NewScanner(f)
	sc.Buffer(make([]byte, 1<<20), 1<<26)
	for sc.Scan() {
		b := sc.Bytes()
		if len(b) == 0 {
			continue
		}
		c := make([]byte, len(b))
		copy(c, b)
		res = append(res, c)
	}
	return res
}

// Seed returns VERIF_SEED (default 1).
func Seed() uint64 {
	s, err := strconv.ParseInt(os.Getenv("VERIF_SEED"), 10, 64)
	if err != nil {
		return 1
	}
	return uint64(s)
}

func Tier() string {
	t := os.Getenv("VERIF_TIER")
	if t == "" {
		return "quick"
	}
	return t
}

// RNG is splitmix64.
type RNG struct{ s uint64 }

func NewRNG(seed uint64) *RNG { return &RNG{s: seed*0x9E3779B97F4A7C15 + 0x1234567} }
func (r *RNG) U64() uint64 {
	r.s += 0x9E3779B97F4A7C15
	z := r.s
	z = (z ^ (z >> 30)) * 0xBF58476D1CE4E5B9
	z = (z ^ (z >> 27)) * 0x94D049BB133111EB
	return z ^ (z >> 31)
}
func (r *RNG) Intn(n int) int {
	if n <= 0 {
		return 0
	}
	return int(r.U64() % uint64(n))
}
func (r *RNG) Bytes(n int) []byte {
	b := make([]byte, n)
	for i := range b {
		b[i] = byte(r.U64())
	}
	return b
}
func (r *RNG) Bool() bool { return r.U64()&1 == 1 }
func (r *RNG) Perm(n int) []int {
	p := make([]int, n)
	for i := range p {
		p[i] = i
	}
	for i := n - 1; i > 0; i-- {
		j := r.Intn(i + 1)
		p[i], p[j] = p[j], p[i]
	}
	return p
}

// Safe runs f and returns a non-empty description if it panicked.
func Safe(f func()) (panicked string) {
	defer func() {
		if r := recover(); r != nil {
			st := debug.Stack()
			if len(st) > 1500 {
				st = st[:1500]
			}
			panicked = fmt.Sprintf("panic: %v\n%s", r, st)
		}
	}()
	f()
	return ""
}

func Hex(b []byte) string { return hex.EncodeToString(b) }
func UnHex(s string) []byte {
	b, err := hex.DecodeString(s)
	if err != nil {
		panic(err)
	}
	return b
}

// ParMap runs f(i) for i in [0,n) on w workers.
func ParMap(n, w int, f func(i int)) {
	if w < 1 {
		w = 1
	}
	var wg sync.WaitGroup
	ch := make(chan int, 1024)
	for k := 0; k < w; k++ {
		wg.Add(1)
		go func() {
			defer wg.Done()
			for i := range ch {
				f(i)
			}
		}()
	}
	for i := 0; i < n; i++ {
		ch <- i
	}
	close(ch)
	wg.Wait()
}

func Must(err error) {
	if err != nil {
		panic(err)
	}
}

func Fatal(format string, a ...interface{}) {
	Flush()
	fmt.Fprintf(os.Stderr, format+"\n", a...)
	os.Exit(3)
}
