// Package ledgerkit: a real on-disk LedgerStoreImp, a block builder (solo or vbft mode) and a scripted
// probe contract registered through the exported native.Contracts map (no change to poly needed).
package ledgerkit

import (
	"encoding/hex"
	"encoding/json"
	"fmt"
	"os"
	"strings"

	"github.com/ontio/ontology-crypto/keypair"
	"github.com/polynetwork/poly/account"
	"github.com/polynetwork/poly/common"
	"github.com/polynetwork/poly/common/config"
	vconfig "github.com/polynetwork/poly/consensus/vbft/config"
	"github.com/polynetwork/poly/core/genesis"
	"github.com/polynetwork/poly/core/signature"
	cstates "github.com/polynetwork/poly/core/states"
	"github.com/polynetwork/poly/core/store"
	"github.com/polynetwork/poly/core/store/ledgerstore"
	"github.com/polynetwork/poly/core/types"
	"github.com/polynetwork/poly/native"
	"github.com/polynetwork/poly/native/event"
	nstates "github.com/polynetwork/poly/native/states"
)

// ProbeAddr is the address of the scripted probe contract; Probe2Addr a second instance for nested calls.
var (
	ProbeAddr  = common.Address{0xff, 0x01}
	Probe2Addr = common.Address{0xff, 0x02}
)

// Step is one scripted action of the probe contract.
//   put k v | del k | get k | rec d (PutMerkleVal) | notify s | fail | call (nested steps on Probe2, Catch: ignore its error)
type Step struct {
	Op    string `json:"op"`
	K     string `json:"k,omitempty"`
	V     string `json:"v,omitempty"`
	Steps []Step `json:"steps,omitempty"`
	Catch bool   `json:"catch,omitempty"`
}

// ProbeReadLog receives (txhash hex, key, value-or-"<nil>") for every "get" step, when set.
var ProbeReadLog func(tx string, key string, val string)

func runProbe(self common.Address) native.Handler {
	return func(ns *native.NativeService) ([]byte, error) {
		var steps []Step
		if err := json.Unmarshal(ns.GetInput(), &steps); err != nil {
			return nil, fmt.Errorf("probe: bad script: %v", err)
		}
		for _, st := range steps {
			key := append(append([]byte{}, self[:]...), []byte(st.K)...)
			switch st.Op {
			case "put":
				ns.GetCacheDB().Put(key, cstates.GenRawStorageItem([]byte(st.V)))
			case "del":
				ns.GetCacheDB().Delete(key)
			case "get":
				raw, err := ns.GetCacheDB().Get(key)
				if err != nil {
					return nil, err
				}
				val := "<nil>"
				if raw != nil {
					v, err := cstates.GetValueFromRawStorageItem(raw)
					if err != nil {
						return nil, err
					}
					val = string(v)
				}
				if ProbeReadLog != nil {
					h := ns.GetTx().Hash()
					ProbeReadLog(h.ToHexString(), st.K, val)
				}
			case "rec":
				ns.PutMerkleVal([]byte(st.K))
			case "notify":
				ns.AddNotify(&event.NotifyEventInfo{ContractAddress: self, States: []interface{}{st.K}})
			case "fail":
				return nil, fmt.Errorf("probe: scripted failure")
			case "call":
				b, _ := json.Marshal(st.Steps)
				_, err := ns.NativeCall(Probe2Addr, "run", b)
				if err != nil && !st.Catch {
					return nil, err
				}
			default:
				return nil, fmt.Errorf("probe: unknown op %q", st.Op)
			}
		}
		return []byte{1}, nil
	}
}

// RegisterProbe installs the probe contracts into native.Contracts.
func RegisterProbe() {
	native.Contracts[ProbeAddr] = func(ns *native.NativeService) { ns.Register("run", runProbe(ProbeAddr)) }
	native.Contracts[Probe2Addr] = func(ns *native.NativeService) { ns.Register("run", runProbe(Probe2Addr)) }
}

// InvokeTx builds a real invoke transaction calling contract.method(args).
func InvokeTx(contract common.Address, method string, args []byte, nonce uint32) *types.Transaction {
	p := &nstates.ContractInvokeParam{Address: contract, Method: method, Args: args}
	s := common.NewZeroCopySink(nil)
	p.Serialization(s)
	return genesis.NewInvokeTransaction(s.Bytes(), nonce)
}

// ProbeTx builds a transaction running a probe script.
func ProbeTx(steps []Step, nonce uint32) *types.Transaction {
	b, _ := json.Marshal(steps)
	return InvokeTx(ProbeAddr, "run", b, nonce)
}

// SignTx adds a single-key witness (real signature) and re-parses the transaction so that its hash is set.
func SignTx(tx *types.Transaction, acc *account.Account) (*types.Transaction, error) {
	h := tx.Hash()
	sig, err := signature.Sign(acc, h[:])
	if err != nil {
		return nil, err
	}
	tx.Sigs = append(tx.Sigs, types.Sig{PubKeys: []keypair.PublicKey{acc.PublicKey}, M: 1, SigData: [][]byte{sig}})
	return Reparse(tx)
}

// MultiSignTx adds an m-of-n witness signed by signers (subset of the keys).
func MultiSignTx(tx *types.Transaction, keys []keypair.PublicKey, m uint16, signers []*account.Account) (*types.Transaction, error) {
	h := tx.Hash()
	var sigs [][]byte
	for _, a := range signers {
		s, err := signature.Sign(a, h[:])
		if err != nil {
			return nil, err
		}
		sigs = append(sigs, s)
	}
	tx.Sigs = append(tx.Sigs, types.Sig{PubKeys: keys, M: m, SigData: sigs})
	return Reparse(tx)
}

func Reparse(tx *types.Transaction) (*types.Transaction, error) {
	sink := common.NewZeroCopySink(nil)
	if err := tx.Serialization(sink); err != nil {
		return nil, err
	}
	return types.TransactionFromRawBytes(sink.Bytes())
}

// Ledger wraps a real LedgerStoreImp with the keys needed to extend it.
type Ledger struct {
	L       *ledgerstore.LedgerStoreImp
	Dir     string
	Genesis *types.Block
	Accts   []*account.Account // bookkeepers / validators
	Vbft    bool
}

// LoadOrCreateAccounts keeps the signing keys in <file> so that several processes share one genesis.
func LoadOrCreateAccounts(file string, n int) []*account.Account {
	var res []*account.Account
	if b, err := os.ReadFile(file); err == nil {
		for _, ln := range strings.Split(strings.TrimSpace(string(b)), "\n") {
			raw, _ := hex.DecodeString(ln)
			k, err := keypair.DeserializePrivateKey(raw)
			if err != nil {
				panic(err)
			}
			a := &account.Account{PrivateKey: k, PublicKey: k.Public(), SigScheme: 1}
			a.Address = types.AddressFromPubKey(a.PublicKey)
			res = append(res, a)
		}
		if len(res) == n {
			return res
		}
		res = nil
	}
	var lines []string
	for i := 0; i < n; i++ {
		a := account.NewAccount("")
		res = append(res, a)
		lines = append(lines, hex.EncodeToString(keypair.SerializePrivateKey(a.PrivateKey)))
	}
	if err := os.WriteFile(file, []byte(strings.Join(lines, "\n")+"\n"), 0600); err != nil {
		panic(err)
	}
	return res
}

func pubkeys(accts []*account.Account) []keypair.PublicKey {
	var r []keypair.PublicKey
	for _, a := range accts {
		r = append(r, a.PublicKey)
	}
	return r
}

// Open opens (creating or recovering) the ledger in dir. Solo mode: accts are the bookkeepers. The genesis
// timestamp is the fixed constant of the repository, so equal keys give an equal genesis block.
func Open(dir string, accts []*account.Account, vbft bool) (*Ledger, error) {
	bks := pubkeys(accts)
	if vbft {
		cfg := &config.VBFTConfig{BlockMsgDelay: 10000, HashMsgDelay: 10000, PeerHandshakeTimeout: 10, MaxBlockChangeView: 1000,
			VrfValue: strings.Repeat("ab", 64), VrfProof: strings.Repeat("cd", 64)}
		for i, a := range accts {
			cfg.Peers = append(cfg.Peers, &config.VBFTPeerInfo{Index: uint32(i + 1), PeerPubkey: vconfig.PubkeyID(a.PublicKey), Address: a.Address.ToBase58()})
		}
		config.DefConfig.Genesis.ConsensusType = "vbft"
		config.DefConfig.Genesis.VBFT = cfg
	} else {
		config.DefConfig.Genesis.ConsensusType = "solo"
	}
	gb, err := genesis.BuildGenesisBlock(bks, config.DefConfig.Genesis)
	if err != nil {
		return nil, fmt.Errorf("genesis: %v", err)
	}
	l, err := ledgerstore.NewLedgerStore(dir)
	if err != nil {
		return nil, fmt.Errorf("NewLedgerStore: %v", err)
	}
	if err := l.InitLedgerStoreWithGenesisBlock(gb, bks); err != nil {
		l.Close()
		return nil, fmt.Errorf("InitLedgerStoreWithGenesisBlock: %v", err)
	}
	return &Ledger{L: l, Dir: dir, Genesis: gb, Accts: accts, Vbft: vbft}, nil
}

// BlockOpts are the knobs used to build valid and deliberately invalid successors.
type BlockOpts struct {
	Height     *uint32
	Prev       *common.Uint256
	Timestamp  *uint32
	BlockRoot  *common.Uint256
	TxRoot     *common.Uint256
	Signers    []*account.Account // default: all of Accts (solo) / all validators (vbft)
	Bookkeeper []keypair.PublicKey
	SigData    [][]byte
	NewConfig  *vconfig.ChainConfig
	CrossRoot  *common.Uint256
	NoSign     bool
}

// Build creates a successor of the current block carrying txs.
func (lg *Ledger) Build(txs []*types.Transaction, o *BlockOpts) *types.Block {
	if o == nil {
		o = &BlockOpts{}
	}
	l := lg.L
	h := l.GetCurrentBlockHeight() + 1
	prev := l.GetCurrentBlockHash()
	if o.Height != nil {
		h = *o.Height
	}
	if o.Prev != nil {
		prev = *o.Prev
	}
	var hashes []common.Uint256
	for _, t := range txs {
		hashes = append(hashes, t.Hash())
	}
	ts := lg.Genesis.Header.Timestamp + h
	if o.Timestamp != nil {
		ts = *o.Timestamp
	}
	hdr := &types.Header{PrevBlockHash: prev, Height: h, Timestamp: ts, TransactionsRoot: common.ComputeMerkleRoot(hashes),
		BlockRoot: l.GetBlockRootWithPreBlockHashes(h, []common.Uint256{prev}), ConsensusData: uint64(h), ChainID: lg.Genesis.Header.ChainID}
	if o.BlockRoot != nil {
		hdr.BlockRoot = *o.BlockRoot
	}
	if o.TxRoot != nil {
		hdr.TransactionsRoot = *o.TxRoot
	}
	if o.CrossRoot != nil {
		hdr.CrossStateRoot = *o.CrossRoot
	} else if h > 0 {
		if r, err := l.GetCrossStateRoot(h - 1); err == nil {
			hdr.CrossStateRoot = r
		}
	}
	if lg.Vbft {
		info := &vconfig.VbftBlockInfo{Proposer: 1, LastConfigBlockNum: 0, NewChainConfig: o.NewConfig}
		hdr.ConsensusPayload, _ = json.Marshal(info)
	} else {
		nb, _ := types.AddressFromBookkeepers(pubkeys(lg.Accts))
		hdr.NextBookkeeper = nb
	}
	b := &types.Block{Header: hdr, Transactions: txs}
	if o.NoSign {
		return b
	}
	signers := o.Signers
	if signers == nil {
		signers = lg.Accts
	}
	hash := b.Hash()
	for _, s := range signers {
		sig, err := signature.Sign(s, hash[:])
		if err != nil {
			panic(err)
		}
		hdr.Bookkeepers = append(hdr.Bookkeepers, s.PublicKey)
		hdr.SigData = append(hdr.SigData, sig)
	}
	if o.Bookkeeper != nil {
		hdr.Bookkeepers = o.Bookkeeper
	}
	if o.SigData != nil {
		hdr.SigData = o.SigData
	}
	return b
}

// Commit runs the consensus path: ExecuteBlock + SubmitBlock.
func (lg *Ledger) Commit(b *types.Block) (store.ExecuteResult, error) {
	res, err := lg.L.ExecuteBlock(b)
	if err != nil {
		return res, fmt.Errorf("execute: %v", err)
	}
	if err := lg.L.SubmitBlock(b, res); err != nil {
		return res, fmt.Errorf("submit: %v", err)
	}
	return res, nil
}

// Projection is the abstract ledger state compared with the specification.
type Projection struct {
	BlockHeight  uint32            `json:"block"`
	StateHeight  uint32            `json:"state"`
	HeaderHeight uint32            `json:"header"`
	TreeSize     uint32            `json:"tree"`
	BlockHash    string            `json:"hash"`
	StateRoot    string            `json:"stateRoot"`
	NextRoot     string            `json:"nextBlockRoot"`
	Probe        map[string]string `json:"probe"`
}

// Project reads the ledger's externally visible state; keys are the probe keys to read back.
func (lg *Ledger) Project(keys []string) Projection {
	l := lg.L
	p := Projection{Probe: map[string]string{}}
	p.BlockHeight = l.GetCurrentBlockHeight()
	p.HeaderHeight = l.GetCurrentHeaderHeight()
	sh, _ := l.VerifStateHeight()
	p.StateHeight = sh
	p.TreeSize = l.VerifBlockTreeSize()
	ch := l.GetCurrentBlockHash()
	p.BlockHash = ch.ToHexString()
	if r, err := l.GetStateMerkleRoot(sh); err == nil {
		p.StateRoot = r.ToHexString()
	}
	nr := l.GetBlockRootWithPreBlockHashes(p.BlockHeight+1, []common.Uint256{ch})
	p.NextRoot = nr.ToHexString()
	for _, k := range keys {
		it, err := l.GetStorageItem(&cstates.StorageKey{ContractAddress: ProbeAddr, Key: []byte(k)})
		if err != nil || it == nil {
			p.Probe[k] = "<nil>"
		} else {
			p.Probe[k] = string(it.Value)
		}
	}
	return p
}
