// Package nativekit builds a real native.NativeService over CacheDB -> OverlayDB -> in-memory LevelDB,
// the way the repository's own contract tests do, plus helpers to seed validators and project storage.
package nativekit

import (
	"encoding/hex"
	"sort"

	"github.com/ontio/ontology-crypto/keypair"
	"github.com/polynetwork/poly/account"
	"github.com/polynetwork/poly/common"
	"github.com/polynetwork/poly/common/config"
	vconfig "github.com/polynetwork/poly/consensus/vbft/config"
	cstates "github.com/polynetwork/poly/core/states"
	"github.com/polynetwork/poly/core/store/leveldbstore"
	"github.com/polynetwork/poly/core/store/overlaydb"
	"github.com/polynetwork/poly/core/types"
	"github.com/polynetwork/poly/native"
	"github.com/polynetwork/poly/native/service/governance/node_manager"
	"github.com/polynetwork/poly/native/service/utils"
	"github.com/polynetwork/poly/native/storage"
)

// Sandbox is one contract-storage universe. Each call gets a fresh NativeService over the same CacheDB;
// writes of a failed call are discarded by Reset (as the ledger does per transaction), successful ones are
// committed to the overlay.
type Sandbox struct {
	Store   *leveldbstore.LevelDBStore
	Overlay *overlaydb.OverlayDB
	Cache   *storage.CacheDB
	Height  uint32
	Time    uint32
}

func init() {
	// native/service's init sets this flag, which makes SideChain codecs dereference ledger.DefLedger (nil here).
	config.EXTRA_INFO_HEIGHT_FORK_CHECK = false
}

func New() *Sandbox {
	config.EXTRA_INFO_HEIGHT_FORK_CHECK = false
	st, err := leveldbstore.NewMemLevelDBStore()
	if err != nil {
		panic(err)
	}
	ov := overlaydb.NewOverlayDB(st)
	return &Sandbox{Store: st, Overlay: ov, Cache: storage.NewCacheDB(ov), Height: 1, Time: 1000}
}

// Tx returns a transaction whose witnesses are exactly addrs (SignedAddr short-circuit, no signatures).
func Tx(addrs ...common.Address) *types.Transaction {
	return &types.Transaction{SignedAddr: addrs}
}

// Service returns a fresh NativeService for one contract call.
func (s *Sandbox) Service(tx *types.Transaction, input []byte) *native.NativeService {
	ns, err := native.NewNativeService(s.Cache, tx, s.Time, s.Height, common.Uint256{}, 0, input, false)
	if err != nil {
		panic(err)
	}
	return ns
}

// Call runs handler atomically: on error (or panic -> re-panic) the cache is reset, otherwise committed.
func (s *Sandbox) Call(h native.Handler, tx *types.Transaction, input []byte) (res []byte, ns *native.NativeService, err error) {
	s.Cache.Reset()
	ns = s.Service(tx, input)
	res, err = h(ns)
	if err != nil {
		s.Cache.Reset()
		return
	}
	s.Cache.Commit()
	return
}

// Accounts creates n fresh ECDSA accounts.
func Accounts(n int) []*account.Account {
	r := make([]*account.Account, n)
	for i := range r {
		r[i] = account.NewAccount("")
	}
	return r
}

// SeedValidators installs accts as the consensus pool of view `view` (status ConsensusStatus, index i+1).
func (s *Sandbox) SeedValidators(accts []*account.Account, view uint32) {
	m := &node_manager.PeerPoolMap{PeerPoolMap: make(map[string]*node_manager.PeerPoolItem)}
	for i, a := range accts {
		id := vconfig.PubkeyID(a.PublicKey)
		m.PeerPoolMap[id] = &node_manager.PeerPoolItem{Index: uint32(i + 1), PeerPubkey: id, Address: a.Address, Status: node_manager.ConsensusStatus}
	}
	s.PutPool(m, view)
	gv := node_manager.GovernanceView{View: view, Height: s.Height, TxHash: common.UINT256_EMPTY}
	sink := common.NewZeroCopySink(nil)
	gv.Serialization(sink)
	s.Cache.Put(utils.ConcatKey(utils.NodeManagerContractAddress, []byte(node_manager.GOVERNANCE_VIEW)), cstates.GenRawStorageItem(sink.Bytes()))
	s.Cache.Commit()
}

func (s *Sandbox) PutPool(m *node_manager.PeerPoolMap, view uint32) {
	sink := common.NewZeroCopySink(nil)
	m.Serialization(sink)
	s.Cache.Put(utils.ConcatKey(utils.NodeManagerContractAddress, []byte(node_manager.PEER_POOL), utils.GetUint32Bytes(view)), cstates.GenRawStorageItem(sink.Bytes()))
	s.Cache.Commit()
}

// Operator returns the consensus operator address (multi-sig over the validators' keys).
func Operator(accts []*account.Account) common.Address {
	var pks []keypair.PublicKey
	for _, a := range accts {
		pks = append(pks, a.PublicKey)
	}
	addr, err := types.AddressFromBookkeepers(pks)
	if err != nil {
		panic(err)
	}
	return addr
}

// Dump returns every storage entry (key without the ST_STORAGE prefix) visible through the cache, hex -> hex.
func (s *Sandbox) Dump() map[string]string {
	res := make(map[string]string)
	it := s.Cache.NewIterator(nil)
	defer it.Release()
	for ok := it.First(); ok; ok = it.Next() {
		res[hex.EncodeToString(it.Key())] = hex.EncodeToString(it.Value())
	}
	return res
}

// DumpContract restricts Dump to one contract and strips the 20-byte address.
func (s *Sandbox) DumpContract(c common.Address) map[string]string {
	res := make(map[string]string)
	it := s.Cache.NewIterator(c[:])
	defer it.Release()
	for ok := it.First(); ok; ok = it.Next() {
		res[hex.EncodeToString(it.Key()[20:])] = hex.EncodeToString(it.Value())
	}
	return res
}

// Diff lists keys whose value differs between two dumps ("" = absent).
func Diff(a, b map[string]string) []string {
	var ks []string
	for k, v := range a {
		if b[k] != v {
			ks = append(ks, k)
		}
	}
	for k := range b {
		if _, ok := a[k]; !ok {
			ks = append(ks, k)
		}
	}
	sort.Strings(ks)
	return ks
}

// WriteSet returns the raw (prefixed) keys currently in the overlay's write buffer, hex -> hex ("" = tombstone).
func (s *Sandbox) WriteSet() map[string]string {
	res := make(map[string]string)
	s.Overlay.GetWriteSet().ForEach(func(k, v []byte) {
		res[hex.EncodeToString(k)] = hex.EncodeToString(v)
	})
	return res
}
