module verifh

go 1.14

require (
	github.com/btcsuite/btcd v0.21.0-beta
	github.com/btcsuite/btcutil v1.0.3-0.20201208143702-a53e38424cce
	github.com/confio/ics23/go v0.6.6
	github.com/ethereum/go-ethereum v1.9.25
	github.com/joeqian10/neo-gogogo v1.1.0
	github.com/joeqian10/neo3-gogogo v0.3.8
	github.com/ontio/ontology v1.11.1-0.20200812075204-26cf1fa5dd47
	github.com/ontio/ontology-crypto v1.0.9
	github.com/ontio/ontology-eventbus v0.9.1
	github.com/polynetwork/poly v0.0.0
	github.com/syndtr/goleveldb v1.0.1-0.20200815110645-5c35d600f0ca
	github.com/tendermint/tendermint v0.33.7
	golang.org/x/crypto v0.0.0-20220214200702-86341886e292
)

replace github.com/polynetwork/poly => /repo

replace github.com/harmony-one/bls => /verif/harness/stubs/bls

replace github.com/btcsuite/btcutil v1.0.3-0.20201208143702-a53e38424cce => github.com/btcsuite/btcutil v1.0.2

replace github.com/ethereum/go-ethereum v1.9.25 => github.com/ethereum/go-ethereum v1.9.15

replace github.com/harmony-one/harmony v1.10.3-0.20220216090956-7e6b16aec8dc => github.com/devfans/harmony v1.10.3-0.20220304055439-856e256b615f

replace github.com/rubblelabs/ripple v0.0.0-20220222071018-38c1a8b14c18 => github.com/siovanus/ripple v0.0.0-20220406100637-81f6afe283d9

replace github.com/tendermint/tm-db/064 => github.com/tendermint/tm-db v0.6.4

replace golang.org/x/crypto v0.0.0-20210506145944-38f3c27a63bf => golang.org/x/crypto v0.0.0-20210322153248-0c34fe9e7dc2
