module github.com/harmony-one/bls

go 1.14
