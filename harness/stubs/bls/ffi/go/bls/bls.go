// Code generated for the verification sandbox: pure-Go stub of the cgo BLS binding (no mcl/bls libs offline).
package bls

import ("io")

const stubMsg = "harmony bls cgo binding is stubbed in the verification harness"

const CurveFp254BNb = 0
const CurveFp382_1 = 1
const CurveFp382_2 = 2
const BLS12_381 = 5
const IoSerializeHexStr = 2048

type ID struct{ v [32]byte }
type SecretKey struct{ v [32]byte }
type PublicKey struct{ v [144]byte }
type Sign struct{ v [288]byte }
type Fr struct{ v [32]byte }
type G1 struct{ v [144]byte }
type G2 struct{ v [288]byte }
type GT struct{ v [576]byte }

var _ io.Reader

func Init(curve int) error { return nil }
func (pub *PublicKey) GetAddress() [20]byte { panic(stubMsg) }
func (id *ID) Serialize() []byte { panic(stubMsg) }
func (id *ID) Deserialize(buf []byte) error { panic(stubMsg) }
func (id *ID) GetLittleEndian() []byte { panic(stubMsg) }
func (id *ID) SetLittleEndian(buf []byte) error { panic(stubMsg) }
func (id *ID) SerializeToHexStr() string { panic(stubMsg) }
func (id *ID) DeserializeHexStr(s string) error { panic(stubMsg) }
func (id *ID) IsEqual(rhs *ID) bool { panic(stubMsg) }
func (sec *SecretKey) Serialize() []byte { panic(stubMsg) }
func (sec *SecretKey) Deserialize(buf []byte) error { panic(stubMsg) }
func (sec *SecretKey) GetLittleEndian() []byte { panic(stubMsg) }
func (sec *SecretKey) SetLittleEndian(buf []byte) error { panic(stubMsg) }
func (sec *SecretKey) SerializeToHexStr() string { panic(stubMsg) }
func (sec *SecretKey) DeserializeHexStr(s string) error { panic(stubMsg) }
func (sec *SecretKey) IsEqual(rhs *SecretKey) bool { panic(stubMsg) }
func (sec *SecretKey) SetByCSPRNG() { panic(stubMsg) }
func (sec *SecretKey) Add(rhs *SecretKey) { panic(stubMsg) }
func (sec *SecretKey) GetMasterSecretKey(k int) (msk []SecretKey) { panic(stubMsg) }
func GetMasterPublicKey(msk []SecretKey) (mpk []PublicKey) { panic(stubMsg) }
func (sec *SecretKey) Set(msk []SecretKey, id *ID) error { panic(stubMsg) }
func (sec *SecretKey) Recover(secVec []SecretKey, idVec []ID) error { panic(stubMsg) }
func (sec *SecretKey) GetPop() (sig *Sign) { panic(stubMsg) }
func (pub *PublicKey) Serialize() []byte { panic(stubMsg) }
func (pub *PublicKey) Deserialize(buf []byte) error { panic(stubMsg) }
func (pub *PublicKey) SerializeToHexStr() string { panic(stubMsg) }
func (pub *PublicKey) DeserializeHexStr(s string) error { panic(stubMsg) }
func (pub *PublicKey) IsEqual(rhs *PublicKey) bool { panic(stubMsg) }
func (pub *PublicKey) Add(rhs *PublicKey) { panic(stubMsg) }
func (pub *PublicKey) Sub(rhs *PublicKey) { panic(stubMsg) }
func (pub *PublicKey) Set(mpk []PublicKey, id *ID) error { panic(stubMsg) }
func (pub *PublicKey) Recover(pubVec []PublicKey, idVec []ID) error { panic(stubMsg) }
func (sig *Sign) Serialize() []byte { panic(stubMsg) }
func (sig *Sign) Deserialize(buf []byte) error { panic(stubMsg) }
func (sig *Sign) SerializeToHexStr() string { panic(stubMsg) }
func (sig *Sign) DeserializeHexStr(s string) error { panic(stubMsg) }
func (sig *Sign) IsEqual(rhs *Sign) bool { panic(stubMsg) }
func (sec *SecretKey) GetPublicKey() (pub *PublicKey) { panic(stubMsg) }
func (sec *SecretKey) Sign(m string) (sig *Sign) { panic(stubMsg) }
func (sig *Sign) Add(rhs *Sign) { panic(stubMsg) }
func (sig *Sign) Recover(sigVec []Sign, idVec []ID) error { panic(stubMsg) }
func (sig *Sign) Verify(pub *PublicKey, m string) bool { panic(stubMsg) }
func (sig *Sign) VerifyPop(pub *PublicKey) bool { panic(stubMsg) }
func DHKeyExchange(sec *SecretKey, pub *PublicKey) (out PublicKey) { panic(stubMsg) }
func HashAndMapToSignature(buf []byte) *Sign { panic(stubMsg) }
func VerifyPairing(X *Sign, Y *Sign, pub *PublicKey) bool { panic(stubMsg) }
func (sec *SecretKey) SignHash(hash []byte) (sig *Sign) { panic(stubMsg) }
func (sig *Sign) VerifyHash(pub *PublicKey, hash []byte) bool { panic(stubMsg) }
func (sig *Sign) VerifyAggregateHashes(pubVec []PublicKey, hash [][]byte) bool { panic(stubMsg) }
func SetRandFunc(randReader io.Reader) {  }
func GetFrUnitSize() int { panic(stubMsg) }
func GetFpUnitSize() int { panic(stubMsg) }
func GetMaxOpUnitSize() int { panic(stubMsg) }
func GetOpUnitSize() int { panic(stubMsg) }
func GetCurveOrder() string { panic(stubMsg) }
func GetFieldOrder() string { panic(stubMsg) }
func (x *Fr) Clear() { panic(stubMsg) }
func (x *Fr) SetInt64(v int64) { panic(stubMsg) }
func (x *Fr) SetString(s string, base int) error { panic(stubMsg) }
func (x *Fr) Deserialize(buf []byte) error { panic(stubMsg) }
func (x *Fr) SetLittleEndian(buf []byte) error { panic(stubMsg) }
func (x *Fr) IsEqual(rhs *Fr) bool { panic(stubMsg) }
func (x *Fr) IsZero() bool { panic(stubMsg) }
func (x *Fr) IsOne() bool { panic(stubMsg) }
func (x *Fr) SetByCSPRNG() { panic(stubMsg) }
func (x *Fr) SetHashOf(buf []byte) bool { panic(stubMsg) }
func (x *Fr) GetString(base int) string { panic(stubMsg) }
func (x *Fr) Serialize() []byte { panic(stubMsg) }
func FrNeg(out *Fr, x *Fr) { panic(stubMsg) }
func FrInv(out *Fr, x *Fr) { panic(stubMsg) }
func FrAdd(out *Fr, x *Fr, y *Fr) { panic(stubMsg) }
func FrSub(out *Fr, x *Fr, y *Fr) { panic(stubMsg) }
func FrMul(out *Fr, x *Fr, y *Fr) { panic(stubMsg) }
func FrDiv(out *Fr, x *Fr, y *Fr) { panic(stubMsg) }
func (x *G1) Clear() { panic(stubMsg) }
func (x *G1) SetString(s string, base int) error { panic(stubMsg) }
func (x *G1) Deserialize(buf []byte) error { panic(stubMsg) }
func (x *G1) IsEqual(rhs *G1) bool { panic(stubMsg) }
func (x *G1) IsZero() bool { panic(stubMsg) }
func (x *G1) HashAndMapTo(buf []byte) error { panic(stubMsg) }
func (x *G1) GetString(base int) string { panic(stubMsg) }
func (x *G1) Serialize() []byte { panic(stubMsg) }
func G1Neg(out *G1, x *G1) { panic(stubMsg) }
func G1Dbl(out *G1, x *G1) { panic(stubMsg) }
func G1Add(out *G1, x *G1, y *G1) { panic(stubMsg) }
func G1Sub(out *G1, x *G1, y *G1) { panic(stubMsg) }
func G1Mul(out *G1, x *G1, y *Fr) { panic(stubMsg) }
func G1MulCT(out *G1, x *G1, y *Fr) { panic(stubMsg) }
func (x *G2) Clear() { panic(stubMsg) }
func (x *G2) SetString(s string, base int) error { panic(stubMsg) }
func (x *G2) Deserialize(buf []byte) error { panic(stubMsg) }
func (x *G2) IsEqual(rhs *G2) bool { panic(stubMsg) }
func (x *G2) IsZero() bool { panic(stubMsg) }
func (x *G2) HashAndMapTo(buf []byte) error { panic(stubMsg) }
func (x *G2) GetString(base int) string { panic(stubMsg) }
func (x *G2) Serialize() []byte { panic(stubMsg) }
func G2Neg(out *G2, x *G2) { panic(stubMsg) }
func G2Dbl(out *G2, x *G2) { panic(stubMsg) }
func G2Add(out *G2, x *G2, y *G2) { panic(stubMsg) }
func G2Sub(out *G2, x *G2, y *G2) { panic(stubMsg) }
func G2Mul(out *G2, x *G2, y *Fr) { panic(stubMsg) }
func (x *GT) Clear() { panic(stubMsg) }
func (x *GT) SetInt64(v int64) { panic(stubMsg) }
func (x *GT) SetString(s string, base int) error { panic(stubMsg) }
func (x *GT) Deserialize(buf []byte) error { panic(stubMsg) }
func (x *GT) IsEqual(rhs *GT) bool { panic(stubMsg) }
func (x *GT) IsZero() bool { panic(stubMsg) }
func (x *GT) IsOne() bool { panic(stubMsg) }
func (x *GT) GetString(base int) string { panic(stubMsg) }
func (x *GT) Serialize() []byte { panic(stubMsg) }
func GTNeg(out *GT, x *GT) { panic(stubMsg) }
func GTInv(out *GT, x *GT) { panic(stubMsg) }
func GTAdd(out *GT, x *GT, y *GT) { panic(stubMsg) }
func GTSub(out *GT, x *GT, y *GT) { panic(stubMsg) }
func GTMul(out *GT, x *GT, y *GT) { panic(stubMsg) }
func GTDiv(out *GT, x *GT, y *GT) { panic(stubMsg) }
func GTPow(out *GT, x *GT, y *Fr) { panic(stubMsg) }
func Pairing(out *GT, x *G1, y *G2) { panic(stubMsg) }
func FinalExp(out *GT, x *GT) { panic(stubMsg) }
func MillerLoop(out *GT, x *G1, y *G2) { panic(stubMsg) }
func GetUint64NumToPrecompute() int { panic(stubMsg) }
func PrecomputeG2(Qbuf []uint64, Q *G2) { panic(stubMsg) }
func PrecomputedMillerLoop(out *GT, P *G1, Qbuf []uint64) { panic(stubMsg) }
func PrecomputedMillerLoop2(out *GT, P1 *G1, Q1buf []uint64, P2 *G1, Q2buf []uint64) { panic(stubMsg) }
func FrEvaluatePolynomial(y *Fr, c []Fr, x *Fr) error { panic(stubMsg) }
func G1EvaluatePolynomial(y *G1, c []G1, x *Fr) error { panic(stubMsg) }
func G2EvaluatePolynomial(y *G2, c []G2, x *Fr) error { panic(stubMsg) }
func FrLagrangeInterpolation(out *Fr, xVec []Fr, yVec []Fr) error { panic(stubMsg) }
func G1LagrangeInterpolation(out *G1, xVec []Fr, yVec []G1) error { panic(stubMsg) }
func G2LagrangeInterpolation(out *G2, xVec []Fr, yVec []G2) error { panic(stubMsg) }
