package main

// Abstract values (the spec's value shapes) and their binding to Go values by reflection.
//
//   fixed ints / varuint / byte strings / addresses / hashes / bigint magnitudes : []byte
//   bool                                                                        : bool
//   list, struct                                                                : []interface{}
//   map, mapv                                                                   : []pair (kept sorted by key bytes)

import (
	"bytes"
	"encoding/binary"
	"encoding/json"
	"fmt"
	"math/big"
	"reflect"
	"sort"

	"verifh/kit/vio"
)

type Field struct {
	N string `json:"n"`
	T *Kind  `json:"t"`
	C string `json:"c"`
}

type Kind struct {
	K    string  `json:"k"`
	Cnt  string  `json:"cnt"`
	Of   *Kind   `json:"of"`
	Key  *Kind   `json:"key"`
	Val  *Kind   `json:"val"`
	Item *Kind   `json:"item"`
	Kf   int     `json:"kf"`
	Ord  string  `json:"ord"`
	Fs   []Field `json:"fs"`
}

type pair struct {
	K interface{}
	V interface{}
}

func fixedW(k string) int {
	switch k {
	case "u8":
		return 1
	case "u16":
		return 2
	case "u32":
		return 4
	case "u64", "i64", "varuint":
		return 8
	case "addr", "vaddr":
		return 20
	case "hash":
		return 32
	}
	return 0
}

func isBytesKind(k string) bool {
	switch k {
	case "u8", "u16", "u32", "u64", "i64", "varuint", "varbytes", "string", "addr", "vaddr", "hash", "bigint", "opttail":
		return true
	}
	return false
}

func jsonBytes(raw json.RawMessage) ([]byte, error) {
	var xs []int
	if err := json.Unmarshal(raw, &xs); err != nil {
		return nil, err
	}
	b := make([]byte, len(xs))
	for i, x := range xs {
		if x < 0 || x > 255 {
			return nil, fmt.Errorf("byte out of range %d", x)
		}
		b[i] = byte(x)
	}
	return b, nil
}

// parseVal turns the JSON form printed by TLC into an abstract value, guided by the schema.
func parseVal(t *Kind, raw json.RawMessage) (interface{}, error) {
	switch {
	case isBytesKind(t.K):
		b, err := jsonBytes(raw)
		if err != nil {
			return nil, fmt.Errorf("%s: %v", t.K, err)
		}
		if w := fixedW(t.K); w > 0 && len(b) != w {
			return nil, fmt.Errorf("%s: width %d", t.K, len(b))
		}
		return b, nil
	case t.K == "bool":
		var v bool
		err := json.Unmarshal(raw, &v)
		return v, err
	case t.K == "list":
		var xs []json.RawMessage
		if err := json.Unmarshal(raw, &xs); err != nil {
			return nil, err
		}
		res := make([]interface{}, len(xs))
		for i, x := range xs {
			v, err := parseVal(t.Of, x)
			if err != nil {
				return nil, err
			}
			res[i] = v
		}
		return res, nil
	case t.K == "struct":
		var xs []json.RawMessage
		if err := json.Unmarshal(raw, &xs); err != nil {
			return nil, err
		}
		if len(xs) != len(t.Fs) {
			return nil, fmt.Errorf("struct arity %d vs %d", len(xs), len(t.Fs))
		}
		res := make([]interface{}, len(xs))
		for i, x := range xs {
			v, err := parseVal(t.Fs[i].T, x)
			if err != nil {
				return nil, fmt.Errorf("%s: %v", t.Fs[i].N, err)
			}
			res[i] = v
		}
		return res, nil
	case t.K == "map" || t.K == "mapv":
		var xs [][]json.RawMessage
		if err := json.Unmarshal(raw, &xs); err != nil {
			return nil, err
		}
		res := make([]pair, 0, len(xs))
		for _, e := range xs {
			if len(e) != 2 {
				return nil, fmt.Errorf("map entry arity")
			}
			kt, vt := t.Key, t.Val
			if t.K == "mapv" {
				kt, vt = t.Item.Fs[t.Kf-1].T, t.Item
			}
			k, err := parseVal(kt, e[0])
			if err != nil {
				return nil, err
			}
			v, err := parseVal(vt, e[1])
			if err != nil {
				return nil, err
			}
			res = append(res, pair{k, v})
		}
		sortPairs(res)
		return res, nil
	}
	return nil, fmt.Errorf("unknown kind %q", t.K)
}

func sortPairs(ps []pair) {
	sort.SliceStable(ps, func(i, j int) bool { return bytes.Compare(ps[i].K.([]byte), ps[j].K.([]byte)) < 0 })
}

func absEqual(a, b interface{}) bool {
	switch x := a.(type) {
	case []byte:
		y, ok := b.([]byte)
		return ok && bytes.Equal(x, y)
	case bool:
		y, ok := b.(bool)
		return ok && x == y
	case []interface{}:
		y, ok := b.([]interface{})
		if !ok || len(x) != len(y) {
			return false
		}
		for i := range x {
			if !absEqual(x[i], y[i]) {
				return false
			}
		}
		return true
	case []pair:
		y, ok := b.([]pair)
		if !ok || len(x) != len(y) {
			return false
		}
		for i := range x {
			if !absEqual(x[i].K, y[i].K) || !absEqual(x[i].V, y[i].V) {
				return false
			}
		}
		return true
	}
	return false
}

func absString(a interface{}) string {
	switch x := a.(type) {
	case []byte:
		if len(x) > 40 {
			return fmt.Sprintf("%x..(%d)", x[:16], len(x))
		}
		return fmt.Sprintf("%x", x)
	case bool:
		return fmt.Sprint(x)
	case []interface{}:
		s := "["
		for i, e := range x {
			if i > 0 {
				s += " "
			}
			s += absString(e)
		}
		return s + "]"
	case []pair:
		s := "{"
		for i, e := range x {
			if i > 0 {
				s += " "
			}
			s += absString(e.K) + ":" + absString(e.V)
		}
		return s + "}"
	}
	return fmt.Sprintf("?%T", a)
}

// ---------------------------------------------------------------------------------------------
// independent reference encoder (written from the format description, not from poly's sink)
// ---------------------------------------------------------------------------------------------

func refVarUint(out *bytes.Buffer, n uint64) {
	var tmp [8]byte
	switch {
	case n < 0xFD:
		out.WriteByte(byte(n))
	case n <= 0xFFFF:
		out.WriteByte(0xFD)
		binary.LittleEndian.PutUint16(tmp[:], uint16(n))
		out.Write(tmp[:2])
	case n <= 0xFFFFFFFF:
		out.WriteByte(0xFE)
		binary.LittleEndian.PutUint32(tmp[:], uint32(n))
		out.Write(tmp[:4])
	default:
		out.WriteByte(0xFF)
		binary.LittleEndian.PutUint64(tmp[:], n)
		out.Write(tmp[:8])
	}
}

func refCount(out *bytes.Buffer, cnt string, n int) {
	if cnt == "u64" {
		var tmp [8]byte
		binary.LittleEndian.PutUint64(tmp[:], uint64(n))
		out.Write(tmp[:])
		return
	}
	refVarUint(out, uint64(n))
}

func keyOrderBytes(ord string, k []byte) []byte {
	if ord == "rev" {
		r := make([]byte, len(k))
		for i := range k {
			r[i] = k[len(k)-1-i]
		}
		return r
	}
	return k
}

func refEnc(out *bytes.Buffer, t *Kind, v interface{}) {
	switch t.K {
	case "u8", "u16", "u32", "u64", "i64", "addr", "hash":
		out.Write(v.([]byte))
	case "varuint":
		refVarUint(out, binary.LittleEndian.Uint64(v.([]byte)))
	case "bool":
		if v.(bool) {
			out.WriteByte(1)
		} else {
			out.WriteByte(0)
		}
	case "varbytes", "string", "vaddr", "bigint", "opttail":
		b := v.([]byte)
		refVarUint(out, uint64(len(b)))
		out.Write(b)
	case "list":
		xs := v.([]interface{})
		refCount(out, t.Cnt, len(xs))
		for _, x := range xs {
			refEnc(out, t.Of, x)
		}
	case "map", "mapv":
		ps := append([]pair(nil), v.([]pair)...)
		sort.SliceStable(ps, func(i, j int) bool { // descending in the map's order
			return bytes.Compare(keyOrderBytes(t.Ord, ps[i].K.([]byte)), keyOrderBytes(t.Ord, ps[j].K.([]byte))) > 0
		})
		refCount(out, t.Cnt, len(ps))
		for _, p := range ps {
			if t.K == "map" {
				refEnc(out, t.Key, p.K)
				refEnc(out, t.Val, p.V)
			} else {
				refEnc(out, t.Item, p.V)
			}
		}
	case "struct":
		xs := v.([]interface{})
		for i, f := range t.Fs {
			refEnc(out, f.T, xs[i])
		}
	default:
		panic("refEnc: kind " + t.K)
	}
}

// ---------------------------------------------------------------------------------------------
// abstract value -> Go value
// ---------------------------------------------------------------------------------------------

type schemaMismatch struct{ msg string }

func mismatch(format string, a ...interface{}) { panic(schemaMismatch{fmt.Sprintf(format, a...)}) }

func le(b []byte) uint64 {
	var tmp [8]byte
	copy(tmp[:], b)
	return binary.LittleEndian.Uint64(tmp[:])
}

var bigIntPtr = reflect.TypeOf((*big.Int)(nil))

func exportedFields(rt reflect.Type) []int {
	var idx []int
	for i := 0; i < rt.NumField(); i++ {
		if rt.Field(i).PkgPath == "" { // exported (embedded exported structs included)
			idx = append(idx, i)
		}
	}
	return idx
}

// build fills rv (settable) from the abstract value; rng decides map insertion orders and nil-vs-empty slices.
func build(rv reflect.Value, t *Kind, v interface{}, rng *vio.RNG) {
	switch t.K {
	case "u8", "u16", "u32", "u64", "varuint":
		switch rv.Kind() {
		case reflect.Uint8, reflect.Uint16, reflect.Uint32, reflect.Uint64, reflect.Uint:
			rv.SetUint(le(v.([]byte)))
		default:
			mismatch("%s into %s", t.K, rv.Type())
		}
	case "i64":
		if rv.Kind() != reflect.Int64 {
			mismatch("i64 into %s", rv.Type())
		}
		rv.SetInt(int64(le(v.([]byte))))
	case "bool":
		if rv.Kind() != reflect.Bool {
			mismatch("bool into %s", rv.Type())
		}
		rv.SetBool(v.(bool))
	case "varbytes", "string", "opttail":
		b := v.([]byte)
		switch {
		case rv.Kind() == reflect.String:
			rv.SetString(string(b))
		case rv.Kind() == reflect.Slice && rv.Type().Elem().Kind() == reflect.Uint8:
			if len(b) == 0 && rng.Bool() {
				rv.Set(reflect.Zero(rv.Type())) // nil and empty are the same abstract value
			} else {
				rv.SetBytes(append([]byte{}, b...))
			}
		default:
			mismatch("%s into %s", t.K, rv.Type())
		}
	case "addr", "vaddr", "hash":
		b := v.([]byte)
		if rv.Kind() != reflect.Array || rv.Len() != len(b) || rv.Type().Elem().Kind() != reflect.Uint8 {
			mismatch("%s into %s", t.K, rv.Type())
		}
		reflect.Copy(rv, reflect.ValueOf(b))
	case "bigint":
		if rv.Type() != bigIntPtr {
			mismatch("bigint into %s", rv.Type())
		}
		rv.Set(reflect.ValueOf(new(big.Int).SetBytes(v.([]byte))))
	case "list":
		xs := v.([]interface{})
		if rv.Kind() != reflect.Slice {
			mismatch("list into %s", rv.Type())
		}
		if len(xs) == 0 && rng.Bool() {
			rv.Set(reflect.Zero(rv.Type()))
			return
		}
		s := reflect.MakeSlice(rv.Type(), len(xs), len(xs))
		for i, x := range xs {
			build(s.Index(i), t.Of, x, rng)
		}
		rv.Set(s)
	case "map", "mapv":
		ps := v.([]pair)
		if rv.Kind() != reflect.Map {
			mismatch("map into %s", rv.Type())
		}
		m := reflect.MakeMap(rv.Type())
		kt, vt := t.Key, t.Val
		if t.K == "mapv" {
			kt, vt = t.Item.Fs[t.Kf-1].T, t.Item
		}
		for _, i := range rng.Perm(len(ps)) {
			k := reflect.New(rv.Type().Key()).Elem()
			build(k, kt, ps[i].K, rng)
			e := reflect.New(rv.Type().Elem()).Elem()
			build(e, vt, ps[i].V, rng)
			m.SetMapIndex(k, e)
		}
		rv.Set(m)
	case "struct":
		xs := v.([]interface{})
		if rv.Kind() == reflect.Ptr {
			p := reflect.New(rv.Type().Elem())
			build(p.Elem(), t, v, rng)
			rv.Set(p)
			return
		}
		if rv.Kind() != reflect.Struct {
			if len(t.Fs) == 1 { // a named scalar (node_manager.Status)
				build(rv, t.Fs[0].T, xs[0], rng)
				return
			}
			mismatch("struct into %s", rv.Type())
		}
		idx := exportedFields(rv.Type())
		if len(idx) != len(t.Fs) {
			mismatch("%s has %d exported fields, schema has %d", rv.Type(), len(idx), len(t.Fs))
		}
		for i, f := range t.Fs {
			if rv.Type().Field(idx[i]).Name != f.N {
				mismatch("%s field %d is %s, schema says %s", rv.Type(), i, rv.Type().Field(idx[i]).Name, f.N)
			}
			build(rv.Field(idx[i]), f.T, xs[i], rng)
		}
	default:
		mismatch("kind %s", t.K)
	}
}

// ---------------------------------------------------------------------------------------------
// Go value -> abstract value
// ---------------------------------------------------------------------------------------------

func leBytes(n uint64, w int) []byte {
	var tmp [8]byte
	binary.LittleEndian.PutUint64(tmp[:], n)
	return append([]byte{}, tmp[:w]...)
}

func abstractOf(rv reflect.Value, t *Kind) interface{} {
	switch t.K {
	case "u8", "u16", "u32", "u64", "varuint":
		return leBytes(rv.Uint(), fixedW(t.K))
	case "i64":
		return leBytes(uint64(rv.Int()), 8)
	case "bool":
		return rv.Bool()
	case "varbytes", "string", "opttail":
		if rv.Kind() == reflect.String {
			return []byte(rv.String())
		}
		return append([]byte{}, rv.Bytes()...)
	case "addr", "vaddr", "hash":
		b := make([]byte, rv.Len())
		reflect.Copy(reflect.ValueOf(b), rv)
		return b
	case "bigint":
		if rv.IsNil() {
			return []byte(nil)
		}
		x := rv.Interface().(*big.Int)
		if x.Sign() < 0 {
			return append([]byte{'-'}, x.Bytes()...) // outside the domain; never equal to a magnitude of the spec
		}
		return append([]byte{}, x.Bytes()...)
	case "list":
		res := make([]interface{}, rv.Len())
		for i := range res {
			res[i] = abstractOf(rv.Index(i), t.Of)
		}
		return res
	case "map", "mapv":
		kt, vt := t.Key, t.Val
		if t.K == "mapv" {
			kt, vt = t.Item.Fs[t.Kf-1].T, t.Item
		}
		res := make([]pair, 0, rv.Len())
		it := rv.MapRange()
		for it.Next() {
			res = append(res, pair{abstractOf(it.Key(), kt), abstractOf(it.Value(), vt)})
		}
		sortPairs(res)
		return res
	case "struct":
		if rv.Kind() == reflect.Ptr {
			if rv.IsNil() {
				return []interface{}{}
			}
			return abstractOf(rv.Elem(), t)
		}
		if rv.Kind() != reflect.Struct {
			return []interface{}{abstractOf(rv, t.Fs[0].T)}
		}
		idx := exportedFields(rv.Type())
		res := make([]interface{}, len(t.Fs))
		for i, f := range t.Fs {
			res[i] = abstractOf(rv.Field(idx[i]), f.T)
		}
		return res
	}
	panic("abstractOf: kind " + t.K)
}
