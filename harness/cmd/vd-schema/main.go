// vd-schema: C04 driver.  Reads the SCHEMA / ROW table printed by TLC from spec/Schema.tla (stdin, NDJSON:
// {"schema":{...}} and {"row":{...}} lines), builds each value as the real Go type by reflection, and compares
// the real codecs of the native contracts with the specification:
//
//   rows      encoded bytes (several map insertion orders), decoded value, every cut, every count/length-prefix mutant
//   record    seeded random corruptions of valid encodings fed to the real decoders; the outcomes are written as
//             NDJSON events which TLC validates against spec/TraceSchema.tla
package main

import (
	"bytes"
	"encoding/hex"
	"encoding/json"
	"fmt"
	"os"
	"reflect"
	"strconv"
	"strings"

	cstates "github.com/polynetwork/poly/core/states"

	"verifh/kit/vio"
)

type Mut struct {
	Path   []interface{}     `json:"path"`
	Kind   string            `json:"kind"`
	Cls    string            `json:"cls"`
	At     int               `json:"at"`
	W      int               `json:"w"`
	Pre    []int             `json:"pre"`
	Strict string            `json:"strict"`
	Impl   string            `json:"impl"`
	Big    bool              `json:"big"`
	Val    []json.RawMessage `json:"val"`
	Sval   []json.RawMessage `json:"sval"`
}

type Cut struct {
	K  int               `json:"k"`
	St string            `json:"st"`
	V  []json.RawMessage `json:"v"`
}

type Row struct {
	Ty      int             `json:"ty"`
	Name    string          `json:"name"`
	J       int             `json:"j"`
	V       json.RawMessage `json:"v"`
	Bytes   []int           `json:"bytes"`
	AllCuts bool            `json:"allcuts"`
	CutSet  []int           `json:"cutset"`
	Scuts   []Cut           `json:"scuts"`
	Lcuts   []Cut           `json:"lcuts"`
	Muts    []Mut           `json:"muts"`
}

type SchemaLine struct {
	Ty   int    `json:"ty"`
	Name string `json:"name"`
	T    *Kind  `json:"t"`
}

type Line struct {
	Schema *SchemaLine `json:"schema"`
	Row    *Row        `json:"row"`
}

type Issue struct {
	Issue  string      `json:"issue"`
	Ty     string      `json:"ty"`
	J      int         `json:"j"`
	Key    string      `json:"key"`
	Detail interface{} `json:"detail"`
	Bytes  string      `json:"bytes,omitempty"`
}

func ints2bytes(xs []int) []byte {
	b := make([]byte, len(xs))
	for i, x := range xs {
		b[i] = byte(x)
	}
	return b
}

func pathString(p []interface{}) string {
	var parts []string
	for _, e := range p {
		switch x := e.(type) {
		case string:
			parts = append(parts, x)
		default:
			if len(parts) > 0 && !strings.HasSuffix(parts[len(parts)-1], "[]") {
				parts[len(parts)-1] += "[]"
			}
		}
	}
	return strings.Join(parts, ".")
}

// outcome of one decoder call
type outcome struct {
	panicked string
	err      error
	val      interface{} // abstract value when accepted
	skipped  bool        // a previous worker process died in this very call (reported by the parent)
}

func (o outcome) status() string {
	switch {
	case o.skipped:
		return "skipped"
	case o.panicked != "":
		return "panic"
	case o.err != nil:
		return "err"
	}
	return "ok"
}

type decoderFn struct {
	name string
	run  func(b []byte) outcome
}

func decodersOf(name string, rt reflect.Type, t *Kind) []decoderFn {
	ds := []decoderFn{{"Deserialization", func(b []byte) (o outcome) {
		if !guardEnter() {
			o.skipped = true
			return
		}
		ptr := reflect.New(rt)
		o.panicked = vio.Safe(func() { o.err = decode(ptr, b) })
		if o.panicked == "" && o.err == nil {
			if p := vio.Safe(func() { o.val = abstractOf(ptr.Elem(), t) }); p != "" {
				o.panicked = "abstracting the decoded value: " + p
			}
		}
		return
	}}}
	if name == "StorageItem" {
		ds = append(ds, decoderFn{"GetValueFromRawStorageItem", func(b []byte) (o outcome) {
			if !guardEnter() {
				o.skipped = true
				return
			}
			var v []byte
			o.panicked = vio.Safe(func() { v, o.err = cstates.GetValueFromRawStorageItem(b) })
			if o.panicked == "" && o.err == nil {
				o.val = []interface{}{[]interface{}{[]byte{b[0]}}, append([]byte{}, v...)}
			}
			return
		}})
	}
	return ds
}

type stats struct {
	rows, encodes, decodes, cuts, muts, skipped, bigskip int
	classes                                     map[string]bool
	fresh                                       []string // classes first seen in the current row
}

var (
	st      = stats{classes: map[string]bool{}}
	nShuf   = 8
	schemas = map[int]*SchemaLine{}
)

func noteClass(c string) {
	if !st.classes[c] {
		st.classes[c] = true
		st.fresh = append(st.fresh, c)
	}
}

func emitIssue(kind string, r *Row, key string, detail interface{}, b []byte) {
	is := Issue{Issue: kind, Ty: r.Name, J: r.J, Key: key, Detail: detail}
	if b != nil && len(b) <= 4096 {
		is.Bytes = hex.EncodeToString(b)
	}
	vio.Emit(is)
}

// judge compares one decoder outcome on possibly malformed bytes with the spec's verdicts.
//   strict: "ok"/"err"/"sem" of the reference decoder; impl: the code-shaped model; sval/ival: predicted values when ok.
func judge(r *Row, t *Kind, enc func(interface{}) ([]byte, string), d decoderFn, b []byte, what string, strict, impl string, sval, ival interface{}) {
	st.decodes++
	o := d.run(b)
	got := o.status()
	if got == "skipped" {
		if describeHit {
			describeHit = false
			vio.Emit(map[string]interface{}{"describe": true, "ty": r.Name, "j": r.J, "what": what, "strict": strict, "bytes": hex.EncodeToString(b)})
		}
		return
	}
	noteClass(r.Name + "|" + what + "|" + strict + "|" + got)
	base := map[string]interface{}{"decoder": d.name, "what": what, "strict": strict, "model": impl, "got": got}
	switch got {
	case "panic":
		base["panic"] = o.panicked
		emitIssue("decode-crash", r, "decode-crash:"+r.Name+":"+crashSite(o.panicked), base, b)
		return
	case "ok":
		base["value"] = absString(o.val)
		if strict == "err" {
			base["as_model"] = impl == "ok" && ival != nil && absEqual(ival, o.val)
			emitIssue("malformed-accepted", r, "malformed-accepted:"+r.Name+":"+what, base, b)
			return
		}
		if strict == "ok" && sval != nil && !absEqual(sval, o.val) {
			base["expected"] = absString(sval)
			emitIssue("drift", r, "drift-value:"+r.Name+":"+what, base, b)
		}
		// an accepted value is a whole value: it re-encodes, and that encoding decodes to the same value
		if enc != nil && d.name == "Deserialization" {
			eb, p := enc(o.val)
			if p != "" {
				base["reencode"] = p
				emitIssue("unstable-decode", r, "unstable-decode:"+r.Name+":"+what, base, b)
				return
			}
			o2 := d.run(eb)
			if o2.status() == "skipped" {
				return
			}
			if o2.status() != "ok" || !absEqual(o2.val, o.val) {
				base["second"] = o2.status()
				emitIssue("unstable-decode", r, "unstable-decode:"+r.Name+":"+what, base, b)
			}
		}
	case "err":
		if strict == "ok" {
			emitIssue("drift", r, "drift-stricter:"+r.Name+":"+what, base, b)
		}
	}
}

func processRow(r *Row, shufSalt uint64) {
	st.rows++
	sl := schemas[r.Ty]
	if sl == nil {
		vio.Fatal("row of type %d before its schema", r.Ty)
	}
	t := sl.T
	rt, ok := registry[r.Name]
	if !ok {
		vio.Fatal("no Go type registered for %s", r.Name)
	}
	abs, err := parseVal(t, r.V)
	if err != nil {
		vio.Fatal("row %s/%d: %v", r.Name, r.J, err)
	}
	specBytes := ints2bytes(r.Bytes)
	// (0) the spec's bytes against the driver's independent reference encoder
	var ref bytes.Buffer
	refEnc(&ref, t, abs)
	if !bytes.Equal(ref.Bytes(), specBytes) {
		emitIssue("spec-vs-ref", r, "spec-vs-ref:"+r.Name, map[string]string{"ref": hex.EncodeToString(ref.Bytes())}, specBytes)
		return
	}
	// (1) real encoder, several map insertion orders
	realEnc := func(a interface{}, rng *vio.RNG) (b []byte, problem string) {
		ptr := reflect.New(rt)
		var mm string
		p := vio.Safe(func() {
			func() {
				defer func() {
					if x := recover(); x != nil {
						if sm, ok := x.(schemaMismatch); ok {
							mm = sm.msg
							return
						}
						panic(x)
					}
				}()
				build(ptr.Elem(), t, a, rng)
			}()
			if mm != "" {
				return
			}
			var e error
			b, e = encode(ptr)
			if e != nil {
				problem = "error: " + e.Error()
			}
			b = append([]byte{}, b...)
		})
		if mm != "" {
			return nil, "schema-mismatch: " + mm
		}
		if p != "" {
			return nil, p
		}
		return b, problem
	}
	var first []byte
	layoutOK := true
	for s := 0; s < nShuf; s++ {
		rng := vio.NewRNG(vio.Seed()*1000003 + shufSalt*7919 + uint64(r.Ty)*131 + uint64(r.J)*17 + uint64(s))
		st.encodes++
		b, problem := realEnc(abs, rng)
		if strings.HasPrefix(problem, "schema-mismatch") {
			st.skipped++
			emitIssue("schema-mismatch", r, "schema-mismatch:"+r.Name, problem, nil)
			return
		}
		if problem != "" {
			kind := "encode-error"
			if strings.HasPrefix(problem, "panic") {
				kind = "encode-panic"
			}
			emitIssue(kind, r, kind+":"+r.Name, problem, specBytes)
			return
		}
		if s == 0 {
			first = b
			if !bytes.Equal(b, specBytes) {
				layoutOK = false
			}
		} else if !bytes.Equal(b, first) {
			emitIssue("noncanonical", r, "noncanonical:"+r.Name, map[string]string{"order0": hex.EncodeToString(first), "order" + strconv.Itoa(s): hex.EncodeToString(b)}, specBytes)
			return
		}
	}
	if !layoutOK {
		// not a violation by itself (the wire layout is not what the property fixes); the hash lets the runner compare processes
		emitIssue("layout", r, "layout:"+r.Name, map[string]string{"real": hex.EncodeToString(first)}, specBytes)
	}
	if r.Name == "StorageItem" {
		xs := abs.([]interface{})
		if ver := xs[0].([]interface{})[0].([]byte)[0]; ver == 0 {
			var g []byte
			p := vio.Safe(func() { g = cstates.GenRawStorageItem(xs[1].([]byte)) })
			if p != "" || !bytes.Equal(g, first) {
				emitIssue("roundtrip", r, "roundtrip:StorageItem:GenRawStorageItem", map[string]string{"panic": p, "got": hex.EncodeToString(g)}, first)
			}
		}
	}
	// (2) round trip through the real decoder(s)
	decs := decodersOf(r.Name, rt, t)
	for _, d := range decs {
		st.decodes++
		o := d.run(first)
		if o.status() == "skipped" {
			if describeHit {
				describeHit = false
				vio.Emit(map[string]interface{}{"describe": true, "ty": r.Name, "j": r.J, "what": "own-encoding", "strict": "ok", "bytes": hex.EncodeToString(first)})
			}
			continue
		}
		if o.status() != "ok" || !absEqual(o.val, abs) {
			det := map[string]interface{}{"decoder": d.name, "got": o.status(), "panic": o.panicked}
			if o.err != nil {
				det["err"] = o.err.Error()
			}
			if o.status() == "ok" {
				det["value"] = absString(o.val)
				det["expected"] = absString(abs)
			}
			if o.status() == "panic" {
				emitIssue("decode-crash", r, "decode-crash:"+r.Name+":"+crashSite(o.panicked), det, first)
			} else {
				emitIssue("roundtrip", r, "roundtrip:"+r.Name, det, first)
			}
		}
	}
	if !layoutOK {
		return // the spec's cut / mutant predictions are about the spec's layout
	}
	encAbs := func(a interface{}) ([]byte, string) {
		return realEnc(a, vio.NewRNG(uint64(r.Ty)*977+uint64(r.J)))
	}
	// (3) cuts
	sc := map[int]Cut{}
	for _, c := range r.Scuts {
		sc[c.K] = c
	}
	lc := map[int]Cut{}
	for _, c := range r.Lcuts {
		lc[c.K] = c
	}
	var cuts []int
	if r.AllCuts {
		for k := 0; k < len(specBytes); k++ {
			cuts = append(cuts, k)
		}
	} else {
		cuts = r.CutSet
	}
	cutVal := func(c Cut) interface{} {
		if c.St != "ok" || len(c.V) != 1 {
			return nil
		}
		v, err := parseVal(t, c.V[0])
		if err != nil {
			vio.Fatal("cut value of %s/%d: %v", r.Name, r.J, err)
		}
		return v
	}
	tailName := ""
	if n := len(t.Fs); n > 0 && t.Fs[n-1].T.K == "opttail" {
		tailName = t.Fs[n-1].N
	}
	for _, k := range cuts {
		if k < 0 || k >= len(specBytes) {
			continue
		}
		strict, impl := "err", "err"
		var sval, ival interface{}
		if c, ok := sc[k]; ok {
			strict, sval = c.St, cutVal(c)
		}
		if c, ok := lc[k]; ok {
			impl, ival = c.St, cutVal(c)
		}
		what := "cut"
		if impl == "ok" && strict == "err" && tailName != "" {
			what = tailName + ":eof-ignored" // the one place where the model expects leniency
		}
		for _, d := range decs {
			st.cuts++
			judge(r, t, encAbs, d, specBytes[:k], what, strict, impl, sval, ival)
		}
	}
	// (4) count / length prefix mutants
	for i := range r.Muts {
		m := &r.Muts[i]
		if m.Big && fatalTypes[r.Name] {
			st.bigskip++ // this allocation site already killed a worker; every such input is reported once
			curCase += len(decs) // keep the numbering of decoder calls independent of what is skipped
			continue
		}
		mb := append(append(append([]byte{}, specBytes[:m.At-1]...), ints2bytes(m.Pre)...), specBytes[m.At-1+m.W:]...)
		var sval, ival interface{}
		if m.Strict == "ok" && len(m.Sval) == 1 {
			if sval, err = parseVal(t, m.Sval[0]); err != nil {
				vio.Fatal("mutant value: %v", err)
			}
		}
		if m.Impl == "ok" && len(m.Val) == 1 {
			if ival, err = parseVal(t, m.Val[0]); err != nil {
				vio.Fatal("mutant value: %v", err)
			}
		}
		what := pathString(m.Path) + ":" + m.Kind + "-" + m.Cls
		if m.Impl == "ok" && m.Strict == "err" && tailName != "" {
			what = tailName + ":eof-ignored"
		}
		for _, d := range decs {
			st.muts++
			judge(r, t, encAbs, d, mb, what, m.Strict, m.Impl, sval, ival)
		}
	}
}

func main() {
	defer vio.Flush()
	if len(os.Args) < 2 {
		vio.Fatal("usage: vd-schema rows|record <n> (table on stdin)")
	}
	switch os.Args[1] {
	case "rows":
		cmdRowsParent()
	case "rows-child":
		cmdRowsChild(os.Args[2:])
	case "record": // vd-schema record <corruptions per row>
		os.Setenv("VERIF_MODE", "record")
		if len(os.Args) > 2 {
			os.Setenv("VERIF_PER_ROW", os.Args[2])
		}
		cmdRowsParent()
	default:
		vio.Fatal("unknown command %s", os.Args[1])
	}
	_ = fmt.Sprint
}
