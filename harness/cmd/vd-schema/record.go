package main

// record: the code -> spec direction.  Seeded random corruptions of valid encodings (byte flips, marker bytes,
// insertions, deletions, truncations, splices of two encodings) are fed to the real decoders; every call and its
// outcome becomes one event {ty, bytes, st}, and TLC (spec/TraceSchema.tla) decides for each event whether the
// reference decoder of the specification calls these bytes malformed.

import (
	"reflect"

	"verifh/kit/vio"
)

var recordPerRow = 4

func corrupt(rng *vio.RNG, b []byte, other []byte) []byte {
	c := append([]byte{}, b...)
	n := 1 + rng.Intn(3)
	for i := 0; i < n; i++ {
		switch op := rng.Intn(8); {
		case len(c) == 0:
			c = append(c, byte(rng.U64()))
		case op == 0: // flip one bit
			p := rng.Intn(len(c))
			c[p] ^= 1 << uint(rng.Intn(8))
		case op == 1: // a var-int marker or an extreme byte
			p := rng.Intn(len(c))
			c[p] = []byte{0x00, 0x01, 0xFC, 0xFD, 0xFE, 0xFF, 0x14, 0x15}[rng.Intn(8)]
		case op == 2: // delete a byte
			p := rng.Intn(len(c))
			c = append(c[:p], c[p+1:]...)
		case op == 3: // insert a byte
			p := rng.Intn(len(c) + 1)
			c = append(c[:p], append([]byte{byte(rng.U64())}, c[p:]...)...)
		case op == 4: // truncate
			c = c[:rng.Intn(len(c))]
		case op == 5: // append garbage
			c = append(c, rng.Bytes(1+rng.Intn(4))...)
		case op == 6 && len(other) > 0: // splice with another encoding of the same type
			p, q := rng.Intn(len(c)+1), rng.Intn(len(other)+1)
			c = append(append([]byte{}, c[:p]...), other[q:]...)
		default: // random byte
			p := rng.Intn(len(c))
			c[p] = byte(rng.U64())
		}
	}
	if len(c) > 600 {
		c = c[:600]
	}
	return c
}

var prevBytes = map[int][]byte{}

func recordRow(r *Row, salt uint64) {
	sl := schemas[r.Ty]
	rt := registry[r.Name]
	if sl == nil || rt == nil {
		vio.Fatal("record: unknown type %s", r.Name)
	}
	b := ints2bytes(r.Bytes)
	if len(b) > 600 || fatalTypes[r.Name] {
		return // a decoder that already killed a worker on a random corruption is reported once
	}
	rng := vio.NewRNG(vio.Seed()*7919 + salt*104729 + uint64(r.Ty)*1009 + uint64(r.J))
	decs := decodersOf(r.Name, rt, sl.T)
	for i := 0; i < recordPerRow; i++ {
		c := corrupt(rng, b, prevBytes[r.Ty])
		for _, d := range decs {
			o := d.run(c)
			switch o.status() {
			case "skipped":
				if describeHit {
					describeHit = false
					vio.Emit(map[string]interface{}{"describe": true, "ty": r.Name, "j": r.J, "what": "random-corruption", "strict": "?", "bytes": vio.Hex(c)})
				}
			case "panic":
				emitIssue("decode-crash", r, "decode-crash:"+r.Name+":"+crashSite(o.panicked), map[string]interface{}{"what": "random-corruption", "panic": o.panicked}, c)
			default:
				ev := map[string]interface{}{"ev": true, "ty": r.Ty, "name": r.Name, "dec": d.name, "st": o.status(), "bytes": bytesToInts(c)}
				vio.Emit(ev)
			}
			st.decodes++
		}
	}
	prevBytes[r.Ty] = b
	_ = reflect.TypeOf
}

func bytesToInts(b []byte) []int {
	xs := make([]int, len(b))
	for i, x := range b {
		xs[i] = int(x)
	}
	return xs
}

