package main

// Worker-process guard.  Some decoders of the unchanged tree allocate `make([]T, n)` with a count taken from the
// input; for n around 2^32 that is not a panic but `fatal error: runtime: out of memory`, which kills the process
// and cannot be recovered.  So the table is processed by a child process which announces every decoder call on a
// pipe before making it; when the child dies, the parent reports the announced call as a crash of the decoder,
// and restarts the child behind it.

import (
	"bytes"
	"encoding/binary"
	"encoding/json"
	"fmt"
	"io"
	"os"
	"os/exec"
	"regexp"
	"strconv"
	"strings"
	"syscall"
	"time"

	"verifh/kit/vio"
)

var (
	marker     []byte
	fatalTypes = map[string]bool{} // types whose decoder already killed a worker: their `big` mutants are not repeated
	curRow     = -1
	curCase    = 0
	skipCases  = map[int]bool{}
	resumeRow  = 0
	// describe mode: walk one row without calling any decoder and print what call number describeCase is
	describeCase = 0
	describeHit  = false
)

// guardEnter announces the next decoder call; false = this call killed an earlier worker, do not repeat it.
func guardEnter() bool {
	curCase++
	if describeCase > 0 {
		describeHit = curCase == describeCase
		return false
	}
	if curRow == resumeRow && skipCases[curCase] {
		return false
	}
	if marker != nil { // shared mapping of a small file: survives the death of this process, costs no system call
		binary.LittleEndian.PutUint64(marker[0:8], uint64(curRow)+1)
		binary.LittleEndian.PutUint64(marker[8:16], uint64(curCase))
	}
	return true
}

var polyFrame = regexp.MustCompile(`github\.com/polynetwork/poly/([A-Za-z0-9_/.]+)\.(\(\*?[A-Za-z0-9_]+\)\.)?([A-Za-z0-9_]+)\(`)

// crashSite names the poly function in which a panic / fatal error arose and the runtime primitive that failed,
// e.g. "BtcTxParam.Deserialization/makeslice" - the key of a finding is the code site, not the input that reaches it.
func crashSite(trace string) string {
	prim := "other"
	for _, p := range []string{"makeslice", "makemap", "growslice", "index out of range", "slice bounds out of range", "nil pointer"} {
		if strings.Contains(trace, p) {
			prim = strings.ReplaceAll(p, " ", "-")
			break
		}
	}
	if m := polyFrame.FindStringSubmatch(trace); m != nil {
		recv := strings.Trim(m[2], "(*).")
		if recv != "" {
			return recv + "." + m[3] + "/" + prim
		}
		return m[3] + "/" + prim
	}
	return "unknown/" + prim
}

func cmdRowsChild(args []string) {
	if len(args) >= 1 {
		resumeRow, _ = strconv.Atoi(args[0])
	}
	if len(args) >= 2 && args[1] != "" {
		for _, c := range strings.Split(args[1], ",") {
			n, _ := strconv.Atoi(c)
			skipCases[n] = true
		}
	}
	if len(args) >= 3 && args[2] != "0" {
		describeCase, _ = strconv.Atoi(args[2])
	} else if path := os.Getenv("VERIF_MARKER"); path != "" {
		f, err := os.OpenFile(path, os.O_RDWR, 0)
		if err != nil {
			vio.Fatal("marker file: %v", err)
		}
		if marker, err = syscall.Mmap(int(f.Fd()), 0, 16, syscall.PROT_READ|syscall.PROT_WRITE, syscall.MAP_SHARED); err != nil {
			vio.Fatal("mmap marker: %v", err)
		}
	}
	if len(args) >= 4 && args[3] != "" {
		for _, t := range strings.Split(args[3], ",") {
			fatalTypes[t] = true
		}
	}
	// keep a runaway allocation from touching the shared machine: anything above ~6 GiB of address space fails at once
	lim := &syscall.Rlimit{Cur: 6 << 30, Max: 6 << 30}
	syscall.Setrlimit(syscall.RLIMIT_AS, lim)

	if s := os.Getenv("VERIF_PER_ROW"); s != "" {
		recordPerRow, _ = strconv.Atoi(s)
	}
	salt := uint64(0)
	if s := os.Getenv("VERIF_SHUFFLE"); s != "" {
		salt, _ = strconv.ParseUint(s, 10, 64)
	}
	if s := os.Getenv("VERIF_NSHUF"); s != "" {
		if n, err := strconv.Atoi(s); err == nil && n > 1 {
			nShuf = n
		}
	}
	lines := vio.ReadLines()
	for _, raw := range lines {
		if !bytes.HasPrefix(raw, []byte(`{"schema"`)) {
			continue
		}
		var ln Line
		if err := json.Unmarshal(raw, &ln); err != nil {
			vio.Fatal("bad input line: %v", err)
		}
		if ln.Schema != nil {
			schemas[ln.Schema.Ty] = ln.Schema
		}
	}
	idx := -1
	for _, raw := range lines {
		if !bytes.HasPrefix(raw, []byte(`{"row"`)) {
			continue
		}
		idx++
		if idx < resumeRow {
			continue
		}
		var ln Line
		if err := json.Unmarshal(raw, &ln); err != nil || ln.Row == nil {
			vio.Fatal("bad row line %d: %v", idx, err)
		}
		curRow, curCase = idx, 0
		st = stats{classes: st.classes}
		if os.Getenv("VERIF_MODE") == "record" {
			recordRow(ln.Row, salt)
		} else {
			processRow(ln.Row, salt)
		}
		if describeCase > 0 {
			return
		}
		vio.Emit(map[string]interface{}{"rowstat": true, "row": idx, "ty": ln.Row.Name, "encodes": st.encodes, "decodes": st.decodes,
			"cuts": st.cuts, "muts": st.muts, "skipped": st.skipped, "bigskip": st.bigskip, "classes": st.fresh})
		vio.Flush()
	}
}

func cmdRowsParent() {
	data, err := io.ReadAll(os.Stdin)
	if err != nil {
		vio.Fatal("read stdin: %v", err)
	}
	hangLimit := 45 * time.Second
	if s := os.Getenv("VERIF_HANG_S"); s != "" {
		if n, err := strconv.Atoi(s); err == nil && n > 0 {
			hangLimit = time.Duration(n) * time.Second
		}
	}
	mf, err := os.CreateTemp(".", "vd-schema-marker-")
	if err != nil {
		vio.Fatal("marker file: %v", err)
	}
	defer os.Remove(mf.Name())
	mf.Write(make([]byte, 16))
	os.Setenv("VERIF_MARKER", mf.Name())
	resume, skips, crashes := 0, []string{}, 0
	var fatal []string
	perType := map[string]int{}
	for {
		mf.WriteAt(make([]byte, 16), 0)
		cmd := exec.Command(os.Args[0], "rows-child", strconv.Itoa(resume), strings.Join(skips, ","), "0", strings.Join(fatal, ","))
		cmd.Stdin = bytes.NewReader(data)
		cmd.Stdout = os.Stdout
		var errb bytes.Buffer
		cmd.Stderr = &errb
		if err := cmd.Start(); err != nil {
			vio.Fatal("start worker: %v", err)
		}
		// watchdog: a decoder call that does not return (a loop bounded only by an input count) is killed and reported
		done := make(chan struct{})
		hung := false
		go func() {
			last, lastChange := make([]byte, 16), time.Now()
			for {
				select {
				case <-done:
					return
				case <-time.After(2 * time.Second):
				}
				mk := make([]byte, 16)
				mf.ReadAt(mk, 0)
				if !bytes.Equal(mk, last) {
					copy(last, mk)
					lastChange = time.Now()
				} else if binary.LittleEndian.Uint64(mk[0:8]) != 0 && time.Since(lastChange) > hangLimit {
					hung = true
					cmd.Process.Kill()
					return
				}
			}
		}()
		werr := cmd.Wait()
		close(done)
		if werr == nil {
			break
		}
		crashes++
		mk := make([]byte, 16)
		mf.ReadAt(mk, 0)
		row, cs := int(binary.LittleEndian.Uint64(mk[0:8]))-1, int(binary.LittleEndian.Uint64(mk[8:16]))
		if row < 0 || crashes > 200 {
			vio.Fatal("worker died outside a decoder call (%v), marker %d/%d, stderr:\n%s", werr, row, cs, tail(errb.String(), 3000))
		}
		trace := errb.String()
		head := trace
		if len(head) > 2500 {
			head = head[:2500]
		}
		// ask a second worker which call that was (it walks the row without calling any decoder)
		desc := map[string]interface{}{}
		dc := exec.Command(os.Args[0], "rows-child", strconv.Itoa(row), "", strconv.Itoa(cs))
		dc.Stdin = bytes.NewReader(data)
		if out, err := dc.Output(); err == nil {
			for _, ln := range bytes.Split(out, []byte("\n")) {
				if bytes.Contains(ln, []byte(`"describe"`)) {
					json.Unmarshal(ln, &desc)
				}
			}
		}
		site := crashSite(trace)
		if hung {
			site = fmt.Sprintf("no-return-within-%ds", int(hangLimit.Seconds()))
			head = "killed by the watchdog"
		}
		vio.Emit(map[string]interface{}{"issue": "decode-crash", "fatal": true, "row": row, "case": cs, "ty": desc["ty"], "j": desc["j"],
			"key": fmt.Sprintf("decode-crash:%v:%s", desc["ty"], site), "bytes": desc["bytes"],
			"detail": map[string]interface{}{"what": desc["what"], "strict": desc["strict"], "exit": werr.Error(), "stderr": head}})
		vio.Flush()
		if ty, ok := desc["ty"].(string); ok {
			perType[ty]++
			if perType[ty] == 1 {
				fatal = append(fatal, ty)
			}
		}
		if row != resume {
			skips = skips[:0]
		}
		resume = row
		skips = append(skips, strconv.Itoa(cs))
	}
	vio.Emit(map[string]interface{}{"summary": true, "worker_crashes": crashes, "fatal_types": fatal})
}

func tail(s string, n int) string {
	if len(s) > n {
		return s[len(s)-n:]
	}
	return s
}
