package main

// Registry of the Go types behind the spec's type table and reflection adapters for the four codec shapes
// that occur in the anchored files:
//   Serialization(*ZeroCopySink) [error]   /  Deserialization(*ZeroCopySource) error
//   Serialization() ([]byte, error)        /  Deserialization([]byte) error            (MakeTxParamWithSender)
//   Serialize(io.Writer) error             /  Deserialize(io.Reader) error             (StorageItem)

import (
	"bytes"
	"fmt"
	"io"
	"reflect"

	"github.com/polynetwork/poly/common"
	cstates "github.com/polynetwork/poly/core/states"
	"github.com/polynetwork/poly/native/service/cross_chain_manager/btc"
	ccmcom "github.com/polynetwork/poly/native/service/cross_chain_manager/common"
	"github.com/polynetwork/poly/native/service/cross_chain_manager/consensus_vote"
	"github.com/polynetwork/poly/native/service/governance/neo3_state_manager"
	"github.com/polynetwork/poly/native/service/governance/node_manager"
	"github.com/polynetwork/poly/native/service/governance/relayer_manager"
	"github.com/polynetwork/poly/native/service/governance/side_chain_manager"
	"github.com/polynetwork/poly/native/service/governance/signature_manager"
	hscom "github.com/polynetwork/poly/native/service/header_sync/common"
	nstates "github.com/polynetwork/poly/native/states"

	_ "verifh/kit/nativekit" // resets config.EXTRA_INFO_HEIGHT_FORK_CHECK (SideChain codecs would consult the nil global ledger)
)

var registry = map[string]reflect.Type{}

func reg(x interface{}) {
	t := reflect.TypeOf(x)
	registry[t.Name()] = t
}

func init() {
	for _, x := range []interface{}{
		ccmcom.InitRedeemScriptParam{}, ccmcom.EntranceParam{}, ccmcom.MakeTxParam{}, ccmcom.MakeTxParamWithSender{},
		ccmcom.MultiSignParam{}, ccmcom.ToMerkleValue{}, ccmcom.BlackChainParam{},
		hscom.SyncGenesisHeaderParam{}, hscom.SyncBlockHeaderParam{}, hscom.SyncCrossChainMsgParam{},
		node_manager.RegisterPeerParam{}, node_manager.PeerParam{}, node_manager.PeerListParam{}, node_manager.UpdateConfigParam{},
		node_manager.Status(0), node_manager.BlackListItem{}, node_manager.PeerPoolMap{}, node_manager.PeerPoolItem{},
		node_manager.GovernanceView{}, node_manager.ConsensusSigns{}, node_manager.Configuration{},
		side_chain_manager.RegisterSideChainParam{}, side_chain_manager.ChainidParam{}, side_chain_manager.RegisterRedeemParam{},
		side_chain_manager.BtcTxParamDetial{}, side_chain_manager.BtcTxParam{}, side_chain_manager.RegisterAssetParam{},
		side_chain_manager.AssetBind{}, side_chain_manager.UpdateFeeParam{}, side_chain_manager.SideChain{},
		side_chain_manager.BindSignInfo{}, side_chain_manager.ContractBinded{}, side_chain_manager.Fee{},
		side_chain_manager.FeeInfo{}, side_chain_manager.RippleExtraInfo{},
		relayer_manager.RelayerListParam{}, relayer_manager.ApproveRelayerParam{},
		neo3_state_manager.StateValidatorListParam{}, neo3_state_manager.ApproveStateValidatorParam{},
		signature_manager.SigInfo{}, consensus_vote.VoteInfo{},
		btc.BtcProof{}, btc.Utxos{}, btc.Utxo{}, btc.OutPoint{}, btc.MultiSignInfo{}, btc.Args{}, btc.BtcFromInfo{},
		nstates.ContractInvokeParam{}, cstates.StorageItem{},
	} {
		reg(x)
	}
}

var (
	sinkT   = reflect.TypeOf((*common.ZeroCopySink)(nil))
	sourceT = reflect.TypeOf((*common.ZeroCopySource)(nil))
	bytesT  = reflect.TypeOf([]byte(nil))
	writerT = reflect.TypeOf((*io.Writer)(nil)).Elem()
	readerT = reflect.TypeOf((*io.Reader)(nil)).Elem()
	errorT  = reflect.TypeOf((*error)(nil)).Elem()
)

func lastErr(out []reflect.Value) error {
	if len(out) == 0 {
		return nil
	}
	l := out[len(out)-1]
	if l.Type() == errorT && !l.IsNil() {
		return l.Interface().(error)
	}
	return nil
}

// encode runs the type's real encoder on *ptr.
func encode(ptr reflect.Value) ([]byte, error) {
	if m := ptr.MethodByName("Serialization"); m.IsValid() {
		mt := m.Type()
		switch {
		case mt.NumIn() == 1 && mt.In(0) == sinkT:
			sink := common.NewZeroCopySink(nil)
			out := m.Call([]reflect.Value{reflect.ValueOf(sink)})
			return sink.Bytes(), lastErr(out)
		case mt.NumIn() == 0 && mt.NumOut() == 2 && mt.Out(0) == bytesT:
			out := m.Call(nil)
			return out[0].Bytes(), lastErr(out)
		}
		return nil, fmt.Errorf("unsupported Serialization signature %s", mt)
	}
	if m := ptr.MethodByName("Serialize"); m.IsValid() && m.Type().NumIn() == 1 && m.Type().In(0) == writerT {
		buf := new(bytes.Buffer)
		out := m.Call([]reflect.Value{reflect.ValueOf(buf)})
		return buf.Bytes(), lastErr(out)
	}
	return nil, fmt.Errorf("no encoder on %s", ptr.Type())
}

// decode runs the type's real decoder on *ptr.
func decode(ptr reflect.Value, b []byte) error {
	if m := ptr.MethodByName("Deserialization"); m.IsValid() {
		mt := m.Type()
		switch {
		case mt.NumIn() == 1 && mt.In(0) == sourceT:
			return lastErr(m.Call([]reflect.Value{reflect.ValueOf(common.NewZeroCopySource(b))}))
		case mt.NumIn() == 1 && mt.In(0) == bytesT:
			return lastErr(m.Call([]reflect.Value{reflect.ValueOf(b)}))
		}
		return fmt.Errorf("unsupported Deserialization signature %s", mt)
	}
	if m := ptr.MethodByName("Deserialize"); m.IsValid() && m.Type().NumIn() == 1 && m.Type().In(0) == readerT {
		return lastErr(m.Call([]reflect.Value{reflect.ValueOf(bytes.NewBuffer(b))}))
	}
	return fmt.Errorf("no decoder on %s", ptr.Type())
}
