package main

// C41: P-EDGE replay of spec/VbftRound.tla edges on the real consensus/vbft BlockPool.
//
// Every model message is concretized with real keys and real signatures:
//   P  x        proposal of proposer x: a candidate block and its empty variant, both signed by x
//   P2 x        a second, different proposal of x
//   E  x p e    endorsement of x for proposer p's (empty if e) block: x's signature over that block hash
//   C  x p e sg sf   commit of x; sg = endorsers whose genuine signature is carried, sf = endorsers whose
//               slot carries bytes that are NOT their signature over the block (junk / the committer's own
//               signature / the endorser's signature over the other variant)
//   BE/BC       endorsement / commit whose own signature is invalid
// Each message passes the real Verify of its type against the claimed author's key and is then handed to
// the real pool; after the edge's message the driver observes endorseDone, commitDone and, when commitDone
// names a pooled proposal, the signature list addSignaturesToBlockLocked puts into the sealed header, where
// every entry is checked with the real signature verification against the sealed block's hash.

import (
	"bytes"
	"crypto/ecdsa"
	"crypto/elliptic"
	"encoding/json"
	"fmt"
	"math"
	"math/big"
	"sort"
	"strconv"
	"strings"
	"sync"

	"github.com/ontio/ontology-crypto/ec"
	"github.com/ontio/ontology-crypto/keypair"
	osig "github.com/ontio/ontology-crypto/signature"
	"github.com/polynetwork/poly/account"
	"github.com/polynetwork/poly/common"
	"github.com/polynetwork/poly/common/log"
	"github.com/polynetwork/poly/consensus/vbft"
	vconfig "github.com/polynetwork/poly/consensus/vbft/config"
	"github.com/polynetwork/poly/core/signature"
	"github.com/polynetwork/poly/core/types"

	"verifh/kit/vio"
)

func ilist(s string) []uint32 {
	var r []uint32
	for _, f := range strings.Split(s, ",") {
		if f == "" {
			continue
		}
		n, err := strconv.Atoi(f)
		if err != nil {
			vio.Fatal("bad list %q", s)
		}
		r = append(r, uint32(n))
	}
	return r
}

type mAct struct {
	K  string   `json:"k"`
	X  uint32   `json:"x"`
	P  uint32   `json:"p"`
	E  bool     `json:"e"`
	Sg []uint32 `json:"sg"`
	Sf []uint32 `json:"sf"`
}

type edRow struct {
	P   uint32 `json:"p"`
	E   bool   `json:"e"`
	D   bool   `json:"d"`
	Ok  bool   `json:"ok"`
	Okc bool   `json:"okc"`
}
type sealEnt struct {
	X uint32 `json:"x"`
	G bool   `json:"g"`
}
type cdRow struct {
	P    uint32    `json:"p"`
	E    bool      `json:"e"`
	D    bool      `json:"d"`
	Ok   bool      `json:"ok"`
	Okc  bool      `json:"okc"`
	Hs   bool      `json:"hs"`
	Seal []sealEnt `json:"seal"`
	Sok  bool      `json:"sok"`
	Sokc bool      `json:"sokc"`
}
type mEdge struct {
	H   []mAct  `json:"h"`
	A   mAct    `json:"a"`
	Ret string  `json:"ret"`
	Ed  []edRow `json:"ed"`
	Cd  []cdRow `json:"cd"`
}

type obs struct {
	Ret  string         `json:"ret"`
	Ed   [3]interface{} `json:"ed"` // p, e, d
	Cd   [3]interface{} `json:"cd"`
	Hs   bool           `json:"hs"`
	Seal []sealEnt      `json:"seal"`
}

// world: keys, blocks and signatures of one configuration (immutable after construction)
type world struct {
	n, c                         uint32
	accts                        map[uint32]*account.Account
	peers                        []*vconfig.PeerConfig
	proposers, endorsers, commit []uint32
	blk, empty, blk2, empty2     map[uint32]*types.Block // per proposer
	hash                         map[[2]uint32]common.Uint256
	sigs                         map[[3]uint32][]byte // (signer, proposer, empty) -> signature over hash(p, e)
	pkIdx                        map[string]uint32
	rng                          *vio.RNG
	mu                           sync.Mutex
}

func detAccount(r *vio.RNG) *account.Account {
	curve := elliptic.P256()
	d := new(big.Int).SetBytes(r.Bytes(32))
	nm1 := new(big.Int).Sub(curve.Params().N, big.NewInt(1))
	d.Mod(d, nm1)
	d.Add(d, big.NewInt(1))
	priv := &ecdsa.PrivateKey{D: d}
	priv.PublicKey.Curve = curve
	priv.PublicKey.X, priv.PublicKey.Y = curve.ScalarBaseMult(d.Bytes())
	pri := &ec.PrivateKey{Algorithm: ec.ECDSA, PrivateKey: priv}
	pub := pri.Public()
	return &account.Account{PrivateKey: pri, PublicKey: pub, Address: types.AddressFromPubKey(pub), SigScheme: osig.SHA256withECDSA}
}

func b2u(b bool) uint32 {
	if b {
		return 1
	}
	return 0
}

func newWorld(n, c int, proposers, endorsers, committers []uint32) *world {
	log.InitLog(log.FatalLog+1, log.Stdout)
	w := &world{n: uint32(n), c: uint32(c), accts: map[uint32]*account.Account{}, proposers: proposers, endorsers: endorsers,
		commit: committers, blk: map[uint32]*types.Block{}, empty: map[uint32]*types.Block{}, blk2: map[uint32]*types.Block{},
		empty2: map[uint32]*types.Block{}, hash: map[[2]uint32]common.Uint256{}, sigs: map[[3]uint32][]byte{},
		pkIdx: map[string]uint32{}, rng: vio.NewRNG(vio.Seed() ^ 0xC41)}
	for i := uint32(1); i <= w.n; i++ {
		a := detAccount(w.rng)
		w.accts[i] = a
		w.peers = append(w.peers, &vconfig.PeerConfig{Index: i, ID: vconfig.PubkeyID(a.PublicKey)})
		w.pkIdx[string(keypair.SerializePublicKey(a.PublicKey))] = i
	}
	mk := func(p uint32, variant uint64, txroot byte) *types.Block {
		info := &vconfig.VbftBlockInfo{Proposer: p, LastConfigBlockNum: 0}
		payload, _ := json.Marshal(info)
		hdr := &types.Header{Version: 0, ChainID: 0, Height: 1, Timestamp: 1600000000 + uint32(variant), ConsensusData: variant*1000 + uint64(p),
			TransactionsRoot: common.Uint256{txroot}, ConsensusPayload: payload}
		b := &types.Block{Header: hdr}
		h := b.Hash()
		s, err := signature.Sign(w.accts[p], h[:])
		if err != nil {
			vio.Fatal("sign: %v", err)
		}
		hdr.Bookkeepers = []keypair.PublicKey{w.accts[p].PublicKey}
		hdr.SigData = [][]byte{s}
		return b
	}
	for _, p := range proposers {
		w.blk[p], w.empty[p] = mk(p, 1, 7), mk(p, 1, 0)
		w.blk2[p], w.empty2[p] = mk(p, 2, 7), mk(p, 2, 0)
		w.hash[[2]uint32{p, 0}] = w.blk[p].Hash()
		w.hash[[2]uint32{p, 1}] = w.empty[p].Hash()
		for x := uint32(1); x <= w.n; x++ {
			for e := uint32(0); e < 2; e++ {
				h := w.hash[[2]uint32{p, e}]
				s, err := signature.Sign(w.accts[x], h[:])
				if err != nil {
					vio.Fatal("sign: %v", err)
				}
				w.sigs[[3]uint32{x, p, e}] = s
			}
		}
	}
	return w
}

func (w *world) newPool() *vbft.VerifPool {
	vp, err := vbft.VerifNewPool(w.n, w.c, w.commit[len(w.commit)-1], w.peers, w.proposers, w.endorsers, w.commit)
	if err != nil {
		vio.Fatal("pool: %v", err)
	}
	return vp
}

// forged returns bytes for endorser x's slot that are not x's signature over block (p, e).
func (w *world) forged(kind int, committer, x, p uint32, e bool) []byte {
	switch kind % 3 {
	case 0:
		return []byte{0xde, 0xad, byte(x)}
	case 1:
		return w.sigs[[3]uint32{committer, p, b2u(e)}] // a valid signature, but of the committer
	default:
		return w.sigs[[3]uint32{x, p, 1 - b2u(e)}] // x's signature over the other variant of the block
	}
}

func cls(verr, perr error) string {
	if verr != nil {
		return "rej"
	}
	if perr != nil {
		return "dup"
	}
	return "ok"
}

func (w *world) deliver(vp *vbft.VerifPool, a mAct, fk int) string {
	switch a.K {
	case "P", "P2":
		b, eb := w.blk[a.P], w.empty[a.P]
		if a.K == "P2" {
			b, eb = w.blk2[a.P], w.empty2[a.P]
		}
		info := &vconfig.VbftBlockInfo{}
		json.Unmarshal(b.Header.ConsensusPayload, info)
		return cls(vp.DeliverProposal(vbft.VerifNewProposal(b, eb, info)))
	case "E":
		return cls(vp.DeliverEndorse(1, a.X, a.P, w.hash[[2]uint32{a.P, b2u(a.E)}], a.E, w.sigs[[3]uint32{a.X, a.P, b2u(a.E)}]))
	case "BE":
		// signature of somebody else over the right hash
		other := a.X%w.n + 1
		return cls(vp.DeliverEndorse(1, a.X, a.P, w.hash[[2]uint32{a.P, 0}], false, w.sigs[[3]uint32{other, a.P, 0}]))
	case "C", "BC":
		es := map[uint32][]byte{}
		for _, x := range a.Sg {
			es[x] = w.sigs[[3]uint32{x, a.P, b2u(a.E)}]
		}
		for _, x := range a.Sf {
			es[x] = w.forged(fk+int(x), a.X, x, a.P, a.E)
		}
		sg := w.sigs[[3]uint32{a.X, a.P, b2u(a.E)}]
		if a.K == "BC" {
			sg = w.sigs[[3]uint32{a.X%w.n + 1, a.P, b2u(a.E)}]
		}
		return cls(vp.DeliverCommit(1, a.X, a.P, w.hash[[2]uint32{a.P, b2u(a.E)}], a.E, es, sg))
	}
	vio.Fatal("unknown action kind %q", a.K)
	return ""
}

func nz(p uint32) uint32 {
	if p == math.MaxUint32 {
		return 0
	}
	return p
}

func (w *world) observe(vp *vbft.VerifPool, ret string) obs {
	o := obs{Ret: ret, Seal: []sealEnt{}}
	p, e, d := vp.EndorseDone(1)
	o.Ed = [3]interface{}{nz(p), e, d}
	p, e, d = vp.CommitDone(1)
	o.Cd = [3]interface{}{nz(p), e, d}
	if d && vp.HasProposal(1, p) {
		o.Hs = true
		bks, sigs, h, err := vp.SealSignatures(1, p, e)
		if err != nil {
			vio.Fatal("seal: %v", err)
		}
		if len(bks) != len(sigs) {
			vio.Fatal("seal: %d bookkeepers, %d signatures", len(bks), len(sigs))
		}
		for i := range bks {
			idx := w.pkIdx[string(keypair.SerializePublicKey(bks[i]))]
			o.Seal = append(o.Seal, sealEnt{X: idx, G: signature.Verify(bks[i], h[:], sigs[i]) == nil})
		}
		sortSeal(o.Seal)
	}
	return o
}

func sortSeal(s []sealEnt) {
	sort.Slice(s, func(i, j int) bool {
		if s[i].X != s[j].X {
			return s[i].X < s[j].X
		}
		return !s[i].G && s[j].G
	})
}

func sealEq(a, b []sealEnt) bool {
	if len(a) != len(b) {
		return false
	}
	for i := range a {
		if a[i] != b[i] {
			return false
		}
	}
	return true
}

type edgeOut struct {
	I        int      `json:"i"`
	Mismatch bool     `json:"mismatch,omitempty"`
	Panic    string   `json:"panic,omitempty"`
	Got      *obs     `json:"got,omitempty"`
	Flags    []string `json:"flags,omitempty"` // monitor clauses TLC evaluated to FALSE on the (confirmed) behaviour
	Forged   bool     `json:"forged,omitempty"`
}

func roundEdges(n, c int, proposers, endorsers, committers []uint32) {
	w := newWorld(n, c, proposers, endorsers, committers)
	lines := vio.ReadLines()
	var mu sync.Mutex
	distinct := map[string]bool{}
	nDone, nMis := 0, 0
	vio.ParMap(len(lines), 8, func(i int) {
		var ed mEdge
		if err := json.Unmarshal(lines[i], &ed); err != nil {
			vio.Fatal("edge %d: %v", i, err)
		}
		out := edgeOut{I: i}
		var o obs
		fk := int(vio.Seed()) + i
		pn := vio.Safe(func() {
			vp := w.newPool()
			for _, a := range ed.H {
				w.deliver(vp, a, fk)
			}
			o = w.observe(vp, w.deliver(vp, ed.A, fk))
		})
		if pn != "" {
			out.Panic, out.Mismatch = pn, true
			vio.Emit(out)
			return
		}
		match := o.Ret == ed.Ret
		var er *edRow
		for k := range ed.Ed {
			r := &ed.Ed[k]
			if r.P == o.Ed[0] && r.E == o.Ed[1] && r.D == o.Ed[2] {
				er = r
			}
		}
		var cr *cdRow
		for k := range ed.Cd {
			r := &ed.Cd[k]
			sortSeal(r.Seal)
			if r.P == o.Cd[0] && r.E == o.Cd[1] && r.D == o.Cd[2] && r.Hs == o.Hs && sealEq(r.Seal, o.Seal) {
				cr = r
			}
		}
		if !match || er == nil || cr == nil {
			out.Mismatch, out.Got = true, &o
			vio.Emit(out)
			mu.Lock()
			nMis++
			mu.Unlock()
			return
		}
		// behaviour confirmed: the monitor verdicts TLC computed for this admissible observation apply to the real run
		if !er.Ok {
			out.Flags = append(out.Flags, "endorse"+map[bool]string{true: ":unverified-entries", false: ""}[er.Okc])
		}
		if !cr.Ok {
			out.Flags = append(out.Flags, "commit"+map[bool]string{true: ":unverified-entries", false: ""}[cr.Okc])
		}
		if !cr.Sok {
			out.Flags = append(out.Flags, "seal"+map[bool]string{true: ":unverified-entries", false: ""}[cr.Sokc])
		}
		if len(out.Flags) > 0 {
			out.Got = &o
			vio.Emit(out)
		}
		mu.Lock()
		nDone++
		if o.Ed[2] == true || o.Cd[2] == true || o.Ret != "ok" {
			distinct[fmt.Sprintf("%v|%v|%v|%v|%v", ed.A, o.Ret, o.Ed, o.Cd, o.Seal)] = true
		}
		mu.Unlock()
	})
	vio.Emit(map[string]interface{}{"summary": true, "edges": len(lines), "confirmed": nDone, "mismatches": nMis, "distinct": len(distinct)})
}

// roundRecord: histories (arrays of actions) on stdin; emits the observed behaviour as trace events for TraceVbftRound.
func roundRecord(n, c int, proposers, endorsers, committers []uint32) {
	w := newWorld(n, c, proposers, endorsers, committers)
	lines := vio.ReadLines()
	for i, ln := range lines {
		var h []mAct
		dec := json.NewDecoder(bytes.NewReader(ln))
		if err := dec.Decode(&h); err != nil {
			vio.Fatal("history %d: %v", i, err)
		}
		vio.Emit(map[string]interface{}{"op": "reset", "hi": i})
		vp := w.newPool()
		for _, a := range h {
			var o obs
			pn := vio.Safe(func() { o = w.observe(vp, w.deliver(vp, a, int(vio.Seed())+i)) })
			if pn != "" {
				vio.Emit(map[string]interface{}{"op": "panic", "hi": i, "panic": pn})
				break
			}
			seal := [][2]interface{}{}
			for _, s := range o.Seal {
				seal = append(seal, [2]interface{}{s.X, s.G})
			}
			vio.Emit(map[string]interface{}{"op": "msg", "hi": i, "a": a, "ret": o.Ret, "ed": o.Ed, "cd": o.Cd, "hs": o.Hs, "seal": seal})
		}
	}
}
