// vd-vbft: drivers for the VBFT consensus checks (C40 participant selection, C41 round decisions).
package main

import (
	"os"
	"strconv"

	"verifh/kit/vio"
)

func atoi(s string) int {
	n, err := strconv.Atoi(s)
	if err != nil {
		vio.Fatal("bad number %q", s)
	}
	return n
}

func main() {
	defer vio.Flush()
	if len(os.Args) < 2 {
		vio.Fatal("usage: vd-vbft <cmd> ...")
	}
	switch os.Args[1] {
	case "round-edges": // N C proposers endorsers committers   (comma lists), edges on stdin
		roundEdges(atoi(os.Args[2]), atoi(os.Args[3]), ilist(os.Args[4]), ilist(os.Args[5]), ilist(os.Args[6]))
	case "round-record": // N C proposers endorsers committers : histories on stdin -> observed events
		roundRecord(atoi(os.Args[2]), atoi(os.Args[3]), ilist(os.Args[4]), ilist(os.Args[5]), ilist(os.Args[6]))
	case "select": // draws per config, chosen seeds per config, draws per large/skewed config, of which recomputed by TLC, seeds per round-after-config-block row
		selectRecord(atoi(os.Args[2]), atoi(os.Args[3]), atoi(os.Args[4]), atoi(os.Args[5]), atoi(os.Args[6]))
	default:
		vio.Fatal("unknown command %s", os.Args[1])
	}
}
