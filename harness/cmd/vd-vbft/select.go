package main

import "verifh/kit/vio"

func selectRecord(draws int) { vio.Fatal("not built yet") }
