package main

// C40: P-VALIDATE recorder for spec/TraceVbftSelect.tla.
//
// Chain configs are built by the real vconfig.GenesisChainConfig from pools of N = 4..10 generated validators;
// for every config the driver logs
//   cfg    the config (N, C, position table, pool indices)
//   build  real buildParticipantConfig on a previous block with random proposer / block root / vrf value:
//          the selection seed (real getParticipantSelectionSeed), the returned selection or the error;
//          the call is repeated on a deep copy of the config by a server with another index ("same")
//   peers  real calcParticipantPeers on chosen seeds (all-zero, all-0xFF, single bit, sparse, random) for the
//          proposer range and, with the proposers it yields (and with adversarial proposer lists), the endorser and
//          committer ranges; repeated ("same")
//   part   real calcParticipant on slots incl. the boundaries 511 / 512

import (
	"encoding/json"
	"reflect"

	"github.com/polynetwork/poly/common"
	"github.com/polynetwork/poly/common/config"
	"github.com/polynetwork/poly/common/log"
	"github.com/polynetwork/poly/consensus/vbft"
	vconfig "github.com/polynetwork/poly/consensus/vbft/config"
	"github.com/polynetwork/poly/core/types"

	"verifh/kit/vio"
)

func u32s(a []uint32) []int64 {
	r := make([]int64, len(a))
	for i, v := range a {
		r[i] = peerNum(v)
	}
	return r
}

func peerNum(v uint32) int64 {
	if v == ^uint32(0) {
		return -1
	}
	return int64(v)
}

func vrfInts(v vconfig.VRFValue) []int {
	r := make([]int, len(v))
	for i, b := range v {
		r[i] = int(b)
	}
	return r
}

func copyChain(c *vconfig.ChainConfig) *vconfig.ChainConfig {
	b, err := json.Marshal(c)
	if err != nil {
		vio.Fatal("marshal chain config: %v", err)
	}
	n := &vconfig.ChainConfig{}
	if err := json.Unmarshal(b, n); err != nil {
		vio.Fatal("unmarshal chain config: %v", err)
	}
	return n
}

func specialSeeds(r *vio.RNG, n int) []vconfig.VRFValue {
	var res []vconfig.VRFValue
	var z, f vconfig.VRFValue
	for i := range f {
		f[i] = 0xFF
	}
	res = append(res, z, f)
	for k := 0; k < n; k++ {
		var v vconfig.VRFValue
		switch k % 4 {
		case 0: // single bit
			bit := r.Intn(512)
			v[bit/8] = 1 << uint(bit%8)
		case 1: // sparse: a few non-zero bytes
			for j := 0; j < 1+r.Intn(4); j++ {
				v[r.Intn(64)] = byte(r.U64())
			}
		case 2: // one repeated byte
			b := byte(r.U64())
			for j := range v {
				v[j] = b
			}
		default:
			copy(v[:], r.Bytes(64))
		}
		res = append(res, v)
	}
	return res
}

func selectRecord(builds, seeds, xbuilds, xre, rounds int) {
	log.InitLog(log.FatalLog+1, log.Stdout)
	rng := vio.NewRNG(vio.Seed() ^ 0xC40)
	cfgID := 0
	for n := 4; n <= 10; n++ {
		for _, height := range []uint32{0, uint32(1 + rng.Intn(1000000))} {
			cfgID++
			var peers []*config.VBFTPeerInfo
			idx := rng.Perm(n + 3) // pool indices are not contiguous
			for i := 0; i < n; i++ {
				a := detAccount(rng)
				peers = append(peers, &config.VBFTPeerInfo{Index: uint32(idx[i] + 1), PeerPubkey: vconfig.PubkeyID(a.PublicKey), Address: a.Address.ToBase58()})
			}
			conf := &config.VBFTConfig{BlockMsgDelay: 10000, HashMsgDelay: 10000, PeerHandshakeTimeout: 10, MaxBlockChangeView: 1000, Peers: peers}
			var chain *vconfig.ChainConfig
			var err error
			if pn := vio.Safe(func() { chain, err = vconfig.GenesisChainConfig(conf, peers, height) }); pn != "" || err != nil {
				vio.Emit(map[string]interface{}{"op": "cfgfail", "id": cfgID, "n": n, "panic": pn, "err": errStr(err)})
				continue
			}
			chain2, _ := vconfig.GenesisChainConfig(conf, peers, height)
			pool := make([]int64, 0, n)
			for _, p := range peers {
				pool = append(pool, int64(p.Index))
			}
			vio.Emit(map[string]interface{}{"op": "cfg", "id": cfgID, "n": int(chain.N), "c": int(chain.C), "tbl": u32s(chain.PosTable),
				"pool": pool, "same": reflect.DeepEqual(chain.PosTable, chain2.PosTable) && chain.N == chain2.N && chain.C == chain2.C})

			// real buildParticipantConfig on random previous blocks
			nb := builds
			if chain.N == 3*chain.C && nb > 3 { // no selection exists (see notes/built/C40.md): every call runs through all 512 slots
				nb = 3
			}
			for d := 0; d < nb; d++ {
				info := &vconfig.VbftBlockInfo{Proposer: peers[rng.Intn(n)].Index, VrfValue: rng.Bytes(64), VrfProof: rng.Bytes(8), LastConfigBlockNum: 0}
				payload, _ := json.Marshal(info)
				var root common.Uint256
				copy(root[:], rng.Bytes(32))
				prev := &types.Block{Header: &types.Header{Height: uint32(rng.Intn(1 << 20)), BlockRoot: root, ConsensusPayload: payload}}
				blkNum := prev.Header.Height + 1
				seed, err := vbft.VerifSelectionSeed(prev)
				if err != nil {
					vio.Fatal("seed: %v", err)
				}
				var v1, v2 vconfig.VRFValue
				var p1, e1, c1, p2, e2, c2 []uint32
				var er1, er2 error
				pn := vio.Safe(func() {
					v1, p1, e1, c1, er1 = vbft.VerifBuildParticipantConfig(peers[0].Index, blkNum, prev, chain)
					v2, p2, e2, c2, er2 = vbft.VerifBuildParticipantConfig(peers[n-1].Index, blkNum, prev, copyChain(chain))
				})
				if pn != "" {
					vio.Emit(map[string]interface{}{"op": "panic", "id": cfgID, "what": "build", "vrf": vrfInts(seed), "panic": pn})
					continue
				}
				same := (er1 == nil) == (er2 == nil) && eqU(p1, p2) && eqU(e1, e2) && eqU(c1, c2) && v1 == v2 && (er1 != nil || v1 == seed)
				vio.Emit(map[string]interface{}{"op": "build", "id": cfgID, "vrf": vrfInts(seed), "err": er1 != nil, "p": u32s(p1), "e": u32s(e1), "c": u32s(c1), "same": same, "re": true})
			}

			// real calcParticipantPeers / calcParticipant on chosen seeds
			for si, seed := range specialSeeds(rng, seeds) {
				for _, k := range []uint32{uint32(rng.Intn(8)), uint32(rng.Intn(512)), 504 + uint32(rng.Intn(8)), 512 + uint32(rng.Intn(3))*1000} {
					var id uint32
					if pn := vio.Safe(func() { id = vbft.VerifCalcParticipant(seed, chain.PosTable, k) }); pn != "" {
						vio.Emit(map[string]interface{}{"op": "panic", "id": cfgID, "what": "part", "vrf": vrfInts(seed), "k": k, "panic": pn})
						continue
					}
					vio.Emit(map[string]interface{}{"op": "part", "id": cfgID, "vrf": vrfInts(seed), "k": int64(k), "out": peerNum(id)})
				}
				call := func(kind string, props []uint32) []uint32 {
					start, end := 0, vconfig.MAX_PROPOSER_COUNT
					if kind == "E" {
						start, end = vconfig.MAX_PROPOSER_COUNT, vconfig.MAX_PROPOSER_COUNT+vconfig.MAX_ENDORSER_COUNT
					} else if kind == "C" {
						start = vconfig.MAX_PROPOSER_COUNT + vconfig.MAX_ENDORSER_COUNT
						end = start + vconfig.MAX_COMMITTER_COUNT
					}
					var o1, o2 []uint32
					if pn := vio.Safe(func() {
						o1 = vbft.VerifCalcParticipantPeersWith(seed, chain, props, start, end)
						o2 = vbft.VerifCalcParticipantPeersWith(seed, copyChain(chain), append([]uint32{}, props...), start, end)
					}); pn != "" {
						vio.Emit(map[string]interface{}{"op": "panic", "id": cfgID, "what": "peers", "kind": kind, "vrf": vrfInts(seed), "props": u32s(props), "panic": pn})
						return nil
					}
					vio.Emit(map[string]interface{}{"op": "peers", "id": cfgID, "kind": kind, "vrf": vrfInts(seed), "props": u32s(props), "out": u32s(o1), "same": eqU(o1, o2)})
					return o1
				}
				ps := call("P", nil)
				var lists [][]uint32
				if uint32(len(ps)) >= chain.C+1 {
					lists = append(lists, ps[:chain.C+1])
				}
				if si%3 == 0 { // adversarial proposer lists: repeated entries, fewer than C entries
					lists = append(lists, []uint32{chain.PosTable[0], chain.PosTable[0], chain.PosTable[1]}, []uint32{chain.PosTable[2]})
				}
				for _, pl := range lists {
					call("E", pl)
					call("C", pl)
				}
			}
		}
	}
	selectExtra(rng, cfgID, xbuilds, xre)
	selectRounds(rng, rounds)
}

// selectExtra: larger pools (tables from the real GenesisChainConfig) and skewed hand-made tables in which one or two
// validators hold very few positions.  Every buildParticipantConfig result is logged; TLC evaluates the monitor on every
// returned selection and recomputes the first `re` draws of each config (re = true in the event).
func selectExtra(rng *vio.RNG, cfgID, nb, re int) {
	if nb <= 0 {
		return
	}
	mkPeers := func(n int) []*config.VBFTPeerInfo {
		var peers []*config.VBFTPeerInfo
		for i := 0; i < n; i++ {
			a := detAccount(rng)
			peers = append(peers, &config.VBFTPeerInfo{Index: uint32(i + 1), PeerPubkey: vconfig.PubkeyID(a.PublicKey), Address: a.Address.ToBase58()})
		}
		return peers
	}
	var chains []*vconfig.ChainConfig
	large := []int{40, 43, 49}
	if vio.Tier() != "quick" {
		large = []int{13, 22, 31, 40, 41, 43, 46, 49, 64}
	}
	for _, n := range large {
		peers := mkPeers(n)
		conf := &config.VBFTConfig{BlockMsgDelay: 10000, HashMsgDelay: 10000, PeerHandshakeTimeout: 10, MaxBlockChangeView: 1000, Peers: peers}
		chain, err := vconfig.GenesisChainConfig(conf, peers, uint32(rng.Intn(1000)))
		if err != nil {
			vio.Emit(map[string]interface{}{"op": "cfgfail", "id": -1, "n": n, "err": errStr(err)})
			continue
		}
		chains = append(chains, chain)
	}
	// skewed tables: n validators, `rare` of them hold one position each, the others share the rest evenly; shuffled
	type sk struct{ n, rare, length int }
	sks := []sk{{4, 1, 300}, {4, 1, 601}, {7, 2, 400}, {5, 1, 250}}
	if vio.Tier() != "quick" {
		sks = append(sks, sk{4, 2, 300}, sk{7, 1, 500}, sk{10, 2, 450}, sk{8, 3, 350}, sk{4, 1, 150})
	}
	for _, k := range sks {
		peers := mkPeers(k.n)
		var pcs []*vconfig.PeerConfig
		for _, p := range peers {
			pcs = append(pcs, &vconfig.PeerConfig{Index: p.Index, ID: p.PeerPubkey})
		}
		tbl := make([]uint32, 0, k.length)
		for i := 0; i < k.rare; i++ {
			tbl = append(tbl, uint32(k.n-i))
		}
		for i := 0; len(tbl) < k.length; i++ {
			tbl = append(tbl, uint32(i%(k.n-k.rare)+1))
		}
		pm := rng.Perm(len(tbl))
		sh := make([]uint32, len(tbl))
		for i, j := range pm {
			sh[i] = tbl[j]
		}
		chains = append(chains, &vconfig.ChainConfig{Version: 1, View: 1, N: uint32(k.n), C: uint32(k.n / 3), Peers: pcs, PosTable: sh})
	}
	for _, chain := range chains {
		cfgID++
		pool := make([]int64, 0, len(chain.Peers))
		for _, p := range chain.Peers {
			pool = append(pool, int64(p.Index))
		}
		vio.Emit(map[string]interface{}{"op": "cfg", "id": cfgID, "n": int(chain.N), "c": int(chain.C), "tbl": u32s(chain.PosTable), "pool": pool, "same": true})
		n := len(chain.Peers)
		for d := 0; d < nb; d++ {
			info := &vconfig.VbftBlockInfo{Proposer: chain.Peers[rng.Intn(n)].Index, VrfValue: rng.Bytes(64), VrfProof: rng.Bytes(8), LastConfigBlockNum: 0}
			payload, _ := json.Marshal(info)
			var root common.Uint256
			copy(root[:], rng.Bytes(32))
			prev := &types.Block{Header: &types.Header{Height: uint32(rng.Intn(1 << 20)), BlockRoot: root, ConsensusPayload: payload}}
			blkNum := prev.Header.Height + 1
			seed, err := vbft.VerifSelectionSeed(prev)
			if err != nil {
				vio.Fatal("seed: %v", err)
			}
			var v1, v2 vconfig.VRFValue
			var p1, e1, c1, p2, e2, c2 []uint32
			var er1, er2 error
			pn := vio.Safe(func() {
				v1, p1, e1, c1, er1 = vbft.VerifBuildParticipantConfig(chain.Peers[0].Index, blkNum, prev, chain)
				v2, p2, e2, c2, er2 = vbft.VerifBuildParticipantConfig(chain.Peers[n-1].Index, blkNum, prev, copyChain(chain))
			})
			if pn != "" {
				vio.Emit(map[string]interface{}{"op": "panic", "id": cfgID, "what": "build", "vrf": vrfInts(seed), "panic": pn})
				continue
			}
			same := (er1 == nil) == (er2 == nil) && eqU(p1, p2) && eqU(e1, e2) && eqU(c1, c2) && v1 == v2 && (er1 != nil || v1 == seed)
			vio.Emit(map[string]interface{}{"op": "build", "id": cfgID, "vrf": vrfInts(seed), "err": er1 != nil, "p": u32s(p1), "e": u32s(e1), "c": u32s(c1),
				"same": same, "re": d < re})
		}
	}
}

// selectRounds: the production entry point Server.updateParticipantConfig at the start of the round that follows
// (a) an ordinary block, (b) a chain-config block (NewChainConfig in the block's consensus payload) - for pairs of old / new
// configs that differ in N, C and membership.  Node A still has the old config in Server.config (the block-persisted event
// has not been handled), node B has the config in force already; both see the same sealed block.
func selectRounds(rng *vio.RNG, seedsPerRow int) {
	if seedsPerRow <= 0 {
		return
	}
	mk := func(idx []uint32, height uint32) *vconfig.ChainConfig {
		var peers []*config.VBFTPeerInfo
		for _, i := range idx {
			a := detAccount(rng)
			peers = append(peers, &config.VBFTPeerInfo{Index: i, PeerPubkey: vconfig.PubkeyID(a.PublicKey), Address: a.Address.ToBase58()})
		}
		conf := &config.VBFTConfig{BlockMsgDelay: 10000, HashMsgDelay: 10000, PeerHandshakeTimeout: 10, MaxBlockChangeView: 1000, Peers: peers}
		cc, err := vconfig.GenesisChainConfig(conf, peers, height)
		if err != nil {
			vio.Fatal("GenesisChainConfig: %v", err)
		}
		return cc
	}
	cfgRec := func(c *vconfig.ChainConfig) map[string]interface{} {
		if c == nil {
			return map[string]interface{}{"n": 0, "c": 0, "tbl": []int64{}}
		}
		return map[string]interface{}{"n": int(c.N), "c": int(c.C), "tbl": u32s(c.PosTable)}
	}
	pairs := [][2][]uint32{
		{{1, 2, 3, 4}, {2, 3, 4, 5, 6, 7, 8}},           // 4 -> 7, C 1 -> 2, peer 1 removed
		{{1, 2, 3, 4, 5, 6, 7}, {3, 5, 7, 9}},           // 7 -> 4, C 2 -> 1
		{{1, 2, 3, 4, 5}, {4, 5, 6, 7, 8}},              // same N and C, other members
		{{1, 2, 3, 4, 5, 6, 7, 8, 9, 10}, {1, 2, 3, 4}}, // 10 -> 4, subset
		{{1, 2, 3, 4}, {1, 2, 3, 4}},                    // same members, new table (other height)
		{{2, 4, 6, 8, 10, 12, 14}, {1, 2, 3, 4, 5, 6, 7, 8, 9, 10}},
	}
	for _, pr := range pairs {
		h := uint32(10 + rng.Intn(100000))
		oldCfg, newCfg := mk(pr[0], 0), mk(pr[1], h)
		newCfg.View = 2
		for _, with := range []bool{false, true} {
			for d := 0; d < seedsPerRow; d++ {
				info := &vconfig.VbftBlockInfo{Proposer: pr[0][rng.Intn(len(pr[0]))], VrfValue: rng.Bytes(64), VrfProof: rng.Bytes(8), LastConfigBlockNum: 0}
				inForce := oldCfg
				if with {
					info.NewChainConfig, info.LastConfigBlockNum, inForce = newCfg, h, newCfg
				}
				payload, err := json.Marshal(info)
				if err != nil {
					vio.Fatal("payload: %v", err)
				}
				var root common.Uint256
				copy(root[:], rng.Bytes(32))
				sealed := &types.Block{Header: &types.Header{Height: h, Timestamp: 1600000000 + h, BlockRoot: root, ConsensusPayload: payload}}
				seed, err := vbft.VerifSelectionSeed(sealed)
				if err != nil {
					vio.Fatal("seed: %v", err)
				}
				var ra, rb uint32
				var va, vb vconfig.VRFValue
				var pa, ea, ca, pb, eb, cb []uint32
				var oka, okb bool
				pn := vio.Safe(func() {
					ra, va, pa, ea, ca, oka, _ = vbft.VerifUpdateParticipantConfig(pr[0][0], copyChain(oldCfg), sealed)
					rb, vb, pb, eb, cb, okb, _ = vbft.VerifUpdateParticipantConfig(inForce.Peers[len(inForce.Peers)-1].Index, copyChain(inForce), sealed)
				})
				if pn != "" {
					vio.Emit(map[string]interface{}{"op": "panic", "id": -2, "what": "round", "vrf": vrfInts(seed), "panic": pn})
					continue
				}
				same := oka == okb && eqU(pa, pb) && eqU(ea, eb) && eqU(ca, cb) && va == vb && ra == rb && (!oka || (va == seed && ra == h+1))
				vio.Emit(map[string]interface{}{"op": "round", "id": -2, "vrf": vrfInts(seed), "cur": cfgRec(oldCfg), "new": cfgRec(info.NewChainConfig),
					"err": !oka, "p": u32s(pa), "e": u32s(ea), "c": u32s(ca), "same": same})
			}
		}
	}
}

func errStr(e error) string {
	if e == nil {
		return ""
	}
	return e.Error()
}

func eqU(a, b []uint32) bool {
	if len(a) != len(b) {
		return false
	}
	for i := range a {
		if a[i] != b[i] {
			return false
		}
	}
	return true
}
