package main

// C08: chains printed by table "c08chain" of spec/Merkle.tla (block h produces chain[h-1] cross-chain records) are
// committed on a REAL on-disk ledger (core/ledger.Ledger over ledgerstore, solo bookkeeper, probe contract whose
// `rec` step calls NativeService.PutMerkleVal).  After every commit, after the whole chain, and again after closing
// and reopening the ledger, the driver asks for what relayers are served:
//   Ledger.GetCrossStatesProof(h, key) for every record of every block  -> merkle.MerkleProve against
//       Ledger.GetCrossStateRoot(h) (= CrossStateRoot of header h+1) must succeed and yield exactly the stored record
//   Ledger.GetMerkleProof(h, r) for heights h < r                     -> merkle.MerkleProve against header r's
//       BlockRoot must succeed and yield the hash of block h
// and compares roots and proof bytes with the evaluated spec terms of table "c08" (differences there that keep the
// property are drift).

import (
	"bytes"
	"encoding/json"
	"fmt"
	"os"
	"os/exec"
	"path/filepath"
	"strings"

	"github.com/ontio/ontology-crypto/keypair"
	"github.com/polynetwork/poly/account"
	"github.com/polynetwork/poly/common"
	"github.com/polynetwork/poly/common/config"
	"github.com/polynetwork/poly/common/log"
	"github.com/polynetwork/poly/core/genesis"
	"github.com/polynetwork/poly/core/ledger"
	"github.com/polynetwork/poly/core/store/ledgerstore"
	"github.com/polynetwork/poly/core/types"
	"github.com/polynetwork/poly/merkle"

	"verifh/kit/ledgerkit"
	"verifh/kit/termeval"
	"verifh/kit/vio"
)

type crossRow struct {
	root  interface{}
	paths []interface{}
}

type blockRowT struct {
	root interface{}
	path []interface{}
}

type c08Run struct {
	cross     map[string]*crossRow // lab/k
	block     map[[2]int]*blockRowT
	evals     int
	distinct  map[string]bool
	drift     map[string]int
	reportCap int
	chainNo   int
}

func (c *c08Run) violate(kind string, d obj) {
	if c.reportCap > 0 {
		c.reportCap--
		d["chain"] = c.chainNo
		vio.Emit(obj{"violation": kind, "detail": d})
	}
}

type record struct {
	key string
	val string
}

type blockInfo struct {
	lab     string
	records []record
}

func pathBytes(e *termeval.Env, val []byte, items []interface{}) []byte {
	b := varBytes(val)
	for _, it := range evalPath(e, items) {
		b = append(b, it.flag)
		b = append(b, it.h[:]...)
	}
	return b
}

func (c *c08Run) checkCross(lg *ledger.Ledger, h int, bi *blockInfo, phase string) {
	k := len(bi.records)
	root, err := lg.GetCrossStateRoot(uint32(h))
	if err != nil {
		c.violate("cross-root-unavailable", obj{"h": h, "err": err.Error(), "phase": phase})
		return
	}
	if hdr, err := lg.GetHeaderByHeight(uint32(h + 1)); err == nil && hdr != nil && hdr.CrossStateRoot != root {
		vio.Fatal("harness: header %d does not carry GetCrossStateRoot(%d)", h+1, h)
	}
	row := c.cross[fmt.Sprintf("%s/%d", bi.lab, k)]
	if row == nil {
		vio.Fatal("no cross row for %s/%d", bi.lab, k)
	}
	env := &termeval.Env{Dat: func(j int) []byte { return []byte(bi.records[labelValueIndex(bi.lab, j)].val) }}
	exp := mustHash(env, row.root)
	c.evals++
	c.distinct[fmt.Sprintf("crossroot/%s/%d", bi.lab, k)] = true
	if [32]byte(root) != exp {
		c.drift["cross-state root differs from the RFC 6962 hash of the block's records"]++
	}
	for i, rec := range bi.records {
		key := append(append([]byte{}, ledgerkit.ProbeAddr[:]...), []byte(rec.key)...)
		var path []byte
		var err error
		c.evals++
		c.distinct[fmt.Sprintf("crossproof/%s/%d/%d", bi.lab, k, i)] = true
		if pn := vio.Safe(func() { path, err = lg.GetCrossStatesProof(uint32(h), key) }); pn != "" || err != nil {
			c.violate("cross-proof-unavailable", obj{"h": h, "k": k, "i": i, "lab": bi.lab, "panic": pn, "err": fmt.Sprint(err), "phase": phase})
			continue
		}
		val, err := merkle.MerkleProve(path, root[:])
		if err != nil || !bytes.Equal(val, []byte(rec.val)) {
			c.violate("cross-proof-does-not-verify", obj{"h": h, "k": k, "i": i, "lab": bi.lab, "err": fmt.Sprint(err), "yield": string(val),
				"record": rec.val, "path": vio.Hex(path), "root": vio.Hex(root[:]), "phase": phase})
			continue
		}
		if !bytes.Equal(path, pathBytes(env, []byte(rec.val), row.paths[i].([]interface{}))) {
			c.drift["served cross-state proof differs from the RFC 6962 audit path but verifies"]++
		}
	}
}

// labIndex: which record value sits at leaf i under the labelling (records are generated so that this holds).
func labIndex(lab string, i, k int) int {
	switch lab {
	case "pairs":
		return (i / 2) * 2
	case "same":
		return 0
	}
	return i
}

// labelValueIndex: the index of the first record that carries datum j of the labelling.
func labelValueIndex(lab string, j int) int {
	switch lab {
	case "pairs":
		return 2 * j
	case "same":
		return 0
	}
	return j
}

func (c *c08Run) checkBlockProof(lg *ledger.Ledger, h, r int, hashes []common.Uint256, phase string) {
	c.evals++
	c.distinct[fmt.Sprintf("blockproof/%d/%d", r, h)] = true
	var path []byte
	var err error
	if pn := vio.Safe(func() { path, err = lg.GetMerkleProof(uint32(h), uint32(r)) }); pn != "" || err != nil {
		c.violate("block-proof-unavailable", obj{"h": h, "r": r, "panic": pn, "err": fmt.Sprint(err), "phase": phase})
		return
	}
	hdr, err := lg.GetHeaderByHeight(uint32(r))
	if err != nil || hdr == nil {
		vio.Fatal("header %d: %v", r, err)
	}
	val, err := merkle.MerkleProve(path, hdr.BlockRoot[:])
	if err != nil || !bytes.Equal(val, hashes[h][:]) {
		c.violate("block-proof-does-not-verify", obj{"h": h, "r": r, "err": fmt.Sprint(err), "yield": vio.Hex(val), "blockhash": vio.Hex(hashes[h][:]),
			"path": vio.Hex(path), "blockroot": vio.Hex(hdr.BlockRoot[:]), "phase": phase})
		return
	}
	if row := c.block[[2]int{r, h}]; row != nil {
		env := &termeval.Env{Dat: func(i int) []byte {
			if i == 0 {
				return make([]byte, 32)
			}
			return hashes[i-1][:]
		}}
		if exp := mustHash(env, row.root); [32]byte(hdr.BlockRoot) != exp {
			c.drift["header block root differs from the RFC 6962 hash of the previous block hashes"]++
		}
		if !bytes.Equal(path, pathBytes(env, hashes[h][:], row.path)) {
			c.drift["served block proof differs from the RFC 6962 audit path but verifies"]++
		}
	}
}

func openLedger(dir string, acct *account.Account) (*ledger.Ledger, *ledgerkit.Ledger) {
	bks := []keypair.PublicKey{acct.PublicKey}
	config.DefConfig.Genesis.ConsensusType = "solo"
	gb, err := genesis.BuildGenesisBlock(bks, config.DefConfig.Genesis)
	vio.Must(err)
	lg, err := ledger.NewLedger(dir)
	vio.Must(err)
	vio.Must(lg.Init(bks, gb))
	kit := &ledgerkit.Ledger{L: lg.GetStore().(*ledgerstore.LedgerStoreImp), Dir: dir, Genesis: gb, Accts: []*account.Account{acct}}
	return lg, kit
}

// genBlock: the records of block h (k records under a seeded labelling) and the transactions that write them.
func genBlock(h, k int, rng *vio.RNG, noncep *uint32) (*blockInfo, []*types.Transaction) {
	nonce := *noncep
	bi := &blockInfo{lab: []string{"id", "id", "pairs", "same"}[rng.Intn(4)]}
	if k < 2 {
		bi.lab = "id"
	}
	for i := 0; i < k; i++ {
		v := fmt.Sprintf("rec-%d-%d-%x", h, i, rng.Bytes(1+rng.Intn(40)))
		if j := labIndex(bi.lab, i, k); j != i {
			v = bi.records[j].val
		}
		bi.records = append(bi.records, record{key: fmt.Sprintf("k/%d/%d", h, i), val: v})
	}
	// distribute the records over 1..3 transactions, optionally with a failing transaction in between
	var txs []*types.Transaction
	ntx := 1 + rng.Intn(3)
	cut := make([]int, 0, ntx)
	for t := 1; t < ntx; t++ {
		cut = append(cut, rng.Intn(k+1))
	}
	var steps []ledgerkit.Step
	flush := func() {
		nonce++
		txs = append(txs, ledgerkit.ProbeTx(steps, nonce))
		steps = nil
	}
	for i := 0; i <= k; i++ {
		for _, cc := range cut {
			if cc == i {
				flush()
				if rng.Intn(3) == 0 {
					steps = []ledgerkit.Step{{Op: "rec", K: "never-committed"}, {Op: "put", K: "junk", V: "x"}, {Op: "fail"}}
					flush()
				}
			}
		}
		if i < k {
			steps = append(steps, ledgerkit.Step{Op: "put", K: bi.records[i].key, V: bi.records[i].val}, ledgerkit.Step{Op: "rec", K: bi.records[i].val})
		}
	}
	flush()
	*noncep = nonce
	return bi, txs
}

func (c *c08Run) runChain(chain []int, acct *account.Account, rng *vio.RNG, gridEvery bool) {
	dir, err := os.MkdirTemp(".", "c08-")
	vio.Must(err)
	defer os.RemoveAll(dir)
	lg, kit := openLedger(dir, acct)
	blocks := map[int]*blockInfo{}
	hashes := []common.Uint256{lg.GetBlockHash(0)}
	nonce := uint32(rng.Intn(1 << 20))
	for hi, k := range chain {
		h := hi + 1
		bi, txs := genBlock(h, k, rng, &nonce)
		blk := kit.Build(txs, nil)
		if _, err := kit.Commit(blk); err != nil {
			vio.Fatal("harness: commit of block %d failed: %v", h, err)
		}
		blocks[h] = bi
		hashes = append(hashes, blk.Hash())
		c.checkCross(lg, h, bi, "after-commit")
		for h1 := 0; h1 < h; h1++ {
			c.checkBlockProof(lg, h1, h, hashes, "after-commit")
		}
		if gridEvery {
			for hh := 1; hh < h; hh++ {
				c.checkCross(lg, hh, blocks[hh], "later")
			}
			for r := 1; r < h; r++ {
				for h1 := 0; h1 < r; h1++ {
					c.checkBlockProof(lg, h1, r, hashes, "later")
				}
			}
		}
	}
	full := func(phase string) {
		H := len(chain)
		for hh := 1; hh <= H; hh++ {
			c.checkCross(lg, hh, blocks[hh], phase)
		}
		for r := 1; r <= H; r++ {
			for h1 := 0; h1 < r; h1++ {
				c.checkBlockProof(lg, h1, r, hashes, phase)
			}
		}
	}
	full("end-of-chain")
	// a ledger whose hash store is damaged may fail to close or to reopen: that must not take the driver down
	// (the violations found so far have to be reported), and a ledger that cannot be reopened is itself reported
	if p := vio.Safe(func() { lg.Close() }); p != "" {
		c.violate("ledger-close-panic", obj{"panic": p})
	}
	lg = nil
	if p := vio.Safe(func() { lg, _ = openLedger(dir, acct) }); p != "" || lg == nil {
		c.violate("ledger-reopen-failed", obj{"panic": p})
		return
	}
	full("after-reopen")
	if p := vio.Safe(func() { lg.Close() }); p != "" {
		c.violate("ledger-close-panic", obj{"panic": p})
	}
}

// ---- crash between the store commits + recovery -------------------------------------------------------------------
// For the served-proof abstraction a kill between blockStore.CommitTo and stateStore.CommitTo followed by a restart is a
// stuttering step: recovery replays the block, after which the block is committed like any other (C12 decides that on its own
// model).  What C08 adds: the REPLAYED block's records and hash must be served and provable exactly like those of a block that
// was submitted without a crash.  The chain up to the crash runs in a child process (this binary, `c08-child`) that exits hard
// at the crash point; the parent reopens the directory (recovery runs), checks every height, continues the chain, checks again.

type manifestEntry struct {
	H       int      `json:"h"`
	Lab     string   `json:"lab"`
	Keys    []string `json:"keys"`
	Vals    []string `json:"vals"`
	Hash    string   `json:"hash"`
	Crashed bool     `json:"crashed"`
}

func c08Child(args []string) {
	log.InitLog(log.FatalLog)
	ledgerkit.RegisterProbe()
	dir, acctFile, manifest := args[0], args[1], args[2]
	crashAt, point := atoi(args[3]), args[4]
	var chain []int
	for _, x := range strings.Split(args[5], ",") {
		chain = append(chain, atoi(x))
	}
	acct := ledgerkit.LoadOrCreateAccounts(acctFile, 1)[0]
	_, kit := openLedger(dir, acct)
	rng := vio.NewRNG(vio.Seed()*977 + uint64(crashAt))
	nonce := uint32(rng.Intn(1<<20)) + 1<<22
	mf, err := os.OpenFile(manifest, os.O_CREATE|os.O_WRONLY|os.O_APPEND, 0644)
	vio.Must(err)
	for hi, k := range chain {
		h := hi + 1
		bi, txs := genBlock(h, k, rng, &nonce)
		blk := kit.Build(txs, nil)
		bh := blk.Hash()
		e := manifestEntry{H: h, Lab: bi.lab, Hash: vio.Hex(bh[:]), Crashed: h == crashAt}
		for _, r := range bi.records {
			e.Keys = append(e.Keys, r.key)
			e.Vals = append(e.Vals, r.val)
		}
		b, _ := json.Marshal(e)
		mf.Write(append(b, '\n'))
		mf.Sync()
		if h == crashAt {
			ledgerstore.VerifCrashHook = func(p string) {
				if p == point {
					os.Exit(77) // no Close, no deferred work: the process is gone between two store commits
				}
			}
		}
		if _, err := kit.Commit(blk); err != nil {
			fmt.Fprintf(os.Stderr, "child: commit of block %d failed: %v\n", h, err)
			os.Exit(3)
		}
		if h == crashAt {
			os.Exit(78) // the crash point was never reached
		}
	}
	os.Exit(0)
}

func (c *c08Run) runCrashChain(chain []int, crashAt int, point string, rng *vio.RNG) int {
	dir, err := os.MkdirTemp(".", "c08c-")
	vio.Must(err)
	defer os.RemoveAll(dir)
	ldir := filepath.Join(dir, "ledger")
	acctFile, manifest := filepath.Join(dir, "keys"), filepath.Join(dir, "manifest")
	acct := ledgerkit.LoadOrCreateAccounts(acctFile, 1)[0]
	exe, err := os.Executable()
	vio.Must(err)
	var strs []string
	for _, k := range chain[:crashAt] {
		strs = append(strs, fmt.Sprint(k))
	}
	cmd := exec.Command(exe, "c08-child", ldir, acctFile, manifest, fmt.Sprint(crashAt), point, strings.Join(strs, ","))
	cmd.Env = os.Environ()
	out, err := cmd.CombinedOutput()
	code := -1
	if cmd.ProcessState != nil {
		code = cmd.ProcessState.ExitCode()
	}
	if code != 77 {
		vio.Fatal("crash child ended with code %d (%v) instead of dying at %s: %s", code, err, point, string(out))
	}
	blocks := map[int]*blockInfo{}
	var hashes []common.Uint256
	mb, err := os.ReadFile(manifest)
	vio.Must(err)
	var lg *ledger.Ledger
	var kit *ledgerkit.Ledger
	if p := vio.Safe(func() { lg, kit = openLedger(ldir, acct) }); p != "" || lg == nil {
		c.violate("ledger-reopen-after-crash-failed", obj{"panic": p, "crash_point": point, "crash_height": crashAt})
		return crashAt
	}
	hashes = append(hashes, lg.GetBlockHash(0))
	for _, ln := range strings.Split(strings.TrimSpace(string(mb)), "\n") {
		var e manifestEntry
		vio.Must(json.Unmarshal([]byte(ln), &e))
		bi := &blockInfo{lab: e.Lab}
		for i := range e.Keys {
			bi.records = append(bi.records, record{key: e.Keys[i], val: e.Vals[i]})
		}
		blocks[e.H] = bi
		var u common.Uint256
		copy(u[:], vio.UnHex(e.Hash))
		hashes = append(hashes, u)
	}
	H := int(lg.GetCurrentBlockHeight())
	if H != crashAt {
		// both crash points lie after the block store commit: the block is part of the chain after recovery
		c.violate("crashed-block-missing-after-recovery", obj{"height_after_recovery": H, "crash_height": crashAt, "crash_point": point})
		if H > crashAt {
			H = crashAt
		}
	}
	full := func(phase string, upto int) {
		for hh := 1; hh <= upto; hh++ {
			c.checkCross(lg, hh, blocks[hh], phase)
		}
		for r := 1; r <= upto; r++ {
			for h1 := 0; h1 < r; h1++ {
				c.checkBlockProof(lg, h1, r, hashes, phase)
			}
		}
	}
	phase := "after-crash-at-" + point + "-and-recovery"
	full(phase, H)
	commits := crashAt
	// the chain goes on in this process
	if H == crashAt {
		nonce := uint32(rng.Intn(1<<20)) + 1<<23
		for hi := crashAt; hi < len(chain); hi++ {
			h := hi + 1
			bi, txs := genBlock(h, chain[hi], rng, &nonce)
			blk := kit.Build(txs, nil)
			if _, err := kit.Commit(blk); err != nil {
				c.violate("commit-after-recovery-failed", obj{"h": h, "err": err.Error(), "crash_point": point})
				break
			}
			commits++
			blocks[h] = bi
			hashes = append(hashes, blk.Hash())
			H = h
		}
		full(phase+"-continued", H)
	}
	if p := vio.Safe(func() { lg.Close() }); p != "" {
		c.violate("ledger-close-panic", obj{"panic": p})
	}
	lg = nil
	if p := vio.Safe(func() { lg, _ = openLedger(ldir, acct) }); p != "" || lg == nil {
		c.violate("ledger-reopen-failed", obj{"panic": p})
		return commits
	}
	full(phase+"-reopened", H)
	vio.Safe(func() { lg.Close() })
	return commits
}

// ---- nested calls (table "c08nest") --------------------------------------------------------------------------------

type nestRec struct {
	addr common.Address
	key  string
	val  string
}

type nestBlock struct {
	row  obj
	recs map[int]*nestRec
}

// nestSteps turns a script of the specification (["rec", i] | ["call", body, mode]) into probe steps.  Frames below a
// failing call only register leaves (no storage writes): what a failed frame leaves in storage is not C08's subject.
func nestSteps(steps []interface{}, depth int, live bool, h int, rng *vio.RNG, recs map[int]*nestRec) []ledgerkit.Step {
	var out []ledgerkit.Step
	for _, st := range steps {
		a := st.([]interface{})
		switch a[0].(string) {
		case "rec":
			id := int(a[1].(float64))
			r := &nestRec{addr: ledgerkit.ProbeAddr, key: fmt.Sprintf("n/%d/%d", h, id), val: fmt.Sprintf("nrec-%d-%d-%x", h, id, rng.Bytes(1+rng.Intn(30)))}
			if depth > 0 {
				r.addr = ledgerkit.Probe2Addr
			}
			recs[id] = r
			if live {
				out = append(out, ledgerkit.Step{Op: "put", K: r.key, V: r.val})
			}
			out = append(out, ledgerkit.Step{Op: "rec", K: r.val})
		case "call":
			mode := a[2].(string)
			sub := nestSteps(a[1].([]interface{}), depth+1, live && mode == "ok", h, rng, recs)
			if mode != "ok" {
				sub = append(sub, ledgerkit.Step{Op: "fail"})
			}
			out = append(out, ledgerkit.Step{Op: "call", Steps: sub, Catch: mode == "caught"})
		}
	}
	return out
}

func (c *c08Run) checkNest(lg *ledger.Ledger, h int, nb *nestBlock, phase string) {
	row := nb.row
	order := ints(getl(row, "order"))
	paths := getl(row, "paths")
	root, err := lg.GetCrossStateRoot(uint32(h))
	if err != nil {
		c.violate("cross-root-unavailable", obj{"h": h, "err": err.Error(), "phase": phase})
		return
	}
	env := &termeval.Env{Dat: func(j int) []byte { return []byte(nb.recs[j].val) }}
	c.evals++
	if exp := mustHash(env, row["root"]); [32]byte(root) != exp {
		c.drift["cross-state root of a block with nested calls differs from the predicted leaf order"]++
	}
	for i, id := range order {
		rec := nb.recs[id]
		key := append(append([]byte{}, rec.addr[:]...), []byte(rec.key)...)
		var path []byte
		var err error
		c.evals++
		c.distinct[fmt.Sprintf("nest/%v/%d", row["steps"], id)] = true
		if pn := vio.Safe(func() { path, err = lg.GetCrossStatesProof(uint32(h), key) }); pn != "" || err != nil {
			c.violate("nested-call:cross-proof-unavailable", obj{"h": h, "record": id, "script": row["steps"], "leaf_order_predicted": order,
				"panic": pn, "err": fmt.Sprint(err), "phase": phase})
			continue
		}
		val, err := merkle.MerkleProve(path, root[:])
		if err != nil || !bytes.Equal(val, []byte(rec.val)) {
			c.violate("nested-call:cross-proof-does-not-verify", obj{"h": h, "record": id, "script": row["steps"], "err": fmt.Sprint(err),
				"yield": string(val), "stored": rec.val, "phase": phase})
			continue
		}
		if !bytes.Equal(path, pathBytes(env, []byte(rec.val), paths[i].([]interface{}))) {
			c.drift["served proof of a block with nested calls differs from the predicted path but verifies"]++
		}
	}
}

// runNest commits one block per row of the nested-call table on one ledger (in slices of 150 blocks).
func (c *c08Run) runNest(rows []obj, acct *account.Account, rng *vio.RNG) int {
	commits := 0
	for start := 0; start < len(rows); start += 150 {
		end := start + 150
		if end > len(rows) {
			end = len(rows)
		}
		func() {
			dir, err := os.MkdirTemp(".", "c08n-")
			vio.Must(err)
			defer os.RemoveAll(dir)
			lg, kit := openLedger(dir, acct)
			blocks := map[int]*nestBlock{}
			nonce := uint32(rng.Intn(1<<20)) + 1<<21
			for i, row := range rows[start:end] {
				h := i + 1
				nb := &nestBlock{row: row, recs: map[int]*nestRec{}}
				steps := nestSteps(getl(row, "steps"), 0, true, h, rng, nb.recs)
				nonce++
				txs := []*types.Transaction{ledgerkit.ProbeTx(steps, nonce)}
				if x := geti(row, "extra"); x >= 0 {
					r := &nestRec{addr: ledgerkit.ProbeAddr, key: fmt.Sprintf("n/%d/%d", h, x), val: fmt.Sprintf("nrec-%d-%d-plain", h, x)}
					nb.recs[x] = r
					nonce++
					txs = append(txs, ledgerkit.ProbeTx([]ledgerkit.Step{{Op: "put", K: r.key, V: r.val}, {Op: "rec", K: r.val}}, nonce))
				}
				blk := kit.Build(txs, nil)
				if _, err := kit.Commit(blk); err != nil {
					vio.Fatal("harness: commit of nested-call block %d failed: %v", h, err)
				}
				commits++
				blocks[h] = nb
				c.checkNest(lg, h, nb, "after-commit")
			}
			if p := vio.Safe(func() { lg.Close() }); p != "" {
				c.violate("ledger-close-panic", obj{"panic": p})
			}
			lg = nil
			if p := vio.Safe(func() { lg, _ = openLedger(dir, acct) }); p != "" || lg == nil {
				c.violate("ledger-reopen-failed", obj{"panic": p})
				return
			}
			for h := 1; h <= end-start; h++ {
				c.checkNest(lg, h, blocks[h], "after-reopen")
			}
			vio.Safe(func() { lg.Close() })
		}()
	}
	return commits
}

func c08(args []string) {
	log.InitLog(log.FatalLog)
	ledgerkit.RegisterProbe()
	rows, _ := readRows()
	seed := vio.Seed()
	c := &c08Run{cross: map[string]*crossRow{}, block: map[[2]int]*blockRowT{}, distinct: map[string]bool{}, drift: map[string]int{}, reportCap: 40}
	var chains [][]int
	var nest []obj
	var crashes []obj
	for _, r := range rows {
		if cr, ok := r["crash"].(obj); ok {
			crashes = append(crashes, cr)
			continue
		}
		if ch, ok := r["chain"]; ok {
			chains = append(chains, ints(ch.([]interface{})))
			continue
		}
		job, row := geto(r, "job"), geto(r, "row")
		switch gets(job, "k") {
		case "nest":
			nest = append(nest, row)
		case "cross":
			c.cross[fmt.Sprintf("%s/%d", gets(r, "lab"), geti(row, "k"))] = &crossRow{root: row["root"], paths: getl(row, "paths")}
		case "block":
			if gets(r, "lab") == "id" {
				c.block[[2]int{geti(row, "r"), geti(row, "h")}] = &blockRowT{root: row["root"], path: getl(row, "path")}
			}
		}
	}
	acct := account.NewAccount("")
	rng := vio.NewRNG(seed*48271 + 3)
	commits := 0
	for i, ch := range chains {
		c.chainNo = i
		c.runChain(ch, acct, rng, len(ch) <= 8)
		commits += len(ch)
	}
	crashed := 0
	for i, cr := range crashes {
		c.chainNo = 1000 + i
		commits += c.runCrashChain(ints(getl(cr, "chain")), geti(cr, "at"), gets(cr, "point"), rng)
		crashed++
	}
	c.chainNo = -1
	nestCommits := c.runNest(nest, acct, rng)
	commits += nestCommits
	vio.Emit(obj{"summary": true, "chains": len(chains), "commits": commits, "nested_call_blocks": nestCommits, "crash_recovery_chains": crashed, "evaluations": c.evals, "distinct": len(c.distinct), "drift": c.drift})
}
