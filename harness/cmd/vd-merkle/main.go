// vd-merkle: drivers for the Merkle layer (C03 transaction root, C06 block-hash accumulator, C07 verifier
// soundness, C08 served proofs).  Rows printed by TLC from spec/Merkle.tla arrive on stdin as NDJSON; hash
// terms are evaluated by kit/termeval with the real SHA-256 and compared with what the real poly code returns.
package main

import (
	"encoding/json"
	"os"
	"strconv"

	"verifh/kit/termeval"
	"verifh/kit/vio"
)

func atoi(s string) int {
	n, err := strconv.Atoi(s)
	if err != nil {
		vio.Fatal("bad number %q", s)
	}
	return n
}

type obj = map[string]interface{}

// readRows parses stdin: every line is {"tag": "ROW"|"POOL", "v": {...}}.
func readRows() (rows []obj, pools []obj) {
	for _, ln := range vio.ReadLines() {
		var o obj
		if err := json.Unmarshal(ln, &o); err != nil {
			vio.Fatal("bad input line: %v", err)
		}
		v, _ := o["v"].(obj)
		if o["tag"] == "POOL" {
			pools = append(pools, v)
		} else {
			rows = append(rows, v)
		}
	}
	return
}

func geti(o obj, k string) int {
	f, ok := o[k].(float64)
	if !ok {
		vio.Fatal("field %q missing or not a number in %v", k, o)
	}
	return int(f)
}

func gets(o obj, k string) string {
	s, ok := o[k].(string)
	if !ok {
		vio.Fatal("field %q missing or not a string in %v", k, o)
	}
	return s
}

func geto(o obj, k string) obj {
	s, ok := o[k].(obj)
	if !ok {
		vio.Fatal("field %q missing or not an object in %v", k, o)
	}
	return s
}

func getl(o obj, k string) []interface{} {
	s, ok := o[k].([]interface{})
	if !ok {
		vio.Fatal("field %q missing or not a list in %v", k, o)
	}
	return s
}

func mustHash(e *termeval.Env, t interface{}) [32]byte {
	h, err := e.Hash(t)
	if err != nil {
		vio.Fatal("%v", err)
	}
	return h
}

func mustHashes(e *termeval.Env, t interface{}) [][32]byte {
	h, err := e.Hashes(t)
	if err != nil {
		vio.Fatal("%v", err)
	}
	return h
}

func mustData(e *termeval.Env, t interface{}) []byte {
	d, err := e.Data(t)
	if err != nil {
		vio.Fatal("%v", err)
	}
	return d
}

// varBytes is an independent rendering of ZeroCopySink.WriteVarBytes.
func varBytes(b []byte) []byte {
	n := uint64(len(b))
	var p []byte
	switch {
	case n < 0xFD:
		p = []byte{byte(n)}
	case n <= 0xFFFF:
		p = []byte{0xFD, byte(n), byte(n >> 8)}
	case n <= 0xFFFFFFFF:
		p = []byte{0xFE, byte(n), byte(n >> 8), byte(n >> 16), byte(n >> 24)}
	default:
		p = []byte{0xFF, byte(n), byte(n >> 8), byte(n >> 16), byte(n >> 24), byte(n >> 32), byte(n >> 40), byte(n >> 48), byte(n >> 56)}
	}
	return append(p, b...)
}

// dataTable returns n distinct data items. kind "h32": 32 random bytes each; "var": assorted lengths
// (one empty item, 1, 31, 33, 64, 65, 100 ... bytes) - all distinct.
func dataTable(rng *vio.RNG, n int, kind string) [][]byte {
	lens := []int{32, 0, 1, 31, 33, 64, 65, 100, 32, 7}
	seen := map[string]bool{}
	res := make([][]byte, 0, n)
	for i := 0; len(res) < n; i++ {
		l := 32
		if kind == "var" {
			l = lens[i%len(lens)]
			if l == 0 && i >= len(lens) {
				l = 2 + i%50
			}
		}
		b := rng.Bytes(l)
		if seen[string(b)] {
			continue
		}
		seen[string(b)] = true
		res = append(res, b)
	}
	return res
}

func freshFn(seed uint64) func(k int) [32]byte {
	return func(k int) [32]byte {
		var h [32]byte
		copy(h[:], vio.NewRNG(seed*7919+uint64(k)+0xF00D).Bytes(32))
		return h
	}
}

func main() {
	defer vio.Flush()
	if len(os.Args) < 2 {
		vio.Fatal("usage: vd-merkle <cmd> ...")
	}
	switch os.Args[1] {
	case "c06":
		c06(os.Args[2:])
	case "c07":
		c07(os.Args[2:])
	case "c03":
		c03(os.Args[2:])
	case "c08":
		c08(os.Args[2:])
	case "c08-child":
		c08Child(os.Args[2:])
	default:
		vio.Fatal("unknown command %s", os.Args[1])
	}
}
