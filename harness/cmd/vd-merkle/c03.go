package main

// C03: rows of table "c03" of spec/Merkle.tla carry, for every list length n, the reference transaction
// root as a term over the transaction hashes T(0..n-1).  The term is evaluated with the real double SHA-256
// over (a) random 32-byte hashes (incl. labellings with repeated hashes) and compared with
// common.ComputeMerkleRoot, and (b) the hashes of real transactions and compared with
// Block.RebuildMerkleRoot and with the root check inside Block.Deserialization; (c) all of it again from 16 / 11
// goroutines at once in two seeded orders.

import (
	"fmt"
	"os"
	"sync"

	"github.com/ontio/ontology-eventbus/actor"
	"github.com/polynetwork/poly/account"
	"github.com/polynetwork/poly/common/log"
	"github.com/polynetwork/poly/consensus/solo"
	"github.com/polynetwork/poly/core/ledger"
	tc "github.com/polynetwork/poly/txnpool/common"

	"github.com/polynetwork/poly/common"
	"github.com/polynetwork/poly/core/genesis"
	"github.com/polynetwork/poly/core/types"

	"verifh/kit/termeval"
	"verifh/kit/vio"
)

func c03(args []string) {
	sets := atoi(args[0]) // random hash tables per row
	lab := args[1]        // labelling used by the spec run ("id", "pairs", "same"): blocks only with "id"
	rows, _ := readRows()
	seed := vio.Seed()
	maxN := 0
	for _, r := range rows {
		if n := geti(geto(r, "row"), "n"); n > maxN {
			maxN = n
		}
	}
	evals, distinct := 0, map[string]bool{}
	reported := 0
	violate := func(kind string, n int, d obj) {
		if reported < 40 {
			reported++
			vio.Emit(obj{"violation": kind, "n": n, "lab": lab, "detail": d})
		}
	}
	// (a) raw hashes
	for s := 0; s < sets; s++ {
		rng := vio.NewRNG(seed*104729 + uint64(s))
		tab := make([][32]byte, maxN+1)
		for i := range tab {
			copy(tab[i][:], rng.Bytes(32))
		}
		if s == 1 {
			tab[0] = [32]byte{} // a zero hash among the leaves
		}
		env := &termeval.Env{Tx: func(i int) [32]byte { return tab[i] }}
		for _, r := range rows {
			row := geto(r, "row")
			n := geti(row, "n")
			exp := mustHash(env, row["root"])
			in := make([]common.Uint256, n)
			for i := 0; i < n; i++ {
				in[i] = common.Uint256(tab[labOf(lab, i)])
			}
			var got common.Uint256
			pn := vio.Safe(func() { got = common.ComputeMerkleRoot(in) })
			evals++
			distinct[fmt.Sprintf("raw/%s/%d", lab, n)] = true
			if pn != "" || [32]byte(got) != exp {
				violate("ComputeMerkleRoot-differs-from-reference", n, obj{"expected": vio.Hex(exp[:]), "got": vio.Hex(got[:]), "panic": pn, "set": s})
			}
		}
	}
	// (b) real transactions in real blocks
	if lab == "id" {
		txs := make([]*types.Transaction, maxN+1)
		for i := range txs {
			txs[i] = genesis.NewInvokeTransaction(vio.NewRNG(seed*13+uint64(i)).Bytes(10+i%7), uint32(i)+uint32(seed)*1000)
		}
		env := &termeval.Env{Tx: func(i int) [32]byte { return [32]byte(txs[i].Hash()) }}
		roots := map[int][32]byte{}
		for _, r := range rows {
			row := geto(r, "row")
			roots[geti(row, "n")] = mustHash(env, row["root"])
		}
		for n, exp := range roots {
			hdr := &types.Header{Height: uint32(n), Timestamp: 1, ConsensusPayload: []byte{}}
			b := &types.Block{Header: hdr, Transactions: txs[:n]}
			b.RebuildMerkleRoot()
			evals++
			distinct[fmt.Sprintf("block/%d", n)] = true
			if [32]byte(b.Header.TransactionsRoot) != exp {
				violate("RebuildMerkleRoot-differs-from-reference", n, obj{"expected": vio.Hex(exp[:]), "got": vio.Hex(b.Header.TransactionsRoot[:])})
			}
			// Deserialization accepts the reference root and refuses any other reference root / a flipped bit
			try := func(root [32]byte) error {
				h2 := *hdr
				h2.TransactionsRoot = common.Uint256(root)
				blk := &types.Block{Header: &h2, Transactions: txs[:n]}
				sink := common.NewZeroCopySink(nil)
				if err := blk.Serialization(sink); err != nil {
					vio.Fatal("block serialization: %v", err)
				}
				var err error
				if pn := vio.Safe(func() { _, err = types.BlockFromRawBytes(sink.Bytes()) }); pn != "" {
					return fmt.Errorf("%s", pn)
				}
				return err
			}
			evals++
			if err := try(exp); err != nil {
				violate("block-with-reference-root-refused", n, obj{"err": err.Error()})
			}
			wrong := exp
			wrong[n%32] ^= 1 << uint(n%8)
			others := [][32]byte{wrong}
			if o, ok := roots[n+1]; ok {
				others = append(others, o)
			}
			if o, ok := roots[n-1]; ok && n-1 >= 0 {
				others = append(others, o)
			}
			for _, o := range others {
				evals++
				if o != exp && try(o) == nil {
					violate("block-with-wrong-root-accepted", n, obj{"root": vio.Hex(o[:])})
				}
			}
		}
	}
	// (c) the same rows under CONCURRENT evaluation.  The node calls these functions from several goroutines (block
	// decoding in p2p/sync workers, proposers rebuilding roots), and the statement quantifies over inputs, not over
	// schedules: a row whose result is right alone and wrong next to other calls is a violation.
	type cjob struct {
		kind string // "raw" | "rebuild" | "decode"
		n    int
		in   []common.Uint256
		txs  []*types.Transaction
		raw  []byte
		exp  [32]byte
	}
	var jobs []cjob
	{
		rng := vio.NewRNG(seed*7 + 99)
		tab := make([][32]byte, maxN+1)
		for i := range tab {
			copy(tab[i][:], rng.Bytes(32))
		}
		env := &termeval.Env{Tx: func(i int) [32]byte { return tab[i] }}
		for _, r := range rows {
			row := geto(r, "row")
			n := geti(row, "n")
			in := make([]common.Uint256, n)
			for i := 0; i < n; i++ {
				in[i] = common.Uint256(tab[labOf(lab, i)])
			}
			jobs = append(jobs, cjob{kind: "raw", n: n, in: in, exp: mustHash(env, row["root"])})
		}
		if lab == "id" {
			txs := make([]*types.Transaction, maxN+1)
			for i := range txs {
				txs[i] = genesis.NewInvokeTransaction(vio.NewRNG(seed*17+uint64(i)).Bytes(8+i%5), uint32(i)+uint32(seed)*7000+500000)
			}
			tenv := &termeval.Env{Tx: func(i int) [32]byte { return [32]byte(txs[i].Hash()) }}
			for _, r := range rows {
				row := geto(r, "row")
				n := geti(row, "n")
				exp := mustHash(tenv, row["root"])
				hdr := &types.Header{Height: uint32(n), Timestamp: 1, ConsensusPayload: []byte{}, TransactionsRoot: common.Uint256(exp)}
				sink := common.NewZeroCopySink(nil)
				if err := (&types.Block{Header: hdr, Transactions: txs[:n]}).Serialization(sink); err != nil {
					vio.Fatal("block serialization: %v", err)
				}
				jobs = append(jobs, cjob{kind: "rebuild", n: n, txs: txs[:n], exp: exp}, cjob{kind: "decode", n: n, raw: sink.Bytes(), exp: exp})
			}
		}
	}
	// one evaluation of a job: "" = agrees with the spec term
	evalJob := func(j *cjob) string {
		var bad string
		pn := vio.Safe(func() {
			switch j.kind {
			case "raw":
				in := append([]common.Uint256{}, j.in...)
				if got := common.ComputeMerkleRoot(in); [32]byte(got) != j.exp {
					bad = "ComputeMerkleRoot = " + vio.Hex(got[:])
				}
			case "rebuild":
				b := &types.Block{Header: &types.Header{}, Transactions: j.txs}
				b.RebuildMerkleRoot()
				if [32]byte(b.Header.TransactionsRoot) != j.exp {
					bad = "RebuildMerkleRoot = " + vio.Hex(b.Header.TransactionsRoot[:])
				}
			case "decode":
				if _, err := types.BlockFromRawBytes(append([]byte{}, j.raw...)); err != nil {
					bad = "block with the reference root refused: " + err.Error()
				}
			}
		})
		if pn != "" {
			return pn
		}
		return bad
	}
	seqBad := make([]bool, len(jobs))
	for i := range jobs {
		seqBad[i] = evalJob(&jobs[i]) != "" // already reported by the sequential passes above
	}
	reps := atoi(args[2])
	concBad := map[int]string{}
	var mu sync.Mutex
	for pass, workers := range []int{16, 11} {
		order := vio.NewRNG(seed + uint64(pass)*5).Perm(len(jobs) * reps)
		vio.ParMap(len(order), workers, func(k int) {
			i := order[k] % len(jobs)
			if r := evalJob(&jobs[i]); r != "" && !seqBad[i] {
				mu.Lock()
				if _, ok := concBad[i]; !ok {
					concBad[i] = r
				}
				mu.Unlock()
			}
		})
		evals += len(order)
	}
	// a job that failed next to other calls is evaluated alone once more: right alone => the concurrency decided it
	for i, r := range concBad {
		alone := evalJob(&jobs[i])
		distinct[fmt.Sprintf("conc/%s/%s/%d", jobs[i].kind, lab, jobs[i].n)] = true
		if reported < 40 {
			reported++
			vio.Emit(obj{"violation": "root-differs-under-concurrent-calls", "n": jobs[i].n, "lab": lab,
				"detail": obj{"api": jobs[i].kind, "expected": vio.Hex(jobs[i].exp[:]), "concurrent": r, "alone_again": alone, "failing_jobs": len(concBad), "jobs": len(jobs)}})
		}
	}
	for i := range jobs {
		distinct[fmt.Sprintf("conc/%s/%s/%d", jobs[i].kind, lab, jobs[i].n)] = true
	}
	// (d) block PRODUCERS: "the transaction root committed in a block header" is first of all written by the proposer.
	// SoloService.makeBlock (verif export consensus/solo/verif_export.go) is driven with a stub transaction-pool actor
	// whose pool holds fresh transactions and transactions that were already packed in a recent block (the incremental
	// validator refuses those): the header's root must be the reference root over the block's OWN transaction list,
	// and the block must survive its own decoder.
	producerBlocks := 0
	if lab == "id" {
		producerBlocks = c03Producers(rows, maxN, seed, &evals, distinct, violate)
	}
	vio.Emit(obj{"summary": true, "rows": len(rows), "evaluations": evals, "distinct": len(distinct), "concurrent_failures": len(concBad),
		"producer_blocks": producerBlocks})
}

func labOf(lab string, i int) int {
	switch lab {
	case "pairs":
		return i / 2
	case "same":
		return 0
	}
	return i
}

func c03Producers(rows []obj, maxN int, seed uint64, evals *int, distinct map[string]bool, violate func(string, int, obj)) int {
	log.InitLog(log.FatalLog)
	dir, err := os.MkdirTemp(".", "c03-")
	vio.Must(err)
	defer os.RemoveAll(dir)
	acct := account.NewAccount("")
	lg, _ := openLedger(dir, acct)
	defer lg.Close()
	ledger.DefLedger = lg
	rootTerm := map[int]interface{}{}
	for _, r := range rows {
		row := geto(r, "row")
		rootTerm[geti(row, "n")] = row["root"]
	}
	var mu sync.Mutex
	var pool []*tc.TXEntry
	pid := actor.Spawn(actor.FromFunc(func(ctx actor.Context) {
		if _, ok := ctx.Message().(*tc.GetTxnPoolReq); ok && ctx.Sender() != nil {
			mu.Lock()
			p := append([]*tc.TXEntry{}, pool...)
			mu.Unlock()
			ctx.Sender().Request(&tc.GetTxnPoolRsp{TxnPool: p}, ctx.Self())
		}
	}))
	defer pid.Stop()
	rng := vio.NewRNG(seed*313 + 1)
	nonce := uint32(seed)*9000 + 700000
	newTx := func() *types.Transaction {
		nonce++
		return genesis.NewInvokeTransaction(rng.Bytes(6+rng.Intn(9)), nonce)
	}
	blocks := 0
	for n := 0; n <= maxN; n++ {
		for _, packed := range []int{0, 1, 3} {
			if n+packed == 0 && packed != 0 {
				continue
			}
			svc := solo.VerifNewService(acct, pid)
			var old []*types.Transaction
			for i := 0; i < packed; i++ {
				old = append(old, newTx())
			}
			if packed > 0 {
				// the block at the ledger's current height carried these transactions
				svc.VerifAddPackedBlock(&types.Block{Header: &types.Header{Height: lg.GetCurrentBlockHeight()}, Transactions: old})
			}
			var all []*types.Transaction
			for i := 0; i < n; i++ {
				all = append(all, newTx())
			}
			all = append(all, old...)
			perm := rng.Perm(len(all))
			mu.Lock()
			pool = pool[:0]
			for _, j := range perm {
				pool = append(pool, &tc.TXEntry{Tx: all[j]})
			}
			mu.Unlock()
			var blk *types.Block
			var err error
			pn := vio.Safe(func() { blk, err = svc.VerifMakeBlock() })
			*evals++
			blocks++
			distinct[fmt.Sprintf("producer/solo/%d/%d", n, packed)] = true
			if pn != "" || err != nil || blk == nil {
				violate("producer-makeBlock-failed", n, obj{"panic": pn, "err": fmt.Sprint(err), "packed_before": packed})
				continue
			}
			own := blk.Transactions
			term, ok := rootTerm[len(own)]
			if !ok {
				violate("producer-block-has-unexpected-size", n, obj{"transactions": len(own), "pool": len(all)})
				continue
			}
			env := &termeval.Env{Tx: func(i int) [32]byte { return [32]byte(own[i].Hash()) }}
			exp := mustHash(env, term)
			if [32]byte(blk.Header.TransactionsRoot) != exp {
				violate("producer-header-root-differs-from-reference-over-own-transactions", n, obj{"producer": "solo.makeBlock",
					"pool": len(all), "already_packed_in_pool": packed, "transactions_in_block": len(own),
					"expected": vio.Hex(exp[:]), "header": vio.Hex(blk.Header.TransactionsRoot[:])})
			}
			if _, derr := types.BlockFromRawBytes(blk.ToArray()); derr != nil {
				violate("producer-block-refused-by-decoder", n, obj{"producer": "solo.makeBlock", "err": derr.Error(), "already_packed_in_pool": packed})
			}
		}
	}
	return blocks
}
