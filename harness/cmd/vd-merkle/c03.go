package main

// C03: rows of table "c03" of spec/Merkle.tla carry, for every list length n, the reference transaction
// root as a term over the transaction hashes T(0..n-1).  The term is evaluated with the real double SHA-256
// over (a) random 32-byte hashes (incl. labellings with repeated hashes) and compared with
// common.ComputeMerkleRoot, and (b) the hashes of real transactions and compared with
// Block.RebuildMerkleRoot and with the root check inside Block.Deserialization; (c) all of it again from 16 / 11
// goroutines at once in two seeded orders.

import (
	"fmt"
	"sync"

	"github.com/polynetwork/poly/common"
	"github.com/polynetwork/poly/core/genesis"
	"github.com/polynetwork/poly/core/types"

	"verifh/kit/termeval"
	"verifh/kit/vio"
)

func c03(args []string) {
	sets := atoi(args[0]) // random hash tables per row
	lab := args[1]        // labelling used by the spec run ("id", "pairs", "same"): blocks only with "id"
	rows, _ := readRows()
	seed := vio.Seed()
	maxN := 0
	for _, r := range rows {
		if n := geti(geto(r, "row"), "n"); n > maxN {
			maxN = n
		}
	}
	evals, distinct := 0, map[string]bool{}
	reported := 0
	violate := func(kind string, n int, d obj) {
		if reported < 40 {
			reported++
			vio.Emit(obj{"violation": kind, "n": n, "lab": lab, "detail": d})
		}
	}
	// (a) raw hashes
	for s := 0; s < sets; s++ {
		rng := vio.NewRNG(seed*104729 + uint64(s))
		tab := make([][32]byte, maxN+1)
		for i := range tab {
			copy(tab[i][:], rng.Bytes(32))
		}
		if s == 1 {
			tab[0] = [32]byte{} // a zero hash among the leaves
		}
		env := &termeval.Env{Tx: func(i int) [32]byte { return tab[i] }}
		for _, r := range rows {
			row := geto(r, "row")
			n := geti(row, "n")
			exp := mustHash(env, row["root"])
			in := make([]common.Uint256, n)
			for i := 0; i < n; i++ {
				in[i] = common.Uint256(tab[labOf(lab, i)])
			}
			var got common.Uint256
			pn := vio.Safe(func() { got = common.ComputeMerkleRoot(in) })
			evals++
			distinct[fmt.Sprintf("raw/%s/%d", lab, n)] = true
			if pn != "" || [32]byte(got) != exp {
				violate("ComputeMerkleRoot-differs-from-reference", n, obj{"expected": vio.Hex(exp[:]), "got": vio.Hex(got[:]), "panic": pn, "set": s})
			}
		}
	}
	// (b) real transactions in real blocks
	if lab == "id" {
		txs := make([]*types.Transaction, maxN+1)
		for i := range txs {
			txs[i] = genesis.NewInvokeTransaction(vio.NewRNG(seed*13+uint64(i)).Bytes(10+i%7), uint32(i)+uint32(seed)*1000)
		}
		env := &termeval.Env{Tx: func(i int) [32]byte { return [32]byte(txs[i].Hash()) }}
		roots := map[int][32]byte{}
		for _, r := range rows {
			row := geto(r, "row")
			roots[geti(row, "n")] = mustHash(env, row["root"])
		}
		for n, exp := range roots {
			hdr := &types.Header{Height: uint32(n), Timestamp: 1, ConsensusPayload: []byte{}}
			b := &types.Block{Header: hdr, Transactions: txs[:n]}
			b.RebuildMerkleRoot()
			evals++
			distinct[fmt.Sprintf("block/%d", n)] = true
			if [32]byte(b.Header.TransactionsRoot) != exp {
				violate("RebuildMerkleRoot-differs-from-reference", n, obj{"expected": vio.Hex(exp[:]), "got": vio.Hex(b.Header.TransactionsRoot[:])})
			}
			// Deserialization accepts the reference root and refuses any other reference root / a flipped bit
			try := func(root [32]byte) error {
				h2 := *hdr
				h2.TransactionsRoot = common.Uint256(root)
				blk := &types.Block{Header: &h2, Transactions: txs[:n]}
				sink := common.NewZeroCopySink(nil)
				if err := blk.Serialization(sink); err != nil {
					vio.Fatal("block serialization: %v", err)
				}
				var err error
				if pn := vio.Safe(func() { _, err = types.BlockFromRawBytes(sink.Bytes()) }); pn != "" {
					return fmt.Errorf("%s", pn)
				}
				return err
			}
			evals++
			if err := try(exp); err != nil {
				violate("block-with-reference-root-refused", n, obj{"err": err.Error()})
			}
			wrong := exp
			wrong[n%32] ^= 1 << uint(n%8)
			others := [][32]byte{wrong}
			if o, ok := roots[n+1]; ok {
				others = append(others, o)
			}
			if o, ok := roots[n-1]; ok && n-1 >= 0 {
				others = append(others, o)
			}
			for _, o := range others {
				evals++
				if o != exp && try(o) == nil {
					violate("block-with-wrong-root-accepted", n, obj{"root": vio.Hex(o[:])})
				}
			}
		}
	}
	// (c) the same rows under CONCURRENT evaluation.  The node calls these functions from several goroutines (block
	// decoding in p2p/sync workers, proposers rebuilding roots), and the statement quantifies over inputs, not over
	// schedules: a row whose result is right alone and wrong next to other calls is a violation.
	type cjob struct {
		kind string // "raw" | "rebuild" | "decode"
		n    int
		in   []common.Uint256
		txs  []*types.Transaction
		raw  []byte
		exp  [32]byte
	}
	var jobs []cjob
	{
		rng := vio.NewRNG(seed*7 + 99)
		tab := make([][32]byte, maxN+1)
		for i := range tab {
			copy(tab[i][:], rng.Bytes(32))
		}
		env := &termeval.Env{Tx: func(i int) [32]byte { return tab[i] }}
		for _, r := range rows {
			row := geto(r, "row")
			n := geti(row, "n")
			in := make([]common.Uint256, n)
			for i := 0; i < n; i++ {
				in[i] = common.Uint256(tab[labOf(lab, i)])
			}
			jobs = append(jobs, cjob{kind: "raw", n: n, in: in, exp: mustHash(env, row["root"])})
		}
		if lab == "id" {
			txs := make([]*types.Transaction, maxN+1)
			for i := range txs {
				txs[i] = genesis.NewInvokeTransaction(vio.NewRNG(seed*17+uint64(i)).Bytes(8+i%5), uint32(i)+uint32(seed)*7000+500000)
			}
			tenv := &termeval.Env{Tx: func(i int) [32]byte { return [32]byte(txs[i].Hash()) }}
			for _, r := range rows {
				row := geto(r, "row")
				n := geti(row, "n")
				exp := mustHash(tenv, row["root"])
				hdr := &types.Header{Height: uint32(n), Timestamp: 1, ConsensusPayload: []byte{}, TransactionsRoot: common.Uint256(exp)}
				sink := common.NewZeroCopySink(nil)
				if err := (&types.Block{Header: hdr, Transactions: txs[:n]}).Serialization(sink); err != nil {
					vio.Fatal("block serialization: %v", err)
				}
				jobs = append(jobs, cjob{kind: "rebuild", n: n, txs: txs[:n], exp: exp}, cjob{kind: "decode", n: n, raw: sink.Bytes(), exp: exp})
			}
		}
	}
	// one evaluation of a job: "" = agrees with the spec term
	evalJob := func(j *cjob) string {
		var bad string
		pn := vio.Safe(func() {
			switch j.kind {
			case "raw":
				in := append([]common.Uint256{}, j.in...)
				if got := common.ComputeMerkleRoot(in); [32]byte(got) != j.exp {
					bad = "ComputeMerkleRoot = " + vio.Hex(got[:])
				}
			case "rebuild":
				b := &types.Block{Header: &types.Header{}, Transactions: j.txs}
				b.RebuildMerkleRoot()
				if [32]byte(b.Header.TransactionsRoot) != j.exp {
					bad = "RebuildMerkleRoot = " + vio.Hex(b.Header.TransactionsRoot[:])
				}
			case "decode":
				if _, err := types.BlockFromRawBytes(append([]byte{}, j.raw...)); err != nil {
					bad = "block with the reference root refused: " + err.Error()
				}
			}
		})
		if pn != "" {
			return pn
		}
		return bad
	}
	seqBad := make([]bool, len(jobs))
	for i := range jobs {
		seqBad[i] = evalJob(&jobs[i]) != "" // already reported by the sequential passes above
	}
	reps := atoi(args[2])
	concBad := map[int]string{}
	var mu sync.Mutex
	for pass, workers := range []int{16, 11} {
		order := vio.NewRNG(seed + uint64(pass)*5).Perm(len(jobs) * reps)
		vio.ParMap(len(order), workers, func(k int) {
			i := order[k] % len(jobs)
			if r := evalJob(&jobs[i]); r != "" && !seqBad[i] {
				mu.Lock()
				if _, ok := concBad[i]; !ok {
					concBad[i] = r
				}
				mu.Unlock()
			}
		})
		evals += len(order)
	}
	// a job that failed next to other calls is evaluated alone once more: right alone => the concurrency decided it
	for i, r := range concBad {
		alone := evalJob(&jobs[i])
		distinct[fmt.Sprintf("conc/%s/%s/%d", jobs[i].kind, lab, jobs[i].n)] = true
		if reported < 40 {
			reported++
			vio.Emit(obj{"violation": "root-differs-under-concurrent-calls", "n": jobs[i].n, "lab": lab,
				"detail": obj{"api": jobs[i].kind, "expected": vio.Hex(jobs[i].exp[:]), "concurrent": r, "alone_again": alone, "failing_jobs": len(concBad), "jobs": len(jobs)}})
		}
	}
	for i := range jobs {
		distinct[fmt.Sprintf("conc/%s/%s/%d", jobs[i].kind, lab, jobs[i].n)] = true
	}
	vio.Emit(obj{"summary": true, "rows": len(rows), "evaluations": evals, "distinct": len(distinct), "concurrent_failures": len(concBad)})
}

func labOf(lab string, i int) int {
	switch lab {
	case "pairs":
		return i / 2
	case "same":
		return 0
	}
	return i
}
