package main

// C07: every (claim, mutated proof) row of table "c07" of spec/Merkle.tla is concretized (pool terms evaluated
// with the real SHA-256 over random distinct leaves) and given to the real verifier.
// Monitor: soundness - accepted by the real verifier  =>  the claim is true (row.truth, computed by the
// specification's monitors, independent of the verifier: the claim is true and the proof is the proof of that claim).
// A difference from the transcribed verifier's verdict (row.strict = the code since fix c963b88; row.acc = the
// consistency shortcut as it was coded before, kept as the documented counterexample) that keeps soundness is
// reported as drift only.

import (
	"bytes"
	"fmt"

	"github.com/polynetwork/poly/common"
	"github.com/polynetwork/poly/merkle"

	"verifh/kit/termeval"
	"verifh/kit/vio"
)

type pool struct {
	hp [][32]byte
	dp [][]byte
}

func ints(l []interface{}) []int {
	r := make([]int, len(l))
	for i, x := range l {
		r[i] = int(x.(float64))
	}
	return r
}

func c07(args []string) {
	rows, poolRows := readRows()
	seed := vio.Seed()
	rng := vio.NewRNG(seed*2654435761 + 17)
	maxN := 0
	for _, p := range poolRows {
		if n := geti(p, "n"); n > maxN {
			maxN = n
		}
	}
	data := dataTable(rng, maxN+2, "var")
	env := &termeval.Env{Dat: func(i int) []byte { return data[i] }, Fresh: freshFn(seed)}
	pools := map[int]*pool{}
	for _, p := range poolRows {
		n := geti(p, "n")
		if pools[n] != nil {
			continue
		}
		pl := &pool{hp: mustHashes(env, p["hp"])}
		for _, d := range getl(p, "dp") {
			pl.dp = append(pl.dp, mustData(env, d))
		}
		// the concretization must be injective on the pool, otherwise term-level truth and byte-level truth differ
		seen := map[[32]byte]bool{}
		for _, h := range pl.hp {
			if seen[h] {
				vio.Fatal("pool of n=%d: two hash terms evaluate to the same bytes", n)
			}
			seen[h] = true
		}
		pools[n] = pl
	}
	type res struct {
		accepted bool
		panicked string
		note     string
	}
	out := make([]res, len(rows))
	v := merkle.NewMerkleVerifier()
	vio.ParMap(len(rows), 8, func(i int) {
		r := rows[i]
		job, row := geto(r, "job"), geto(r, "row")
		c := geto(row, "c")
		pl := pools[geti(job, "n")]
		if pl == nil {
			vio.Fatal("row without pool: %v", job)
		}
		hs := func(k string) []common.Uint256 {
			var p []common.Uint256
			for _, ix := range ints(getl(c, k)) {
				p = append(p, common.Uint256(pl.hp[ix-1]))
			}
			return p
		}
		var err error
		switch gets(c, "v") {
		case "incl":
			root := common.Uint256(pl.hp[geti(c, "root")-1])
			idx, size := uint32(geti(c, "idx")), uint32(geti(c, "size"))
			if geti(c, "isData") == 1 {
				leaf := pl.dp[geti(c, "leaf")-1]
				out[i].panicked = vio.Safe(func() { err = v.VerifyLeafInclusion(leaf, idx, hs("proof"), root, size) })
			} else {
				leaf := common.Uint256(pl.hp[geti(c, "leaf")-1])
				out[i].panicked = vio.Safe(func() { err = v.VerifyLeafHashInclusion(leaf, idx, hs("proof"), root, size) })
			}
			out[i].accepted = err == nil && out[i].panicked == ""
		case "cons":
			or, nr := common.Uint256(pl.hp[geti(c, "oroot")-1]), common.Uint256(pl.hp[geti(c, "nroot")-1])
			m, n := uint32(geti(c, "m")), uint32(geti(c, "n"))
			out[i].panicked = vio.Safe(func() { err = v.VerifyConsistency(m, n, or, nr, hs("proof")) })
			out[i].accepted = err == nil && out[i].panicked == ""
		case "prove":
			val := pl.dp[geti(c, "val")-1]
			path := varBytes(val)
			flags, hashes := ints(getl(c, "flags")), ints(getl(c, "hashes"))
			for k := range flags {
				path = append(path, byte(flags[k]))
				path = append(path, pl.hp[hashes[k]-1][:]...)
			}
			trail := geti(c, "trail")
			if trail > 0 {
				// surplus bytes: a prefix of a plausible further element
				extra := append([]byte{1}, pl.hp[0][:]...)
				path = append(path, extra[:trail]...)
			}
			root := pl.hp[geti(c, "root")-1]
			var got []byte
			out[i].panicked = vio.Safe(func() { got, err = merkle.MerkleProve(path, root[:]) })
			out[i].accepted = err == nil && out[i].panicked == ""
			if out[i].accepted && !bytes.Equal(got, val) {
				out[i].note = "accepted but yields another value: " + vio.Hex(got)
			}
		default:
			vio.Fatal("unknown verifier %v", c["v"])
		}
	})
	counts := map[string]int{}
	distinct := map[string]bool{}
	perClass := map[string]int{}
	for i, r := range rows {
		row := geto(r, "row")
		c := geto(row, "c")
		acc, strict, truth := geti(row, "acc") == 1, geti(row, "strict") == 1, geti(row, "truth") == 1
		mut := gets(c, "mut")
		kind := gets(c, "v")
		o := out[i]
		counts["rows"]++
		if mut != "none" {
			distinct[fmt.Sprintf("%v", c)] = true
		}
		if o.accepted {
			counts["accepted"]++
		}
		emit := func(what string) {
			counts[what]++
			shortcut := kind == "cons" && geti(c, "m") < geti(c, "n") && geti(c, "oroot") == geti(c, "nroot")
			class := fmt.Sprintf("%s/%s/%s/%v", what, kind, mut, shortcut)
			perClass[class]++
			if perClass[class] <= 3 {
				vio.Emit(obj{"finding": what, "v": kind, "mut": mut, "job": r["job"], "c": c, "spec_acc": acc, "spec_strict": strict,
					"truth": truth, "real_accepted": o.accepted, "panic": o.panicked, "note": o.note, "shortcut": shortcut})
			}
		}
		switch {
		case o.panicked != "":
			emit("panic")
		case o.note != "":
			emit("wrong-value")
		case o.accepted && !truth:
			emit("unsound")
		case mut == "none" && !o.accepted:
			emit("honest-rejected")
		case o.accepted != strict:
			emit("drift")
		}
	}
	vio.Emit(obj{"summary": true, "rows": len(rows), "distinct": len(distinct), "counts": counts, "pools": len(pools)})
}
