package main

// C06: the real CompactMerkleTree (file store / memory store), driven through append sequences with reload
// points, compared at every size with the rows of table "c06" of spec/Merkle.tla.
//
// Oracle (the property, nothing more):
//   root          Root() = RFC 6962 MTH of the appended leaves (bytes of the evaluated spec term)
//   predict       GetRootWithNewLeaf / GetRootWithNewLeaves = root of the longer tree; the tree itself unchanged
//   reload        after Marshal/UnMarshal (into a fresh tree AND into a used tree object whose root is cached, rolling
//                 back and forward between snapshots), after close + NewFileHashStore + NewTree(size, hashes), and after
//                 NewTree over the same used store object, the tree continues exactly like the one that was never
//                 reloaded (root, size, predicted roots, and every proof verifies)
//   proofs        every inclusion / leaf-path / consistency proof the tree serves is accepted by the real verifier
// Differences that the property does not forbid (proof bytes, frontier or node-file layout different from the
// reference while the verifiers still accept) are reported as "drift", never as a violation.

import (
	"bytes"
	"fmt"
	"os"
	"path/filepath"
	"strings"
	"time"

	"github.com/polynetwork/poly/common"
	"github.com/polynetwork/poly/merkle"

	"verifh/kit/termeval"
	"verifh/kit/vio"
)

type pItem struct {
	flag byte
	h    [32]byte
}

type proofRow struct {
	n, m       int
	hasI, hasC bool
	root       [32]byte
	oroot      [32]byte
	incl       [][32]byte
	path       []pItem
	cons       [][32]byte
}

type treeRow struct {
	n        int
	root     [32]byte
	frontier [][32]byte
	file     [][32]byte
	next     [][32]byte
}

type c06Tables struct {
	trees  map[int]*treeRow
	proofs []*proofRow
	roots  map[int][32]byte // root by size, from any row
}

func evalPath(e *termeval.Env, l []interface{}) []pItem {
	res := make([]pItem, len(l))
	for i, x := range l {
		it := x.([]interface{})
		res[i] = pItem{flag: byte(it[0].(float64)), h: mustHash(e, it[1])}
	}
	return res
}

func evalC06(rows []obj, e *termeval.Env) *c06Tables {
	t := &c06Tables{trees: map[int]*treeRow{}, roots: map[int][32]byte{}}
	for _, r := range rows {
		job, row := geto(r, "job"), geto(r, "row")
		switch gets(job, "k") {
		case "tree":
			tr := &treeRow{n: geti(row, "n"), root: mustHash(e, row["root"]), frontier: mustHashes(e, row["frontier"]),
				file: mustHashes(e, row["file"]), next: mustHashes(e, row["next"])}
			t.trees[tr.n] = tr
			t.roots[tr.n] = tr.root
			for k, h := range tr.next {
				t.roots[tr.n+k+1] = h
			}
		case "proofs", "big":
			pr := &proofRow{n: geti(row, "n"), m: geti(row, "m"), hasI: geti(row, "hasI") == 1, hasC: geti(row, "hasC") == 1,
				root: mustHash(e, row["root"]), oroot: mustHash(e, row["oroot"]), incl: mustHashes(e, row["incl"]),
				path: evalPath(e, getl(row, "path")), cons: mustHashes(e, row["cons"])}
			if gets(job, "k") == "big" {
				// big rows: the proofs are for index m (inclusion) and old size m+1 (consistency)
				pr.hasI, pr.hasC = true, true
				t.roots[pr.n] = pr.root
				if _, ok := t.trees[pr.n]; !ok {
					t.trees[pr.n] = &treeRow{n: pr.n, root: pr.root, frontier: mustHashes(e, row["frontier"])}
				}
				pc := *pr
				pc.m = pr.m + 1
				pc.hasI = false
				pr.hasC = false
				t.proofs = append(t.proofs, &pc)
			}
			t.proofs = append(t.proofs, pr)
		}
	}
	return t
}

func u256s(hs [][32]byte) []common.Uint256 {
	r := make([]common.Uint256, len(hs))
	for i, h := range hs {
		r[i] = common.Uint256(h)
	}
	return r
}

func eqHashes(a []common.Uint256, b [][32]byte) bool {
	if len(a) != len(b) {
		return false
	}
	for i := range a {
		if [32]byte(a[i]) != b[i] {
			return false
		}
	}
	return true
}

func hexs(a []common.Uint256) []string {
	r := make([]string, len(a))
	for i := range a {
		r[i] = vio.Hex(a[i][:])
	}
	return r
}

type c06Run struct {
	tab       *c06Tables
	data      [][]byte
	universe  string
	evals     int
	distinct  map[string]bool
	drift     map[string]int
	maxN      int
	h32       bool
	everyT    bool
	reportCap int
}

func (c *c06Run) violate(kind string, n, m, T int, detail obj) {
	if c.reportCap <= 0 {
		return
	}
	c.reportCap--
	detail["universe"] = c.universe
	vio.Emit(obj{"violation": kind, "n": n, "m": m, "T": T, "detail": detail})
}

// guarded runs a call into poly with panic capture and a watchdog: a proof builder that never returns does not
// serve the proof.  The limit is far above anything a loaded machine needs for a call that takes microseconds.
func (c *c06Run) guarded(what string, n, m, T int, f func()) (panicked string) {
	done := make(chan string, 1)
	go func() { done <- vio.Safe(f) }()
	select {
	case p := <-done:
		return p
	case <-time.After(15 * time.Second):
		c.reportCap = 1
		c.violate(what+"-never-returns", n, m, T, obj{"waited_s": 15})
		vio.Emit(obj{"summary": true, "rows": 0, "evaluations": c.evals, "distinct": len(c.distinct), "drift": c.drift, "aborted": "hang"})
		vio.Flush()
		os.Exit(0)
	}
	return ""
}

func (c *c06Run) leafPathBytes(pr *proofRow) []byte {
	b := varBytes(c.data[pr.m])
	for _, it := range pr.path {
		b = append(b, it.flag)
		b = append(b, it.h[:]...)
	}
	return b
}

// queries asks the real tree (current size T) for every proof of every earlier size selected by the policy.
func (c *c06Run) queries(tree *merkle.CompactMerkleTree, T int) {
	v := merkle.NewMerkleVerifier()
	for _, pr := range c.tab.proofs {
		if pr.n > T {
			continue
		}
		if !c.everyT && !(T == pr.n || T == pr.n+1 || T == c.maxN || (T-pr.n)%13 == 5) {
			continue
		}
		n, m := uint32(pr.n), uint32(pr.m)
		root := common.Uint256(pr.root)
		if pr.hasI {
			c.evals++
			var p []common.Uint256
			var err error
			if pn := c.guarded("inclusion-proof", pr.n, pr.m, T, func() { p, err = tree.InclusionProof(m, n) }); pn != "" || err != nil {
				c.violate("inclusion-proof-unavailable", pr.n, pr.m, T, obj{"panic": pn, "err": fmt.Sprint(err)})
				continue
			}
			leafHash := merkle.HashLeaf(c.data[pr.m])
			e1 := v.VerifyLeafHashInclusion(leafHash, m, p, root, n)
			e2 := v.VerifyLeafInclusion(c.data[pr.m], m, p, root, n)
			if e1 != nil || e2 != nil {
				c.violate("inclusion-proof-rejected", pr.n, pr.m, T, obj{"err": fmt.Sprint(e1, e2), "proof": hexs(p), "root": vio.Hex(root[:])})
			} else if !eqHashes(p, pr.incl) {
				c.drift["inclusion proof differs from RFC 6962 PATH but is accepted"]++
			}
			c.distinct[fmt.Sprintf("incl/%d/%d", pr.n, pr.m)] = true
			var lp []byte
			if pn := c.guarded("leaf-path", pr.n, pr.m, T, func() { lp, err = tree.MerkleInclusionLeafPath(c.data[pr.m], m, n) }); pn != "" || err != nil {
				c.violate("leaf-path-unavailable", pr.n, pr.m, T, obj{"panic": pn, "err": fmt.Sprint(err)})
				continue
			}
			c.evals++
			val, e3 := merkle.MerkleProve(lp, root[:])
			if e3 != nil || !bytes.Equal(val, c.data[pr.m]) {
				c.violate("leaf-path-rejected", pr.n, pr.m, T, obj{"err": fmt.Sprint(e3), "path": vio.Hex(lp), "value": vio.Hex(val)})
			} else if !bytes.Equal(lp, c.leafPathBytes(pr)) {
				c.drift["leaf path differs from RFC 6962 PATH but is accepted"]++
			}
			c.distinct[fmt.Sprintf("path/%d/%d", pr.n, pr.m)] = true
		}
		if pr.hasC {
			c.evals++
			var p []common.Uint256
			if pn := c.guarded("consistency-proof", pr.n, pr.m, T, func() { p = tree.ConsistencyProof(m, n) }); pn != "" {
				c.violate("consistency-proof-unavailable", pr.n, pr.m, T, obj{"panic": pn})
				continue
			}
			e1 := v.VerifyConsistency(m, n, common.Uint256(pr.oroot), root, p)
			if e1 != nil {
				c.violate("consistency-proof-rejected", pr.n, pr.m, T, obj{"err": fmt.Sprint(e1), "proof": hexs(p)})
			} else if !eqHashes(p, pr.cons) {
				c.drift["consistency proof differs from RFC 6962 PROOF but is accepted"]++
			}
			c.distinct[fmt.Sprintf("cons/%d/%d", pr.n, pr.m)] = true
		}
	}
}

func (c *c06Run) checkState(tree *merkle.CompactMerkleTree, n int, file string) {
	tr := c.tab.trees[n]
	if tr == nil {
		return
	}
	c.evals++
	c.distinct[fmt.Sprintf("state/%d", n)] = true
	if int(tree.TreeSize()) != n {
		c.violate("tree-size", n, 0, n, obj{"got": tree.TreeSize()})
	}
	r1 := tree.Root()
	r2 := tree.Root()
	if [32]byte(r1) != tr.root || r1 != r2 {
		c.violate("root-differs-from-MTH", n, 0, n, obj{"expected": vio.Hex(tr.root[:]), "got": vio.Hex(r1[:]), "second": vio.Hex(r2[:])})
	}
	if !eqHashes(tree.Hashes(), tr.frontier) {
		c.drift["frontier differs from the reference decomposition"]++
	}
	if file != "" && tr.file != nil {
		b, err := os.ReadFile(file)
		ok := err == nil && len(b) >= 32*len(tr.file)
		for i := 0; ok && i < len(tr.file); i++ {
			ok = bytes.Equal(b[32*i:32*i+32], tr.file[i][:])
		}
		if !ok {
			c.drift["node file differs from the post-order reference"]++
		}
	}
	// predictions
	if c.h32 {
		for k := 0; k <= 3; k++ {
			exp, ok := c.tab.roots[n+k]
			if !ok || n+k > len(c.data) {
				continue
			}
			var leaves []common.Uint256
			for i := 0; i < k; i++ {
				var u common.Uint256
				copy(u[:], c.data[n+i])
				leaves = append(leaves, u)
			}
			c.evals++
			var got common.Uint256
			if pn := vio.Safe(func() { got = tree.GetRootWithNewLeaves(leaves) }); pn != "" {
				c.violate("predict-panic", n, k, n, obj{"panic": pn})
				continue
			}
			if [32]byte(got) != exp {
				c.violate("predicted-root-differs", n, k, n, obj{"k": k, "expected": vio.Hex(exp[:]), "got": vio.Hex(got[:]), "api": "GetRootWithNewLeaves"})
			}
			if k == 1 {
				g1 := tree.GetRootWithNewLeaf(leaves[0])
				if [32]byte(g1) != exp {
					c.violate("predicted-root-differs", n, k, n, obj{"k": 1, "expected": vio.Hex(exp[:]), "got": vio.Hex(g1[:]), "api": "GetRootWithNewLeaf"})
				}
			}
		}
		r3 := tree.Root()
		if r3 != r1 || int(tree.TreeSize()) != n {
			c.violate("prediction-changed-the-tree", n, 0, n, obj{"root": vio.Hex(r3[:])})
		}
	}
	// Marshal -> UnMarshal into a fresh tree
	buf, _ := tree.Marshal()
	t2 := merkle.NewTree(0, nil, nil)
	var uerr error
	if pn := vio.Safe(func() { uerr = t2.UnMarshal(buf) }); pn != "" || uerr != nil {
		c.violate("unmarshal-failed", n, 0, n, obj{"panic": pn, "err": fmt.Sprint(uerr)})
	} else if t2.Root() != r1 || int(t2.TreeSize()) != n {
		rr := t2.Root()
		c.violate("marshal-roundtrip-changed-the-tree", n, 0, n, obj{"root": vio.Hex(rr[:]), "size": t2.TreeSize()})
	}
}

// universe runs one life of a tree from size 0 to maxN. policy(n) says what happens before leaf n is appended:
// "" nothing, "file" close and reopen the store and rebuild the tree from (size, frontier), "marshal" round trip.
func (c *c06Run) universeRun(dir string, store string, policy func(n int) string) {
	file := ""
	var hs merkle.HashStore
	// open: a hash file that this very code wrote for `size` leaves must be accepted again at that size; a refusal ends
	// this life (reported), the other lives go on and the summary is printed in any case
	open := func(size int) bool {
		if store == "mem" {
			hs = merkle.NewMemHashStore()
			return true
		}
		var err error
		var st merkle.HashStore
		pn := vio.Safe(func() { st, err = merkle.NewFileHashStore(file, uint32(size)) })
		if pn != "" || err != nil || st == nil {
			fi, _ := os.Stat(file)
			var flen int64 = -1
			if fi != nil {
				flen = fi.Size()
			}
			c.violate("file-reopen-refused", size, 0, size, obj{"err": fmt.Sprint(err), "panic": pn, "file_hashes": flen / 32,
				"what": "NewFileHashStore refuses the node file written by the tree itself for exactly this size"})
			return false
		}
		hs = st
		return true
	}
	if store != "mem" {
		file = filepath.Join(dir, c.universe+".db")
		os.Remove(file)
	}
	if !open(0) {
		return
	}
	tree := merkle.NewTree(0, nil, hs)
	for n := 0; ; n++ {
		c.checkState(tree, n, file)
		c.queries(tree, n)
		if n == c.maxN {
			break
		}
		switch policy(n) {
		case "file":
			if store != "mem" {
				frontier := append([]common.Uint256{}, tree.Hashes()...)
				hs.Close()
				if !open(n) {
					return
				}
				tree = merkle.NewTree(uint32(n), frontier, hs)
			}
		case "rewrap":
			// a new tree object over the SAME, already used store object (no reopen): contents match size n
			tree.Root()
			tree = merkle.NewTree(uint32(n), append([]common.Uint256{}, tree.Hashes()...), hs)
		case "marshal":
			buf, _ := tree.Marshal()
			t2 := merkle.NewTree(0, nil, hs)
			if err := t2.UnMarshal(buf); err != nil {
				c.violate("unmarshal-failed", n, 0, n, obj{"err": err.Error()})
			} else {
				tree = t2
			}
		}
		tree.Append(c.data[n])
	}
	hs.Close()
}

// usedObjectRun: save / reload on USED tree objects.  One tree object lives through all sizes; its root is read at
// every size (cache warm); Marshal snapshots of every size 0..maxN are at hand (taken from this tree and, for later
// sizes, from a donor tree).  At every size T the object is rolled to snapshots of earlier and later sizes s with
// UnMarshal and must then BE the tree of size s: TreeSize, Root (twice), predicted roots, and the root after really
// appending leaf s; then it is rolled back to T (again into a warm object) and continues.  The object has no node
// store (UnMarshal does not rewind a store; proofs after reload are the business of the file-reopen lives).
func (c *c06Run) usedObjectRun(pick func(T int) []int) {
	snaps := make([][]byte, c.maxN+1)
	donor := merkle.NewTree(0, nil, nil)
	for n := 0; n <= c.maxN; n++ {
		snaps[n], _ = donor.Marshal()
		if n < c.maxN {
			donor.Append(c.data[n])
		}
	}
	expectState := func(tree *merkle.CompactMerkleTree, s, T int, how string) bool {
		c.evals++
		c.distinct[fmt.Sprintf("used/%s/%d", how, s)] = true
		exp := c.tab.roots[s]
		r1, r2 := tree.Root(), tree.Root()
		if int(tree.TreeSize()) != s || [32]byte(r1) != exp || r1 != r2 {
			c.violate("reload-into-used-tree-changes-the-tree", s, 0, T, obj{"how": how, "loaded_size": s, "object_was_at": T,
				"expected_root": vio.Hex(exp[:]), "got_root": vio.Hex(r1[:]), "got_size": tree.TreeSize()})
			return false
		}
		if tr := c.tab.trees[s]; tr != nil && !eqHashes(tree.Hashes(), tr.frontier) {
			c.drift["frontier differs from the reference decomposition"]++
		}
		return true
	}
	tree := merkle.NewTree(0, nil, nil)
	for T := 0; ; T++ {
		if !expectState(tree, T, T, "grown") {
			return
		}
		for _, s := range pick(T) {
			if s == T || s < 0 || s > c.maxN {
				continue
			}
			tree.Root() // warm cache of the state that is replaced
			var err error
			if pn := vio.Safe(func() { err = tree.UnMarshal(snaps[s]) }); pn != "" || err != nil {
				c.violate("unmarshal-failed", s, 0, T, obj{"panic": pn, "err": fmt.Sprint(err)})
				return
			}
			if !expectState(tree, s, T, "rolled") {
				return
			}
			if c.h32 {
				for k := 1; k <= 2; k++ {
					exp, ok := c.tab.roots[s+k]
					if !ok || s+k > len(c.data) {
						continue
					}
					var leaves []common.Uint256
					for i := 0; i < k; i++ {
						var u common.Uint256
						copy(u[:], c.data[s+i])
						leaves = append(leaves, u)
					}
					c.evals++
					if got := tree.GetRootWithNewLeaves(leaves); [32]byte(got) != exp {
						c.violate("predicted-root-differs", s, k, T, obj{"k": k, "after": "UnMarshal into a used tree", "expected": vio.Hex(exp[:]), "got": vio.Hex(got[:])})
					}
				}
			}
			if exp, ok := c.tab.roots[s+1]; ok && s < len(c.data) {
				tree.Append(c.data[s])
				c.evals++
				if got := tree.Root(); [32]byte(got) != exp || int(tree.TreeSize()) != s+1 {
					c.violate("append-after-reload-differs", s+1, 0, T, obj{"expected": vio.Hex(exp[:]), "got": vio.Hex(got[:])})
				}
			}
			// back to T, again into a warm object
			tree.Root()
			if err := tree.UnMarshal(snaps[T]); err != nil {
				c.violate("unmarshal-failed", T, 0, T, obj{"err": err.Error()})
				return
			}
			if !expectState(tree, T, T, "restored") {
				return
			}
		}
		if T == c.maxN {
			break
		}
		tree.Append(c.data[T])
	}
}

// surplus: a node file that already holds the nodes of a longer tree (the file is written before the state
// batch commits) is reopened at a smaller size and continued with DIFFERENT leaves.
func (c *c06Run) surplusRun(dir string, s, T int, alt [][]byte) {
	file := filepath.Join(dir, c.universe+".db")
	os.Remove(file)
	hs, err := merkle.NewFileHashStore(file, 0)
	if err != nil {
		vio.Fatal("cannot create an empty hash file: %v", err)
	}
	tree := merkle.NewTree(0, nil, hs)
	var frontier []common.Uint256
	for n := 0; n < T; n++ {
		if n == s {
			frontier = append([]common.Uint256{}, tree.Hashes()...)
		}
		tree.Append(c.data[n])
	}
	hs.Close()
	// the file holds the nodes of T > s leaves (stale tail): reopening at s must be accepted and continue correctly
	var st merkle.HashStore
	pn := vio.Safe(func() { st, err = merkle.NewFileHashStore(file, uint32(s)) })
	if pn != "" || err != nil || st == nil {
		c.violate("file-reopen-refused", s, 0, T, obj{"err": fmt.Sprint(err), "panic": pn, "what": "node file with a stale tail (written for " + fmt.Sprint(T) + " leaves) refused at a smaller size"})
		return
	}
	hs = st
	c.data = alt
	tree = merkle.NewTree(uint32(s), frontier, hs)
	for n := s; ; n++ {
		c.checkState(tree, n, file)
		c.queries(tree, n)
		if n == c.maxN {
			break
		}
		tree.Append(c.data[n])
	}
	hs.Close()
}

// panicInPoly: does the innermost non-runtime frame of a captured panic belong to the code under test?
func panicInPoly(p string) bool {
	i := strings.Index(p, "\npanic(")
	if i < 0 {
		return strings.Contains(p, "github.com/polynetwork/poly/")
	}
	for _, ln := range strings.Split(p[i+1:], "\n")[1:] {
		if ln == "" || ln[0] == '\t' || strings.HasPrefix(ln, "runtime.") || strings.HasPrefix(ln, "panic(") {
			continue
		}
		return strings.HasPrefix(ln, "github.com/polynetwork/poly/")
	}
	return false
}

func c06(args []string) {
	maxN := atoi(args[0])
	tier := args[1]
	rows, _ := readRows()
	seed := vio.Seed()
	dir, err := os.MkdirTemp(".", "c06-")
	vio.Must(err)
	defer os.RemoveAll(dir)
	evals, distinct := 0, map[string]bool{}
	drift := map[string]int{}
	rep := 40
	run := func(name string, kind string, f func(c *c06Run)) {
		rng := vio.NewRNG(seed*1000003 + uint64(len(name)) + uint64(name[0])*131 + uint64(name[len(name)-1]))
		data := dataTable(rng, maxN+4, kind)
		env := &termeval.Env{Dat: func(i int) []byte { return data[i] }, Fresh: freshFn(seed)}
		c := &c06Run{tab: evalC06(rows, env), data: data, universe: name, distinct: distinct, drift: drift, maxN: maxN,
			h32: kind == "h32", everyT: tier == "quick" || maxN <= 40, reportCap: rep}
		// a panic of the code under test inside a life is a finding of that life; the next lives still run
		if pn := vio.Safe(func() { f(c) }); pn != "" {
			if !panicInPoly(pn) {
				vio.Fatal("driver bug in life %s: %s", name, pn)
			}
			c.violate("tree-operation-panics", -1, -1, -1, obj{"panic": pn})
		}
		evals += c.evals
		rep = c.reportCap
	}
	if tier == "big" {
		// sparse rows for large sizes: one continuous life, state checked where a row exists
		run("big", "h32", func(c *c06Run) { c.everyT = false; c.universeRun(dir, "file", func(int) string { return "" }) })
	} else {
		run("continuous-file", "h32", func(c *c06Run) { c.universeRun(dir, "file", func(int) string { return "" }) })
		run("reload-file-every-step", "h32", func(c *c06Run) { c.universeRun(dir, "file", func(int) string { return "file" }) })
		run("marshal-every-step", "var", func(c *c06Run) { c.universeRun(dir, "file", func(int) string { return "marshal" }) })
		run("memory-store", "var", func(c *c06Run) { c.universeRun(dir, "mem", func(int) string { return "" }) })
		prng := vio.NewRNG(seed + 77)
		pol := make([]string, maxN+1)
		for i := range pol {
			pol[i] = []string{"", "", "file", "marshal"}[prng.Intn(4)]
		}
		run("random-reloads", "h32", func(c *c06Run) { c.universeRun(dir, "file", func(n int) string { return pol[n] }) })
		run("rewrap-same-file-store", "h32", func(c *c06Run) { c.universeRun(dir, "file", func(int) string { return "rewrap" }) })
		run("rewrap-same-memory-store", "var", func(c *c06Run) { c.universeRun(dir, "mem", func(int) string { return "rewrap" }) })
		pick := func(T int) []int {
			if maxN <= 40 {
				all := make([]int, maxN+1)
				for i := range all {
					all[i] = i
				}
				return all
			}
			return []int{0, 1, T - 1, T + 1, T / 2, prng.Intn(maxN + 1), prng.Intn(maxN + 1), maxN}
		}
		run("used-object-rollback", "h32", func(c *c06Run) { c.usedObjectRun(pick) })
		run("used-object-rollback-var", "var", func(c *c06Run) { c.usedObjectRun(pick) })
		// surplus scenarios
		nsur := 3
		if tier != "quick" {
			nsur = 12
		}
		for i := 0; i < nsur; i++ {
			T := 2 + prng.Intn(maxN-1)
			s := prng.Intn(T)
			name := fmt.Sprintf("surplus-file-%d-of-%d", s, T)
			run(name, "h32", func(c *c06Run) {
				alt := make([][]byte, len(c.data))
				copy(alt, c.data)
				arng := vio.NewRNG(seed*31 + uint64(i) + 5)
				for j := s; j < len(alt); j++ {
					alt[j] = arng.Bytes(32)
				}
				data0 := c.data
				c.data = data0
				// tables must be evaluated over the alternative leaves
				env := &termeval.Env{Dat: func(i int) []byte { return alt[i] }, Fresh: freshFn(seed)}
				c.tab = evalC06(rows, env)
				c.surplusRun(dir, s, T, alt)
			})
		}
	}
	vio.Emit(obj{"summary": true, "rows": len(rows), "evaluations": evals, "distinct": len(distinct), "drift": drift})
}
