package main

// C17: the storage-key layouts of the native contracts.  The STRUCTURE of each layout (which fields follow the
// constant, fixed width or variable) is transcribed here from the key constructions in the code; the constant strings
// are taken from the compiled poly packages, so a renamed constant is picked up by the table.
//   keys-table   prints the table (input of spec/StorageKeys.tla)
//   keys-record  runs real contract operations and prints every raw key of their write sets
//   keys-collide reproduces a collision predicted by TLC with two real operations

import (
	"bytes"
	"encoding/hex"
	"fmt"
	"sort"

	cstates "github.com/polynetwork/poly/core/states"
	"github.com/polynetwork/poly/native"
	ccm "github.com/polynetwork/poly/native/service/cross_chain_manager"
	"github.com/polynetwork/poly/native/service/cross_chain_manager/ripple"

	"github.com/polynetwork/poly/common"
	ccmbtc "github.com/polynetwork/poly/native/service/cross_chain_manager/btc"
	ccmcom "github.com/polynetwork/poly/native/service/cross_chain_manager/common"
	"github.com/polynetwork/poly/native/service/cross_chain_manager/consensus_vote"
	"github.com/polynetwork/poly/native/service/governance/neo3_state_manager"
	nm "github.com/polynetwork/poly/native/service/governance/node_manager"
	"github.com/polynetwork/poly/native/service/governance/relayer_manager"
	scm "github.com/polynetwork/poly/native/service/governance/side_chain_manager"
	"github.com/polynetwork/poly/native/service/governance/signature_manager"
	hs "github.com/polynetwork/poly/native/service/header_sync"
	hscom "github.com/polynetwork/poly/native/service/header_sync/common"
	"github.com/polynetwork/poly/native/service/utils"
	nstates "github.com/polynetwork/poly/native/states"

	"verifh/kit/nativekit"
	"verifh/kit/vio"
)

type kPart struct {
	K string `json:"k"`           // "c" constant, "f" fixed width, "v" variable width
	B []int  `json:"b,omitempty"` // constant bytes
	N int    `json:"n,omitempty"` // width of a fixed field
}

type kLayout struct {
	Contract string  `json:"contract"`
	Name     string  `json:"name"`
	Parts    []kPart `json:"parts"`
	Users    string  `json:"users"`             // who writes it (documentation)
	Routers  string  `json:"routers,omitempty"` // header sync: the routers that use the kind ("*" any)
}

func kc(s string) kPart {
	p := kPart{K: "c"}
	for _, b := range []byte(s) {
		p.B = append(p.B, int(b))
	}
	return p
}
func kf(n int) kPart { return kPart{K: "f", N: n} }
func kv() kPart      { return kPart{K: "v"} }

var contractAddrs = map[string]common.Address{
	"nm": utils.NodeManagerContractAddress, "scm": utils.SideChainManagerContractAddress, "rm": utils.RelayerManagerContractAddress,
	"n3": utils.Neo3StateManagerContractAddress, "sm": utils.SignatureManagerContractAddress, "ccm": utils.CrossChainManagerContractAddress,
	"hs": utils.HeaderSyncContractAddress,
}

// header sync: which routers use which record kind (the chain id that follows the constant fixes the router)
var hsRouters = map[string]string{
	"genesisHeader":                         "eth bsc heco hsc msc pixie bytom bor starcoin zilliqa zilliqalegacy btc harmony",
	"currentHeaderHeight":                   "eth bsc heco hsc msc pixie bytom bor starcoin zilliqa zilliqalegacy btc ont harmony",
	"mainChain":                             "eth bsc heco hsc msc pixie bytom bor starcoin zilliqa zilliqalegacy",
	"headerIndex:hash":                      "eth bsc heco hsc msc pixie bytom bor starcoin zilliqa zilliqalegacy",
	"headerIndex:height32":                  "btc ont",
	"blockHeader":                           "btc ont",
	"ethCaches":                             "eth",
	"epochSwitch":                           "cosmos okex heimdall",
	"polygonSpan":                           "bor",
	"consensusPeer:chain":                   "neo neo3 neo3legacy quorum harmony",
	"consensusPeer:chain-height":            "ont",
	"consensusPeerBlockHeight:chain":        "quorum",
	"consensusPeerBlockHeight:chain-height": "ont",
	"keyHeights":                            "ont",
	"crossChainMsg":                         "ont",
	"currentMsgHeight":                      "ont",
	"zilliqa.dsComm":                        "zilliqa zilliqalegacy",
}

func keyLayouts() []kLayout {
	var ls []kLayout
	add := func(c, name, users string, parts ...kPart) {
		ls = append(ls, kLayout{Contract: c, Name: name, Parts: parts, Users: users, Routers: hsRouters[name]})
	}

	// ---- node manager
	add("nm", "vbftConfig", "", kc(nm.VBFT_CONFIG))
	add("nm", "governanceView", "", kc(nm.GOVERNANCE_VIEW))
	add("nm", "candidateIndex", "", kc(nm.CANDIDITE_INDEX))
	add("nm", "peerPool", "view", kc(nm.PEER_POOL), kf(4))
	add("nm", "peerApply", "decoded peer public key (any length: the hex string is validated, its bytes are the key)", kc(nm.PEER_APPLY), kv())
	add("nm", "peerIndex", "decoded peer public key", kc(nm.PEER_INDEX), kv())
	add("nm", "blackList", "decoded peer public key", kc(nm.BLACK_LIST), kv())
	add("nm", "consensusSigns", "sha256(method, input)", kc(nm.CONSENSUS_SIGNS), kf(32))
	// ---- side chain manager
	add("scm", "sideChainApply", "chain id", kc(scm.SIDE_CHAIN_APPLY), kf(8))
	add("scm", "sideChain", "chain id", kc(scm.SIDE_CHAIN), kf(8))
	add("scm", "updateSideChainRequest", "chain id", kc(scm.UPDATE_SIDE_CHAIN_REQUEST), kf(8))
	add("scm", "quitSideChainRequest", "chain id", kc(scm.QUIT_SIDE_CHAIN_REQUEST), kf(8))
	add("scm", "quitSideChain(delete only)", "chain id", kc(scm.QUIT_SIDE_CHAIN), kf(8))
	add("scm", "redeemBind", "redeem chain, contract chain, redeem key", kc(scm.REDEEM_BIND), kf(8), kf(8), kv())
	add("scm", "bindSignInfo:registerRedeem", "hash160(redeem), redeem chain, contract address, contract chain", kc(scm.BIND_SIGN_INFO), kf(20), kf(8), kv(), kf(8))
	add("scm", "bindSignInfo:setBtcTxParam", "hash160(redeem), redeem chain, serialized detail (three var-uints: 3..27 bytes)", kc(scm.BIND_SIGN_INFO), kf(20), kf(8), kv())
	add("scm", "btcTxParam", "redeem key, redeem chain", kc(scm.BTC_TX_PARAM), kv(), kf(8))
	add("scm", "redeemScript", "chain, redeem script key string", kc(scm.REDEEM_SCRIPT), kf(8), kv())
	add("scm", "assetBind", "chain id", kc(scm.ASSET_BIND), kf(8))
	add("scm", "fee", "chain id", kc(scm.FEE), kf(8))
	add("scm", "feeInfo", "chain id, view", kc(scm.FEE_INFO), kf(8), kf(8))
	// ---- relayer manager
	add("rm", "relayer", "address", kc(relayer_manager.RELAYER), kf(20))
	add("rm", "relayerApply", "id", kc(relayer_manager.RELAYER_APPLY), kf(8))
	add("rm", "relayerRemove", "id", kc(relayer_manager.RELAYER_REMOVE), kf(8))
	add("rm", "applyID", "", kc(relayer_manager.APPLY_ID))
	add("rm", "removeID", "", kc(relayer_manager.REMOVE_ID))
	// ---- neo3 state manager
	add("n3", "stateValidator", "", kc(neo3_state_manager.STATE_VALIDATOR))
	add("n3", "stateValidatorApply", "id", kc(neo3_state_manager.STATE_VALIDATOR_APPLY), kf(8))
	add("n3", "stateValidatorRemove", "id", kc(neo3_state_manager.STATE_VALIDATOR_REMOVE), kf(8))
	add("n3", "stateValidatorApplyID", "", kc(neo3_state_manager.STATE_VALIDATOR_APPLY_ID))
	add("n3", "stateValidatorRemoveID", "", kc(neo3_state_manager.STATE_VALIDATOR_REMOVE_ID))
	// ---- signature manager
	add("sm", "sigInfo", "sha256(subject)", kc(signature_manager.SIG_INFO), kf(32))
	// ---- cross chain manager
	add("ccm", "doneTx", "source chain, cross chain id", kc(ccmcom.DONE_TX), kf(8), kv())
	add("ccm", "request", "target chain, tx hash", kc(ccmcom.REQUEST), kf(8), kv())
	add("ccm", "blackedChain", "chain", kc(ccmcom.BLACKED_CHAIN), kf(8))
	add("ccm", "voteInfo", "vote id", kc(consensus_vote.VOTE_INFO), kv())
	add("ccm", "btc.utxos", "chain, redeem key string", kc(ccmbtc.UTXOS), kf(8), kv())
	add("ccm", "btc.stxos", "chain, redeem key string", kc(ccmbtc.STXOS), kf(8), kv())
	add("ccm", "btc.multiSignInfo", "txid", kc(ccmbtc.MULTI_SIGN_INFO), kv())
	add("ccm", "btc.fromTx", "txid", kc(ccmbtc.BTC_FROM_TX_PREFIX), kv())
	add("ccm", "btc.tx", "tx hash", kc(ccmbtc.BTC_TX_PREFIX), kv())
	add("ccm", "ripple.multisignInfo", "id string", kc(ccmcom.MULTISIGN_INFO), kv())
	add("ccm", "ripple.txInfo", "chain, tx hash", kc(ccmcom.RIPPLE_TX_INFO), kf(8), kv())
	// ---- header sync (one contract for all routers; the chain id, which fixes the router, follows the constant)
	add("hs", "genesisHeader", "eth bsc heco hsc msc pixie bytom bor btc zilliqa* starcoin harmony", kc(hscom.GENESIS_HEADER), kf(8))
	add("hs", "currentHeaderHeight", "all chain-keeping routers", kc(hscom.CURRENT_HEADER_HEIGHT), kf(8))
	add("hs", "mainChain", "chain, height (u64)", kc(hscom.MAIN_CHAIN), kf(8), kf(8))
	add("hs", "headerIndex:hash", "chain, header hash: eth bsc-family bor zilliqa* starcoin", kc(hscom.HEADER_INDEX), kf(8), kf(32))
	add("hs", "headerIndex:height32", "chain, height (u32): btc ont", kc(hscom.HEADER_INDEX), kf(8), kf(4))
	add("hs", "blockHeader", "chain, block hash: btc ont", kc(hscom.BLOCK_HEADER), kf(8), kf(32))
	add("hs", "ethCaches", "epoch", kc(hscom.ETH_CACHE), kf(8))
	add("hs", "epochSwitch", "cosmos okex heimdall", kc(hscom.EPOCH_SWITCH), kf(8))
	add("hs", "polygonSpan", "bor", kc(hscom.POLYGON_SPAN), kf(8))
	add("hs", "consensusPeer:chain", "neo* quorum harmony", kc(hscom.CONSENSUS_PEER), kf(8))
	add("hs", "consensusPeer:chain-height", "ont", kc(hscom.CONSENSUS_PEER), kf(8), kf(4))
	add("hs", "consensusPeerBlockHeight:chain", "quorum", kc(hscom.CONSENSUS_PEER_BLOCK_HEIGHT), kf(8))
	add("hs", "consensusPeerBlockHeight:chain-height", "ont", kc(hscom.CONSENSUS_PEER_BLOCK_HEIGHT), kf(8), kf(4))
	add("hs", "keyHeights", "ont", kc(hscom.KEY_HEIGHTS), kf(8))
	add("hs", "crossChainMsg", "ont: chain, height", kc(hscom.CROSS_CHAIN_MSG), kf(8), kf(4))
	add("hs", "currentMsgHeight", "ont", kc(hscom.CURRENT_MSG_HEIGHT), kf(8))
	add("hs", "zilliqa.dsComm", "chain FIRST, then the constant, then ds block number", kf(8), kc("dsComm"), kf(8))
	return ls
}

func keysTable() {
	for _, l := range keyLayouts() {
		vio.Emit(l)
	}
	addrs := map[string]string{}
	for k, a := range contractAddrs {
		addrs[k] = hex.EncodeToString(a[:])
	}
	vio.Emit(map[string]interface{}{"summary": true, "layouts": len(keyLayouts()), "contracts": addrs})
}

// ---- recording of real write sets ---------------------------------------------------------------------------------

type kWrite struct {
	Op  string `json:"op"`
	Raw string `json:"raw"` // raw key as it reaches the overlay (with the namespace byte), hex
}

// recordWrites returns the raw keys in the overlay write buffer that were not there before.
func rawKeys(w map[string]string) []string {
	ks := make([]string, 0, len(w))
	for k := range w {
		ks = append(ks, k)
	}
	sort.Strings(ks)
	return ks
}

func keysRecord() {
	registerRelays()
	seen := map[string]bool{}
	emit := func(op string, ws map[string]string) {
		for _, k := range rawKeys(ws) {
			id := op + "|" + k
			if !seen[id] {
				seen[id] = true
				vio.Emit(kWrite{Op: op, Raw: k})
			}
		}
	}
	// (1) trust-root installation and header sync on every router
	for _, fx := range allRouters() {
		w := newRouterWorld(fx)
		base := w.sb.WriteSet()
		for _, g := range []string{"g1", "g2"} {
			in := genesisInput(fx, g)
			w.callOp(func() ([]byte, error) {
				r, _, err := w.sb.Call(hs.SyncGenesisHeader, nativekit.Tx(w.op), in)
				return r, err
			})
		}
		if fx.syncer != nil {
			for n := 0; n < 3; n++ {
				p := &hscom.SyncBlockHeaderParam{ChainID: fx.chainID, Address: w.vals[0].Address, Headers: fx.syncer(fx, "g1", n)}
				in := sinkBytes(p.Serialization)
				w.callOp(func() ([]byte, error) {
					r, _, err := w.sb.Call(hs.SyncBlockHeader, nativekit.Tx(w.vals[0].Address), in)
					return r, err
				})
			}
		}
		emit("hs:"+fx.name, newWrites(base, w.sb.WriteSet()))
		putSandbox(w.sb)
	}
	// (2) every privileged method of the witness table, with its prerequisites (their writes are recorded too), accepted by
	// its required witness; approvals are repeated by three validators so that the approved effect is written as well
	ms := wMethods()
	var names []string
	for k := range ms {
		names = append(names, k)
	}
	sort.Strings(names)
	for _, name := range names {
		m := ms[name]
		w := newWWorld()
		callers := []common.Address{w.owner.Address}
		if isSelfMethod(name) {
			callers = []common.Address{w.vals[0].Address, w.vals[1].Address, w.vals[2].Address}
		}
		for i, a := range callers {
			w.argsOnly = i > 0
			in := m.prepare(w, a)
			tx := nativekit.Tx(a, w.op)
			pan := vio.Safe(func() {
				w.sb.Cache.Reset()
				p := &nstates.ContractInvokeParam{Address: m.contract, Method: m.method, Args: in}
				ns := w.sb.Service(tx, ser(p.Serialization))
				if _, err := ns.Invoke(); err != nil {
					w.sb.Cache.Reset()
				} else {
					w.sb.Cache.Commit()
				}
			})
			if pan != "" {
				w.sb.Cache.Reset()
			}
		}
		emit(name, w.sb.WriteSet())
		putSandbox(w.sb)
	}
	// (3) the two signature-collecting operations of the side chain manager (F10)
	for _, r := range collideRedeem() {
		emit(r.Op, map[string]string{r.Raw: ""})
	}
	// (4) long variable-width fields: every record kind with a Var part is written with 255 .. 1000 byte parameters, each in
	// a brand-new (not recycled) universe - through the real operation where it accepts the length, else through the
	// contract's put helper, else through CacheDB.Put with the key built by the contract's own ConcatKey call shape
	for _, lw := range longWriters() {
		for _, n := range []int{255, 256, 257, 300, 1000} {
			sb := nativekit.New()
			w := &wWorld{sb: sb, vals: detAccounts("polyval", 4), owner: detAccount("owner"), stranger: detAccount("stranger"), extra: detAccount("peer5")}
			w.sb.SeedValidators(w.vals, 1)
			w.op = nativekit.Operator(w.vals)
			base := sb.WriteSet()
			long := bytes.Repeat([]byte{0xa5}, n)
			pan := vio.Safe(func() {
				sb.Cache.Reset()
				ns := sb.Service(nativekit.Tx(w.vals[0].Address, w.op), nil)
				lw.write(w, ns, long)
				sb.Cache.Commit()
			})
			if pan != "" {
				sb.Cache.Reset()
			}
			emit(fmt.Sprintf("long:%s:%d", lw.kind, n), newWrites(base, sb.WriteSet()))
		}
	}
	vio.Emit(map[string]interface{}{"summary": true, "writes": len(seen)})
}

type longWriter struct {
	kind  string
	write func(w *wWorld, ns *native.NativeService, long []byte)
}

func longWriters() []longWriter {
	NM, SCM, CCM := utils.NodeManagerContractAddress, utils.SideChainManagerContractAddress, utils.CrossChainManagerContractAddress
	raw := func(ns *native.NativeService, key []byte) {
		ns.GetCacheDB().Put(key, cstates.GenRawStorageItem([]byte{1}))
	}
	u8 := func(v uint64) []byte { return utils.GetUint64Bytes(v) }
	return []longWriter{
		// real operation: RegisterRedeem takes any contract address length
		{"scm/bindSignInfo:registerRedeem", func(w *wWorld, ns *native.NativeService, long []byte) {
			redeem, privs := redeemFixture()
			msg := catBytes(redeem, myLEBytes(1, 8), long, myLEBytes(2, 8), myLEBytes(0, 8))
			q := &scm.RegisterRedeemParam{RedeemChainID: 1, ContractChainID: 2, Redeem: redeem, CVersion: 0, ContractAddress: long, Signs: [][]byte{btcSign(privs[0], msg)}}
			w.sb.Call(scm.RegisterRedeem, nativekit.Tx(w.stranger.Address), ser(q.Serialization))
		}},
		// the contracts' put helpers
		{"ccm/doneTx", func(w *wWorld, ns *native.NativeService, long []byte) { ccmcom.PutDoneTx(ns, long, 7) }},
		{"ccm/request", func(w *wWorld, ns *native.NativeService, long []byte) { ccm.PutRequest(ns, long, 7, []byte("req")) }},
		{"ccm/voteInfo", func(w *wWorld, ns *native.NativeService, long []byte) {
			consensus_vote.CheckVotes(ns, long, w.vals[0].Address)
		}},
		{"ccm/btc.utxos", func(w *wWorld, ns *native.NativeService, long []byte) {
			ccmbtc.VerifPutUtxos(ns, 1, string(long), &ccmbtc.Utxos{})
		}},
		{"ccm/ripple.multisignInfo", func(w *wWorld, ns *native.NativeService, long []byte) {
			ripple.PutMultisignInfo(ns, string(long), &ripple.MultisignInfo{SigMap: map[string]bool{"a": true}})
		}},
		{"ccm/ripple.txInfo", func(w *wWorld, ns *native.NativeService, long []byte) { ripple.PutTxJsonInfo(ns, 7, long, "{}") }},
		// no exported writer accepts the length: CacheDB.Put with the key in the contract's shape
		{"nm/peerApply", func(w *wWorld, ns *native.NativeService, long []byte) {
			raw(ns, utils.ConcatKey(NM, []byte(nm.PEER_APPLY), long))
		}},
		{"nm/peerIndex", func(w *wWorld, ns *native.NativeService, long []byte) {
			raw(ns, utils.ConcatKey(NM, []byte(nm.PEER_INDEX), long))
		}},
		{"nm/blackList", func(w *wWorld, ns *native.NativeService, long []byte) {
			raw(ns, utils.ConcatKey(NM, []byte(nm.BLACK_LIST), long))
		}},
		{"scm/redeemBind", func(w *wWorld, ns *native.NativeService, long []byte) {
			raw(ns, utils.ConcatKey(SCM, []byte(scm.REDEEM_BIND), u8(1), u8(2), long))
		}},
		{"scm/btcTxParam", func(w *wWorld, ns *native.NativeService, long []byte) {
			raw(ns, utils.ConcatKey(SCM, []byte(scm.BTC_TX_PARAM), long, u8(1)))
		}},
		{"scm/redeemScript", func(w *wWorld, ns *native.NativeService, long []byte) {
			raw(ns, utils.ConcatKey(SCM, []byte(scm.REDEEM_SCRIPT), u8(1), long))
		}},
		{"ccm/btc.stxos", func(w *wWorld, ns *native.NativeService, long []byte) {
			raw(ns, utils.ConcatKey(CCM, []byte(ccmbtc.STXOS), u8(1), long))
		}},
		{"ccm/btc.multiSignInfo", func(w *wWorld, ns *native.NativeService, long []byte) {
			raw(ns, utils.ConcatKey(CCM, []byte(ccmbtc.MULTI_SIGN_INFO), long))
		}},
		{"ccm/btc.fromTx", func(w *wWorld, ns *native.NativeService, long []byte) {
			raw(ns, utils.ConcatKey(CCM, []byte(ccmbtc.BTC_FROM_TX_PREFIX), long))
		}},
		{"ccm/btc.tx", func(w *wWorld, ns *native.NativeService, long []byte) {
			raw(ns, utils.ConcatKey(CCM, []byte(ccmbtc.BTC_TX_PREFIX), long))
		}},
	}
}

func newWrites(base, now map[string]string) map[string]string {
	res := map[string]string{}
	for k, v := range now {
		if b, ok := base[k]; !ok || b != v {
			res[k] = v
		}
	}
	return res
}

func isSelfMethod(name string) bool {
	switch name {
	case "nm.approveCandidate", "nm.blackNode", "nm.whiteNode", "scm.approveRegisterSideChain", "scm.approveUpdateSideChain",
		"scm.approveQuitSideChain", "scm.updateFee", "rm.approveRegisterRelayer", "rm.approveRemoveRelayer",
		"n3.approveRegisterStateValidator", "n3.approveRemoveStateValidator", "sm.addSignature":
		return true
	}
	return false
}

func keysFatal(format string, a ...interface{}) { vio.Fatal("keys: "+format, a...) }

var _ = fmt.Sprintf
