// vd-native: drivers for the native-contract layer
//
//	C19 genesis-replay   trust roots installed once (spec/LightClient.tla)
//	C18 witness-*        privileged operations require the right witness (spec/Witness.tla)
//	C17 keys-*           storage confinement and key unambiguity (spec/StorageKeys.tla)
package main

import (
	"os"
	"runtime/pprof"

	"verifh/kit/vio"
)

func main() {
	defer vio.Flush()
	if pf := os.Getenv("VD_PROFILE"); pf != "" {
		f, _ := os.Create(pf)
		pprof.StartCPUProfile(f)
		defer pprof.StopCPUProfile()
	}
	if len(os.Args) < 2 {
		vio.Fatal("usage: vd-native <cmd> ...")
	}
	switch os.Args[1] {
	case "genesis-replay":
		genesisReplay()
	case "genesis-probe":
		genesisProbe()
	default:
		if !dispatchMore(os.Args[1], os.Args[2:]) {
			vio.Fatal("unknown command %s", os.Args[1])
		}
	}
}
