package main

// Fixtures lifted verbatim from the repository's own test data:
//
//	native/service/header_sync/zilliqa/header_sync_test.go (TestSyncGenesisHeader: txBlock1Raw, dsBlock1Raw; the
//	zilliqalegacy test uses the same two strings) and native/service/header_sync/starcoin/header_sync_test.go (MainHeaderJson).
const zilTxBlock1Raw = "{\"BlockHash\":[56,40,135,50,178,230,126,194,104,230,177,166,241,195,181,119,72,230,177,102,171,121,58,163,41,139,18,92,138,231,108,39],\"Cosigs\":{\"CS1\":{\"R\":79461090997780129048034156976579207017607593312295382854180954812611062499786,\"S\":91742597770497613815760351313815911030151335677216474693626678776993533665077},\"B1\":[true,true,true,true,true,true,true,false,false,false],\"CS2\":{\"R\":22513373955460225598459727159582327633978685137898384968505490930737451385826,\"S\":69259600331273345477024713698850194580163873601064291944707625774006410868491},\"B2\":[true,true,false,true,true,true,true,true,false,false]},\"Timestamp\":1614851084113383,\"BlockHeader\":{\"BlockHeaderBase\":{\"Version\":1,\"CommitteeHash\":[144,78,35,242,84,150,244,171,215,191,207,200,228,18,4,75,188,156,242,96,234,28,171,227,90,127,173,150,197,48,76,231],\"PrevHash\":[25,71,113,139,67,29,37,221,101,194,38,247,159,62,10,156,201,106,148,136,153,218,179,66,41,147,222,241,73,74,156,149]},\"GasLimit\":90000,\"GasUsed\":0,\"Rewards\":0,\"BlockNum\":1,\"HashSet\":{\"StateRootHash\":[171,57,165,166,188,170,165,153,119,109,69,231,171,86,24,230,64,155,13,154,233,104,156,53,214,30,42,57,70,180,219,46],\"DeltaHash\":[0,0,0,0,0,0,0,0,0,0,0,0,0,0,0,0,0,0,0,0,0,0,0,0,0,0,0,0,0,0,0,0],\"MbInfoHash\":[59,61,191,206,53,105,23,193,9,0,195,32,41,52,29,157,182,192,2,221,165,75,6,239,121,24,166,25,78,63,43,201]},\"NumTxs\":0,\"MinerPubKey\":\"0x02105342331FCD7CA95648DF8C5373C596982544F35E90849B1E619DFC59F03D48\",\"DSBlockNum\":1}}"
const zilDsBlock1Raw = "{\"BlockHash\":[110,156,68,14,64,80,203,185,47,33,51,251,33,253,134,144,165,106,177,248,40,162,95,175,149,198,226,104,42,133,141,147],\"Cosigs\":{\"CS1\":{\"R\":82378159645007731822019453933480162750953116703416061439006821187696821549829,\"S\":76062990255435928402343339335249009291551400166495738641213601543709385329901},\"B1\":[true,true,true,false,true,true,true,true,false,false],\"CS2\":{\"R\":93854453672214038567945187798065701969482439716186198113435402044731863802032,\"S\":99194416943091049405554646407147384870804679504363691825129226286226313434999},\"B2\":[true,true,true,true,true,true,false,false,true,false]},\"Timestamp\":1614851053611705,\"BlockHeader\":{\"BlockHeaderBase\":{\"Version\":2,\"CommitteeHash\":[168,148,171,148,251,117,232,182,248,255,95,207,117,54,148,68,162,158,59,213,12,56,135,233,222,70,197,78,138,205,243,168],\"PrevHash\":[15,0,233,211,23,83,0,252,40,120,18,210,1,237,207,191,203,129,101,128,150,6,84,85,149,191,83,112,12,82,70,72]},\"DsDifficulty\":5,\"Difficulty\":3,\"LeaderPubKey\":\"0x02105342331FCD7CA95648DF8C5373C596982544F35E90849B1E619DFC59F03D48\",\"BlockNum\":1,\"EpochNum\":1,\"GasPrice\":\"2000000000\",\"SwInfo\":{\"ZilliqaMajorVersion\":0,\"ZilliqaMinorVersion\":0,\"ZilliqaFixVersion\":0,\"ZilliqaUpgradeDS\":0,\"ZilliqaCommit\":0,\"ScillaMajorVersion\":0,\"ScillaMinorVersion\":0,\"ScillaFixVersion\":0,\"ScillaUpgradeDS\":0,\"ScillaCommit\":0},\"PoWDSWinners\":{\"0x0374A5CA5D76BEE5A1DE132AE72184AB084D23EC7A4867CCD562C58405BBB663E2\":{\"IpAddress\":3672036406,\"ListenPortHost\":33133,\"HostName\":\"\"}},\"RemoveDSNodePubKeys\":null,\"DSBlockHashSet\":{\"ShadingHash\":\"0VOZ8Rwe5L9/H5LD5FtSOWf9XK5dSilsYmSbzoF7Bjo=\",\"ReservedField\":[0,0,0,0,0,0,0,0,0,0,0,0,0,0,0,0,0,0,0,0,0,0,0,0,0,0,0,0,0,0,0,0,0,0,0,0,0,0,0,0,0,0,0,0,0,0,0,0,0,0,0,0,0,0,0,0,0,0,0,0,0,0,0,0,0,0,0,0,0,0,0,0,0,0,0,0,0,0,0,0,0,0,0,0,0,0,0,0,0,0,0,0,0,0,0,0,0,0,0,0,0,0,0,0,0,0,0,0,0,0,0,0,0,0,0,0,0,0,0,0,0,0,0,0,0,0,0,0]},\"GovDSShardVotesMap\":{}},\"PrevDSHash\":\"0000000000000000000000000000000000000000000000000000000000000000\"}"
const stcMainHeaderJson = `
	{
	"header":{
      "block_hash": "0x80848150abee7e9a3bfe9542a019eb0b8b01f124b63b011f9c338fdb935c417d",
      "parent_hash": "0xb82a2c11f2df62bf87c2933d0281e5fe47ea94d5f0049eec1485b682df29529a",
      "timestamp": "1621311100863",
      "number": "0",
      "author": "0x00000000000000000000000000000001",
      "author_auth_key": null,
      "txn_accumulator_root": "0x43609d52fdf8e4a253c62dfe127d33c77e1fb4afdefb306d46ec42e21b9103ae",
      "block_accumulator_root": "0x414343554d554c41544f525f504c414345484f4c4445525f4841534800000000",
      "state_root": "0x61125a3ab755b993d72accfea741f8537104db8e022098154f3a66d5c23e828d",
      "gas_used": "0",
      "difficulty": "0xb1ec37",
      "body_hash": "0x7564db97ee270a6c1f2f73fbf517dc0777a6119b7460b7eae2890d1ce504537b",
      "chain_id": 1,
      "nonce": 0,
      "extra": "0x00000000"
	  },
	"block_info": {"block_id":"0x80848150abee7e9a3bfe9542a019eb0b8b01f124b63b011f9c338fdb935c417d","total_difficulty":"0xb1ec37","txn_accumulator_info":{"accumulator_root":"0x43609d52fdf8e4a253c62dfe127d33c77e1fb4afdefb306d46ec42e21b9103ae","frozen_subtree_roots":["0x43609d52fdf8e4a253c62dfe127d33c77e1fb4afdefb306d46ec42e21b9103ae"],"num_leaves":1,"num_nodes":1},"block_accumulator_info":{"accumulator_root":"0x80848150abee7e9a3bfe9542a019eb0b8b01f124b63b011f9c338fdb935c417d","frozen_subtree_roots":["0x80848150abee7e9a3bfe9542a019eb0b8b01f124b63b011f9c338fdb935c417d"],"num_leaves":1,"num_nodes":1}}
	}
	`
