package main

// C17, keys under concurrent execution (keys-concurrent): a key is a function of the record kind and its parameters - also when
// several executions overlap (block execution, proposal execution and pre-execution run in different goroutines of a node).
// The same cheap key-writing operations are run for the same parameter values first sequentially, then by 8 goroutines at
// once, each on its private store; the sets of raw keys written per (goroutine, iteration) must be equal.

import (
	"encoding/hex"
	"fmt"
	"math/big"
	"sort"
	"sync"

	"github.com/polynetwork/poly/common"
	ccm "github.com/polynetwork/poly/native/service/cross_chain_manager"
	ccmcom "github.com/polynetwork/poly/native/service/cross_chain_manager/common"
	"github.com/polynetwork/poly/native/service/governance/relayer_manager"
	scm "github.com/polynetwork/poly/native/service/governance/side_chain_manager"
	hs "github.com/polynetwork/poly/native/service/header_sync"
	hscom "github.com/polynetwork/poly/native/service/header_sync/common"
	"github.com/polynetwork/poly/native/service/utils"

	"verifh/kit/nativekit"
	"verifh/kit/vio"
)

const concG, concN = 8, 300

// concIteration runs the operations for id on w (store emptied first) and returns the raw keys written, sorted.
func concIteration(w *wWorld, id uint64, routers []*routerFx, genesis map[string][]byte) []string {
	sb := w.sb
	sb.Cache.Reset()
	sb.Overlay.Reset()
	sb.SeedValidators(w.vals, 1)
	base := sb.WriteSet()
	tx := nativekit.Tx(w.owner.Address, w.op, w.vals[0].Address)
	call := func(h nativeHandler, in []byte) {
		sb.Call(h, tx, in)
	}
	vio.Safe(func() {
		ns := sb.Service(tx, nil)
		// put helpers of the contracts
		scm.PutSideChain(ns, &scm.SideChain{Address: w.owner.Address, ChainId: id, Router: utils.ETH_ROUTER, Name: "c", BlocksToWait: 1, CCMCAddress: []byte{0xcc}})
		if sc, err := scm.GetSideChain(ns, id); err != nil || sc == nil || sc.ChainId != id {
			ns.GetCacheDB().Put([]byte(fmt.Sprintf("readback-mismatch-%d", id)), []byte{1})
		}
		scm.PutAssetBind(ns, id, &scm.AssetBind{AssetMap: map[uint64][]byte{1: {1}}, LockProxyMap: map[uint64][]byte{1: {2}}})
		scm.PutFee(ns, id, &scm.Fee{View: 1, Fee: big.NewInt(3)})
		scm.PutFeeInfo(ns, id, id+1, &scm.FeeInfo{StartTime: 1, FeeInfo: map[common.Address]*big.Int{w.owner.Address: big.NewInt(1)}})
		ccmcom.PutBlackChain(ns, id)
		ccmcom.PutDoneTx(ns, myLEBytes(id, 8), id)
		ccm.PutRequest(ns, myLEBytes(id+3, 8), id, []byte("r"))
		sb.Cache.Commit()
		// real operations
		p := &scm.RegisterSideChainParam{Address: w.owner.Address, ChainId: id + 1, Router: utils.ETH_ROUTER, Name: "x", BlocksToWait: 1, CCMCAddress: []byte{0xcc}}
		call(scm.RegisterSideChain, ser(func(s *common.ZeroCopySink) { p.Serialization(s) }))
		q := &scm.RegisterSideChainParam{Address: w.owner.Address, ChainId: id, Router: utils.ETH_ROUTER, Name: "y", BlocksToWait: 2, CCMCAddress: []byte{0xcc}}
		call(scm.UpdateSideChain, ser(func(s *common.ZeroCopySink) { q.Serialization(s) }))
		qc := &scm.ChainidParam{Chainid: id, Address: w.owner.Address}
		call(scm.QuitSideChain, ser(qc.Serialization))
		rl := &relayer_manager.RelayerListParam{AddressList: []common.Address{w.stranger.Address}, Address: w.owner.Address}
		call(relayer_manager.RegisterRelayer, ser(rl.Serialization))
		bc := &ccmcom.BlackChainParam{ChainID: id + 2}
		call(ccm.BlackChain, ser(bc.Serialization))
		// trust-root installation on a few routers, side chain ids derived from id
		for k, fx := range routers {
			chain := id + 10 + uint64(k)
			ns2 := sb.Service(tx, nil)
			scm.PutSideChain(ns2, &scm.SideChain{Address: w.owner.Address, ChainId: chain, Router: fx.router, Name: fx.name, BlocksToWait: 1, CCMCAddress: []byte{0xcc}, ExtraInfo: fx.extra})
			sb.Cache.Commit()
			g := &hscom.SyncGenesisHeaderParam{ChainID: chain, GenesisHeader: genesis[fx.name]}
			call(hs.SyncGenesisHeader, sinkBytes(g.Serialization))
		}
	})
	return rawKeys(newWrites(base, sb.WriteSet()))
}

type concEvent struct {
	Ev   string   `json:"ev"`
	G    int      `json:"g"`
	I    int      `json:"i"`
	ID   string   `json:"id"`
	Seq  []string `json:"seq"`
	Conc []string `json:"conc"`
	Kind []string `json:"kinds"` // record kinds of the keys that differ
	Same bool     `json:"same"`
}

func kindOfRaw(rawHex string) string {
	raw, err := hex.DecodeString(rawHex)
	if err != nil || len(raw) < 21 {
		return "?"
	}
	for c, a := range contractAddrs {
		if string(raw[1:21]) == string(a[:]) {
			for _, l := range keyLayouts() {
				l := l
				if l.Contract == c {
					if _, ok := fitKind(&l, raw[21:]); ok {
						return c + ":" + l.Name
					}
				}
			}
			return c + ":?"
		}
	}
	return "?"
}

func keysConcurrent() {
	var routers []*routerFx
	genesis := map[string][]byte{}
	for _, n := range []string{"eth", "cosmos", "neo", "quorum", "btc"} {
		fx := routerByName(n)
		routers = append(routers, fx)
		genesis[n] = fx.genesis("g1")
	}
	idOf := func(g, i int) uint64 { return uint64(g+1)*1000000007 + uint64(i)*97 + (uint64(g+1) << 40) }
	worlds := make([]*wWorld, concG)
	for g := range worlds {
		worlds[g] = newWWorld()
		worlds[g].sb.Height = wBaseHeight + 10
	}
	seq := make([][][]string, concG)
	for g := 0; g < concG; g++ {
		seq[g] = make([][]string, concN)
		for i := 0; i < concN; i++ {
			seq[g][i] = concIteration(worlds[g], idOf(g, i), routers, genesis)
		}
	}
	conc := make([][][]string, concG)
	var wg sync.WaitGroup
	start := make(chan struct{})
	for g := 0; g < concG; g++ {
		conc[g] = make([][]string, concN)
		wg.Add(1)
		go func(g int) {
			defer wg.Done()
			<-start
			for i := 0; i < concN; i++ {
				conc[g][i] = concIteration(worlds[g], idOf(g, i), routers, genesis)
			}
		}(g)
	}
	close(start)
	wg.Wait()
	diffs, same, keys := 0, 0, 0
	for g := 0; g < concG; g++ {
		for i := 0; i < concN; i++ {
			a, b := seq[g][i], conc[g][i]
			keys += len(a)
			if fmt.Sprint(a) == fmt.Sprint(b) {
				same++
				if same <= 40 { // a sample of agreeing iterations goes to the monitor as well
					vio.Emit(concEvent{Ev: "conc", G: g, I: i, ID: fmt.Sprint(idOf(g, i)), Seq: a, Conc: b, Same: true})
				}
				continue
			}
			diffs++
			if diffs > 200 {
				continue
			}
			in := map[string]bool{}
			for _, k := range b {
				in[k] = true
			}
			kinds := map[string]bool{}
			for _, k := range a {
				if !in[k] {
					kinds[kindOfRaw(k)] = true
				}
			}
			ina := map[string]bool{}
			for _, k := range a {
				ina[k] = true
			}
			for _, k := range b {
				if !ina[k] {
					if kd := kindOfRaw(k); kd != "?" {
						kinds[kd] = true
					} else {
						kinds["scm:sideChain"] = true // the read-back marker: GetSideChain(id) did not return the record just put
					}
				}
			}
			var ks []string
			for k := range kinds {
				ks = append(ks, k)
			}
			sort.Strings(ks)
			vio.Emit(concEvent{Ev: "conc", G: g, I: i, ID: fmt.Sprint(idOf(g, i)), Seq: a, Conc: b, Kind: ks})
		}
	}
	vio.Emit(map[string]interface{}{"summary": true, "iterations": concG * concN, "differing": diffs, "keys_per_pass": keys})
}
