package main

// Genesis (trust-root) fixtures for every header_sync router, fabricated offline.
// genesis(v) returns the GenesisHeader bytes of variant v ("g1", "g2": two different, well-formed trust roots).

import (
	"bytes"
	"crypto/ecdsa"
	"encoding/binary"
	"encoding/json"
	"fmt"
	"math/big"
	"strings"
	"time"

	"github.com/btcsuite/btcd/chaincfg/chainhash"
	"github.com/btcsuite/btcd/wire"
	ecommon "github.com/ethereum/go-ethereum/common"
	etypes "github.com/ethereum/go-ethereum/core/types"
	ecrypto "github.com/ethereum/go-ethereum/crypto"
	"github.com/ethereum/go-ethereum/rlp"
	nblock "github.com/joeqian10/neo-gogogo/block"
	nhelper "github.com/joeqian10/neo-gogogo/helper"
	ntx "github.com/joeqian10/neo-gogogo/tx"
	n3lblock "github.com/joeqian10/neo3-gogogo-legacy/block"
	n3lhelper "github.com/joeqian10/neo3-gogogo-legacy/helper"
	n3ltx "github.com/joeqian10/neo3-gogogo-legacy/tx"
	n3block "github.com/joeqian10/neo3-gogogo/block"
	n3helper "github.com/joeqian10/neo3-gogogo/helper"
	n3tx "github.com/joeqian10/neo3-gogogo/tx"
	ocommon "github.com/ontio/ontology/common"
	otypes "github.com/ontio/ontology/core/types"
	"github.com/polynetwork/poly/common"
	vconfig "github.com/polynetwork/poly/consensus/vbft/config"
	"github.com/polynetwork/poly/native/service/header_sync/bsc"
	"github.com/polynetwork/poly/native/service/header_sync/bytom"
	"github.com/polynetwork/poly/native/service/header_sync/cosmos"
	"github.com/polynetwork/poly/native/service/header_sync/eth"
	"github.com/polynetwork/poly/native/service/header_sync/heco"
	"github.com/polynetwork/poly/native/service/header_sync/hsc"
	"github.com/polynetwork/poly/native/service/header_sync/msc"
	"github.com/polynetwork/poly/native/service/header_sync/neo"
	"github.com/polynetwork/poly/native/service/header_sync/neo3"
	"github.com/polynetwork/poly/native/service/header_sync/neo3legacy"
	"github.com/polynetwork/poly/native/service/header_sync/okex"
	"github.com/polynetwork/poly/native/service/header_sync/pixiechain"
	"github.com/polynetwork/poly/native/service/header_sync/polygon"
	polygonTypes "github.com/polynetwork/poly/native/service/header_sync/polygon/types"
	"github.com/polynetwork/poly/native/service/header_sync/quorum"
	"github.com/polynetwork/poly/native/service/utils"
	tmtypes "github.com/tendermint/tendermint/types"
)

type routerFx struct {
	name    string
	router  uint64
	chainID uint64
	extra   []byte                                               // SideChain.ExtraInfo
	genesis func(v string) []byte                                // well-formed genesis of variant v
	syncer  func(fx *routerFx, installed string, n int) [][]byte // optional: n-th acceptable next header(s) after genesis `installed`
}

var evmChainID = big.NewInt(56)

func mustJSON(v interface{}) []byte {
	b, err := json.Marshal(v)
	if err != nil {
		panic(err)
	}
	return b
}

// evmKeys returns n deterministic secp256k1 keys for (router, variant).
func evmKeys(label string, n int) ([]*ecdsa.PrivateKey, []ecommon.Address) {
	var ks []*ecdsa.PrivateKey
	var as []ecommon.Address
	d := newDet("evm:" + label)
	for len(ks) < n {
		k, err := ecrypto.ToECDSA(d.Bytes(32))
		if err != nil {
			continue
		}
		ks = append(ks, k)
		as = append(as, ecrypto.PubkeyToAddress(k.PublicKey))
	}
	return ks, as
}

// baseTime is well in the past and fixed (header verification of several routers compares with the wall clock).
const baseTime = uint64(1600000000)

// hOff: the height offset of a genesis variant.  g1 and g2 are two different roots at the SAME height; ghi is a third root
// 50 blocks higher (above anything the sync steps reach), so that later-install attempts are made at an equal height, at a
// height above the synced tip (g1 then ghi) and at a lower height (ghi then g1).
func hOff(v string) uint64 {
	if v == "ghi" {
		return 50
	}
	if v == "gdeg" { // routers without a degenerate form: one more ordinary root, elsewhere
		return 20
	}
	return 0
}

func vnum(v string) uint64 {
	if v == "ghi" {
		return 3
	}
	if v == "gdeg" {
		return 4
	}
	if v == "g2" {
		return 2
	}
	return 1
}

// posaHeader: epoch header with the validator list in extra (32 vanity | validators | 65 seal).
func posaExtra(addrs []ecommon.Address) []byte {
	ex := make([]byte, 32)
	for _, a := range addrs {
		ex = append(ex, a.Bytes()...)
	}
	return append(ex, make([]byte, 65)...)
}

func gethHeader(num uint64, v string, extra []byte, coinbase ecommon.Address) *etypes.Header {
	return &etypes.Header{ParentHash: ecommon.BytesToHash([]byte("parent-" + v)), UncleHash: etypes.CalcUncleHash(nil), Coinbase: coinbase,
		Root: ecommon.BytesToHash([]byte("root-" + v)), Number: new(big.Int).SetUint64(num), GasLimit: 30000000, GasUsed: 0,
		Time: baseTime + num, Extra: extra, Difficulty: big.NewInt(2)}
}

func polyEthHeader(num uint64, v string, extra []byte, coinbase ecommon.Address, diff int64) *eth.Header {
	return &eth.Header{ParentHash: ecommon.BytesToHash([]byte("parent-" + v)), UncleHash: etypes.EmptyUncleHash, Coinbase: coinbase,
		Root: ecommon.BytesToHash([]byte("root-" + v)), Number: new(big.Int).SetUint64(num), GasLimit: 10000000, GasUsed: 0,
		Time: baseTime + num, Extra: extra, Difficulty: big.NewInt(diff)}
}

func allRouters() []*routerFx {
	var rs []*routerFx
	add := func(r *routerFx) { rs = append(rs, r) }

	// ---- eth: any eth.Header JSON
	add(&routerFx{name: "eth", router: utils.ETH_ROUTER, chainID: 2, syncer: ethSync, genesis: func(v string) []byte {
		return mustJSON(ethGenesis(v))
	}})

	// ---- bsc-like PoSA routers with go-ethereum headers (bsc, bytom)
	add(&routerFx{name: "bsc", router: utils.BSC_ROUTER, chainID: 6, extra: mustJSON(&bsc.ExtraInfo{ChainID: evmChainID}), syncer: bscSync,
		genesis: func(v string) []byte {
			_, addrs := evmKeys("bsc/"+v, 3)
			g := bscGenesis(v)
			return mustJSON(&bsc.GenesisHeader{Header: *g, PrevValidators: []bsc.HeightAndValidators{{Height: big.NewInt(0), Validators: addrs}}})
		}})
	add(&routerFx{name: "bytom", router: utils.BYTOM_ROUTER, chainID: 22, extra: mustJSON(&bytom.ExtraInfo{ChainID: evmChainID}),
		genesis: func(v string) []byte {
			_, addrs := evmKeys("bytom/"+v, 3)
			g := gethHeader(200+2*hOff(v), v, posaExtra(addrs), addrs[(200+2*hOff(v))%3])
			return mustJSON(&bytom.GenesisHeader{Header: *g, PrevValidators: []bytom.HeightAndValidators{{Height: big.NewInt(0), Validators: addrs}}})
		}})
	// ---- heco, hsc, pixie: poly's eth.Header
	add(&routerFx{name: "heco", router: utils.HECO_ROUTER, chainID: 7, extra: mustJSON(&heco.ExtraInfo{ChainID: evmChainID, Period: 3}),
		genesis: func(v string) []byte {
			_, addrs := evmKeys("heco/"+v, 3)
			g := polyEthHeader(200+2*hOff(v), v, posaExtra(addrs), addrs[0], 2)
			return mustJSON(&heco.GenesisHeader{Header: *g, PrevValidators: []heco.HeightAndValidators{{Height: big.NewInt(0), Validators: addrs}}})
		}})
	add(&routerFx{name: "hsc", router: utils.HSC_ROUTER, chainID: 20, extra: mustJSON(&hsc.ExtraInfo{ChainID: evmChainID, Period: 3}),
		genesis: func(v string) []byte {
			_, addrs := evmKeys("hsc/"+v, 3)
			g := polyEthHeader(200+2*hOff(v), v, posaExtra(addrs), addrs[0], 2)
			return mustJSON(&hsc.GenesisHeader{Header: *g, PrevValidators: []hsc.HeightAndValidators{{Height: big.NewInt(0), Validators: addrs}}})
		}})
	add(&routerFx{name: "pixie", router: utils.PIXIECHAIN_ROUTER, chainID: 19, extra: mustJSON(&pixiechain.ExtraInfo{ChainID: evmChainID, Period: 3}),
		genesis: func(v string) []byte {
			_, addrs := evmKeys("pixie/"+v, 3)
			g := polyEthHeader(200+2*hOff(v), v, posaExtra(addrs), addrs[0], 2)
			return mustJSON(&pixiechain.GenesisHeader{Header: *g, PrevValidators: []pixiechain.HeightAndValidators{{Height: big.NewInt(0), Validators: addrs}}})
		}})
	// ---- msc: epoch header (number % epoch == 0), go-ethereum header
	add(&routerFx{name: "msc", router: utils.MSC_ROUTER, chainID: 10, extra: mustJSON(&msc.ExtraInfo{ChainID: evmChainID, Period: 3, Epoch: 100}),
		genesis: func(v string) []byte {
			_, addrs := evmKeys("msc/"+v, 3)
			return mustJSON(gethHeader(200+2*hOff(v), v, posaExtra(addrs), addrs[0]))
		}})
	// ---- polygon bor: header + validator-set snapshot
	add(&routerFx{name: "bor", router: utils.POLYGON_BOR_ROUTER, chainID: 16,
		extra: mustJSON(&polygon.ExtraInfo{Sprint: 64, Period: 2, ProducerDelay: 6, BackupMultiplier: 2, HeimdallPolyChainID: 15}),
		genesis: func(v string) []byte {
			_, addrs := evmKeys("bor/"+v, 3)
			var vals []*polygon.Validator
			for i, a := range addrs {
				vals = append(vals, &polygon.Validator{ID: uint64(i + 1), Address: a, VotingPower: 10})
			}
			g := polyEthHeader(255+hOff(v), v, posaExtra(addrs), ecommon.Address{}, 3)
			snap := &polygon.Snapshot{Hash: g.Hash(), ValidatorSet: polygon.NewValidatorSet(vals)}
			return mustJSON(&polygon.HeaderWithOptionalSnap{Header: *g, Snapshot: snap})
		}})
	// ---- tendermint family: amino-encoded header; the epoch-switch record keeps height, hashes and chain id
	add(&routerFx{name: "cosmos", router: utils.COSMOS_ROUTER, chainID: 5, syncer: cosmosSync, genesis: func(v string) []byte {
		hdr := tmtypes.Header{ChainID: "verif-cosmos", Height: cosmosGenesisHeight(v), Time: time.Unix(int64(baseTime), 0).UTC(),
			ValidatorsHash: newDet("cosmos/vh/" + v).Bytes(32), NextValidatorsHash: cosmosSetHash(v, 0)}
		hdr.Version.Block = 10
		b, err := cosmos.Cdc.MarshalBinaryBare(&cosmos.CosmosHeader{Header: hdr, Commit: &tmtypes.Commit{}, Valsets: nil})
		if err != nil {
			panic(err)
		}
		return b
	}})
	add(&routerFx{name: "okex", router: utils.OKEX_ROUTER, chainID: 12, genesis: func(v string) []byte {
		hdr := tmtypes.Header{ChainID: "verif-okex", Height: int64(100 + hOff(v)), Time: time.Unix(int64(baseTime), 0).UTC(),
			ValidatorsHash: newDet("okex/vh/" + v).Bytes(32), NextValidatorsHash: newDet("okex/nvh/" + v).Bytes(32)}
		hdr.Version.Block = 10
		b, err := okex.NewCDC().MarshalBinaryBare(&okex.CosmosHeader{Header: hdr, Commit: &tmtypes.Commit{}, Valsets: nil})
		if err != nil {
			panic(err)
		}
		return b
	}})
	add(&routerFx{name: "heimdall", router: utils.POLYGON_HEIMDALL_ROUTER, chainID: 15, genesis: func(v string) []byte {
		hdr := polygonTypes.Header{ChainID: "verif-heimdall", Height: int64(100 + hOff(v)), Time: time.Unix(int64(baseTime), 0).UTC(),
			ValidatorsHash: newDet("heimdall/vh/" + v).Bytes(32), NextValidatorsHash: newDet("heimdall/nvh/" + v).Bytes(32)}
		b, err := polygonTypes.NewCDC().MarshalBinaryBare(&polygon.CosmosHeader{Header: hdr, Commit: &polygonTypes.Commit{}, Valsets: nil})
		if err != nil {
			panic(err)
		}
		return b
	}})
	// ---- ont: header whose consensus payload names the validator set
	add(&routerFx{name: "ont", router: utils.ONT_ROUTER, chainID: 3, syncer: ontSync, genesis: func(v string) []byte {
		cfg := &vconfig.ChainConfig{}
		for i, a := range detAccounts("ontval/"+v, 4) {
			cfg.Peers = append(cfg.Peers, &vconfig.PeerConfig{Index: uint32(i + 1), ID: vconfig.PubkeyID(a.PublicKey)})
		}
		payload := mustJSON(&vconfig.VbftBlockInfo{NewChainConfig: cfg})
		h := &otypes.Header{Height: uint32(hOff(v)), Timestamp: uint32(baseTime), ConsensusPayload: payload}
		sink := ocommon.NewZeroCopySink(nil)
		h.Serialization(sink)
		return sink.Bytes()
	}})
	// ---- neo family: the next-consensus script hash is the root
	add(&routerFx{name: "neo", router: utils.NEO_ROUTER, chainID: 4, genesis: func(v string) []byte {
		nc, err := nhelper.UInt160FromBytes(newDet("neo/nc/" + v).Bytes(20))
		if err != nil {
			panic(err)
		}
		h := &neo.NeoBlockHeader{BlockHeader: &nblock.BlockHeader{Version: 0, Timestamp: uint32(baseTime), Index: uint32(5 + hOff(v)), NextConsensus: nc,
			ConsensusData: 7, Witness: &ntx.Witness{InvocationScript: []byte{0}, VerificationScript: []byte{81}}}}
		sink := common.NewZeroCopySink(nil)
		if err := h.Serialization(sink); err != nil {
			panic(err)
		}
		return sink.Bytes()
	}})
	add(&routerFx{name: "neo3", router: utils.NEO3_ROUTER, chainID: 14, genesis: func(v string) []byte {
		h := &neo3.NeoBlockHeader{Header: n3block.NewBlockHeader()}
		h.SetVersion(0)
		h.SetPrevHash(n3helper.UInt256Zero)
		h.SetMerkleRoot(n3helper.UInt256Zero)
		h.SetTimeStamp(baseTime * 1000)
		h.SetIndex(uint32(5 + hOff(v)))
		h.SetPrimaryIndex(0)
		h.SetNextConsensus(n3helper.UInt160FromBytes(newDet("neo3/nc/" + v).Bytes(20)))
		h.SetWitnesses([]n3tx.Witness{{InvocationScript: []byte{}, VerificationScript: []byte{0x11}}})
		sink := common.NewZeroCopySink(nil)
		if err := h.Serialization(sink); err != nil {
			panic(err)
		}
		return sink.Bytes()
	}})
	add(&routerFx{name: "neo3legacy", router: utils.NEO3_LEGACY_ROUTER, chainID: 11, genesis: func(v string) []byte {
		h := &neo3legacy.NeoBlockHeader{Header: n3lblock.NewBlockHeader()}
		h.SetVersion(0)
		h.SetPrevHash(n3lhelper.UInt256Zero)
		h.SetMerkleRoot(n3lhelper.UInt256Zero)
		h.SetTimeStamp(baseTime * 1000)
		h.SetIndex(uint32(5 + hOff(v)))
		h.SetPrimaryIndex(0)
		h.SetNextConsensus(n3lhelper.UInt160FromBytes(newDet("neo3l/nc/" + v).Bytes(20)))
		h.SetWitnesses([]n3ltx.Witness{{InvocationScript: []byte{}, VerificationScript: []byte{0x11}}})
		sink := common.NewZeroCopySink(nil)
		if err := h.Serialization(sink); err != nil {
			panic(err)
		}
		return sink.Bytes()
	}})
	// ---- quorum: istanbul extra carries the validator list
	add(&routerFx{name: "quorum", router: utils.QUORUM_ROUTER, chainID: 8, genesis: func(v string) []byte {
		_, addrs := evmKeys("quorum/"+v, 4)
		ist, err := rlp.EncodeToBytes(&quorum.IstanbulExtra{Validators: addrs, Seal: []byte{}, CommittedSeal: [][]byte{}})
		if err != nil {
			panic(err)
		}
		g := gethHeader(100+hOff(v), v, append(make([]byte, quorum.IstanbulExtraVanity), ist...), ecommon.Address{})
		g.MixDigest = quorum.IstanbulDigest
		return mustJSON(g)
	}})
	// ---- btc: 80-byte header + big-endian height
	add(&routerFx{name: "btc", router: utils.BTC_ROUTER, chainID: 1, genesis: func(v string) []byte {
		var prev, mr chainhash.Hash
		copy(prev[:], newDet("btc/prev/"+v).Bytes(32))
		copy(mr[:], newDet("btc/mr/"+v).Bytes(32))
		h := wire.BlockHeader{Version: 2, PrevBlock: prev, MerkleRoot: mr, Timestamp: time.Unix(int64(baseTime), 0), Bits: 0x207fffff, Nonce: uint32(vnum(v))}
		var buf bytes.Buffer
		if err := h.BtcEncode(&buf, wire.ProtocolVersion, wire.LatestEncoding); err != nil {
			panic(err)
		}
		var ht [4]byte
		binary.BigEndian.PutUint32(ht[:], uint32(2016+hOff(v)))
		return append(buf.Bytes(), ht[:]...)
	}})
	// ---- zilliqa / zilliqalegacy: recorded tx block + ds block + committee (repository test data); g2 drops one
	// committee member and names another block hash
	zil := func(v string) []byte {
		var tx, ds map[string]interface{}
		dec := json.NewDecoder(strings.NewReader(zilTxBlock1Raw))
		dec.UseNumber()
		if err := dec.Decode(&tx); err != nil {
			panic(err)
		}
		dec = json.NewDecoder(strings.NewReader(zilDsBlock1Raw))
		dec.UseNumber()
		if err := dec.Decode(&ds); err != nil {
			panic(err)
		}
		comm := []string{"02105342331FCD7CA95648DF8C5373C596982544F35E90849B1E619DFC59F03D48", "021D439D1CCCAE17C3D6E855BC78E96438C808D16D1CBF8D7ABD391E41CEE9B1BF",
			"021EDDE95598F5F59708D2E728E00EDB2ECF278C16BD389384320B1AF998DCC2FD", "02445FE498E7FBB240BDF9185EB5E7642AF1AF36852D1E132E198A222FBAC617A0",
			"0256EC4BC62FB56C83A3F6160E67499A9E381CF7A613EBF34B9ECDB9E64171DDF4", "0264D991762D81DD6557BCB33EC8AA3F621B4CB790852F2231C864921387B76862",
			"027A00916BDD3CF954ED13A0494BFB73FF95BF28C54004F2749F1A8E8CC1AB5B3D", "0297C693FBEBAF397CBDE616F605920EF70D7F6E5EC8DD82E71AE1E812E5E0B303",
			"02AE5ADF63E9161000713987B5EBB490B5E6B57CF5B7F9799B4AB907BA19D468F6", "0374A5CA5D76BEE5A1DE132AE72184AB084D23EC7A4867CCD562C58405BBB663E2"}
		if v == "g2" {
			comm = comm[1:]
			bh := tx["BlockHash"].([]interface{})
			bh[0] = json.Number("57")
		}
		if v == "ghi" {
			comm = comm[2:]
			bh := tx["BlockHash"].([]interface{})
			bh[0] = json.Number("58")
			tx["BlockHeader"].(map[string]interface{})["BlockNum"] = json.Number("51")
		}
		var nodes []map[string]interface{}
		for _, pk := range comm {
			nodes = append(nodes, map[string]interface{}{"PubKey": pk})
		}
		return mustJSON(map[string]interface{}{"TxBlock": tx, "DsBlock": ds, "DsComm": nodes})
	}
	add(&routerFx{name: "zilliqa", router: utils.ZILLIQA_ROUTER, chainID: 17, extra: []byte(`{"NumOfGuardList":420}`), genesis: zil})
	add(&routerFx{name: "zilliqalegacy", router: utils.ZILLIQA_LEGACY_ROUTER, chainID: 9, extra: []byte(`{"NumOfGuardList":420}`), genesis: zil})
	// ---- starcoin: recorded main-net genesis header + block info (repository test data); g2 names another state root
	add(&routerFx{name: "starcoin", router: utils.STARCOIN_ROUTER, chainID: 18, genesis: func(v string) []byte {
		// adapted to the JSON types of the pinned starcoin-go (counts are strings, block_info names the block by block_hash)
		s := strings.Replace(stcMainHeaderJson, `"num_leaves":1,"num_nodes":1`, `"num_leaves":"1","num_nodes":"1"`, -1)
		s = strings.Replace(s, `"block_id"`, `"block_hash"`, 1)
		if v == "g2" {
			s = strings.Replace(s, `"state_root": "0x61125a3a`, `"state_root": "0x71125a3a`, 1)
			if !strings.Contains(s, `"state_root": "0x71125a3a`) {
				panic("starcoin fixture: state_root not found")
			}
		}
		if v == "ghi" {
			s = strings.Replace(s, `"state_root": "0x61125a3a`, `"state_root": "0x81125a3a`, 1)
			s = strings.Replace(s, `"number": "0"`, `"number": "50"`, 1)
			if !strings.Contains(s, `"number": "50"`) || !strings.Contains(s, `0x81125a3a`) {
				panic("starcoin fixture: number/state_root not found")
			}
		}
		return []byte(s)
	}})
	for _, r := range rs {
		r := r
		normal := r.genesis
		r.genesis = func(v string) []byte {
			if v == "gdeg" {
				if d := degenerate(r.name); d != nil {
					return d
				}
			}
			return normal(v)
		}
	}
	return rs
}

// degenerate: "degenerate but accepted" first trust roots (empty / zero optional fields, height 0).  Only forms the real
// SyncGenesisHeader accepts on a fresh chain are listed; every other router gets one more ordinary root for "gdeg".
func degenerate(name string) []byte {
	zeroHdr := func(num uint64) *eth.Header {
		return &eth.Header{UncleHash: etypes.EmptyUncleHash, Number: new(big.Int).SetUint64(num), Difficulty: big.NewInt(1), Extra: []byte{}, GasLimit: 5000}
	}
	switch name {
	case "eth":
		return mustJSON(ethGenesis("gdeg"))
	case "cosmos":
		hdr := tmtypes.Header{ChainID: "verif-cosmos", Height: cosmosGenesisHeight("gdeg")}
		hdr.Version.Block = 10
		b, _ := cosmos.Cdc.MarshalBinaryBare(&cosmos.CosmosHeader{Header: hdr, Commit: &tmtypes.Commit{}})
		return b
	case "okex":
		hdr := tmtypes.Header{ChainID: "verif-okex", Height: 1}
		b, _ := okex.NewCDC().MarshalBinaryBare(&okex.CosmosHeader{Header: hdr, Commit: &tmtypes.Commit{}})
		return b
	case "heimdall":
		hdr := polygonTypes.Header{ChainID: "verif-heimdall", Height: 1}
		b, _ := polygonTypes.NewCDC().MarshalBinaryBare(&polygon.CosmosHeader{Header: hdr, Commit: &polygonTypes.Commit{}})
		return b
	case "ont": // a header that names no validator set at all
		h := &otypes.Header{Height: 0, ConsensusPayload: []byte("{}")}
		sink := ocommon.NewZeroCopySink(nil)
		h.Serialization(sink)
		return sink.Bytes()
	case "quorum": // istanbul extra with an empty validator list
		ist, _ := rlp.EncodeToBytes(&quorum.IstanbulExtra{Validators: []ecommon.Address{}, Seal: []byte{}, CommittedSeal: [][]byte{}})
		g := gethHeader(0, "gdeg", append(make([]byte, quorum.IstanbulExtraVanity), ist...), ecommon.Address{})
		return mustJSON(g)
	case "btc": // all-zero header at height 0
		var buf bytes.Buffer
		h := wire.BlockHeader{Timestamp: time.Unix(0, 0)}
		h.BtcEncode(&buf, wire.ProtocolVersion, wire.LatestEncoding)
		return append(buf.Bytes(), 0, 0, 0, 0)
	case "bor": // snapshot without a validator set
		return mustJSON(&polygon.HeaderWithOptionalSnap{Header: *zeroHdr(0), Snapshot: &polygon.Snapshot{}})
	case "msc": // epoch block 0 with a single validator
		_, addrs := evmKeys("msc/gdeg", 1)
		return mustJSON(gethHeader(0, "gdeg", posaExtra(addrs), addrs[0]))
	}
	return nil
}

func routerByName(name string) *routerFx {
	for _, r := range allRouters() {
		if r.name == name {
			return r
		}
	}
	panic(fmt.Sprintf("unknown router %q", name))
}
