package main

// C18 P-TABLE: every row printed by TLC from spec/Witness.tla (method, named address, signer set, chain of calling
// contracts, epoch due) is executed on the real contracts: a fresh world initialised by the real node_manager.InitConfig,
// the prerequisites of the method installed by real (witnessed) calls, then ONE real invoke transaction carrying real
// signatures of exactly the row's signers (checked by validation.VerifyTransaction), run the way the ledger runs it
// (NewNativeService(tx, code).Invoke(), commit on success, discard on error).  Observed: accept/reject and whether
// any storage changed.

import (
	"encoding/hex"
	"encoding/json"
	"fmt"
	"math/big"
	"sort"

	"github.com/ontio/ontology-crypto/keypair"
	"github.com/polynetwork/poly/account"
	"github.com/polynetwork/poly/common"
	"github.com/polynetwork/poly/common/config"
	vconfig "github.com/polynetwork/poly/consensus/vbft/config"
	"github.com/polynetwork/poly/core/payload"
	cstates "github.com/polynetwork/poly/core/states"
	"github.com/polynetwork/poly/core/types"
	"github.com/polynetwork/poly/core/validation"
	ontErrors "github.com/polynetwork/poly/errors"
	"github.com/polynetwork/poly/native"
	ccmcom "github.com/polynetwork/poly/native/service/cross_chain_manager/common"
	"github.com/polynetwork/poly/native/service/governance/neo3_state_manager"
	nm "github.com/polynetwork/poly/native/service/governance/node_manager"
	"github.com/polynetwork/poly/native/service/governance/relayer_manager"
	scm "github.com/polynetwork/poly/native/service/governance/side_chain_manager"
	"github.com/polynetwork/poly/native/service/governance/signature_manager"
	hscom "github.com/polynetwork/poly/native/service/header_sync/common"
	"github.com/polynetwork/poly/native/service/utils"
	nstates "github.com/polynetwork/poly/native/states"

	"verifh/kit/ledgerkit"
	"verifh/kit/nativekit"
	"verifh/kit/vio"
)

var (
	relay1 = common.Address{0xfe, 0x01} // "C1"
	relay2 = common.Address{0xfe, 0x02} // "C2"
)

// relay contract: forwards a call, so that the target sees the relay as its immediate caller
func relayFwd(ns *native.NativeService) ([]byte, error) {
	p := new(nstates.ContractInvokeParam)
	if err := p.Deserialization(common.NewZeroCopySource(ns.GetInput())); err != nil {
		return nil, err
	}
	r, err := ns.NativeCall(p.Address, p.Method, p.Args)
	if err != nil {
		return nil, err
	}
	if e, ok := r.(error); ok && e != nil { // Invoke returns a PushContext failure in the result position
		return nil, e
	}
	return utils.BYTE_TRUE, nil
}

func registerRelays() {
	native.Contracts[relay1] = func(ns *native.NativeService) { ns.Register("fwd", relayFwd) }
	native.Contracts[relay2] = func(ns *native.NativeService) { ns.Register("fwd", relayFwd) }
}

type wRow struct {
	M         string   `json:"m"`
	Named     string   `json:"named"`
	Signers   []string `json:"signers"`
	Ctx       []string `json:"ctx"`
	Due       bool     `json:"due"`
	Path      string   `json:"path"` // "verified": addresses cached by VerifyTransaction; "decoded": fresh deserialized copy
	Mbv       []uint64 `json:"mbv"`  // commitDpos: epoch length, two 16-bit limbs
	Vhv       []uint64 `json:"vhv"`  // height at which the current epoch began
	Hv        []uint64 `json:"hv"`   // height of the call
	Expect    string   `json:"expect"`
	Witnessed bool     `json:"witnessed"`
}

type wResult struct {
	Row      int      `json:"row"`
	Got      string   `json:"got"`
	Changed  bool     `json:"changed"`
	Err      string   `json:"err,omitempty"`
	Panic    string   `json:"panic,omitempty"`
	Diff     []string `json:"diff,omitempty"`
	SigAddrs int      `json:"sigaddrs"`
}

const wBaseHeight = 20000000

type wWorld struct {
	sb       *nativekit.Sandbox
	vals     []*account.Account
	owner    *account.Account
	stranger *account.Account
	extra    *account.Account // key of the fifth peer / candidate
	op       common.Address
	argsOnly bool // prepare() only builds the arguments (prerequisites are already installed)
}

func pkHex(a *account.Account) string { return vconfig.PubkeyID(a.PublicKey) }

func newWWorld() *wWorld { return newWWorldAt(wBaseHeight, 100000) }

// newWWorldAt: the world's epoch begins at initHeight (governanceView.Height) and lasts maxBlockChangeView blocks.
func newWWorldAt(initHeight uint32, maxBlockChangeView uint32) *wWorld {
	w := &wWorld{sb: getSandbox(), vals: detAccounts("polyval", 4), owner: detAccount("owner"), stranger: detAccount("stranger"), extra: detAccount("peer5")}
	w.sb.Height = initHeight
	w.op = nativekit.Operator(w.vals)
	cfg := &config.VBFTConfig{BlockMsgDelay: 10000, HashMsgDelay: 10000, PeerHandshakeTimeout: 10, MaxBlockChangeView: maxBlockChangeView,
		VrfValue: hex.EncodeToString(newDet("vrfv").Bytes(64)), VrfProof: hex.EncodeToString(newDet("vrfp").Bytes(64))}
	for i, v := range w.vals {
		cfg.Peers = append(cfg.Peers, &config.VBFTPeerInfo{Index: uint32(i + 1), PeerPubkey: pkHex(v), Address: v.Address.ToBase58()})
	}
	in := sinkBytes(func(s *common.ZeroCopySink) { cfg.Serialization(s) })
	w.must(nm.InitConfig, nil, in)
	w.sb.Height = initHeight + 10
	return w
}

// must runs a prerequisite call with the given witnesses (SignedAddr short cut) and insists on success.
func (w *wWorld) must(h native.Handler, wit []common.Address, in []byte) {
	if w.argsOnly {
		return
	}
	if _, _, err := w.sb.Call(h, nativekit.Tx(wit...), in); err != nil {
		panic(fmt.Sprintf("prerequisite call failed: %v", err))
	}
}

func (w *wWorld) rawPut(key []byte, val []byte) {
	if w.argsOnly {
		return
	}
	w.sb.Cache.Put(key, cstates.GenRawStorageItem(val))
	w.sb.Cache.Commit()
}

// addFifthPeer puts a fifth (candidate) peer owned by addr into the pool of the current view.
func (w *wWorld) addFifthPeer(addr common.Address) {
	if w.argsOnly {
		return
	}
	ns := w.sb.Service(nativekit.Tx(), nil)
	m, err := nm.GetPeerPoolMap(ns, 1)
	if err != nil {
		panic(err)
	}
	m.PeerPoolMap[pkHex(w.extra)] = &nm.PeerPoolItem{Index: 5, PeerPubkey: pkHex(w.extra), Address: addr, Status: nm.CandidateStatus}
	w.sb.PutPool(m, 1)
}

func (w *wWorld) addr(name string) common.Address {
	switch name {
	case "owner":
		return w.owner.Address
	case "val":
		return w.vals[0].Address
	case "stranger":
		return w.stranger.Address
	case "zero":
		return common.ADDRESS_EMPTY
	case "C1":
		return relay1
	case "C2":
		return relay2
	}
	panic("unknown actor " + name)
}

type wMethod struct {
	contract common.Address
	method   string
	// prepare installs the prerequisites and returns the argument bytes; named is the address carried in the parameters
	prepare func(w *wWorld, named common.Address) []byte
}

func ser(f func(*common.ZeroCopySink)) []byte { return sinkBytes(f) }

func wMethods() map[string]*wMethod {
	ms := map[string]*wMethod{}
	NM, SCM, RM, N3, SM, CCM, HS := utils.NodeManagerContractAddress, utils.SideChainManagerContractAddress, utils.RelayerManagerContractAddress,
		utils.Neo3StateManagerContractAddress, utils.SignatureManagerContractAddress, utils.CrossChainManagerContractAddress, utils.HeaderSyncContractAddress
	peerParam := func(w *wWorld, a common.Address) []byte {
		p := &nm.PeerParam{PeerPubkey: pkHex(w.extra), Address: a}
		return ser(p.Serialization)
	}
	regPeer := func(w *wWorld, a common.Address) []byte {
		p := &nm.RegisterPeerParam{PeerPubkey: pkHex(w.extra), Address: a}
		return ser(p.Serialization)
	}
	// ---- node manager
	ms["nm.registerCandidate"] = &wMethod{NM, nm.REGISTER_CANDIDATE, func(w *wWorld, a common.Address) []byte { return regPeer(w, a) }}
	ms["nm.unRegisterCandidate"] = &wMethod{NM, nm.UNREGISTER_CANDIDATE, func(w *wWorld, a common.Address) []byte {
		w.must(nm.RegisterCandidate, []common.Address{a}, regPeer(w, a))
		return peerParam(w, a)
	}}
	ms["nm.quitNode"] = &wMethod{NM, nm.QUIT_NODE, func(w *wWorld, a common.Address) []byte {
		w.addFifthPeer(a)
		return peerParam(w, a)
	}}
	ms["nm.approveCandidate"] = &wMethod{NM, nm.APPROVE_CANDIDATE, func(w *wWorld, a common.Address) []byte {
		w.must(nm.RegisterCandidate, []common.Address{w.owner.Address}, regPeer(w, w.owner.Address))
		return peerParam(w, a)
	}}
	ms["nm.blackNode"] = &wMethod{NM, nm.BLACK_NODE, func(w *wWorld, a common.Address) []byte {
		w.addFifthPeer(w.owner.Address)
		p := &nm.PeerListParam{PeerPubkeyList: []string{pkHex(w.extra)}, Address: a}
		return ser(p.Serialization)
	}}
	ms["nm.whiteNode"] = &wMethod{NM, nm.WHITE_NODE, func(w *wWorld, a common.Address) []byte {
		pk, _ := hex.DecodeString(pkHex(w.extra))
		w.rawPut(utils.ConcatKey(NM, []byte(nm.BLACK_LIST), pk), []byte{1})
		return peerParam(w, a)
	}}
	ms["nm.updateConfig"] = &wMethod{NM, nm.UPDATE_CONFIG, func(w *wWorld, a common.Address) []byte {
		p := &nm.UpdateConfigParam{Configuration: &nm.Configuration{BlockMsgDelay: 6000, HashMsgDelay: 7000, PeerHandshakeTimeout: 11, MaxBlockChangeView: 20000}}
		return ser(p.Serialization)
	}}
	ms["nm.commitDpos"] = &wMethod{NM, nm.COMMIT_DPOS, func(w *wWorld, a common.Address) []byte { return nil }}
	// ---- cross chain manager
	ms["ccm.blackChain"] = &wMethod{CCM, ccmcom.BLACK_CHAIN, func(w *wWorld, a common.Address) []byte {
		p := &ccmcom.BlackChainParam{ChainID: 77}
		return ser(p.Serialization)
	}}
	ms["ccm.whiteChain"] = &wMethod{CCM, ccmcom.WHITE_CHAIN, func(w *wWorld, a common.Address) []byte {
		ns := w.sb.Service(nativekit.Tx(), nil)
		ccmcom.PutBlackChain(ns, 77)
		w.sb.Cache.Commit()
		p := &ccmcom.BlackChainParam{ChainID: 77}
		return ser(p.Serialization)
	}}
	// ---- side chain manager
	regSC := func(a common.Address, id uint64, name string) []byte {
		p := &scm.RegisterSideChainParam{Address: a, ChainId: id, Router: utils.ETH_ROUTER, Name: name, BlocksToWait: 1, CCMCAddress: []byte{0xcc}}
		return ser(func(s *common.ZeroCopySink) { p.Serialization(s) })
	}
	chainid := func(a common.Address, id uint64) []byte {
		p := &scm.ChainidParam{Chainid: id, Address: a}
		return ser(p.Serialization)
	}
	putSC := func(w *wWorld, owner common.Address, id uint64) {
		w.putSideChainRec(&scm.SideChain{Address: owner, ChainId: id, Router: utils.ETH_ROUTER, Name: "c", BlocksToWait: 1, CCMCAddress: []byte{0xcc}})
	}
	ms["scm.registerSideChain"] = &wMethod{SCM, scm.REGISTER_SIDE_CHAIN, func(w *wWorld, a common.Address) []byte { return regSC(a, 102, "n102") }}
	ms["scm.updateSideChain"] = &wMethod{SCM, scm.UPDATE_SIDE_CHAIN, func(w *wWorld, a common.Address) []byte {
		putSC(w, a, 100)
		return regSC(a, 100, "renamed")
	}}
	ms["scm.quitSideChain"] = &wMethod{SCM, scm.QUIT_SIDE_CHAIN, func(w *wWorld, a common.Address) []byte {
		putSC(w, a, 100)
		return chainid(a, 100)
	}}
	ms["scm.approveRegisterSideChain"] = &wMethod{SCM, scm.APPROVE_REGISTER_SIDE_CHAIN, func(w *wWorld, a common.Address) []byte {
		w.must(scm.RegisterSideChain, []common.Address{w.owner.Address}, regSC(w.owner.Address, 101, "n101"))
		return chainid(a, 101)
	}}
	ms["scm.approveUpdateSideChain"] = &wMethod{SCM, scm.APPROVE_UPDATE_SIDE_CHAIN, func(w *wWorld, a common.Address) []byte {
		putSC(w, w.owner.Address, 100)
		w.must(scm.UpdateSideChain, []common.Address{w.owner.Address}, regSC(w.owner.Address, 100, "renamed"))
		return chainid(a, 100)
	}}
	ms["scm.approveQuitSideChain"] = &wMethod{SCM, scm.APPROVE_QUIT_SIDE_CHAIN, func(w *wWorld, a common.Address) []byte {
		putSC(w, w.owner.Address, 100)
		w.must(scm.QuitSideChain, []common.Address{w.owner.Address}, chainid(w.owner.Address, 100))
		return chainid(a, 100)
	}}
	ms["scm.registerAsset"] = &wMethod{SCM, scm.REGISTER_ASSET, func(w *wWorld, a common.Address) []byte {
		ri := &scm.RippleExtraInfo{Operator: a, Sequence: 1, Quorum: 1, SignerNum: 1, Pks: [][]byte{{2, 3}}, ReserveAmount: big.NewInt(5)}
		w.putSideChainRec(&scm.SideChain{Address: a, ChainId: 123, Router: utils.RIPPLE_ROUTER, Name: "xrp", BlocksToWait: 1, CCMCAddress: []byte{0xcc},
			ExtraInfo: ser(ri.Serialization)})
		p := &scm.RegisterAssetParam{OperatorAddress: a, ChainId: 123, AssetMap: map[uint64][]byte{2: {0xaa}}, LockProxyMap: map[uint64][]byte{2: {0xbb}}}
		return ser(p.Serialization)
	}}
	ms["scm.updateFee"] = &wMethod{SCM, scm.UPDATE_FEE, func(w *wWorld, a common.Address) []byte {
		p := &scm.UpdateFeeParam{Address: a, ChainId: 123, View: 0, Fee: big.NewInt(9)}
		return ser(p.Serialization)
	}}
	// ---- relayer manager
	relList := func(w *wWorld, a common.Address) []byte {
		p := &relayer_manager.RelayerListParam{AddressList: []common.Address{w.stranger.Address}, Address: a}
		return ser(p.Serialization)
	}
	relAppr := func(a common.Address) []byte {
		p := &relayer_manager.ApproveRelayerParam{ID: 0, Address: a}
		return ser(p.Serialization)
	}
	ms["rm.registerRelayer"] = &wMethod{RM, relayer_manager.REGISTER_RELAYER, relList}
	ms["rm.removeRelayer"] = &wMethod{RM, relayer_manager.REMOVE_RELAYER, relList}
	ms["rm.approveRegisterRelayer"] = &wMethod{RM, relayer_manager.APPROVE_REGISTER_RELAYER, func(w *wWorld, a common.Address) []byte {
		w.must(relayer_manager.RegisterRelayer, []common.Address{w.owner.Address}, relList(w, w.owner.Address))
		return relAppr(a)
	}}
	ms["rm.approveRemoveRelayer"] = &wMethod{RM, relayer_manager.APPROVE_REMOVE_RELAYER, func(w *wWorld, a common.Address) []byte {
		w.must(relayer_manager.RemoveRelayer, []common.Address{w.owner.Address}, relList(w, w.owner.Address))
		return relAppr(a)
	}}
	// ---- neo3 state validators
	svList := func(w *wWorld, a common.Address) []byte {
		p := &neo3_state_manager.StateValidatorListParam{StateValidators: []string{pkHex(w.extra)}, Address: a}
		return ser(p.Serialization)
	}
	svAppr := func(a common.Address) []byte {
		p := &neo3_state_manager.ApproveStateValidatorParam{ID: 0, Address: a}
		return ser(p.Serialization)
	}
	ms["n3.registerStateValidator"] = &wMethod{N3, neo3_state_manager.REGISTER_STATE_VALIDATOR, svList}
	ms["n3.removeStateValidator"] = &wMethod{N3, neo3_state_manager.REMOVE_STATE_VALIDATOR, svList}
	ms["n3.approveRegisterStateValidator"] = &wMethod{N3, neo3_state_manager.APPROVE_REGISTER_STATE_VALIDATOR, func(w *wWorld, a common.Address) []byte {
		w.must(neo3_state_manager.RegisterStateValidator, []common.Address{w.owner.Address}, svList(w, w.owner.Address))
		return svAppr(a)
	}}
	ms["n3.approveRemoveStateValidator"] = &wMethod{N3, neo3_state_manager.APPROVE_REMOVE_STATE_VALIDATOR, func(w *wWorld, a common.Address) []byte {
		w.must(neo3_state_manager.RemoveStateValidator, []common.Address{w.owner.Address}, svList(w, w.owner.Address))
		return svAppr(a)
	}}
	// ---- signature manager
	ms["sm.addSignature"] = &wMethod{SM, signature_manager.ADD_SIGNATURE, func(w *wWorld, a common.Address) []byte {
		p := &signature_manager.AddSignatureParam{Address: a, SideChainID: 2, Subject: []byte("subject"), Signature: []byte("sig")}
		return ser(p.Serialization)
	}}
	// ---- header sync: trust-root installation on every router
	for _, fx := range allRouters() {
		fx := fx
		ms["hs.syncGenesisHeader:"+fx.name] = &wMethod{HS, hscom.SYNC_GENESIS_HEADER, func(w *wWorld, a common.Address) []byte {
			w.putSideChainRec(&scm.SideChain{ChainId: fx.chainID, Router: fx.router, Name: fx.name, BlocksToWait: 1, CCMCAddress: []byte{0xcc}, ExtraInfo: fx.extra})
			return genesisInput(fx, "g1")
		}}
	}
	return ms
}

func (w *wWorld) putSideChainRec(sc *scm.SideChain) {
	if w.argsOnly {
		return
	}
	ns := w.sb.Service(nativekit.Tx(), nil)
	if err := scm.PutSideChain(ns, sc); err != nil {
		panic(err)
	}
	w.sb.Cache.Commit()
}

// buildTx makes the real, really signed invoke transaction of a row.
func (w *wWorld) buildTx(m *wMethod, args []byte, row *wRow, nonce uint32) *types.Transaction {
	contract, method, payload := m.contract, m.method, args
	for i := len(row.Ctx) - 1; i >= 0; i-- { // innermost relay first
		p := &nstates.ContractInvokeParam{Address: contract, Method: method, Args: payload}
		payload = ser(p.Serialization)
		contract, method = w.addr(row.Ctx[i]), "fwd"
	}
	tx := ledgerkit.InvokeTx(contract, method, payload, nonce)
	var err error
	signers := append([]string{}, row.Signers...)
	sort.Strings(signers)
	n := len(w.vals)
	mOp := n - (n-1)/3
	var keys []keypair.PublicKey
	for _, v := range w.vals {
		keys = append(keys, v.PublicKey)
	}
	for _, s := range signers {
		switch s {
		case "op": // the operator: m-of-n over the consensus keys, signed by the first m validators
			tx, err = ledgerkit.MultiSignTx(tx, keys, uint16(mOp), w.vals[:mOp])
		case "opweak": // the right keys with a smaller threshold: another address
			tx, err = ledgerkit.MultiSignTx(tx, keys, uint16(mOp-1), w.vals[:mOp-1])
		case "op1": // 1-of-n over the validators' keys, signed by one validator
			tx, err = ledgerkit.MultiSignTx(tx, keys, 1, w.vals[:1])
		case "op4": // n-of-n, signed by all
			tx, err = ledgerkit.MultiSignTx(tx, keys, uint16(n), w.vals)
		case "opold": // the operator address of another validator set (v1, v2, v3, peer5)
			old := []*account.Account{w.vals[1], w.vals[2], w.vals[3], w.extra}
			var oldKeys []keypair.PublicKey
			for _, v := range old {
				oldKeys = append(oldKeys, v.PublicKey)
			}
			tx, err = ledgerkit.MultiSignTx(tx, oldKeys, uint16(mOp), old[:mOp])
		case "val":
			tx, err = ledgerkit.SignTx(tx, w.vals[0])
		case "owner":
			tx, err = ledgerkit.SignTx(tx, w.owner)
		case "stranger":
			tx, err = ledgerkit.SignTx(tx, w.stranger)
		default:
			panic("unknown signer " + s)
		}
		if err != nil {
			panic(err)
		}
	}
	if len(signers) == 0 {
		if tx, err = ledgerkit.Reparse(tx); err != nil {
			panic(err)
		}
	}
	if code := validation.VerifyTransaction(tx); code != ontErrors.ErrNoError {
		panic(fmt.Sprintf("driver built a transaction that does not verify: %v (signers %v)", code, signers))
	}
	return tx
}

func runWitnessRow(i int, row *wRow, ms map[string]*wMethod) wResult {
	res := wResult{Row: i}
	m, ok := ms[row.M]
	if !ok {
		vio.Fatal("driver has no method %q", row.M)
	}
	limbs := func(x []uint64) uint32 { return uint32(x[0]*65536 + x[1]) }
	var w *wWorld
	if row.M == "nm.commitDpos" {
		w = newWWorldAt(limbs(row.Vhv), limbs(row.Mbv))
	} else {
		w = newWWorld()
	}
	defer putSandbox(w.sb)
	var named common.Address
	if row.Named != "-" {
		named = w.addr(row.Named)
	}
	args := m.prepare(w, named)
	if row.M == "nm.commitDpos" {
		w.sb.Height = limbs(row.Hv)
	}
	tx := w.buildTx(m, args, row, uint32(i))
	if row.Path == "decoded" {
		// what a node executes when the transaction arrives inside a synced block: decoded from bytes, never verified again
		var e error
		if tx, e = ledgerkit.Reparse(tx); e != nil {
			panic(e)
		}
	}
	addrs, err := tx.GetSignatureAddresses()
	if err != nil {
		panic(err)
	}
	res.SigAddrs = len(addrs)
	before := w.sb.Dump()
	var callErr error
	res.Panic = vio.Safe(func() {
		w.sb.Cache.Reset()
		ns, e := native.NewNativeService(w.sb.Cache, tx, w.sb.Time, w.sb.Height, common.Uint256{}, 0, invokeCode(tx), false)
		if e != nil {
			panic(e)
		}
		_, callErr = ns.Invoke()
		if callErr != nil {
			w.sb.Cache.Reset()
		} else {
			w.sb.Cache.Commit()
		}
	})
	if res.Panic != "" {
		w.sb.Cache.Reset()
		callErr = fmt.Errorf("panic")
	}
	after := w.sb.Dump()
	d := nativekit.Diff(before, after)
	res.Changed = len(d) > 0
	if len(d) <= 6 {
		res.Diff = d
	}
	if callErr != nil {
		res.Got = "reject"
		res.Err = callErr.Error()
		if len(res.Err) > 240 {
			res.Err = res.Err[:240]
		}
	} else {
		res.Got = "accept"
	}
	return res
}

func invokeCode(tx *types.Transaction) []byte {
	return tx.Payload.(*payload.InvokeCode).Code
}

func witnessTable() {
	registerRelays()
	lines := vio.ReadLines()
	rows := make([]*wRow, len(lines))
	for i, l := range lines {
		rows[i] = new(wRow)
		if err := json.Unmarshal(l, rows[i]); err != nil {
			vio.Fatal("bad row %d: %v", i, err)
		}
	}
	ms := wMethods()
	out := make([]wResult, len(rows))
	vio.ParMap(len(rows), 8, func(i int) { out[i] = runWitnessRow(i, rows[i], ms) })
	for _, r := range out {
		vio.Emit(r)
	}
	var names []string
	for k := range ms {
		names = append(names, k)
	}
	sort.Strings(names)
	vio.Emit(map[string]interface{}{"summary": true, "rows": len(rows), "methods": names})
}
