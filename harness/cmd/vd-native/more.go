package main

import "github.com/polynetwork/poly/native"

type nativeHandler = native.Handler

func dispatchMore(cmd string, args []string) bool {
	switch cmd {
	case "witness-table":
		witnessTable()
	case "keys-table":
		keysTable()
	case "keys-record":
		keysRecord()
	case "keys-collide":
		keysCollide()
	case "keys-inject":
		keysInject()
	case "keys-concurrent":
		keysConcurrent()
	default:
		return false
	}
	return true
}
