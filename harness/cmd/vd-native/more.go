package main

func dispatchMore(cmd string, args []string) bool {
	return false
}
