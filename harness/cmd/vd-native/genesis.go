package main

// C19 P-REPLAY: every behaviour printed by TLC from spec/LightClient.tla (a list of steps install(g) / sync on one
// router) is executed on a fresh sandbox through the real header_sync entrance with the operator witness; after
// each call the result and a byte-exact snapshot of the header-sync contract storage are recorded.

import (
	"crypto/sha256"
	"encoding/hex"
	"encoding/json"
	"fmt"
	"sort"
	"time"

	"github.com/polynetwork/poly/common"
	scm "github.com/polynetwork/poly/native/service/governance/side_chain_manager"
	hs "github.com/polynetwork/poly/native/service/header_sync"
	hscom "github.com/polynetwork/poly/native/service/header_sync/common"
	"github.com/polynetwork/poly/native/service/utils"

	"verifh/kit/nativekit"
	"verifh/kit/vio"
)

type gStep struct {
	Op   string `json:"op"`
	R    string `json:"r"`
	G    string `json:"g"`
	Res  string `json:"res"`  // predicted by the guarded shape
	Inst bool   `json:"inst"` // predicted
}

type gEvent struct {
	Ev    string   `json:"ev"`
	T     int      `json:"t"`
	I     int      `json:"i"`
	R     string   `json:"r"`
	G     string   `json:"g"`
	Res   string   `json:"res"`
	Snap  string   `json:"snap"`
	Pred  string   `json:"pred"`
	Err   string   `json:"err,omitempty"`
	Panic string   `json:"panic,omitempty"`
	Keys  int      `json:"keys"`
	Diff  []string `json:"diff,omitempty"`
}

func snapshot(w *world) (string, map[string]string) {
	d := w.sb.DumpContract(utils.HeaderSyncContractAddress)
	if len(d) == 0 {
		return "", d
	}
	ks := make([]string, 0, len(d))
	for k := range d {
		ks = append(ks, k)
	}
	sort.Strings(ks)
	h := sha256.New()
	for _, k := range ks {
		h.Write([]byte(k))
		h.Write([]byte{'='})
		h.Write([]byte(d[k]))
		h.Write([]byte{'\n'})
	}
	return hex.EncodeToString(h.Sum(nil)), d
}

func newRouterWorld(fx *routerFx) *world {
	w := newWorld(4)
	w.sb.Height = 20000000 // above every router's start block (utils.CheckRouterStartBlock)
	w.putSideChain(&scm.SideChain{ChainId: fx.chainID, Router: fx.router, Name: fx.name, BlocksToWait: 1, CCMCAddress: []byte{0xcc}, ExtraInfo: fx.extra})
	return w
}

func genesisInput(fx *routerFx, g string) []byte {
	var gb []byte
	switch g {
	case "bad":
		gb = fx.genesis("g1")
		if len(gb) > 7 {
			gb = gb[:7]
		}
	default:
		gb = fx.genesis(g)
	}
	p := &hscom.SyncGenesisHeaderParam{ChainID: fx.chainID, GenesisHeader: gb}
	return sinkBytes(p.Serialization)
}

// call runs one entrance function with the operator witness; a panic of poly code counts as a failed call whose
// writes are discarded (and is reported).
func (w *world) callOp(h func() ([]byte, error)) (res string, errs string, pan string) {
	var err error
	pan = vio.Safe(func() { _, err = h() })
	if pan != "" {
		w.sb.Cache.Reset()
		return "err", "", pan
	}
	if err != nil {
		return "err", err.Error(), ""
	}
	return "ok", "", ""
}

func runBehaviour(t int, steps []gStep) []gEvent {
	fx := routerByName(steps[0].R)
	w := newRouterWorld(fx)
	defer putSandbox(w.sb)
	ids := map[string]string{"": "none"}
	var evs []gEvent
	evs = append(evs, gEvent{Ev: "reset", T: t})
	installedG := ""
	nsync := 0
	_, before := snapshot(w)
	for i, st := range steps {
		e := gEvent{T: t, I: i, R: st.R, G: st.G, Pred: st.Res}
		installCalled := false
		switch st.Op {
		case "install":
			e.Ev = "install"
			in := genesisInput(fx, st.G)
			e.Res, e.Err, e.Panic = w.callOp(func() ([]byte, error) {
				r, _, err := w.sb.Call(hs.SyncGenesisHeader, nativekit.Tx(w.op), in)
				return r, err
			})
			installCalled = true
		case "sync":
			e.Ev = "sync"
			if fx.syncer == nil {
				vio.Fatal("router %s has no sync adapter", fx.name)
			}
			g := installedG
			if g == "" {
				g = "g1"
			}
			p := &hscom.SyncBlockHeaderParam{ChainID: fx.chainID, Address: w.vals[0].Address, Headers: fx.syncer(fx, g, nsync)}
			in := sinkBytes(p.Serialization)
			e.Res, e.Err, e.Panic = w.callOp(func() ([]byte, error) {
				r, _, err := w.sb.Call(hs.SyncBlockHeader, nativekit.Tx(w.vals[0].Address), in)
				return r, err
			})
			if e.Res == "ok" {
				nsync++
			}
		default:
			vio.Fatal("unknown op %q", st.Op)
		}
		dg, after := snapshot(w)
		if installCalled && e.Res == "ok" && (installedG == "" || len(nativekit.Diff(before, after)) > 0) {
			installedG = st.G // the root now in force (a router without guard replaces it)
			nsync = 0
		}
		if _, ok := ids[dg]; !ok {
			ids[dg] = fmt.Sprintf("s%d", len(ids))
		}
		e.Snap = ids[dg]
		e.Keys = len(after)
		if d := nativekit.Diff(before, after); len(d) > 0 && len(d) <= 12 {
			e.Diff = d
		}
		before = after
		if len(e.Err) > 200 {
			e.Err = e.Err[:200]
		}
		evs = append(evs, e)
	}
	return evs
}

func genesisReplay() {
	lines := vio.ReadLines()
	out := make([][]gEvent, len(lines))
	vio.ParMap(len(lines), 8, func(i int) {
		var steps []gStep
		if err := json.Unmarshal(lines[i], &steps); err != nil {
			vio.Fatal("bad behaviour line %d: %v", i, err)
		}
		out[i] = runBehaviour(i, steps)
	})
	n := 0
	for _, evs := range out {
		for _, e := range evs {
			vio.Emit(e)
			n++
		}
	}
	vio.Emit(map[string]interface{}{"summary": true, "behaviours": len(lines), "events": n})
}

// genesisProbe: install g1 then g2 on every router and print what happened (development aid, also used by the
// check to make sure that every fixture is accepted by the unchanged entrance).
func genesisProbe() {
	for _, fx := range allRouters() {
		t0 := time.Now()
		steps := []gStep{{Op: "install", R: fx.name, G: "bad"}, {Op: "install", R: fx.name, G: "g1"}, {Op: "install", R: fx.name, G: "g1"}, {Op: "install", R: fx.name, G: "g2"}}
		if fx.syncer != nil {
			steps = []gStep{{Op: "sync", R: fx.name}, {Op: "install", R: fx.name, G: "g2"}, {Op: "sync", R: fx.name}, {Op: "sync", R: fx.name}, {Op: "install", R: fx.name, G: "g1"}, {Op: "sync", R: fx.name}}
		}
		evs := runBehaviour(0, steps)
		for _, e := range evs[1:] {
			vio.Emit(e)
		}
		vio.Emit(map[string]interface{}{"router": fx.name, "ms": time.Since(t0).Milliseconds()})
	}
	_ = common.ADDR_LEN
}
